(* Proofs/WindingConvexRef.v — the hypothesis of G1_convex does not depend on the reference direction:
   if the edge directions of a closed walk with only strict left turns are strictly increasing in angle measured
   anticlockwise in [0, 2 pi) from ANY non-zero direction r (for instance from the first edge itself), then the walk
   is convex_ccw (Proofs/WindingConvex.v, whose angular order is measured from (0,-1) after a rotation of the list). *)
From Coq Require Import List ZArith Bool Arith Lia ZifyBool Sorted.
From Koala Require Import Model.Lattice Proofs.WindingConvexTri Proofs.WindingConvex.
Import ListNotations.
Open Scope Z_scope.

(* angle of w measured anticlockwise from r, in [0, 2 pi):  hf r w  <->  angle in [0, pi) *)
Definition hf (r w : vec) : bool := (0 <? vcross r w) || ((vcross r w =? 0) && (0 <? vdot r w)).
Definition alt (r a b : vec) : bool :=
  (hf r a && negb (hf r b)) || (eqb (hf r a) (hf r b) && (0 <? vcross a b)).

(* ---------- sign analysis in coordinates where the reference is the positive x axis ---------- *)
Definition U (x y : Z) := y > 0 \/ (y = 0 /\ x > 0).
Definition Lo (x y : Z) := y < 0 \/ (y = 0 /\ x < 0).
Definition Hk (c d : Z) := c > 0 \/ (c = 0 /\ d > 0).
Definition NHk (c d : Z) := c < 0 \/ (c = 0 /\ d < 0).
Definition ALT (ha hb na nb : Prop) (c : Z) := (ha /\ nb) \/ (((ha /\ hb) \/ (na /\ nb)) /\ c > 0).

Section Leaves.
Variables ax ay bx by_ kx ky : Z.
Let cab := ax*by_ - ay*bx.
Let cka := kx*ay - ky*ax.
Let ckb := kx*by_ - ky*bx.
Let dka := kx*ax + ky*ay.
Let dkb := kx*bx + ky*by_.

Lemma Py : cab*ky + cka*by_ - ckb*ay = 0. Proof. unfold cab, cka, ckb. ring. Qed.
Lemma Px : cab*kx + cka*bx - ckb*ax = 0. Proof. unfold cab, cka, ckb. ring. Qed.

Ltac start := pose proof Py; pose proof Px; unfold ALT, U, Lo, Hk, NHk; intros.
Notation AK := (ALT (Hk cka dka) (Hk ckb dkb) (NHk cka dka) (NHk ckb dkb) cab).
Notation AK' := (ALT (Hk ckb dkb) (Hk cka dka) (NHk ckb dkb) (NHk cka dka) (- cab)).

(* a < b < k *)
Lemma l1_111 : U ax ay -> U bx by_ -> U kx ky -> cab > 0 -> ckb < 0 -> AK. Proof. start. nia. Qed.
Lemma l1_110 : U ax ay -> U bx by_ -> Lo kx ky -> cab > 0 -> AK. Proof. start. nia. Qed.
Lemma l1_100 : U ax ay -> Lo bx by_ -> Lo kx ky -> ckb < 0 -> AK. Proof. start. nia. Qed.
Lemma l1_000 : Lo ax ay -> Lo bx by_ -> Lo kx ky -> cab > 0 -> ckb < 0 -> AK. Proof. start. nia. Qed.
(* k <= a < b *)
Lemma l2_111 : U ax ay -> U bx by_ -> U kx ky -> cab > 0 -> cka >= 0 -> AK. Proof. start. nia. Qed.
Lemma l2_110 : U ax ay -> Lo bx by_ -> U kx ky -> cka >= 0 -> AK. Proof. start. nia. Qed.
Lemma l2_100 : Lo ax ay -> Lo bx by_ -> U kx ky -> cab > 0 -> AK. Proof. start. nia. Qed.
Lemma l2_000 : Lo ax ay -> Lo bx by_ -> Lo kx ky -> cab > 0 -> cka >= 0 -> AK. Proof. start. nia. Qed.
(* a < k <= b *)
Lemma l3_111 : U ax ay -> U bx by_ -> U kx ky -> cka < 0 -> ckb >= 0 -> AK'. Proof. start. nia. Qed.
Lemma l3_110 : U ax ay -> Lo bx by_ -> U kx ky -> cka < 0 -> AK'. Proof. start. nia. Qed.
Lemma l3_100 : U ax ay -> Lo bx by_ -> Lo kx ky -> ckb >= 0 -> AK'. Proof. start. nia. Qed.
Lemma l3_000 : Lo ax ay -> Lo bx by_ -> Lo kx ky -> cka < 0 -> ckb >= 0 -> AK'. Proof. start. nia. Qed.

Notation A0 x1 y1 x2 y2 := (ALT (U x1 y1) (U x2 y2) (Lo x1 y1) (Lo x2 y2) (x1*y2 - y1*x2)).

Ltac contra := exfalso; unfold U, Lo in *; lia.
Ltac fin := unfold ALT, U, Lo, cka, ckb in *; lia.

Lemma L1 : A0 ax ay bx by_ -> A0 bx by_ kx ky -> AK.
Proof.
  intros [[Ua Lb]|[[[Ua Ub]|[La Lb]] Cab]] [[Ub' Lk]|[[[Ub' Uk]|[Lb' Lk]] Cbk]]; try contra.
  - apply l1_100; auto. fin.
  - apply l1_110; auto.
  - apply l1_111; auto. fin.
  - apply l1_000; auto. fin.
Qed.

Lemma L2 : A0 ax ay bx by_ -> ~ A0 ax ay kx ky -> (kx <> 0 \/ ky <> 0) -> AK.
Proof.
  intros Hab Hak Nk.
  assert (Hk' : U kx ky \/ Lo kx ky) by (unfold U, Lo; lia).
  destruct Hab as [[Ua Lb]|[[[Ua Ub]|[La Lb]] Cab]]; destruct Hk' as [Uk|Lk].
  - apply l2_110; auto. fin.
  - exfalso. apply Hak. left. split; assumption.
  - apply l2_111; auto. fin.
  - exfalso. apply Hak. left. split; assumption.
  - apply l2_100; auto.
  - apply l2_000; auto. fin.
Qed.

Lemma L3 : A0 ax ay bx by_ -> A0 ax ay kx ky -> ~ A0 bx by_ kx ky -> AK'.
Proof.
  intros Hab Hak Hbk.
  destruct Hab as [[Ua Lb]|[[[Ua Ub]|[La Lb]] Cab]]; destruct Hak as [[Ua' Lk]|[[[Ua' Uk]|[La' Lk]] Cak]]; try contra.
  - apply l3_100; auto. fin.
  - apply l3_110; auto. fin.
  - exfalso. apply Hbk. left. split; assumption.
  - apply l3_111; auto; [fin|fin].
  - apply l3_000; auto; [fin|fin].
Qed.
End Leaves.

(* ---------- boolean <-> Prop ---------- *)
Definition upx (w : vec) : bool := (0 <? snd w) || ((snd w =? 0) && (0 <? fst w)).
Definition alt0 (a b : vec) : bool :=
  (upx a && negb (upx b)) || (eqb (upx a) (upx b) && (0 <? vcross a b)).

Lemma nz (v : vec) : v <> vzero -> fst v <> 0 \/ snd v <> 0.
Proof. destruct v as [x y]. unfold vzero. cbn. intro H. destruct (Z.eq_dec x 0); [right; congruence|left; trivial]. Qed.

Lemma alt0_prop ax ay bx by_ : (ax <> 0 \/ ay <> 0) -> (bx <> 0 \/ by_ <> 0) ->
  (alt0 (ax, ay) (bx, by_) = true <-> ALT (U ax ay) (U bx by_) (Lo ax ay) (Lo bx by_) (ax*by_ - ay*bx)).
Proof.
  intros Na Nb. unfold alt0, upx, ALT, U, Lo, vcross; cbn [fst snd].
  set (c := ax * by_ - ay * bx). clearbody c. lia.
Qed.

Lemma ck_nz ax ay kx ky : (ax <> 0 \/ ay <> 0) -> (kx <> 0 \/ ky <> 0) ->
  kx*ay - ky*ax <> 0 \/ kx*ax + ky*ay <> 0.
Proof.
  intros Na Nk.
  assert (Ax : ax*(kx*kx+ky*ky) = (kx*ax+ky*ay)*kx - (kx*ay-ky*ax)*ky) by ring.
  assert (Ay : ay*(kx*kx+ky*ky) = (kx*ax+ky*ay)*ky + (kx*ay-ky*ax)*kx) by ring.
  assert (0 < kx*kx+ky*ky) by nia.
  destruct (Z.eq_dec (kx*ay - ky*ax) 0) as [E1|]; [|left; assumption].
  destruct (Z.eq_dec (kx*ax + ky*ay) 0) as [E2|]; [|right; assumption].
  exfalso. rewrite E1, E2 in Ax, Ay. nia.
Qed.

Lemma alt_prop ax ay bx by_ kx ky : (ax <> 0 \/ ay <> 0) -> (bx <> 0 \/ by_ <> 0) -> (kx <> 0 \/ ky <> 0) ->
  (alt (kx, ky) (ax, ay) (bx, by_) = true <->
   ALT (Hk (kx*ay - ky*ax) (kx*ax + ky*ay)) (Hk (kx*by_ - ky*bx) (kx*bx + ky*by_))
       (NHk (kx*ay - ky*ax) (kx*ax + ky*ay)) (NHk (kx*by_ - ky*bx) (kx*bx + ky*by_)) (ax*by_ - ay*bx)).
Proof.
  intros Na Nb Nk. pose proof (ck_nz _ _ _ _ Na Nk) as Ha. pose proof (ck_nz _ _ _ _ Nb Nk) as Hb.
  unfold alt, hf, ALT, Hk, NHk, vcross, vdot; cbn [fst snd].
  set (c := ax * by_ - ay * bx) in *. set (cka := kx*ay - ky*ax) in *. set (ckb := kx*by_ - ky*bx) in *.
  set (dka := kx*ax + ky*ay) in *. set (dkb := kx*bx + ky*by_) in *. clearbody c cka ckb dka dkb. lia.
Qed.

(* the three change-of-reference facts, reference = positive x axis *)
Lemma LLb1 a b k : a <> vzero -> b <> vzero -> k <> vzero ->
  alt0 a b = true -> alt0 b k = true -> alt k a b = true.
Proof.
  intros Na Nb Nk. apply nz in Na, Nb, Nk. destruct a as [ax ay], b as [bx by_], k as [kx ky]. cbn [fst snd] in *.
  rewrite !alt0_prop, alt_prop by assumption. apply L1.
Qed.
Lemma LLb2 a b k : a <> vzero -> b <> vzero -> k <> vzero ->
  alt0 a b = true -> alt0 a k = false -> alt k a b = true.
Proof.
  intros Na Nb Nk. apply nz in Na, Nb, Nk. destruct a as [ax ay], b as [bx by_], k as [kx ky]. cbn [fst snd] in *.
  intros H1 H2. apply alt_prop; try assumption. apply L2; [apply alt0_prop; assumption| |assumption].
  intro H. apply alt0_prop in H; try assumption. congruence.
Qed.
Lemma LLb3 a b k : a <> vzero -> b <> vzero -> k <> vzero ->
  alt0 a b = true -> alt0 a k = true -> alt0 b k = false -> alt k b a = true.
Proof.
  intros Na Nb Nk. apply nz in Na, Nb, Nk. destruct a as [ax ay], b as [bx by_], k as [kx ky]. cbn [fst snd] in *.
  intros H1 H2 H3. apply alt_prop; try assumption.
  replace (bx * ay - by_ * ax) with (- (ax * by_ - ay * bx)) by ring.
  apply L3; [apply alt0_prop; assumption|apply alt0_prop; assumption|].
  intro H. apply alt0_prop in H; try assumption. congruence.
Qed.

(* ---------- any reference r: coordinates (r.w, r x w) turn r into the positive x axis ---------- *)
Definition fr (r w : vec) : vec := (vdot r w, vcross r w).

Lemma fr_cross r a b : vcross (fr r a) (fr r b) = vdot r r * vcross a b.
Proof. unfold fr, vcross, vdot; cbn [fst snd]. ring. Qed.
Lemma fr_dot r a b : vdot (fr r a) (fr r b) = vdot r r * vdot a b.
Proof. unfold fr, vcross, vdot; cbn [fst snd]. ring. Qed.
Lemma norm_pos r : r <> vzero -> 0 < vdot r r.
Proof. intro H. apply nz in H. unfold vdot. nia. Qed.
Lemma fr_nz r w : r <> vzero -> w <> vzero -> fr r w <> vzero.
Proof.
  intros Hr Hw E. apply nz in Hr, Hw. destruct r as [kx ky], w as [ax ay]. cbn [fst snd] in *.
  destruct (ck_nz ax ay kx ky Hw Hr) as [H|H]; apply H; unfold fr, vzero, vdot, vcross in E; cbn [fst snd] in E;
    injection E as E1 E2; lia.
Qed.
Lemma ltb_scale n c : 0 < n -> (0 <? n * c) = (0 <? c).
Proof. intro H. destruct (Z.ltb_spec 0 c); destruct (Z.ltb_spec 0 (n * c)); try reflexivity; nia. Qed.
Lemma eqb_scale n c : 0 < n -> (n * c =? 0) = (c =? 0).
Proof. intro H. destruct (Z.eqb_spec c 0); destruct (Z.eqb_spec (n * c) 0); try reflexivity; nia. Qed.

Lemma hf_upx r w : hf r w = upx (fr r w).
Proof. reflexivity. Qed.
Lemma alt_alt0 r a b : r <> vzero -> alt r a b = alt0 (fr r a) (fr r b).
Proof.
  intro Hr. unfold alt, alt0. rewrite !hf_upx, fr_cross, ltb_scale by (apply norm_pos; exact Hr). reflexivity.
Qed.
Lemma hf_fr r k w : r <> vzero -> hf k w = hf (fr r k) (fr r w).
Proof.
  intro Hr. unfold hf. rewrite fr_cross, fr_dot, !ltb_scale, eqb_scale by (apply norm_pos; exact Hr). reflexivity.
Qed.
Lemma alt_fr r k a b : r <> vzero -> alt k a b = alt (fr r k) (fr r a) (fr r b).
Proof.
  intro Hr. unfold alt. rewrite <- !(hf_fr r k) by exact Hr.
  rewrite fr_cross, ltb_scale by (apply norm_pos; exact Hr). reflexivity.
Qed.

Section Ref.
Variables r k : vec.
Hypothesis Hr : r <> vzero.
Hypothesis Hk : k <> vzero.

Lemma R1 a b : a <> vzero -> b <> vzero -> alt r a b = true -> alt r b k = true -> alt k a b = true.
Proof.
  intros Na Nb. rewrite !(alt_alt0 r) by exact Hr. rewrite (alt_fr r k) by exact Hr.
  apply LLb1; apply fr_nz; assumption.
Qed.
Lemma R2 a b : a <> vzero -> b <> vzero -> alt r a b = true -> alt r a k = false -> alt k a b = true.
Proof.
  intros Na Nb. rewrite !(alt_alt0 r) by exact Hr. rewrite (alt_fr r k) by exact Hr.
  apply LLb2; apply fr_nz; assumption.
Qed.
Lemma R3 a b : a <> vzero -> b <> vzero ->
  alt r a b = true -> alt r a k = true -> alt r b k = false -> alt k b a = true.
Proof.
  intros Na Nb. rewrite !(alt_alt0 r) by exact Hr. rewrite (alt_fr r k) by exact Hr.
  apply LLb3; apply fr_nz; assumption.
Qed.
End Ref.

(* the order of Proofs/WindingConvex.v is the one measured from (0,-1) *)
Definition kappa : vec := (0, -1).
Lemma vup_hf v : vup v = hf kappa v.
Proof. destruct v as [x y]. unfold vup, w_up, wP, hf, kappa, vcross, vdot; cbn [fst snd]. lia. Qed.
Lemma ang_lt_alt a b : ang_lt a b = alt kappa a b.
Proof. unfold ang_lt, alt. rewrite !vup_hf. reflexivity. Qed.

(* transitivity for any reference *)
Lemma alt0_trans a b c : alt0 a b = true -> alt0 b c = true -> alt0 a c = true.
Proof.
  (* alt0 a b = ang_lt (rho a) (rho b)  with  rho (x,y) = (y,-x) *)
  set (rho := fun w : vec => (snd w, - fst w)).
  assert (E : forall u v, alt0 u v = ang_lt (rho u) (rho v)).
  { intros [ux uy] [vx vy]. unfold alt0, ang_lt, upx, vup, w_up, wP, rho, vcross; cbn [fst snd].
    set (c1 := ux * vy - uy * vx). set (c2 := uy * - vx - - ux * vy). assert (c1 = c2) by (unfold c1, c2; ring).
    clearbody c1 c2. lia. }
  rewrite !E. apply ang_lt_trans.
Qed.
Lemma alt_trans r a b c : r <> vzero -> alt r a b = true -> alt r b c = true -> alt r a c = true.
Proof. intro Hr. rewrite !(alt_alt0 r) by exact Hr. apply alt0_trans. Qed.

(* ---------- lists ---------- *)
Definition ref_sorted (r : vec) (l : list vec) : Prop := Sorted (fun a b => alt r a b = true) l.

Lemma sorted_impl {A} (R R' : A -> A -> Prop) (P : A -> Prop) l :
  (forall a b, P a -> P b -> R a b -> R' a b) -> Forall P l -> Sorted R l -> Sorted R' l.
Proof.
  intros Himp Hp H. induction H as [|x l Hs IH Hh]; [constructor|].
  inversion Hp as [|? ? Px Pl]; subst. constructor; [apply IH; exact Pl|].
  destruct Hh as [|y l Hxy]; constructor. inversion Pl; subst. apply Himp; assumption.
Qed.

Lemma sorted_app_all {A} (R : A -> A -> Prop) l2 l1 :
  Sorted R l2 -> Sorted R l1 -> (forall b a, In b l2 -> In a l1 -> R b a) -> Sorted R (l2 ++ l1).
Proof.
  intros H2 H1 Hc. induction H2 as [|x l2 Hs IH Hh]; [exact H1|]. cbn [app]. constructor.
  - apply IH. intros b a Hb Ha. apply Hc; [right; exact Hb|exact Ha].
  - destruct Hh as [|y l2 Hxy]; cbn [app]; [|constructor; exact Hxy].
    destruct l1 as [|a l1]; constructor. apply Hc; left; reflexivity.
Qed.

Lemma strong_app_cross {A} (R : A -> A -> Prop) l1 l2 a b :
  StronglySorted R (l1 ++ l2) -> In a l1 -> In b l2 -> R a b.
Proof.
  induction l1 as [|x l1 IH]; [intros _ []|]. cbn [app]. intros H Ha Hb.
  inversion H as [|? ? Hs Hf]; subst. destruct Ha as [<-|Ha]; [|apply IH; assumption].
  rewrite Forall_forall in Hf. apply Hf. apply in_or_app. right. exact Hb.
Qed.

Section RefLists.
Variable r : vec.
Hypothesis Hr : r <> vzero.
Let g (w : vec) : bool := alt r w kappa.     (* w comes strictly before the direction (0,-1) *)

Lemma ref_split l : StronglySorted (fun a b => alt r a b = true) l ->
  exists l1 l2, l = l1 ++ l2 /\ Forall (fun v => g v = true) l1 /\ Forall (fun v => g v = false) l2.
Proof.
  induction 1 as [|x rest Hrest IH Hf]; [exists [], []; repeat split; constructor|].
  destruct (g x) eqn:E.
  - destruct IH as [l1 [l2 [-> [H1 H2]]]]. exists (x :: l1), l2. repeat split; [constructor; assumption|exact H2].
  - exists [], (x :: rest). repeat split; [constructor|]. constructor; [exact E|].
    eapply Forall_impl; [|exact Hf]. cbn beta. intros y Hxy. destruct (g y) eqn:Ey; [|reflexivity].
    unfold g in *. rewrite (alt_trans r x y kappa Hr Hxy Ey) in E. discriminate.
Qed.

Theorem ref_sorted_rotation vs : Forall (fun v => v <> vzero) vs -> ref_sorted r vs ->
  exists l1 l2, vs = l1 ++ l2 /\ ang_sorted (l2 ++ l1).
Proof.
  intros Hn Hs.
  assert (Hst : StronglySorted (fun a b => alt r a b = true) vs).
  { apply Sorted_StronglySorted; [|exact Hs]. intros a b c. apply alt_trans. exact Hr. }
  destruct (ref_split vs Hst) as [l1 [l2 [-> [G1 G2]]]]. exists l1, l2. split; [reflexivity|].
  destruct (strong_app _ _ _ Hst) as [S1 S2]. apply StronglySorted_Sorted in S1, S2.
  apply Forall_app in Hn. destruct Hn as [N1 N2].
  assert (Hkz : kappa <> vzero) by discriminate.
  unfold ang_sorted. apply sorted_app_all.
  - eapply (sorted_impl _ _ (fun v => v <> vzero /\ g v = false)); [| |exact S2].
    + intros a b [Na Ga] [Nb Gb] Hab. rewrite ang_lt_alt. apply (R2 r kappa Hr Hkz a b Na Nb Hab Ga).
    + rewrite Forall_forall in *. intros v Hv. split; [apply N2|apply G2]; exact Hv.
  - eapply (sorted_impl _ _ (fun v => v <> vzero /\ g v = true)); [| |exact S1].
    + intros a b [Na Ga] [Nb Gb] Hab. rewrite ang_lt_alt. apply (R1 r kappa Hr Hkz a b Na Nb Hab Gb).
    + rewrite Forall_forall in *. intros v Hv. split; [apply N1|apply G1]; exact Hv.
  - intros b a Hb Ha. rewrite ang_lt_alt. rewrite Forall_forall in *.
    apply (R3 r kappa Hr Hkz a b (N1 a Ha) (N2 b Hb)); [|apply G1; exact Ha|apply G2; exact Hb].
    exact (strong_app_cross _ l1 l2 a b Hst Ha Hb).
Qed.
End RefLists.

(* convexity stated with an arbitrary reference direction *)
Definition convex_ccw_ref (r : vec) (vs : list vec) : Prop :=
  r <> vzero /\ vs <> [] /\ vsum vs = vzero /\ left_turns vs /\ ref_sorted r vs.

Theorem convex_ccw_of_ref r vs : convex_ccw_ref r vs -> convex_ccw vs.
Proof.
  intros [Hr [Hne [Hs [Hlt Hsort]]]]. repeat split; try assumption.
  apply (ref_sorted_rotation r Hr); [apply left_turns_nonzero; exact Hlt|exact Hsort].
Qed.

Theorem G1_convex_ref r vs p :
  (convex_ccw_ref r vs -> winding vs = -1 /\ 0 < area2 (cumsum_from p vs)) /\
  (convex_ccw_ref r (rv vs) -> winding vs = 1 /\ area2 (cumsum_from p vs) < 0).
Proof.
  destruct (G1_convex vs p) as [H1 H2]. split; intro H; [apply H1|apply H2; unfold convex_cw];
    apply (convex_ccw_of_ref r); exact H.
Qed.
