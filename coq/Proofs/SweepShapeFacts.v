(* Proofs/SweepShapeFacts.v — the part of the plaquette-table hypotheses that follows directly from the
   code of the sweep (C02's own copy; the dart-disjointness and walk-consistency parts are C01's). *)
From Coq Require Import List ZArith Bool Arith Lia.
From Koala Require Import Model.Lattice Model.TableSpec.
Import ListNotations.

Definition from_valid_walk (L : lattice) (p : plaquette) : Prop :=
  exists w, p = mk_plaquette L w /\ walk_valid L w = true.

Lemma c02_sweep_one_inv : forall L adj d st vis acc,
  (forall vis0 acc0, st = Some (vis0, acc0) -> forall p, In p acc0 -> from_valid_walk L p) ->
  sweep_one L adj d st = Some (vis, acc) -> forall p, In p acc -> from_valid_walk L p.
Proof.
  intros L adj d st vis acc Hinv H. unfold sweep_one in H.
  destruct st as [[vis0 acc0]|]; [|discriminate].
  destruct (visited vis0 d).
  - inversion H; subst. apply (Hinv _ _ eq_refl).
  - destruct (trace L adj (fst d) (snd d)) as [w| | |]; try discriminate.
    destruct (walk_valid L w) eqn:Ev; inversion H; subst.
    + intros p [<-|Hp]. exists w. auto. apply (Hinv _ _ eq_refl). assumption.
    + apply (Hinv _ _ eq_refl).
Qed.

Lemma c02_sweep_fold_inv : forall L adj ds st vis acc,
  (forall vis0 acc0, st = Some (vis0, acc0) -> forall p, In p acc0 -> from_valid_walk L p) ->
  fold_left (fun st d => sweep_one L adj d st) ds st = Some (vis, acc) ->
  forall p, In p acc -> from_valid_walk L p.
Proof.
  intros L adj ds. induction ds as [|d r IH]; intros st vis acc Hinv H; simpl in H.
  - apply (Hinv vis acc H).
  - apply (IH (sweep_one L adj d st) vis acc); [|exact H].
    intros vis0 acc0 E. apply (c02_sweep_one_inv L adj d st vis0 acc0 Hinv E).
Qed.

(* every plaquette reported by the sweep is a traced walk that passed the three filters; in particular it
   has one direction per edge and uses no edge twice *)
Lemma c02_sweep_plaquettes_shape : forall L ps,
  find_all_plaquettes L = Some ps ->
  forall p, In p ps ->
    from_valid_walk L p /\
    length (p_dirs p) = length (p_edges p) /\ length (p_verts p) = length (p_edges p) /\
    nodupb (p_edges p) = true.
Proof.
  intros L ps H p Hp. unfold find_all_plaquettes in H.
  destruct (fold_left (fun st d => sweep_one L (adj_table L) d st) (all_darts L) (Some ([], []))) as [[vis acc]|] eqn:E;
    [|discriminate].
  inversion H; subst ps. apply in_rev in Hp.
  assert (F : from_valid_walk L p).
  { apply (c02_sweep_fold_inv L (adj_table L) (all_darts L) (Some ([], [])) vis acc); [|exact E|exact Hp].
    intros vis0 acc0 E0. inversion E0; subst. intros q []. }
  split. exact F. destruct F as [w [-> Hv]]. unfold mk_plaquette. simpl.
  unfold walk_dirs, walk_edges, walk_verts. rewrite !map_length. split. reflexivity. split. reflexivity.
  unfold walk_valid in Hv. rewrite !andb_true_iff in Hv. tauto.
Qed.
