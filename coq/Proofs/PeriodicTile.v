(* Proofs/PeriodicTile.v — C10, polygons for ALL sizes, part 3: tile_unit_cell is a periodic lattice in the sense
   of Proofs/PeriodicRot.v / PeriodicFaces.v, for every well-formed unit cell without (j,j) edges and all
   nx, ny >= 1; hence its plaquettes are the nx*ny translates of the faces of the cell (tile_plaquettes), given a
   CERTIFICATE for the cell (rotation system rots + face list faces) that is checked by the boolean
   cell_cert_okb — computed once per cell, independent of nx, ny. *)
From Coq Require Import List ZArith Bool Arith Lia ZifyBool Permutation Sorted.
From Koala Require Import Gen.TilingGen Model.Lattice Model.Tiling Proofs.SortFacts Proofs.LatticeFacts
     Proofs.SpecC01Facts Proofs.WindingConvexTri Proofs.WindingConvex Proofs.WindingConvexDec
     Proofs.TilingFacts Proofs.PeriodicRot Proofs.PeriodicFaces.
Import ListNotations.
Open Scope nat_scope.

(* ---------- the periodic data of a tiling ---------- *)
Definition t_N (nx ny : Z) : nat := Z.to_nat (nx * ny).
Definition t_ns (c : unit_cell) : nat := length (uc_points c).
Definition t_ne (c : unit_cell) : nat := length (uc_edges c).
Definition t_bj (c : unit_cell) (e : nat) : nat := Z.to_nat (fst (nth e (uc_edges c) (0, 0)%Z)).
Definition t_bk (c : unit_cell) (e : nat) : nat := Z.to_nat (snd (nth e (uc_edges c) (0, 0)%Z)).
Definition t_bc (c : unit_cell) (e : nat) : vec := nth e (uc_crossing c) (0, 0)%Z.
(* translation of cell n = my*nx + mx by a: ((my + ay) mod ny) * nx + (mx + ax) mod nx *)
Definition t_tr (nx ny : Z) (a : vec) (n : nat) : nat :=
  Z.to_nat (((Z.of_nat n / nx + snd a) mod ny) * nx + (Z.of_nat n mod nx + fst a) mod nx)%Z.
Definition t_eid (c : unit_cell) (n e : nat) : nat := n * t_ne c + e.
Definition t_ecell (c : unit_cell) (x : nat) : nat := x / t_ne c.
Definition t_ebase (c : unit_cell) (x : nat) : nat := x mod t_ne c.
(* edge vector of base edge e in the universal cover, in units of 1/uc_scale *)
Definition t_bvec (c : unit_cell) (e : nat) : vec :=
  let pj := nth (t_bj c e) (uc_points c) (0, 0)%Z in
  let pk := nth (t_bk c e) (uc_points c) (0, 0)%Z in
  (fst pk - fst pj + uc_scale c * fst (t_bc c e), snd pk - snd pj + uc_scale c * snd (t_bc c e))%Z.
Definition cell_simple (c : unit_cell) : bool := forallb (fun e => negb (fst e =? snd e)%Z) (uc_edges c).

(* ---------- the cells form a torus Z_nx x Z_ny acted on by translations ---------- *)
Section Torus.
  Variables nx ny : Z.
  Hypothesis Hx : (1 <= nx)%Z.
  Hypothesis Hy : (1 <= ny)%Z.

  Lemma t_tr_coords a n : n < t_N nx ny ->
    let z := Z.of_nat (t_tr nx ny a n) in
    (z mod nx = (Z.of_nat n mod nx + fst a) mod nx /\ z / nx = (Z.of_nat n / nx + snd a) mod ny /\
     0 <= z < nx * ny)%Z.
  Proof.
    intros Hn. cbv zeta. unfold t_tr.
    pose proof (Z.mod_pos_bound (Z.of_nat n / nx + snd a) ny ltac:(lia)) as B1.
    pose proof (Z.mod_pos_bound (Z.of_nat n mod nx + fst a) nx ltac:(lia)) as B2.
    rewrite Z2Nat.id by nia. rewrite cell_mod, cell_div by lia. repeat split; nia.
  Qed.

  Lemma t_tr_lt a n : n < t_N nx ny -> t_tr nx ny a n < t_N nx ny.
  Proof. intros Hn. destruct (t_tr_coords a n Hn) as (_ & _ & H). unfold t_N in *. lia. Qed.

  Lemma t_tr_eq a n m : n < t_N nx ny -> m < t_N nx ny ->
    (Z.of_nat m mod nx = (Z.of_nat n mod nx + fst a) mod nx)%Z ->
    (Z.of_nat m / nx = (Z.of_nat n / nx + snd a) mod ny)%Z -> t_tr nx ny a n = m.
  Proof.
    intros Hn Hm E1 E2. unfold t_tr. rewrite <- E1, <- E2.
    pose proof (Z.div_mod (Z.of_nat m) nx ltac:(lia)). lia.
  Qed.

  Lemma t_tr0 n : n < t_N nx ny -> t_tr nx ny vzero n = n.
  Proof.
    intros Hn. apply t_tr_eq; try assumption; unfold vzero; cbn [fst snd]; rewrite Z.add_0_r.
    - rewrite Z.mod_mod by lia. reflexivity.
    - symmetry. apply Z.mod_small. unfold t_N in Hn.
      split; [apply Z.div_pos; lia|apply Z.div_lt_upper_bound; lia].
  Qed.

  Lemma t_tr_add a b n : n < t_N nx ny -> t_tr nx ny a (t_tr nx ny b n) = t_tr nx ny (vadd a b) n.
  Proof.
    intros Hn. pose proof (t_tr_lt b n Hn) as Hb. pose proof (t_tr_lt (vadd a b) n Hn) as Hab.
    destruct (t_tr_coords b n Hn) as (B1 & B2 & _). destruct (t_tr_coords (vadd a b) n Hn) as (C1 & C2 & _).
    apply t_tr_eq; try assumption.
    - rewrite C1, B1. unfold vadd. cbn [fst snd]. rewrite (Zplus_mod_idemp_l (Z.of_nat n mod nx + fst b)). f_equal. lia.
    - rewrite C2, B2. unfold vadd. cbn [fst snd]. rewrite (Zplus_mod_idemp_l (Z.of_nat n / nx + snd b)). f_equal. lia.
  Qed.

  (* translations by a and a' move a cell to the same place only if a = a' modulo (nx, ny) *)
  Lemma t_tr_inj a a' n : n < t_N nx ny -> t_tr nx ny a n = t_tr nx ny a' n ->
    ((fst a - fst a') mod nx = 0 /\ (snd a - snd a') mod ny = 0)%Z.
  Proof.
    intros Hn E. destruct (t_tr_coords a n Hn) as (A1 & A2 & _). destruct (t_tr_coords a' n Hn) as (B1 & B2 & _).
    rewrite E in A1, A2. rewrite A1 in B1. rewrite A2 in B2. split.
    - replace (fst a - fst a')%Z with ((Z.of_nat n mod nx + fst a) - (Z.of_nat n mod nx + fst a'))%Z by lia.
      rewrite Zminus_mod, B1, Z.sub_diag. apply Z.mod_0_l. lia.
    - replace (snd a - snd a')%Z with ((Z.of_nat n / nx + snd a) - (Z.of_nat n / nx + snd a'))%Z by lia.
      rewrite Zminus_mod, B2, Z.sub_diag. apply Z.mod_0_l. lia.
  Qed.
End Torus.

(* ---------- the tiled lattice in natural-number indices ---------- *)
Section TileLattice.
  Variable c : unit_cell.
  Variables nx ny : Z.
  Hypothesis Hx : (1 <= nx)%Z.
  Hypothesis Hy : (1 <= ny)%Z.
  Hypothesis Hwf : wf_cell c = true.
  Let T := tile_unit_cell c nx ny.
  Let L := tile_lattice c nx ny.
  Let N := t_N nx ny.
  Let ns := t_ns c.
  Let ne := t_ne c.

  Lemma N_z : Z.of_nat N = (nx * ny)%Z.
  Proof. unfold N, t_N. rewrite Z2Nat.id by nia. reflexivity. Qed.

  Lemma cell_coords n : n < N ->
    (Z.of_nat n = (Z.of_nat n / nx) * nx + Z.of_nat n mod nx /\
     0 <= Z.of_nat n mod nx < nx /\ 0 <= Z.of_nat n / nx < ny)%Z.
  Proof. intros Hn. apply cell_decompose; [exact Hx|]. pose proof N_z. lia. Qed.

  Lemma tile_nE : nE L = N * ne.
  Proof.
    destruct (tile_structure c nx ny Hx Hy Hwf) as (_ & _ & He & _).
    unfold L, tile_lattice, to_lattice, nE. cbn [edges]. rewrite map_length.
    fold T. unfold zlen, n_uedges, zlen in He. fold T in He. apply Nat2Z.inj. rewrite Nat2Z.inj_mul, N_z. exact He.
  Qed.

  Lemma tile_nV : nV L = N * ns.
  Proof.
    destruct (tile_structure c nx ny Hx Hy Hwf) as (_ & Hp & _).
    unfold L, tile_lattice, to_lattice, nV. cbn [pos]. fold T.
    unfold zlen, n_sites, zlen in Hp. fold T in Hp. apply Nat2Z.inj. rewrite Nat2Z.inj_mul, N_z. exact Hp.
  Qed.

  Lemma idx_z n k e : Z.to_nat ((Z.of_nat n / nx * nx + Z.of_nat n mod nx) * Z.of_nat k + Z.of_nat e) = n * k + e.
  Proof. pose proof (Z.div_mod (Z.of_nat n) nx ltac:(lia)) as E.
    replace (Z.of_nat n / nx * nx + Z.of_nat n mod nx)%Z with (Z.of_nat n) by lia. lia. Qed.

  (* positions, edges and crossings of copy n *)
  Lemma tile_pos_nat n s : n < N -> s < ns ->
    pos_at L (n * ns + s) =
    (((fst (nth s (uc_points c) (0,0)) + (Z.of_nat n mod nx) * uc_scale c) * ny)%Z,
     ((snd (nth s (uc_points c) (0,0)) + (Z.of_nat n / nx) * uc_scale c) * nx)%Z).
  Proof.
    intros Hn Hs. destruct (cell_coords n Hn) as (En & Hmx & Hmy).
    destruct (tile_structure c nx ny Hx Hy Hwf) as (_ & _ & _ & _ & Hp & _).
    specialize (Hp (Z.of_nat n mod nx)%Z (Z.of_nat n / nx)%Z (Z.of_nat s) Hmx Hmy).
    unfold n_sites, zlen in Hp. specialize (Hp ltac:(unfold ns, t_ns in Hs; lia)).
    unfold znth in Hp. fold (t_ns c) in Hp. fold ns in Hp. rewrite idx_z, Nat2Z.id in Hp.
    unfold pos_at, L, tile_lattice, to_lattice. cbn [pos]. exact Hp.
  Qed.

  Lemma tile_edge_nat n e : n < N -> e < ne ->
    edge_at L (t_eid c n e) = (n * ns + t_bj c e, t_tr nx ny (t_bc c e) n * ns + t_bk c e) /\
    cross_at L (t_eid c n e) =
      (((Z.of_nat n mod nx + fst (t_bc c e)) / nx)%Z, ((Z.of_nat n / nx + snd (t_bc c e)) / ny)%Z) /\
    t_bj c e < ns /\ t_bk c e < ns.
  Proof.
    intros Hn He. destruct (cell_coords n Hn) as (En & Hmx & Hmy).
    destruct (wf_cell_spec c Hwf) as (HS & Hl & Hcr & Hed).
    destruct (tile_structure c nx ny Hx Hy Hwf) as (_ & _ & _ & _ & _ & Hs).
    assert (Hez : (0 <= Z.of_nat e < n_uedges c)%Z) by (unfold n_uedges, zlen; unfold ne, t_ne in He; lia).
    specialize (Hs (Z.of_nat n mod nx)%Z (Z.of_nat n / nx)%Z (Z.of_nat e) Hmx Hmy Hez). cbv zeta in Hs.
    destruct Hs as [Hs1 Hs2]. specialize (Hed _ Hez). unfold n_sites, zlen in Hed.
    unfold znth in *. unfold n_uedges, n_sites, zlen in Hs1, Hs2. rewrite Nat2Z.id in *.
    fold (t_ne c) in Hs1, Hs2. fold ne in Hs1, Hs2. rewrite idx_z in Hs1, Hs2.
    assert (Bj : t_bj c e < ns) by (unfold t_bj, ns, t_ns; lia).
    assert (Bk : t_bk c e < ns) by (unfold t_bk, ns, t_ns; lia).
    split; [|split; [|split; assumption]].
    - unfold edge_at, L, tile_lattice, to_lattice. cbn [edges].
      change (0, 0) with ((fun e0 : Z * Z => (Z.to_nat (fst e0), Z.to_nat (snd e0))) (0, 0)%Z).
      rewrite map_nth. unfold t_eid. fold ne. rewrite Hs1. cbn [fst snd]. f_equal.
      + unfold t_bj. fold (t_ns c). fold ns. replace (Z.of_nat n / nx * nx + Z.of_nat n mod nx)%Z with (Z.of_nat n) by lia. nia.
      + unfold t_bk, t_tr, t_bc. fold (t_ns c). fold ns.
        pose proof (Z.mod_pos_bound (Z.of_nat n / nx + snd (nth e (uc_crossing c) (0, 0)%Z)) ny ltac:(lia)) as B1.
        pose proof (Z.mod_pos_bound (Z.of_nat n mod nx + fst (nth e (uc_crossing c) (0, 0)%Z)) nx ltac:(lia)) as B2.
        rewrite Z2Nat.inj_add, Z2Nat.inj_mul, Nat2Z.id by nia. lia.
    - unfold cross_at, L, tile_lattice, to_lattice. cbn [crossing]. unfold t_eid. fold ne.
      exact Hs2.
  Qed.

  Lemma tile_scale : scale L = (uc_scale c * nx * ny)%Z.
  Proof. reflexivity. Qed.

  Lemma tile_evec n e : n < N -> e < ne -> evec L (t_eid c n e) = asc ny nx (t_bvec c e).
  Proof.
    intros Hn He. destruct (tile_edge_nat n e Hn He) as (E1 & E2 & Bj & Bk).
    pose proof (t_tr_lt nx ny Hx Hy (t_bc c e) n Hn) as Hn'. fold N in Hn'.
    destruct (t_tr_coords nx ny Hx Hy (t_bc c e) n Hn) as (C1 & C2 & _).
    unfold evec. rewrite E1, E2, tile_scale, (tile_pos_nat n _ Hn Bj), (tile_pos_nat _ _ Hn' Bk), C1, C2.
    destruct (cell_coords n Hn) as (En & Hmx & Hmy).
    set (mx := (Z.of_nat n mod nx)%Z) in *. set (my := (Z.of_nat n / nx)%Z) in *.
    set (cx := fst (t_bc c e)). set (cy := snd (t_bc c e)).
    pose proof (Z.div_mod (mx + cx) nx ltac:(lia)) as Dx. pose proof (Z.div_mod (my + cy) ny ltac:(lia)) as Dy.
    unfold t_bvec, asc, vadd, vsub, vscale. cbn [fst snd]. fold cx cy.
    set (qx := ((mx + cx) / nx)%Z) in *. set (qy := ((my + cy) / ny)%Z) in *.
    replace ((mx + cx) mod nx)%Z with (mx + cx - nx * qx)%Z by lia.
    replace ((my + cy) mod ny)%Z with (my + cy - ny * qy)%Z by lia.
    f_equal; ring.
  Qed.
End TileLattice.

(* ---------- boolean helpers ---------- *)
Fixpoint ssortedb {A} (R : A -> A -> bool) (l : list A) : bool :=
  match l with [] => true | a :: r => forallb (R a) r && ssortedb R r end.
Lemma ssortedb_spec {A} (R : A -> A -> bool) l : ssortedb R l = true -> StronglySorted (fun a b => R a b = true) l.
Proof.
  induction l as [|a r IH]; intros H; [constructor|]. cbn [ssortedb] in H. apply andb_true_iff in H as [H1 H2].
  constructor; [apply IH, H2|]. rewrite forallb_forall in H1. apply Forall_forall. exact H1.
Qed.
Lemma ssortedb_mono {A} (R R' : A -> A -> bool) l :
  (forall x y, R x y = true -> R' x y = true) -> ssortedb R l = true -> ssortedb R' l = true.
Proof.
  intros Himp. induction l as [|a r IH]; intros H; [reflexivity|]. cbn [ssortedb] in *.
  apply andb_true_iff in H as [H1 H2]. apply andb_true_iff. split; [|apply IH, H2].
  rewrite forallb_forall in *. intros x Hx. apply Himp, H1, Hx.
Qed.
Lemma strongly_NoDup_map {A B} (f : A -> B) l : StronglySorted (fun x y => f x <> f y) l -> NoDup (map f l).
Proof.
  induction 1 as [|a l S IH F]; [constructor|]. cbn [map]. constructor; [|exact IH].
  intro Hin. apply in_map_iff in Hin as (y & Ey & Hy). rewrite Forall_forall in F. apply (F y Hy). symmetry. exact Ey.
Qed.

Fixpoint dnodupb (l : list (nat * bool)) : bool :=
  match l with [] => true | a :: r => negb (existsb (dart_eqb a) r) && dnodupb r end.
Lemma dnodupb_spec l : dnodupb l = true -> NoDup l.
Proof.
  induction l as [|a r IH]; intros H; [constructor|]. cbn [dnodupb] in H. apply andb_true_iff in H as [H1 H2].
  constructor; [|apply IH, H2]. intro Hin. apply negb_true_iff in H1.
  assert (existsb (dart_eqb a) r = true) by (apply existsb_exists; exists a; split; [exact Hin|apply dart_eqb_eq; reflexivity]).
  congruence.
Qed.
Definition both (f : bool -> bool) : bool := f true && f false.
Lemma both_spec f : both f = true -> forall b, f b = true.
Proof. unfold both. intros H b. apply andb_true_iff in H. destruct b; tauto. Qed.

(* ---------- certificate of a unit cell: rotation system + faces in the universal cover ---------- *)
Section Cert.
  Variable c : unit_cell.
  Variable rots : list (list (nat * bool)).
  Variable faces : list (list (nat * bool)).
  Definition c_brot (s : nat) : list (nat * bool) := nth s rots [].
  Definition c_hv := hvec (t_bvec c).

  Definition rot_okb : bool :=
    forallb (fun s =>
      forallb (fun e => both (fun b => Bool.eqb (existsb (dart_eqb (e, b)) (c_brot s))
                                               ((if b then t_bj c e else t_bk c e) =? s))) (seq 0 (t_ne c))
      && forallb (fun h => fst h <? t_ne c) (c_brot s)
      && ssortedb (fun h1 h2 => Lattice.ang_lt (c_hv h2) (c_hv h1)) (c_brot s)) (seq 0 (t_ns c)).
  Definition face_okb (f : list (nat * bool)) : bool :=
    match f with [] => false | _ => true end
    && forallb (fun d => fst d <? t_ne c) f
    && forallb (fun ab => match bnd (t_bj c) (t_bk c) c_brot (fst ab) with
                          | Some x => dart_eqb x (snd ab) | None => false end) (cycp (0, true) f)
    && veqb (vsum (map (dshift (t_bc c)) f)) vzero
    && convex_ccwb (map c_hv f).
  Definition cell_cert_okb : bool :=
    rot_okb && forallb face_okb faces && dnodupb (concat faces)
    && forallb (fun e => both (fun b => existsb (dart_eqb (e, b)) (concat faces))) (seq 0 (t_ne c))
    && forallb (fun e => negb (veqb (t_bvec c e) vzero)) (seq 0 (t_ne c)).

  Hypothesis Hok : cell_cert_okb = true.

  Lemma cert_parts : rot_okb = true /\ forallb face_okb faces = true /\ dnodupb (concat faces) = true /\
    forallb (fun e => both (fun b => existsb (dart_eqb (e, b)) (concat faces))) (seq 0 (t_ne c)) = true /\
    forallb (fun e => negb (veqb (t_bvec c e) vzero)) (seq 0 (t_ne c)) = true.
  Proof. unfold cell_cert_okb in Hok. rewrite !andb_true_iff in Hok. tauto. Qed.

  Lemma cert_rot s : s < t_ns c ->
    (forall e b, In (e, b) (c_brot s) <-> e < t_ne c /\ (if b then t_bj c e else t_bk c e) = s) /\
    StronglySorted (fun h1 h2 => Lattice.ang_lt (c_hv h2) (c_hv h1) = true) (c_brot s).
  Proof.
    intros Hs. destruct cert_parts as (Hr & _). unfold rot_okb in Hr. rewrite forallb_forall in Hr.
    specialize (Hr s ltac:(apply in_seq; lia)). rewrite !andb_true_iff in Hr. destruct Hr as [[H1 H2] H3].
    rewrite forallb_forall in H1, H2. split; [|apply ssortedb_spec in H3; exact H3].
    intros e b. split.
    - intros Hin. pose proof (H2 _ Hin) as He. cbn [fst] in He. apply Nat.ltb_lt in He. split; [exact He|].
      pose proof (both_spec _ (H1 e ltac:(apply in_seq; lia)) b) as Hb. cbv beta in Hb.
      assert (Hex : existsb (dart_eqb (e, b)) (c_brot s) = true).
      { apply existsb_exists. exists (e, b). split; [exact Hin|apply dart_eqb_eq; reflexivity]. }
      rewrite Hex in Hb. apply eqb_prop in Hb. symmetry in Hb. apply Nat.eqb_eq in Hb. exact Hb.
    - intros [He Eq]. pose proof (both_spec _ (H1 e ltac:(apply in_seq; lia)) b) as Hb. cbv beta in Hb.
      apply Nat.eqb_eq in Eq. rewrite Eq in Hb. apply eqb_prop in Hb.
      apply existsb_exists in Hb as (x & Hx & Ex). apply dart_eqb_eq in Ex. subst x. exact Hx.
  Qed.

  Lemma cert_face f : In f faces ->
    f <> [] /\ (forall d, In d f -> fst d < t_ne c) /\
    Forall (fun ab => bnd (t_bj c) (t_bk c) c_brot (fst ab) = Some (snd ab)) (cycp (0, true) f) /\
    vsum (map (dshift (t_bc c)) f) = vzero /\ convex_ccw (map c_hv f).
  Proof.
    intros Hf. destruct cert_parts as (_ & Hfs & _). rewrite forallb_forall in Hfs. specialize (Hfs f Hf).
    unfold face_okb in Hfs. rewrite !andb_true_iff in Hfs. destruct Hfs as [[[[H1 H2] H3] H4] H5].
    split; [destruct f; [discriminate|discriminate]|]. split; [|split; [|split]].
    - rewrite forallb_forall in H2. intros d Hd. apply Nat.ltb_lt, H2, Hd.
    - rewrite forallb_forall in H3. apply Forall_forall. intros ab Hab. specialize (H3 ab Hab). cbv beta in H3.
      match type of H3 with (match ?t with _ => _ end = true) => destruct t as [x|] eqn:Eb end; [|discriminate H3].
      apply dart_eqb_eq in H3. subst x. exact Eb.
    - apply veqb_eq, H4.
    - apply convex_ccwb_spec, H5.
  Qed.

  Lemma cert_cover e b : e < t_ne c -> In (e, b) (concat faces).
  Proof.
    intros He. destruct cert_parts as (_ & _ & _ & Hc & _). rewrite forallb_forall in Hc.
    pose proof (both_spec _ (Hc e ltac:(apply in_seq; lia)) b) as Hb. cbv beta in Hb.
    apply existsb_exists in Hb as (x & Hx & Ex). apply dart_eqb_eq in Ex. subst x. exact Hx.
  Qed.

  Lemma cert_nz e : e < t_ne c -> t_bvec c e <> vzero.
  Proof.
    intros He. destruct cert_parts as (_ & _ & _ & _ & Hz). rewrite forallb_forall in Hz.
    specialize (Hz e ltac:(apply in_seq; lia)). apply negb_true_iff in Hz. intro X. apply veqb_eq in X. congruence.
  Qed.
End Cert.

(* ---------- no edge twice on a face: the only condition that depends on the numbers of cells ---------- *)
(* (base edge, offset of the cell of its copy from the tail cell of the first dart) along a base face *)
Fixpoint foffs (c : unit_cell) (acc : vec) (f : list (nat * bool)) : list (nat * vec) :=
  match f with
  | [] => []
  | d :: r => (fst d, if snd d then acc else vadd (vneg (t_bc c (fst d))) acc)
              :: foffs c (vadd (dshift (t_bc c) d) acc) r
  end.
Definition pair_okb (nx ny : Z) (x y : nat * vec) : bool :=
  negb (fst x =? fst y) ||
  negb (((fst (snd x) - fst (snd y)) mod nx =? 0)%Z && ((snd (snd x) - snd (snd y)) mod ny =? 0)%Z).
Definition edges_okb (c : unit_cell) (nx ny : Z) (faces : list (list (nat * bool))) : bool :=
  forallb (fun f => ssortedb (pair_okb nx ny) (foffs c vzero f)) faces.
(* a size-independent sufficient condition: copies of one base edge on one face sit in neighbouring cells *)
Definition pair_smallb (x y : nat * vec) : bool :=
  negb (fst x =? fst y) ||
  (let dx := (fst (snd x) - fst (snd y))%Z in let dy := (snd (snd x) - snd (snd y))%Z in
   (Z.abs dx <=? 1)%Z && (Z.abs dy <=? 1)%Z && negb ((dx =? 0)%Z && (dy =? 0)%Z)).
Definition edges_smallb (c : unit_cell) (faces : list (list (nat * bool))) : bool :=
  forallb (fun f => ssortedb pair_smallb (foffs c vzero f)) faces.

Lemma small_mod n d : (2 <= n)%Z -> (Z.abs d <= 1)%Z -> (d mod n = 0)%Z -> d = 0%Z.
Proof.
  intros Hn Hd Hm. pose proof (Z.div_mod d n ltac:(lia)) as E. rewrite Hm in E.
  set (q := (d / n)%Z) in *. destruct (Z.lt_trichotomy q 0) as [H|[H|H]]; nia.
Qed.

Lemma edges_small_ok c nx ny faces : (2 <= nx)%Z -> (2 <= ny)%Z ->
  edges_smallb c faces = true -> edges_okb c nx ny faces = true.
Proof.
  intros Hx Hy H. unfold edges_smallb, edges_okb in *. rewrite forallb_forall in *. intros f Hf.
  eapply ssortedb_mono; [|apply H, Hf]. intros x y. unfold pair_smallb, pair_okb.
  destruct (negb (fst x =? fst y)); [reflexivity|]. cbn [orb]. cbv zeta.
  intros Hs. rewrite !andb_true_iff in Hs. destruct Hs as [[H1 H2] H3].
  apply negb_true_iff. apply negb_true_iff in H3. apply andb_false_iff.
  destruct (Z.eqb_spec ((fst (snd x) - fst (snd y)) mod nx) 0) as [E1|]; [|left; reflexivity].
  destruct (Z.eqb_spec ((snd (snd x) - snd (snd y)) mod ny) 0) as [E2|]; [|right; reflexivity].
  exfalso. apply small_mod in E1; [|lia|lia]. apply small_mod in E2; [|lia|lia].
  rewrite E1, E2 in H3. discriminate H3.
Qed.

(* ... or only in x-neighbouring cells (then ny = 1 is allowed as well) *)
Definition pair_xsmallb (x y : nat * vec) : bool :=
  negb (fst x =? fst y) || (Z.abs (fst (snd x) - fst (snd y)) =? 1)%Z.
Definition edges_xsmallb (c : unit_cell) (faces : list (list (nat * bool))) : bool :=
  forallb (fun f => ssortedb pair_xsmallb (foffs c vzero f)) faces.
Lemma edges_xsmall_ok c nx ny faces : (2 <= nx)%Z ->
  edges_xsmallb c faces = true -> edges_okb c nx ny faces = true.
Proof.
  intros Hx H. unfold edges_xsmallb, edges_okb in *. rewrite forallb_forall in *. intros f Hf.
  eapply ssortedb_mono; [|apply H, Hf]. intros x y. unfold pair_xsmallb, pair_okb.
  destruct (negb (fst x =? fst y)); [reflexivity|]. cbn [orb]. intros Hs. apply Z.eqb_eq in Hs.
  apply negb_true_iff. apply andb_false_iff. left. apply Z.eqb_neq. intro E1.
  apply small_mod in E1; [|lia|lia]. rewrite E1 in Hs. discriminate Hs.
Qed.

Lemma StronglySorted_impl_in {A} (R R' : A -> A -> Prop) l :
  (forall x y, In x l -> In y l -> R x y -> R' x y) -> StronglySorted R l -> StronglySorted R' l.
Proof.
  intros Himp. induction 1 as [|a l S IH F]; constructor.
  - apply IH. intros x y Hx Hy. apply Himp; right; assumption.
  - rewrite Forall_forall in *. intros y Hy. apply Himp; [left; reflexivity|right; exact Hy|apply F, Hy].
Qed.

Section TileEdges.
  Variable c : unit_cell.
  Variables nx ny : Z.
  Hypothesis Hx : (1 <= nx)%Z.
  Hypothesis Hy : (1 <= ny)%Z.
  (* any lattice and any injective numbering of the edge copies (tile_unit_cell: t_eid c) *)
  Variable L : lattice.
  Variable eid : nat -> nat -> nat.
  Let N := t_N nx ny.
  (* any action of Z^2 on the cells that is free modulo (nx, ny) (tile_unit_cell: t_tr nx ny) *)
  Variable tr : vec -> nat -> nat.
  Hypothesis Htr_lt : forall a n, n < N -> tr a n < N.
  Hypothesis Htr0 : forall n, n < N -> tr vzero n = n.
  Hypothesis Htr_add : forall a b n, n < N -> tr a (tr b n) = tr (vadd a b) n.
  Hypothesis Htr_inj : forall a a' n, n < N -> tr a n = tr a' n ->
    ((fst a - fst a') mod nx = 0 /\ (snd a - snd a') mod ny = 0)%Z.
  Hypothesis Hinj : forall n e n' e', n < N -> e < t_ne c -> n' < N -> e' < t_ne c ->
    eid n e = eid n' e' -> n = n' /\ e = e'.

  Lemma foffs_fst f : forall acc x, In x (foffs c acc f) -> exists d, In d f /\ fst x = fst d.
  Proof.
    induction f as [|d r IH]; intros acc x Hx'; [destruct Hx'|]. cbn [foffs] in Hx'. destruct Hx' as [<-|Hx'].
    - exists d. split; [left; reflexivity|reflexivity].
    - destruct (IH _ _ Hx') as (d' & Hd' & E). exists d'. split; [right; exact Hd'|exact E].
  Qed.

  Lemma twalk_edges_offs f : forall acc t, t < N ->
    walk_edges (twalk L (t_bc c) tr eid (tr acc t) f)
    = map (fun eo => eid (tr (snd eo) t) (fst eo)) (foffs c acc f).
  Proof.
    induction f as [|d r IH]; intros acc t Ht; [reflexivity|]. cbn [twalk foffs map walk_edges]. f_equal.
    - unfold mkstep, ecl. cbn [fst snd]. destruct (snd d); [reflexivity|].
      rewrite Htr_add by exact Ht. reflexivity.
    - rewrite Htr_add by exact Ht. apply (IH _ t Ht).
  Qed.

  Lemma tile_edges_nodup faces f t : edges_okb c nx ny faces = true -> In f faces ->
    (forall d, In d f -> fst d < t_ne c) -> t < N ->
    NoDup (walk_edges (twalk L (t_bc c) tr eid t f)).
  Proof.
    intros Hok Hf He Ht. rewrite <- (Htr0 t Ht) at 1. rewrite twalk_edges_offs by exact Ht.
    apply strongly_NoDup_map. unfold edges_okb in Hok. rewrite forallb_forall in Hok.
    pose proof (ssortedb_spec _ _ (Hok f Hf)) as S. eapply StronglySorted_impl_in; [|exact S].
    intros x y Ix Iy R. cbv beta in R. intro Eq.
    destruct (foffs_fst _ _ _ Ix) as (dx & Hdx & Ex). destruct (foffs_fst _ _ _ Iy) as (dy & Hdy & Ey).
    pose proof (He _ Hdx) as Lx. pose proof (He _ Hdy) as Ly. rewrite <- Ex in Lx. rewrite <- Ey in Ly.
    apply Hinj in Eq as [Ec Ee]; [|apply Htr_lt, Ht|exact Lx|apply Htr_lt, Ht|exact Ly].
    apply Htr_inj in Ec as [M1 M2]; [|exact Ht].
    unfold pair_okb in R. rewrite Ee, Nat.eqb_refl, M1, M2 in R. discriminate R.
  Qed.
End TileEdges.

(* ================================================================== the tiling theorem *)
Section TileTheorem.
  Variable c : unit_cell.
  Variables nx ny : Z.
  Variable rots faces : list (list (nat * bool)).
  Hypothesis Hx : (1 <= nx)%Z.
  Hypothesis Hy : (1 <= ny)%Z.
  Hypothesis Hwf : wf_cell c = true.
  Hypothesis Hsimple : cell_simple c = true.
  Hypothesis Hcert : cell_cert_okb c rots faces = true.
  Hypothesis Hedges : edges_okb c nx ny faces = true.
  Let L := tile_lattice c nx ny.
  Let N := t_N nx ny.
  Let ns := t_ns c.
  Let ne := t_ne c.

  Lemma tile_idx x : x < N * ne -> x / ne < N /\ x mod ne < ne /\ t_eid c (x / ne) (x mod ne) = x.
  Proof.
    intros Hx'. assert (Hne : ne <> 0) by (intro Z0; rewrite Z0 in Hx'; lia).
    split; [apply Nat.div_lt_upper_bound; [exact Hne|lia]|]. split; [apply Nat.mod_upper_bound, Hne|].
    unfold t_eid. fold ne. pose proof (Nat.div_mod x ne Hne). lia.
  Qed.

  Lemma tile_simple e : e < ne -> t_bj c e <> t_bk c e.
  Proof.
    intros He. unfold cell_simple in Hsimple. rewrite forallb_forall in Hsimple.
    assert (Hin : In (nth e (uc_edges c) (0, 0)%Z) (uc_edges c)) by (apply nth_In; exact He).
    specialize (Hsimple _ Hin). destruct (wf_cell_spec c Hwf) as (_ & _ & _ & Hed).
    specialize (Hed (Z.of_nat e) ltac:(unfold n_uedges, zlen; unfold ne, t_ne in He; lia)).
    unfold znth in Hed. rewrite Nat2Z.id in Hed. unfold t_bj, t_bk. lia.
  Qed.

  Lemma tile_good : good L.
  Proof.
    pose proof (tile_nE c nx ny Hx Hy Hwf) as HE. pose proof (tile_nV c nx ny Hx Hy Hwf) as HV.
    fold L N ne in HE. fold L N ns in HV.
    assert (Hall : forall x, In x (edges L) -> (fst x <? nV L) && (snd x <? nV L) = true /\ fst x <> snd x).
    { intros x Hin. apply (In_nth _ _ (0, 0)) in Hin as (i & Hi & <-). fold (nE L) in Hi. rewrite HE in Hi.
      destruct (tile_idx i Hi) as (Hn & He & Ei). fold (edge_at L i). rewrite <- Ei.
      destruct (tile_edge_nat c nx ny Hx Hy Hwf _ _ Hn He) as (E1 & _ & Bj & Bk). fold L in E1. rewrite E1. cbn [fst snd].
      pose proof (t_tr_lt nx ny Hx Hy (t_bc c (i mod ne)) _ Hn) as Hn'. fold N in Hn'. fold ns in Bj, Bk.
      split; [rewrite HV; apply andb_true_iff; split; apply Nat.ltb_lt; nia|].
      intro Eq. apply cell_site_inj in Eq as [_ Eq]; [|exact Bj|exact Bk]. apply (tile_simple _ He Eq). }
    split.
    - unfold wf_lattice. rewrite !andb_true_iff. split; [split|].
      + change (scale L) with (uc_scale c * nx * ny)%Z. destruct (wf_cell_spec c Hwf) as (HS & _). apply Z.ltb_lt. nia.
      + apply Nat.eqb_eq. destruct (tile_structure c nx ny Hx Hy Hwf) as (_ & _ & He & Hc & _).
        unfold L, tile_lattice, to_lattice, nE. cbn [crossing edges]. rewrite map_length.
        unfold zlen in He, Hc. apply Nat2Z.inj. etransitivity; [exact Hc|symmetry; exact He].
      + apply forallb_forall. intros x Hin. apply (Hall x Hin).
    - unfold no_self_loops. apply forallb_forall. intros x Hin. apply negb_true_iff, Nat.eqb_neq, (Hall x Hin).
  Qed.

  Theorem tile_plaquettes :
    exists ps, find_all_plaquettes L = Some ps /\
      Permutation (map n_sides ps) (flat_map (fun _ => map (@length _) faces) (seq 0 N)) /\
      (forall p, In p ps -> p_winding p = (-1)%Z /\ (0 < p_area2 p)%Z /\ NoDup (p_edges p)) /\
      NoDup (flat_map plaq_darts ps) /\
      (forall d, valid_dart L d <-> In d (flat_map plaq_darts ps)).
  Proof.
    pose proof (tile_nE c nx ny Hx Hy Hwf) as HE. fold L N ne in HE.
    apply (periodic_plaquettes L tile_good N ns ne (t_bj c) (t_bk c) (t_bc c) (t_tr nx ny) (t_eid c)
             (t_ecell c) (t_ebase c) (t_bvec c) ny nx (c_brot rots)).
    - lia.
    - lia.
    - intros e He. destruct (tile_edge_nat c nx ny Hx Hy Hwf 0 e) as (_ & _ & Bj & Bk); [unfold t_N; nia|exact He|].
      split; assumption.
    - intros a n. apply (t_tr_lt nx ny Hx Hy).
    - apply (t_tr0 nx ny Hx Hy).
    - intros a b n. apply (t_tr_add nx ny Hx Hy).
    - intros n e Hn He. rewrite HE. unfold t_eid. fold ne. nia.
    - intros x Hx'. rewrite HE in Hx'. apply (tile_idx x Hx').
    - intros n e n' e' Hn He Hn' He' Eq. unfold t_eid in Eq. apply cell_site_inj in Eq; assumption.
    - intros n e Hn He. destruct (tile_edge_nat c nx ny Hx Hy Hwf n e Hn He) as (E1 & _). exact E1.
    - intros n e Hn He. apply (tile_evec c nx ny Hx Hy Hwf n e Hn He).
    - apply (cert_nz c rots faces Hcert).
    - intros s e b Hs. apply (cert_rot c rots faces Hcert s Hs).
    - intros s Hs. apply (cert_rot c rots faces Hcert s Hs).
    - intros f Hf. apply (cert_face c rots faces Hcert f Hf).
    - intros f Hf. apply (cert_face c rots faces Hcert f Hf).
    - intros f Hf. apply (cert_face c rots faces Hcert f Hf).
    - intros f Hf. apply (cert_face c rots faces Hcert f Hf).
    - apply dnodupb_spec. apply (cert_parts c rots faces Hcert).
    - apply (cert_cover c rots faces Hcert).
    - intros f Hf. apply (cert_face c rots faces Hcert f Hf).
    - intros f t Hf Ht.
      apply (tile_edges_nodup c nx ny L (t_eid c)) with (faces := faces) (tr := t_tr nx ny); try assumption;
        try (apply (t_tr_lt nx ny Hx Hy)); try (apply (t_tr0 nx ny Hx Hy)); try (apply (t_tr_add nx ny Hx Hy));
        try (apply (t_tr_inj nx ny Hx Hy)).
      + intros n e n' e' Hn He Hn' He' Eq. unfold t_eid in Eq. apply cell_site_inj in Eq; assumption.
      + apply (cert_face c rots faces Hcert f Hf).
  Qed.

  (* areas: twice the plaquette areas sum to 2 * scale^2, i.e. the plaquettes cover the unit torus once *)
  Definition cell_area_okb : bool :=
    (zsum (map (fun f => pairsum (map (c_hv c) f)) faces) =? 2 * uc_scale c * uc_scale c)%Z.

  Theorem tile_area : cell_area_okb = true ->
    forall ps, find_all_plaquettes L = Some ps -> area2_sum ps = (2 * scale L * scale L)%Z.
  Proof.
    intros Ha ps Hps. pose proof (tile_nE c nx ny Hx Hy Hwf) as HE. fold L N ne in HE.
    assert (P : exists ps, find_all_plaquettes L = Some ps /\
      Permutation (map p_area2 ps) (flat_map (fun _ => map (barea2 (t_bvec c) ny nx) faces) (seq 0 N)) /\
      zsum (map p_area2 ps) = (Z.of_nat N * zsum (map (barea2 (t_bvec c) ny nx) faces))%Z).
    { apply (periodic_areas L tile_good N ns ne (t_bj c) (t_bk c) (t_bc c) (t_tr nx ny) (t_eid c)
               (t_ecell c) (t_ebase c) (t_bvec c) ny nx (c_brot rots)).
      - lia.
      - lia.
      - intros e He. destruct (tile_edge_nat c nx ny Hx Hy Hwf 0 e) as (_ & _ & Bj & Bk); [unfold t_N; nia|exact He|].
        split; assumption.
      - intros a n. apply (t_tr_lt nx ny Hx Hy).
      - apply (t_tr0 nx ny Hx Hy).
      - intros a b n. apply (t_tr_add nx ny Hx Hy).
      - intros n e Hn He. rewrite HE. unfold t_eid. fold ne. nia.
      - intros x Hx'. rewrite HE in Hx'. apply (tile_idx x Hx').
      - intros n e n' e' Hn He Hn' He' Eq. unfold t_eid in Eq. apply cell_site_inj in Eq; assumption.
      - intros n e Hn He. destruct (tile_edge_nat c nx ny Hx Hy Hwf n e Hn He) as (E1 & _). exact E1.
      - intros n e Hn He. apply (tile_evec c nx ny Hx Hy Hwf n e Hn He).
      - apply (cert_nz c rots faces Hcert).
      - intros s e b Hs. apply (cert_rot c rots faces Hcert s Hs).
      - intros s Hs. apply (cert_rot c rots faces Hcert s Hs).
      - intros f Hf. apply (cert_face c rots faces Hcert f Hf).
      - intros f Hf. apply (cert_face c rots faces Hcert f Hf).
      - intros f Hf. apply (cert_face c rots faces Hcert f Hf).
      - intros f Hf. apply (cert_face c rots faces Hcert f Hf).
      - apply dnodupb_spec. apply (cert_parts c rots faces Hcert).
      - apply (cert_cover c rots faces Hcert).
      - intros f Hf. apply (cert_face c rots faces Hcert f Hf).
      - intros f t Hf Ht.
        apply (tile_edges_nodup c nx ny L (t_eid c)) with (faces := faces) (tr := t_tr nx ny); try assumption;
          try (apply (t_tr_lt nx ny Hx Hy)); try (apply (t_tr0 nx ny Hx Hy)); try (apply (t_tr_add nx ny Hx Hy));
          try (apply (t_tr_inj nx ny Hx Hy)).
        + intros n e n' e' Hn He Hn' He' Eq. unfold t_eid in Eq. apply cell_site_inj in Eq; assumption.
        + apply (cert_face c rots faces Hcert f Hf). }
    destruct P as (ps' & Hps' & _ & Hsum). rewrite Hps in Hps'. injection Hps' as <-.
    change (area2_sum ps) with (zsum (map p_area2 ps)). rewrite Hsum.
    unfold cell_area_okb in Ha. apply Z.eqb_eq in Ha.
    assert (Ez : zsum (map (barea2 (t_bvec c) ny nx) faces) = (ny * nx * (2 * uc_scale c * uc_scale c))%Z).
    { rewrite <- Ha. unfold barea2, c_hv. clear. induction faces as [|f r IH]; [cbn; ring|].
      cbn [map]. unfold zsum in *. cbn [fold_right]. rewrite IH. ring. }
    rewrite Ez. change (scale L) with (uc_scale c * nx * ny)%Z. unfold N, t_N. rewrite Z2Nat.id by nia. ring.
  Qed.
End TileTheorem.

(* ---------- computing a certificate (no proof obligations: cell_cert_okb checks the result) ---------- *)
Fixpoint hins (hv : nat * bool -> vec) (x : nat * bool) (l : list (nat * bool)) : list (nat * bool) :=
  match l with
  | [] => [x]
  | y :: r => if Lattice.ang_lt (hv y) (hv x) then x :: y :: r else y :: hins hv x r
  end.
Definition cell_rots (c : unit_cell) : list (list (nat * bool)) :=
  map (fun s => fold_left (fun acc h => hins (c_hv c) h acc)
                  (flat_map (fun e => (if t_bj c e =? s then [(e, true)] else []) ++
                                      (if t_bk c e =? s then [(e, false)] else [])) (seq 0 (t_ne c))) [])
      (seq 0 (t_ns c)).
Fixpoint b_orbit (fuel : nat) (nxt : nat * bool -> option (nat * bool)) (start cur : nat * bool)
         (acc : list (nat * bool)) : list (nat * bool) :=
  match fuel with
  | 0 => rev acc
  | S k => match nxt cur with
           | None => rev acc
           | Some d => if dart_eqb d start then rev acc else b_orbit k nxt start d (d :: acc)
           end
  end.
Definition cell_faces (c : unit_cell) (rots : list (list (nat * bool))) : list (list (nat * bool)) :=
  fold_left (fun fs d => if existsb (dart_eqb d) (concat fs) then fs
                         else fs ++ [b_orbit (2 * t_ne c) (bnd (t_bj c) (t_bk c) (c_brot rots)) d d [d]])
            (flat_map (fun e => [(e, true); (e, false)]) (seq 0 (t_ne c))) [].

(* ---------- from the multiset of side counts to the census ---------- *)
Lemma count_sides_perm ps l k : Permutation (map n_sides ps) l ->
  count_sides ps k = length (filter (fun x => x =? k) l).
Proof.
  intros P. unfold count_sides.
  assert (E : length (filter (fun p => n_sides p =? k) ps) = length (filter (fun x => x =? k) (map n_sides ps))).
  { clear. induction ps as [|p ps IH]; [reflexivity|]. cbn [map filter]. destruct (n_sides p =? k); cbn [length]; lia. }
  rewrite E. apply Permutation_length, Permutation_filter, P.
Qed.

Lemma filter_flat_const {A} (p : A -> bool) (l : list A) n :
  length (filter p (flat_map (fun _ : nat => l) (seq 0 n))) = n * length (filter p l).
Proof.
  generalize 0. induction n as [|n IH]; intros a; [reflexivity|]. cbn [seq flat_map].
  rewrite filter_app, app_length, IH. lia.
Qed.
