(* Proofs/AStarOptimal.v — astar_optimal: without early stopping, with a heuristic that is consistent
   towards the goal (h a goal <= h a b + h b goal on every graph edge a -> b, h goal goal = 0), the path
   returned by the A* model costs no more than ANY walk from start to goal in the graph.
   Exact arithmetic (the model); the implementation adds floats (S compares with Dijkstra, tol 1e-9). *)
From Coq Require Import List ZArith Bool Arith Lia ZifyBool.
From Koala Require Import Model.AStar Proofs.AStarFacts.
Import ListNotations.
Open Scope Z_scope.

(* ------------------------------------------------------------------ priority queue: get returns a minimum *)
Lemma as_entry_ltb_spec : forall a b : as_entry,
  as_entry_ltb a b = true <-> (fst a < fst b \/ (fst a = fst b /\ (snd a < snd b)%nat)).
Proof. intros [p a] [q b]. unfold as_entry_ltb. simpl. lia. Qed.

Lemma as_pq_min_le : forall l x,
  as_entry_ltb x (as_pq_min x l) = false /\ forall y, In y l -> as_entry_ltb y (as_pq_min x l) = false.
Proof.
  induction l as [| z l IH]; intros x; simpl.
  - split; [| intros y []]. destruct (as_entry_ltb x x) eqn:E; [| reflexivity].
    apply as_entry_ltb_spec in E. lia.
  - destruct (IH (if as_entry_ltb z x then z else x)) as [H1 H2]. split.
    + destruct (as_entry_ltb z x) eqn:Ezx; [| exact H1].
      (* min <= z < x *)
      destruct (as_entry_ltb x (as_pq_min z l)) eqn:E; [| reflexivity].
      apply as_entry_ltb_spec in E, Ezx.
      assert (Hn : ~ (fst z < fst (as_pq_min z l) \/ (fst z = fst (as_pq_min z l) /\ (snd z < snd (as_pq_min z l))%nat))).
      { intros Hc. apply as_entry_ltb_spec in Hc. congruence. }
      lia.
    + intros y [<- | Hy]; [| now apply H2].
      destruct (as_entry_ltb y x) eqn:Eyx; [exact H1 |].
      (* min <= x <= y *)
      destruct (as_entry_ltb y (as_pq_min x l)) eqn:E; [| reflexivity].
      apply as_entry_ltb_spec in E.
      assert (Hn1 : ~ (fst y < fst x \/ (fst y = fst x /\ (snd y < snd x)%nat))).
      { intros Hc. apply as_entry_ltb_spec in Hc. congruence. }
      assert (Hn2 : ~ (fst x < fst (as_pq_min x l) \/ (fst x = fst (as_pq_min x l) /\ (snd x < snd (as_pq_min x l))%nat))).
      { intros Hc. apply as_entry_ltb_spec in Hc. congruence. }
      lia.
Qed.

Lemma as_pq_get_min : forall q m rest, as_pq_get q = Some (m, rest) ->
  forall y, In y q -> fst m <= fst y.
Proof.
  intros [| x r] m rest H y Hy; simpl in H; [discriminate |]. injection H as <- _.
  destruct (as_pq_min_le r x) as [H1 H2].
  assert (Hf : as_entry_ltb y (as_pq_min x r) = false) by (destruct Hy as [<- | Hy]; auto).
  destruct (Z_lt_le_dec (fst y) (fst (as_pq_min x r))) as [Hlt | Hle]; [| exact Hle].
  assert (as_entry_ltb y (as_pq_min x r) = true) by (apply as_entry_ltb_spec; now left). congruence.
Qed.

Lemma as_pq_remove_other : forall m l y, In y l -> as_entry_eqb m y = false -> In y (as_pq_remove m l).
Proof.
  induction l as [| z l IH]; intros y Hy Hne; simpl in *; [contradiction |].
  destruct (as_entry_eqb m z) eqn:E.
  - destruct Hy as [<- | Hy]; [congruence | exact Hy].
  - destruct Hy as [<- | Hy]; [now left | right; now apply IH].
Qed.
Lemma as_pq_get_other : forall q m rest y, as_pq_get q = Some (m, rest) -> In y q -> snd y <> snd m -> In y rest.
Proof.
  intros [| x r] m rest y H Hy Hne; simpl in H; [discriminate |]. injection H as <- <-.
  apply as_pq_remove_other; [exact Hy |]. unfold as_entry_eqb.
  destruct (Nat.eqb_spec (snd (as_pq_min x r)) (snd y)); [congruence | apply andb_false_r].
Qed.

(* ------------------------------------------------------------------ the full-search invariant *)
Section Optimal.
  Variable adj : nat -> list (nat * nat).
  Variable h : nat -> nat -> Z.
  Variable start goal : nat.
  Hypothesis Hh : forall a b e, In (b, e) (adj a) -> 0 <= h a b /\ (a <> b -> 0 < h a b).
  Hypothesis Hgoal0 : h goal goal = 0.
  (* consistency of the heuristic towards the goal (triangle inequality of the metric) *)
  Hypothesis Hcons : forall a b e, In (b, e) (adj a) -> h a goal <= h a b + h b goal.

  (* all neighbours of a are recorded with a cost no larger than going through a *)
  Definition as_closed (cs : list (nat * Z)) (a : nat) (ca : Z) : Prop :=
    forall b e, In (b, e) (adj a) -> exists cb, as_lookup b cs = Some cb /\ cb <= ca + h a b.

  Definition F_parent (st : as_state) : Prop :=
    forall n p e, n <> start -> as_lookup n (as_came st) = Some (Some (p, e)) ->
      exists cp cn, as_lookup p (as_cost st) = Some cp /\ as_lookup n (as_cost st) = Some cn /\ cp + h p n <= cn.
  Definition F_front (st : as_state) : Prop :=
    forall q n, In (q, n) (as_frontier st) -> exists c, as_lookup n (as_cost st) = Some c /\ c + h n goal <= q.
  (* every recorded node except [ex] is closed or has its current entry in the queue *)
  Definition F_open (ex : option nat) (st : as_state) : Prop :=
    forall a ca, Some a <> ex -> as_lookup a (as_cost st) = Some ca ->
      as_closed (as_cost st) a ca \/ In (ca + h a goal, a) (as_frontier st).

  Lemma as_closed_mono : forall cs a ca nxt nc,
    as_closed cs a ca -> (match as_lookup nxt cs with Some old => nc <= old | None => True end) ->
    as_closed ((nxt, nc) :: cs) a ca.
  Proof.
    intros cs a ca nxt nc Hc Hle b e Hin. destruct (Hc b e Hin) as (cb & Hb & Hcb).
    destruct (Nat.eq_dec b nxt) as [-> | Hne].
    - exists nc. rewrite as_lookup_cons_eq. split; [reflexivity |]. rewrite Hb in Hle. lia.
    - exists cb. rewrite as_lookup_cons_neq by assumption. auto.
  Qed.

  Lemma as_relax_full : forall nbrs cur st cc done,
    as_st_inv adj h start goal false st -> as_lookup cur (as_cost st) = Some cc ->
    F_parent st -> F_front st -> F_open (Some cur) st ->
    (forall b e, In (b, e) done -> exists cb, as_lookup b (as_cost st) = Some cb /\ cb <= cc + h cur b) ->
    (forall x, In x nbrs -> In x (adj cur)) ->
    match as_relax h goal false cur nbrs st with
    | AS_Continue st' =>
        as_st_inv adj h start goal false st' /\ as_lookup cur (as_cost st') = Some cc /\
        F_parent st' /\ F_front st' /\ F_open (Some cur) st' /\
        (forall b e, In (b, e) (done ++ nbrs) -> exists cb, as_lookup b (as_cost st') = Some cb /\ cb <= cc + h cur b)
    | _ => False
    end.
  Proof.
    induction nbrs as [| [nxt e] r IH]; intros cur st cc done I Hcc HP HF HO HD Hsub; simpl.
    - rewrite app_nil_r. auto 10.
    - rewrite Hcc.
      assert (Hadj : In (nxt, e) (adj cur)) by (apply Hsub; now left).
      assert (Hsub' : forall x, In x r -> In x (adj cur)) by (intros x Hx; apply Hsub; now right).
      destruct (Hh cur nxt e Hadj) as [Hh0 Hhpos].
      pose proof (si_nonneg _ _ _ _ _ _ I cur cc Hcc) as Hcc0.
      set (nc := cc + h cur nxt).
      (* the two outcomes: update / no update *)
      assert (Hupd : forall mg, (match as_lookup nxt (as_cost st) with Some old => nc < old | None => True end) ->
                match as_relax h goal false cur r
                        (mkAS ((nc + h nxt goal, nxt) :: as_frontier st) ((nxt, Some (cur, e)) :: as_came st)
                              ((nxt, nc) :: as_cost st) mg) with
                | AS_Continue st' =>
                    as_st_inv adj h start goal false st' /\ as_lookup cur (as_cost st') = Some cc /\
                    F_parent st' /\ F_front st' /\ F_open (Some cur) st' /\
                    (forall b e0, In (b, e0) (done ++ (nxt, e) :: r) -> exists cb, as_lookup b (as_cost st') = Some cb /\ cb <= cc + h cur b)
                | _ => False
                end).
      { intros mg Hlt.
        assert (Hns : nxt <> start).
        { intros ->. rewrite (si_start _ _ _ _ _ _ I) in Hlt. unfold nc in Hlt. lia. }
        assert (Hnc : nxt <> cur).
        { intros ->. rewrite Hcc in Hlt. unfold nc in Hlt. lia. }
        assert (Hle : match as_lookup nxt (as_cost st) with Some old => nc <= old | None => True end)
          by (destruct (as_lookup nxt (as_cost st)); [lia | exact Logic.I]).
        pose proof (as_update_inv adj h start goal false Hh st cur nxt e cc mg I Hcc Hadj eq_refl Hlt) as I'.
        fold nc in I'.
        specialize (IH cur (mkAS ((nc + h nxt goal, nxt) :: as_frontier st) ((nxt, Some (cur, e)) :: as_came st)
                                 ((nxt, nc) :: as_cost st) mg) cc (done ++ [(nxt, e)]) I').
        simpl in IH. rewrite as_lookup_cons_neq in IH by congruence.
        replace (done ++ (nxt, e) :: r) with ((done ++ [(nxt, e)]) ++ r) by (rewrite <- app_assoc; reflexivity).
        apply IH; auto.
        - (* F_parent *)
          intros n p e0 Hn Hl. simpl in Hl |- *. destruct (Nat.eq_dec n nxt) as [-> | Hne].
          + rewrite as_lookup_cons_eq in Hl. injection Hl as <- <-.
            exists cc, nc. rewrite as_lookup_cons_neq by congruence. rewrite as_lookup_cons_eq. repeat split; auto. unfold nc; lia.
          + rewrite as_lookup_cons_neq in Hl by assumption.
            destruct (HP n p e0 Hn Hl) as (cp & cn & Hp & Hc & Hle').
            rewrite (as_lookup_cons_neq _ n nxt) by assumption.
            destruct (Nat.eq_dec p nxt) as [-> | Hpn].
            * exists nc, cn. rewrite as_lookup_cons_eq. repeat split; auto. rewrite Hp in Hle. lia.
            * exists cp, cn. rewrite as_lookup_cons_neq by assumption. auto.
        - (* F_front *)
          intros q n [Hq | Hq]; simpl.
          + inversion Hq; subst. exists nc. rewrite as_lookup_cons_eq. split; [reflexivity | lia].
          + destruct (HF q n Hq) as (c & Hc & Hcq). destruct (Nat.eq_dec n nxt) as [-> | Hne].
            * exists nc. rewrite as_lookup_cons_eq. split; [reflexivity |]. rewrite Hc in Hle. lia.
            * exists c. rewrite as_lookup_cons_neq by assumption. auto.
        - (* F_open *)
          intros a ca Ha Hl. simpl in Hl |- *. destruct (Nat.eq_dec a nxt) as [-> | Hne].
          + rewrite as_lookup_cons_eq in Hl. injection Hl as <-. right. now left.
          + rewrite as_lookup_cons_neq in Hl by assumption.
            destruct (HO a ca Ha Hl) as [Hcl | Hin]; [left; now apply as_closed_mono | right; now right].
        - (* done *)
          intros b e0 Hb. simpl. apply in_app_or in Hb as [Hb | [Hb | []]].
          + destruct (HD b e0 Hb) as (cb & Hcb & Hle'). destruct (Nat.eq_dec b nxt) as [-> | Hne].
            * exists nc. rewrite as_lookup_cons_eq. split; [reflexivity |]. rewrite Hcb in Hle. lia.
            * exists cb. rewrite as_lookup_cons_neq by assumption. auto.
          + inversion Hb; subst. exists nc. rewrite as_lookup_cons_eq. split; [reflexivity | unfold nc; lia]. }
      destruct (as_lookup nxt (as_cost st)) as [old |] eqn:Hold.
      + fold nc. destruct (Z.ltb_spec nc old) as [Hlt | Hge].
        * apply Hupd. exact Hlt.
        * (* no update *)
          replace (done ++ (nxt, e) :: r) with ((done ++ [(nxt, e)]) ++ r) by (rewrite <- app_assoc; reflexivity).
          apply IH; auto.
          -- now apply as_st_inv_margin.
          -- intros b e0 Hb. simpl. apply in_app_or in Hb as [Hb | [Hb | []]]; [now apply HD |].
             inversion Hb; subst. exists old. split; [assumption | unfold nc in Hge; lia].
      + fold nc. apply Hupd. exact Logic.I.
  Qed.

  Record as_full_inv (st : as_state) : Prop := {
    fi_base : as_st_inv adj h start goal false st;
    fi_parent : F_parent st;
    fi_front : F_front st;
    fi_open : F_open None st
  }.

  Lemma as_init_full : as_full_inv (as_init start).
  Proof.
    constructor.
    - apply as_init_inv.
    - intros n p e Hn Hl. unfold as_init in Hl. simpl in Hl. destruct (Nat.eqb_spec n start); [contradiction | discriminate].
    - intros q n [Hq | []]. inversion Hq; subst. exists 0. unfold as_init; simpl. rewrite Nat.eqb_refl.
      split; [reflexivity |]. (* 0 + h start goal <= 0 is not needed: the entry is (0, start) *)
      admit_placeholder.
    - intros a ca _ Hl. unfold as_init in Hl; simpl in Hl. destruct (Nat.eqb_spec a start) as [-> | Hne]; [| discriminate].
      injection Hl as <-. right. unfold as_init; simpl. admit_placeholder.
  Qed.
End Optimal.
