(* Proofs/AStarOptimal.v — astar_optimal: without early stopping, with a heuristic that is consistent
   towards the goal (h a goal <= h a b + h b goal on every graph edge a -> b, h goal goal = 0), the path
   returned by the A* model costs no more than ANY walk from start to goal in the graph.
   Exact arithmetic (the model); the implementation adds floats (S compares with Dijkstra, tol 1e-9). *)
From Coq Require Import List ZArith Bool Arith Lia ZifyBool.
From Koala Require Import Model.AStar Proofs.AStarFacts.
Import ListNotations.
Open Scope Z_scope.

(* ------------------------------------------------------------------ priority queue: get returns a minimum *)
Lemma as_entry_ltb_spec : forall a b : as_entry,
  as_entry_ltb a b = true <-> (fst a < fst b \/ (fst a = fst b /\ (snd a < snd b)%nat)).
Proof. intros [p a] [q b]. unfold as_entry_ltb. simpl. lia. Qed.

Lemma as_pq_min_le : forall l x,
  as_entry_ltb x (as_pq_min x l) = false /\ forall y, In y l -> as_entry_ltb y (as_pq_min x l) = false.
Proof.
  induction l as [| z l IH]; intros x; simpl.
  - split; [| intros y []]. destruct (as_entry_ltb x x) eqn:E; [| reflexivity].
    apply as_entry_ltb_spec in E. lia.
  - destruct (IH (if as_entry_ltb z x then z else x)) as [H1 H2]. split.
    + destruct (as_entry_ltb z x) eqn:Ezx; [| exact H1].
      (* min <= z < x *)
      destruct (as_entry_ltb x (as_pq_min z l)) eqn:E; [| reflexivity].
      apply as_entry_ltb_spec in E, Ezx.
      assert (Hn : ~ (fst z < fst (as_pq_min z l) \/ (fst z = fst (as_pq_min z l) /\ (snd z < snd (as_pq_min z l))%nat))).
      { intros Hc. apply as_entry_ltb_spec in Hc. congruence. }
      lia.
    + intros y [Hy | Hy]; [subst y | now apply H2].
      destruct (as_entry_ltb z x) eqn:Ezx; [exact H1 |].
      (* min <= x <= z *)
      destruct (as_entry_ltb z (as_pq_min x l)) eqn:E; [| reflexivity].
      apply as_entry_ltb_spec in E.
      assert (Hn1 : ~ (fst z < fst x \/ (fst z = fst x /\ (snd z < snd x)%nat))).
      { intros Hc. apply as_entry_ltb_spec in Hc. congruence. }
      assert (Hn2 : ~ (fst x < fst (as_pq_min x l) \/ (fst x = fst (as_pq_min x l) /\ (snd x < snd (as_pq_min x l))%nat))).
      { intros Hc. apply as_entry_ltb_spec in Hc. congruence. }
      lia.
Qed.

Lemma as_pq_get_min : forall q m rest, as_pq_get q = Some (m, rest) ->
  forall y, In y q -> fst m <= fst y.
Proof.
  intros [| x r] m rest H y Hy; simpl in H; [discriminate |]. injection H as <- _.
  destruct (as_pq_min_le r x) as [H1 H2].
  assert (Hf : as_entry_ltb y (as_pq_min x r) = false) by (destruct Hy as [<- | Hy]; auto).
  destruct (Z_lt_le_dec (fst y) (fst (as_pq_min x r))) as [Hlt | Hle]; [| exact Hle].
  assert (as_entry_ltb y (as_pq_min x r) = true) by (apply as_entry_ltb_spec; now left). congruence.
Qed.

Lemma as_pq_remove_other : forall m l y, In y l -> as_entry_eqb m y = false -> In y (as_pq_remove m l).
Proof.
  induction l as [| z l IH]; intros y Hy Hne; simpl in *; [contradiction |].
  destruct (as_entry_eqb m z) eqn:E.
  - destruct Hy as [<- | Hy]; [congruence | exact Hy].
  - destruct Hy as [<- | Hy]; [now left | right; now apply IH].
Qed.
Lemma as_pq_get_other : forall q m rest y, as_pq_get q = Some (m, rest) -> In y q -> snd y <> snd m -> In y rest.
Proof.
  intros [| x r] m rest y H Hy Hne; [discriminate |]. unfold as_pq_get in H. cbv zeta in H. injection H as <- <-.
  assert (Heq : as_entry_eqb (as_pq_min x r) y = false).
  { unfold as_entry_eqb. destruct (Nat.eqb_spec (snd (as_pq_min x r)) (snd y)); [congruence | apply andb_false_r]. }
  exact (as_pq_remove_other (as_pq_min x r) (x :: r) y Hy Heq).
Qed.

(* ------------------------------------------------------------------ the full-search invariant *)
Section Optimal.
  Variable adj : nat -> list (nat * nat).
  Variable h : nat -> nat -> Z.
  Variable start goal : nat.
  Hypothesis Hh : forall a b e, In (b, e) (adj a) -> 0 <= h a b /\ (a <> b -> 0 < h a b).
  Hypothesis Hgoal0 : h goal goal = 0.
  (* consistency of the heuristic towards the goal (triangle inequality of the metric) *)
  Hypothesis Hcons : forall a b e, In (b, e) (adj a) -> h a goal <= h a b + h b goal.
  Hypothesis Hhg : forall n, 0 <= h n goal.

  (* all neighbours of a are recorded with a cost no larger than going through a *)
  Definition as_closed (cs : list (nat * Z)) (a : nat) (ca : Z) : Prop :=
    forall b e, In (b, e) (adj a) -> exists cb, as_lookup b cs = Some cb /\ cb <= ca + h a b.

  Definition F_parent (st : as_state) : Prop :=
    forall n p e, n <> start -> as_lookup n (as_came st) = Some (Some (p, e)) ->
      exists cp cn, as_lookup p (as_cost st) = Some cp /\ as_lookup n (as_cost st) = Some cn /\ cp + h p n <= cn.
  Definition F_front (st : as_state) : Prop :=
    forall q n, In (q, n) (as_frontier st) -> n <> start -> exists c, as_lookup n (as_cost st) = Some c /\ c + h n goal <= q.
  (* the current queue entry of a (the very first entry is (0, start), pathfinding.py:16) *)
  Definition has_entry (st : as_state) (a : nat) (ca : Z) : Prop :=
    In (ca + h a goal, a) (as_frontier st) \/ (a = start /\ In (0, start) (as_frontier st)).
  (* every recorded node except [ex] is closed or has its current entry in the queue *)
  Definition F_open (ex : option nat) (st : as_state) : Prop :=
    forall a ca, Some a <> ex -> as_lookup a (as_cost st) = Some ca ->
      as_closed (as_cost st) a ca \/ has_entry st a ca.

  Lemma as_closed_mono : forall cs a ca nxt nc,
    as_closed cs a ca -> (match as_lookup nxt cs with Some old => nc <= old | None => True end) ->
    as_closed ((nxt, nc) :: cs) a ca.
  Proof.
    intros cs a ca nxt nc Hc Hle b e Hin. destruct (Hc b e Hin) as (cb & Hb & Hcb).
    destruct (Nat.eq_dec b nxt) as [-> | Hne].
    - exists nc. rewrite as_lookup_cons_eq. split; [reflexivity |]. rewrite Hb in Hle. lia.
    - exists cb. rewrite as_lookup_cons_neq by assumption. auto.
  Qed.

  Lemma as_relax_full : forall nbrs cur st cc done,
    as_st_inv adj start goal false st -> as_lookup cur (as_cost st) = Some cc ->
    F_parent st -> F_front st -> F_open (Some cur) st ->
    (forall b e, In (b, e) done -> exists cb, as_lookup b (as_cost st) = Some cb /\ cb <= cc + h cur b) ->
    (forall x, In x nbrs -> In x (adj cur)) ->
    match as_relax h goal false cur nbrs st with
    | AS_Continue st' =>
        as_st_inv adj start goal false st' /\ as_lookup cur (as_cost st') = Some cc /\
        F_parent st' /\ F_front st' /\ F_open (Some cur) st' /\
        (forall b e, In (b, e) (done ++ nbrs) -> exists cb, as_lookup b (as_cost st') = Some cb /\ cb <= cc + h cur b)
    | _ => False
    end.
  Proof.
    induction nbrs as [| [nxt e] r IH]; intros cur st cc done I Hcc HP HF HO HD Hsub; simpl.
    - rewrite app_nil_r. auto 10.
    - rewrite Hcc.
      assert (Hadj : In (nxt, e) (adj cur)) by (apply Hsub; now left).
      assert (Hsub' : forall x, In x r -> In x (adj cur)) by (intros x Hx; apply Hsub; now right).
      destruct (Hh cur nxt e Hadj) as [Hh0 Hhpos].
      pose proof (si_nonneg _ _ _ _ _ I cur cc Hcc) as Hcc0.
      set (nc := cc + h cur nxt).
      (* the two outcomes: update / no update *)
      assert (Hupd : forall mg, (match as_lookup nxt (as_cost st) with Some old => nc < old | None => True end) ->
                match as_relax h goal false cur r
                        (mkAS ((nc + h nxt goal, nxt) :: as_frontier st) ((nxt, Some (cur, e)) :: as_came st)
                              ((nxt, nc) :: as_cost st) mg) with
                | AS_Continue st' =>
                    as_st_inv adj start goal false st' /\ as_lookup cur (as_cost st') = Some cc /\
                    F_parent st' /\ F_front st' /\ F_open (Some cur) st' /\
                    (forall b e0, In (b, e0) (done ++ (nxt, e) :: r) -> exists cb, as_lookup b (as_cost st') = Some cb /\ cb <= cc + h cur b)
                | _ => False
                end).
      { intros mg Hlt.
        assert (Hns : nxt <> start).
        { intros ->. rewrite (si_start _ _ _ _ _ I) in Hlt. unfold nc in Hlt. lia. }
        assert (Hnc : nxt <> cur).
        { intros ->. rewrite Hcc in Hlt. unfold nc in Hlt. lia. }
        assert (Hle : match as_lookup nxt (as_cost st) with Some old => nc <= old | None => True end)
          by (destruct (as_lookup nxt (as_cost st)); [lia | exact Logic.I]).
        pose proof (as_update_inv adj h start goal false Hh st cur nxt e cc mg I Hcc Hadj eq_refl Hlt) as I'.
        fold nc in I'.
        specialize (IH cur (mkAS ((nc + h nxt goal, nxt) :: as_frontier st) ((nxt, Some (cur, e)) :: as_came st)
                                 ((nxt, nc) :: as_cost st) mg) cc (done ++ [(nxt, e)]) I').
        cbn [as_cost as_came as_frontier as_margin] in IH. rewrite as_lookup_cons_neq in IH by congruence.
        replace (done ++ (nxt, e) :: r) with ((done ++ [(nxt, e)]) ++ r) by (rewrite <- app_assoc; reflexivity).
        apply IH; auto.
        - (* F_parent *)
          intros n p e0 Hn Hl. cbn [as_cost as_came as_frontier as_margin] in Hl |- *. destruct (Nat.eq_dec n nxt) as [-> | Hne].
          + rewrite as_lookup_cons_eq in Hl. injection Hl as <- <-.
            exists cc, nc. rewrite as_lookup_cons_neq by congruence. rewrite as_lookup_cons_eq. repeat split; auto. unfold nc; lia.
          + rewrite as_lookup_cons_neq in Hl by assumption.
            destruct (HP n p e0 Hn Hl) as (cp & cn & Hp & Hc & Hle').
            rewrite (as_lookup_cons_neq _ n nxt) by assumption.
            destruct (Nat.eq_dec p nxt) as [-> | Hpn].
            * exists nc, cn. rewrite as_lookup_cons_eq. repeat split; auto. rewrite Hp in Hle. lia.
            * exists cp, cn. rewrite as_lookup_cons_neq by assumption. auto.
        - (* F_front *)
          intros q n Hq Hnst; cbn [as_cost as_came as_frontier as_margin] in Hq |- *. destruct Hq as [Hq | Hq].
          + inversion Hq; subst. exists nc. rewrite as_lookup_cons_eq. split; [reflexivity | lia].
          + destruct (HF q n Hq Hnst) as (c & Hc & Hcq). destruct (Nat.eq_dec n nxt) as [-> | Hne].
            * exists nc. rewrite as_lookup_cons_eq. split; [reflexivity |]. rewrite Hc in Hle. lia.
            * exists c. rewrite as_lookup_cons_neq by assumption. auto.
        - (* F_open *)
          intros a ca Ha Hl. cbn [as_cost as_came as_frontier as_margin] in Hl |- *. destruct (Nat.eq_dec a nxt) as [-> | Hne].
          + rewrite as_lookup_cons_eq in Hl. injection Hl as <-. right. left. now left.
          + rewrite as_lookup_cons_neq in Hl by assumption.
            destruct (HO a ca Ha Hl) as [Hcl | [Hin | [Hs Hin]]]; [left; now apply as_closed_mono | right; left; now right | right; right; split; [assumption | now right]].
        - (* done *)
          intros b e0 Hb. cbn [as_cost as_came as_frontier as_margin]. apply in_app_or in Hb as [Hb | [Hb | []]].
          + destruct (HD b e0 Hb) as (cb & Hcb & Hle'). destruct (Nat.eq_dec b nxt) as [-> | Hne].
            * exists nc. rewrite as_lookup_cons_eq. split; [reflexivity |]. rewrite Hcb in Hle. lia.
            * exists cb. rewrite as_lookup_cons_neq by assumption. auto.
          + inversion Hb; subst. exists nc. rewrite as_lookup_cons_eq. split; [reflexivity | unfold nc; lia]. }
      destruct (as_lookup nxt (as_cost st)) as [old |] eqn:Hold.
      + fold nc. destruct (Z.ltb_spec nc old) as [Hlt | Hge].
        * apply Hupd. exact Hlt.
        * (* no update *)
          replace (done ++ (nxt, e) :: r) with ((done ++ [(nxt, e)]) ++ r) by (rewrite <- app_assoc; reflexivity).
          apply IH; auto.
          -- now apply as_st_inv_margin.
          -- intros b e0 Hb. cbn [as_cost as_came as_frontier as_margin]. apply in_app_or in Hb as [Hb | [Hb | []]]; [now apply (HD b e0) |].
             inversion Hb; subst. exists old. split; [assumption | unfold nc in Hge; lia].
      + fold nc. apply Hupd. exact Logic.I.
  Qed.

  Record as_full_inv (st : as_state) : Prop := {
    fi_base : as_st_inv adj start goal false st;
    fi_parent : F_parent st;
    fi_front : F_front st;
    fi_open : F_open None st
  }.

  Lemma as_init_full : as_full_inv (as_init start).
  Proof.
    constructor.
    - apply as_init_inv.
    - intros n p e Hn Hl. unfold as_init in Hl. simpl in Hl. destruct (Nat.eqb_spec n start); [contradiction | discriminate].
    - intros q n [Hq | []] Hn. inversion Hq; subst. contradiction.
    - intros a ca _ Hl. unfold as_init in Hl; simpl in Hl. destruct (Nat.eqb_spec a start) as [-> | Hne]; [| discriminate].
      right. right. split; [reflexivity | now left].
  Qed.

  (* ---- lower bound: at the moment (p, goal) is popped, every walk from start to goal costs at least cost_so_far[goal] *)
  Section LowerBound.
    Variable st : as_state.
    Variable p : Z.
    Hypothesis I : as_full_inv st.
    Hypothesis Hmin : forall y, In y (as_frontier st) -> p <= fst y.

    Definition GE (x : Z) (n : nat) : Prop :=
      p - h n goal <= x \/ exists c, as_lookup n (as_cost st) = Some c /\ c <= x.

    Lemma GE_step : forall x a b e, 0 <= x -> GE x a -> In (b, e) (adj a) -> GE (h a b + x) b.
    Proof.
      intros x a b e Hx0 HG Hin. pose proof (Hcons a b e Hin) as Hc. destruct (Hh a b e Hin) as [Hab _].
      destruct HG as [HG | (ca & Hca & Hle)].
      - left. lia.
      - destruct (Z_lt_le_dec (ca + h a goal) p) as [Hlt | Hge]; [| left; lia].
        destruct (fi_open st I a ca ltac:(discriminate) Hca) as [Hcl | [Hin' | [Hs Hin']]].
        + destruct (Hcl b e Hin) as (cb & Hcb & Hle'). right. exists cb. split; [assumption | lia].
        + specialize (Hmin _ Hin'). simpl in Hmin. lia.
        + specialize (Hmin _ Hin'). simpl in Hmin. left. pose proof (Hhg b). lia.
    Qed.

    Lemma as_chain_cost_nonneg : forall ws es, as_chain adj ws es -> 0 <= as_chain_cost h ws.
    Proof.
      intros ws es H. induction H as [a | a b e ns es Hin Hc IH]; simpl; [lia |].
      destruct (Hh b a e Hin) as [H0 _]. simpl in IH. lia.
    Qed.

    Lemma GE_walk : forall ws es, as_chain adj ws es -> forall d, last ws d = start ->
      GE (as_chain_cost h ws) (hd d ws).
    Proof.
      intros ws es H. induction H as [a | a b e ns es Hin Hc IH]; intros d Hlast.
      - simpl in *. subst a. right. exists 0. split; [apply (si_start _ _ _ _ _ (fi_base st I)) | lia].
      - change (as_chain_cost h (a :: b :: ns)) with (h b a + as_chain_cost h (b :: ns)).
        change (hd d (a :: b :: ns)) with a.
        apply (GE_step _ b a e); [eapply as_chain_cost_nonneg; eassumption | | assumption].
        apply (IH d). exact Hlast.
    Qed.

    Lemma as_lower_bound : goal <> start -> In (p, goal) (as_frontier st) ->
      exists cg, as_lookup goal (as_cost st) = Some cg /\
        forall ws es, as_chain adj ws es -> hd_error ws = Some goal -> last ws goal = start -> cg <= as_chain_cost h ws.
    Proof.
      intros Hgs Hin. destruct (fi_front st I p goal Hin Hgs) as (cg & Hcg & Hle). rewrite Hgoal0 in Hle.
      exists cg. split; [assumption |]. intros ws es Hch Hhd Hlast.
      pose proof (GE_walk ws es Hch goal Hlast) as HG.
      destruct ws as [| g ws']; [discriminate |]. injection Hhd as ->. simpl hd in HG.
      destruct HG as [HG | (c & Hc & Hle')]; [rewrite Hgoal0 in HG; lia | congruence || (rewrite Hcg in Hc; injection Hc as <-; lia)].
    Qed.
  End LowerBound.

  (* ---- the loop *)
  Definition as_found_spec (cf : list (nat * option (nat * nat))) (cs : list (nat * Z)) : Prop :=
    (forall n p e, n <> start -> as_lookup n cf = Some (Some (p, e)) ->
       exists cp cn, as_lookup p cs = Some cp /\ as_lookup n cs = Some cn /\ cp + h p n <= cn) /\
    (forall n c, as_lookup n cs = Some c -> 0 <= c) /\
    exists cg, as_lookup goal cs = Some cg /\
      forall ws es, as_chain adj ws es -> hd_error ws = Some goal -> last ws goal = start -> cg <= as_chain_cost h ws.

  Lemma as_loop_full : forall fuel st, as_full_inv st -> goal <> start ->
    match as_loop adj h goal false fuel st with
    | AS_Found cf cs _ => as_found_spec cf cs
    | AS_NotFound _ => True
    | AS_Err => False
    end.
  Proof.
    induction fuel as [| f IH]; intros st I Hgs; simpl;
      (destruct (as_pq_get (as_frontier st)) as [[[p cur] rest] |] eqn:Hget; [| exact Logic.I]);
      destruct (as_pq_get_some _ _ _ Hget) as [Hin Hrest];
      pose proof (si_frontier _ _ _ _ _ (fi_base st I) p cur Hin) as Hcur;
      (destruct (Nat.eqb_spec cur goal) as [-> | Hcg];
       [split; [exact (fi_parent st I) |]; split; [exact (si_nonneg _ _ _ _ _ (fi_base st I)) |];
        apply (as_lower_bound st p I); auto;
        intros y Hy; apply (as_pq_get_min _ _ _ Hget y Hy) |]).
    - exact Logic.I.
    - destruct (as_lookup cur (as_cost st)) as [cc |] eqn:Hcc; [| congruence].
      set (st1 := mkAS rest (as_came st) (as_cost st) (as_pop_margin (as_margin st) p rest)).
      assert (I1 : as_st_inv adj start goal false st1).
      { destruct (fi_base st I) as [B1 B2 B3 B4 B5 B6]; constructor; simpl; auto. intros p' c' H'. eapply B5. apply Hrest. exact H'. }
      assert (HF1 : F_front st1).
      { intros q n Hq Hn. apply (fi_front st I q n); [apply Hrest; exact Hq | exact Hn]. }
      assert (HO1 : F_open (Some cur) st1).
      { intros a ca Ha Hl. assert (Hac : a <> cur) by congruence.
        destruct (fi_open st I a ca ltac:(discriminate) Hl) as [Hcl | [He | [Hs He]]]; [now left | right; left | right; right; split; [assumption |]].
        - apply (as_pq_get_other _ _ _ _ Hget He). simpl. exact Hac.
        - apply (as_pq_get_other _ _ _ _ Hget He). simpl. congruence. }
      pose proof (as_relax_full (adj cur) cur st1 cc [] I1 Hcc (fi_parent st I) HF1 HO1
                    (fun b e (H : In (b, e) []) => match H with end) (fun x H => H)) as Hr.
      destruct (as_relax h goal false cur (adj cur) st1) as [st' | st' |]; try contradiction.
      destruct Hr as (I' & Hcc' & HP' & HF' & HO' & HD').
      apply IH; [| assumption]. constructor; auto.
      intros a ca _ Hl. destruct (Nat.eq_dec a cur) as [-> | Hne].
      + left. rewrite Hcc' in Hl. injection Hl as <-. intros b e Hb. apply (HD' b e). exact Hb.
      + apply HO'; [congruence | assumption].
  Qed.

  (* ---- the backward pass follows parents whose costs add up to at most cost_so_far *)
  Lemma as_backward_cost : forall cf cs,
    (forall n p e, n <> start -> as_lookup n cf = Some (Some (p, e)) ->
       exists cp cn, as_lookup p cs = Some cp /\ as_lookup n cs = Some cn /\ cp + h p n <= cn) ->
    (forall n c, as_lookup n cs = Some c -> 0 <= c) ->
    forall fuel n ns es cn, as_backward_loop fuel cf start n = Some (ns, es) -> as_lookup n cs = Some cn ->
      hd_error ns = Some n /\ as_chain_cost h ns <= cn.
  Proof.
    intros cf cs HP Hnn. induction fuel as [| f IH]; intros n ns es cn Hrun Hcn; simpl in Hrun.
    - destruct (Nat.eqb_spec n start); [| discriminate]. injection Hrun as <- <-. simpl. split; [reflexivity | eauto].
    - destruct (Nat.eqb_spec n start) as [-> | Hne].
      + injection Hrun as <- <-. simpl. split; [reflexivity | eauto].
      + destruct (as_lookup n cf) as [[[p e] |] |] eqn:Hl; try discriminate.
        destruct (as_backward_loop f cf start p) as [[ns' es'] |] eqn:Hrec; [| discriminate].
        injection Hrun as <- <-.
        destruct (HP n p e Hne Hl) as (cp & cn' & Hp & Hn' & Hle). rewrite Hcn in Hn'. injection Hn' as <-.
        destruct (IH p ns' es' cp Hrec Hp) as [Hhd Hcost]. split; [reflexivity |].
        destruct ns' as [| x r]; [discriminate |]. injection Hhd as ->.
        change (as_chain_cost h (n :: p :: r)) with (h p n + as_chain_cost h (p :: r)). lia.
  Qed.

  (* astar_optimal *)
  Theorem as_astar_optimal : forall maxits ns es mg,
    as_path adj h start goal false maxits = AS_Path ns es mg ->
    forall ws es', as_chain adj ws es' -> hd_error ws = Some goal -> last ws goal = start ->
      as_chain_cost h ns <= as_chain_cost h ws.
  Proof.
    intros maxits ns es mg Hrun ws es' Hch Hhd Hlast.
    destruct (Nat.eq_dec goal start) as [Hgs | Hgs].
    - (* start = goal: the returned path is [start] of cost 0 *)
      subst goal. rewrite as_path_start_eq_goal in Hrun. injection Hrun as <- _ _.
      simpl. eapply as_chain_cost_nonneg; eassumption.
    - unfold as_path in Hrun. unfold as_forward in Hrun.
      pose proof (as_loop_full maxits (as_init start) as_init_full Hgs) as Hl.
      destruct (as_loop adj h goal false maxits (as_init start)) as [cf cs mg' | mg' |]; try discriminate.
      destruct Hl as (HP & Hnn & cg & Hcg & Hlb).
      unfold as_backward in Hrun.
      destruct (as_backward_loop (S (length cf)) cf start goal) as [[ns0 es0] |] eqn:Hb; [| discriminate].
      injection Hrun as <- <- _.
      destruct (as_backward_cost cf cs HP Hnn _ _ _ _ cg Hb Hcg) as [_ Hcost].
      specialize (Hlb ws es' Hch Hhd Hlast). lia.
  Qed.
End Optimal.

(* the hypotheses of as_astar_optimal are satisfiable (same instance as as_path_example, goal = 3) *)
Lemma as_optimal_example :
  let adj := (fun n => match n with
                       | 0 => [(1, 0); (2, 2)] | 1 => [(0, 0); (2, 1); (3, 3)]
                       | 2 => [(1, 1); (0, 2); (3, 4)] | 3 => [(1, 3); (2, 4)] | _ => [] end)%nat in
  let h := (fun a b => if (a =? b)%nat then 0 else 3 + Z.of_nat (a + b)) in
  (forall a b e, In (b, e) (adj a) -> 0 <= h a b /\ (a <> b -> 0 < h a b)) /\
  h 3%nat 3%nat = 0 /\
  (forall a b e, In (b, e) (adj a) -> h a 3%nat <= h a b + h b 3%nat) /\
  (forall n, 0 <= h n 3%nat).
Proof.
  split; [| split; [reflexivity | split]].
  - intros a b e _. destruct (Nat.eqb_spec a b); split; intros; try lia; contradiction.
  - intros a b e _. destruct (Nat.eqb_spec a 3), (Nat.eqb_spec a b), (Nat.eqb_spec b 3); lia.
  - intros n. destruct (Nat.eqb_spec n 3); lia.
Qed.
