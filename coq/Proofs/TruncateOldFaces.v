(* Proofs/TruncateOldFaces.v — the dart successor of the truncated lattice, completely, and what it does to the old
   face walks (C13, clause "every old plaquette enlarged by one side per truncated corner").
   L' = trunc_spec L vs (= vertices_to_polygon L vs).  Hypothesis all_turns_cw L vs = true: turns_cw at every
   truncated vertex.
     A. ang_lt is invariant under positive rescaling of its arguments; sort_desc only depends on the comparisons
     B. at a vertex x that is not truncated the rotation-system row is unchanged:
           sorted_adj L' (base_index x) = sorted_adj L x
     C. truncate_nd_spec: nd L' in terms of nd L:
           old dart (e,b) with untouched head            nd L' (e,b) = nd L (e,b)
           old dart (e,b) entering truncated h at corner u   nd L' (e,b) = (pe h u, true),  nd L' (pe h u, true) = nd L (e,b)
           (pe h u, false)                                nd L' = (pe h (u-1), false)          [TruncateFaces.nd_pstep]
     D. expand: every closed orbit w of nd L becomes the closed orbit expand w of nd L' (one polygon step inserted
        after every step that enters a truncated vertex): length w + ncorners w sides; and all_faces L' lists a
        cyclic rotation of it. *)
From Coq Require Import List ZArith Bool Arith Lia ZifyBool Permutation Sorted.
From Koala Require Import Model.Lattice Model.Truncate Proofs.LatticeFacts Proofs.TruncateFacts
     Proofs.TruncateDegrees Proofs.TruncateFacesGeom Proofs.TruncateFacesRot Proofs.TruncateFaces.
Import ListNotations.
Local Open Scope nat_scope.

(* ================================================================== A. rescaling and sorting *)
Section Scaling.
Local Open Scope Z_scope.

Lemma half_scale lam a : 0 < lam -> half (vscale lam a) = half a.
Proof.
  destruct a as [x y]. unfold half, vscale. cbn [fst snd]. intros H.
  destruct (Z.ltb_spec 0 (- (lam * x))), (Z.ltb_spec 0 (- x)), (Z.eqb_spec (- (lam * x)) 0), (Z.eqb_spec (- x) 0),
           (Z.ltb_spec 0 (lam * y)), (Z.ltb_spec 0 y); cbn; try reflexivity; exfalso; nia.
Qed.

Lemma ang_lt_scale lam mu a b : 0 < lam -> 0 < mu -> ang_lt (vscale lam a) (vscale mu b) = ang_lt a b.
Proof.
  intros Hl Hm. unfold ang_lt. rewrite !half_scale by assumption.
  destruct a as [xa ya], b as [xb yb]. unfold vscale. cbn [fst snd].
  f_equal. f_equal.
  assert (E : lam * ya * - (mu * xb) - - (lam * xa) * (mu * yb) = (lam * mu) * (ya * - xb - - xa * yb)) by ring.
  rewrite E. set (c := ya * - xb - - xa * yb). assert (0 < lam * mu) by nia.
  destruct (Z.ltb_spec 0 (lam * mu * c)), (Z.ltb_spec 0 c); try reflexivity; exfalso; nia.
Qed.
End Scaling.

Lemma insert_desc_cmp_ext k1 k2 x l :
  (forall y, In y l -> ang_lt (k1 y) (k1 x) = ang_lt (k2 y) (k2 x)) -> insert_desc k1 x l = insert_desc k2 x l.
Proof.
  induction l as [|z l IH]; intros H; [reflexivity|]. cbn [insert_desc].
  rewrite (H z (or_introl eq_refl)). destruct (ang_lt (k2 z) (k2 x)); [reflexivity|].
  rewrite IH; [reflexivity|]. intros y Hy. apply H. right. exact Hy.
Qed.

Lemma sort_desc_cmp_ext k1 k2 l :
  (forall x y, In x l -> In y l -> ang_lt (k1 y) (k1 x) = ang_lt (k2 y) (k2 x)) -> sort_desc k1 l = sort_desc k2 l.
Proof.
  intros H. unfold sort_desc.
  assert (G : forall l' acc, (forall x, In x l' -> In x l) -> (forall x, In x acc -> In x l) ->
            fold_left (fun a x => insert_desc k1 x a) l' acc = fold_left (fun a x => insert_desc k2 x a) l' acc).
  { induction l' as [|x l' IH]; intros acc H1 H2; [reflexivity|]. cbn [fold_left].
    rewrite (insert_desc_cmp_ext k1 k2 x acc).
    - apply IH; [intros y Hy; apply H1; right; exact Hy|].
      intros y Hy. apply (Permutation_in _ (insert_desc_perm k2 x acc)) in Hy.
      destruct Hy as [<-|Hy]; [apply H1; left; reflexivity|apply H2, Hy].
    - intros y Hy. apply H; [apply H1; left; reflexivity|apply H2, Hy]. }
  apply G; [auto|intros x []].
Qed.

(* ================================================================== B. vertices that are not truncated *)
Lemma filter_false_nil {A} (p : A -> bool) l : (forall a, In a l -> p a = false) -> filter p l = [].
Proof.
  induction l as [|a l IH]; intros H; [reflexivity|]. cbn [filter]. rewrite (H a (or_introl eq_refl)).
  apply IH. intros b Hb. apply H. right. exact Hb.
Qed.

Section Untouched.
Variables (L : lattice) (vs : option (list nat)) (x : nat).
Hypothesis Hg : good L.
Hypothesis Hx : x < nV L.
Hypothesis Hnt : is_truncated L vs x = false.
Local Set Default Proof Using "Hg Hx Hnt".

Local Notation L' := (trunc_spec L vs).
Local Notation bx := (base_index L vs x).

Lemma newidx_untouched_iff j e :
  In e (sorted_adj L j) -> (newidx L vs j e = bx <-> j = x).
Proof.
  intros Hin. pose proof (newidx_hit L vs j e x 0 Hin) as H. rewrite Nat.add_0_r in H.
  rewrite H by (unfold blklen; rewrite Hnt; lia). rewrite Hnt. tauto.
Qed.

Lemma incident_b_old e : e < nE L -> incident_b L' bx e = incident_b L x e.
Proof.
  intros He. destruct (good_edge L e Hg He) as (Hj & Hk & Hjk).
  unfold incident_b at 1. rewrite edge_at_spec_orig by exact He.
  unfold incident_b. destruct (edge_at L e) as [j k] eqn:E. cbn [fst snd] in *.
  assert (Hinj : In e (sorted_adj L j)) by (apply in_sorted_adj_ends; rewrite E; auto).
  assert (Hink : In e (sorted_adj L k)) by (apply in_sorted_adj_ends; rewrite E; auto).
  pose proof (newidx_untouched_iff j e Hinj) as Ij. pose proof (newidx_untouched_iff k e Hink) as Ik.
  destruct (Nat.eqb_spec (newidx L vs j e) bx), (Nat.eqb_spec j x), (Nat.eqb_spec (newidx L vs k e) bx), (Nat.eqb_spec k x);
    try reflexivity; tauto.
Qed.

Lemma incident_b_poly i : nE L <= i -> i < nE L' -> incident_b L' bx i = false.
Proof.
  intros H1 H2. rewrite trunc_nE in H2.
  destruct (incident_b L' bx i) eqn:E; [|reflexivity]. exfalso.
  apply incident_b_iff in E.
  assert (Hin : In (edge_at L' i) (flat_map (aeblk L vs) (seq 0 (nV L)))).
  { unfold edge_at, trunc_spec. cbn [edges]. rewrite app_nth2 by (rewrite oe_spec_length; exact H1).
    apply nth_In. rewrite oe_spec_length, aedges_length. lia. }
  apply in_flat_map in Hin as (w & Hw & Hin). apply in_seq in Hw.
  unfold aeblk, aeblk_rt in Hin. destruct (is_truncated L vs w) eqn:Htr; [|destruct Hin].
  apply in_map_iff in Hin as (u & Eu & Hu). apply in_seq in Hu. rewrite <- Eu in E. cbn [fst snd] in E.
  assert (Hm : Nat.modulo (u + 1) (length (sorted_adj L w)) < length (sorted_adj L w)) by (apply mod_succ_lt; lia).
  assert (w = x).
  { destruct E as [E|E].
    - apply (interval_inj L vs w x (base_index L vs w + u)); unfold blklen; rewrite ?Htr, ?Hnt; lia.
    - apply (interval_inj L vs w x (base_index L vs w + Nat.modulo (u + 1) (length (sorted_adj L w))));
        unfold blklen; rewrite ?Htr, ?Hnt; lia. }
  subst w. congruence.
Qed.

Lemma incident_untouched : incident L' bx = incident L x.
Proof.
  unfold incident. rewrite trunc_nE, seq_app, filter_app. cbn [Nat.add].
  rewrite (filter_false_nil _ (seq (nE L) (sumdeg L vs (nV L)))).
  - rewrite app_nil_r. apply filter_ext_in. intros e He. apply in_seq in He. apply incident_b_old. lia.
  - intros i Hi. apply in_seq in Hi. apply incident_b_poly; [lia|rewrite trunc_nE; lia].
Qed.

Lemma fst_old_iff e : e < nE L -> incident_b L x e = true ->
  (fst (edge_at L' e) = bx <-> fst (edge_at L e) = x).
Proof.
  intros He Hinc. rewrite edge_at_spec_orig by exact He. cbn [fst].
  apply newidx_untouched_iff. apply in_sorted_adj_ends. split; [exact He|left; reflexivity].
Qed.

Lemma snd_old_iff e : e < nE L -> incident_b L x e = true ->
  (snd (edge_at L' e) = bx <-> snd (edge_at L e) = x).
Proof.
  intros He Hinc. rewrite edge_at_spec_orig by exact He. cbn [snd].
  apply newidx_untouched_iff. apply in_sorted_adj_ends. split; [exact He|right; reflexivity].
Qed.

Lemma outvec_untouched e : e < nE L -> incident_b L x e = true ->
  exists lam, (0 < lam)%Z /\ outvec L' bx e = vscale lam (outvec L x e).
Proof.
  intros He Hinc.
  pose proof (of_spec L vs _ Hg (truncate_vectors_original L vs e Hg He)) as Hev.
  set (lam := (3 - Z.of_nat ((if is_truncated L vs (fst (edge_at L e)) then 1 else 0) +
                            (if is_truncated L vs (snd (edge_at L e)) then 1 else 0)))%Z) in *.
  exists lam. split.
  - unfold lam. destruct (is_truncated L vs (fst (edge_at L e))), (is_truncated L vs (snd (edge_at L e))); cbn; lia.
  - unfold outvec. rewrite Hev. pose proof (fst_old_iff e He Hinc) as Hiff.
    destruct (Nat.eqb_spec (fst (edge_at L' e)) bx) as [E|E];
      destruct (Nat.eqb_spec (fst (edge_at L e)) x) as [F|F]; try tauto; try reflexivity.
    generalize (evec L e). intros [a b]. unfold vneg, vscale. cbn [fst snd]. f_equal; ring.
Qed.

(* the rotation system at a vertex that is not truncated is unchanged *)
Theorem sorted_adj_untouched : sorted_adj L' bx = sorted_adj L x.
Proof.
  unfold sorted_adj. rewrite incident_untouched. apply sort_desc_cmp_ext.
  intros a b Ha Hb. apply in_incident in Ha as [Ha Hia]. apply in_incident in Hb as [Hb Hib].
  destruct (outvec_untouched a Ha Hia) as (la & Hla & ->). destruct (outvec_untouched b Hb Hib) as (lb & Hlb & ->).
  apply ang_lt_scale; assumption.
Qed.

Lemma bx_lt : bx < nV L'.
Proof.
  rewrite trunc_nV. pose proof (base_index_lt L vs x (nV L) Hx) as H. unfold blklen in H. rewrite Hnt in H. lia.
Qed.

Lemma out_dart_untouched f : In f (sorted_adj L x) -> out_dart L' bx f = out_dart L x f.
Proof.
  intros Hf. apply in_sorted_adj in Hf as [Hf Hinc]. unfold out_dart. f_equal.
  pose proof (fst_old_iff f Hf Hinc) as Hiff.
  destruct (Nat.eqb_spec (fst (edge_at L' f)) bx), (Nat.eqb_spec (fst (edge_at L f)) x); try reflexivity; tauto.
Qed.

Lemma dhead_untouched e b : e < nE L -> dhead L (e, b) = x -> dhead L' (e, b) = bx.
Proof.
  intros He Hh.
  assert (Hinc : incident_b L x e = true) by (rewrite <- Hh; apply (incident_head L (e, b)); exact He).
  unfold dhead in *. cbn [fst snd] in *.
  pose proof (fst_old_iff e He Hinc) as F. pose proof (snd_old_iff e He Hinc) as S.
  destruct (edge_at L e) as [j k]. destruct (edge_at L' e) as [j' k']. cbn [fst snd] in *.
  destruct b; [apply S, Hh|apply F, Hh].
Qed.

(* C, first case: a face walk passes a vertex that is not truncated exactly as before *)
Theorem nd_untouched e b : e < nE L -> dhead L (e, b) = x -> nd L' (e, b) = nd L (e, b).
Proof.
  intros He Hh.
  assert (Hval' : valid_dart L' (e, b)) by (unfold valid_dart; cbn [fst]; rewrite trunc_nE; lia).
  destruct (nd_spec L' _ (trunc_spec_good L vs Hg) Hval') as (f' & Hs' & Hn').
  destruct (nd_spec L (e, b) Hg He) as (f & Hs & Hn).
  rewrite (dhead_untouched e b He Hh) in Hs', Hn'. rewrite Hh in Hs, Hn.
  rewrite sorted_adj_untouched in Hs'. cbn [fst] in *. rewrite Hs in Hs'. injection Hs' as <-.
  rewrite Hn', Hn. f_equal. apply out_dart_untouched. apply (succ_in_In _ _ _ Hs).
Qed.
End Untouched.

(* ================================================================== generic: closed orbits given by their darts *)
Notation dd := (0%nat, true).

Definition mkstep (M : lattice) (a : dart) : nat * nat * bool := (fst a, dtail M a, snd a).

Lemma sdart_mkstep M a : sdart (mkstep M a) = a.
Proof. destruct a; reflexivity. Qed.

Lemma map_sdart_mkstep M l : map sdart (map (mkstep M) l) = l.
Proof. rewrite map_map. rewrite (map_ext _ (fun a => a)) by (intros; apply sdart_mkstep). apply map_id. Qed.

Fixpoint dchain (M : lattice) (l : list dart) : Prop :=
  match l with
  | a :: ((b :: _) as r) => nd M a = Some b /\ dchain M r
  | _ => True
  end.

Lemma dchain_chain M l : dchain M l -> chain M (map (mkstep M) l).
Proof.
  induction l as [|a l IH]; [intros; exact I|]. destruct l as [|b l]; [intros; exact I|].
  intros [H1 H2]. cbn [map]. split; [rewrite !sdart_mkstep; exact H1|apply IH, H2].
Qed.

Lemma chain_dchain M w : chain M w -> dchain M (map sdart w).
Proof.
  induction w as [|a w IH]; [intros; exact I|]. destruct w as [|b w]; [intros; exact I|].
  intros [H1 H2]. cbn [map]. split; [exact H1|apply IH, H2].
Qed.

Lemma dchain_tl M a r : dchain M (a :: r) -> dchain M r.
Proof. destruct r as [|b r]; [intros; exact I|]. intros [_ H]. exact H. Qed.

Lemma dchain_app M l1 l2 :
  dchain M l1 -> dchain M l2 -> (l1 <> [] -> l2 <> [] -> nd M (last l1 dd) = Some (hd dd l2)) ->
  dchain M (l1 ++ l2).
Proof.
  induction l1 as [|a l1 IH]; intros C1 C2 Hl; [exact C2|].
  destruct l1 as [|c l1].
  - cbn [app]. destruct l2 as [|b l2]; [exact I|]. split; [apply Hl; discriminate|exact C2].
  - destruct C1 as [Hac C1]. change ((a :: c :: l1) ++ l2) with (a :: (c :: l1) ++ l2).
    change ((c :: l1) ++ l2) with (c :: l1 ++ l2). split; [exact Hac|].
    change (c :: l1 ++ l2) with ((c :: l1) ++ l2). apply IH; [exact C1|exact C2|].
    intros _ N2. apply Hl; [discriminate|exact N2].
Qed.

Lemma last_map_ne {A B} (f : A -> B) l d1 d2 : l <> [] -> last (map f l) d1 = f (last l d2).
Proof.
  induction l as [|a l IH]; intros N; [contradiction|]. destruct l as [|b l]; [reflexivity|].
  change (last (map f (a :: b :: l)) d1) with (last (map f (b :: l)) d1).
  change (last (a :: b :: l) d2) with (last (b :: l) d2). apply IH. discriminate.
Qed.

Lemma last_In {A} (l : list A) d : l <> [] -> In (last l d) l.
Proof.
  intros N. rewrite (app_removelast_last d N) at 2. apply in_or_app. right. left. reflexivity.
Qed.

Lemma hd_map_ne {A B} (f : A -> B) l d1 d2 : l <> [] -> hd d1 (map f l) = f (hd d2 l).
Proof. destruct l; [contradiction|reflexivity]. Qed.

Lemma orbit_of_darts M ds :
  LatticeFacts.good M -> ds <> [] -> (forall a, In a ds -> valid_dart M a) -> dchain M ds ->
  nd M (last ds dd) = Some (hd dd ds) -> NoDup ds -> orbit_walk M (map (mkstep M) ds).
Proof.
  intros HG N Hv Hc Hcl Hnd. constructor.
  - intros E. apply map_eq_nil in E. contradiction.
  - intros s Hs. apply in_map_iff in Hs as (a & <- & Ha). split; [rewrite sdart_mkstep; apply Hv, Ha|].
    rewrite sdart_mkstep. reflexivity.
  - apply dchain_chain, Hc.
  - rewrite (last_map_ne _ ds _ dd N), (hd_map_ne _ ds _ dd N), !sdart_mkstep. exact Hcl.
  - rewrite map_sdart_mkstep. exact Hnd.
Qed.

(* rotations of closed orbits *)
Lemma chain_app_l M l1 l2 : chain M (l1 ++ l2) -> chain M l1.
Proof.
  induction l1 as [|a l1 IH]; [intros; exact I|]. destruct l1 as [|b l1]; [intros; exact I|].
  intros [H1 H2]. split; [exact H1|apply IH, H2].
Qed.

Lemma chain_app_intro M l1 l2 :
  chain M l1 -> chain M l2 ->
  (l1 <> [] -> l2 <> [] -> nd M (sdart (last l1 tdflt)) = Some (sdart (hd tdflt l2))) -> chain M (l1 ++ l2).
Proof.
  induction l1 as [|a l1 IH]; intros C1 C2 Hl; [exact C2|].
  destruct l1 as [|c l1].
  - cbn [app]. destruct l2 as [|b l2]; [exact I|]. split; [apply Hl; discriminate|exact C2].
  - destruct C1 as [Hac C1]. change ((a :: c :: l1) ++ l2) with (a :: (c :: l1) ++ l2).
    change ((c :: l1) ++ l2) with (c :: l1 ++ l2). split; [exact Hac|].
    change (c :: l1 ++ l2) with ((c :: l1) ++ l2). apply IH; [exact C1|exact C2|].
    intros _ N2. apply Hl; [discriminate|exact N2].
Qed.

Lemma last_app_ne {A} (l1 l2 : list A) d : l2 <> [] -> last (l1 ++ l2) d = last l2 d.
Proof.
  intros N. induction l1 as [|a l1 IH]; [reflexivity|].
  cbn [app]. destruct (l1 ++ l2) eqn:E; [destruct l1; [contradiction|discriminate]|]. rewrite <- IH. reflexivity.
Qed.

Lemma orbit_walk_rot M l1 l2 : orbit_walk M (l1 ++ l2) -> l2 <> [] -> orbit_walk M (l2 ++ l1).
Proof.
  intros HO N2. destruct l1 as [|x l1]; [rewrite app_nil_r; exact HO|].
  set (l1' := x :: l1) in *. assert (N1 : l1' <> []) by discriminate.
  constructor.
  - destruct l2; [contradiction|discriminate].
  - intros s Hs. apply (ow_ok _ _ HO). apply in_app_or in Hs. apply in_or_app. tauto.
  - apply chain_app_intro.
    + apply (chain_app_r M l1' l2), (ow_chain _ _ HO).
    + apply (chain_app_l M l1' l2), (ow_chain _ _ HO).
    + intros _ _. pose proof (ow_close _ _ HO) as Hc. rewrite last_app_ne in Hc by exact N2.
      unfold l1' in *. exact Hc.
  - rewrite last_app_ne by exact N1.
    destruct l2 as [|y l2]; [contradiction|]. cbn [app hd].
    apply (chain_app_mid M l1' y l2 (ow_chain _ _ HO) N1).
  - rewrite map_app. eapply Permutation_NoDup; [apply Permutation_app_comm|]. rewrite <- map_app. apply (ow_nodup _ _ HO).
Qed.

Theorem orbit_walks_rotation M w1 w2 :
  orbit_walk M w1 -> orbit_walk M w2 -> In (sdart (hd tdflt w2)) (map sdart w1) ->
  exists l1 l2, w1 = l1 ++ l2 /\ w2 = l2 ++ l1.
Proof.
  intros O1 O2 Hin. apply in_map_iff in Hin as (s & Es & Hs). apply in_split in Hs as (l1 & l2 & E).
  exists l1, (s :: l2). split; [exact E|].
  symmetry. apply (orbit_walk_hd_unique M); [|exact O2|cbn [app hd]; exact Es].
  apply orbit_walk_rot; [rewrite <- E; exact O1|discriminate].
Qed.

(* ================================================================== C/D. old darts and old face walks *)
Definition all_turns_cw (L : lattice) (vs : option (list nat)) : bool :=
  forallb (fun v => negb (is_truncated L vs v) || turns_cw L v) (seq 0 (nV L)).

Lemma all_turns_cw_at L vs v :
  all_turns_cw L vs = true -> v < nV L -> is_truncated L vs v = true -> turns_cw L v = true.
Proof.
  intros H Hv Htr. unfold all_turns_cw in H. rewrite forallb_forall in H.
  specialize (H v ltac:(apply in_seq; lia)). rewrite Htr in H. exact H.
Qed.

Lemma sumdeg_lt L vs w v : w < v -> sumdeg L vs w + polylen L vs w <= sumdeg L vs v.
Proof.
  induction v as [|v IH]; intros H; [lia|]. rewrite sumdeg_S.
  destruct (Nat.eq_dec w v) as [->|E]; [lia|]. assert (w < v) by lia. specialize (IH H0). lia.
Qed.

Lemma pe_inj L vs h h' u u' :
  is_truncated L vs h = true -> is_truncated L vs h' = true ->
  u < length (sorted_adj L h) -> u' < length (sorted_adj L h') ->
  pe L vs h u = pe L vs h' u' -> h = h' /\ u = u'.
Proof.
  intros T T' Hu Hu' E. unfold pe in E.
  destruct (Nat.lt_trichotomy h h') as [H|[H|H]].
  - pose proof (sumdeg_lt L vs h h' H) as S. unfold polylen in S. rewrite T in S. lia.
  - subst h'. split; [reflexivity|lia].
  - pose proof (sumdeg_lt L vs h' h H) as S. unfold polylen in S. rewrite T' in S. lia.
Qed.

Definition corner_of (L : lattice) (a : dart) : nat := pos_in (fst a) (sorted_adj L (dhead L a)).
Definition pdart (L : lattice) (vs : option (list nat)) (a : dart) : dart :=
  (pe L vs (dhead L a) (corner_of L a), true).
(* one polygon step is inserted after every step that enters a truncated vertex *)
Definition ex_dart (L : lattice) (vs : option (list nat)) (a : dart) : list dart :=
  if is_truncated L vs (dhead L a) then [a; pdart L vs a] else [a].
Definition expand (L : lattice) (vs : option (list nat)) (w : list (nat * nat * bool)) : list (nat * nat * bool) :=
  map (mkstep (trunc_spec L vs)) (flat_map (ex_dart L vs) (map sdart w)).
(* number of truncated corners the walk passes (with multiplicity) *)
Definition ncorners (L : lattice) (vs : option (list nat)) (w : list (nat * nat * bool)) : nat :=
  length (filter (fun s => is_truncated L vs (dhead L (sdart s))) w).

Section Old.
Variables (L : lattice) (vs : option (list nat)).
Hypothesis Hg : good L.
Hypothesis Hcw : all_turns_cw L vs = true.
Local Set Default Proof Using "Hg Hcw".
Local Notation L' := (trunc_spec L vs).

Lemma HG2 : LatticeFacts.good L'.
Proof. apply trunc_spec_good, Hg. Qed.

Lemma old_in_row a : valid_dart L a -> In (fst a) (sorted_adj L (dhead L a)).
Proof. intros Hv. apply in_sorted_adj. split; [exact Hv|apply incident_head, Hv]. Qed.

Lemma corner_lt a : valid_dart L a -> corner_of L a < length (sorted_adj L (dhead L a)).
Proof. intros Hv. apply pos_in_lt, old_in_row, Hv. Qed.

Lemma old_valid' a : valid_dart L a -> valid_dart L' a.
Proof. unfold valid_dart. rewrite trunc_nE. lia. Qed.

Lemma pdart_valid a : valid_dart L a -> is_truncated L vs (dhead L a) = true -> valid_dart L' (pdart L vs a).
Proof.
  intros Hv Htr. unfold valid_dart, pdart. cbn [fst].
  apply pe_lt; [exact Hg|apply dhead_lt; assumption|exact Htr|apply corner_lt, Hv].
Qed.

(* C, second case: entering a truncated vertex *)
Theorem nd_truncated a : valid_dart L a -> is_truncated L vs (dhead L a) = true ->
  nd L' a = Some (pdart L vs a) /\ nd L' (pdart L vs a) = nd L a.
Proof.
  intros Hv Htr. destruct a as [e b]. set (h := dhead L (e, b)) in *.
  assert (Hh : h < nV L) by (apply dhead_lt; assumption).
  pose proof (all_turns_cw_at L vs h Hcw Hh Htr) as Hc.
  pose proof (old_in_row (e, b) Hv) as Hin. cbn [fst] in Hin. fold h in Hin.
  pose proof (corner_detour_partial L vs h Hg Hh Htr Hc (pos_in e (sorted_adj L h)) b (pos_in_lt _ _ Hin)) as CD.
  rewrite (nth_pos_in e _ Hin) in CD. specialize (CD eq_refl). cbv zeta in CD.
  destruct CD as (C1 & _ & C3 & _ & C5 & C6).
  unfold pdart, corner_of. cbn [fst]. fold h. split; [exact C3|].
  rewrite C5, C1. f_equal. unfold out_dart in *. cbn [snd] in C6. rewrite C6. reflexivity.
Qed.

(* C, assembled: the dart successor of L' on every old dart and on the forward polygon darts *)
Theorem truncate_nd_spec a : valid_dart L a ->
  if is_truncated L vs (dhead L a)
  then nd L' a = Some (pdart L vs a) /\ nd L' (pdart L vs a) = nd L a
  else nd L' a = nd L a.
Proof.
  intros Hv. destruct (is_truncated L vs (dhead L a)) eqn:Htr; [apply nd_truncated; assumption|].
  destruct a as [e b]. apply (nd_untouched L vs (dhead L (e, b)) Hg); [apply dhead_lt; assumption|exact Htr|exact Hv|reflexivity].
Qed.

(* ---------- D. expansion of a chain of darts ---------- *)
Lemma ex_hd a : hd dd (ex_dart L vs a) = a.
Proof. unfold ex_dart. destruct (is_truncated L vs (dhead L a)); reflexivity. Qed.

Lemma ex_ne a : ex_dart L vs a <> [].
Proof. unfold ex_dart. destruct (is_truncated L vs (dhead L a)); discriminate. Qed.

Lemma ex_chain a : valid_dart L a -> dchain L' (ex_dart L vs a).
Proof.
  intros Hv. unfold ex_dart. destruct (is_truncated L vs (dhead L a)) eqn:Htr; [|exact I].
  split; [apply nd_truncated; assumption|exact I].
Qed.

Lemma ex_last a : valid_dart L a -> nd L' (last (ex_dart L vs a) dd) = nd L a.
Proof.
  intros Hv. pose proof (truncate_nd_spec a Hv) as H. unfold ex_dart.
  destruct (is_truncated L vs (dhead L a)); [apply H|exact H].
Qed.

Lemma hd_flat_ex ds : hd dd (flat_map (ex_dart L vs) ds) = hd dd ds.
Proof.
  destruct ds as [|a r]; [reflexivity|]. cbn [flat_map hd].
  pose proof (ex_hd a) as H. destruct (ex_dart L vs a) as [|x l] eqn:E; [exfalso; exact (ex_ne a E)|].
  cbn [app hd] in *. exact H.
Qed.

Lemma last_flat_ex ds : ds <> [] -> last (flat_map (ex_dart L vs) ds) dd = last (ex_dart L vs (last ds dd)) dd.
Proof.
  induction ds as [|a r IH]; intros N; [contradiction|]. destruct r as [|b r].
  - cbn [flat_map last]. rewrite app_nil_r. reflexivity.
  - change (flat_map (ex_dart L vs) (a :: b :: r)) with (ex_dart L vs a ++ flat_map (ex_dart L vs) (b :: r)).
    rewrite last_app_ne.
    + change (last (a :: b :: r) dd) with (last (b :: r) dd). apply IH. discriminate.
    + cbn [flat_map]. intros E. apply app_eq_nil in E as [E _]. exact (ex_ne b E).
Qed.

Lemma dchain_expand ds :
  (forall a, In a ds -> valid_dart L a) -> dchain L ds -> dchain L' (flat_map (ex_dart L vs) ds).
Proof.
  induction ds as [|a r IH]; intros Hv Hc; [exact I|]. cbn [flat_map]. apply dchain_app.
  - apply ex_chain, Hv. left. reflexivity.
  - apply IH; [intros x Hx; apply Hv; right; exact Hx|apply (dchain_tl L a), Hc].
  - intros _ N2. rewrite ex_last by (apply Hv; left; reflexivity). rewrite hd_flat_ex.
    destruct r as [|b r]; [contradiction|]. destruct Hc as [Hab _]. exact Hab.
Qed.

Lemma in_ex a x : In x (ex_dart L vs a) -> x = a \/ (is_truncated L vs (dhead L a) = true /\ x = pdart L vs a).
Proof.
  unfold ex_dart. destruct (is_truncated L vs (dhead L a)); cbn [In]; intros H.
  - destruct H as [<-|[<-|[]]]; auto.
  - destruct H as [<-|[]]; auto.
Qed.

Lemma pdart_not_old a c : valid_dart L a -> pdart L vs c <> a.
Proof. intros Hv E. unfold valid_dart in Hv. rewrite <- E in Hv. unfold pdart, pe in Hv. cbn [fst] in Hv. lia. Qed.

Lemma pdart_inj a c :
  valid_dart L a -> valid_dart L c ->
  is_truncated L vs (dhead L a) = true -> is_truncated L vs (dhead L c) = true ->
  pdart L vs a = pdart L vs c -> a = c.
Proof.
  intros Ha Hc Ta Tc E. unfold pdart in E. injection E as E.
  destruct (pe_inj L vs _ _ _ _ Ta Tc (corner_lt a Ha) (corner_lt c Hc) E) as [Eh Eu].
  pose proof (nth_pos_in _ _ (old_in_row a Ha)) as Na. pose proof (nth_pos_in _ _ (old_in_row c Hc)) as Nc.
  unfold corner_of in Eu. rewrite Eu, Eh in Na. rewrite Na in Nc.
  destruct a as [e b], c as [e' b']. cbn [fst] in *. subst e'. f_equal.
  apply (dart_by_head L e b b' Hg Ha Eh).
Qed.

Lemma nodup_expand ds :
  (forall a, In a ds -> valid_dart L a) -> NoDup ds -> NoDup (flat_map (ex_dart L vs) ds).
Proof.
  induction ds as [|a r IH]; intros Hv Hnd; [constructor|]. cbn [flat_map].
  apply NoDup_cons_iff in Hnd as [Hna Hnd].
  assert (Hva : valid_dart L a) by (apply Hv; left; reflexivity).
  assert (Hvr : forall x, In x r -> valid_dart L x) by (intros x Hx; apply Hv; right; exact Hx).
  apply NoDup_app_intro.
  - unfold ex_dart. destruct (is_truncated L vs (dhead L a)); [|repeat constructor; intros []].
    repeat constructor; cbn [In]; [|tauto]. intros [E|[]]. exact (pdart_not_old a a Hva E).
  - apply IH; assumption.
  - intros x Hx1 Hx2. apply in_flat_map in Hx2 as (c & Hc & Hx2).
    apply in_ex in Hx1. apply in_ex in Hx2.
    destruct Hx1 as [->|[Ta ->]], Hx2 as [E|[Tc E]].
    + subst c. contradiction.
    + exact (pdart_not_old a c Hva (eq_sym E)).
    + exact (pdart_not_old c a (Hvr c Hc) E).
    + apply Hna. rewrite (pdart_inj a c Hva (Hvr c Hc) Ta Tc E). exact Hc.
Qed.

Lemma valid_expand ds x :
  (forall a, In a ds -> valid_dart L a) -> In x (flat_map (ex_dart L vs) ds) -> valid_dart L' x.
Proof.
  intros Hv Hx. apply in_flat_map in Hx as (c & Hc & Hx). apply in_ex in Hx.
  destruct Hx as [->|[Tc ->]]; [apply old_valid', Hv, Hc|apply pdart_valid; [apply Hv, Hc|exact Tc]].
Qed.

(* D: every closed orbit of nd L is turned into a closed orbit of nd L' *)
Theorem expand_orbit w : orbit_walk L w -> orbit_walk L' (expand L vs w).
Proof.
  intros HO. set (ds := map sdart w).
  assert (N : ds <> []) by (intros E; apply map_eq_nil in E; exact (ow_ne _ _ HO E)).
  assert (Hv : forall a, In a ds -> valid_dart L a).
  { intros a Ha. apply in_map_iff in Ha as (s & <- & Hs). apply (ow_ok _ _ HO s Hs). }
  assert (Hc : dchain L ds) by (apply chain_dchain, (ow_chain _ _ HO)).
  assert (Hcl : nd L (last ds dd) = Some (hd dd ds)).
  { unfold ds. rewrite (last_map_ne _ w _ tdflt (ow_ne _ _ HO)), (hd_map_ne _ w _ tdflt (ow_ne _ _ HO)).
    apply (ow_close _ _ HO). }
  unfold expand. fold ds. apply orbit_of_darts.
  - exact HG2.
  - destruct ds as [|a r]; [contradiction|]. cbn [flat_map]. intros E. apply app_eq_nil in E as [E _]. exact (ex_ne a E).
  - intros x Hx. apply (valid_expand ds x Hv Hx).
  - apply dchain_expand; assumption.
  - rewrite last_flat_ex by exact N. rewrite ex_last by (apply Hv, last_In, N).
    rewrite hd_flat_ex. exact Hcl.
  - apply nodup_expand; [exact Hv|apply (ow_nodup _ _ HO)].
Qed.
Lemma ex_length a : length (ex_dart L vs a) = (1 + (if is_truncated L vs (dhead L a) then 1 else 0))%nat.
Proof. unfold ex_dart. destruct (is_truncated L vs (dhead L a)); reflexivity. Qed.

Theorem expand_length w : length (expand L vs w) = length w + ncorners L vs w.
Proof.
  unfold expand, ncorners. rewrite map_length. induction w as [|s w IH]; [reflexivity|].
  cbn [map flat_map filter]. rewrite app_length, ex_length, IH.
  destruct (is_truncated L vs (dhead L (sdart s))); cbn [length]; lia.
Qed.

(* ... and the sweep of the truncated lattice lists a cyclic rotation of it *)
Theorem old_face_listed fs f :
  all_faces L = Some fs -> In f fs ->
  orbit_walk L (f_walk f) /\
  exists fs', all_faces L' = Some fs' /\
    exists f' l1 l2, In f' fs' /\ f' = mk_face L' (f_walk f') /\
      expand L vs (f_walk f) = l1 ++ l2 /\ f_walk f' = l2 ++ l1.
Proof.
  intros E Hfin. destruct (all_faces_spec L Hg) as (fs0 & E0 & Hf & _ & _). rewrite E in E0. injection E0 as <-.
  destruct (Hf f Hfin) as [HO _]. split; [exact HO|].
  pose proof (expand_orbit (f_walk f) HO) as HO'.
  destruct (all_faces_spec L' HG2) as (fs' & E' & Hf' & _ & Hall'). exists fs'. split; [exact E'|].
  set (w' := expand L vs (f_walk f)) in *.
  assert (Hhd : In (hd tdflt w') w') by (destruct w' as [|a r]; [exact (False_ind _ (ow_ne _ _ HO' eq_refl))|left; reflexivity]).
  assert (H0 : In (sdart (hd tdflt w')) (face_darts fs')) by (apply Hall', (ow_ok _ _ HO' _ Hhd)).
  unfold face_darts in H0. apply in_flat_map in H0 as (wf & Hwf & Hin).
  apply in_map_iff in Hwf as (f' & <- & Hf'in). destruct (Hf' f' Hf'in) as [HOf Hmk].
  rewrite walk_darts_sdart in Hin. apply in_map_iff in Hin as (s & Es & Hs).
  pose proof (orbit_reach_hd L' _ s HOf Hs) as Hr. rewrite Es in Hr.
  assert (HS : In (sdart (hd tdflt (f_walk f'))) (map sdart w')).
  { refine (closed_reach L' (fun x => In x (map sdart w')) _ _ _ Hr _).
    - intros a b Ha Hab. exact (orbit_closed L' w' a b HO' Ha Hab).
    - apply in_map, Hhd. }
  destruct (orbit_walks_rotation L' w' (f_walk f') HO' HOf HS) as (l1 & l2 & E1 & E2).
  exists f', l1, l2. repeat split; assumption.
Qed.
End Old.
