(* Proofs/VoronoiPostDual.v — the last link of "post_correct": when the Voronoi record is periodic near the cell
   (pvor), trivalent, and dual to a triangle assignment T (Model/VoronoiDual.dual_ok), the lattice returned by the
   post-processing model passes check_dual for the certificate read off the record. *)
From Coq Require Import List ZArith Bool Arith Lia Sorted.
From Koala Require Import Model.Lattice Model.Delaunay Model.VoronoiPost Model.VoronoiPeriodic.
From Koala Require Import Model.VoronoiDual.
From Koala Require Import Proofs.DelaunayFacts Proofs.VoronoiPostFacts Proofs.VoronoiPostCorrect.
Import ListNotations.
Open Scope Z_scope.

(* ------------------------------------------------------------------ shared sides under symmetry and translation *)
Lemma site_shift_sym : forall p p' cr, site_shift p p' cr -> site_shift p' p (pt_opp cr).
Proof. intros p p' cr (H1 & H2 & H3). unfold site_shift, pt_opp. simpl. repeat split; lia. Qed.

Lemma side_shared_sym : forall t t' cr s s', side_shared t t' cr s s' -> side_shared t' t (pt_opp cr) s' s.
Proof. intros t t' cr s s' [H1 H2]. split; apply site_shift_sym; assumption. Qed.

Lemma tri_side_shift : forall t c s,
  tri_side (tri_shift t c) s = (site_tr (fst (tri_side t s)) c, site_tr (snd (tri_side t s)) c).
Proof. intros [[a b] c0] c s. destruct s as [|[|s]]; reflexivity. Qed.

Lemma site_shift_tr_r : forall p p' cr d, site_shift p p' cr ->
  site_shift p (site_tr p' d) (fst cr - fst d, snd cr - snd d).
Proof. intros p p' cr d (H1 & H2 & H3). unfold site_shift, site_tr, s_idx, s_off in *. simpl. repeat split; lia. Qed.

Lemma side_shared_shift_r : forall t t' cr d s s', side_shared t t' cr s s' ->
  side_shared t (tri_shift t' d) (fst cr - fst d, snd cr - snd d) s s'.
Proof.
  intros t t' cr d s s' [H1 H2]. unfold side_shared. rewrite tri_side_shift. simpl.
  split; apply site_shift_tr_r; assumption.
Qed.

Lemma site_shift_eqb_complete : forall p p' cr, site_shift p p' cr -> site_shift_eqb p p' cr = true.
Proof.
  intros p p' cr (H1 & H2 & H3). unfold site_shift_eqb. rewrite !andb_true_iff, Nat.eqb_eq, !Z.eqb_eq. auto.
Qed.

Lemma side_shared_find : forall t t' cr s s', (s < 3)%nat -> (s' < 3)%nat -> side_shared t t' cr s s' ->
  exists x, find_match t t' cr = Some x.
Proof.
  intros t t' cr s s' Hs Hs' [H1 H2]. destruct (find_match t t' cr) as [x|] eqn:E; [exists x; reflexivity|].
  exfalso. unfold find_match in E.
  assert (Hin : In (s, s') side_pairs).
  { unfold side_pairs. destruct s as [|[|[|s]]]; try lia; destruct s' as [|[|[|s']]]; try lia; simpl; tauto. }
  pose proof (find_none _ _ E (s, s') Hin) as Hn. simpl in Hn. unfold sides_match in Hn.
  destruct (tri_side t s) as [p q]. destruct (tri_side t' s') as [q' p']. simpl in H1, H2.
  rewrite (site_shift_eqb_complete _ _ _ H1), (site_shift_eqb_complete _ _ _ H2) in Hn. discriminate.
Qed.

Lemma has_match_spec : forall t t', has_match t t' = true ->
  exists s s', (s < 3)%nat /\ (s' < 3)%nat /\ side_shared t t' (0, 0) s s'.
Proof.
  intros t t' H. unfold has_match in H. destruct (find_match t t' (0, 0)) as [[s s']|] eqn:E; [|discriminate].
  exists s, s'. apply find_match_spec. exact E.
Qed.

(* ------------------------------------------------------------------ the hypotheses as propositions *)
Lemma site_eqb_eq : forall p q, site_eqb p q = true -> p = q.
Proof.
  intros [i o] [i' o'] H. unfold site_eqb, s_idx, s_off in H. simpl in H. apply andb_true_iff in H.
  destruct H as [H1 H2]. apply Nat.eqb_eq in H1. apply pt_eqb_eq in H2. subst. reflexivity.
Qed.

Lemma tri_eqb_eq : forall t u, tri_eqb t u = true -> t = u.
Proof.
  intros [[a b] c] [[a' b'] c'] H. unfold tri_eqb, t_a, t_b, t_c in H. simpl in H.
  rewrite !andb_true_iff in H. destruct H as [[H1 H2] H3].
  apply site_eqb_eq in H1, H2, H3. subst. reflexivity.
Qed.

(* every returned ridge ((j,k),c) joins two vertices whose triangles share a side with offset c *)
Theorem pbc_edges_shared_side : forall S vs rv T e, pvor S vs rv ->
  d1_ok S vs rv T = true -> d2_ok S vs rv T = true ->
  In e (pbc_edges S vs rv) ->
  exists s s', (s < 3)%nat /\ (s' < 3)%nat /\
    side_shared (nth (fst (fst e)) T tri0) (nth (snd (fst e)) T tri0) (snd e) s s'.
Proof.
  intros S vs rv T e HP H1 H2 He. pose proof (pv_S _ _ _ HP) as HS. pose proof (pv_nodup _ _ _ HP) as HN.
  unfold d1_ok in H1. unfold d2_ok in H2. rewrite forallb_forall in H1, H2.
  rewrite pbc_edges_eq in He. apply in_app_or in He. destruct He as [He|He].
  - apply in_map_iff in He. destruct He as (r & <- & Hr).
    assert (Hm := H2 r (in_or_app _ _ r (or_intror Hr))). apply has_match_spec in Hm.
    exact Hm.
  - destruct (dedup_edges_spec (crossing_edges S vs rv)) as (D1 & _).
    specialize (D1 e He). rewrite crossing_edges_eq in D1. apply in_map_iff in D1. destruct D1 as (r & <- & Hr).
    assert (Hm := H2 r (in_or_app _ _ r (or_introl Hr))). apply has_match_spec in Hm.
    assert (Hd := H1 r Hr). apply andb_true_iff in Hd.
    destruct (crossing_io S vs rv r HP Hr) as (i & o & Hor & Ri & Ro & Ui & Uo & Ci & Co & Hl & Hc & _).
    (* in both orientations of r: the triangles of the inner and outer end share a side, offset 0; D1 at the outer end *)
    assert (Hio : exists s s', (s < 3)%nat /\ (s' < 3)%nat /\ side_shared (tat T i) (tat T o) (0, 0) s s').
    { destruct Hor as [-> | ->]; simpl in Hm; [exact Hm|].
      destruct Hm as (s & s' & Hs & Hs' & Hsh). exists s', s. split; [exact Hs'|]. split; [exact Hs|].
      apply side_shared_sym in Hsh. exact Hsh. }
    assert (Ho : d1_end S vs T o = true) by (destruct Hor as [-> | ->]; simpl in Hd; tauto).
    unfold d1_end in Ho. apply tri_eqb_eq in Ho.
    destruct Hio as (s & s' & Hs & Hs' & Hsh).
    set (c := cell_pt S (vat vs o)) in *.
    apply (side_shared_shift_r _ _ _ (pt_opp c) _ _) in Hsh. rewrite <- Ho in Hsh.
    assert (Ec : (fst (0, 0) - fst (pt_opp c), snd (0, 0) - snd (pt_opp c)) = snd (pedge S vs (vat vs i) (vat vs o))).
    { unfold pedge, pt_opp, c, cell_pt. simpl.
      apply (in_unit_cell S _ HS) in Ui. unfold cell_pt in Ui. injection Ui as U1 U2. f_equal; lia. }
    rewrite Ec in Hsh.
    assert (Ei : fst (fst (pedge S vs (vat vs i) (vat vs o))) = Z.to_nat i) by (apply pedge_inner; assumption).
    assert (Eo : snd (fst (pedge S vs (vat vs i) (vat vs o))) = nearest vs (wrap S (vat vs o))) by reflexivity.
    unfold tat in Hsh. rewrite <- Ei, <- Eo in Hsh.
    destruct Hc as [E|E]; rewrite E.
    + exists s, s'. auto.
    + exists s', s. split; [exact Hs'|]. split; [exact Hs|]. apply side_shared_sym in Hsh.
      unfold rev_edge. simpl. exact Hsh.
Qed.

(* ------------------------------------------------------------------ list lemmas *)
Lemma NoDup_app_disjoint : forall (A : Type) (a b : list A) x, NoDup (a ++ b) -> In x a -> ~ In x b.
Proof.
  intros A a. induction a as [|y a IH]; intros b x H Ha Hb; [inversion Ha|].
  simpl in H. inversion H as [|? ? Hn H']; subst. destruct Ha as [->|Ha].
  - apply Hn. apply in_or_app. right. exact Hb.
  - exact (IH b x H' Ha Hb).
Qed.

Lemma NoDup_app_l : forall (A : Type) (a b : list A), NoDup (a ++ b) -> NoDup a.
Proof.
  intros A a. induction a as [|y a IH]; intros b H; [constructor|]. simpl in H.
  inversion H as [|? ? Hn H']; subst. constructor; [|exact (IH b H')].
  intro Hin. apply Hn. apply in_or_app. left. exact Hin.
Qed.
Lemma NoDup_app_r : forall (A : Type) (a b : list A), NoDup (a ++ b) -> NoDup b.
Proof. intros A a. induction a as [|y a IH]; intros b H; [exact H|]. simpl in H. inversion H; subst. auto. Qed.

Lemma NoDup_flat_map_slot : forall (A B : Type) (f : A -> list B) (l : list A) a b x,
  NoDup (flat_map f l) -> NoDup l -> In a l -> In b l -> In x (f a) -> In x (f b) -> a = b.
Proof.
  intros A B f l. induction l as [|y l IH]; intros a b x H Hl Ha Hb Hxa Hxb; [inversion Ha|].
  simpl in H. inversion Hl as [|? ? Hny Hl']; subst.
  assert (Hrest : forall z, In z l -> In x (f z) -> In x (flat_map f l))
    by (intros z Hz Hxz; apply in_flat_map; exists z; auto).
  destruct Ha as [->|Ha], Hb as [->|Hb]; [reflexivity| | |].
  - exfalso. exact (NoDup_app_disjoint _ _ _ x H Hxa (Hrest b Hb Hxb)).
  - exfalso. exact (NoDup_app_disjoint _ _ _ x H Hxb (Hrest a Ha Hxa)).
  - apply (IH a b x); auto. exact (NoDup_app_r _ _ _ H).
Qed.

Lemma NoDup_flat_map_part : forall (A B : Type) (f : A -> list B) (l : list A) a,
  NoDup (flat_map f l) -> In a l -> NoDup (f a).
Proof.
  intros A B f l. induction l as [|y l IH]; intros a H Ha; [inversion Ha|]. simpl in H.
  destruct Ha as [->|Ha]; [exact (NoDup_app_l _ _ _ H)|apply IH; [exact (NoDup_app_r _ _ _ H)|exact Ha]].
Qed.

(* ------------------------------------------------------------------ D3: slots *)
Definition side_key (t : tri) (s : nat) : skey := mk_skey (fst (tri_side t s)) (snd (tri_side t s)).

Lemma tri_sides_nth : forall t s, (s < 3)%nat -> nth s (tri_sides t) (0%nat, 0%nat, (0, 0)) = side_key t s.
Proof. intros [[a b] c] s Hs. destruct s as [|[|[|s]]]; try lia; reflexivity. Qed.

Lemma d3_slots : forall S vs T, d3_ok S vs T = true ->
  forall o o' s s', (o < length vs)%nat -> (o' < length vs)%nat ->
    in_unit S (nth o vs (0, 0)) = true -> in_unit S (nth o' vs (0, 0)) = true ->
    (s < 3)%nat -> (s' < 3)%nat ->
    side_key (nth o T tri0) s = side_key (nth o' T tri0) s' -> o = o' /\ s = s'.
Proof.
  intros S vs T H o o' s s' Ho Ho' Uo Uo' Hs Hs' E. unfold d3_ok in H.
  apply (nodup_by_NoDup _ skey_eqb) in H; [|intro x; apply skey_eqb_eq; reflexivity].
  unfold cell_sides in H.
  set (f := fun o : nat => if in_unit S (nth o vs (0, 0)) then tri_sides (nth o T tri0) else []) in H.
  assert (Hin : forall x t, (t < 3)%nat -> in_unit S (nth x vs (0, 0)) = true -> In (side_key (nth x T tri0) t) (f x)).
  { intros x t Ht Ux. unfold f. rewrite Ux. rewrite <- (tri_sides_nth _ t Ht). apply nth_In.
    destruct (nth x T tri0) as [[a b] c]. simpl. exact Ht. }
  assert (Eo : o = o').
  { apply (NoDup_flat_map_slot _ _ f (seq 0 (length vs)) o o' (side_key (nth o T tri0) s) H (seq_NoDup _ _)).
    - apply in_seq. lia.
    - apply in_seq. lia.
    - apply Hin; assumption.
    - rewrite E. apply Hin; assumption. }
  split; [exact Eo|]. subst o'.
  assert (Hp : NoDup (f o)) by (apply (NoDup_flat_map_part _ _ f (seq 0 (length vs)) o H); apply in_seq; lia).
  unfold f in Hp. rewrite Uo in Hp.
  apply (proj1 (NoDup_nth (tri_sides (nth o T tri0)) (0%nat, 0%nat, (0, 0))) Hp).
  - destruct (nth o T tri0) as [[a b] c]. simpl. exact Hs.
  - destruct (nth o T tri0) as [[a b] c]. simpl. exact Hs'.
  - rewrite !tri_sides_nth by assumption. exact E.
Qed.

(* the partner of a side is determined modulo translation, and so is the offset *)
Lemma partner_key : forall t t1 t2 c1 c2 s s1 s2,
  side_shared t t1 c1 s s1 -> side_shared t t2 c2 s s2 -> side_key t1 s1 = side_key t2 s2.
Proof.
  intros t t1 t2 c1 c2 s s1 s2 [A1 A2] [B1 B2]. unfold side_key, mk_skey.
  destruct (tri_side t s) as [p q]. destruct (tri_side t1 s1) as [q1 p1]. destruct (tri_side t2 s2) as [q2 p2].
  simpl in *. destruct A1 as (I1 & X1 & Y1). destruct A2 as (I2 & X2 & Y2).
  destruct B1 as (J1 & U1 & V1). destruct B2 as (J2 & U2 & V2).
  f_equal; [f_equal; congruence|]. f_equal; lia.
Qed.

Lemma partner_offset : forall t t' c1 c2 s s', side_shared t t' c1 s s' -> side_shared t t' c2 s s' -> c1 = c2.
Proof.
  intros t t' [c1x c1y] [c2x c2y] s s' [A1 _] [B1 _].
  destruct A1 as (_ & X1 & Y1). destruct B1 as (_ & U1 & V1). simpl in *. f_equal; lia.
Qed.

Lemma used_sides_total : forall C vt es crs, length crs = length es ->
  (forall i, (i < length es)%nat -> exists x,
     find_match (nth_tri C (nth (fst (nth i es (0, 0)%nat)) vt 0%nat))
                (nth_tri C (nth (snd (nth i es (0, 0)%nat)) vt 0%nat)) (nth i crs (0, 0)) = Some x) ->
  exists us, used_sides C vt es crs = Some us.
Proof.
  intros C vt. induction es as [|[u w] es IH]; intros crs Hl H; [exists []; reflexivity|].
  destruct crs as [|c crs]; [discriminate|]. simpl in Hl.
  destruct (H 0%nat) as (x & Hx); [simpl; lia|]. simpl in Hx.
  destruct (IH crs) as (r & Hr); [lia| |].
  - intros i Hi. apply (H (S i)). simpl. lia.
  - cbn [used_sides]. rewrite Hx, Hr. destruct x as [s s']. eexists. reflexivity.
Qed.

(* ------------------------------------------------------------------ no (triangle, side) slot is used twice *)
Lemma pt_opp_inj : forall c c', pt_opp c = pt_opp c' -> c = c'.
Proof. intros [a b] [a' b'] H. unfold pt_opp in H. simpl in H. injection H as H1 H2. f_equal; lia. Qed.

Lemma even_or_odd : forall a : nat, exists e, a = (2 * e)%nat \/ a = (2 * e + 1)%nat.
Proof.
  intro a. destruct (Nat.Even_or_Odd a) as [[e He]|[e He]]; exists e; [left|right]; exact He.
Qed.

Lemma used_sides_NoDup : forall (Tn : nat -> tri) (nv : nat) C vt ed cr us,
  used_sides C vt ed cr = Some us ->
  (forall n, (n < nv)%nat -> nth n vt 0%nat = n /\ nth_tri C n = Tn n) ->
  (forall i, (i < length ed)%nat -> (fst (nth i ed (0, 0)%nat) < nv)%nat /\ (snd (nth i ed (0, 0)%nat) < nv)%nat /\
                                     fst (nth i ed (0, 0)%nat) <> snd (nth i ed (0, 0)%nat)) ->
  (forall n n' s s', (n < nv)%nat -> (n' < nv)%nat -> (s < 3)%nat -> (s' < 3)%nat ->
     side_key (Tn n) s = side_key (Tn n') s' -> n = n' /\ s = s') ->
  (forall i i', (i < length ed)%nat -> (i' < length ed)%nat -> i <> i' ->
     let E := fun k => (nth k ed (0, 0)%nat, nth k cr (0, 0)) : edge in
     E i <> E i' /\ E i <> rev_edge (E i')) ->
  NoDup us.
Proof.
  intros Tn nv C vt ed cr us Hus Hvt Hed Hslot Hdist.
  destruct (used_sides_spec C vt ed cr us Hus) as [Hlen Hall].
  (* both half-edges of edge e *)
  assert (Half : forall e, (e < length ed)%nat ->
    exists s s', (s < 3)%nat /\ (s' < 3)%nat /\
      nth (2 * e) us (0, 0)%nat = (fst (nth e ed (0, 0)%nat), s) /\
      nth (2 * e + 1) us (0, 0)%nat = (snd (nth e ed (0, 0)%nat), s') /\
      side_shared (Tn (fst (nth e ed (0, 0)%nat))) (Tn (snd (nth e ed (0, 0)%nat))) (nth e cr (0, 0)) s s' /\
      side_shared (Tn (snd (nth e ed (0, 0)%nat))) (Tn (fst (nth e ed (0, 0)%nat))) (pt_opp (nth e cr (0, 0))) s' s).
  { intros e He. destruct (Hall e He) as (s & s' & Hs & Hs' & N1 & N2 & Hsh). cbv zeta in *.
    destruct (Hed e He) as (B1 & B2 & _). destruct (Hvt _ B1) as [V1 C1]. destruct (Hvt _ B2) as [V2 C2].
    rewrite V1 in N1, Hsh. rewrite V2 in N2, Hsh. rewrite C1, C2 in Hsh.
    exists s, s'. repeat (split; [assumption|]). apply side_shared_sym. exact Hsh. }
  (* two half-edges leaving the same vertex through the same side are the same oriented periodic edge *)
  assert (Same : forall x y y' c c' s s1 s1', (y < nv)%nat -> (y' < nv)%nat -> (s1 < 3)%nat -> (s1' < 3)%nat ->
            side_shared (Tn x) (Tn y) c s s1 -> side_shared (Tn x) (Tn y') c' s s1' -> y = y' /\ c = c').
  { intros x y y' c c' s s1 s1' Hy Hy' H1 H1' A B.
    destruct (Hslot y y' s1 s1' Hy Hy' H1 H1' (partner_key _ _ _ _ _ _ _ _ A B)) as [-> ->].
    split; [reflexivity|]. exact (partner_offset _ _ _ _ _ _ A B). }
  apply (proj2 (NoDup_nth us (0, 0)%nat)). intros a b Ha Hb Eab. rewrite Hlen in Ha, Hb.
  destruct (even_or_odd a) as (e & [-> | ->]); destruct (even_or_odd b) as (e' & [-> | ->]).
  - assert (He : (e < length ed)%nat) by lia. assert (He' : (e' < length ed)%nat) by lia.
    destruct (Half e He) as (s & s1 & Hs & Hs1 & N1 & _ & A & _).
    destruct (Half e' He') as (s' & s1' & Hs' & Hs1' & N1' & _ & A' & _).
    rewrite N1, N1' in Eab. injection Eab as Eu Es. subst s'. rewrite <- Eu in A'.
    destruct (Hed e He) as (_ & B2 & _). destruct (Hed e' He') as (_ & B2' & _).
    destruct (Same _ _ _ _ _ _ _ _ B2 B2' Hs1 Hs1' A A') as [Ew Ec].
    destruct (Nat.eq_dec e e') as [->|Hne]; [reflexivity|]. exfalso.
    destruct (Hdist e e' He He' Hne) as [D _]. cbv zeta in D. apply D.
    rewrite (surjective_pairing (nth e ed (0, 0)%nat)), (surjective_pairing (nth e' ed (0, 0)%nat)), Eu, Ew, Ec.
    reflexivity.
  - assert (He : (e < length ed)%nat) by lia. assert (He' : (e' < length ed)%nat) by lia.
    destruct (Half e He) as (s & s1 & Hs & Hs1 & N1 & _ & A & _).
    destruct (Half e' He') as (s2 & s' & Hs2 & Hs' & _ & N2' & _ & A').
    rewrite N1, N2' in Eab. injection Eab as Eu Es. subst s'. rewrite <- Eu in A'.
    destruct (Hed e He) as (_ & B2 & Hl). destruct (Hed e' He') as (B1' & _ & _).
    destruct (Same _ _ _ _ _ _ _ _ B2 B1' Hs1 Hs2 A A') as [Ew Ec].
    exfalso. destruct (Nat.eq_dec e e') as [<-|Hne]; [apply Hl; congruence|].
    destruct (Hdist e e' He He' Hne) as [_ D]. cbv zeta in D. apply D.
    unfold rev_edge. simpl.
    rewrite (surjective_pairing (nth e ed (0, 0)%nat)), Eu, Ew, Ec.
    destruct (nth e' cr (0, 0)) as [cx cy]. unfold pt_opp. simpl. reflexivity.
  - assert (He : (e < length ed)%nat) by lia. assert (He' : (e' < length ed)%nat) by lia.
    destruct (Half e' He') as (s & s1 & Hs & Hs1 & N1 & _ & A & _).
    destruct (Half e He) as (s2 & s' & Hs2 & Hs' & _ & N2' & _ & A').
    rewrite N1, N2' in Eab. injection Eab as Eu Es. subst s'. rewrite Eu in A'.
    destruct (Hed e' He') as (_ & B2 & Hl). destruct (Hed e He) as (B1' & _ & _).
    destruct (Same _ _ _ _ _ _ _ _ B2 B1' Hs1 Hs2 A A') as [Ew Ec].
    exfalso. destruct (Nat.eq_dec e' e) as [<-|Hne]; [apply Hl; congruence|].
    destruct (Hdist e' e He' He Hne) as [_ D]. cbv zeta in D. apply D.
    unfold rev_edge. simpl.
    rewrite (surjective_pairing (nth e' ed (0, 0)%nat)), <- Eu, Ew, Ec.
    destruct (nth e cr (0, 0)) as [cx cy]. unfold pt_opp. simpl. reflexivity.
  - assert (He : (e < length ed)%nat) by lia. assert (He' : (e' < length ed)%nat) by lia.
    destruct (Half e He) as (s1 & s & Hs1 & Hs & _ & N2 & _ & A).
    destruct (Half e' He') as (s1' & s' & Hs1' & Hs' & _ & N2' & _ & A').
    rewrite N2, N2' in Eab. injection Eab as Ew Es. subst s'. rewrite <- Ew in A'.
    destruct (Hed e He) as (B1 & _ & _). destruct (Hed e' He') as (B1' & _ & _).
    destruct (Same _ _ _ _ _ _ _ _ B1 B1' Hs1 Hs1' A A') as [Eu Ec]. apply pt_opp_inj in Ec.
    destruct (Nat.eq_dec e e') as [->|Hne]; [reflexivity|]. exfalso.
    destruct (Hdist e e' He He' Hne) as [D _]. cbv zeta in D. apply D.
    rewrite (surjective_pairing (nth e ed (0, 0)%nat)), (surjective_pairing (nth e' ed (0, 0)%nat)), Eu, Ew, Ec.
    reflexivity.
Qed.

(* ------------------------------------------------------------------ the certificate read off the record *)
Lemma nth_tri_cert : forall T B order n, (n < length order)%nat ->
  nth_tri (cert_of T B order) n = nth (nth n order 0%nat) T tri0.
Proof.
  intros T B order n Hn. unfold nth_tri, cert_of.
  rewrite (nth_indep _ _ ((fun o : nat => (nth o T tri0, nth o B box0)) 0%nat)) by (rewrite map_length; exact Hn).
  rewrite (map_nth (fun o : nat => (nth o T tri0, nth o B box0))). reflexivity.
Qed.

Lemma combine_seq_In : forall (A : Type) (l : list A) (d : A) k p n, In (p, n) (combine l (seq k (length l))) ->
  (k <= n < k + length l)%nat /\ p = nth (n - k) l d.
Proof.
  intros A l d. induction l as [|x l IH]; intros k p n H; [inversion H|]. simpl in H. destruct H as [H|H].
  - injection H as -> ->. split; [simpl; lia|]. rewrite Nat.sub_diag. reflexivity.
  - destruct (IH (S k) p n H) as [R E]. split; [simpl; lia|].
    replace (n - k)%nat with (S (n - S k)) by lia. exact E.
Qed.

Lemma NoDup_nodup_by : forall (A : Type) (eqb : A -> A -> bool), (forall x y, eqb x y = true -> x = y) ->
  forall l, NoDup l -> nodup_by eqb l = true.
Proof.
  intros A eqb Heq. induction 1 as [|x l Hn HN IH]; simpl; [reflexivity|]. rewrite IH, andb_true_r.
  apply negb_true_iff. apply not_true_is_false. intro H. apply existsb_exists in H.
  destruct H as (y & Hy & E). apply Heq in E. subst. contradiction.
Qed.

Lemma d4_vertices : forall S tolS shift pts vs T, d4_ok S tolS shift pts vs T = true ->
  forall o, (o < length vs)%nat -> in_unit S (nth o vs (0, 0)) = true ->
    d4_vertex S tolS shift pts (nth o vs (0, 0)) (nth o T tri0) = true.
Proof.
  intros S tolS shift pts vs T H o Ho Uo. unfold d4_ok in H. rewrite forallb_forall in H.
  specialize (H o). rewrite Uo in H. simpl in H. apply H. apply in_seq. lia.
Qed.

(* the assembly of check_dual from the graph-level facts (shared by the exact and the index-level periodicity) *)
Lemma post_dual_generic : forall S' vs rv order ps ed cr tolS shift pts T B,
  let es := pbc_edges S' vs rv in
  let L := mkLattice S' ps ed cr in
  reindex vs order es = Ok (ps, ed, cr) ->
  wf_lattice L = true -> NoDup order -> length order = nV L ->
  (forall n, (n < nV L)%nat ->
     (nth n order 0 < length vs)%nat /\ pos_at L n = nth (nth n order 0%nat) vs (0, 0) /\
     in_unit S' (pos_at L n) = true /\
     count_ends L n = length (ridges_at (Z.of_nat (nth n order 0%nat)) rv)) ->
  (forall i i', (i < nE L)%nat -> (i' < nE L)%nat -> i <> i' ->
     ledge L i <> ledge L i' /\ ledge L i <> rev_edge (ledge L i')) ->
  (2 * nE L = 3 * nV L)%nat ->
  (forall e, In e es -> ~ is_loop e) ->
  (forall e, In e es -> exists s s', (s < 3)%nat /\ (s' < 3)%nat /\
     side_shared (nth (fst (fst e)) T tri0) (nth (snd (fst e)) T tri0) (snd e) s s') ->
  d3_ok S' vs T = true -> d4_ok S' tolS shift pts vs T = true ->
  check_dual S' tolS shift pts (cert_of T B order) L (seq 0 (length order)) = true.
Proof.
  intros S' vs rv order ps ed cr tolS shift pts T B es L Hre Hwf HNo Hlen Hv Hdist H2E Hnl Hsh Hd3 Hd4.
  destruct (reindex_spec _ _ _ _ _ _ Hre) as (_ & Hmem & _ & Lps & Led & Ecr & Hidx).
  set (C := cert_of T B order). set (vt := seq 0 (length order)).
  assert (LC : length C = length order) by (unfold C, cert_of; apply map_length).
  assert (Lvt : length vt = length order) by apply seq_length.
  assert (NV : nV L = length order) by (symmetry; exact Hlen).
  assert (NE : nE L = length es) by exact Led.
  assert (Gvt : forall n, (n < length order)%nat -> nth n vt 0%nat = n)
    by (intros n Hn; unfold vt; rewrite seq_nth by exact Hn; reflexivity).
  assert (GC : forall n, (n < length order)%nat -> nth_tri C n = nth (nth n order 0%nat) T tri0)
    by (apply nth_tri_cert).
  assert (Gcr : forall i, (i < length es)%nat -> nth i cr (0, 0) = snd (nth i es edge0)).
  { intros i Hi. rewrite Ecr. rewrite (nth_indep _ (0, 0) (snd edge0)) by (rewrite map_length; exact Hi).
    apply map_nth. }
  (* every edge joins two triangles sharing a side with offset = crossing *)
  assert (Hedge : forall i, (i < length es)%nat ->
            (fst (nth i ed (0, 0)%nat) < length order)%nat /\ (snd (nth i ed (0, 0)%nat) < length order)%nat /\
            fst (nth i ed (0, 0)%nat) <> snd (nth i ed (0, 0)%nat) /\
            exists s s', (s < 3)%nat /\ (s' < 3)%nat /\
              side_shared (nth_tri C (fst (nth i ed (0, 0)%nat))) (nth_tri C (snd (nth i ed (0, 0)%nat)))
                          (nth i cr (0, 0)) s s').
  { intros i Hi. destruct (Hidx i Hi) as (B1 & B2 & O1 & O2 & _). cbv zeta in B1, B2, O1, O2. rewrite Lps in B1, B2.
    assert (He : In (nth i es edge0) es) by (apply nth_In; exact Hi).
    split; [exact B1|]. split; [exact B2|]. split.
    { intro E. apply (Hnl _ He). unfold is_loop. rewrite <- O1, <- O2, E. reflexivity. }
    destruct (Hsh _ He) as (s & s' & Hs & Hs' & Hss).
    exists s, s'. split; [exact Hs|]. split; [exact Hs'|].
    rewrite (GC _ B1), (GC _ B2), O1, O2, (Gcr i Hi). exact Hss. }
  assert (Lcr : length cr = length ed) by (rewrite Ecr, map_length, Led; reflexivity).
  destruct (used_sides_total C vt ed cr Lcr) as (us & Hus).
  { intros i Hi. rewrite Led in Hi. destruct (Hedge i Hi) as (B1 & B2 & _ & s & s' & Hs & Hs' & Hss).
    rewrite (Gvt _ B1), (Gvt _ B2). exact (side_shared_find _ _ _ s s' Hs Hs' Hss). }
  assert (HNus : NoDup us).
  { apply (used_sides_NoDup (fun n => nth (nth n order 0%nat) T tri0) (length order) C vt ed cr us Hus).
    - intros n Hn. split; [apply Gvt; exact Hn|apply GC; exact Hn].
    - intros i Hi. rewrite Led in Hi. destruct (Hedge i Hi) as (B1 & B2 & Hl & _). auto.
    - intros n n' s s' Hn Hn' Hs Hs' E. rewrite <- NV in Hn, Hn'.
      destruct (Hv n Hn) as (Lo & Ep & Uo & _). destruct (Hv n' Hn') as (Lo' & Ep' & Uo' & _).
      rewrite Ep in Uo. rewrite Ep' in Uo'.
      destruct (d3_slots S' vs T Hd3 _ _ s s' Lo Lo' Uo Uo' Hs Hs' E) as [Eo Es]. split; [|exact Es].
      rewrite NV in Hn, Hn'. apply (proj1 (NoDup_nth order 0%nat) HNo n n' Hn Hn' Eo).
    - intros i i' Hi Hi' Hne. cbv zeta. rewrite Led, <- NE in Hi, Hi'. exact (Hdist i i' Hi Hi' Hne). }
  (* assemble check_dual *)
  assert (F1 : forallb (fun i : nat => (i <? length order)%nat) vt = true).
  { apply forallb_forall. intros i Hi. apply in_seq in Hi. apply Nat.ltb_lt. lia. }
  assert (F2 : nodupb vt = true) by (apply NoDup_nodupb; apply seq_NoDup).
  assert (F3 : forallb (fun tb : tri * box => let '(a, b, c) := tri_pts S' pts (fst tb) in
                          (0 <? orient2d a b c) && in_cell S' (ref_point shift a b c)) C = true).
  { apply forallb_forall. intros tb Htb. unfold C, cert_of in Htb. apply in_map_iff in Htb.
    destruct Htb as (o & <- & Ho). destruct (In_nth order o 0%nat Ho) as (n & Hn & En).
    rewrite <- NV in Hn. destruct (Hv n Hn) as (Lo & Ep & Uo & _). rewrite Ep, En in Uo. rewrite En in Lo.
    pose proof (d4_vertices S' tolS shift pts vs T Hd4 o Lo Uo) as H4. unfold d4_vertex in H4. simpl fst.
    destruct (tri_pts S' pts (nth o T tri0)) as [[a b] c]. rewrite !andb_true_iff in H4. apply andb_true_iff. tauto. }
  assert (F4 : forallb (fun vi : vec * nat => let '(a, b, c) := tri_pts S' pts (nth_tri C (snd vi)) in
                          pos_close tolS (fst vi) (ref_point shift a b c)) (combine (pos L) vt) = true).
  { apply forallb_forall. intros [p n] Hpn. unfold vt in Hpn.
    assert (Lp : length (pos L) = length order) by exact NV. rewrite <- Lp in Hpn.
    destruct (combine_seq_In _ (pos L) vzero 0%nat p n Hpn) as [Rn Ep']. rewrite Nat.sub_0_r in Ep'.
    assert (Hn : (n < nV L)%nat) by (unfold nV; lia).
    destruct (Hv n Hn) as (Lo & Ep & Uo & _). rewrite Ep in Uo. rewrite NV in Hn.
    simpl fst. simpl snd. rewrite (GC n Hn).
    pose proof (d4_vertices S' tolS shift pts vs T Hd4 _ Lo Uo) as H4. unfold d4_vertex in H4.
    destruct (tri_pts S' pts (nth (nth n order 0%nat) T tri0)) as [[a b] c]. rewrite !andb_true_iff in H4.
    destruct H4 as [_ H4]. unfold pos_at in Ep. rewrite Ep', Ep. exact H4. }
  unfold check_dual. fold C vt. change (edges L) with ed. change (crossing L) with cr. rewrite Hus, Hwf.
  rewrite andb_true_l. repeat (apply andb_true_iff; split).
  - apply Z.eqb_refl.
  - apply Nat.eqb_eq. rewrite Lvt, NV. reflexivity.
  - apply Nat.eqb_eq. rewrite LC, NV. reflexivity.
  - rewrite LC. exact F1.
  - exact F2.
  - exact F3.
  - exact F4.
  - apply Nat.eqb_eq. rewrite LC, <- NV. exact H2E.
  - exact (NoDup_nodup_by _ natpair_eqb (fun x y => proj1 (natpair_eqb_eq x y)) us HNus).
Qed.

Theorem post_correct_dual : forall order_of shift S points v S' vs ps ed cr tolS pts T B,
  shifted_vertices shift S points v = Ok (S', vs) ->
  pvor S' vs (ridge_vertices v) -> trivalent_ok S' vs (ridge_vertices v) = true ->
  dual_ok S' tolS shift pts vs (ridge_vertices v) T = true ->
  post_process order_of shift S points v = Ok (S', (ps, ed, cr)) ->
  let L := mkLattice S' ps ed cr in
  let order := order_of (edge_ends (pbc_edges S' vs (ridge_vertices v))) in
  check_dual S' tolS shift pts (cert_of T B order) L (seq 0 (length order)) = true.
Proof.
  intros order_of shift S points v S' vs ps ed cr tolS pts T B Hsh HP Htri Hdual Hpost L order.
  destruct (post_correct_graph _ _ _ _ _ _ _ _ _ _ Hsh HP Hpost) as (Hwf & HNo & Hlen & _ & Hv & _ & _ & _ & Hdist).
  destruct (post_correct_trivalent _ _ _ _ _ _ _ _ _ _ Hsh HP Htri Hpost) as (_ & H2E).
  cbv zeta in Hwf, HNo, Hlen, Hv, Hdist, H2E. fold L in Hwf, Hlen, Hv, Hdist, H2E. fold order in HNo, Hlen, Hv.
  destruct (post_process_inv _ _ _ _ _ _ _ _ _ Hpost) as (vs0 & Hsh0 & _ & Hre).
  rewrite Hsh in Hsh0. injection Hsh0 as <-. cbv zeta in Hre. fold order in Hre.
  set (rv := ridge_vertices v) in *. set (es := pbc_edges S' vs rv) in *.
  unfold dual_ok in Hdual. rewrite !andb_true_iff in Hdual.
  destruct Hdual as ((((HlT & Hd1) & Hd2) & Hd3) & Hd4). apply Nat.eqb_eq in HlT.
  pose proof (pv_S _ _ _ HP) as HS.
  apply (post_dual_generic S' vs rv order ps ed cr tolS shift pts T B Hre Hwf HNo Hlen Hv Hdist H2E).
  - intros e He. exact (pbc_edges_noloop S' vs rv e HP He).
  - intros e He. exact (pbc_edges_shared_side S' vs rv T e HP Hd1 Hd2 He).
  - exact Hd3.
  - exact Hd4.
Qed.

(* with a validated Delaunay certificate: "2N vertices and 3N edges" *)
Corollary post_correct_counts : forall order_of shift S points v S' vs ps ed cr tolS pts T B w,
  shifted_vertices shift S points v = Ok (S', vs) ->
  pvor S' vs (ridge_vertices v) -> trivalent_ok S' vs (ridge_vertices v) = true ->
  dual_ok S' tolS shift pts vs (ridge_vertices v) T = true ->
  post_process order_of shift S points v = Ok (S', (ps, ed, cr)) ->
  let L := mkLattice S' ps ed cr in
  let order := order_of (edge_ends (pbc_edges S' vs (ridge_vertices v))) in
  check_delaunay S' w pts (cert_of T B order) = true ->
  nV L = (2 * length pts)%nat /\ nE L = (3 * length pts)%nat.
Proof.
  intros order_of shift S points v S' vs ps ed cr tolS pts T B w Hsh HP Htri Hdual Hpost L order Hdel.
  pose proof (post_correct_dual order_of shift S points v S' vs ps ed cr tolS pts T B Hsh HP Htri Hdual Hpost) as Hd.
  cbv zeta in Hd. fold L order in Hd.
  destruct (dual_counts _ _ _ _ _ _ _ _ Hdel Hd) as (H1 & H2 & _). split; assumption.
Qed.
