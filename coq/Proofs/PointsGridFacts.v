(* Proofs/PointsGridFacts.v — facts about Model/PointsGrid.v (C19): neighbour window (Bridson invariant),
   cells bookkeeping as coded, packing bound, counts and termination measure of the bluenoise loop. *)
From Coq Require Import List ZArith Bool Arith Lia ZifyBool QArith Field.
From Koala Require Import Model.Points Model.PointsGrid Proofs.PointsFacts.
Import ListNotations.
Open Scope Z_scope.

(* ------------------------------------------------------------------ floor division *)
Lemma div_close : forall u v D m, 0 < D -> 0 <= m -> Z.abs (u - v) <= m * D -> Z.abs (u / D - v / D) <= m.
Proof.
  intros u v D m HD Hm H.
  assert (A : forall x y, x <= y -> y - x <= m * D -> y / D - x / D <= m /\ 0 <= y / D - x / D).
  { intros x y Hxy Hd. split.
    - assert (y / D <= (x + m * D) / D) by (apply Z.div_le_mono; lia).
      rewrite Z.div_add in H0 by lia. lia.
    - assert (x / D <= y / D) by (apply Z.div_le_mono; lia). lia. }
  destruct (Z_le_gt_dec v u).
  - destruct (A v u) as [A1 A2]; lia.
  - destruct (A u v) as [A1 A2]; lia.
Qed.

Lemma div_same : forall u v D, 0 < D -> u / D = v / D -> Z.abs (u - v) < D.
Proof.
  intros u v D HD H.
  pose proof (Z.div_mod u D ltac:(lia)). pose proof (Z.div_mod v D ltac:(lia)).
  pose proof (Z.mod_pos_bound u D HD). pose proof (Z.mod_pos_bound v D HD).
  rewrite H in H0. lia.
Qed.

Lemma abs_le_of_sq : forall x s, 0 <= s -> x * x <= s * s -> Z.abs x <= s.
Proof. intros x s Hs H. nia. Qed.

(* ------------------------------------------------------------------ the neighbour window contains every point within r *)
(* cell size (b/a) r, half-width m with r <= m * cell size, i.e. a <= m * b: every sample at distance <= r from p
   has its cell within +-m of p's cell on both axes — for ALL grid sizes (nx, ny do not occur), all points.
     code's cell size (a = b = 1):        m = 1  (3 x 3 block)
     Bridson's r/sqrt 2 <= cell < r ... : m = 2  (5 x 5 block), e.g. a = 3, b = 2 *)
Theorem window_complete : forall a b sc m p s,
  0 < sc -> 0 < a -> 0 < b -> a <= m * b ->
  d2 p s <= sc * sc -> in_window a b sc m p s = true.
Proof.
  intros a b sc m [px py] [sx sy] Hsc Ha Hb Hm Hd. unfold in_window, cellq, d2 in *. cbn [fst snd] in *.
  pose proof (Z.square_nonneg (px - sx)) as Sx.
  pose proof (Z.square_nonneg (py - sy)) as Sy.
  assert (Hx : Z.abs (px - sx) <= sc) by (apply abs_le_of_sq; lia).
  assert (Hy : Z.abs (py - sy) <= sc) by (apply abs_le_of_sq; lia).
  assert (0 <= m) by nia.
  assert (HD : 0 < b * sc) by nia.
  assert (Z.abs (a * px - a * sx) <= m * (b * sc)).
  { replace (a * px - a * sx) with (a * (px - sx)) by ring. rewrite Z.abs_mul. rewrite (Z.abs_eq a) by lia. nia. }
  assert (Z.abs (a * py - a * sy) <= m * (b * sc)).
  { replace (a * py - a * sy) with (a * (py - sy)) by ring. rewrite Z.abs_mul. rewrite (Z.abs_eq a) by lia. nia. }
  pose proof (div_close (a * px) (a * sx) (b * sc) m HD H H0).
  pose proof (div_close (a * py) (a * sy) (b * sc) m HD H H1).
  lia.
Qed.

(* hence the windowed acceptance test IS the full acceptance test *)
Theorem far_from_window_eq : forall a b sc m samples p,
  0 < sc -> 0 < a -> 0 < b -> a <= m * b ->
  far_from_window a b sc m samples p = far_from_all sc samples p.
Proof.
  intros a b sc m l p Hsc Ha Hb Hm. unfold far_from_window, far_from_all.
  induction l as [|s r IH]; simpl; [reflexivity|]. rewrite IH. f_equal.
  destruct (sc * sc <? d2 p s) eqn:E; [now rewrite orb_true_r|].
  rewrite orb_false_r. rewrite (window_complete a b sc m p s); auto. lia.
Qed.

(* Bridson's other half: cell size <= r / sqrt 2 (2 b^2 <= a^2): two points in the same cell are closer than r *)
Theorem same_cell_close : forall a b sc p s,
  0 < sc -> 0 < a -> 0 < b -> 2 * b * b <= a * a ->
  cellq a b sc p = cellq a b sc s -> d2 p s < sc * sc.
Proof.
  intros a b sc [px py] [sx sy] Hsc Ha Hb Hab H. unfold cellq, d2 in *. cbn [fst snd] in *.
  inversion H as [[Hx Hy]].
  assert (HD : 0 < b * sc) by nia.
  apply div_same in Hx; [|assumption]. apply div_same in Hy; [|assumption].
  replace (a * px - a * sx) with (a * (px - sx)) in Hx by ring.
  replace (a * py - a * sy) with (a * (py - sy)) in Hy by ring.
  set (dx := px - sx) in *. set (dy := py - sy) in *.
  assert (Ex : (a * dx) * (a * dx) < (b * sc) * (b * sc)) by nia.
  assert (Ey : (a * dy) * (a * dy) < (b * sc) * (b * sc)) by nia.
  assert (a * a * (dx * dx + dy * dy) < a * a * (sc * sc)) by nia.
  nia.
Qed.

(* ------------------------------------------------------------------ the loop over the windowed test is the loop of the code *)
Lemma inner_gen_eq : forall chk sc nx ny ss,
  (forall p, chk ss p = far_from_all sc ss p) ->
  forall left i cands, inner_gen chk sc nx ny ss i left cands = inner sc nx ny ss i left cands.
Proof.
  intros chk sc nx ny ss H left. induction left as [|left IH]; intros i cands; simpl; [reflexivity|].
  destruct cands as [|x1 rest]; [reflexivity|].
  rewrite H. destruct (out_of_domain sc nx ny x1); [apply IH|].
  destruct (far_from_all sc ss x1); [reflexivity|]. destruct left; [reflexivity|apply IH].
Qed.

Lemma run_trace_gen_eq : forall chk sc nx ny k,
  (forall ss p, chk ss p = far_from_all sc ss p) ->
  forall its st, run_trace_gen chk sc nx ny k st its = run_trace sc nx ny k st its.
Proof.
  intros chk sc nx ny k H its. induction its as [|[idx cands] rest IH]; intros st; simpl; [reflexivity|].
  destruct (mem_nat idx (active st)); [|reflexivity].
  rewrite inner_gen_eq by (intro; apply H).
  destruct (inner sc nx ny (samples st) 0 k cands); rewrite IH; reflexivity.
Qed.

(* end to end: bluenoise with the (2m+1) x (2m+1) neighbour window over cells of size (b/a) r, r <= m * cell size,
   goes through exactly the same states and outcomes as the code's scan of all samples — every stream, every grid *)
Theorem run_trace_window_eq : forall a b m sc nx ny k st its,
  0 < sc -> 0 < a -> 0 < b -> a <= m * b ->
  run_trace_window a b m sc nx ny k st its = run_trace sc nx ny k st its.
Proof.
  intros. unfold run_trace_window. apply run_trace_gen_eq. intros. now apply far_from_window_eq.
Qed.

Theorem bluenoise_window_spacing : forall a b m sc nx ny k x0 its st os,
  0 < sc -> 0 < a -> 0 < b -> a <= m * b ->
  run_trace_window a b m sc nx ny k (init x0) its = Some (st, os) ->
  forall i j p q, i <> j -> nth_error (samples st) i = Some p -> nth_error (samples st) j = Some q -> sc * sc < d2 p q.
Proof.
  intros a b m sc nx ny k x0 its st os Hsc Ha Hb Hm H.
  rewrite run_trace_window_eq in H by assumption.
  apply (bluenoise_spacing sc nx ny k x0 its st). unfold run. now rewrite H.
Qed.

(* ------------------------------------------------------------------ packing: at most one sample per cell of side 2r/3 *)
Lemma pairwise_far_cons : forall sc x l, pairwise_far sc (x :: l) ->
  (forall s, In s l -> sc * sc < d2 x s) /\ pairwise_far sc l.
Proof.
  intros sc x l H. split.
  - intros s Hin. apply In_nth_error in Hin. destruct Hin as [n Hn].
    apply (H 0%nat (S n) x s); auto.
  - intros i j a b Hij Ha Hb. apply (H (S i) (S j) a b); auto.
Qed.

Lemma pairwise_far_cells_NoDup : forall a b sc l,
  0 < sc -> 0 < a -> 0 < b -> 2 * b * b <= a * a ->
  pairwise_far sc l -> NoDup (map (cellq a b sc) l).
Proof.
  intros a b sc l Hsc Ha Hb Hab. induction l as [|x l IH]; intros H; simpl; [constructor|].
  apply pairwise_far_cons in H. destruct H as [Hx Hl]. constructor; [|auto].
  intro Hin. apply in_map_iff in Hin. destruct Hin as (s & Hs & Hin).
  specialize (Hx s Hin). symmetry in Hs.
  pose proof (same_cell_close a b sc x s Hsc Ha Hb Hab Hs). lia.
Qed.

Lemma zrange_In : forall lo n x, In x (zrange lo n) <-> lo <= x < lo + n.
Proof.
  intros lo n x. unfold zrange. rewrite in_map_iff. split.
  - intros (i & Hi & Hin). apply in_seq in Hin. lia.
  - intros H. exists (Z.to_nat (x - lo)). split; [lia|]. apply in_seq. lia.
Qed.

Lemma zrange_length : forall lo n, length (zrange lo n) = Z.to_nat n.
Proof. intros. unfold zrange. now rewrite map_length, seq_length. Qed.

Lemma cell32_range : forall sc n X, 0 < sc -> 0 <= X <= sc * n -> 0 <= 3 * X / (2 * sc) < 3 * n / 2 + 1.
Proof.
  intros sc n X Hsc HX. split.
  - apply Z.div_pos; lia.
  - assert (3 * X / (2 * sc) <= (3 * n * sc) / (2 * sc)) by (apply Z.div_le_mono; nia).
    rewrite Z.div_mul_cancel_r in H by lia. lia.
Qed.

Theorem packing_bound : forall sc nx ny l,
  0 < sc -> 0 <= nx -> 0 <= ny ->
  Forall (in_domain sc nx ny) l -> pairwise_far sc l ->
  Z.of_nat (length l) <= max_samples nx ny.
Proof.
  intros sc nx ny l Hsc Hnx Hny Hdom Hfar.
  assert (Hnd := pairwise_far_cells_NoDup 3 2 sc l Hsc ltac:(lia) ltac:(lia) ltac:(lia) Hfar).
  set (A := 3 * nx / 2 + 1). set (B := 3 * ny / 2 + 1).
  assert (HA : 0 < A) by (unfold A; pose proof (Z.div_pos (3 * nx) 2); lia).
  assert (HB : 0 < B) by (unfold B; pose proof (Z.div_pos (3 * ny) 2); lia).
  assert (Hincl : incl (map (cellq 3 2 sc) l) (list_prod (zrange 0 A) (zrange 0 B))).
  { intros c Hc. apply in_map_iff in Hc. destruct Hc as (p & Hp & Hin).
    rewrite Forall_forall in Hdom. destruct (Hdom p Hin) as [Hx Hy]. subst c. unfold cellq.
    apply in_prod; apply zrange_In; cbn [fst snd].
    - pose proof (cell32_range sc nx (fst p) Hsc Hx). unfold A. lia.
    - pose proof (cell32_range sc ny (snd p) Hsc Hy). unfold B. lia. }
  pose proof (NoDup_incl_length Hnd Hincl) as Hlen.
  rewrite map_length, prod_length, !zrange_length in Hlen.
  unfold max_samples. fold A B. nia.
Qed.

(* ★ number of points bluenoise can return, every stream:  1 <= #samples <= (3nx/2 + 1)(3ny/2 + 1) *)
Theorem bluenoise_count_bounded : forall sc nx ny k x0 its st,
  0 < sc -> 0 <= nx -> 0 <= ny -> in_domain sc nx ny x0 ->
  run sc nx ny k (init x0) its = Some st ->
  1 <= Z.of_nat (length (samples st)) <= max_samples nx ny.
Proof.
  intros sc nx ny k x0 its st Hsc Hnx Hny Hx0 H. split.
  - pose proof (bluenoise_nonempty _ _ _ _ _ _ _ H). destruct (samples st); [congruence|simpl; lia].
  - apply (packing_bound sc); auto.
    + eapply bluenoise_samples_in_domain; eauto.
    + intros i j a b. eapply bluenoise_spacing; eauto.
Qed.

(* ------------------------------------------------------------------ counts and the termination measure *)
Lemma remove_first_length : forall i l, mem_nat i l = true -> S (length (remove_first i l)) = length l.
Proof.
  intros i l. induction l as [|a r IH]; simpl; [discriminate|].
  rewrite Nat.eqb_sym. destruct (Nat.eqb a i) eqn:E; simpl; [reflexivity|].
  intros H. now rewrite IH.
Qed.

Lemma step_counts : forall sc nx ny k st it st' o,
  step sc nx ny k st it = Some (st', o) ->
  length (samples st') = (length (samples st) + (if is_accept o then 1 else 0))%nat /\
  (length (active st') + (if is_remove o then 1 else 0) = length (active st) + (if is_accept o then 1 else 0))%nat.
Proof.
  intros sc nx ny k st [idx cands] st' o H. unfold step in H.
  destruct (mem_nat idx (active st)) eqn:Em; [|discriminate].
  destruct (inner sc nx ny (samples st) 0 k cands); inversion H; subst; simpl.
  - rewrite !app_length. simpl. lia.
  - pose proof (remove_first_length idx (active st) Em). lia.
  - lia.
Qed.

Lemma count_out_cons : forall f o os, count_out f (o :: os) = ((if f o then 1 else 0) + count_out f os)%nat.
Proof. intros. unfold count_out. simpl. destruct (f o); reflexivity. Qed.

Lemma run_trace_counts : forall sc nx ny k its st st' os,
  run_trace sc nx ny k st its = Some (st', os) ->
  length os = length its /\
  length (samples st') = (length (samples st) + count_out is_accept os)%nat /\
  (length (active st') + count_out is_remove os = length (active st) + count_out is_accept os)%nat.
Proof.
  intros sc nx ny k its. induction its as [|it rest IH]; intros st st' os H; simpl in H.
  - inversion H; subst. unfold count_out. simpl. lia.
  - destruct (step sc nx ny k st it) as [[st1 o]|] eqn:Es; [|discriminate].
    destruct (run_trace sc nx ny k st1 rest) as [[st2 os2]|] eqn:Er; [|discriminate].
    inversion H; subst. apply step_counts in Es. apply IH in Er.
    rewrite !count_out_cons. simpl. lia.
Qed.

Lemma count_out_total : forall os,
  length os = (count_out is_accept os + count_out is_remove os + count_out is_nochange os)%nat.
Proof.
  induction os as [|o os IH]; [reflexivity|]. rewrite !count_out_cons. simpl. destruct o; simpl; lia.
Qed.

(* ★ how many points are returned: one more than the number of accepted candidates; the active list has lost
   exactly one entry per Remove outcome; the loop has ended iff every sample has been removed once *)
Theorem bluenoise_counts : forall sc nx ny k x0 its st os,
  run_trace sc nx ny k (init x0) its = Some (st, os) ->
  length (samples st) = S (count_out is_accept os) /\
  (length (active st) + count_out is_remove os = length (samples st))%nat /\
  (finished st = true <-> count_out is_remove os = length (samples st)).
Proof.
  intros sc nx ny k x0 its st os H. apply run_trace_counts in H. simpl in H.
  destruct H as (_ & Hs & Ha). repeat split; try lia.
  - unfold finished. destruct (active st); simpl in *; [lia|discriminate].
  - unfold finished. destruct (active st); simpl in *; [reflexivity|lia].
Qed.

(* ★ termination measure: over ANY stream the iterations that change the state (Accept or Remove) number at most
   2 * max_samples - 1: each Accept adds a sample (bounded by packing), each Remove takes one of them off the active
   list for good.  So the while loop ends within that many iterations unless it makes NoChange iterations. *)
Theorem bluenoise_effective_iterations_bounded : forall sc nx ny k x0 its st os,
  0 < sc -> 0 <= nx -> 0 <= ny -> in_domain sc nx ny x0 ->
  run_trace sc nx ny k (init x0) its = Some (st, os) ->
  Z.of_nat (count_out is_accept os + count_out is_remove os) <= 2 * max_samples nx ny - 1.
Proof.
  intros sc nx ny k x0 its st os Hsc Hnx Hny Hx0 H.
  assert (Hr : run sc nx ny k (init x0) its = Some st) by (unfold run; now rewrite H).
  pose proof (bluenoise_count_bounded sc nx ny k x0 its st Hsc Hnx Hny Hx0 Hr) as [_ Hb].
  apply bluenoise_counts in H. lia.
Qed.

Corollary bluenoise_terminates_without_nochange : forall sc nx ny k x0 its st os,
  0 < sc -> 0 <= nx -> 0 <= ny -> in_domain sc nx ny x0 ->
  run_trace sc nx ny k (init x0) its = Some (st, os) ->
  count_out is_nochange os = 0%nat ->
  Z.of_nat (length its) <= 2 * max_samples nx ny - 1.
Proof.
  intros sc nx ny k x0 its st os Hsc Hnx Hny Hx0 H Hn.
  pose proof (bluenoise_effective_iterations_bounded sc nx ny k x0 its st os Hsc Hnx Hny Hx0 H).
  apply run_trace_counts in H. destruct H as (Hl & _). rewrite <- Hl, (count_out_total os). lia.
Qed.

(* the only way to a NoChange iteration: k = 0, a stream that ends early, or the quirk of pointsets.py:36-37 —
   the k-th (last) candidate falls outside the domain and `continue` skips `elif i == k - 1` *)
Lemma inner_nochange : forall sc nx ny ss left i cands,
  inner sc nx ny ss i left cands = NoChange ->
  left = O \/ (length cands < left)%nat \/
  exists c, nth_error cands (left - 1) = Some c /\ out_of_domain sc nx ny c = true.
Proof.
  intros sc nx ny ss left. induction left as [|left IH]; intros i cands H; [now left|]. right.
  simpl in H. destruct cands as [|x1 rest]; [left; simpl; lia|].
  replace (S left - 1)%nat with left by lia.
  assert (Hshift : forall c, left <> O -> nth_error rest (left - 1) = Some c -> nth_error (x1 :: rest) left = Some c).
  { intros c Hl Hc. destruct left; [congruence|]. simpl in *. now rewrite Nat.sub_0_r in Hc. }
  destruct (out_of_domain sc nx ny x1) eqn:Eo.
  - destruct left as [|left'] eqn:El.
    + right. exists x1. simpl. auto.
    + rewrite <- El in *. apply IH in H. destruct H as [H|[H|(c & Hc & Ho)]]; [lia| |].
      * left. simpl. lia.
      * right. exists c. split; [apply Hshift; [lia|assumption]|assumption].
  - destruct (far_from_all sc ss x1); [discriminate|].
    destruct left as [|left'] eqn:El; [discriminate|].
    rewrite <- El in *. apply IH in H. destruct H as [H|[H|(c & Hc & Ho)]]; [lia| |].
    + left. simpl. lia.
    + right. exists c. split; [apply Hshift; [lia|assumption]|assumption].
Qed.

(* ------------------------------------------------------------------ the cells dictionary as coded *)
Lemma coord_eqb_eq : forall u v, coord_eqb u v = true <-> u = v.
Proof. intros [a b] [c d]. unfold coord_eqb. simpl. split; intro H; [f_equal; lia|inversion H; lia]. Qed.

Lemma dict_get_set : forall d key v key',
  dict_get (dict_set d key v) key' = if coord_eqb key key' then Some (Some v) else dict_get d key'.
Proof.
  intros d key v key'. induction d as [|[k0 v0] r IH]; simpl.
  - reflexivity.
  - destruct (coord_eqb k0 key) eqn:E; simpl.
    + apply coord_eqb_eq in E. subst k0. destruct (coord_eqb key key'); reflexivity.
    + rewrite IH. destruct (coord_eqb k0 key') eqn:E'; [|reflexivity].
      apply coord_eqb_eq in E'. subst k0. destruct (coord_eqb key key') eqn:E2; [|reflexivity].
      apply coord_eqb_eq in E2. subst key'. assert (coord_eqb key key = true) by now apply coord_eqb_eq. congruence.
Qed.

(* index (numbered from i) of the LAST point of l whose cell is key *)
Fixpoint last_in_cell (sc : Z) (key : Z * Z) (i : nat) (l : list pt) : option nat :=
  match l with
  | [] => None
  | p :: r => match last_in_cell sc key (S i) r with
              | Some j => Some j
              | None => if coord_eqb (point_to_coord sc p) key then Some i else None
              end
  end.

Lemma cells_record_get : forall sc l d i key,
  dict_get (cells_record sc d i l) key =
  match last_in_cell sc key i l with Some j => Some (Some j) | None => dict_get d key end.
Proof.
  intros sc l. induction l as [|p r IH]; intros d i key; simpl; [reflexivity|].
  rewrite IH. destruct (last_in_cell sc key (S i) r); [reflexivity|]. rewrite dict_get_set.
  destruct (coord_eqb (point_to_coord sc p) key); reflexivity.
Qed.

(* what the dictionary holds at the end: for each key the LAST sample that fell into that cell — earlier samples of
   the same cell are forgotten; untouched keys keep their initial value *)
Theorem cells_after_get : forall sc nx ny samples key,
  dict_get (cells_after sc nx ny samples) key =
  match last_in_cell sc key 0 samples with
  | Some j => Some (Some j)
  | None => dict_get (cells_init nx ny) key
  end.
Proof. intros. unfold cells_after. apply cells_record_get. Qed.

Lemma last_in_cell_spec : forall sc key l i j,
  last_in_cell sc key i l = Some j ->
  (i <= j)%nat /\ (exists p, nth_error l (j - i) = Some p /\ point_to_coord sc p = key) /\
  (forall j' q, (j < j')%nat -> nth_error l (j' - i) = Some q -> point_to_coord sc q <> key).
Proof.
  intros sc key l. induction l as [|p r IH]; intros i j H; simpl in H; [discriminate|].
  destruct (last_in_cell sc key (S i) r) as [j0|] eqn:E.
  - inversion H; subst j0. apply IH in E. destruct E as (Hle & (q & Hq & Hk) & Hlast). split; [lia|]. split.
    + exists q. split; [|assumption]. replace (j - i)%nat with (S (j - S i)) by lia. exact Hq.
    + intros j' q' Hj Hn. apply (Hlast j' q'); [lia|].
      replace (j' - i)%nat with (S (j' - S i)) in Hn by lia. exact Hn.
  - destruct (coord_eqb (point_to_coord sc p) key) eqn:Ec; [|discriminate]. inversion H; subst j.
    apply coord_eqb_eq in Ec. split; [lia|]. split.
    + exists p. rewrite Nat.sub_diag. auto.
    + intros j' q Hj Hn Hk. replace (j' - i)%nat with (S (j' - S i)) in Hn by lia. simpl in Hn.
      assert (G : forall l i0 n q0, last_in_cell sc key i0 l = None -> nth_error l n = Some q0 -> point_to_coord sc q0 <> key).
      { clear. intros l. induction l as [|p r IH]; intros i0 n q0 H Hn; [destruct n; discriminate|].
        simpl in H. destruct (last_in_cell sc key (S i0) r) eqn:E; [discriminate|].
        destruct (coord_eqb (point_to_coord sc p) key) eqn:Ec; [discriminate|].
        destruct n; simpl in Hn.
        - inversion Hn; subst. intro Hk. apply coord_eqb_eq in Hk. congruence.
        - eapply IH; eauto. }
      exact (G r (S i) _ q E Hn Hk).
Qed.

(* ★ refuted: "the dictionary supports the neighbour-window test of the TODO".  With the code's cell size (1 = r, not
   r / sqrt 2) two samples farther apart than r can share a cell; the dictionary keeps only the later one, and a
   candidate right next to the forgotten sample passes the test through the dictionary (even with the 5 x 5 block)
   although the code's full scan rejects it.  Witness on the 2 x 2 grid, scale 100: samples (0.05, 0.05) and
   (0.95, 0.95) (distance 1.27), candidate (0.06, 0). *)
Theorem cells_window_test_sound_refuted :
  exists sc nx ny k x0 its st p,
    run sc nx ny k (init x0) its = Some st /\ out_of_domain sc nx ny p = false /\
    far_from_cells sc 2 (cells_after sc nx ny (samples st)) (samples st) p = true /\
    far_from_all sc (samples st) p = false /\
    (exists i j a b, i <> j /\ nth_error (samples st) i = Some a /\ nth_error (samples st) j = Some b /\
                     point_to_coord sc a = point_to_coord sc b).
Proof.
  exists 100, 2, 2, 1%nat, (5, 5), [(0%nat, [(95, 95)])], (mkState [(5, 5); (95, 95)] [0%nat; 1%nat]), (6, 0).
  repeat split; try (vm_compute; reflexivity).
  exists 0%nat, 1%nat, (5, 5), (95, 95). repeat split; try (vm_compute; reflexivity). discriminate.
Qed.

(* ------------------------------------------------------------------ hyperuniform's jittered grid *)
Lemma flat_map_length_const : forall (A B : Type) (f : A -> list B) c l,
  (forall x, In x l -> length (f x) = c) -> length (flat_map f l) = (length l * c)%nat.
Proof.
  intros A B f c l. induction l as [|a r IH]; intros H; simpl; [reflexivity|].
  rewrite app_length, H, IH; [reflexivity| |now left]. intros; apply H; now right.
Qed.

(* nx * ny points before the crop, whatever the draws *)
Theorem hu_final_length : forall sc nx ny offs kicks, length (hu_final sc nx ny offs kicks) = (ny * nx)%nat.
Proof.
  intros. unfold hu_final. rewrite (flat_map_length_const _ _ _ nx).
  - now rewrite seq_length.
  - intros. unfold hu_row. now rewrite map_length, seq_length.
Qed.

Lemma hu_den_pos : forall sc n, 0 < sc -> (1 <= n)%nat -> 0 < hu_den sc n.
Proof. intros sc n Hsc Hn. unfold hu_den, hu_dn. nia. Qed.

(* every returned point is strictly inside the unit square, whatever offsets and kicks are *)
Theorem hyperuniform_full_in_open_unit : forall sc nx ny offs kicks q,
  0 < sc -> (1 <= nx)%nat -> (1 <= ny)%nat ->
  In q (map (hu_to_unit sc nx ny) (hyperuniform_full sc nx ny offs kicks)) ->
  (0 < fst q < 1 /\ 0 < snd q < 1)%Q.
Proof.
  intros sc nx ny offs kicks q Hsc Hnx Hny Hq. apply in_map_iff in Hq. destruct Hq as (p & Hp & Hin).
  unfold hyperuniform_full in Hin. apply filter_In in Hin. destruct Hin as [_ Hb]. unfold hu_inside in Hb.
  subst q. unfold hu_to_unit. cbn [fst snd].
  split; apply Qmake_open_unit_interval; try (apply hu_den_pos; assumption); lia.
Qed.

Lemma filter_length_le' : forall (A : Type) (f : A -> bool) l, (length (filter f l) <= length l)%nat.
Proof. intros A f l. induction l as [|a r IH]; simpl; [lia|]. destruct (f a); simpl; lia. Qed.

Lemma hyperuniform_full_count_le : forall sc nx ny offs kicks,
  (length (hyperuniform_full sc nx ny offs kicks) <= ny * nx)%nat.
Proof.
  intros. unfold hyperuniform_full. rewrite <- (hu_final_length sc nx ny offs kicks). apply filter_length_le'.
Qed.

(* one axis, no kick, offset strictly inside its cell: the coordinate is inside (0, 1) iff the grid line is not the
   last one (the last origin is 1 = linspace's end point, and the offset only adds to it) *)
Lemma hu_axis_zero_kick : forall sc n i o,
  0 < sc -> (2 <= n)%nat -> (i < n)%nat -> 0 < o < sc ->
  ((0 <? hu_num sc n i o 0) && (hu_num sc n i o 0 <? hu_den sc n)) = (i <? n - 1)%nat.
Proof.
  intros sc n i o Hsc Hn Hi Ho. unfold hu_num, hu_den, hu_dn.
  replace (Nat.max 1 (n - 1)) with (n - 1)%nat by lia.
  rewrite Nat2Z.inj_sub by lia. set (N := Z.of_nat n). set (I := Z.of_nat i).
  assert (HN : 2 <= N) by lia. assert (HI : 0 <= I < N) by lia.
  destruct (Nat.ltb_spec i (n - 1)) as [L|L].
  - assert (I <= N - 2) by lia. apply andb_true_iff. split; apply Z.ltb_lt; nia.
  - assert (I = N - 1) by lia. apply andb_false_iff. right. apply Z.ltb_ge. nia.
Qed.

Lemma filter_seq_count : forall (B : Type) (P : B -> bool) (g : nat -> B) m n,
  (forall i, (i < n)%nat -> P (g i) = (i <? m)%nat) ->
  length (filter P (map g (seq 0 n))) = Nat.min m n.
Proof.
  intros B P g m n. induction n as [|n IH]; intros H; [simpl; lia|].
  rewrite seq_S, map_app, filter_app, app_length, IH by (intros; apply H; lia).
  simpl. rewrite H by lia. destruct (Nat.ltb_spec n m); simpl; lia.
Qed.

Lemma filter_flat_map_count : forall (B : Type) (P : B -> bool) (f : nat -> list B) c m n,
  (forall i, (i < n)%nat -> length (filter P (f i)) = if (i <? m)%nat then c else 0%nat) ->
  length (filter P (flat_map f (seq 0 n))) = (Nat.min m n * c)%nat.
Proof.
  intros B P f c m n. induction n as [|n IH]; intros H; [simpl; lia|].
  rewrite seq_S, flat_map_app, filter_app, app_length, IH by (intros; apply H; lia).
  simpl. rewrite app_nil_r, H by lia. destruct (Nat.ltb_spec n m).
  - replace (Nat.min m (S n)) with (S (Nat.min m n)) by lia. lia.
  - replace (Nat.min m (S n)) with (Nat.min m n) by lia. lia.
Qed.

(* ★ count: with no kicks (kickstrength = 0) and every offset strictly inside (0, 1), hyperuniform(nx, ny) returns
   EXACTLY (nx-1) * (ny-1) points, not nx * ny: the whole last row and last column of the jittered grid start on the
   border x = 1 / y = 1 (linspace includes the end point, spacing 1/(n-1), while the jitter is scaled by 1/n) and are
   cropped.  All nx, ny >= 2. *)
Theorem hyperuniform_zero_kick_count : forall sc nx ny offs kicks,
  0 < sc -> (2 <= nx)%nat -> (2 <= ny)%nat ->
  (forall j, kicks j = (0, 0)) ->
  (forall j, 0 < fst (offs j) < sc /\ 0 < snd (offs j) < sc) ->
  length (hyperuniform_full sc nx ny offs kicks) = ((ny - 1) * (nx - 1))%nat.
Proof.
  intros sc nx ny offs kicks Hsc Hnx Hny Hk Ho. unfold hyperuniform_full, hu_final.
  rewrite (filter_flat_map_count _ _ _ (nx - 1)%nat (ny - 1)%nat); [f_equal; lia|].
  intros iy Hiy. unfold hu_row.
  rewrite (filter_seq_count _ _ _ (if (iy <? ny - 1)%nat then (nx - 1)%nat else 0%nat)).
  - destruct (iy <? ny - 1)%nat; lia.
  - intros ix Hix. unfold hu_inside, hu_point. cbn [fst snd]. rewrite !Hk. cbn [fst snd].
    destruct (Ho (iy * nx + ix)%nat) as [Hox Hoy].
    pose proof (hu_axis_zero_kick sc nx ix _ Hsc Hnx Hix Hox) as Ax.
    pose proof (hu_axis_zero_kick sc ny iy _ Hsc Hny Hiy Hoy) as Ay.
    destruct (iy <? ny - 1)%nat; destruct (ix <? nx - 1)%nat;
      destruct (0 <? hu_num sc nx ix (fst (offs (iy * nx + ix)%nat)) 0);
      destruct (0 <? hu_num sc ny iy (snd (offs (iy * nx + ix)%nat)) 0);
      destruct (hu_num sc nx ix (fst (offs (iy * nx + ix)%nat)) 0 <? hu_den sc nx);
      destruct (hu_num sc ny iy (snd (offs (iy * nx + ix)%nat)) 0 <? hu_den sc ny);
      simpl in *; try reflexivity; try discriminate; destruct ix; reflexivity || discriminate.
Qed.

(* ------------------------------------------------------------------ cells: statement without the auxiliary function *)
Lemma dict_get_all_none : forall (d : cells) key v,
  Forall (fun kv => snd kv = None) d -> dict_get d key = Some v -> v = None.
Proof.
  intros d key v H. induction H as [|[k0 v0] r Hh Ht IH]; simpl; [discriminate|].
  destruct (coord_eqb k0 key); [|assumption]. intros E. inversion E; subst. exact Hh.
Qed.

Lemma cells_init_none : forall nx ny, Forall (fun kv : (Z * Z) * option nat => snd kv = None) (cells_init nx ny).
Proof.
  intros. unfold cells_init. apply Forall_forall. intros kv Hin. apply in_flat_map in Hin.
  destruct Hin as (x & _ & Hin). apply in_map_iff in Hin. destruct Hin as (y & Hy & _). now subst kv.
Qed.

Lemma last_in_cell_some : forall sc key l i n p,
  nth_error l n = Some p -> point_to_coord sc p = key ->
  exists j, last_in_cell sc key i l = Some j /\ (i + n <= j)%nat.
Proof.
  intros sc key l. induction l as [|a r IH]; intros i n p Hn Hk; [destruct n; discriminate|].
  simpl. destruct n as [|n]; simpl in Hn.
  - inversion Hn; subst a. destruct (last_in_cell sc key (S i) r) as [j|] eqn:E.
    + exists j. split; [reflexivity|]. apply last_in_cell_spec in E. lia.
    + assert (coord_eqb (point_to_coord sc p) key = true) by now apply coord_eqb_eq.
      rewrite H. exists i. split; [reflexivity|lia].
  - destruct (IH (S i) n p Hn Hk) as (j & Hj & Hle). rewrite Hj. exists j. split; [reflexivity|lia].
Qed.

(* ★ what the write-only dictionary of the code contains when bluenoise returns: an integer entry j under a key means
   sample j lies in that cell and is the LAST sample in it; every sample's cell has an integer entry (of that sample
   or a later one of the same cell) *)
Theorem cells_after_spec : forall sc nx ny samples,
  (forall key j, dict_get (cells_after sc nx ny samples) key = Some (Some j) ->
     exists p, nth_error samples j = Some p /\ point_to_coord sc p = key /\
       forall j' q, (j < j')%nat -> nth_error samples j' = Some q -> point_to_coord sc q <> key) /\
  (forall i p, nth_error samples i = Some p ->
     exists j, dict_get (cells_after sc nx ny samples) (point_to_coord sc p) = Some (Some j) /\ (i <= j)%nat).
Proof.
  intros sc nx ny samples. split.
  - intros key j H. rewrite cells_after_get in H.
    destruct (last_in_cell sc key 0 samples) as [j0|] eqn:E.
    + inversion H; subst j0. apply last_in_cell_spec in E. destruct E as (_ & (p & Hp & Hk) & Hlast).
      rewrite Nat.sub_0_r in Hp. exists p. repeat split; auto.
      intros j' q Hj Hq. apply (Hlast j' q Hj). now rewrite Nat.sub_0_r.
    + apply dict_get_all_none in H; [discriminate|apply cells_init_none].
  - intros i p Hp. destruct (last_in_cell_some sc _ samples 0%nat i p Hp eq_refl) as (j & Hj & Hle).
    exists j. rewrite cells_after_get, Hj. split; [reflexivity|lia].
Qed.

(* ------------------------------------------------------------------ what hu_num / hu_den stand for *)
(* meaning of hu_num / hu_den: the exact coordinate  i/(n-1) + (o/sc) * (1/n) + k/sc  of the code's expression *)
Theorem hu_exact_value : forall sc n i o k, 0 < sc -> (2 <= n)%nat ->
  (Qmake (hu_num sc n i o k) (Z.to_pos (hu_den sc n)) ==
   inject_Z (Z.of_nat i) / inject_Z (Z.of_nat n - 1)
   + (inject_Z o / inject_Z sc) * (1 / inject_Z (Z.of_nat n)) + inject_Z k / inject_Z sc)%Q.
Proof.
  intros sc n i o k Hsc Hn.
  assert (Hd : 0 < hu_den sc n) by (unfold hu_den, hu_dn; nia).
  rewrite (Qmake_Qdiv (hu_num sc n i o k) (Z.to_pos (hu_den sc n))).
  rewrite Z2Pos.id by assumption.
  unfold hu_num, hu_den, hu_dn. replace (Nat.max 1 (n - 1)) with (n - 1)%nat by lia.
  rewrite Nat2Z.inj_sub by lia. simpl (Z.of_nat 1).
  set (N := Z.of_nat n). set (I := Z.of_nat i). assert (HN : 2 <= N) by lia.
  rewrite !inject_Z_plus, !inject_Z_mult.
  assert (E : (inject_Z (N - 1) == inject_Z N - 1)%Q) by (unfold Z.sub; rewrite inject_Z_plus; reflexivity).
  rewrite !E.
  assert (~ (inject_Z sc == 0)%Q) by (unfold Qeq; simpl; lia).
  assert (~ (inject_Z N == 0)%Q) by (unfold Qeq; simpl; lia).
  assert (~ (inject_Z N - 1 == 0)%Q) by (rewrite <- E; unfold Qeq; simpl; lia).
  field. auto.
Qed.
