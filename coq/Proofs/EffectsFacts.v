(* C15 — soundness of the effect analysis of Model/Effects.v for the concrete store semantics:
   if the analysis accepts a function (no_arg_write_mask = true) then in EVERY execution of
   its IR every location owned by / reachable from the tainted arguments at entry holds the
   same contents at exit. *)
From Coq Require Import List Arith Bool Lia.
Import ListNotations.
From Koala Require Import Model.Effects.

(* ------------------------------------------------------------------ abstract environments *)
Lemma aget_nil : forall x, aget [] x = abot.
Proof. intros [|x]; reflexivity. Qed.

Lemma aget_aset_eq : forall a x v, aget (aset a x v) x = v.
Proof.
  intros a x; revert a; induction x as [|x IH]; intros [|h t] v; simpl; auto;
    unfold aget in *; simpl; apply IH.
Qed.

Lemma aget_aset_neq : forall a x y v, x <> y -> aget (aset a x v) y = aget a y.
Proof.
  intros a x; revert a; induction x as [|x IH]; intros [|h t] y v Hxy; destruct y as [|y]; simpl;
    try congruence; try reflexivity; unfold aget in *; simpl.
  - destruct y; reflexivity.
  - rewrite IH by congruence. destruct y; reflexivity.
  - apply IH; congruence.
Qed.

Lemma aget_ajoin : forall a b x, aget (ajoin a b) x = vjoin (aget a x) (aget b x).
Proof.
  induction a as [|v a IH]; intros [|w b] x; simpl.
  - rewrite aget_nil. reflexivity.
  - rewrite aget_nil. unfold vjoin; simpl. destruct (aget (w :: b) x); reflexivity.
  - rewrite aget_nil. unfold vjoin; simpl. destruct (aget (v :: a) x) as [o r]; simpl.
    rewrite !orb_false_r. reflexivity.
  - destruct x as [|x]; unfold aget; simpl; [reflexivity|]. apply IH.
Qed.

Lemma ale_spec : forall a b, ale a b = true -> forall x, vle (aget a x) (aget b x) = true.
Proof.
  induction a as [|v a IH]; intros b H x.
  - rewrite aget_nil. reflexivity.
  - destruct b as [|w b]; simpl in H; apply andb_prop in H; destruct H as [H1 H2].
    + destruct x as [|x]; unfold aget; simpl.
      * exact H1.
      * specialize (IH [] H2 x). rewrite aget_nil in IH. unfold aget in IH.
        destruct x; exact IH.
    + destruct x as [|x]; unfold aget; simpl; [exact H1|]. apply (IH b H2 x).
Qed.

(* ------------------------------------------------------------------ the simulation relation *)
Definition hits (A ls : list loc) : Prop := exists l, In l ls /\ In l A.

Definition covers (A : list loc) (av : aval) (v : cval) : Prop :=
  (hits A (own v) -> fst av = true) /\ (hits A (reach v) -> snd av = true).

Definition sim (A : list loc) (a : aenv) (e : cenv) : Prop := forall x, covers A (aget a x) (e x).

Definition bounded (A : list loc) (n : loc) : Prop := forall l, In l A -> l < n.

Lemma hits_nil : forall A, ~ hits A [].
Proof. intros A [l [H _]]. inversion H. Qed.

Lemma hits_incl : forall A l1 l2, incl l1 l2 -> hits A l1 -> hits A l2.
Proof. intros A l1 l2 Hi [l [H1 H2]]. exists l; auto. Qed.

Lemma hits_app : forall A l1 l2, hits A (l1 ++ l2) -> hits A l1 \/ hits A l2.
Proof.
  intros A l1 l2 [l [H1 H2]]. apply in_app_or in H1. destruct H1; [left|right]; exists l; auto.
Qed.

Lemma covers_empty : forall A av, covers A av empty_val.
Proof. intros A av; split; intro H; exfalso; eapply hits_nil; exact H. Qed.

Lemma covers_le : forall A av bv v, covers A av v -> vle av bv = true -> covers A bv v.
Proof.
  intros A [o r] [o' r'] v [H1 H2] Hle. unfold vle in Hle; simpl in *.
  apply andb_prop in Hle; destruct Hle as [L1 L2].
  split; intro H.
  - specialize (H1 H). simpl in H1. subst o. simpl in L1. exact L1.
  - specialize (H2 H). simpl in H2. subst r. simpl in L2. exact L2.
Qed.

Lemma covers_sub : forall A av v w, covers A av w -> sub_val v w -> covers A av v.
Proof.
  intros A av v w [H1 H2] [S1 S2]. split; intro H.
  - apply H1. eapply hits_incl; eauto.
  - apply H2. eapply hits_incl; eauto.
Qed.

Lemma sim_le : forall A a b e, sim A a e -> ale a b = true -> sim A b e.
Proof.
  intros A a b e Hs Hle x. eapply covers_le; [apply Hs|]. apply ale_spec; exact Hle.
Qed.

Lemma vle_vjoin_l : forall v w, vle v (vjoin v w) = true.
Proof. intros [o r] [o' r']; unfold vle, vjoin; simpl. destruct o, r, o', r'; reflexivity. Qed.

Lemma vle_vjoin_r : forall v w, vle w (vjoin v w) = true.
Proof. intros [o r] [o' r']; unfold vle, vjoin; simpl. destruct o, r, o', r'; reflexivity. Qed.

Lemma sim_join_l : forall A a b e, sim A a e -> sim A (ajoin a b) e.
Proof.
  intros A a b e Hs x. rewrite aget_ajoin. eapply covers_le; [apply Hs|apply vle_vjoin_l].
Qed.

Lemma sim_join_r : forall A a b e, sim A b e -> sim A (ajoin a b) e.
Proof.
  intros A a b e Hs x. rewrite aget_ajoin. eapply covers_le; [apply Hs|apply vle_vjoin_r].
Qed.

Lemma sim_upd : forall A a e x av v, sim A a e -> covers A av v -> sim A (aset a x av) (upd e x v).
Proof.
  intros A a e x av v Hs Hc y. unfold upd.
  destruct (Nat.eqb y x) eqn:E.
  - apply Nat.eqb_eq in E. subst y. rewrite aget_aset_eq. exact Hc.
  - apply Nat.eqb_neq in E. rewrite aget_aset_neq by congruence. apply Hs.
Qed.

(* ------------------------------------------------------------------ rhs evaluation *)
Lemma hits_owns : forall A a e xs, sim A a e -> hits A (owns e xs) ->
  existsb (fun x => fst (aget a x)) xs = true.
Proof.
  intros A a e xs Hs [l [Hin HA]]. unfold owns in Hin. apply in_flat_map in Hin.
  destruct Hin as [x [Hx Hl]]. apply existsb_exists. exists x; split; [exact Hx|].
  apply (Hs x). exists l; auto.
Qed.

Lemma hits_reaches : forall A a e xs, sim A a e -> hits A (reaches e xs) ->
  existsb (fun x => snd (aget a x)) xs = true.
Proof.
  intros A a e xs Hs [l [Hin HA]]. unfold reaches in Hin. apply in_flat_map in Hin.
  destruct Hin as [x [Hx Hl]]. apply existsb_exists. exists x; split; [exact Hx|].
  apply (Hs x). exists l; auto.
Qed.

Lemma hits_fresh : forall A n (b : bool), ~ In n A -> ~ hits A (if b then [n] else []).
Proof.
  intros A n b Hn [l [H1 H2]]. destruct b; simpl in H1; [|contradiction].
  destruct H1 as [H1|[]]. subst l. contradiction.
Qed.

Lemma aeval_sound : forall A a e n r v,
  sim A a e -> ~ In n A -> val_ok e n r v -> covers A (aeval a r) v.
Proof.
  intros A a e n r v Hs Hn [Ho Hr]. unfold aeval. split; intro H; simpl.
  - apply (hits_incl _ _ _ Ho) in H. apply hits_app in H. destruct H as [H|H].
    { exfalso. eapply hits_fresh; eauto. }
    apply hits_app in H. destruct H as [H|H].
    + rewrite (hits_owns _ _ _ _ Hs H). reflexivity.
    + rewrite (hits_reaches _ _ _ _ Hs H). apply orb_true_r.
  - apply (hits_incl _ _ _ Hr) in H. apply hits_app in H. destruct H as [H|H].
    { exfalso. eapply hits_fresh; eauto. }
    apply hits_app in H. destruct H as [H|H].
    + rewrite (hits_reaches _ _ _ _ Hs H). reflexivity.
    + apply hits_app in H. destruct H as [H|H].
      * rewrite (hits_reaches _ _ _ _ Hs H). rewrite orb_true_r. reflexivity.
      * rewrite (hits_reaches _ _ _ _ Hs H). apply orb_true_r.
Qed.

(* ------------------------------------------------------------------ loops *)
Lemma loop_fix_inv : forall body n a ainv,
  loop_fix body n a = Some ainv ->
  (forall x, vle (aget a x) (aget ainv x) = true) /\
  exists a'', body ainv = Some a'' /\ ale a'' ainv = true.
Proof.
  intros body n; induction n as [|n IH]; intros a ainv H; simpl in H.
  - destruct (body a) as [a'|] eqn:Eb; [|discriminate].
    destruct (ale a' a) eqn:El; [|discriminate].
    inversion H; subst ainv. split.
    + intro x. destruct (aget a x) as [o r]; unfold vle; simpl. destruct o, r; reflexivity.
    + exists a'. auto.
  - destruct (body a) as [a'|] eqn:Eb; [|discriminate].
    destruct (ale a' a) eqn:El.
    + inversion H; subst ainv. split.
      * intro x. destruct (aget a x) as [o r]; unfold vle; simpl. destruct o, r; reflexivity.
      * exists a'. auto.
    + destruct (IH _ _ H) as [Hle Hex]. split; [|exact Hex].
      intro x. specialize (Hle x). rewrite aget_ajoin in Hle.
      destruct (aget a x) as [o r], (aget a' x) as [o' r'], (aget ainv x) as [o2 r2].
      unfold vle, vjoin in *; simpl in *. destruct o, r, o', r', o2, r2; simpl in *; auto.
Qed.

Lemma loop_fix_stable : forall body n a a'',
  body a = Some a'' -> ale a'' a = true -> loop_fix body n a = Some a.
Proof.
  intros body n a a'' Hb Hl. destruct n; simpl; rewrite Hb, Hl; reflexivity.
Qed.

Lemma sim_vle : forall A a b e, sim A a e -> (forall x, vle (aget a x) (aget b x) = true) -> sim A b e.
Proof. intros A a b e Hs H x. eapply covers_le; [apply Hs|apply H]. Qed.

(* ------------------------------------------------------------------ calls *)
Lemma nth_repeat_app : forall (x : var) (l : list aval),
  aget (repeat abot NRET ++ l) x = if Nat.ltb x NRET then abot else nth (x - NRET) l abot.
Proof.
  intros x l. unfold aget. destruct (Nat.ltb x NRET) eqn:E.
  - apply Nat.ltb_lt in E. rewrite app_nth1 by (rewrite repeat_length; exact E).
    apply nth_repeat.
  - apply Nat.ltb_ge in E. rewrite app_nth2 by (rewrite repeat_length; exact E).
    rewrite repeat_length. reflexivity.
Qed.

Lemma Forall2_nth_covers : forall A avs vals,
  Forall2 (covers A) avs vals -> forall j, covers A (nth j avs abot) (nth j vals empty_val).
Proof.
  intros A avs vals H; induction H; intros [|j]; simpl; auto using covers_empty.
Qed.

Lemma Forall2_firstn : forall (X Y : Type) (R : X -> Y -> Prop) n l1 l2,
  Forall2 R l1 l2 -> Forall2 R (firstn n l1) (firstn n l2).
Proof.
  intros X Y R n; induction n as [|n IH]; intros l1 l2 H; simpl; [constructor|].
  destruct H; constructor; auto.
Qed.

Lemma sim_call_env : forall A np avs vals,
  Forall2 (covers A) avs vals ->
  sim A (repeat abot NRET ++ firstn np avs) (call_env np vals).
Proof.
  intros A np avs vals H x. rewrite nth_repeat_app. unfold call_env.
  destruct (Nat.ltb x NRET); [apply covers_empty|].
  apply Forall2_nth_covers. apply Forall2_firstn. exact H.
Qed.

Lemma Forall2_map_sim : forall A a e (args : list var),
  sim A a e -> Forall2 (covers A) (map (aget a) args) (map e args).
Proof. intros A a e args Hs; induction args; simpl; constructor; auto. Qed.

Lemma sim_upd_list : forall A ac ec rets a e vs idxs,
  sim A ac ec -> sim A a e ->
  Forall2 (fun v i => sub_val v (ec i)) vs idxs -> length idxs = length rets ->
  sim A (aset_list a rets (map (aget ac) idxs)) (upd_list e rets vs).
Proof.
  intros A ac ec rets; induction rets as [|x rets IH]; intros a e vs idxs Hc Hs HF Hlen.
  - simpl. exact Hs.
  - destruct idxs as [|i idxs]; [discriminate|]. inversion HF; subst. simpl.
    apply IH; auto.
    apply sim_upd; auto. eapply covers_sub; [apply Hc|]. assumption.
Qed.

(* ------------------------------------------------------------------ run-time callables *)
Lemma covers_top : forall A v, covers A atop v.
Proof. intros A v; split; intro; reflexivity. Qed.

Lemma sim_upd_list_top : forall A rets a e vs,
  sim A a e -> sim A (aset_list a rets (repeat atop (length rets))) (upd_list e rets vs).
Proof.
  intros A rets; induction rets as [|x rets IH]; intros a e vs Hs; simpl; [exact Hs|].
  destruct vs as [|v vs]; simpl.
  - (* fewer values than result variables: the remaining variables keep their old value, which the
       (larger) abstract value still covers *)
    clear IH. revert a Hs. revert x. induction rets as [|y rets IH2]; intros x a Hs; simpl.
    + intro z. destruct (Nat.eq_dec x z) as [E|E].
      * subst z. rewrite aget_aset_eq. apply covers_top.
      * rewrite aget_aset_neq by exact E. apply Hs.
    + apply IH2. intro z. destruct (Nat.eq_dec x z) as [E|E].
      * subst z. rewrite aget_aset_eq. apply covers_top.
      * rewrite aget_aset_neq by exact E. apply Hs.
  - apply IH. apply sim_upd; [exact Hs|apply covers_top].
Qed.

Lemma aget_top_env : forall np x,
  aget (top_env np) x = if Nat.ltb x NRET then abot else if Nat.ltb (x - NRET) np then atop else abot.
Proof.
  intros np x. unfold top_env. rewrite nth_repeat_app. destruct (Nat.ltb x NRET); [reflexivity|].
  destruct (Nat.ltb (x - NRET) np) eqn:E.
  - apply Nat.ltb_lt in E. revert E. generalize (x - NRET). induction np as [|np IH]; intros j Hj; [lia|].
    destruct j; simpl; [reflexivity|]. apply IH. lia.
  - apply Nat.ltb_ge in E. apply nth_overflow. rewrite repeat_length. exact E.
Qed.

Lemma sim_top_env : forall A np vals, sim A (top_env np) (call_env np vals).
Proof.
  intros A np vals x. rewrite aget_top_env. unfold call_env.
  destruct (Nat.ltb x NRET); [apply covers_empty|].
  destruct (Nat.ltb (x - NRET) np) eqn:E; [apply covers_top|].
  apply Nat.ltb_ge in E. rewrite nth_overflow; [apply covers_empty|].
  rewrite firstn_length. lia.
Qed.

(* ------------------------------------------------------------------ main simulation lemma *)
Section Sound.
  Variable p : program.
  Variable dynok : fname -> bool.
  Variable A : list loc.
  (* guarantee side of the assume/guarantee argument for run-time callables: every function the
     analysis lets a CallDyn reach has been accepted with EVERY formal tainted (with some fuels) *)
  Hypothesis Hdyn : forall g, dynok g = true ->
    exists fd lf d ac, nth_error p g = Some fd /\
      aexec (afun p dynok lf d) dynok lf (f_body fd) (top_env (f_nparams fd)) = Some ac.

  Definition post (a' : aenv) (st st' : cstate) : Prop :=
    sim A a' (env st') /\ (forall l, In l A -> heap st' l = heap st l) /\ next st <= next st'.

  Lemma bounded_le : forall n m, bounded A n -> n <= m -> bounded A m.
  Proof. intros n m H Hle l Hl. specialize (H l Hl). lia. Qed.

  Lemma exec_sound : forall s st st', exec p s st st' ->
    forall lf d a a', aexec (afun p dynok lf d) dynok lf s a = Some a' ->
    sim A a (env st) -> bounded A (next st) -> post a' st st'.
  Proof.
    induction 1; intros lf d a a' Ha Hs Hb; simpl in Ha; unfold post in *.
    - (* Skip *) inversion Ha; subst. split; [exact Hs|split; [reflexivity|lia]].
    - (* Bind *) inversion Ha; subst. split; [|split]; simpl.
      + apply sim_upd; [exact Hs|].
        apply (aeval_sound A a (env st) (next st) r v Hs); [|exact H].
        intro Hin. specialize (Hb _ Hin). lia.
      + intros l Hl. apply H0. specialize (Hb _ Hl). lia.
      + lia.
    - (* Write *) destruct (fst (aget a x)) eqn:E; [discriminate|]. inversion Ha; subst.
      split; [|split]; simpl; auto.
      intros l Hl. apply H. intro Hin.
      destruct (Hs x) as [Ho _]. rewrite Ho in E; [discriminate|]. exists l; auto.
    - (* Call *)
      destruct (afun p dynok lf d f (map (aget a) args)) as [ac|] eqn:Ec; [|discriminate].
      inversion Ha; subst a'. clear Ha.
      destruct d as [|d']; simpl in Ec; [discriminate|].
      rewrite H in Ec.
      assert (Hs0 : sim A (repeat abot NRET ++ firstn (f_nparams fd) (map (aget a) args))
                        (call_env (f_nparams fd) (map (env st) args))).
      { apply sim_call_env. apply Forall2_map_sim. exact Hs. }
      destruct (IHexec _ d' _ _ Ec Hs0 Hb) as [Hsc [Hh Hn]]. simpl in *.
      split; [|split]; simpl.
      + eapply sim_upd_list; eauto. rewrite seq_length. reflexivity.
      + exact Hh.
      + exact Hn.
    - (* CallDyn, koala callee *)
      destruct (forallb dynok gs) eqn:Eg; [|discriminate]. inversion Ha; subst a'. clear Ha.
      rewrite forallb_forall in Eg. specialize (Eg _ H).
      destruct (Hdyn _ Eg) as [fd' [lf' [d' [ac [Hf' Hac]]]]]. rewrite H0 in Hf'. inversion Hf'; subst fd'.
      assert (Hs0 : sim A (top_env (f_nparams fd)) (call_env (f_nparams fd) argvals))
        by apply sim_top_env.
      destruct (IHexec lf' d' _ _ Hac Hs0 Hb) as [Hsc [Hh Hn]]. simpl in *.
      split; [|split]; simpl; auto. apply sim_upd_list_top. exact Hs.
    - (* CallDyn, foreign effect-free callee *)
      destruct (forallb dynok gs) eqn:Eg; [|discriminate]. inversion Ha; subst a'. clear Ha.
      split; [|split]; simpl.
      + apply sim_upd_list_top. exact Hs.
      + intros l Hl. apply H. specialize (Hb _ Hl). lia.
      + lia.
    - (* Seq *)
      destruct (aexec (afun p dynok lf d) dynok lf s1 a) as [a1|] eqn:E1; [|discriminate].
      destruct (aexec (afun p dynok lf d) dynok lf s2 a1) as [a2|] eqn:E2; [|discriminate].
      inversion Ha; subst a'. clear Ha.
      destruct (IHexec1 _ _ _ _ E1 Hs Hb) as [S1 [H1 N1]].
      destruct (IHexec2 _ _ _ _ E2 S1 (bounded_le _ _ Hb N1)) as [S2 [H2 N2]].
      split; [|split].
      + apply sim_join_r. exact S2.
      + intros l Hl. rewrite H2 by assumption. apply H1. assumption.
      + lia.
    - (* SeqStop *)
      destruct (aexec (afun p dynok lf d) dynok lf s1 a) as [a1|] eqn:E1; [|discriminate].
      destruct (aexec (afun p dynok lf d) dynok lf s2 a1) as [a2|] eqn:E2; [|discriminate].
      inversion Ha; subst a'. clear Ha.
      destruct (IHexec _ _ _ _ E1 Hs Hb) as [S1 [H1 N1]].
      split; [|split]; auto. apply sim_join_l. exact S1.
    - (* IfL *)
      destruct (aexec (afun p dynok lf d) dynok lf s1 a) as [a1|] eqn:E1; [|discriminate].
      destruct (aexec (afun p dynok lf d) dynok lf s2 a) as [a2|] eqn:E2; [|discriminate].
      inversion Ha; subst a'. clear Ha.
      destruct (IHexec _ _ _ _ E1 Hs Hb) as [S1 [H1 N1]].
      split; [|split]; auto. apply sim_join_l. exact S1.
    - (* IfR *)
      destruct (aexec (afun p dynok lf d) dynok lf s1 a) as [a1|] eqn:E1; [|discriminate].
      destruct (aexec (afun p dynok lf d) dynok lf s2 a) as [a2|] eqn:E2; [|discriminate].
      inversion Ha; subst a'. clear Ha.
      destruct (IHexec _ _ _ _ E2 Hs Hb) as [S1 [H1 N1]].
      split; [|split]; auto. apply sim_join_r. exact S1.
    - (* LoopEnd *)
      destruct (loop_fix_inv _ _ _ _ Ha) as [Hle _].
      split; [|split]; auto. eapply sim_vle; eauto.
    - (* LoopStep *)
      destruct (loop_fix_inv _ _ _ _ Ha) as [Hle [a'' [Hbody Hle2]]].
      assert (Hs' : sim A a' (env st)) by (eapply sim_vle; eauto).
      destruct (IHexec1 _ _ _ _ Hbody Hs' Hb) as [S1 [H1 N1]].
      assert (S1' : sim A a' (env st1)) by (eapply sim_le; eauto).
      assert (Hloop : aexec (afun p dynok lf d) dynok lf (Loop s) a' = Some a').
      { simpl. eapply loop_fix_stable; eauto. }
      destruct (IHexec2 _ _ _ _ Hloop S1' (bounded_le _ _ Hb N1)) as [S2 [H2 N2]].
      split; [|split]; auto.
      + intros l Hl. rewrite H2 by assumption. apply H1. assumption.
      + lia.
  Qed.
End Sound.

(* the guarantee side holds for the candidate set computed by [dyn_ok] (or dyn_ok is constantly false) *)
Lemma dyn_ok_spec : forall p g, dyn_ok p g = true ->
  exists fd lf d ac, nth_error p g = Some fd /\
    aexec (afun p (dyn_ok p) lf d) (dyn_ok p) lf (f_body fd) (top_env (f_nparams fd)) = Some ac.
Proof.
  intros p g. unfold dyn_ok.
  destruct (forallb (target_verified p (prog_targets p)) (prog_targets p)) eqn:V; [|discriminate].
  intro H. unfold mem_target in H at 1. apply existsb_exists in H. destruct H as [x [Hx Hg]].
  apply Nat.eqb_eq in Hg. subst x.
  rewrite forallb_forall in V. specialize (V _ Hx). unfold target_verified in V.
  destruct (nth_error p g) as [fd|]; [|discriminate].
  destruct (aexec (afun p (mem_target (prog_targets p)) LOOP_FUEL (S (length p))) (mem_target (prog_targets p))
                  LOOP_FUEL (f_body fd) (top_env (f_nparams fd))) as [ac|] eqn:E; [|discriminate].
  exists fd, LOOP_FUEL, (S (length p)), ac. split; [reflexivity|exact E].
Qed.

(* ------------------------------------------------------------------ top-level statements *)
(* locations owned by / reachable from the tainted actual arguments at entry *)
Definition args_locs (mask : list bool) (vals : list cval) : list loc :=
  flat_map (fun bv : bool * cval => if fst bv then own (snd bv) ++ reach (snd bv) else [])
           (combine mask vals).

(* untainted formals (output sinks) must not share locations with the tainted ones *)
Definition separated (A : list loc) (mask : list bool) (vals : list cval) : Prop :=
  Forall2 (fun (b : bool) v => b = false -> ~ hits A (own v) /\ ~ hits A (reach v)) mask vals.

Lemma covers_mask : forall A mask vals,
  separated A mask vals -> Forall2 (covers A) (mask_avals mask) vals.
Proof.
  intros A mask vals H; induction H as [|b v mask vals Hb HF IH]; simpl; constructor; auto.
  destruct b; split; simpl; intro Hh; auto.
  - exfalso. destruct (Hb eq_refl) as [N _]. auto.
  - exfalso. destruct (Hb eq_refl) as [_ N]. auto.
Qed.

Theorem analysis_sound_mask : forall p f mask fd argvals st0 st',
  no_arg_write_mask p f mask = true ->
  nth_error p f = Some fd ->
  (forall x, env st0 x = call_env (f_nparams fd) argvals x) ->
  separated (args_locs mask argvals) mask argvals ->
  (forall l, In l (args_locs mask argvals) -> l < next st0) ->
  exec p (f_body fd) st0 st' ->
  forall l, In l (args_locs mask argvals) -> heap st' l = heap st0 l.
Proof.
  intros p f mask fd argvals st0 st' Hna Hf Henv Hsep Hbd Hex.
  unfold no_arg_write_mask in Hna.
  destruct (afun p (dyn_ok p) LOOP_FUEL (S (length p)) f (mask_avals mask)) as [a'|] eqn:E; [|discriminate].
  simpl in E. rewrite Hf in E.
  set (A := args_locs mask argvals) in *.
  assert (Hs : sim A (repeat abot NRET ++ firstn (f_nparams fd) (mask_avals mask)) (env st0)).
  { intro x. rewrite Henv. apply sim_call_env. apply covers_mask. exact Hsep. }
  destruct (exec_sound p (dyn_ok p) A (dyn_ok_spec p) _ _ _ Hex _ _ _ _ E Hs Hbd) as [_ [Hh _]].
  exact Hh.
Qed.

Lemma separated_all_true : forall A vals, separated A (repeat true (length vals)) vals.
Proof.
  intros A vals; induction vals; simpl; constructor; auto. intro H; discriminate.
Qed.

Lemma args_locs_all_true : forall vals l,
  In l (flat_map (fun v => own v ++ reach v) vals) -> In l (args_locs (repeat true (length vals)) vals).
Proof.
  induction vals as [|v vals IH]; intros l H; simpl in *; auto.
  apply in_app_or in H. apply in_or_app. destruct H; [left; exact H|right; apply IH; exact H].
Qed.

Lemma args_locs_all_true_inv : forall vals l,
  In l (args_locs (repeat true (length vals)) vals) -> In l (flat_map (fun v => own v ++ reach v) vals).
Proof.
  induction vals as [|v vals IH]; intros l H; simpl in *; auto.
  apply in_app_or in H. apply in_or_app. destruct H; [left; exact H|right; apply IH; exact H].
Qed.

(* every formal tainted: no side condition *)
Theorem analysis_sound : forall p f fd argvals st0 st',
  no_arg_write p f = true ->
  nth_error p f = Some fd ->
  length argvals = f_nparams fd ->
  (forall x, env st0 x = call_env (f_nparams fd) argvals x) ->
  (forall l, In l (flat_map (fun v => own v ++ reach v) argvals) -> l < next st0) ->
  exec p (f_body fd) st0 st' ->
  forall l, In l (flat_map (fun v => own v ++ reach v) argvals) -> heap st' l = heap st0 l.
Proof.
  intros p f fd argvals st0 st' Hna Hf Hlen Henv Hbd Hex l Hl.
  unfold no_arg_write in Hna. rewrite Hf in Hna. rewrite <- Hlen in Hna.
  eapply analysis_sound_mask; eauto.
  - apply separated_all_true.
  - intros l' Hl'. apply Hbd. apply args_locs_all_true_inv. exact Hl'.
  - apply args_locs_all_true. exact Hl.
Qed.

Lemma nth_repeat_below : forall (X : Type) (v d : X) n x, x < n -> nth x (repeat v n) d = v.
Proof.
  intros X v d n; induction n as [|n IH]; intros x Hx; [lia|]. destruct x; simpl; auto. apply IH. lia.
Qed.

(* history independence on the store: ANY client program (calls in any order, branching,
   looping, rebinding) that the analysis accepts with every client variable tainted leaves
   every location that existed before unchanged — so a later operation reads exactly the
   contents it would have read had the earlier calls never happened. *)
Theorem client_sound : forall p s n st st' a',
  (forall x, n <= x -> env st x = empty_val) ->
  aexec (afun p (dyn_ok p) LOOP_FUEL (S (length p))) (dyn_ok p) LOOP_FUEL s (repeat (true, true) n) = Some a' ->
  exec p s st st' ->
  forall l, l < next st -> heap st' l = heap st l.
Proof.
  intros p s n st st' a' Hemp Ha Hex l Hl.
  set (A := seq 0 (next st)).
  assert (Hs : sim A (repeat (true, true) n) (env st)).
  { intro x. destruct (Nat.lt_ge_cases x n) as [Hx|Hx].
    - unfold aget. rewrite nth_repeat_below by exact Hx. split; intro; reflexivity.
    - rewrite Hemp by exact Hx. apply covers_empty. }
  assert (Hb : bounded A (next st)).
  { intros l' Hl'. apply in_seq in Hl'. lia. }
  destruct (exec_sound p (dyn_ok p) A (dyn_ok_spec p) _ _ _ Hex _ _ _ _ Ha Hs Hb) as [_ [Hh _]].
  apply Hh. apply in_seq. lia.
Qed.
