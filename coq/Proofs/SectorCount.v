(* Proofs/SectorCount.v — C14, last clause: "on a closed lattice [the 2^(F-1) sectors are] precisely
   all sectors compatible with the global parity constraint".

   1. Counting.  The +-1 vectors of length F = S k with prescribed product c are in bijection with
      the free choice of k entries (the remaining entry is c times the product of the others):
      [parity_vecs c k] is a duplicate-free list of length 2^k containing exactly those vectors.
      The list is DEFINED by recursion but never computed: only NoDup / length / In are used.
   2. Injectivity.  n |-> flux sector of n_to_ujk_flipped n is injective on 0 <= n < 2^(F-1)
      (SpanTreeFacts.sectors_distinct), so the list of reached sectors is duplicate-free of length
      2^(F-1).
   3. Every reached sector is in [parity_vecs c (F-1)] (+-1 entries by C05 flux_pm1, product c by C05
      global parity).  A duplicate-free list included in a list of the same length contains it
      (stdlib NoDup_length_incl): every parity-compatible vector is reached. *)
From Coq Require Import List ZArith Bool Arith Lia ZifyBool FinFun.
From Koala Require Import Model.Lattice Model.Flux Model.SpanTree.
From Koala Require Import Proofs.LatticeFacts Proofs.FluxFacts Proofs.FluxLattice
  Proofs.SpanTreeFacts Proofs.SpanTreeComplete Proofs.SpanTreeLattice.
Import ListNotations.
Open Scope Z_scope.

(* ------------------------------------------------------------------ list helpers *)
Lemma nodup_app : forall (A : Type) (l1 l2 : list A),
  NoDup l1 -> NoDup l2 -> (forall x, In x l1 -> ~ In x l2) -> NoDup (l1 ++ l2).
Proof.
  induction l1 as [|a l1 IH]; intros l2 H1 H2 Hd; simpl; [exact H2|].
  inversion H1 as [|x l Hn Hnd]; subst. constructor.
  - intros Hin. apply in_app_or in Hin. destruct Hin as [Hin|Hin]; [contradiction|].
    apply (Hd a); [now left|exact Hin].
  - apply IH; [exact Hnd|exact H2|]. intros x Hx. apply Hd. now right.
Qed.

Lemma nodup_map_inj_in : forall (A B : Type) (f : A -> B) (l : list A),
  (forall x y, In x l -> In y l -> f x = f y -> x = y) -> NoDup l -> NoDup (map f l).
Proof.
  induction l as [|a l IH]; intros Hinj Hnd; simpl; [constructor|].
  inversion Hnd as [|x l' Hn Hnd']; subst. constructor.
  - intros Hin. apply in_map_iff in Hin. destruct Hin as (y & Hy & Hin).
    assert (y = a) by (apply Hinj; [now right|now left|exact Hy]). subst. contradiction.
  - apply IH; [|exact Hnd']. intros x y Hx Hy. apply Hinj; now right.
Qed.

(* ------------------------------------------------------------------ 1. counting *)
(* all +-1 vectors of length k *)
Fixpoint pm_vecs (k : nat) : list (list Z) :=
  match k with
  | O => [[]]
  | S k' => map (cons 1) (pm_vecs k') ++ map (cons (-1)) (pm_vecs k')
  end.

Lemma pm_vecs_length : forall k, length (pm_vecs k) = (2 ^ k)%nat.
Proof.
  induction k as [|k IH]; [reflexivity|].
  cbn [pm_vecs]. rewrite app_length, !map_length, IH, Nat.pow_succ_r'. lia.
Qed.

Lemma pm_vecs_in : forall k s, In s (pm_vecs k) <-> (length s = k /\ Forall is_pm1 s).
Proof.
  induction k as [|k IH]; intros s; cbn [pm_vecs].
  - split.
    + intros [<-|[]]. split; [reflexivity|constructor].
    + intros [Hl _]. destruct s; [now left|discriminate].
  - rewrite in_app_iff, !in_map_iff. split.
    + intros [(v & <- & Hv)|(v & <- & Hv)]; apply IH in Hv; destruct Hv as [Hl Hf]; simpl;
        (split; [now rewrite Hl|constructor; [|exact Hf]]); [now left|now right].
    + intros [Hl Hf]. destruct s as [|x v]; [discriminate|].
      inversion Hf as [|x' v' Hx Hv]; subst. simpl in Hl.
      assert (Hin : In v (pm_vecs k)) by (apply IH; split; [lia|exact Hv]).
      destruct Hx as [-> | ->]; [left|right]; exists v; auto.
Qed.

Lemma pm_vecs_nodup : forall k, NoDup (pm_vecs k).
Proof.
  induction k as [|k IH]; cbn [pm_vecs].
  - constructor; [intros []|constructor].
  - apply nodup_app.
    + apply Injective_map_NoDup; [|exact IH]. intros v w Hvw. now inversion Hvw.
    + apply Injective_map_NoDup; [|exact IH]. intros v w Hvw. now inversion Hvw.
    + intros s H1 H2. apply in_map_iff in H1. apply in_map_iff in H2.
      destruct H1 as (v & <- & _). destruct H2 as (w & Hw & _). discriminate.
Qed.

(* the +-1 vectors of length S k with product c: any k entries, and the remaining one is forced *)
Definition parity_vecs (c : Z) (k : nat) : list (list Z) :=
  map (fun v => c * zprod v :: v) (pm_vecs k).

Lemma parity_vecs_length : forall c k, length (parity_vecs c k) = (2 ^ k)%nat.
Proof. intros. unfold parity_vecs. now rewrite map_length, pm_vecs_length. Qed.

Lemma parity_vecs_nodup : forall c k, NoDup (parity_vecs c k).
Proof.
  intros c k. unfold parity_vecs. apply Injective_map_NoDup; [|apply pm_vecs_nodup].
  intros v w Hvw. now inversion Hvw.
Qed.

Lemma parity_vecs_complete : forall c k s,
  length s = S k -> Forall is_pm1 s -> zprod s = c -> In s (parity_vecs c k).
Proof.
  intros c k s Hl Hf Hp. destruct s as [|x v]; [discriminate|].
  inversion Hf as [|x' v' Hx Hv]; subst. simpl in Hl. simpl.
  unfold parity_vecs. apply in_map_iff. exists v. split.
  - f_equal. pose proof (is_pm1_sq _ (zprod_pm1 v Hv)) as Hsq.
    transitivity (x * (zprod v * zprod v)); [ring|]. rewrite Hsq. ring.
  - apply pm_vecs_in. split; [lia|exact Hv].
Qed.

Lemma parity_vecs_sound : forall c k s, is_pm1 c ->
  In s (parity_vecs c k) -> length s = S k /\ Forall is_pm1 s /\ zprod s = c.
Proof.
  intros c k s Hc Hin. unfold parity_vecs in Hin. apply in_map_iff in Hin.
  destruct Hin as (v & <- & Hv). apply pm_vecs_in in Hv. destruct Hv as [Hl Hf].
  pose proof (zprod_pm1 v Hf) as Hz. split; [simpl; now rewrite Hl|]. split.
  - constructor; [now apply is_pm1_mul|exact Hf].
  - simpl. pose proof (is_pm1_sq _ Hz) as Hsq.
    transitivity (c * (zprod v * zprod v)); [ring|]. rewrite Hsq. ring.
Qed.

(* the set of +-1 vectors of length F >= 1 with product c has exactly 2^(F-1) elements: it is
   enumerated without repetition by a list of that length *)
Theorem parity_sectors_count : forall (F : nat) (c : Z), (1 <= F)%nat -> is_pm1 c ->
  exists l : list (list Z), NoDup l /\ length l = (2 ^ (F - 1))%nat
    /\ forall s, In s l <-> (length s = F /\ Forall is_pm1 s /\ zprod s = c).
Proof.
  intros F c HF Hc. destruct F as [|k]; [lia|]. exists (parity_vecs c k).
  replace (S k - 1)%nat with k by lia.
  split; [apply parity_vecs_nodup|]. split; [apply parity_vecs_length|].
  intros s. split; [now apply parity_vecs_sound|].
  intros (Hl & Hf & Hp). now apply parity_vecs_complete.
Qed.

(* hence every duplicate-free list of such vectors has at most 2^(F-1) entries, and one with
   exactly 2^(F-1) entries contains all of them *)
Lemma parity_sectors_saturate : forall (k : nat) (c : Z) (l : list (list Z)),
  NoDup l -> length l = (2 ^ k)%nat ->
  (forall s, In s l -> length s = S k /\ Forall is_pm1 s /\ zprod s = c) ->
  forall s, length s = S k -> Forall is_pm1 s -> zprod s = c -> In s l.
Proof.
  intros k c l Hnd Hlen Hin s Hl Hf Hp.
  apply (NoDup_length_incl Hnd (l' := parity_vecs c k)).
  - rewrite parity_vecs_length. lia.
  - intros x Hx. destruct (Hin x Hx) as (H1 & H2 & H3). now apply parity_vecs_complete.
  - now apply parity_vecs_complete.
Qed.

(* ------------------------------------------------------------------ 2. the reached sectors *)
Definition zrange (N : nat) : list Z := map Z.of_nat (seq 0 N).

Lemma zrange_in : forall N n, In n (zrange N) <-> 0 <= n < Z.of_nat N.
Proof.
  intros N n. unfold zrange. rewrite in_map_iff. split.
  - intros (i & <- & Hi). apply in_seq in Hi. lia.
  - intros H. exists (Z.to_nat n). split; [lia|]. apply in_seq. lia.
Qed.

Lemma zrange_nodup : forall N, NoDup (zrange N).
Proof.
  intros N. unfold zrange. apply Injective_map_NoDup; [|apply seq_NoDup].
  intros a b. apply Nat2Z.inj.
Qed.

Lemma zrange_length : forall N, length (zrange N) = N.
Proof. intros. unfold zrange. now rewrite map_length, seq_length. Qed.

Lemma zrange_pow_in : forall k n, In n (zrange (2 ^ k)) <-> in_range n k.
Proof.
  intros k n. rewrite zrange_in. unfold in_range. rewrite Nat2Z.inj_pow. reflexivity.
Qed.

(* the flux sector of n (the empty list when n_to_ujk_flipped raises) *)
Definition sector_of (u : list Z) (tree : list nat) (ps : list plaquette) (n : Z) : list Z :=
  match n_to_ujk_flipped n u tree with
  | Some r => fluxes_real r ps
  | None => []
  end.

Section Onto.
  Variables (order : order_fn) (ep : list ep_row) (ps : list plaquette)
            (t : list (option nat)) (tree : list nat) (u : list Z) (c : Z).
  Hypothesis Hshape : plaqs_ok ps.
  Hypothesis Hag : tables_agree ep (map p_edges ps).
  Hypothesis Ht : plaquette_spanning_tree order ep (map p_edges ps) = Some t.
  Hypothesis Hall : all_some t = Some tree.
  Hypothesis Hu : forall p f, In p ps -> In f (p_edges p) -> is_pm1 (bond u f).
  (* the parity constraint, for every bond configuration the enumeration produces *)
  Hypothesis Hpar : forall n r, in_range n (length tree) -> n_to_ujk_flipped n u tree = Some r ->
    zprod (fluxes_real r ps) = c.

  Let k := length tree.

  Lemma onto_spanning : spanning ep (length ps) tree.
  Proof.
    destruct Hag as [Hrange _]. rewrite <- (map_length p_edges ps).
    eapply tree_spec; eauto.
  Qed.

  Lemma onto_size : S k = length ps.
  Proof. apply onto_spanning. Qed.

  (* tree edges are edges of plaquettes, hence carry +-1 in u, hence are indices into u *)
  Lemma onto_tree_in_u : forall e, In e tree -> (e < length u)%nat.
  Proof.
    intros e He. destruct onto_spanning as (_ & _ & Hsides & _).
    destruct (Hsides e He) as (a & b & H2 & Ha & _).
    destruct Hag as [_ Hside].
    assert (Hin : In e (nth a (map p_edges ps) [])).
    { apply Hside; [now rewrite map_length|]. apply (is_side_two_sided _ _ _ _ a H2). now left. }
    rewrite nth_pes in Hin.
    assert (Hp : is_pm1 (bond u e)) by (apply (Hu (nth a ps empty_plaq)); [now apply nth_In|exact Hin]).
    destruct (Nat.lt_ge_cases e (length u)) as [Hlt|Hge]; [exact Hlt|].
    unfold bond in Hp. rewrite nth_overflow in Hp by exact Hge. destruct Hp; discriminate.
  Qed.

  Lemma onto_defined : forall n, in_range n k ->
    exists r, n_to_ujk_flipped n u tree = Some r
      /\ (forall p f, In p ps -> In f (p_edges p) -> is_pm1 (bond r f)).
  Proof.
    intros n Hn. destruct onto_spanning as (_ & Hnd & _).
    destruct (flipped_spec n u tree Hnd onto_tree_in_u Hn) as (r & Er & _ & Hoff & _ & Hpm).
    exists r. split; [exact Er|]. intros p f Hp Hf.
    destruct (in_dec Nat.eq_dec f tree) as [Hin|Hnot]; [now apply Hpm|].
    rewrite Hoff by exact Hnot. exact (Hu p f Hp Hf).
  Qed.

  Lemma onto_sector_ok : forall n, in_range n k ->
    length (sector_of u tree ps n) = S k /\ Forall is_pm1 (sector_of u tree ps n)
    /\ zprod (sector_of u tree ps n) = c.
  Proof.
    intros n Hn. destruct (onto_defined n Hn) as (r & Er & Hr). unfold sector_of. rewrite Er.
    split; [unfold fluxes_real; rewrite map_length; symmetry; apply onto_size|]. split.
    - unfold fluxes_real. apply Forall_forall. intros x Hx. apply in_map_iff in Hx.
      destruct Hx as (p & <- & Hp). apply flux_real_pm1. intros e He. now apply (Hr p).
    - now apply (Hpar n r).
  Qed.

  Definition reached : list (list Z) := map (sector_of u tree ps) (zrange (2 ^ k)).

  Lemma reached_nodup : NoDup reached.
  Proof.
    unfold reached. apply nodup_map_inj_in; [|apply zrange_nodup].
    intros n m Hn Hm Heq. apply zrange_pow_in in Hn. apply zrange_pow_in in Hm.
    destruct (Z.eq_dec n m) as [E|Hne]; [exact E|exfalso].
    destruct (onto_defined n Hn) as (rn & Ern & _). destruct (onto_defined m Hm) as (rm & Erm & _).
    unfold sector_of in Heq. rewrite Ern, Erm in Heq.
    exact (sectors_distinct order ep ps t tree u n m rn rm Hshape Hag Ht Hall Hu Hn Hm Hne Ern Erm Heq).
  Qed.

  Lemma reached_length : length reached = (2 ^ k)%nat.
  Proof. unfold reached. now rewrite map_length, zrange_length. Qed.

  (* every +-1 vector of length F with product c is the sector of some n < 2^(F-1) *)
  Lemma sectors_onto : forall s, length s = length ps -> Forall is_pm1 s -> zprod s = c ->
    exists n r, in_range n (length tree) /\ n_to_ujk_flipped n u tree = Some r /\ fluxes_real r ps = s.
  Proof.
    intros s Hl Hf Hp. rewrite <- onto_size in Hl.
    assert (Hin : In s reached).
    { apply (parity_sectors_saturate k c reached reached_nodup reached_length); try assumption.
      intros x Hx. unfold reached in Hx. apply in_map_iff in Hx. destruct Hx as (n & <- & Hn).
      apply zrange_pow_in in Hn. now apply onto_sector_ok. }
    unfold reached in Hin. apply in_map_iff in Hin. destruct Hin as (n & Hs & Hn).
    apply zrange_pow_in in Hn. destruct (onto_defined n Hn) as (r & Er & _).
    exists n, r. split; [exact Hn|]. split; [exact Er|]. unfold sector_of in Hs. now rewrite Er in Hs.
  Qed.

  (* both directions *)
  Lemma sectors_exactly : forall s,
    (length s = length ps /\ Forall is_pm1 s /\ zprod s = c)
    <-> (exists n r, in_range n (length tree) /\ n_to_ujk_flipped n u tree = Some r /\ fluxes_real r ps = s).
  Proof.
    intros s. split.
    - intros (Hl & Hf & Hp). now apply sectors_onto.
    - intros (n & r & Hn & Er & <-). destruct (onto_sector_ok n Hn) as (H1 & H2 & H3).
      unfold sector_of in H1, H2, H3. rewrite Er in H1, H2, H3. rewrite onto_size in H1. auto.
  Qed.
End Onto.

(* ------------------------------------------------------------------ 3. closed lattices *)
(* bonds after the enumeration step are +-1 on every edge of the lattice *)
Lemma flipped_pm1_all : forall (N : nat) n u tree r,
  NoDup tree -> (forall e, In e tree -> (e < length u)%nat) -> in_range n (length tree) ->
  (forall e, (e < N)%nat -> is_pm1 (bond u e)) ->
  n_to_ujk_flipped n u tree = Some r -> forall e, (e < N)%nat -> is_pm1 (bond r e).
Proof.
  intros N n u tree r Hnd Hlt Hn Hu Er e He.
  destruct (flipped_spec n u tree Hnd Hlt Hn) as (r' & Er' & _ & Hoff & _ & Hpm).
  rewrite Er in Er'. inversion Er'; subst r'.
  destruct (in_dec Nat.eq_dec e tree) as [Hin|Hnot]; [now apply Hpm|].
  rewrite Hoff by exact Hnot. now apply Hu.
Qed.

(* tables given (e.g. the implementation's, checked by the extracted boolean tests): plaquettes that
   use no edge twice, tables that agree, the plaquettes' directed edges are exactly the directed
   edges of L, each once (closed lattice) *)
Lemma sectors_all_parity_tables : forall (L : lattice) (order : order_fn) ep ps t tree u,
  plaqs_ok ps -> tables_agree ep (map p_edges ps) ->
  Permutation.Permutation (flat_map Flux.plaq_darts ps) (all_darts L) ->
  plaquette_spanning_tree order ep (map p_edges ps) = Some t -> all_some t = Some tree ->
  (forall e, (e < nE L)%nat -> is_pm1 (bond u e)) ->
  S (length tree) = length ps
  /\ forall s,
    (length s = length ps /\ Forall is_pm1 s /\ zprod s = (-1) ^ Z.of_nat (nE L))
    <-> (exists n r, in_range n (length tree) /\ n_to_ujk_flipped n u tree = Some r /\ fluxes_real r ps = s).
Proof.
  intros L order ep ps t tree u Hshape Hag Hperm Ht Hall Hu.
  assert (Hedge : forall p f, In p ps -> In f (p_edges p) -> (f < nE L)%nat).
  { intros p f Hp Hf. destruct (Hshape p Hp) as [Hl _].
    destruct (in_combine_exists _ _ (p_edges p) (p_dirs p) f Hf Hl) as [d Hd].
    apply (in_all_darts L f d). apply (Permutation.Permutation_in _ Hperm).
    apply in_flat_map. exists p. split; [exact Hp|exact Hd]. }
  assert (Hu' : forall p f, In p ps -> In f (p_edges p) -> is_pm1 (bond u f))
    by (intros p f Hp Hf; apply Hu; eapply Hedge; eauto).
  pose proof (onto_spanning order ep ps t tree Hag Ht Hall) as Hsp.
  split; [apply Hsp|].
  apply (sectors_exactly order ep ps t tree u _ Hshape Hag Ht Hall Hu').
  intros n r Hn Er. apply global_parity_perm; [exact Hperm|].
  destruct Hsp as (_ & Hnd & _).
  apply (flipped_pm1_all (nE L) n u tree r Hnd
           (onto_tree_in_u order ep ps t tree u Hag Ht Hall Hu') Hn Hu Er).
Qed.

Lemma sectors_all_parity_checked : forall (L : lattice) (order : order_fn) ep ps t tree u,
  plaqs_ok ps -> ep_agrees ep (map p_edges ps) = true -> darts_cover L ps = true ->
  plaquette_spanning_tree order ep (map p_edges ps) = Some t -> all_some t = Some tree ->
  (forall e, (e < nE L)%nat -> is_pm1 (bond u e)) ->
  S (length tree) = length ps
  /\ forall s,
    (length s = length ps /\ Forall is_pm1 s /\ zprod s = (-1) ^ Z.of_nat (nE L))
    <-> (exists n r, in_range n (length tree) /\ n_to_ujk_flipped n u tree = Some r /\ fluxes_real r ps = s).
Proof.
  intros L order ep ps t tree u Hshape Hag Hcov. apply sectors_all_parity_tables.
  - exact Hshape.
  - now apply ep_agrees_sound.
  - now apply darts_cover_sound.
Qed.

(* end to end on the lattice model: closed = every directed edge lies in some plaquette *)
Lemma model_sectors_all_parity : forall (L : lattice) (order : order_fn) ps t,
  wf_lattice L = true -> no_self_loops L = true ->
  find_all_plaquettes L = Some ps ->
  (forall n b, incl b (order n b)) ->
  plaquette_graph_connected (edges_plaquettes L ps) (length ps) ->
  (forall d, In d (all_darts L) -> In d (flat_map Flux.plaq_darts ps)) ->
  spanning_tree_of_lattice order L = Some t ->
  exists tree, all_some t = Some tree /\ S (length tree) = length ps
    /\ forall u, (forall e, (e < nE L)%nat -> is_pm1 (bond u e)) ->
       forall s,
         (length s = length ps /\ Forall is_pm1 s /\ zprod s = (-1) ^ Z.of_nat (nE L))
         <-> (exists n r, in_range n (length tree) /\ n_to_ujk_flipped n u tree = Some r
                          /\ fluxes_real r ps = s).
Proof.
  intros L order ps t Hwf Hnl Hf Hord Hconn Hcov Ht.
  assert (HG : good L) by (split; assumption).
  destruct (model_spanning_sectors L order ps t Hwf Hnl Hf Hord Hconn Ht) as (tree & Hall & Hsp & _).
  exists tree. split; [exact Hall|]. split; [apply Hsp|].
  intros u Hu.
  pose proof (model_tables_agree L ps HG Hf) as Hag.
  unfold spanning_tree_of_lattice in Ht. rewrite Hf in Ht.
  assert (Hshape : plaqs_ok ps).
  { intros p Hp. destruct (model_plaquette_shape L ps p Hf Hp) as (_ & H1 & H2). split; assumption. }
  assert (Hedge : forall p f, In p ps -> In f (p_edges p) -> (f < nE L)%nat).
  { intros p f Hp Hin. destruct (Hshape p Hp) as [Hl _].
    destruct (in_combine_exists _ _ (p_edges p) (p_dirs p) f Hin Hl) as [d Hd].
    apply (model_plaquette_darts_valid L ps p (f, d) HG Hf Hp Hd). }
  assert (Hu' : forall p f, In p ps -> In f (p_edges p) -> is_pm1 (bond u f))
    by (intros p f Hp Hin; apply Hu; eapply Hedge; eauto).
  apply (sectors_exactly order _ ps t tree u _ Hshape Hag Ht Hall Hu').
  intros n r Hn Er. apply (model_global_parity L ps r Hwf Hnl Hf Hcov).
  destruct Hsp as (_ & Hnd & _).
  apply (flipped_pm1_all (nE L) n u tree r Hnd
           (onto_tree_in_u order _ ps t tree u Hag Ht Hall Hu') Hn Hu Er).
Qed.
