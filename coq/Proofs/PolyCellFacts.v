(* Proofs/PolyCellFacts.v — from the area additivity of the half-plane clipper
   (Proofs/PolyAreaFacts.v) to the unit cell:

     nine_cells_area   for every polygon P with all vertices in the 3x3 block [-1,2]^2 the clipped
                       areas (clipped_area2 = area2 o clip_polygon, exactly what the spec checker
                       computes) of its nine integer translates sum to area2 P
     clipped_zero_*    a translate lying strictly beyond one cell line has clipped area 0

   Any polygon, any number of vertices; area2 is twice the signed shoelace area, so for a convex
   anticlockwise polygon these are the areas of the regions (Proofs/PolyRegionFacts.v). *)
From Coq Require Import List ZArith QArith Bool Qminmax Lqa Lia.
From Koala Require Import Model.Clip Model.Plot Proofs.ClipFacts Proofs.PolyAreaFacts.
Import ListNotations.
Open Scope Q_scope.

(* ---------- polygons up to == ---------- *)
Ltac f2 := repeat (first [apply Forall2_nil | apply Forall2_cons]).
Ltac fa := repeat (first [apply Forall_nil | apply Forall_cons]).
Definition poly_eq (P P' : polygon) : Prop := Forall2 peq P P'.

Lemma poly_eq_refl (P : polygon) : poly_eq P P.
Proof. induction P; constructor; [apply peq_refl|assumption]. Qed.
Lemma poly_eq_trans (P Q R : polygon) : poly_eq P Q -> poly_eq Q R -> poly_eq P R.
Proof.
  intro H. revert R. induction H as [|a b P Q Hab HPQ IH]; intros R HR; inversion HR; subst; constructor.
  - eapply peq_trans; eassumption.
  - apply IH. assumption.
Qed.

Lemma last_peq (l l' : list point) (d d' : point) : poly_eq l l' -> peq d d' -> peq (last l d) (last l' d').
Proof.
  intro H. revert d d'. induction H as [|a b l l' Hab Hl IH]; intros d d' Hd; [exact Hd|].
  rewrite !last_cons_default. apply IH. exact Hab.
Qed.

Lemma hp_inside_v_eq (x : bool) (v v' : Q) (ge : bool) (p : point) :
  v == v' -> hp_inside x v ge p = hp_inside x v' ge p.
Proof. intro H. unfold hp_inside, Qleb. destruct ge; rewrite H; reflexivity. Qed.

Lemma hp_intersect_v_eq (x : bool) (v v' : Q) (p q : point) :
  v == v' -> hp_intersect x v p q = hp_intersect x v' p q.
Proof.
  intro H. unfold hp_intersect. f_equal; apply Qred_complete; rewrite H; reflexivity.
Qed.

Lemma sh_step_v_eq (x : bool) (v v' : Q) (ge : bool) (l : list point) (prev : point) :
  v == v' -> sh_step x v ge prev l = sh_step x v' ge prev l.
Proof.
  intro H. revert prev. induction l as [|c r IH]; intro prev; [reflexivity|].
  cbn [sh_step]. rewrite (hp_inside_v_eq x v v' ge c H), (hp_inside_v_eq x v v' ge prev H),
    (hp_intersect_v_eq x v v' prev c H), (IH c). reflexivity.
Qed.
Lemma sh_clip1_v_eq (x : bool) (v v' : Q) (ge : bool) (P : polygon) :
  v == v' -> sh_clip1 x v ge P = sh_clip1 x v' ge P.
Proof. intro H. destruct P; [reflexivity|]. apply sh_step_v_eq. exact H. Qed.

Lemma sh_step_peq (x : bool) (v : Q) (ge : bool) (l l' : list point) :
  poly_eq l l' -> forall prev prev', peq prev prev' ->
  poly_eq (sh_step x v ge prev l) (sh_step x v ge prev' l').
Proof.
  intro H. induction H as [|c c' l l' Hc Hl IH]; intros prev prev' Hp; [constructor|].
  cbn [sh_step]. rewrite (hp_inside_peq x v ge c c' Hc), (hp_inside_peq x v ge prev prev' Hp).
  pose proof (hp_intersect_peq x v prev prev' c c' Hp Hc) as HI.
  apply Forall2_app; [|apply IH; exact Hc].
  destruct (hp_inside x v ge c'), (hp_inside x v ge prev'); f2; assumption.
Qed.
Lemma sh_clip1_peq (x : bool) (v : Q) (ge : bool) (P P' : polygon) :
  poly_eq P P' -> poly_eq (sh_clip1 x v ge P) (sh_clip1 x v ge P').
Proof.
  intro H. destruct H as [|a b l l' Hab Hl]; [constructor|].
  unfold sh_clip1. apply sh_step_peq; [constructor; assumption|].
  apply last_peq; [constructor; assumption|apply peq_refl].
Qed.

Lemma chain_peq (g : point -> point -> Q) (l l' : list point) : gproper g -> poly_eq l l' ->
  forall A A', peq A A' -> chain g A l == chain g A' l'.
Proof.
  intros Hg H. induction H as [|c c' l l' Hc Hl IH]; intros A A' HA; [reflexivity|].
  cbn [chain]. rewrite (Hg A A' c c' HA Hc), (IH c c' Hc). reflexivity.
Qed.
Lemma cr_proper : gproper cr.
Proof. intros a a' b b' [H1 H2] [H3 H4]. unfold cr. rewrite H1, H2, H3, H4. reflexivity. Qed.
Lemma area2_peq (P P' : polygon) : poly_eq P P' -> area2 P == area2 P'.
Proof.
  intro H. rewrite !area2_cyc. unfold cyc. apply chain_peq; [apply cr_proper|exact H|].
  apply last_peq; [exact H|apply peq_refl].
Qed.

(* ---------- translation ---------- *)
Lemma coord_padd (x : bool) (p d : point) : coord x (padd p d) = coord x p + coord x d.
Proof. destruct x; reflexivity. Qed.

Lemma Qleb_ext (a b c d : Q) : (a <= b <-> c <= d) -> Qleb a b = Qleb c d.
Proof.
  intro H. destruct (Qleb a b) eqn:E1; destruct (Qleb c d) eqn:E2; auto.
  - apply Qleb_iff in E1. apply H in E1. apply Qleb_iff in E1. congruence.
  - apply Qleb_iff in E2. apply H in E2. apply Qleb_iff in E2. congruence.
Qed.

Lemma hp_inside_translate (x : bool) (v : Q) (ge : bool) (p d : point) :
  hp_inside x v ge (padd p d) = hp_inside x (v - coord x d) ge p.
Proof.
  unfold hp_inside. rewrite coord_padd. destruct ge; apply Qleb_ext; split; intro; lra.
Qed.

Lemma hp_intersect_translate (x : bool) (v : Q) (p q d : point) :
  peq (hp_intersect x v (padd p d) (padd q d)) (padd (hp_intersect x (v - coord x d) p q) d).
Proof.
  assert (Ht : (v - coord x (padd p d)) / (coord x (padd q d) - coord x (padd p d))
               == (v - coord x d - coord x p) / (coord x q - coord x p)).
  { rewrite !coord_padd. apply Qdiv_comp; ring. }
  unfold hp_intersect. set (t' := (v - coord x (padd p d)) / (coord x (padd q d) - coord x (padd p d))) in *.
  set (t := (v - coord x d - coord x p) / (coord x q - coord x p)) in *.
  unfold peq, padd, px, py. cbn [fst snd]. rewrite !Qred_correct, Ht. split; ring.
Qed.

Definition tr (d : point) : point -> point := fun p => padd p d.

Lemma padd_peq (a b d : point) : peq a b -> peq (padd a d) (padd b d).
Proof. intros [H1 H2]. unfold peq, padd, px, py in *. cbn [fst snd]. rewrite H1, H2. split; reflexivity. Qed.

Lemma sh_step_translate (x : bool) (v : Q) (ge : bool) (d : point) (l : list point) (prev : point) :
  poly_eq (sh_step x v ge (padd prev d) (map (tr d) l)) (map (tr d) (sh_step x (v - coord x d) ge prev l)).
Proof.
  revert prev. induction l as [|c r IH]; intro prev; [constructor|].
  cbn [map sh_step]. unfold tr at 1 2 3. rewrite !hp_inside_translate, map_app.
  apply Forall2_app; [|apply IH].
  pose proof (hp_intersect_translate x v prev c d) as HI.
  destruct (hp_inside x (v - coord x d) ge c), (hp_inside x (v - coord x d) ge prev); cbn [map];
    f2; try apply peq_refl; exact HI.
Qed.

Lemma last_map_ne {A B : Type} (f : A -> B) (l : list A) (d : B) (d' : A) :
  l <> [] -> last (map f l) d = f (last l d').
Proof.
  induction l as [|a l IH]; intro H; [congruence|].
  destruct l as [|b l]; [reflexivity|].
  change (last (map f (b :: l)) d = f (last (b :: l) d')). apply IH. discriminate.
Qed.

Lemma sh_clip1_translate (x : bool) (v : Q) (ge : bool) (P : polygon) (d : point) :
  poly_eq (sh_clip1 x v ge (ptranslate P d)) (ptranslate (sh_clip1 x (v - coord x d) ge P) d).
Proof.
  destruct P as [|p r]; [constructor|].
  unfold sh_clip1, ptranslate. change (fun p0 : point => padd p0 d) with (tr d).
  change (map (tr d) (p :: r)) with (tr d p :: map (tr d) r) at 1.
  cbv iota. change (tr d p :: map (tr d) r) with (map (tr d) (p :: r)).
  rewrite (last_map_ne (tr d) (p :: r) (0, 0) (0, 0)) by discriminate.
  apply sh_step_translate.
Qed.

Lemma ptranslate_peq (P P' : polygon) (d : point) : poly_eq P P' -> poly_eq (ptranslate P d) (ptranslate P' d).
Proof. intro H. induction H; constructor; [apply padd_peq; assumption|assumption]. Qed.

Lemma chain_map (g : point -> point -> Q) (f : point -> point) (l : list point) (A : point) :
  chain g (f A) (map f l) = chain (fun a b => g (f a) (f b)) A l.
Proof. revert A. induction l as [|c r IH]; intro A; [reflexivity|]. cbn [map chain]. rewrite IH. reflexivity. Qed.

Lemma area2_translate (P : polygon) (d : point) : area2 (ptranslate P d) == area2 P.
Proof.
  rewrite !area2_cyc. destruct P as [|p r]; [reflexivity|].
  unfold cyc, ptranslate. change (fun p0 : point => padd p0 d) with (tr d).
  rewrite (last_map_ne (tr d) (p :: r) (0, 0) (0, 0)) by discriminate.
  rewrite chain_map.
  set (phi := fun a : point => py d * px a - px d * py a).
  rewrite (chain_ext _ (fun a b => cr a b + (phi a - phi b))).
  - rewrite chain_plus. fold (cyc (fun a b => phi a - phi b) (p :: r)). rewrite cyc_tele. ring.
  - intros a b. unfold cr, phi, tr, padd, px, py. cbn [fst snd]. ring.
Qed.

(* the unit-cell clip of the translate by d = the clip of P to the cell moved by -d *)
Definition cell_clip (x0 x1 y0 y1 : Q) (P : polygon) : polygon :=
  sh_clip1 false y1 false (sh_clip1 false y0 true (sh_clip1 true x1 false (sh_clip1 true x0 true P))).

Lemma clip_polygon_translate (P : polygon) (d : point) :
  poly_eq (clip_polygon (ptranslate P d))
          (ptranslate (cell_clip (0 - px d) (1 - px d) (0 - py d) (1 - py d) P) d).
Proof.
  unfold clip_polygon, cell_clip.
  eapply poly_eq_trans.
  { apply sh_clip1_peq, sh_clip1_peq, sh_clip1_peq. apply (sh_clip1_translate true 0 true P d). }
  eapply poly_eq_trans.
  { apply sh_clip1_peq, sh_clip1_peq. apply (sh_clip1_translate true 1 false _ d). }
  eapply poly_eq_trans.
  { apply sh_clip1_peq. apply (sh_clip1_translate false 0 true _ d). }
  apply (sh_clip1_translate false 1 false _ d).
Qed.

Lemma clipped_translate (P : polygon) (dx dy : Z) (x0 x1 y0 y1 : Q) :
  0 - inject_Z dx == x0 -> 1 - inject_Z dx == x1 -> 0 - inject_Z dy == y0 -> 1 - inject_Z dy == y1 ->
  clipped_area2 (ptranslate P (zpoint (dx, dy))) == area2 (cell_clip x0 x1 y0 y1 P).
Proof.
  intros H0 H1 H2 H3. unfold clipped_area2.
  rewrite (area2_peq _ _ (clip_polygon_translate P (zpoint (dx, dy)))), area2_translate.
  unfold cell_clip, zpoint, px, py. cbn [fst snd].
  rewrite (sh_clip1_v_eq true _ x0 true P H0).
  rewrite (sh_clip1_v_eq true _ x1 false _ H1).
  rewrite (sh_clip1_v_eq false _ y0 true _ H2).
  rewrite (sh_clip1_v_eq false _ y1 false _ H3). reflexivity.
Qed.

(* ---------- all inside / all outside / invariants of the vertex set ---------- *)
Lemma sh_step_all_in (x : bool) (v : Q) (ge : bool) (l : list point) (prev : point) :
  hp_inside x v ge prev = true -> Forall (fun p => hp_inside x v ge p = true) l ->
  sh_step x v ge prev l = l.
Proof.
  revert prev. induction l as [|c r IH]; intros prev Hp Hl; [reflexivity|].
  inversion Hl as [|? ? Hc Hr]; subst. cbn [sh_step]. rewrite Hc, Hp, (IH c Hc Hr). reflexivity.
Qed.
Lemma last_Forall {A : Type} (C : A -> Prop) (l : list A) (d : A) : C d -> Forall C l -> C (last l d).
Proof.
  revert d. induction l as [|a l IH]; intros d Hd Hl; [exact Hd|].
  inversion Hl; subst. rewrite last_cons_default. apply IH; assumption.
Qed.
Lemma sh_clip1_all_in (x : bool) (v : Q) (ge : bool) (P : polygon) :
  Forall (fun p => hp_inside x v ge p = true) P -> sh_clip1 x v ge P = P.
Proof.
  intro H. destruct P as [|p r]; [reflexivity|]. unfold sh_clip1. apply sh_step_all_in; [|exact H].
  rewrite last_cons_default. inversion H; subst. apply (last_Forall (fun p => hp_inside x v ge p = true)); assumption.
Qed.
Lemma sh_step_all_out (x : bool) (v : Q) (ge : bool) (l : list point) (prev : point) :
  hp_inside x v ge prev = false -> Forall (fun p => hp_inside x v ge p = false) l ->
  sh_step x v ge prev l = [].
Proof.
  revert prev. induction l as [|c r IH]; intros prev Hp Hl; [reflexivity|].
  inversion Hl as [|? ? Hc Hr]; subst. cbn [sh_step]. rewrite Hc, Hp, (IH c Hc Hr). reflexivity.
Qed.
Lemma sh_clip1_all_out (x : bool) (v : Q) (ge : bool) (P : polygon) :
  Forall (fun p => hp_inside x v ge p = false) P -> sh_clip1 x v ge P = [].
Proof.
  intro H. destruct P as [|p r]; [reflexivity|]. unfold sh_clip1. apply sh_step_all_out; [|exact H].
  rewrite last_cons_default. inversion H; subst. apply (last_Forall (fun p => hp_inside x v ge p = false)); assumption.
Qed.

(* a property of points closed under taking points of segments holds of every output vertex *)
Definition seg_closed (C : point -> Prop) : Prop :=
  forall p q I t, C p -> C q -> 0 <= t -> t <= 1 ->
    px I == px p + t * (px q - px p) -> py I == py p + t * (py q - py p) -> C I.

Lemma sh_step_Forall (C : point -> Prop) (x : bool) (v : Q) (ge : bool) : seg_closed C ->
  forall (l : list point) (prev : point), C prev -> Forall C l -> Forall C (sh_step x v ge prev l).
Proof.
  intros HC. induction l as [|c r IH]; intros prev Hp Hl; [constructor|].
  inversion Hl as [|? ? Hc Hr]; subst. cbn [sh_step]. apply Forall_app. split; [|apply IH; assumption].
  destruct (hp_inside x v ge c) eqn:Ec; destruct (hp_inside x v ge prev) eqn:Ep; fa; try assumption;
    (assert (M : hp_inside x v ge prev <> hp_inside x v ge c) by congruence;
     destruct (hp_mixed x v ge prev c M) as (t & T0 & T1 & Hx & Hy & _);
     exact (HC prev c _ t Hp Hc T0 T1 Hx Hy)).
Qed.
Lemma sh_clip1_Forall (C : point -> Prop) (x : bool) (v : Q) (ge : bool) (P : polygon) :
  seg_closed C -> Forall C P -> Forall C (sh_clip1 x v ge P).
Proof.
  intros HC H. destruct P as [|p r]; [constructor|]. unfold sh_clip1. apply sh_step_Forall; try assumption.
  rewrite last_cons_default. inversion H; subst. apply last_Forall; assumption.
Qed.

Lemma convex_ge (a u w t : Q) : a <= u -> a <= w -> 0 <= t -> t <= 1 -> a <= u + t * (w - u).
Proof.
  intros. assert (0 <= t * (w - a)) by (apply Qmult_le_0_compat; lra).
  assert (0 <= (1 - t) * (u - a)) by (apply Qmult_le_0_compat; lra). nra.
Qed.
Lemma convex_gt (a u w t : Q) : a < u -> a < w -> 0 <= t -> t <= 1 -> a < u + t * (w - u).
Proof.
  intros. destruct (Qlt_le_dec u w).
  - assert (0 <= t * (w - u)) by (apply Qmult_le_0_compat; lra). lra.
  - assert (0 <= (1 - t) * (u - w)) by (apply Qmult_le_0_compat; lra). nra.
Qed.
Lemma seg_closed_ge (x : bool) (a : Q) : seg_closed (fun p => a <= coord x p).
Proof. intros p q I t Hp Hq T0 T1 Hx Hy. destruct x; unfold coord in *; [rewrite Hx|rewrite Hy]; apply convex_ge; assumption. Qed.
Lemma seg_closed_gt (x : bool) (a : Q) : seg_closed (fun p => a < coord x p).
Proof. intros p q I t Hp Hq T0 T1 Hx Hy. destruct x; unfold coord in *; [rewrite Hx|rewrite Hy]; apply convex_gt; assumption. Qed.
Lemma seg_closed_le (x : bool) (a : Q) : seg_closed (fun p => coord x p <= a).
Proof.
  intros p q I t Hp Hq T0 T1 Hx Hy.
  assert (K : forall u w, u <= a -> w <= a -> u + t * (w - u) <= a).
  { intros u w Hu Hw. pose proof (convex_ge (- a) (- u) (- w) t ltac:(lra) ltac:(lra) T0 T1). lra. }
  destruct x; unfold coord in *; [rewrite Hx|rewrite Hy]; apply K; assumption.
Qed.
Lemma seg_closed_lt (x : bool) (a : Q) : seg_closed (fun p => coord x p < a).
Proof.
  intros p q I t Hp Hq T0 T1 Hx Hy.
  assert (K : forall u w, u < a -> w < a -> u + t * (w - u) < a).
  { intros u w Hu Hw. pose proof (convex_gt (- a) (- u) (- w) t ltac:(lra) ltac:(lra) T0 T1). lra. }
  destruct x; unfold coord in *; [rewrite Hx|rewrite Hy]; apply K; assumption.
Qed.

(* every output vertex is inside the half-plane *)
Lemma sh_step_inside (x : bool) (v : Q) (ge : bool) (l : list point) (prev : point) :
  Forall (fun p => hp_inside x v ge p = true) (sh_step x v ge prev l).
Proof.
  revert prev. induction l as [|c r IH]; intro prev; [constructor|].
  cbn [sh_step]. apply Forall_app. split; [|apply IH].
  destruct (hp_inside x v ge c) eqn:Ec; destruct (hp_inside x v ge prev) eqn:Ep; fa; try assumption;
    (apply on_line_inside, (mixed_on_line x v ge); congruence).
Qed.
Lemma sh_clip1_inside (x : bool) (v : Q) (ge : bool) (P : polygon) :
  Forall (fun p => hp_inside x v ge p = true) (sh_clip1 x v ge P).
Proof. destruct P; [constructor|]. apply sh_step_inside. Qed.

(* ---------- three strips ---------- *)
Definition strip (x : bool) (lo hi : Q) (P : polygon) : polygon := sh_clip1 x hi false (sh_clip1 x lo true P).

Lemma three_strips_gen (x : bool) (a1 a2 : Q) (P : polygon) : a1 < a2 ->
  area2 (sh_clip1 x a1 false P) + area2 (strip x a1 a2 P) + area2 (sh_clip1 x a2 true P) == area2 P.
Proof.
  intro H. unfold strip.
  pose proof (clip_area_add x a1 P) as E1.
  pose proof (clip_area_add x a2 (sh_clip1 x a1 true P)) as E2.
  pose proof (clip_area_absorb x a1 a2 P H) as E3. lra.
Qed.

Lemma Forall_impl' {A : Type} (C D : A -> Prop) (l : list A) : (forall a, C a -> D a) -> Forall C l -> Forall D l.
Proof. intros H F. eapply Forall_impl; [exact H|exact F]. Qed.

Lemma three_strips (x : bool) (a0 a1 a2 a3 : Q) (P : polygon) : a1 < a2 ->
  Forall (fun p => a0 <= coord x p) P -> Forall (fun p => coord x p <= a3) P ->
  area2 (strip x a0 a1 P) + area2 (strip x a1 a2 P) + area2 (strip x a2 a3 P) == area2 P.
Proof.
  intros H H0 H3.
  assert (E0 : strip x a0 a1 P = sh_clip1 x a1 false P).
  { unfold strip. f_equal. apply sh_clip1_all_in. eapply Forall_impl'; [|exact H0].
    intros a Ha. apply hp_in_ge. exact Ha. }
  assert (E3 : strip x a2 a3 P = sh_clip1 x a2 true P).
  { unfold strip. apply sh_clip1_all_in.
    pose proof (sh_clip1_Forall _ x a2 true P (seg_closed_le x a3) H3) as F.
    eapply Forall_impl'; [|exact F]. intros a Ha. apply hp_in_le. exact Ha. }
  rewrite E0, E3. apply three_strips_gen. exact H.
Qed.

(* ---------- the nine cells ---------- *)
Definition in_block (P : polygon) : Prop :=
  Forall (fun p => -(1) <= px p /\ px p <= 2 /\ -(1) <= py p /\ py p <= 2) P.

Lemma cells_of_strip (a0 a1 a2 a3 : Q) (R : polygon) : a1 < a2 ->
  Forall (fun p => a0 <= py p) R -> Forall (fun p => py p <= a3) R ->
  area2 (strip false a0 a1 R) + area2 (strip false a1 a2 R) + area2 (strip false a2 a3 R) == area2 R.
Proof. intros. apply (three_strips false a0 a1 a2 a3 R); assumption. Qed.

Theorem nine_cells_area (P : polygon) : in_block P ->
  fold_right Qplus 0 (map (fun d => clipped_area2 (ptranslate P (zpoint d))) nine) == area2 P.
Proof.
  intro HB.
  assert (Bx0 : Forall (fun p => -(1) <= coord true p) P) by (eapply Forall_impl'; [|exact HB]; intros a Ha; apply Ha).
  assert (Bx3 : Forall (fun p => coord true p <= 2) P) by (eapply Forall_impl'; [|exact HB]; intros a Ha; apply Ha).
  assert (By0 : Forall (fun p => -(1) <= coord false p) P) by (eapply Forall_impl'; [|exact HB]; intros a Ha; apply Ha).
  assert (By3 : Forall (fun p => coord false p <= 2) P) by (eapply Forall_impl'; [|exact HB]; intros a Ha; apply Ha).
  assert (Ystrip : forall lo hi, Forall (fun p => -(1) <= py p) (strip true lo hi P) /\ Forall (fun p => py p <= 2) (strip true lo hi P)).
  { intros lo hi. unfold strip. split.
    - apply (sh_clip1_Forall _ true hi false _ (seg_closed_ge false (-(1)))), (sh_clip1_Forall _ true lo true _ (seg_closed_ge false (-(1)))). exact By0.
    - apply (sh_clip1_Forall _ true hi false _ (seg_closed_le false 2)), (sh_clip1_Forall _ true lo true _ (seg_closed_le false 2)). exact By3. }
  assert (L12 : 0 < 1) by lra.
  pose proof (three_strips true (-(1)) 0 1 2 P L12 Bx0 Bx3) as EX.
  pose proof (cells_of_strip (-(1)) 0 1 2 (strip true (-(1)) 0 P) L12 (proj1 (Ystrip _ _)) (proj2 (Ystrip _ _))) as EA.
  pose proof (cells_of_strip (-(1)) 0 1 2 (strip true 0 1 P) L12 (proj1 (Ystrip _ _)) (proj2 (Ystrip _ _))) as EB.
  pose proof (cells_of_strip (-(1)) 0 1 2 (strip true 1 2 P) L12 (proj1 (Ystrip _ _)) (proj2 (Ystrip _ _))) as EC.
  unfold nine. cbn [map fold_right].
  rewrite (clipped_translate P (-1) (-1) 1 2 1 2) by reflexivity.
  rewrite (clipped_translate P (-1) 0 1 2 0 1) by reflexivity.
  rewrite (clipped_translate P (-1) 1 1 2 (-(1)) 0) by reflexivity.
  rewrite (clipped_translate P 0 (-1) 0 1 1 2) by reflexivity.
  rewrite (clipped_translate P 0 0 0 1 0 1) by reflexivity.
  rewrite (clipped_translate P 0 1 0 1 (-(1)) 0) by reflexivity.
  rewrite (clipped_translate P 1 (-1) (-(1)) 0 1 2) by reflexivity.
  rewrite (clipped_translate P 1 0 (-(1)) 0 0 1) by reflexivity.
  rewrite (clipped_translate P 1 1 (-(1)) 0 (-(1)) 0) by reflexivity.
  unfold cell_clip. unfold strip in *. lra.
Qed.

(* ---------- a translate strictly beyond a cell line has clipped area 0 ---------- *)
Lemma clip_nil (x : bool) (v : Q) (ge : bool) : sh_clip1 x v ge [] = [].
Proof. reflexivity. Qed.

Lemma clipped_zero_x_hi (Q0 : polygon) : Forall (fun p => 1 < px p) Q0 -> clipped_area2 Q0 == 0.
Proof.
  intro H. unfold clipped_area2, clip_polygon.
  rewrite (sh_clip1_all_in true 0 true Q0).
  - rewrite (sh_clip1_all_out true 1 false Q0); [reflexivity|].
    eapply Forall_impl'; [|exact H]. intros a Ha. apply hp_out_le. exact Ha.
  - eapply Forall_impl'; [|exact H]. intros a Ha. cbv beta in Ha. apply hp_in_ge. unfold coord. lra.
Qed.
Lemma clipped_zero_x_lo (Q0 : polygon) : Forall (fun p => px p < 0) Q0 -> clipped_area2 Q0 == 0.
Proof.
  intro H. unfold clipped_area2, clip_polygon.
  rewrite (sh_clip1_all_out true 0 true Q0); [reflexivity|].
  eapply Forall_impl'; [|exact H]. intros a Ha. apply hp_out_ge. exact Ha.
Qed.
Lemma clipped_zero_y_hi (Q0 : polygon) : Forall (fun p => 1 < py p) Q0 -> clipped_area2 Q0 == 0.
Proof.
  intro H. unfold clipped_area2, clip_polygon.
  set (R := sh_clip1 true 1 false (sh_clip1 true 0 true Q0)).
  assert (HR : Forall (fun p => 1 < coord false p) R).
  { apply (sh_clip1_Forall _ true 1 false _ (seg_closed_gt false 1)), (sh_clip1_Forall _ true 0 true _ (seg_closed_gt false 1)). exact H. }
  rewrite (sh_clip1_all_in false 0 true R).
  - rewrite (sh_clip1_all_out false 1 false R); [reflexivity|].
    eapply Forall_impl'; [|exact HR]. intros a Ha. apply hp_out_le. exact Ha.
  - eapply Forall_impl'; [|exact HR]. intros a Ha. cbv beta in Ha. apply hp_in_ge. lra.
Qed.
Lemma clipped_zero_y_lo (Q0 : polygon) : Forall (fun p => py p < 0) Q0 -> clipped_area2 Q0 == 0.
Proof.
  intro H. unfold clipped_area2, clip_polygon.
  set (R := sh_clip1 true 1 false (sh_clip1 true 0 true Q0)).
  assert (HR : Forall (fun p => coord false p < 0) R).
  { apply (sh_clip1_Forall _ true 1 false _ (seg_closed_lt false 0)), (sh_clip1_Forall _ true 0 true _ (seg_closed_lt false 0)). exact H. }
  rewrite (sh_clip1_all_out false 0 true R); [reflexivity|].
  eapply Forall_impl'; [|exact HR]. intros a Ha. apply hp_out_ge. exact Ha.
Qed.
