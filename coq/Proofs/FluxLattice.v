(* Proofs/FluxLattice.v — bridge between C01's lemmas about the face walk (Proofs/LatticeFacts.v)
   and the boolean hypotheses of the C05 theorems (Proofs/FluxFacts.v): on a lattice without
   self-loops every plaquette of the model is a consistent closed walk, hence gauge invariance
   holds for the model's plaquettes without side condition. *)
From Coq Require Import List ZArith Bool Arith Lia.
From Koala Require Import Model.Lattice Model.Flux Proofs.LatticeFacts Proofs.FluxFacts.
Import ListNotations.
Open Scope Z_scope.

Lemma walk_ok_chain_ok : forall L w vend,
  good L -> (forall s, In s w -> step_ok L s) -> walk_ok L w vend -> chain_ok L w vend = true.
Proof.
  intros L w vend HG. induction w as [|s r IH]; intros Hok Hw; [reflexivity|].
  cbn [walk_ok] in Hw. destruct Hw as (Ht & Hh & Hr).
  cbn [chain_ok]. rewrite IH; [|intros x Hx; apply Hok; now right|exact Hr].
  rewrite andb_true_r.
  change (step_dart s) with (sdart s). unfold step_vert.
  assert (Hv : valid_dart L (sdart s)) by (apply (Hok s); now left).
  assert (Hne : dtail L (sdart s) <> dhead L (sdart s)).
  { unfold dtail, dhead. destruct (edge_at L (fst (sdart s))) as [j k] eqn:E.
    destruct (good_edge L _ j k HG Hv E) as (_ & _ & Hjk). destruct (snd (sdart s)); congruence. }
  apply Nat.eqb_neq in Hne. rewrite Hne.
  rewrite <- Ht, Nat.eqb_refl. cbn [negb andb].
  apply Nat.eqb_eq. rewrite Hh. destruct r; reflexivity.
Qed.

Lemma orbit_walk_walk_consistent : forall L w,
  good L -> orbit_walk L w -> walk_consistent L w = true.
Proof.
  intros L w HG HO. pose proof (orbit_walk_consistent L w HG HO) as Hw.
  destruct w as [|s r]; [reflexivity|].
  unfold walk_consistent. apply walk_ok_chain_ok; [exact HG|apply (ow_ok _ _ HO)|exact Hw].
Qed.

Lemma model_plaquette_consistent : forall L ps p,
  good L -> find_all_plaquettes L = Some ps -> In p ps -> plaq_consistent L p = true.
Proof.
  intros L ps p HG Hf Hin.
  destruct (plaquettes_spec L HG) as (fs & Ea & Ef & _ & _).
  rewrite Ef in Hf. injection Hf as <-.
  destruct (plaquette_closed_walk L fs p HG Ea Hin) as (w & -> & HO & _).
  unfold plaq_consistent. apply andb_true_iff. split.
  - unfold plaq_shape. cbn [mk_plaquette p_verts p_edges p_dirs].
    unfold walk_verts, walk_edges, walk_dirs. rewrite !map_length, !Nat.eqb_refl. reflexivity.
  - rewrite plaq_walk_mk. now apply orbit_walk_walk_consistent.
Qed.

(* gauge invariance for the plaquettes of the model, no side condition left *)
Lemma model_gauge_invariant : forall L ps p v u,
  wf_lattice L = true -> no_self_loops L = true ->
  find_all_plaquettes L = Some ps -> In p ps ->
  flux_real (gauge L v u) p = flux_real u p /\ flux_cplx (gauge L v u) p = flux_cplx u p.
Proof.
  intros L ps p v u Hwf Hnl Hf Hin. apply plaq_gauge_invariant_both.
  apply (model_plaquette_consistent L ps p (conj Hwf Hnl) Hf Hin).
Qed.

(* the whole flux vector *)
Lemma model_fluxes_gauge_invariant : forall L v u,
  wf_lattice L = true -> no_self_loops L = true ->
  fluxes_from_ujk L (gauge L v u) = fluxes_from_ujk L u
  /\ fluxes_from_ujk_cplx L (gauge L v u) = fluxes_from_ujk_cplx L u.
Proof.
  intros L v u Hwf Hnl. unfold fluxes_from_ujk, fluxes_from_ujk_cplx.
  destruct (find_all_plaquettes L) as [ps|] eqn:E; [|split; reflexivity].
  cbn [option_map]. unfold fluxes_real, fluxes_cplx.
  split; f_equal; apply map_ext_in; intros p Hp;
    apply (model_gauge_invariant L ps p v u Hwf Hnl E Hp).
Qed.

(* on a lattice without self-loops the plaquette finder of the model never raises *)
Lemma model_plaquettes_defined : forall L,
  wf_lattice L = true -> no_self_loops L = true -> exists ps, find_all_plaquettes L = Some ps.
Proof.
  intros L Hwf Hnl. destruct (plaquettes_spec L (conj Hwf Hnl)) as (fs & _ & Ef & _).
  eexists. exact Ef.
Qed.

(* global parity for the plaquettes of the model: C01 gives "no directed edge in two plaquettes"
   and "plaquettes use only directed edges of the lattice", so closedness reduces to
   "every directed edge lies in some plaquette" *)
Lemma model_global_parity : forall L ps u,
  wf_lattice L = true -> no_self_loops L = true ->
  find_all_plaquettes L = Some ps ->
  (forall d, In d (all_darts L) -> In d (flat_map Flux.plaq_darts ps)) ->
  (forall e, (e < nE L)%nat -> is_pm1 (bond u e)) ->
  zprod (fluxes_real u ps) = (-1) ^ Z.of_nat (nE L).
Proof.
  intros L ps u Hwf Hnl Hf Hcov Hu.
  assert (HG : good L) by (split; assumption).
  destruct (plaquettes_spec L HG) as (fs & Ea & Ef & Hnd & _).
  rewrite Ef in Hf. injection Hf as <-.
  apply global_parity_perm; [|exact Hu].
  apply Permutation.NoDup_Permutation; [exact Hnd|apply NoDup_all_darts|].
  intros d. split; [|apply Hcov].
  intros Hd. apply in_flat_map in Hd. destruct Hd as (p & Hp & Hd).
  destruct (plaquette_closed_walk L fs p HG Ea Hp) as (w & -> & HO & _).
  change (Flux.plaq_darts (mk_plaquette L w)) with (LatticeFacts.plaq_darts (mk_plaquette L w)) in Hd.
  rewrite plaq_darts_mk, walk_darts_sdart in Hd.
  apply in_map_iff in Hd. destruct Hd as (s & <- & Hs).
  apply LatticeFacts.in_all_darts. apply (ow_ok _ _ HO s Hs).
Qed.
