(* Proofs/TruncateFacesGeom.v — lattice-independent geometry and list facts used by the proof that the
   polygon created by vertices_to_polygon is a face (C13, clause "the new polygon as an extra plaquette").
     1. the comparator ang_lt of the rotation system: asymmetry, sortedness of sort_desc (own copies, so that
        this file only depends on Model/Lattice.v);
     2. three_cycle: a row of three edges sorted by sort_desc whose keys a, b, c satisfy a x b < 0 and
        c x a < 0 (b is clockwise of a by less than pi, a clockwise of c by less than pi) is a cyclic rotation
        of [a; b; c]: the successor of a is b, of b is c, of c is a;
     3. cyclic sums, cumulative sums, and the shoelace area area2: translation invariance, positivity.
   No lattice, no computation on examples. *)
From Coq Require Import List ZArith Bool Arith Lia ZifyBool Permutation Sorted.
From Koala Require Import Model.Lattice.
Import ListNotations.
Open Scope Z_scope.

(* ================================================================== 1. the comparator *)
Lemma tf_half_01 v : half v = 0 \/ half v = 1.
Proof. unfold half. destruct (_ || _); auto. Qed.

Lemma tf_half_0 x y : half (x, y) = 0 -> x < 0 \/ (x = 0 /\ 0 < y).
Proof.
  unfold half. cbn [fst snd].
  destruct (Z.ltb_spec 0 (- x)), (Z.eqb_spec (- x) 0), (Z.ltb_spec 0 y); simpl; lia.
Qed.

Lemma tf_half_1 x y : half (x, y) = 1 -> 0 < x \/ (x = 0 /\ y <= 0).
Proof.
  unfold half. cbn [fst snd].
  destruct (Z.ltb_spec 0 (- x)), (Z.eqb_spec (- x) 0), (Z.ltb_spec 0 y); simpl; lia.
Qed.

Lemma tf_ang_lt_asym v w : ang_lt v w = true -> ang_lt w v = false.
Proof.
  unfold ang_lt.
  destruct (tf_half_01 v) as [Hv|Hv], (tf_half_01 w) as [Hw|Hw]; rewrite Hv, Hw; simpl; lia.
Qed.

(* "alpha a >= alpha b" *)
Definition tf_desc_ok (key : nat -> vec) (a b : nat) : Prop := ang_lt (key a) (key b) = false.

Lemma tf_insert_desc_hdrel key x y r :
  HdRel (tf_desc_ok key) y r -> tf_desc_ok key y x -> HdRel (tf_desc_ok key) y (insert_desc key x r).
Proof.
  intros H Hyx. destruct r as [|z r']; cbn [insert_desc]; [constructor; assumption|].
  destruct (ang_lt (key z) (key x)); constructor; [assumption|]. inversion H; assumption.
Qed.

Lemma tf_insert_desc_sorted key x l :
  Sorted (tf_desc_ok key) l -> Sorted (tf_desc_ok key) (insert_desc key x l).
Proof.
  induction l as [|y r IH]; intros Hs; cbn [insert_desc].
  - repeat constructor.
  - inversion Hs as [|? ? Hr Hd]; subst.
    destruct (ang_lt (key y) (key x)) eqn:E.
    + constructor; [assumption|]. constructor. unfold tf_desc_ok. apply tf_ang_lt_asym. assumption.
    + constructor; [apply IH; assumption|]. apply tf_insert_desc_hdrel; assumption.
Qed.

Lemma tf_sort_desc_sorted key l : Sorted (tf_desc_ok key) (sort_desc key l).
Proof.
  unfold sort_desc.
  assert (G : forall acc, Sorted (tf_desc_ok key) acc ->
                          Sorted (tf_desc_ok key) (fold_left (fun acc x => insert_desc key x acc) l acc)).
  { induction l as [|x r IH]; intros acc Ha; cbn [fold_left]; [assumption|].
    apply IH, tf_insert_desc_sorted, Ha. }
  apply G. constructor.
Qed.

Lemma tf_sorted_adj_sorted L v : Sorted (tf_desc_ok (outvec L v)) (sorted_adj L v).
Proof. apply tf_sort_desc_sorted. Qed.

(* not (alpha v < alpha w) although w is anticlockwise of v by less than pi: v lies in the lower half
   (alpha >= pi) and w in the upper half (alpha < pi) *)
Lemma ang_ge_cross_pos v w :
  ang_lt v w = false -> 0 < vcross v w -> half v = 1 /\ half w = 0.
Proof.
  unfold ang_lt, vcross. destruct v as [xv yv], w as [xw yw]. cbn [fst snd].
  destruct (tf_half_01 (xv, yv)) as [Hv|Hv], (tf_half_01 (xw, yw)) as [Hw|Hw]; rewrite Hv, Hw; simpl; lia.
Qed.

Lemma ang_ge_cross_same v w :
  ang_lt v w = false -> half v = half w -> vcross v w <= 0.
Proof.
  unfold ang_lt, vcross. destruct v as [xv yv], w as [xw yw]. cbn [fst snd].
  intros H E. rewrite E in H. lia.
Qed.

(* ================================================================== 2. three edges at a corner *)
(* a, b, c with a x b < 0 and c x a < 0: going clockwise one meets a, b, c, a, ... .  None of the three lists
   sorted by descending alpha that are rotations of [b; a; c] can occur.  The algebra: the identity
   (a x b) c + (b x c) a + (c x a) b = 0, read on the first coordinate. *)
Lemma no_bad_order a b c : vcross a b < 0 -> vcross c a < 0 ->
  (ang_lt b a = false -> ang_lt a c = false -> False) /\
  (ang_lt a c = false -> ang_lt c b = false -> False) /\
  (ang_lt c b = false -> ang_lt b a = false -> False).
Proof.
  intros Hab Hca.
  assert (Hba : 0 < vcross b a) by (unfold vcross in *; lia).
  assert (Hac : 0 < vcross a c) by (unfold vcross in *; lia).
  split; [|split].
  - intros H1 H2. destruct (ang_ge_cross_pos _ _ H1 Hba), (ang_ge_cross_pos _ _ H2 Hac). lia.
  - intros H1 H2. destruct (ang_ge_cross_pos _ _ H1 Hac) as [Ha Hc].
    assert (Hb : half b = 0).
    { destruct (tf_half_01 b) as [E|E]; [exact E|]. exfalso. revert H2. unfold ang_lt. rewrite Hc, E. simpl. discriminate. }
    pose proof (ang_ge_cross_same _ _ H2 (eq_trans Hc (eq_sym Hb))) as Hcb.
    destruct a as [xa ya], b as [xb yb], c as [xc yc].
    apply tf_half_1 in Ha. apply tf_half_0 in Hb, Hc. unfold vcross in *. cbn [fst snd] in *.
    assert (I : (xa * yb - ya * xb) * (- xc) + (xb * yc - yb * xc) * (- xa) + (xc * ya - yc * xa) * (- xb) = 0) by ring.
    nia.
  - intros H1 H2. destruct (ang_ge_cross_pos _ _ H2 Hba) as [Hb Ha].
    assert (Hc : half c = 1).
    { destruct (tf_half_01 c) as [E|E]; [|exact E]. exfalso. revert H1. unfold ang_lt. rewrite Hb, E. simpl. discriminate. }
    pose proof (ang_ge_cross_same _ _ H1 (eq_trans Hc (eq_sym Hb))) as Hcb.
    destruct a as [xa ya], b as [xb yb], c as [xc yc].
    apply tf_half_0 in Ha. apply tf_half_1 in Hb, Hc. unfold vcross in *. cbn [fst snd] in *.
    assert (I : (xa * yb - ya * xb) * (- xc) + (xb * yc - yb * xc) * (- xa) + (xc * ya - yc * xa) * (- xb) = 0) by ring.
    nia.
Qed.

Lemma succ_in_3 (x y z : nat) : x <> y -> y <> z -> x <> z ->
  succ_in [x; y; z] x = Some y /\ succ_in [x; y; z] y = Some z /\ succ_in [x; y; z] z = Some x.
Proof.
  intros Hxy Hyz Hxz. unfold succ_in, index_of.
  rewrite !Nat.eqb_refl.
  replace (x =? y)%nat with false by (symmetry; apply Nat.eqb_neq; exact Hxy).
  replace (x =? z)%nat with false by (symmetry; apply Nat.eqb_neq; exact Hxz).
  replace (y =? z)%nat with false by (symmetry; apply Nat.eqb_neq; exact Hyz).
  cbn. auto.
Qed.

Lemma sorted_3 {A} (R : A -> A -> Prop) x y z : Sorted R [x; y; z] -> R x y /\ R y z.
Proof.
  intros H. inversion H as [|? ? Ha Hda]; subst. inversion Hda; subst.
  inversion Ha as [|? ? Hb Hdb]; subst. inversion Hdb; subst. auto.
Qed.

Lemma three_cycle (key : nat -> vec) (A B C : nat) (row : list nat) :
  Permutation [A; B; C] row -> NoDup [A; B; C] -> Sorted (tf_desc_ok key) row ->
  vcross (key A) (key B) < 0 -> vcross (key C) (key A) < 0 ->
  succ_in row A = Some B /\ succ_in row B = Some C /\ succ_in row C = Some A.
Proof.
  intros HP Hnd Hs Hab Hca.
  assert (Hne : A <> B /\ B <> C /\ A <> C).
  { inversion Hnd as [|? ? H1 Hnd1]; subst. inversion Hnd1 as [|? ? H2 _]; subst.
    cbn [In] in H1, H2. repeat split; intros E; subst; tauto. }
  destruct Hne as (NAB & NBC & NAC).
  pose proof (Permutation_length HP) as Hlen.
  destruct row as [|x [|y [|z [|]]]]; try discriminate.
  assert (HA : In A [x; y; z]) by (apply (Permutation_in _ HP); cbn; auto).
  assert (HB : In B [x; y; z]) by (apply (Permutation_in _ HP); cbn; auto).
  assert (HC : In C [x; y; z]) by (apply (Permutation_in _ HP); cbn; auto).
  destruct (sorted_3 _ _ _ _ Hs) as [S1 S2]. unfold tf_desc_ok in S1, S2.
  destruct (no_bad_order (key A) (key B) (key C) Hab Hca) as (K1 & K2 & K3).
  cbn [In] in HA, HB, HC.
  destruct HA as [HA|[HA|[HA|[]]]]; destruct HB as [HB|[HB|[HB|[]]]]; destruct HC as [HC|[HC|[HC|[]]]];
    subst; try congruence.
  - (* [A; B; C] *) apply succ_in_3; assumption.
  - (* [A; C; B] *) exfalso. apply K2; assumption.
  - (* [B; A; C] *) exfalso. apply K1; assumption.
  - (* [C; A; B] *)
    destruct (succ_in_3 C A B) as (E1 & E2 & E3); auto.
  - (* [B; C; A] *)
    destruct (succ_in_3 B C A) as (E1 & E2 & E3); auto.
  - (* [C; B; A] *) exfalso. apply K3; assumption.
Qed.

(* ================================================================== 3. sums *)
Definition zsum (l : list Z) : Z := fold_right Z.add 0 l.

Lemma zsum_pos l : l <> [] -> (forall x, In x l -> 0 < x) -> 0 < zsum l.
Proof.
  induction l as [|a l IH]; intros Hne Hp; [contradiction|]. cbn [zsum fold_right].
  destruct l as [|b l].
  - cbn. specialize (Hp a (or_introl eq_refl)). lia.
  - assert (0 < zsum (b :: l)) by (apply IH; [discriminate|intros x Hx; apply Hp; right; exact Hx]).
    specialize (Hp a (or_introl eq_refl)). unfold zsum in *. lia.
Qed.

Lemma tf_vsum_cons a l : vsum (a :: l) = vadd a (vsum l).
Proof. reflexivity. Qed.

(* telescoping *)
Lemma vsum_tele (z : nat -> vec) a n :
  vsum (map (fun t => vsub (z (S t)) (z t)) (seq a n)) = vsub (z (a + n)%nat) (z a).
Proof.
  revert a; induction n as [|n IH]; intros a; cbn [seq map].
  - rewrite Nat.add_0_r. unfold vsum, vsub, vzero. cbn. f_equal; ring.
  - rewrite tf_vsum_cons, IH. replace (S a + n)%nat with (a + S n)%nat by lia.
    unfold vadd, vsub. cbn [fst snd]. f_equal; ring.
Qed.

Lemma cumsum_tele (z : nat -> vec) p a n :
  cumsum_from p (map (fun t => vsub (z (S t)) (z t)) (seq a n)) =
  map (fun t => vadd (vsub p (z a)) (z (S t))) (seq a n).
Proof.
  revert p a; induction n as [|n IH]; intros p a; cbn [seq map cumsum_from]; [reflexivity|].
  rewrite IH. f_equal.
  - unfold vadd, vsub. cbn [fst snd]. f_equal; ring.
  - apply map_ext. intros t. unfold vadd, vsub. cbn [fst snd]. f_equal; ring.
Qed.

(* ---------- rotl ---------- *)
Lemma rotl_length {A} (l : list A) : length (rotl l) = length l.
Proof. destruct l as [|x r]; [reflexivity|]. cbn [rotl]. rewrite app_length. cbn. lia. Qed.

Lemma rotl_map {A B} (f : A -> B) l : rotl (map f l) = map f (rotl l).
Proof. destruct l as [|x r]; [reflexivity|]. cbn [rotl map]. rewrite map_app. reflexivity. Qed.

Lemma nth_rotl {A} (l : list A) i d :
  (i < length l)%nat -> nth i (rotl l) d = nth (Nat.modulo (S i) (length l)) l d.
Proof.
  destruct l as [|x r]; [cbn; lia|]. cbn [rotl length]. intros Hi.
  destruct (Nat.eq_dec i (length r)) as [E|E].
  - subst i. rewrite Nat.mod_same by lia. rewrite app_nth2 by lia. rewrite Nat.sub_diag. reflexivity.
  - rewrite Nat.mod_small by lia. rewrite app_nth1 by lia. reflexivity.
Qed.

Lemma combine_map2 {A B} (f : A -> B) l l' :
  combine (map f l) (map f l') = map (fun pq => (f (fst pq), f (snd pq))) (combine l l').
Proof.
  revert l'; induction l as [|a l IH]; intros [|b l']; cbn [map combine]; try reflexivity.
  rewrite IH. reflexivity.
Qed.

(* the pairs (p_i, p_{i+1}) of a closed polygon *)
Definition cyc_pairs (l : list vec) : list (vec * vec) := combine l (rotl l).

Lemma cyc_pairs_map f l :
  cyc_pairs (map f l) = map (fun pq => (f (fst pq), f (snd pq))) (cyc_pairs l).
Proof. unfold cyc_pairs. rewrite rotl_map. apply combine_map2. Qed.

Lemma cyc_pairs_length l : length (cyc_pairs l) = length l.
Proof. unfold cyc_pairs. rewrite combine_length, rotl_length. lia. Qed.

Lemma in_cyc_pairs l a b :
  In (a, b) (cyc_pairs l) ->
  exists i, (i < length l)%nat /\ a = nth i l vzero /\ b = nth (Nat.modulo (S i) (length l)) l vzero.
Proof.
  intros Hin. apply (In_nth _ _ (vzero, vzero)) in Hin as (i & Hi & E).
  rewrite cyc_pairs_length in Hi. unfold cyc_pairs in E.
  rewrite combine_nth in E by (symmetry; apply rotl_length).
  rewrite nth_rotl in E by exact Hi. exists i. split; [exact Hi|].
  injection E as E1 E2. auto.
Qed.

Lemma area2_pairs l : area2 l = zsum (map (fun pq => vcross (fst pq) (snd pq)) (cyc_pairs l)).
Proof. reflexivity. Qed.

(* a cyclic sum of differences vanishes *)
Lemma tele_pairs (h : vec -> Z) x r e :
  zsum (map (fun pq : vec * vec => h (snd pq) - h (fst pq)) (combine (x :: r) (r ++ [e]))) = h e - h x.
Proof.
  revert x; induction r as [|y r IH]; intros x.
  - cbn. ring.
  - change (combine (x :: y :: r) ((y :: r) ++ [e])) with ((x, y) :: combine (y :: r) (r ++ [e])).
    cbn [map zsum fold_right]. fold (zsum (map (fun pq : vec * vec => h (snd pq) - h (fst pq)) (combine (y :: r) (r ++ [e])))).
    rewrite IH. cbn [fst snd]. ring.
Qed.

Lemma cyc_diff_zero (h : vec -> Z) l :
  zsum (map (fun pq : vec * vec => h (snd pq) - h (fst pq)) (cyc_pairs l)) = 0.
Proof.
  destruct l as [|x r]; [reflexivity|]. unfold cyc_pairs. cbn [rotl]. rewrite tele_pairs. ring.
Qed.

Lemma zsum_map_add {A} (f g : A -> Z) l :
  zsum (map (fun a => f a + g a) l) = zsum (map f l) + zsum (map g l).
Proof.
  induction l as [|a l IH]; [reflexivity|]. cbn [map zsum fold_right] in *. unfold zsum in *. rewrite IH. ring.
Qed.

(* the shoelace sum of a closed polygon does not depend on the origin *)
Lemma area2_translate T l : area2 (map (vadd T) l) = area2 l.
Proof.
  rewrite !area2_pairs, cyc_pairs_map, map_map. cbn [fst snd].
  rewrite (map_ext _ (fun pq : vec * vec => vcross (fst pq) (snd pq) + (vcross T (snd pq) - vcross T (fst pq)))).
  - rewrite zsum_map_add. rewrite (cyc_diff_zero (vcross T)). ring.
  - intros [a b]. unfold vcross, vadd. cbn [fst snd]. ring.
Qed.

Lemma area2_pos l :
  l <> [] ->
  (forall i, (i < length l)%nat ->
     0 < vcross (nth i l vzero) (nth (Nat.modulo (S i) (length l)) l vzero)) ->
  0 < area2 l.
Proof.
  intros Hne Hp. rewrite area2_pairs. apply zsum_pos.
  - intros E. apply map_eq_nil in E. apply (f_equal (@length _)) in E. rewrite cyc_pairs_length in E.
    destruct l; [contradiction|discriminate].
  - intros x Hx. apply in_map_iff in Hx as ([a b] & <- & Hin). cbn [fst snd].
    apply in_cyc_pairs in Hin as (i & Hi & -> & ->). apply Hp, Hi.
Qed.
