(* Proofs/BlochCompleteAlg.v — the model-independent MathComp algebra behind C08 "bloch_complete":
     big_divmod       : a sum/product over j < N*m  =  the double sum over (j %/ m, j %% m)
     det_bdiag, char_poly_bdiag : determinant / characteristic polynomial of a block-diagonal matrix
                        (N blocks of size m, tabulated from an entry function) = product over the blocks
     geom_sum_root, fourier_orthogonality : sum_{k<n} (z^-k)^a (z^k)^b = n * delta_{ab} for a primitive
                        n-th root of unity z (discrete Fourier matrix times its conjugate = n * 1)
     char_poly_similar: P Q = 1 -> char_poly (P M Q) = char_poly M
     root_prod_ord    : x is a root of a finite product iff it is a root of one factor
   No model, no axioms.  Used by Proofs/BlochComplete.v. *)
From mathcomp Require Import all_ssreflect all_algebra.
Set Implicit Arguments. Unset Strict Implicit. Unset Printing Implicit Defensive.
Import GRing.Theory.
Local Open Scope ring_scope.

(* ------------------------------------------------------------------ re-indexing j < N*m by (j %/ m, j %% m) *)
Section BigDivMod.
Variables (T : Type) (idx : T) (op : Monoid.com_law idx).

Lemma big_divmod (N m : nat) (G : nat -> nat -> T) :
  \big[op/idx]_(j < N * m) G (j %/ m)%N (j %% m)%N = \big[op/idx]_(k < N) \big[op/idx]_(s < m) G k s.
Proof.
case: m => [|m].
  by rewrite muln0 big_ord0 big1 // => k _; rewrite big_ord0.
elim: N => [|N IH]; first by rewrite mul0n !big_ord0.
rewrite -(big_mkord xpredT (fun j => G (j %/ m.+1)%N (j %% m.+1)%N)).
rewrite mulSn addnC (@big_cat_nat _ _ _ (N * m.+1)) ?leq_addr //=.
rewrite big_mkord IH big_ord_recr /=; congr (op _ _).
rewrite -{1}[(N * m.+1)%N]add0n big_addn addKn big_mkord.
apply: eq_bigr => i _.
by rewrite addnC divnMDl // modnMDl divn_small // modn_small // addn0.
Qed.

(* the same for j < nx*ny read as j = ky*nx + kx *)
Lemma big_divmodC (nx ny : nat) (G : nat -> nat -> T) :
  \big[op/idx]_(j < nx * ny) G (j %% nx)%N (j %/ nx)%N
  = \big[op/idx]_(kx < nx) \big[op/idx]_(ky < ny) G kx ky.
Proof.
rewrite -(big_mkord xpredT (fun j => G (j %% nx)%N (j %/ nx)%N)) mulnC big_mkord.
by rewrite (big_divmod ny nx (fun ky kx => G kx ky)) exchange_big.
Qed.

End BigDivMod.

(* similar matrices (P Q = 1) have the same characteristic polynomial (as in Proofs/HamMx.v) *)
Lemma char_poly_similar (R : comRingType) n (P Q M : 'M[R]_n) :
  P *m Q = 1%:M -> char_poly (P *m M *m Q) = char_poly M.
Proof.
move=> PQ; rewrite /char_poly.
have -> : char_poly_mx (P *m M *m Q)
          = map_mx polyC P *m char_poly_mx M *m map_mx polyC Q.
  rewrite /char_poly_mx !map_mxM /= mulmxBr mulmxBl -!mulmxA; congr (_ - _).
  by rewrite -scalar_mxC mulmxA -map_mxM PQ map_scalar_mx /= mul1mx.
by rewrite !det_mulmx mulrAC -det_mulmx -map_mxM PQ map_scalar_mx /= det1 mul1r.
Qed.

(* ------------------------------------------------------------------ block-diagonal matrices *)
Section BlockDiag.
Variable R : comRingType.
Variable m : nat.

(* N diagonal blocks of size m; block k has the entries B k a b (a, b < m); index i = k*m + a *)
Definition bdiag N (B : nat -> nat -> nat -> R) : 'M[R]_(N * m) :=
  \matrix_(i, j) if (i %/ m == j %/ m)%N then B (i %/ m)%N (i %% m)%N (j %% m)%N else 0.
Definition blk (B : nat -> nat -> nat -> R) (k : nat) : 'M[R]_m := \matrix_(a, b) B k a b.

Lemma bdiagS N B :
  (bdiag N.+1 B : 'M_(m + N * m)) = block_mx (blk B 0) 0 0 (bdiag N (fun k => B k.+1)).
Proof.
rewrite -[LHS]submxK; congr block_mx; apply/matrixP=> a b; rewrite !mxE /=.
- by rewrite !divn_small // !modn_small.
- have m0 : (0 < m)%N by case: (m) a => [[]|].
  by rewrite divn_small // divnDl ?dvdnn // divnn m0.
- have m0 : (0 < m)%N by case: (m) b => [[]|].
  by rewrite [(b %/ m)%N]divn_small // divnDl ?dvdnn // divnn m0.
- have m0 : (0 < m)%N by case: (m) a => [|//] [] ?; rewrite muln0.
  by rewrite !divnDl ?dvdnn // divnn m0 !add1n eqSS !modnDl.
Qed.

Lemma det_bdiag N B : \det (bdiag N B) = \prod_(k < N) \det (blk B k).
Proof.
elim: N B => [|N IH] B; first by rewrite big_ord0; exact: det_mx00.
have -> : \det (bdiag N.+1 B) = \det (blk B 0) * \det (bdiag N (fun k => B k.+1)).
  by rewrite -(det_ublock (blk B 0) 0) -bdiagS.
by rewrite IH big_ord_recl.
Qed.

End BlockDiag.

Lemma char_poly_bdiag (R : comRingType) m N (B : nat -> nat -> nat -> R) :
  char_poly (bdiag m N B) = \prod_(k < N) char_poly (blk m B k).
Proof.
rewrite /char_poly.
have -> : char_poly_mx (bdiag m N B)
          = bdiag m N (fun k a b => 'X *+ (a == b) - (B k a b)%:P).
  apply/matrixP=> i j; rewrite !mxE -val_eqE /=.
  have [q|nq] := altP (@eqP _ (i %/ m)%N (j %/ m)%N).
    congr (_ *+ _ - _); rewrite {1}(divn_eq i m) {1}(divn_eq j m) q.
    by rewrite eqn_add2l.
  have -> : (i == j :> nat) = false by apply: contra_neqF nq => /eqP ->.
  by rewrite mulr0n polyC0 subr0.
rewrite det_bdiag; apply: eq_bigr => k _; congr (\det _).
by apply/matrixP=> a b; rewrite !mxE.
Qed.

(* ------------------------------------------------------------------ discrete Fourier orthogonality *)
Section Fourier.
Variable F : fieldType.

(* geometric sum of an n-th root of unity *)
Lemma geom_sum_root n (q : F) : q ^+ n = 1 ->
  \sum_(k < n) q ^+ k = if q == 1 then n%:R else 0.
Proof.
move=> qn; case: eqP => [->|/eqP q1].
  by rewrite (eq_bigr (fun _ => 1)) ?sumr_const ?card_ord // => k _; rewrite expr1n.
apply: (@mulfI _ (q - 1)); first by rewrite subr_eq0.
by rewrite -subrX1 qn subrr mulr0.
Qed.

(* row a of the DFT matrix with inverse phases against row b of the DFT matrix:
   sum_k (z^k)^{-a} (z^k)^{b} = n * delta_{ab} *)
Lemma fourier_orthogonality n (z : F) (a b : nat) :
  n.-primitive_root z -> (a < n)%N -> (b < n)%N ->
  \sum_(k < n) ((z ^+ k)^-1) ^+ a * (z ^+ k) ^+ b = if a == b then n%:R else 0.
Proof.
move=> zn an bn.
have z0 : z != 0.
  apply/eqP=> z0; have := prim_expr_order zn.
  by rewrite z0 expr0n eqn0Ngt (prim_order_gt0 zn) /=; apply/eqP; rewrite eq_sym oner_eq0.
pose q := (z ^+ a)^-1 * z ^+ b.
rewrite (eq_bigr (fun k : 'I_n => q ^+ k)); last first.
  by move=> k _; rewrite /q exprMn !exprVn -!exprM [(a * k)%N]mulnC [(b * k)%N]mulnC.
rewrite geom_sum_root; last first.
  by rewrite /q exprMn exprVn -!exprM ![(_ * n)%N]mulnC !exprM (prim_expr_order zn) !expr1n invr1 mulr1.
congr (if _ then _ else _).
rewrite /q -(inj_eq (mulfI (expf_neq0 a z0))) mulVKf ?expf_neq0 // mulr1.
by rewrite (eq_prim_root_expr zn) !modn_small // eq_sym.
Qed.

End Fourier.

(* ------------------------------------------------------------------ roots of a finite product *)
Lemma root_prod_ord (R : idomainType) N (P : 'I_N -> {poly R}) (x : R) :
  root (\prod_(k < N) P k) x = [exists k, root (P k) x].
Proof.
have h (s : seq 'I_N) : root (\prod_(k <- s) P k) x = has (fun k => root (P k) x) s.
  elim: s => [|k s IH]; first by rewrite big_nil (negPf (root1 x)).
  by rewrite big_cons rootM IH.
rewrite h; apply/hasP/existsP => [[k _ rk]|[k rk]]; first by exists k.
by exists k => //; rewrite mem_index_enum.
Qed.

(* ------------------------------------------------------------------ concrete primitive roots (for the
   non-vacuity examples): -1 is a primitive 2nd root and i a primitive 4th root of unity in any
   numClosedFieldType (e.g. algC) *)
Section ConcreteRoots.
Import Num.Theory.
Variable C : numClosedFieldType.

Lemma neg1_neq1 : (-1 != 1 :> C).
Proof. by rewrite -subr_eq0 -opprD oppr_eq0 -mulr2n pnatr_eq0. Qed.

Lemma prim_root_neg1 : 2.-primitive_root (-1 : C).
Proof.
have e2 : (-1 : C) ^+ 2 = 1 by rewrite sqrrN expr1n.
case: (prim_order_exists (isT : (0 < 2)%N) e2) => m mi md.
have := @dvdn_leq m 2 isT md; case: m mi md => [|[|[|m]]] // mi _ _.
by have := prim_expr_order mi; rewrite expr1 => /eqP; rewrite (negPf neg1_neq1).
Qed.

Lemma prim_root_i : 4.-primitive_root ('i : C).
Proof.
have e4 : ('i : C) ^+ 4 = 1 by rewrite -[4%N]/(2 * 2)%N exprM sqrCi sqrrN expr1n.
case: (prim_order_exists (isT : (0 < 4)%N) e4) => m mi md.
have := @dvdn_leq m 4 isT md; case: m mi md => [|[|[|[|[|m]]]]] // mi _ _.
- have := sqrCi C; rewrite expr2; have := prim_expr_order mi; rewrite expr1 => ->.
  by rewrite mulr1 => /eqP; rewrite eq_sym (negPf neg1_neq1).
- by have := prim_expr_order mi; rewrite sqrCi => /eqP; rewrite (negPf neg1_neq1).
Qed.

End ConcreteRoots.
