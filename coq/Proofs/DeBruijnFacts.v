(* Proofs/DeBruijnFacts.v — the algebraic heart of the de Bruijn dual construction (Model/DeBruijn.v):
   the four dual vertices produced for the four cells touching an intersection of a line of bundle i and a line of
   bundle j form a parallelogram with sides exactly the star vectors e_i, e_j (a rhombus when |e_i| = |e_j|). *)
From Coq Require Import List ZArith Bool Arith QArith Qround Lia Lqa Qabs Qminmax.
From Koala Require Import Model.DeBruijn.
Import ListNotations.
Open Scope Q_scope.

Definition qv_eq (a b : qvec) : Prop := fst a == fst b /\ snd a == snd b.

Lemma qv_eq_refl : forall a, qv_eq a a.
Proof. intros a; split; reflexivity. Qed.
Lemma qv_eq_sym : forall a b, qv_eq a b -> qv_eq b a.
Proof. intros a b [H1 H2]; split; symmetry; assumption. Qed.
Lemma qv_eq_trans : forall a b c, qv_eq a b -> qv_eq b c -> qv_eq a c.
Proof. intros a b c [H1 H2] [H3 H4]; split; etransitivity; eassumption. Qed.

(* ---------- floor ---------- *)
Lemma Qfloor_unique : forall (x : Q) (n : Z), inject_Z n <= x -> x < inject_Z (n + 1) -> Qfloor x = n.
Proof.
  intros x n H1 H2.
  pose proof (Qfloor_le x) as F1. pose proof (Qlt_floor x) as F2.
  assert (A : inject_Z (Qfloor x) < inject_Z (n + 1)) by (eapply Qle_lt_trans; eassumption).
  assert (B : inject_Z n < inject_Z (Qfloor x + 1)) by (eapply Qle_lt_trans; eassumption).
  rewrite <- Zlt_Qlt in A, B. lia.
Qed.

Lemma Qfloor_open : forall (x : Q) (n : Z), inject_Z n < x -> x < inject_Z (n + 1) -> Qfloor x = n.
Proof. intros; apply Qfloor_unique; auto using Qlt_le_weak. Qed.

(* ---------- map_to_position is additive in the index vector ---------- *)
Lemma mtp_step : forall stars K K' i,
  length K = length stars -> length K' = length stars -> (i < length stars)%nat ->
  (forall k, (k < length stars)%nat -> nth k K' 0%Z = (nth k K 0 + (if (k =? i)%nat then 1 else 0))%Z) ->
  qv_eq (map_to_position stars K') (qv_add (map_to_position stars K) (nth i stars qv_zero)).
Proof.
  induction stars as [|e es IH]; intros K K' i HK HK' Hi Hn; [simpl in Hi; lia|].
  destruct K as [|k0 K]; [discriminate|]. destruct K' as [|k0' K']; [discriminate|].
  simpl in HK, HK'. injection HK as HK. injection HK' as HK'.
  destruct i as [|i].
  - assert (E0 : k0' = (k0 + 1)%Z) by (apply (Hn 0%nat); simpl; lia).
    assert (ER : K' = K).
    { apply nth_ext with (d := 0%Z) (d' := 0%Z); [congruence|].
      intros n Hlt. specialize (Hn (S n)). simpl in Hn. rewrite Hn by lia. lia. }
    subst. simpl. unfold qv_eq, qv_add, qv_scale; simpl. rewrite inject_Z_plus. split; ring.
  - assert (E0 : k0' = k0) by (specialize (Hn 0%nat); simpl in Hn; rewrite Hn by lia; lia).
    subst k0'.
    assert (IHH : qv_eq (map_to_position es K') (qv_add (map_to_position es K) (nth i es qv_zero))).
    { apply IH; auto; [simpl in Hi; lia|]. intros k Hk. specialize (Hn (S k)). simpl in Hn. apply Hn. lia. }
    destruct IHH as [I1 I2]. simpl. unfold qv_eq, qv_add, qv_scale in *; simpl in *. rewrite I1, I2. split; ring.
Qed.

Lemma mtp_zeros : forall stars r, forallb (fun x => (x =? 0)%Z) r = true -> qv_eq (map_to_position stars r) qv_zero.
Proof.
  induction stars as [|e es IH]; intros [|x r] H; simpl; try apply qv_eq_refl.
  simpl in H. apply andb_true_iff in H. destruct H as [Hx Hr]. apply Z.eqb_eq in Hx. subst x.
  destruct (IH r Hr) as [I1 I2]. unfold qv_eq, qv_add, qv_scale in *; simpl in *. rewrite I1, I2. split; ring.
Qed.

Lemma mtp_unit : forall D stars i s, unit_step D = Some (i, s) ->
  qv_eq (map_to_position stars D) (qv_scale (inject_Z s) (nth i stars qv_zero)) /\ (s = 1 \/ s = -1)%Z.
Proof.
  induction D as [|d r IH]; intros stars i s H; simpl in H; [discriminate|].
  destruct (d =? 0)%Z eqn:Ed.
  - apply Z.eqb_eq in Ed. subst d. destruct (unit_step r) as [[i' s']|] eqn:Er; [|discriminate].
    injection H as <- <-. destruct stars as [|e es].
    + simpl. destruct (IH [] i' s' eq_refl) as [_ Hs]. split; [|exact Hs].
      unfold qv_eq, qv_scale; destruct i'; simpl; split; ring.
    + destruct (IH es i' s' eq_refl) as [[I1 I2] Hs]. split; [|exact Hs].
      simpl. unfold qv_eq, qv_add, qv_scale in *; simpl in *. rewrite I1, I2. split; ring.
  - destruct (((d =? 1)%Z || (d =? -1)%Z) && forallb (fun x => (x =? 0)%Z) r) eqn:E; [|discriminate].
    injection H as <- <-. apply andb_true_iff in E. destruct E as [E1 E2].
    split; [|apply orb_true_iff in E1; destruct E1 as [E1|E1]; apply Z.eqb_eq in E1; auto].
    destruct stars as [|e es]; [simpl; unfold qv_eq, qv_scale; simpl; split; ring|].
    destruct (mtp_zeros es r E2) as [I1 I2].
    simpl. unfold qv_eq, qv_add, qv_scale in *; simpl in *. rewrite I1, I2. split; ring.
Qed.

Fixpoint zadd_list (a b : list Z) : list Z :=
  match a, b with
  | x :: a', y :: b' => (x + y)%Z :: zadd_list a' b'
  | _, _ => []
  end.

Lemma mtp_add : forall stars K D, length K = length D ->
  qv_eq (map_to_position stars (zadd_list K D)) (qv_add (map_to_position stars K) (map_to_position stars D)).
Proof.
  induction stars as [|e es IH]; intros [|k K] [|d D] H; simpl in *; try discriminate;
    try (unfold qv_eq, qv_add; simpl; split; ring).
  injection H as H. destruct (IH K D H) as [I1 I2].
  unfold qv_eq, qv_add, qv_scale in *; simpl in *. rewrite I1, I2, inject_Z_plus. split; ring.
Qed.

Lemma zsub_add : forall a b, length a = length b -> a = zadd_list b (zsub_list a b).
Proof.
  induction a as [|x a IH]; intros [|y b] H; simpl in *; try discriminate; auto.
  injection H as H. f_equal; [lia|auto].
Qed.
Lemma zsub_length : forall a b, length a = length b -> length (zsub_list a b) = length b.
Proof. induction a as [|x a IH]; intros [|y b] H; simpl in *; try discriminate; auto. Qed.
Lemma zlist_eqb_eq : forall a b, zlist_eqb a b = true -> a = b.
Proof.
  induction a as [|x a IH]; intros [|y b] H; simpl in *; try discriminate; auto.
  apply andb_true_iff in H. destruct H as [H1 H2]. apply Z.eqb_eq in H1. f_equal; auto.
Qed.

(* K1 = K0 + D  =>  V K1 = V K0 + V D *)
Lemma mtp_diff : forall stars K0 K1, length K1 = length K0 ->
  qv_eq (map_to_position stars K1) (qv_add (map_to_position stars K0) (map_to_position stars (zsub_list K1 K0))).
Proof.
  intros stars K0 K1 H. rewrite (zsub_add K1 K0 H) at 1. apply mtp_add. symmetry. apply zsub_length. exact H.
Qed.

(* the index-level certificate of a face is sound: the four positions form a parallelogram with sides +-e_i, +-e_j *)
Theorem quad_steps_sound : forall stars B K0 K1 K2 K3 i s j t,
  quad_steps B K0 K1 K2 K3 = Some (i, s, (j, t)) ->
  let V := map_to_position stars in
  let ei := qv_scale (inject_Z s) (nth i stars qv_zero) in
  let ej := qv_scale (inject_Z t) (nth j stars qv_zero) in
  i <> j /\ (s = 1 \/ s = -1)%Z /\ (t = 1 \/ t = -1)%Z /\
  qv_eq (V K1) (qv_add (V K0) ei) /\ qv_eq (V K2) (qv_add (V K1) ej) /\
  qv_eq (V K2) (qv_add (V K3) ei) /\ qv_eq (V K3) (qv_add (V K0) ej).
Proof.
  intros stars B K0 K1 K2 K3 i s j t H V ei ej. unfold quad_steps in H.
  destruct ((length K0 =? B)%nat && (length K1 =? B)%nat && (length K2 =? B)%nat && (length K3 =? B)%nat) eqn:EL;
    simpl in H; [|discriminate].
  repeat (apply andb_true_iff in EL; destruct EL as [EL ?]).
  repeat match goal with H : (_ =? _)%nat = true |- _ => apply Nat.eqb_eq in H end.
  destruct (unit_step (zsub_list K1 K0)) as [[i' s']|] eqn:U1; [|discriminate].
  destruct (unit_step (zsub_list K2 K1)) as [[j' t']|] eqn:U2; [|discriminate].
  destruct (negb (i' =? j')%nat && zlist_eqb (zsub_list K2 K3) (zsub_list K1 K0) &&
            zlist_eqb (zsub_list K3 K0) (zsub_list K2 K1)) eqn:E; [|discriminate].
  injection H as <- <- <- <-.
  repeat (apply andb_true_iff in E; destruct E as [E ?]).
  apply negb_true_iff in E. apply Nat.eqb_neq in E.
  match goal with H : zlist_eqb (zsub_list K2 K3) _ = true |- _ => apply zlist_eqb_eq in H; rename H into E23 end.
  match goal with H : zlist_eqb (zsub_list K3 K0) _ = true |- _ => apply zlist_eqb_eq in H; rename H into E30 end.
  destruct (mtp_unit _ stars _ _ U1) as [M1 S1]. destruct (mtp_unit _ stars _ _ U2) as [M2 S2].
  assert (A1 := mtp_diff stars K0 K1 ltac:(congruence)).
  assert (A2 := mtp_diff stars K1 K2 ltac:(congruence)).
  assert (A3 := mtp_diff stars K3 K2 ltac:(congruence)).
  assert (A4 := mtp_diff stars K0 K3 ltac:(congruence)).
  rewrite E23 in A3. rewrite E30 in A4.
  fold V in A1, A2, A3, A4, M1, M2. fold ei in M1. fold ej in M2.
  destruct M1 as [M1a M1b]. destruct M2 as [M2a M2b].
  destruct A1 as [A1a A1b]. destruct A2 as [A2a A2b]. destruct A3 as [A3a A3b]. destruct A4 as [A4a A4b].
  unfold qv_eq, qv_add in *; simpl in *.
  repeat split; auto; lra.
Qed.

(* ---------- find_pent_index, entry by entry ---------- *)
Lemma pent_index_raw_length : forall sc starts normals q,
  length (pent_index_raw sc starts normals q) = Nat.min (length starts) (length normals).
Proof. induction starts as [|s ss IH]; intros [|n ns] q; simpl; auto. Qed.

Lemma pent_index_raw_nth : forall sc starts normals q k d1 d2,
  (k < length starts)%nat -> (k < length normals)%nat ->
  nth k (pent_index_raw sc starts normals q) 0%Z = Qfloor (cell_raw sc (nth k starts d1) (nth k normals d2) q).
Proof.
  induction starts as [|s ss IH]; intros [|n ns] q k d1 d2 H1 H2; simpl in *; try lia.
  destruct k; [reflexivity|]. apply IH; lia.
Qed.

(* the function the driver evaluates is made of the functions the theorems talk about *)
Lemma cell_coords_floor : forall sc starts normals q,
  map Qfloor (cell_coords_raw sc starts normals q) = pent_index_raw sc starts normals q.
Proof. induction starts as [|s ss IH]; intros [|n ns] q; simpl; auto. f_equal. apply IH. Qed.

Lemma db_eval_spec : forall n sc starts normals stars q,
  db_eval n sc starts normals stars q =
  (pent_index_raw sc starts normals q, point_margin sc starts normals q,
   in_window n (pent_index_raw sc starts normals q), dual_vertex_raw sc starts normals stars q).
Proof. intros. unfold db_eval, dual_vertex_raw, point_margin. rewrite cell_coords_floor. reflexivity. Qed.

(* well-formed abstract grid: normals are the gradients turned by 90 degrees (cos/sin of angle + pi/2), unit length,
   non-zero scaling *)
Definition grid_ok (g : grid) : Prop :=
  length (g_normals g) = n_bundles g /\
  (forall b, (b < n_bundles g)%nat -> normal g b = qv_rot90 (grad g b) /\ qv_norm2 (grad g b) == 1) /\
  ~ g_scaling g == 0.

Lemma start_positions_nth : forall g k, (k < n_bundles g)%nat -> nth k (start_positions g) qv_zero = start_pos g k.
Proof.
  intros g k H. unfold start_positions.
  rewrite nth_indep with (d' := start_pos g 0%nat) by (rewrite map_length, seq_length; exact H).
  rewrite map_nth, seq_nth by exact H. reflexivity.
Qed.

Lemma pent_index_length : forall g q, length (g_normals g) = n_bundles g -> length (pent_index g q) = n_bundles g.
Proof.
  intros g q H. unfold pent_index. rewrite pent_index_raw_length. unfold start_positions.
  rewrite map_length, seq_length, H. apply Nat.min_id.
Qed.

Lemma pent_index_nth : forall g q k, length (g_normals g) = n_bundles g -> (k < n_bundles g)%nat ->
  nth k (pent_index g q) 0%Z = Qfloor (cell_coord g k q).
Proof.
  intros g q k HL Hk. unfold pent_index, cell_coord, normal.
  rewrite pent_index_raw_nth with (d1 := qv_zero) (d2 := qv_zero).
  - rewrite start_positions_nth by exact Hk. reflexivity.
  - unfold start_positions. rewrite map_length, seq_length. exact Hk.
  - rewrite HL. exact Hk.
Qed.

(* ---------- the intersection point lies on both lines ---------- *)
Lemma line_offset_shift : forall n l, line_offset n l == inject_Z (Z.of_nat l) + line_offset n 0.
Proof.
  intros n l. unfold line_offset. rewrite <- inject_Z_plus.
  replace (Z.of_nat l - (Z.of_nat n - 1) / 2)%Z with (Z.of_nat l + (Z.of_nat 0 - (Z.of_nat n - 1) / 2))%Z by (simpl; lia).
  reflexivity.
Qed.

(* in scaled coordinates the cell coordinate is the plain projection on the normal, measured from line 0 *)
Lemma cell_coord_scaled : forall g b p, ~ g_scaling g == 0 ->
  cell_coord g b (scaled g p) == qv_dot (qv_sub p (c_value g b 0)) (normal g b).
Proof.
  intros g b p H. unfold cell_coord, cell_raw, start_pos, scaled, qv_dot, qv_sub, qv_add, qv_scale. simpl.
  field. exact H.
Qed.

Lemma intersect_spec : forall m1 m2 c1 c2 nu0 nu1 P, intersect m1 m2 c1 c2 = Some (nu0, nu1, P) ->
  ~ qv_cross m1 m2 == 0 /\ qv_eq P (qv_add (qv_scale nu0 m1) c1) /\ qv_eq P (qv_add (qv_scale nu1 m2) c2).
Proof.
  intros [m1x m1y] [m2x m2y] [c1x c1y] [c2x c2y] nu0 nu1 P H. unfold intersect in H. simpl in H.
  destruct (Qeq_bool (m2x * m1y - m1x * m2y) 0) eqn:E; [discriminate|].
  apply Qeq_bool_neq in E. injection H as <- <- <-.
  assert (D : ~ m1x * m2y - m1y * m2x == 0) by (intro D; apply E; lra).
  split; [exact D|]. unfold qv_eq, qv_add, qv_scale; simpl.
  split; [split; reflexivity|]. split; field; exact E.
Qed.

Theorem grid_vertex_on_lines : forall g i li j lj nu0 nu1 P,
  grid_ok g -> (i < n_bundles g)%nat -> (j < n_bundles g)%nat ->
  grid_vertex g i li j lj = Some (nu0, nu1, P) ->
  cell_coord g i (scaled g P) == inject_Z (Z.of_nat li) /\
  cell_coord g j (scaled g P) == inject_Z (Z.of_nat lj) /\
  ~ qv_cross (grad g i) (grad g j) == 0.
Proof.
  intros g i li j lj nu0 nu1 P [HL [Hb Hs]] Hi Hj HP. unfold grid_vertex in HP.
  destruct (intersect_spec _ _ _ _ _ _ _ HP) as [Hdet [[P1x P1y] [P2x P2y]]].
  destruct (Hb i Hi) as [Ni Ui]. destruct (Hb j Hj) as [Nj Uj].
  split; [|split; [|exact Hdet]]; rewrite cell_coord_scaled by exact Hs.
  - unfold qv_dot, qv_sub. cbn [fst snd]. rewrite P1x, P1y. unfold c_value. rewrite Ni.
    unfold qv_norm2, qv_dot in Ui. unfold qv_add, qv_scale, qv_rot90; cbn [fst snd].
    rewrite (line_offset_shift _ li).
    set (mx := fst (grad g i)) in *. set (my := snd (grad g i)) in *.
    transitivity (inject_Z (Z.of_nat li) * (mx * mx + my * my)); [ring|]. rewrite Ui. ring.
  - unfold qv_dot, qv_sub. cbn [fst snd]. rewrite P2x, P2y. unfold c_value. rewrite Nj.
    unfold qv_norm2, qv_dot in Uj. unfold qv_add, qv_scale, qv_rot90; cbn [fst snd].
    rewrite (line_offset_shift _ lj).
    set (mx := fst (grad g j)) in *. set (my := snd (grad g j)) in *.
    transitivity (inject_Z (Z.of_nat lj) * (mx * mx + my * my)); [ring|]. rewrite Uj. ring.
Qed.

(* ---------- the four cells touching an intersection ---------- *)
(* q lies in the cell on side (s,t) in {0,1}^2 of line li of bundle i and line lj of bundle j, and in the same cell as
   the reference point Ps with respect to every other bundle *)
Definition in_cell (g : grid) (i j li lj : nat) (Ps : qvec) (s t : Z) (q : qvec) : Prop :=
  inject_Z (Z.of_nat li + s - 1) < cell_coord g i q /\ cell_coord g i q < inject_Z (Z.of_nat li + s) /\
  inject_Z (Z.of_nat lj + t - 1) < cell_coord g j q /\ cell_coord g j q < inject_Z (Z.of_nat lj + t) /\
  forall k, (k < n_bundles g)%nat -> k <> i -> k <> j -> Qfloor (cell_coord g k q) = Qfloor (cell_coord g k Ps).

Lemma in_cell_index : forall g i j li lj Ps s t q k,
  length (g_normals g) = n_bundles g -> (k < n_bundles g)%nat -> i <> j ->
  in_cell g i j li lj Ps s t q ->
  nth k (pent_index g q) 0%Z =
    if (k =? i)%nat then (Z.of_nat li + s - 1)%Z else if (k =? j)%nat then (Z.of_nat lj + t - 1)%Z
    else Qfloor (cell_coord g k Ps).
Proof.
  intros g i j li lj Ps s t q k HL Hk Hij (A1 & A2 & A3 & A4 & A5).
  rewrite pent_index_nth by assumption.
  destruct (k =? i)%nat eqn:Ei.
  - apply Nat.eqb_eq in Ei. subst k. apply Qfloor_open; [exact A1|].
    replace (Z.of_nat li + s - 1 + 1)%Z with (Z.of_nat li + s)%Z by lia. exact A2.
  - destruct (k =? j)%nat eqn:Ej.
    + apply Nat.eqb_eq in Ej. subst k. apply Qfloor_open; [exact A3|].
      replace (Z.of_nat lj + t - 1 + 1)%Z with (Z.of_nat lj + t)%Z by lia. exact A4.
    + apply Nat.eqb_neq in Ei, Ej. apply A5; auto.
Qed.

(* crossing line li of bundle i (s: 0 -> 1) moves the dual vertex by exactly the star vector e_i *)
Lemma dual_vertex_step_i : forall g i j li lj Ps t q0 q1,
  length (g_normals g) = n_bundles g -> (i < n_bundles g)%nat -> i <> j ->
  in_cell g i j li lj Ps 0 t q0 -> in_cell g i j li lj Ps 1 t q1 ->
  qv_eq (dual_vertex g q1) (qv_add (dual_vertex g q0) (grad g i)).
Proof.
  intros g i j li lj Ps t q0 q1 HL Hi Hij H0 H1. unfold dual_vertex, grad.
  apply mtp_step; try (rewrite pent_index_length; auto); auto.
  intros k Hk. fold (n_bundles g) in Hk.
  rewrite (in_cell_index g i j li lj Ps 1 t q1 k), (in_cell_index g i j li lj Ps 0 t q0 k) by assumption.
  destruct (k =? i)%nat; [lia|]. destruct (k =? j)%nat; lia.
Qed.

Lemma in_cell_swap : forall g i j li lj Ps s t q, in_cell g i j li lj Ps s t q -> in_cell g j i lj li Ps t s q.
Proof. intros g i j li lj Ps s t q (A1 & A2 & A3 & A4 & A5). repeat split; auto. Qed.

(* THE ALGEBRAIC HEART.  For ANY four points in the four cells touching the intersection of line li of bundle i and
   line lj of bundle j, the dual vertices V00, V10, V11, V01 form a parallelogram whose sides are exactly the star
   vectors: V10 - V00 = V11 - V01 = e_i and V01 - V00 = V11 - V10 = e_j. *)
Theorem dual_parallelogram : forall g i j li lj Ps q00 q10 q11 q01,
  length (g_normals g) = n_bundles g -> (i < n_bundles g)%nat -> (j < n_bundles g)%nat -> i <> j ->
  in_cell g i j li lj Ps 0 0 q00 -> in_cell g i j li lj Ps 1 0 q10 ->
  in_cell g i j li lj Ps 1 1 q11 -> in_cell g i j li lj Ps 0 1 q01 ->
  let V := dual_vertex g in
  qv_eq (V q10) (qv_add (V q00) (grad g i)) /\ qv_eq (V q11) (qv_add (V q01) (grad g i)) /\
  qv_eq (V q01) (qv_add (V q00) (grad g j)) /\ qv_eq (V q11) (qv_add (V q10) (grad g j)).
Proof.
  intros g i j li lj Ps q00 q10 q11 q01 HL Hi Hj Hij H00 H10 H11 H01 V. unfold V.
  split; [|split; [|split]].
  - apply (dual_vertex_step_i g i j li lj Ps 0 q00 q10); auto.
  - apply (dual_vertex_step_i g i j li lj Ps 1 q01 q11); auto.
  - apply (dual_vertex_step_i g j i lj li Ps 0 q00 q01); auto using in_cell_swap.
  - apply (dual_vertex_step_i g j i lj li Ps 1 q10 q11); auto using in_cell_swap.
Qed.

(* ... hence a rhombus when the star vectors have equal length (unit gradients): all four sides have squared length 1 *)
Theorem dual_rhombus : forall g i j li lj Ps q00 q10 q11 q01,
  grid_ok g -> (i < n_bundles g)%nat -> (j < n_bundles g)%nat -> i <> j ->
  in_cell g i j li lj Ps 0 0 q00 -> in_cell g i j li lj Ps 1 0 q10 ->
  in_cell g i j li lj Ps 1 1 q11 -> in_cell g i j li lj Ps 0 1 q01 ->
  let V := dual_vertex g in
  qv_norm2 (qv_sub (V q10) (V q00)) == 1 /\ qv_norm2 (qv_sub (V q11) (V q10)) == 1 /\
  qv_norm2 (qv_sub (V q01) (V q11)) == 1 /\ qv_norm2 (qv_sub (V q00) (V q01)) == 1.
Proof.
  intros g i j li lj Ps q00 q10 q11 q01 [HL [Hb Hs]] Hi Hj Hij H00 H10 H11 H01 V.
  destruct (dual_parallelogram g i j li lj Ps q00 q10 q11 q01 HL Hi Hj Hij H00 H10 H11 H01)
    as ([A1 A2] & [B1 B2] & [C1 C2] & [D1 D2]). fold V in A1, A2, B1, B2, C1, C2, D1, D2.
  destruct (Hb i Hi) as [_ Ui]. destruct (Hb j Hj) as [_ Uj].
  unfold qv_norm2, qv_dot, qv_sub, qv_add in *; simpl in *.
  repeat split.
  - rewrite A1, A2. rewrite <- Ui. ring.
  - rewrite D1, D2. rewrite <- Uj. ring.
  - rewrite B1, B2. rewrite <- Ui. ring.
  - rewrite C1, C2. rewrite <- Uj. ring.
Qed.

(* the same without unit vectors: equal star lengths |e_i| = |e_j| suffice for four equal sides *)
Theorem dual_rhombus_equal_sides : forall g i j li lj Ps q00 q10 q11 q01,
  length (g_normals g) = n_bundles g -> (i < n_bundles g)%nat -> (j < n_bundles g)%nat -> i <> j ->
  qv_norm2 (grad g i) == qv_norm2 (grad g j) ->
  in_cell g i j li lj Ps 0 0 q00 -> in_cell g i j li lj Ps 1 0 q10 ->
  in_cell g i j li lj Ps 1 1 q11 -> in_cell g i j li lj Ps 0 1 q01 ->
  let V := dual_vertex g in
  let l2 := qv_norm2 (grad g i) in
  qv_norm2 (qv_sub (V q10) (V q00)) == l2 /\ qv_norm2 (qv_sub (V q11) (V q10)) == l2 /\
  qv_norm2 (qv_sub (V q01) (V q11)) == l2 /\ qv_norm2 (qv_sub (V q00) (V q01)) == l2.
Proof.
  intros g i j li lj Ps q00 q10 q11 q01 HL Hi Hj Hij Heq H00 H10 H11 H01 V l2.
  destruct (dual_parallelogram g i j li lj Ps q00 q10 q11 q01 HL Hi Hj Hij H00 H10 H11 H01)
    as ([A1 A2] & [B1 B2] & [C1 C2] & [D1 D2]). fold V in A1, A2, B1, B2, C1, C2, D1, D2.
  unfold l2. unfold qv_norm2, qv_dot, qv_sub, qv_add in *; simpl in *.
  repeat split.
  - rewrite A1, A2. ring.
  - rewrite D1, D2. rewrite Heq. ring.
  - rewrite B1, B2. ring.
  - rewrite C1, C2. rewrite Heq. ring.
Qed.

(* ---------- small perturbations do not change a floor ---------- *)
(* a non-integer stays in its unit interval under a small enough perturbation *)
Lemma floor_stable : forall c : Q, ~ c == inject_Z (Qfloor c) ->
  exists delta, 0 < delta /\ forall t, - delta < t -> t < delta -> Qfloor (c + t) = Qfloor c.
Proof.
  intros c Hc. set (f := Qfloor c) in *.
  assert (F1 : inject_Z f <= c) by apply Qfloor_le.
  assert (F2 : c < inject_Z (f + 1)) by apply Qlt_floor.
  rewrite inject_Z_plus in F2. change (inject_Z 1) with 1 in F2.
  assert (F3 : inject_Z f < c) by (apply Qle_lteq in F1; destruct F1 as [F1|F1]; [exact F1|exfalso; apply Hc; symmetry; exact F1]).
  set (x := inject_Z f) in *.
  exists ((c - x) * (x + 1 - c)). split; [nra|].
  intros t T1 T2. apply Qfloor_open; fold x.
  - nra.
  - rewrite inject_Z_plus. change (inject_Z 1) with 1. fold x. nra.
Qed.

Lemma floor_stable_dir : forall c d : Q, ~ c == inject_Z (Qfloor c) ->
  exists e0, 0 < e0 /\ forall e, 0 < e -> e <= e0 -> Qfloor (c + e * d) = Qfloor c.
Proof.
  intros c d Hc. destruct (floor_stable c Hc) as (delta & Hd & Hst).
  pose proof (Qabs_nonneg d) as A0. pose proof (Qle_Qabs d) as A1.
  assert (A2 : - Qabs d <= d) by (pose proof (Qle_Qabs (- d)) as H; rewrite Qabs_opp in H; lra).
  set (A := Qabs d) in *.
  exists (delta / (A + 1)).
  assert (E : delta / (A + 1) * (A + 1) == delta) by (field; lra).
  assert (P : 0 < delta / (A + 1)) by (apply Qlt_shift_div_l; lra).
  split; [exact P|]. intros e E0 E1.
  set (e0 := delta / (A + 1)) in *.
  apply Hst; nra.
Qed.

Lemma floor_stable_list : forall l : list (Q * Q), (forall cd, In cd l -> ~ fst cd == inject_Z (Qfloor (fst cd))) ->
  exists e0, 0 < e0 /\ forall e, 0 < e -> e <= e0 -> forall cd, In cd l -> Qfloor (fst cd + e * snd cd) = Qfloor (fst cd).
Proof.
  induction l as [|[c d] l IH]; intros H.
  - exists 1. split; [reflexivity|]. intros e _ _ cd [].
  - destruct IH as (e1 & P1 & H1); [intros cd Hin; apply H; right; exact Hin|].
    destruct (floor_stable_dir c d (H (c, d) (or_introl eq_refl))) as (e2 & P2 & H2).
    exists (Qmin e1 e2). split; [apply Q.min_glb_lt; assumption|].
    intros e E0 E1 cd [<-|Hin].
    + simpl. apply H2; [exact E0|]. eapply Qle_trans; [exact E1|apply Q.le_min_r].
    + apply H1; auto. eapply Qle_trans; [exact E1|apply Q.le_min_l].
Qed.

(* ---------- the four cells touching a generic intersection are inhabited ---------- *)
Definition generic_at (g : grid) (i j : nat) (Ps : qvec) : Prop :=
  forall k, (k < n_bundles g)%nat -> k <> i -> k <> j ->
    ~ cell_coord g k Ps == inject_Z (Qfloor (cell_coord g k Ps)).

Lemma cell_coord_shift : forall g k p w, ~ g_scaling g == 0 ->
  cell_coord g k (scaled g (qv_add p w)) == cell_coord g k (scaled g p) + qv_dot w (normal g k).
Proof.
  intros g k p w H. rewrite !cell_coord_scaled by exact H.
  unfold qv_dot, qv_sub, qv_add; simpl; ring.
Qed.

(* displacement (in grid units) that moves the cell coordinate of bundle i by sg*e and that of bundle j by tg*e *)
Definition corner_shift (mi mj : qvec) (sg tg e : Q) : qvec :=
  let X := qv_cross mi mj in
  qv_add (qv_scale (sg * e / X) mj) (qv_scale (- (tg * e) / X) mi).

Lemma corner_shift_i : forall mi mj sg tg e, ~ qv_cross mi mj == 0 ->
  qv_dot (corner_shift mi mj sg tg e) (qv_rot90 mi) == sg * e.
Proof.
  intros [a b] [c d] sg tg e H. unfold corner_shift, qv_dot, qv_add, qv_scale, qv_rot90, qv_cross in *; simpl in *.
  field. exact H.
Qed.
Lemma corner_shift_j : forall mi mj sg tg e, ~ qv_cross mi mj == 0 ->
  qv_dot (corner_shift mi mj sg tg e) (qv_rot90 mj) == tg * e.
Proof.
  intros [a b] [c d] sg tg e H. unfold corner_shift, qv_dot, qv_add, qv_scale, qv_rot90, qv_cross in *; simpl in *.
  field. exact H.
Qed.
Lemma corner_shift_k : forall mi mj sg tg e n, ~ qv_cross mi mj == 0 ->
  qv_dot (corner_shift mi mj sg tg e) n == e * ((sg * qv_dot mj n - tg * qv_dot mi n) / qv_cross mi mj).
Proof.
  intros [a b] [c d] sg tg e [n1 n2] H. unfold corner_shift, qv_dot, qv_add, qv_scale, qv_cross in *; simpl in *.
  field. exact H.
Qed.

Theorem generic_cells_exist : forall g i j li lj nu0 nu1 P,
  grid_ok g -> (i < n_bundles g)%nat -> (j < n_bundles g)%nat -> i <> j ->
  grid_vertex g i li j lj = Some (nu0, nu1, P) ->
  generic_at g i j (scaled g P) ->
  exists q00 q10 q11 q01,
    in_cell g i j li lj (scaled g P) 0 0 q00 /\ in_cell g i j li lj (scaled g P) 1 0 q10 /\
    in_cell g i j li lj (scaled g P) 1 1 q11 /\ in_cell g i j li lj (scaled g P) 0 1 q01.
Proof.
  intros g i j li lj nu0 nu1 P Hok Hi Hj Hij HP Hgen.
  destruct (grid_vertex_on_lines g i li j lj nu0 nu1 P Hok Hi Hj HP) as (Ci & Cj & HX).
  destruct Hok as [HL [Hb Hs]].
  destruct (Hb i Hi) as [Ni _]. destruct (Hb j Hj) as [Nj _].
  set (Ps := scaled g P) in *. set (mi := grad g i) in *. set (mj := grad g j) in *.
  set (dk := fun (k : nat) (st : Q * Q) => (fst st * qv_dot mj (normal g k) - snd st * qv_dot mi (normal g k)) / qv_cross mi mj).
  set (signs := [(-1, -1); (1, -1); (1, 1); (-1, 1)] : list (Q * Q)).
  set (l := flat_map (fun k => if (k =? i)%nat || (k =? j)%nat then []
                               else map (fun st => (cell_coord g k Ps, dk k st)) signs) (seq 0 (n_bundles g))).
  destruct (floor_stable_list l) as (e0 & E0 & Hfl).
  { intros cd Hin. unfold l in Hin. apply in_flat_map in Hin. destruct Hin as (k & Hk & Hin).
    apply in_seq in Hk. destruct ((k =? i)%nat || (k =? j)%nat) eqn:Ek; [destruct Hin|].
    apply orb_false_iff in Ek. destruct Ek as [Ei Ej]. apply Nat.eqb_neq in Ei, Ej.
    apply in_map_iff in Hin. destruct Hin as (st & <- & _). simpl. apply Hgen; auto; lia. }
  set (e := Qmin e0 (1 # 2)).
  assert (Epos : 0 < e) by (apply Q.min_glb_lt; [exact E0|reflexivity]).
  assert (Ele : e <= e0) by apply Q.le_min_l.
  assert (Ehalf : e <= 1 # 2) by apply Q.le_min_r.
  set (pt := fun st : Q * Q => scaled g (qv_add P (corner_shift mi mj (fst st) (snd st) e))).
  assert (Ki : forall st, cell_coord g i (pt st) == inject_Z (Z.of_nat li) + fst st * e).
  { intros st. unfold pt. rewrite cell_coord_shift by exact Hs. fold Ps. rewrite Ci, Ni. fold mi.
    rewrite corner_shift_i by exact HX. reflexivity. }
  assert (Kj : forall st, cell_coord g j (pt st) == inject_Z (Z.of_nat lj) + snd st * e).
  { intros st. unfold pt. rewrite cell_coord_shift by exact Hs. fold Ps. rewrite Cj, Nj. fold mj.
    rewrite corner_shift_j by exact HX. reflexivity. }
  assert (Kk : forall st, In st signs -> forall k, (k < n_bundles g)%nat -> k <> i -> k <> j ->
             Qfloor (cell_coord g k (pt st)) = Qfloor (cell_coord g k Ps)).
  { intros st Hst k Hk Hki Hkj.
    assert (Hin : In (cell_coord g k Ps, dk k st) l).
    { unfold l. apply in_flat_map. exists k. split; [apply in_seq; lia|].
      apply Nat.eqb_neq in Hki, Hkj. rewrite Hki, Hkj. simpl orb. cbv iota.
      apply in_map_iff. exists st. split; [reflexivity|exact Hst]. }
    specialize (Hfl e Epos Ele _ Hin). cbn [fst snd] in Hfl. rewrite <- Hfl.
    apply Qfloor_comp. unfold pt. rewrite cell_coord_shift by exact Hs. fold Ps.
    rewrite corner_shift_k by exact HX. unfold dk. reflexivity. }
  exists (pt (-1, -1)), (pt (1, -1)), (pt (1, 1)), (pt (-1, 1)).
  assert (Z0 : forall z : Z, inject_Z (z + 0 - 1) == inject_Z z - 1)
    by (intro z; replace (z + 0 - 1)%Z with (z + -1)%Z by lia; rewrite inject_Z_plus; reflexivity).
  assert (Z1 : forall z : Z, inject_Z (z + 0) == inject_Z z) by (intro z; rewrite Z.add_0_r; reflexivity).
  assert (Z2 : forall z : Z, inject_Z (z + 1 - 1) == inject_Z z)
    by (intro z; replace (z + 1 - 1)%Z with z by lia; reflexivity).
  assert (Z3 : forall z : Z, inject_Z (z + 1) == inject_Z z + 1) by (intro z; rewrite inject_Z_plus; reflexivity).
  repeat split; try (apply Kk; simpl; tauto);
    rewrite ?Ki, ?Kj, ?Z0, ?Z1, ?Z2, ?Z3; simpl fst; simpl snd; lra.
Qed.

(* ---------- non-vacuity: a rational grid (Pythagorean unit directions), the intersection of line 2 of bundle 0 with
   line 3 of bundle 1, and four explicit points in the four cells touching it ---------- *)
Definition ex_grads : list qvec := [(1, 0); (3 # 5, 4 # 5); (-5 # 13, 12 # 13)].
Definition ex_grid : grid := mkGrid ex_grads (map qv_rot90 ex_grads) [1 # 5; 3 # 10; 1 # 7] 5 (1 # 10).
Definition exP : qvec := match grid_vertex ex_grid 0 2 1 3 with Some (_, _, p) => p | None => qv_zero end.
Definition ex_pt (a b : Q) : qvec :=
  scaled ex_grid (qv_add exP (qv_add (qv_scale a (grad ex_grid 1)) (qv_scale b (grad ex_grid 0)))).

Example ex_grid_ok : grid_ok ex_grid.
Proof.
  split; [reflexivity|]. split; [|intro H; discriminate H].
  intros b Hb. unfold n_bundles in Hb. simpl in Hb.
  destruct b as [|[|[|b]]]; try lia; (split; [reflexivity | vm_compute; reflexivity]).
Qed.

Example ex_grid_vertex : exists nu0 nu1, grid_vertex ex_grid 0 2 1 3 = Some (nu0, nu1, exP).
Proof. eexists; eexists. vm_compute. reflexivity. Qed.

Example ex_in_cell : forall s t a b,
  (s = 0 \/ s = 1)%Z -> (t = 0 \/ t = 1)%Z ->
  a = (if (s =? 0)%Z then -1 # 100 else 1 # 100) -> b = (if (t =? 0)%Z then 1 # 100 else -1 # 100) ->
  in_cell ex_grid 0 1 2 3 (scaled ex_grid exP) s t (ex_pt a b).
Proof.
  intros s t a b [Hs|Hs] [Ht|Ht] Ha Hb; subst; unfold in_cell;
  (split; [vm_compute; reflexivity|]); (split; [vm_compute; reflexivity|]);
  (split; [vm_compute; reflexivity|]); (split; [vm_compute; reflexivity|]);
  intros k Hk H0 H1; unfold n_bundles in Hk; simpl in Hk; (destruct k as [|[|[|k]]]; try lia); vm_compute; reflexivity.
Qed.

(* the hypotheses of dual_parallelogram are satisfiable, and the theorem's conclusion evaluated on the example *)
Example ex_parallelogram :
  let V := dual_vertex ex_grid in
  qv_eq (V (ex_pt (1 # 100) (1 # 100))) (qv_add (V (ex_pt (-1 # 100) (1 # 100))) (1, 0)) /\
  qv_eq (V (ex_pt (-1 # 100) (-1 # 100))) (qv_add (V (ex_pt (-1 # 100) (1 # 100))) (3 # 5, 4 # 5)).
Proof.
  destruct (dual_parallelogram ex_grid 0 1 2 3 (scaled ex_grid exP)
              (ex_pt (-1 # 100) (1 # 100)) (ex_pt (1 # 100) (1 # 100)) (ex_pt (1 # 100) (-1 # 100)) (ex_pt (-1 # 100) (-1 # 100)))
    as (A & _ & C & _); try (apply ex_in_cell; auto; fail); try reflexivity; try (unfold n_bundles; simpl; lia).
  split; [exact A | exact C].
Qed.

Example ex_quad_steps : quad_steps 3 [1; 2; 3]%Z [2; 2; 3]%Z [2; 3; 3]%Z [1; 3; 3]%Z = Some (0%nat, 1%Z, (1%nat, 1%Z)).
Proof. reflexivity. Qed.

Example ex_generic : generic_at ex_grid 0 1 (scaled ex_grid exP).
Proof.
  intros k Hk H0 H1. unfold n_bundles in Hk. simpl in Hk. destruct k as [|[|[|k]]]; try lia.
  intro H. vm_compute in H. discriminate H.
Qed.
