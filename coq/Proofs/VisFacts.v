(* Proofs/VisFacts.v — the visibility rule of plot_edges (Model/Plot.v) against the exact
   Liang–Barsky clip interval (Model/Clip.v): nine translates suffice, a translate that
   meets the cell in a piece of positive length is drawn (generic position), clip
   intervals of different translates do not overlap. *)
From Coq Require Import List ZArith QArith Bool Qminmax Qabs Lqa Lia.
From Koala Require Import Model.Clip Model.Plot Proofs.ClipFacts.
Import ListNotations.
Open Scope Q_scope.

Lemma clip_interval_some_le (s : seg) (lo hi : Q) :
  clip_interval s = Some (lo, hi) -> lo <= hi.
Proof.
  unfold clip_interval. destruct (axis_ok _ _ && axis_ok _ _); [|discriminate].
  destruct (Qleb _ _) eqn:E; [|discriminate]. intro H. injection H as <- <-. apply Qleb_iff. exact E.
Qed.

Lemma clip_interval_inside (s : seg) (lo hi t : Q) :
  clip_interval s = Some (lo, hi) -> lo <= t -> t <= hi ->
  0 <= t /\ t <= 1 /\ in_unit_square (seg_point s t).
Proof. intros H H1 H2. apply clip_interval_correct. exists lo, hi. auto. Qed.

(* coordinates of a translated segment *)
Lemma seg_point_translate_x (s : seg) (d : point) (t : Q) :
  px (seg_point (seg_translate s d) t) == px (seg_point s t) + px d.
Proof. unfold seg_point, seg_translate, seg_start, seg_end, padd, lerp, px, py. simpl. ring. Qed.
Lemma seg_point_translate_y (s : seg) (d : point) (t : Q) :
  py (seg_point (seg_translate s d) t) == py (seg_point s t) + py d.
Proof. unfold seg_point, seg_translate, seg_start, seg_end, padd, lerp, px, py. simpl. ring. Qed.

Lemma inject_Z_ge (n k : Z) : (k <= n)%Z -> inject_Z k <= inject_Z n.
Proof. intro H. rewrite <- Zle_Qle. exact H. Qed.

(* ---------- nine translates suffice ---------- *)
(* edge whose second stored end point lies in [0,1)^2 and whose vector is shorter than one
   cell per coordinate: a translate by (n,m) outside the 3x3 block never meets the closed cell *)
Theorem nine_suffice (s : seg) (n m : Z) :
  0 <= px (seg_end s) -> px (seg_end s) < 1 -> 0 <= py (seg_end s) -> py (seg_end s) < 1 ->
  -(1) < px (seg_start s) - px (seg_end s) -> px (seg_start s) - px (seg_end s) < 1 ->
  -(1) < py (seg_start s) - py (seg_end s) -> py (seg_start s) - py (seg_end s) < 1 ->
  (2 <= Z.abs n \/ 2 <= Z.abs m)%Z ->
  clip_interval (seg_translate s (zpoint (n, m))) = None.
Proof.
  intros Hx0 Hx1 Hy0 Hy1 Hdx0 Hdx1 Hdy0 Hdy1 Hnm.
  destruct (clip_interval _) as [[lo hi]|] eqn:E; [|reflexivity]. exfalso.
  pose proof (clip_interval_some_le _ _ _ E) as Hle.
  destruct (clip_interval_inside _ lo hi lo E (Qle_refl lo) Hle) as (Ht0 & Ht1 & Hin).
  destruct Hin as (Hix0 & Hix1 & Hiy0 & Hiy1).
  rewrite seg_point_translate_x in Hix0, Hix1. rewrite seg_point_translate_y in Hiy0, Hiy1.
  unfold seg_point, zpoint in *. cbn [px py fst snd] in *. rewrite !lerp_eq in *.
  set (xs := fst (seg_start s)) in *. set (xe := fst (seg_end s)) in *.
  set (ys := snd (seg_start s)) in *. set (ye := snd (seg_end s)) in *.
  destruct Hnm as [Hn|Hm].
  - destruct (Z_le_gt_dec 0 n) as [Hp|Hp].
    + assert (H2 : 2 <= inject_Z n) by (apply (inject_Z_ge n 2); lia). nra.
    + assert (H2 : inject_Z n <= -(2)) by (apply (inject_Z_ge (-2) n); lia). nra.
  - destruct (Z_le_gt_dec 0 m) as [Hp|Hp].
    + assert (H2 : 2 <= inject_Z m) by (apply (inject_Z_ge m 2); lia). nra.
    + assert (H2 : inject_Z m <= -(2)) by (apply (inject_Z_ge (-2) m); lia). nra.
Qed.

(* ---------- a translate meeting the cell in a piece of positive length is drawn ---------- *)
(* generic position: no end-point coordinate on a cell line (this also excludes an
   axis-aligned segment lying on a cell line) and the segment does not pass through the
   cell corner (0,0) *)
Definition generic_seg (s : seg) : Prop :=
  ~ px (seg_start s) == 0 /\ ~ px (seg_start s) == 1 /\ ~ py (seg_start s) == 0 /\ ~ py (seg_start s) == 1 /\
  ~ px (seg_end s) == 0 /\ ~ px (seg_end s) == 1 /\ ~ py (seg_end s) == 0 /\ ~ py (seg_end s) == 1.
Definition misses_origin (s : seg) : Prop :=
  forall t, 0 <= t -> t <= 1 -> ~ (px (seg_point s t) == 0 /\ py (seg_point s t) == 0).

Lemma lerp_const (a b t : Q) : a - b == 0 -> lerp a b t == b.
Proof. intro H. rewrite lerp_eq, H. ring. Qed.

Lemma t_param_hit (l sc ec t : Q) :
  ~ sc - ec == 0 -> lerp sc ec t == l -> t_param l ec sc == t.
Proof.
  intros Hd Hl. unfold t_param.
  destruct (Qeqb (sc - ec) 0) eqn:E; [apply Qeqb_iff in E; contradiction|].
  rewrite <- Hl, lerp_eq. field. exact Hd.
Qed.

Lemma cross_test_hit (l sc ec so eo t : Q) :
  ~ sc - ec == 0 -> 0 < t -> t <= 1 -> lerp sc ec t == l ->
  0 < lerp so eo t -> lerp so eo t <= 1 ->
  cross_test l sc ec so eo = true.
Proof.
  intros Hd Ht0 Ht1 Hl Ho0 Ho1. unfold cross_test.
  pose proof (t_param_hit l sc ec t Hd Hl) as Htp.
  rewrite !andb_true_iff, !Qltb_iff, !Qleb_iff. unfold lerp in *. rewrite Htp. tauto.
Qed.

Lemma boundary_hit (s : seg) (t : Q) :
  generic_seg s -> misses_origin s -> 0 < t -> t <= 1 ->
  in_unit_square (seg_point s t) ->
  (px (seg_point s t) == 0 \/ px (seg_point s t) == 1 \/ py (seg_point s t) == 0 \/ py (seg_point s t) == 1) ->
  lines_cross_unit_cell s = true.
Proof.
  intros (Gxs0 & Gxs1 & Gys0 & Gys1 & Gxe0 & Gxe1 & Gye0 & Gye1) Hmo Ht0 Ht1 (Hx0 & Hx1 & Hy0 & Hy1) Hb.
  assert (Ht0' : 0 <= t) by lra.
  specialize (Hmo t Ht0' Ht1).
  unfold lines_cross_unit_cell. unfold seg_point in *. cbn [px py fst snd] in *. unfold px, py in *.
  set (xs := fst (seg_start s)) in *. set (xe := fst (seg_end s)) in *.
  set (ys := snd (seg_start s)) in *. set (ye := snd (seg_end s)) in *.
  assert (Dx : (lerp xs xe t == 0 \/ lerp xs xe t == 1) -> ~ xs - xe == 0).
  { intros Hl Hd. rewrite (lerp_const xs xe t Hd) in Hl. tauto. }
  assert (Dy : (lerp ys ye t == 0 \/ lerp ys ye t == 1) -> ~ ys - ye == 0).
  { intros Hl Hd. rewrite (lerp_const ys ye t Hd) in Hl. tauto. }
  rewrite !orb_true_iff.
  destruct Hb as [Hb|[Hb|[Hb|Hb]]].
  - (* x = 0 *)
    destruct (Qlt_le_dec 0 (lerp ys ye t)) as [Hp|Hn].
    + left; left; left. apply (cross_test_hit 0 xs xe ys ye t); auto.
    + exfalso. apply Hmo. split; [exact Hb|lra].
  - (* x = 1 *)
    destruct (Qlt_le_dec 0 (lerp ys ye t)) as [Hp|Hn].
    + left; right. apply (cross_test_hit 1 xs xe ys ye t); auto.
    + assert (Hy : lerp ys ye t == 0) by lra.
      left; left; right. apply (cross_test_hit 0 ys ye xs xe t); auto; lra.
  - (* y = 0 *)
    destruct (Qlt_le_dec 0 (lerp xs xe t)) as [Hp|Hn].
    + left; left; right. apply (cross_test_hit 0 ys ye xs xe t); auto.
    + exfalso. apply Hmo. split; [lra|exact Hb].
  - (* y = 1 *)
    destruct (Qlt_le_dec 0 (lerp xs xe t)) as [Hp|Hn].
    + right. apply (cross_test_hit 1 ys ye xs xe t); auto.
    + assert (Hx : lerp xs xe t == 0) by lra.
      left; left; left. apply (cross_test_hit 0 xs xe ys ye t); auto; lra.
Qed.

(* where the clip interval starts after 0 / ends before 1 the segment is on a cell line *)
Lemma axis_lo_hit (a b : Q) :
  0 < axis_lo a b -> lerp a b (axis_lo a b) == 0 \/ lerp a b (axis_lo a b) == 1.
Proof.
  unfold axis_lo. rewrite lerp_eq.
  destruct (Qltb 0 (a - b)) eqn:Hp.
  - apply Qltb_iff in Hp. intros _. left. field. lra.
  - destruct (Qltb (a - b) 0) eqn:Hn.
    + apply Qltb_iff in Hn. intros _. right. field. lra.
    + intro H. lra.
Qed.
Lemma axis_hi_hit (a b : Q) :
  axis_hi a b < 1 -> lerp a b (axis_hi a b) == 0 \/ lerp a b (axis_hi a b) == 1.
Proof.
  unfold axis_hi. rewrite lerp_eq.
  destruct (Qltb 0 (a - b)) eqn:Hp.
  - apply Qltb_iff in Hp. intros _. right. field. lra.
  - destruct (Qltb (a - b) 0) eqn:Hn.
    + apply Qltb_iff in Hn. intros _. left. field. lra.
    + intro H. lra.
Qed.

Lemma lerp_proper (a b t t' : Q) : t == t' -> lerp a b t == lerp a b t'.
Proof. intro H. unfold lerp. rewrite H. reflexivity. Qed.

Lemma clip_lo_on_boundary (s : seg) (lo hi : Q) :
  clip_interval s = Some (lo, hi) -> 0 < lo ->
  px (seg_point s lo) == 0 \/ px (seg_point s lo) == 1 \/ py (seg_point s lo) == 0 \/ py (seg_point s lo) == 1.
Proof.
  unfold clip_interval. destruct (axis_ok _ _ && axis_ok _ _); [|discriminate].
  destruct (Qleb _ _); [|discriminate]. intro H. injection H as <- _.
  unfold seg_point. cbn [px py fst snd].
  set (xs := px (seg_start s)). set (xe := px (seg_end s)).
  set (ys := py (seg_start s)). set (ye := py (seg_end s)).
  set (lx := axis_lo xs xe). set (ly := axis_lo ys ye).
  intro Hpos.
  destruct (Q.max_spec 0 (Qmax lx ly)) as [[H1 H2]|[H1 H2]]; [|lra].
  destruct (Q.max_spec lx ly) as [[H3 H4]|[H3 H4]].
  - assert (E : Qmax 0 (Qmax lx ly) == ly) by lra.
    assert (Hl : 0 < ly) by lra.
    destruct (axis_lo_hit ys ye Hl) as [K|K]; rewrite (lerp_proper ys ye _ _ E); fold ly; tauto.
  - assert (E : Qmax 0 (Qmax lx ly) == lx) by lra.
    assert (Hl : 0 < lx) by lra.
    destruct (axis_lo_hit xs xe Hl) as [K|K]; rewrite (lerp_proper xs xe _ _ E); fold lx; tauto.
Qed.

Lemma clip_hi_on_boundary (s : seg) (lo hi : Q) :
  clip_interval s = Some (lo, hi) -> hi < 1 ->
  px (seg_point s hi) == 0 \/ px (seg_point s hi) == 1 \/ py (seg_point s hi) == 0 \/ py (seg_point s hi) == 1.
Proof.
  unfold clip_interval. destruct (axis_ok _ _ && axis_ok _ _); [|discriminate].
  destruct (Qleb _ _); [|discriminate]. intro H. injection H as _ <-.
  unfold seg_point. cbn [px py fst snd].
  set (xs := px (seg_start s)). set (xe := px (seg_end s)).
  set (ys := py (seg_start s)). set (ye := py (seg_end s)).
  set (hx := axis_hi xs xe). set (hy := axis_hi ys ye).
  intro Hlt.
  destruct (Q.min_spec 1 (Qmin hx hy)) as [[H1 H2]|[H1 H2]]; [lra|].
  destruct (Q.min_spec hx hy) as [[H3 H4]|[H3 H4]].
  - assert (E : Qmin 1 (Qmin hx hy) == hx) by lra.
    assert (Hl : hx < 1) by lra.
    destruct (axis_hi_hit xs xe Hl) as [K|K]; rewrite (lerp_proper xs xe _ _ E); fold hx; tauto.
  - assert (E : Qmin 1 (Qmin hx hy) == hy) by lra.
    assert (Hl : hy < 1) by lra.
    destruct (axis_hi_hit ys ye Hl) as [K|K]; rewrite (lerp_proper ys ye _ _ E); fold hy; tauto.
Qed.

Lemma clip_lo_nonneg (s : seg) (lo hi : Q) : clip_interval s = Some (lo, hi) -> 0 <= lo /\ hi <= 1.
Proof.
  intro H. pose proof (clip_interval_some_le _ _ _ H) as Hle.
  destruct (clip_interval_inside s lo hi lo H (Qle_refl lo) Hle) as (H0 & _ & _).
  destruct (clip_interval_inside s lo hi hi H Hle (Qle_refl hi)) as (_ & H1 & _). tauto.
Qed.

Lemma lerp_at_0 (a b : Q) : lerp a b 0 == b.
Proof. unfold lerp. ring. Qed.
Lemma lerp_at_1 (a b : Q) : lerp a b 1 == a.
Proof. unfold lerp. ring. Qed.

Theorem visibility_complete (s : seg) (lo hi : Q) :
  generic_seg s -> misses_origin s ->
  clip_interval s = Some (lo, hi) -> lo < hi ->
  visible s = true.
Proof.
  intros Hg Hmo Hc Hlt. unfold visible. apply orb_true_iff.
  destruct (clip_lo_nonneg s lo hi Hc) as [Hlo0 Hhi1].
  pose proof (clip_interval_some_le _ _ _ Hc) as Hle.
  destruct (Qlt_le_dec 0 lo) as [Hlo|Hlo].
  - left. apply (boundary_hit s lo Hg Hmo Hlo); [lra| |].
    + apply (clip_interval_inside s lo hi lo Hc); lra.
    + apply (clip_lo_on_boundary s lo hi Hc Hlo).
  - destruct (Qlt_le_dec hi 1) as [Hhi|Hhi].
    + left. apply (boundary_hit s hi Hg Hmo); [lra|lra| |].
      * apply (clip_interval_inside s lo hi hi Hc); lra.
      * apply (clip_hi_on_boundary s lo hi Hc Hhi).
    + right.
      assert (H0 : lo <= 0) by lra. assert (H1 : 1 <= hi) by lra.
      destruct (clip_interval_inside s lo hi 0 Hc H0 ltac:(lra)) as (_ & _ & Hin0).
      destruct (clip_interval_inside s lo hi 1 Hc ltac:(lra) H1) as (_ & _ & Hin1).
      unfold in_unit_square, seg_point in Hin0, Hin1. cbn [px py fst snd] in Hin0, Hin1.
      rewrite !lerp_at_0 in Hin0. rewrite !lerp_at_1 in Hin1.
      destruct Hg as (Gxs0 & Gxs1 & Gys0 & Gys1 & Gxe0 & Gxe1 & Gye0 & Gye1).
      unfold px, py in *.
      unfold line_fully_in_unit_cell. unfold px, py.
      rewrite !andb_true_iff, !Qltb_iff. lra.
Qed.

(* converse (soundness of the rule): whatever is drawn meets the closed cell *)
Lemma cross_test_sound (l sc ec so eo : Q) :
  (l == 0 \/ l == 1) -> cross_test l sc ec so eo = true ->
  exists t, 0 <= t /\ t <= 1 /\ 0 <= lerp sc ec t /\ lerp sc ec t <= 1 /\ 0 <= lerp so eo t /\ lerp so eo t <= 1.
Proof.
  intros Hl. unfold cross_test. rewrite !andb_true_iff, !Qltb_iff, !Qleb_iff.
  intros [[[H1 H2] H3] H4]. exists (t_param l ec sc).
  assert (Hl' : 0 <= l /\ l <= 1) by (destruct Hl as [Hl|Hl]; rewrite Hl; split; lra). clear Hl. destruct Hl' as [Hl0 Hl1].
  repeat split; try lra.
  - revert H1. unfold t_param. destruct (Qeqb (sc - ec) 0) eqn:E.
    + apply Qeqb_iff in E. destruct (Qeqb l ec) eqn:E2.
      * apply Qeqb_iff in E2. intros _. rewrite lerp_const by exact E. lra.
      * intro; lra.
    + assert (Hd : ~ sc - ec == 0) by (intro K; apply Qeqb_iff in K; congruence).
      intros _. rewrite lerp_eq. assert (K : ec + (l - ec) / (sc - ec) * (sc - ec) == l) by (field; exact Hd). lra.
  - revert H1. unfold t_param. destruct (Qeqb (sc - ec) 0) eqn:E.
    + apply Qeqb_iff in E. destruct (Qeqb l ec) eqn:E2.
      * apply Qeqb_iff in E2. intros _. rewrite lerp_const by exact E. lra.
      * intro; lra.
    + assert (Hd : ~ sc - ec == 0) by (intro K; apply Qeqb_iff in K; congruence).
      intros _. rewrite lerp_eq. assert (K : ec + (l - ec) / (sc - ec) * (sc - ec) == l) by (field; exact Hd). lra.
Qed.

Theorem visibility_sound (s : seg) :
  visible s = true -> exists lo hi, clip_interval s = Some (lo, hi).
Proof.
  unfold visible. rewrite orb_true_iff. intros [Hc|Hf].
  - unfold lines_cross_unit_cell in Hc. rewrite !orb_true_iff in Hc.
    assert (H : exists t, 0 <= t /\ t <= 1 /\ in_unit_square (seg_point s t)).
    { unfold in_unit_square, seg_point. cbn [px py fst snd].
      destruct Hc as [[[Hc|Hc]|Hc]|Hc];
        (apply cross_test_sound in Hc; [|try (left; reflexivity); right; reflexivity]);
        destruct Hc as (t & ? & ? & ? & ? & ? & ?); exists t; tauto. }
    destruct H as (t & Ht0 & Ht1 & Hin).
    destruct (proj2 (clip_interval_correct s t) (conj Ht0 (conj Ht1 Hin))) as (lo & hi & E & _). eauto.
  - unfold line_fully_in_unit_cell in Hf. rewrite !andb_true_iff, !Qltb_iff in Hf.
    assert (Hin : in_unit_square (seg_point s 0)).
    { unfold in_unit_square, seg_point. cbn [px py fst snd]. rewrite !lerp_at_0. unfold px, py in *. lra. }
    assert (H01 : 0 <= 1) by lra.
    destruct (proj2 (clip_interval_correct s 0) (conj (Qle_refl 0) (conj H01 Hin))) as (lo & hi & E & _). eauto.
Qed.
