(* Proofs/PickleFacts.v — lemmas about Model/Pickle.v (C09): float32 rounding on Q, integer casts,
   __getstate__/__setstate__ round trip, __eq__. *)
From Coq Require Import List ZArith Bool Arith QArith Qabs Qpower Lia ZifyBool Lqa.
From Koala Require Import Model.Pickle Gen.PickleGen.
Import ListNotations.
Open Scope Z_scope.

(* ---------------------------------------------------------------- tie to the source (translator) *)
Lemma gen_candidates_eq : gen_index_dtype_candidates = index_dtype_candidates.
Proof. reflexivity. Qed.
Lemma gen_fits_eq : forall n d, gen_fits n d = fits n d.
Proof. reflexivity. Qed.
Lemma gen_check_fits_eq : forall e mn mx d,
  gen_check_fits e mn mx d = (e || check_fits_test mn mx d).
Proof. reflexivity. Qed.
Lemma gen_dtypes_eq :
  gen_position_dtype = F32 /\ gen_crossing_dtype = crossing_dtype /\
  gen_restored_index_dtype = I64 /\ gen_restored_crossing_dtype = I64.
Proof. repeat split; reflexivity. Qed.

(* ---------------------------------------------------------------- rne *)
Lemma rne_spec : forall n d, 0 < d -> - d <= 2 * (rne n d * d - n) <= d.
Proof.
  intros n d Hd. unfold rne.
  pose proof (Z.div_mod n d ltac:(lia)) as E.
  pose proof (Z.mod_pos_bound n d Hd) as B.
  destruct (Z.compare_spec (2 * (n mod d)) d) as [C|C|C].
  - destruct (Z.even (n / d)); nia.
  - nia.
  - nia.
Qed.

Lemma rne_exact : forall k d, 0 < d -> rne (k * d) d = k.
Proof.
  intros k d Hd. unfold rne.
  rewrite Z.div_mul by lia. rewrite Z.mod_mul by lia.
  destruct (Z.compare_spec (2 * 0) d); lia.
Qed.

(* ---------------------------------------------------------------- Qpow2 *)
Lemma pow2_pos : forall k, 0 <= k -> 0 < 2 ^ k.
Proof. intros; apply Z.pow_pos_nonneg; lia. Qed.

Lemma Qpow2_Qpower : forall k, (Qpow2 k == 2 ^ k)%Q.
Proof.
  intros k. unfold Qpow2. destruct (Z.leb_spec 0 k) as [H|H].
  - rewrite Zpower_Qpower by lia. reflexivity.
  - replace k with (- (- k)) at 2 by lia.
    rewrite Qpower_opp. rewrite <- (Zpower_Qpower 2 (- k)) by lia.
    pose proof (pow2_pos (- k) ltac:(lia)) as P.
    unfold Qeq, Qinv, inject_Z. simpl.
    destruct (2 ^ (- k)) as [|p|p] eqn:E; try lia.
    simpl. lia.
Qed.

Lemma Qpow2_pos : forall k, (0 < Qpow2 k)%Q.
Proof. intros. rewrite Qpow2_Qpower. apply Qpower_0_lt. reflexivity. Qed.

Lemma Qpow2_add : forall a b, (Qpow2 (a + b) == Qpow2 a * Qpow2 b)%Q.
Proof. intros. rewrite !Qpow2_Qpower. apply Qpower_plus. discriminate. Qed.

Lemma Qpow2_inv : forall k, (Qpow2 (- k) * Qpow2 k == 1)%Q.
Proof. intros. rewrite <- Qpow2_add. replace (- k + k) with 0 by lia. reflexivity. Qed.

Lemma Qpow2_le : forall a b, a <= b -> (Qpow2 a <= Qpow2 b)%Q.
Proof. intros. rewrite !Qpow2_Qpower. apply Qpower_le_compat_l; [lia | discriminate]. Qed.

(* ---------------------------------------------------------------- rounding error *)
Lemma rneQ_err : forall m : Q, (Qabs (inject_Z (rneQ m) - m) <= 1 # 2)%Q.
Proof.
  intros [n d]. unfold rneQ. simpl.
  pose proof (rne_spec n (Zpos d) ltac:(lia)) as R.
  unfold Qabs, Qle, Qminus, Qplus, Qopp, inject_Z; simpl. lia.
Qed.

Lemma round32_err : forall x : Q,
  (Qabs (round32 x - x) <= Qpow2 (f32_qexp x - 1))%Q.
Proof.
  intros x. unfold round32.
  destruct (Z.eqb_spec (Qnum x) 0) as [Hz|Hz].
  - assert (0 - x == 0)%Q as E by (destruct x as [n d]; simpl in Hz; subst n; reflexivity).
    rewrite E. simpl Qabs.
    apply Qlt_le_weak, Qpow2_pos.
  - set (q := f32_qexp x).
    set (m := (x * Qpow2 (- q))%Q).
    assert (x == m * Qpow2 q)%Q as Hx.
    { unfold m. rewrite <- Qmult_assoc, Qpow2_inv. ring. }
    setoid_replace (inject_Z (rneQ m) * Qpow2 q - x)%Q with ((inject_Z (rneQ m) - m) * Qpow2 q)%Q
      by (rewrite Hx at 1; ring).
    rewrite Qabs_Qmult.
    rewrite (Qabs_pos (Qpow2 q)) by (apply Qlt_le_weak, Qpow2_pos).
    replace (q - 1) with (-1 + q) by lia. rewrite Qpow2_add.
    apply Qmult_le_compat_r; [ | apply Qlt_le_weak, Qpow2_pos].
    apply rneQ_err.
Qed.

(* ---------------------------------------------------------------- exponent *)
Lemma ilog2_frac_lower : forall n d, 0 < n -> 0 < d -> pow2_le (ilog2_frac n d) n d = true.
Proof.
  intros n d Hn Hd. unfold ilog2_frac.
  destruct (pow2_le (Z.log2 n - Z.log2 d) n d) eqn:E; [exact E|].
  pose proof (Z.log2_spec n Hn) as [Ln _].
  pose proof (Z.log2_spec d Hd) as [_ Ld].
  pose proof (Z.log2_nonneg n). pose proof (Z.log2_nonneg d).
  set (a := Z.log2 n) in *. set (b := Z.log2 d) in *.
  unfold pow2_le. destruct (Z.leb_spec 0 (a - b - 1)) as [H1|H1].
  - (* 2^(a-b-1) * d <= n *)
    assert (2 ^ a = 2 ^ (a - b - 1) * 2 ^ (Z.succ b)) as P
      by (rewrite <- Z.pow_add_r by lia; f_equal; lia).
    pose proof (pow2_pos (a - b - 1) H1). apply Z.leb_le. nia.
  - replace (- (a - b - 1)) with (Z.succ b - a) by lia.
    assert (2 ^ (Z.succ b) = 2 ^ a * 2 ^ (Z.succ b - a)) as P
      by (rewrite <- Z.pow_add_r by lia; f_equal; lia).
    pose proof (pow2_pos (Z.succ b - a) ltac:(lia)). apply Z.leb_le. nia.
Qed.

(* 2^e <= n/d <= 2^k  ->  e <= k *)
Lemma pow2_le_upper : forall e n d k, 0 < d -> 0 <= k -> pow2_le e n d = true -> n <= 2 ^ k * d -> e <= k.
Proof.
  intros e n d k Hd Hk H Hn.
  destruct (Z.leb_spec e k) as [|Hlt]; [assumption|exfalso].
  unfold pow2_le in H. destruct (Z.leb_spec 0 e) as [He|He]; [|lia].
  apply Z.leb_le in H.
  assert (2 ^ (k + 1) <= 2 ^ e) by (apply Z.pow_le_mono_r; lia).
  rewrite Z.pow_add_r in H0 by lia.
  pose proof (pow2_pos k Hk). nia.
Qed.

Lemma f32_qexp_le : forall (x : Q) k, 0 <= k -> (Qabs x <= Qpow2 k)%Q -> f32_qexp x <= Z.max (k - 23) (-149).
Proof.
  intros x k Hk Hx. unfold f32_qexp.
  destruct (Z.eq_dec (Qnum x) 0) as [Hz|Hz].
  - rewrite Hz. change (Z.abs 0) with 0. unfold ilog2_frac. change (Z.log2 0) with 0.
    (* n = 0: ilog2_frac 0 d = 0 - log2 d (- 1) <= 0 *)
    pose proof (Z.log2_nonneg (Zpos (Qden x))).
    destruct (pow2_le _ _ _); lia.
  - pose proof (ilog2_frac_lower (Z.abs (Qnum x)) (Zpos (Qden x)) ltac:(lia) ltac:(lia)) as L.
    assert (Z.abs (Qnum x) <= 2 ^ k * Zpos (Qden x)) as U.
    { unfold Qpow2 in Hx. destruct (Z.leb_spec 0 k); [|lia].
      destruct x as [n d]. unfold Qabs, Qle, inject_Z in Hx. simpl in *. rewrite Z.mul_1_r in Hx. exact Hx. }
    assert (0 < Z.pos (Qden x)) as Hd by lia.
    pose proof (pow2_le_upper _ _ _ k Hd Hk L U). lia.
Qed.

(* |x| <= 2  ->  |round32 x - x| <= 2^-23 *)
Lemma round32_err_le2 : forall x : Q, (Qabs x <= 2)%Q -> (Qabs (round32 x - x) <= Qpow2 (-23))%Q.
Proof.
  intros x Hx.
  eapply Qle_trans; [apply round32_err|].
  apply Qpow2_le.
  pose proof (f32_qexp_le x 1 ltac:(lia) Hx). lia.
Qed.

(* general: |x| <= 2^k (k >= 0) -> error <= 2^(max(k-24,-150)) *)
Lemma round32_err_pow2 : forall (x : Q) k, 0 <= k -> (Qabs x <= Qpow2 k)%Q ->
  (Qabs (round32 x - x) <= Qpow2 (Z.max (k - 24) (-150)))%Q.
Proof.
  intros x k Hk Hx.
  eapply Qle_trans; [apply round32_err|].
  apply Qpow2_le.
  pose proof (f32_qexp_le x k Hk Hx). lia.
Qed.

Lemma pow2_le_Q : forall e (x : Q), Qnum x <> 0 ->
  pow2_le e (Z.abs (Qnum x)) (Zpos (Qden x)) = true -> (Qpow2 e <= Qabs x)%Q.
Proof.
  intros e [n d] Hn H. simpl in *. unfold pow2_le in H. unfold Qpow2.
  destruct (Z.leb_spec 0 e) as [He|He]; apply Z.leb_le in H.
  - unfold Qle, Qabs, inject_Z. cbn [Qnum Qden]. lia.
  - pose proof (pow2_pos (- e) ltac:(lia)) as P.
    unfold Qle, Qabs. cbn [Qnum Qden]. rewrite Z2Pos.id by assumption. lia.
Qed.

(* relative error of the float32 cast in the normal range: at most 2^-24 *)
Lemma round32_rel_err : forall x : Q, (Qpow2 (-126) <= Qabs x)%Q ->
  (Qabs (round32 x - x) <= Qpow2 (-24) * Qabs x)%Q.
Proof.
  intros x Hx.
  assert (Qnum x <> 0) as Hn.
  { intros E. destruct x as [n d]. simpl in E. subst n. vm_compute in Hx. apply Hx. reflexivity. }
  eapply Qle_trans; [apply round32_err|].
  pose proof (ilog2_frac_lower (Z.abs (Qnum x)) (Zpos (Qden x)) ltac:(lia) ltac:(lia)) as L.
  apply pow2_le_Q in L; [|assumption].
  unfold f32_qexp. set (e := ilog2_frac (Z.abs (Qnum x)) (Z.pos (Qden x))) in *.
  destruct (Z.max_spec (e - 23) (-149)) as [[Hlt ->]|[Hge ->]].
  - (* subnormal ulp: 2^-150 <= 2^-24 * 2^-126 <= 2^-24 |x| *)
    change (-149 - 1) with (-24 + -126). rewrite Qpow2_add.
    apply Qmult_le_l; [apply Qpow2_pos|assumption].
  - replace (e - 23 - 1) with (-24 + e) by lia. rewrite Qpow2_add.
    apply Qmult_le_l; [apply Qpow2_pos|assumption].
Qed.

(* ---------------------------------------------------------------- integer casts *)
Lemma wrap_id : forall d z, in_range d z = true -> wrap d z = z.
Proof.
  intros d z H. unfold wrap, in_range, dt_card in *.
  destruct d; simpl in *; rewrite Z.mod_small; lia.
Qed.

Lemma wrap2_id : forall d p, in_range2 d p = true -> wrap2 d p = p.
Proof.
  intros d [a b] H. unfold in_range2, wrap2 in *. simpl in *.
  apply andb_true_iff in H as [Ha Hb]. rewrite !wrap_id by assumption. reflexivity.
Qed.

Lemma map_wrap2_id : forall d l, forallb (in_range2 d) l = true -> map (wrap2 d) l = l.
Proof.
  induction l as [|p l IH]; simpl; intros H; [reflexivity|].
  apply andb_true_iff in H as [Hp Hl]. rewrite wrap2_id, IH by assumption. reflexivity.
Qed.

Lemma wrap_in_range : forall d z, in_range d (wrap d z) = true.
Proof.
  intros d z. unfold wrap, in_range, dt_card.
  assert (0 < dt_max d - dt_min d + 1) by (destruct d; simpl; lia).
  pose proof (Z.mod_pos_bound (z - dt_min d) (dt_max d - dt_min d + 1) H). lia.
Qed.

(* ---------------------------------------------------------------- dtype selection *)
Lemma select_index_dtype_thresholds : forall n,
  select_index_dtype n =
    if n <=? 255 then Some U8 else if n <=? 65535 then Some U16
    else if n <=? 4294967295 then Some U32 else if n <=? 18446744073709551615 then Some U64 else None.
Proof. reflexivity. Qed.

Lemma select_some_fits : forall n d, select_index_dtype n = Some d -> n <= dt_max d /\ dt_min d = 0.
Proof.
  intros n d. rewrite select_index_dtype_thresholds.
  repeat (match goal with |- context [if ?b then _ else _] => destruct b eqn:? end);
    intros E; inversion E; subst; simpl; lia.
Qed.

Lemma select_exists : forall n, n <= dt_max U64 -> exists d, select_index_dtype n = Some d.
Proof.
  intros n H. rewrite select_index_dtype_thresholds. simpl in H.
  repeat (match goal with |- context [if ?b then _ else _] => destruct b eqn:? end); eauto; lia.
Qed.

Lemma select_none : forall n, dt_max U64 < n -> select_index_dtype n = None.
Proof.
  intros n H. rewrite select_index_dtype_thresholds. simpl in H.
  repeat (match goal with |- context [if ?b then _ else _] => destruct b eqn:? end); try reflexivity; lia.
Qed.

Lemma wf_index_in_range : forall n d p, wf_index n p = true -> n <= dt_max d -> dt_min d = 0 -> in_range2 d p = true.
Proof.
  intros n d [a b] H Hn Hm. unfold wf_index, in_range2, in_range in *. simpl in *. lia.
Qed.

(* ---------------------------------------------------------------- check_fits *)
Lemma fold_min_ge : forall l x lo, lo <= fold_left Z.min l x <-> lo <= x /\ Forall (fun z => lo <= z) l.
Proof.
  induction l as [|a l IH]; simpl; intros x lo.
  - split; [intros; split; [assumption|constructor] | intros [H _]; exact H].
  - rewrite IH. split.
    + intros [H F]. split; [lia|]. constructor; [lia|exact F].
    + intros [H F]. inversion F; subst. split; [lia|assumption].
Qed.

Lemma fold_max_le : forall l x hi, fold_left Z.max l x <= hi <-> x <= hi /\ Forall (fun z => z <= hi) l.
Proof.
  induction l as [|a l IH]; simpl; intros x hi.
  - split; [intros; split; [assumption|constructor] | intros [H _]; exact H].
  - rewrite IH. split.
    + intros [H F]. split; [lia|]. constructor; [lia|exact F].
    + intros [H F]. inversion F; subst. split; [lia|assumption].
Qed.

Lemma check_fits_forallb : forall c0 cs d,
  check_fits_test (list_min c0 cs) (list_max c0 cs) d = forallb (in_range d) (c0 :: cs).
Proof.
  intros c0 cs d. apply eq_true_iff_eq. unfold check_fits_test, list_min, list_max.
  rewrite andb_true_iff, !Z.leb_le, fold_min_ge, fold_max_le, forallb_forall.
  split.
  - intros [[H1 F1] [H2 F2]] z [<-|Hz].
    + unfold in_range. lia.
    + rewrite Forall_forall in F1, F2. specialize (F1 z Hz). specialize (F2 z Hz). unfold in_range. lia.
  - intros H.
    assert (forall z, In z (c0 :: cs) -> dt_min d <= z <= dt_max d) as H'
      by (intros z Hz; specialize (H z Hz); unfold in_range in H; lia).
    repeat split; try (apply (H' c0); left; reflexivity);
      apply Forall_forall; intros z Hz; apply H'; right; exact Hz.
Qed.

Lemma forallb_flat : forall d l, forallb (in_range d) (flat l) = forallb (in_range2 d) l.
Proof.
  induction l as [|[a b] l IH]; [reflexivity|].
  unfold flat in *. simpl. rewrite IH. unfold in_range2. simpl. rewrite andb_assoc. reflexivity.
Qed.

Lemma fits_crossing_eq : forall l d,
  match flat l with [] => true | c0 :: cs => check_fits_test (list_min c0 cs) (list_max c0 cs) d end
  = forallb (in_range2 d) l.
Proof.
  intros l d. rewrite <- forallb_flat. destruct (flat l) as [|c0 cs]; [reflexivity|].
  apply check_fits_forallb.
Qed.

(* ---------------------------------------------------------------- getstate *)
Lemma getstate_cache_independent : forall c L, getstate (with_cache c L) = getstate L.
Proof. intros c [p pd i id cr cd ch]. reflexivity. Qed.

Lemma getstate_unfold : forall L,
  getstate L =
  match select_index_dtype (n_vertices L) with
  | None => GSTooManyVertices
  | Some d =>
    if forallb (in_range2 I8) (l_cross L) then
      if existsb overflows2 (l_pos L) then GSPosOverflow
      else GSOk (mkT (map round32_2 (l_pos L)) (map (wrap2 d) (l_idx L)) d (map (wrap2 I8) (l_cross L)) I8)
    else GSCrossingRange
  end.
Proof.
  intros L. unfold getstate. destruct (select_index_dtype (n_vertices L)); [|reflexivity].
  unfold crossing_dtype. rewrite fits_crossing_eq. reflexivity.
Qed.

Lemma getstate_too_many : forall L, dt_max U64 < n_vertices L -> getstate L = GSTooManyVertices.
Proof. intros L H. rewrite getstate_unfold, select_none by assumption. reflexivity. Qed.

Lemma getstate_crossing_range : forall L,
  n_vertices L <= dt_max U64 -> forallb (in_range2 I8) (l_cross L) = false -> getstate L = GSCrossingRange.
Proof.
  intros L H C. rewrite getstate_unfold. destruct (select_exists _ H) as [d ->]. rewrite C. reflexivity.
Qed.

(* the state never holds a wrapped crossing: whenever getstate succeeds the int8 values are the original values *)
Lemma getstate_ok_inv : forall L t, getstate L = GSOk t ->
  s_cross t = l_cross L /\ s_cross_dt t = I8 /\ s_pos t = map round32_2 (l_pos L)
  /\ select_index_dtype (n_vertices L) = Some (s_idx_dt t) /\ s_idx t = map (wrap2 (s_idx_dt t)) (l_idx L).
Proof.
  intros L t. rewrite getstate_unfold.
  destruct (select_index_dtype (n_vertices L)) as [d|]; [|discriminate].
  destruct (forallb (in_range2 I8) (l_cross L)) eqn:C; [|discriminate].
  destruct (existsb overflows2 (l_pos L)); [discriminate|].
  intros E. inversion E; subst; simpl. rewrite map_wrap2_id by assumption. auto.
Qed.

Definition restored_of (L : lat) : lat :=
  mkLat (map round32_2 (l_pos L)) F32 (l_idx L) I64 (l_cross L) I64 fresh_cache.

Lemma roundtrip_values : forall L,
  wf_lat L = true ->
  n_vertices L <= dt_max U64 ->
  forallb (in_range2 I64) (l_idx L) = true ->
  forallb (in_range2 I8) (l_cross L) = true ->
  existsb overflows2 (l_pos L) = false ->
  roundtrip L = Some (restored_of L).
Proof.
  intros L W HV HI HC HO. unfold roundtrip. rewrite getstate_unfold.
  destruct (select_exists _ HV) as [d Hd]. rewrite Hd, HC, HO.
  unfold setstate, init, restored_of. simpl.
  destruct (select_some_fits _ _ Hd) as [Hfit Hmin].
  unfold wf_lat in W. rewrite !andb_true_iff in W. destruct W as [[[_ Wi] _] _].
  assert (forallb (in_range2 d) (l_idx L) = true) as Hid.
  { rewrite forallb_forall in *. intros p Hp. eapply wf_index_in_range; eauto. }
  rewrite (map_wrap2_id d) by assumption.
  rewrite (map_wrap2_id I8) by assumption.
  rewrite (map_wrap2_id I64 (l_idx L)) by assumption.
  rewrite (map_wrap2_id I64 (l_cross L)); [reflexivity|].
  rewrite forallb_forall in *. intros p Hp. specialize (HC p Hp).
  unfold in_range2, in_range in *. simpl in *. lia.
Qed.

(* full strength: the round trip succeeds exactly under these conditions *)
Lemma roundtrip_none_iff : forall L,
  roundtrip L = None <->
  (dt_max U64 < n_vertices L \/ forallb (in_range2 I8) (l_cross L) = false \/ existsb overflows2 (l_pos L) = true).
Proof.
  intros L. unfold roundtrip. rewrite getstate_unfold.
  destruct (Z.leb_spec (n_vertices L) (dt_max U64)) as [H|H].
  - destruct (select_exists _ H) as [d ->].
    destruct (forallb (in_range2 I8) (l_cross L)); destruct (existsb overflows2 (l_pos L));
      split; intros; try discriminate; try reflexivity; auto;
      repeat match goal with H : _ \/ _ |- _ => destruct H end; try discriminate; lia.
  - rewrite select_none by assumption. split; auto.
Qed.

Lemma roundtrip_f32_exact : forall L,
  (forall p, In p (l_pos L) -> round32_2 p = p) -> l_pos (restored_of L) = l_pos L.
Proof.
  intros L H. unfold restored_of. simpl. rewrite <- (map_id (l_pos L)) at 2.
  apply map_ext_in. exact H.
Qed.

(* ---------------------------------------------------------------- lists / broadcasting *)
Lemma all2_sym : forall {X} (f g : X -> X -> bool), (forall a b, f a b = g b a) ->
  forall A B, all2 f A B = all2 g B A.
Proof.
  intros X f g H. induction A as [|a A IH]; destruct B as [|b B]; simpl; try reflexivity.
  rewrite H, IH. reflexivity.
Qed.

Lemma forallb_ext' : forall {X} (f g : X -> bool) l, (forall a, f a = g a) -> forallb f l = forallb g l.
Proof. intros X f g l H. induction l; simpl; [reflexivity|]. rewrite H, IHl. reflexivity. Qed.

Lemma bcast_all_sym : forall {X} (f g : X -> X -> bool), (forall a b, f a b = g b a) ->
  forall A B, bcast_all f A B = bcast_all g B A.
Proof.
  intros X f g H A B. unfold bcast_all. rewrite (Nat.eqb_sym (length B)).
  destruct (Nat.eqb_spec (length A) (length B)) as [E|E].
  - rewrite (all2_sym f g H). reflexivity.
  - destruct A as [|a [|a' A]]; destruct B as [|b [|b' B]]; simpl in *; try reflexivity; try lia;
      try (rewrite !H; reflexivity);
      try (f_equal; rewrite !H; f_equal; try (f_equal); apply forallb_ext'; intros; apply H).
Qed.

Lemma bcast_all_same_len : forall {X} (f : X -> X -> bool) A B,
  length A = length B -> bcast_all f A B = Some (all2 f A B).
Proof. intros X f A B E. unfold bcast_all. rewrite E, Nat.eqb_refl. reflexivity. Qed.

Lemma all2_Forall2 : forall {X} (f : X -> X -> bool) A B, length A = length B ->
  (all2 f A B = true <-> Forall2 (fun a b => f a b = true) A B).
Proof.
  intros X f. induction A as [|a A IH]; destruct B as [|b B]; simpl; intros E; try discriminate.
  - split; [constructor|reflexivity].
  - injection E as E. rewrite andb_true_iff, (IH B E). split.
    + intros [H1 H2]. constructor; assumption.
    + intros H. inversion H; subst. split; assumption.
Qed.

Lemma zpair_eqb_eq : forall a b, zpair_eqb a b = true <-> a = b.
Proof.
  intros [a1 a2] [b1 b2]. unfold zpair_eqb. simpl. rewrite andb_true_iff, !Z.eqb_eq.
  split; [intros [-> ->]; reflexivity | intros E; inversion E; auto].
Qed.

Lemma zpair_eqb_sym : forall a b, zpair_eqb a b = zpair_eqb b a.
Proof. intros [a1 a2] [b1 b2]. unfold zpair_eqb. simpl. rewrite (Z.eqb_sym a1), (Z.eqb_sym a2). reflexivity. Qed.

Lemma Forall2_eq : forall {X} (A B : list X), Forall2 eq A B <-> A = B.
Proof.
  intros X. induction A as [|a A IH]; destruct B as [|b B]; split; intros H; try inversion H; subst; try constructor; auto.
  - f_equal. apply IH. assumption.
  - apply IH. reflexivity.
Qed.

Lemma all2_zpair_eq : forall A B, length A = length B -> (all2 zpair_eqb A B = true <-> A = B).
Proof.
  intros A B E. rewrite (all2_Forall2 _ _ _ E), <- Forall2_eq.
  split; intros H; induction H; constructor; auto; apply zpair_eqb_eq; assumption.
Qed.

(* ---------------------------------------------------------------- __eq__ *)
(* squared Euclidean displacement, and "displaced by at most a hundredth of the mean spacing 1/sqrt(nv)" *)
Definition dist2 (a b : qpair) : Q :=
  ((fst a - fst b) * (fst a - fst b) + (snd a - snd b) * (snd a - snd b))%Q.
Definition within (nv : Z) (a b : qpair) : Prop := (dist2 a b * inject_Z (10000 * nv) <= 1)%Q.

Lemma close2_iff : forall nv a b, close2 nv a b = true <-> within nv a b.
Proof. intros. unfold close2, within, dist2. apply Qle_bool_iff. Qed.

Lemma close2_sym : forall nv a b, close2 nv a b = close2 nv b a.
Proof.
  intros nv a b. unfold close2. apply Qleb_comp; [|reflexivity]. ring.
Qed.

Lemma close2_refl : forall nv a, 0 <= nv -> close2 nv a a = true.
Proof.
  intros nv a H. unfold close2. apply Qle_bool_iff.
  setoid_replace (((fst a - fst a) * (fst a - fst a) + (snd a - snd a) * (snd a - snd a)) * inject_Z (10000 * nv))%Q
    with 0%Q by ring. discriminate.
Qed.

Definition shaped (L : lat) : Prop := length (l_cross L) = length (l_idx L).

Lemma shapes_differ_false : forall A B, shapes_differ A B = false <->
  length (l_pos A) = length (l_pos B) /\ length (l_idx A) = length (l_idx B).
Proof.
  intros A B. unfold shapes_differ. rewrite orb_false_iff, !negb_false_iff, !Nat.eqb_eq. reflexivity.
Qed.

Lemma lat_eq_total : forall A B, shaped A -> shaped B -> exists b, lat_eq A B = Some b.
Proof.
  intros A B SA SB. unfold lat_eq. destruct (shapes_differ A B) eqn:S; [eexists; reflexivity|].
  apply shapes_differ_false in S as [Sp Si]. unfold eq_core, shaped in *.
  rewrite !bcast_all_same_len by congruence. eexists; reflexivity.
Qed.

Lemma py_eq_total : forall A o, shaped A -> (forall B, o = PyLattice B -> shaped B) ->
  exists b, py_eq A o = Some b /\ py_ne A o = Some (negb b).
Proof.
  intros A [B|] SA SB; unfold py_ne; simpl.
  - destruct (lat_eq_total A B SA (SB B eq_refl)) as [b ->]. eexists; split; reflexivity.
  - eexists; split; reflexivity.
Qed.

Lemma py_eq_other : forall A, py_eq A PyOther = Some false /\ py_ne A PyOther = Some true.
Proof. intros; split; reflexivity. Qed.

Lemma lat_eq_sym : forall A B, lat_eq A B = lat_eq B A.
Proof.
  intros A B. unfold lat_eq.
  assert (shapes_differ A B = shapes_differ B A) as S
    by (unfold shapes_differ; rewrite (Nat.eqb_sym (length (l_pos A))), (Nat.eqb_sym (length (l_idx A))); reflexivity).
  rewrite <- S. destruct (shapes_differ A B) eqn:D; [reflexivity|].
  apply shapes_differ_false in D as [Sp Si]. unfold eq_core.
  assert (n_vertices A = n_vertices B) as N by (unfold n_vertices; congruence).
  rewrite (bcast_all_sym (close2 (n_vertices A)) (close2 (n_vertices B))) by (intros; rewrite N; apply close2_sym).
  rewrite (bcast_all_sym zpair_eqb zpair_eqb zpair_eqb_sym (l_idx A)).
  rewrite (bcast_all_sym zpair_eqb zpair_eqb zpair_eqb_sym (l_cross A)).
  reflexivity.
Qed.

Lemma lat_eq_refl : forall A, shaped A -> lat_eq A A = Some true.
Proof.
  intros A SA. unfold lat_eq.
  assert (shapes_differ A A = false) as -> by (apply shapes_differ_false; auto).
  unfold eq_core. rewrite !bcast_all_same_len by reflexivity.
  assert (forall l, all2 zpair_eqb l l = true) as Z
    by (induction l; simpl; [reflexivity|]; rewrite IHl, andb_true_r; apply zpair_eqb_eq; reflexivity).
  rewrite !Z.
  assert (all2 (close2 (n_vertices A)) (l_pos A) (l_pos A) = true) as ->; [|reflexivity].
  assert (0 <= n_vertices A) as N by (unfold n_vertices; lia).
  induction (l_pos A); simpl; [reflexivity|]. rewrite close2_refl by assumption. assumption.
Qed.

(* exact characterisation of "compares equal" *)
Lemma lat_eq_true_iff : forall A B, shaped A -> shaped B ->
  (lat_eq A B = Some true <->
   length (l_pos A) = length (l_pos B) /\ l_idx A = l_idx B /\ l_cross A = l_cross B /\
   Forall2 (within (n_vertices A)) (l_pos A) (l_pos B)).
Proof.
  intros A B SA SB. unfold lat_eq, shaped in *.
  destruct (shapes_differ A B) eqn:D.
  - split; [discriminate|]. intros (Hp & Hi & _ & _).
    assert (shapes_differ A B = false) by (apply shapes_differ_false; split; congruence). congruence.
  - apply shapes_differ_false in D as [Sp Si].
    assert (length (l_cross A) = length (l_cross B)) as Sc by congruence.
    unfold eq_core. rewrite !bcast_all_same_len by assumption.
    split.
    + intros E. injection E as E. rewrite !andb_true_iff in E. destruct E as [[Ep Ei] Ec].
      apply all2_zpair_eq in Ei, Ec; try assumption.
      apply all2_Forall2 in Ep; try assumption.
      repeat split; try assumption.
      clear -Ep. induction Ep; constructor; auto. apply close2_iff. assumption.
    + intros (_ & Hi & Hc & Hp). f_equal. rewrite !andb_true_iff. repeat split.
      * apply all2_Forall2; [assumption|]. clear -Hp. induction Hp; constructor; auto. apply close2_iff. assumption.
      * apply all2_zpair_eq; assumption.
      * apply all2_zpair_eq; assumption.
Qed.

Lemma lat_eq_detects_edge : forall A B, shaped A -> shaped B -> l_idx A <> l_idx B -> lat_eq A B = Some false.
Proof.
  intros A B SA SB H. destruct (lat_eq_total A B SA SB) as [[|] E]; [|assumption].
  apply lat_eq_true_iff in E; try assumption. tauto.
Qed.

Lemma lat_eq_detects_crossing : forall A B, shaped A -> shaped B -> l_cross A <> l_cross B -> lat_eq A B = Some false.
Proof.
  intros A B SA SB H. destruct (lat_eq_total A B SA SB) as [[|] E]; [|assumption].
  apply lat_eq_true_iff in E; try assumption. tauto.
Qed.

Lemma lat_eq_detects_size : forall A B, shaped A -> shaped B ->
  (length (l_pos A) <> length (l_pos B) \/ length (l_idx A) <> length (l_idx B)) -> lat_eq A B = Some false.
Proof.
  intros A B SA SB H. destruct (lat_eq_total A B SA SB) as [[|] E]; [|assumption].
  apply lat_eq_true_iff in E; try assumption. destruct E as (E1 & E2 & _). rewrite E2 in H. tauto.
Qed.

(* a vertex displaced by more than (1/sqrt V)/100, i.e. dist^2 * 10000 * V > 1, is detected *)
Lemma lat_eq_detects_displacement : forall A B i, shaped A -> shaped B ->
  (i < length (l_pos A))%nat -> (i < length (l_pos B))%nat ->
  ~ within (n_vertices A) (nth i (l_pos A) (0, 0)%Q) (nth i (l_pos B) (0, 0)%Q) ->
  lat_eq A B = Some false.
Proof.
  intros A B i SA SB HA HB H. destruct (lat_eq_total A B SA SB) as [[|] E]; [|assumption].
  exfalso. apply H. apply lat_eq_true_iff in E; try assumption. destruct E as (_ & _ & _ & F).
  clear -F HA. revert i HA. induction F; intros i Hi; simpl in *; [lia|].
  destruct i; [assumption|]. apply IHF. lia.
Qed.

(* ... and nothing else is: same edges, same crossings, every vertex within the tolerance -> equal *)
Lemma lat_eq_no_false_alarm : forall A B, shaped A -> shaped B ->
  length (l_pos A) = length (l_pos B) -> l_idx A = l_idx B -> l_cross A = l_cross B ->
  (forall i, (i < length (l_pos A))%nat ->
     within (n_vertices A) (nth i (l_pos A) (0, 0)%Q) (nth i (l_pos B) (0, 0)%Q)) ->
  lat_eq A B = Some true.
Proof.
  intros A B SA SB Hp Hi Hc H. apply lat_eq_true_iff; try assumption. repeat split; try assumption.
  revert H Hp. generalize (n_vertices A) as nv. generalize (l_pos B) as Q. generalize (l_pos A) as P.
  induction P as [|a P IH]; destruct Q as [|b Q]; simpl; intros nv H E; try discriminate; constructor.
  - apply (H 0%nat). lia.
  - apply IH; [|lia]. intros i Hi'. apply (H (S i)). lia.
Qed.

(* without the shape test of fix 8051f8a the comparison raises on lattices of different sizes *)
Lemma lat_eq_noshape_total_refuted :
  exists A B, wf_lat A = true /\ wf_lat B = true /\ lat_eq_noshape A B = None.
Proof.
  exists (mkLat [(1#4, 1#4); (3#4, 1#4)]%Q F64 [(0, 1)] I64 [(0, 0)] I64 fresh_cache).
  exists (mkLat [(1#4, 1#4); (3#4, 1#4); (1#2, 3#4)]%Q F64 [(0, 1); (1, 2); (2, 0)] I64 [(0, 0); (0, 0); (0, 0)] I64 fresh_cache).
  repeat split; vm_compute; reflexivity.
Qed.

(* ---------------------------------------------------------------- round trip compares equal *)
Lemma within_of_err : forall nv a b e,
  (0 <= e)%Q -> (Qabs (fst a - fst b) <= e)%Q -> (Qabs (snd a - snd b) <= e)%Q ->
  (0 <= inject_Z (10000 * nv))%Q -> (2 * e * e * inject_Z (10000 * nv) <= 1)%Q -> within nv a b.
Proof.
  intros nv a b e He Hx Hy HK H. unfold within, dist2.
  set (dx := (fst a - fst b)%Q) in *. set (dy := (snd a - snd b)%Q) in *. set (K := inject_Z (10000 * nv)) in *.
  apply Qabs_Qle_condition in Hx, Hy. destruct Hx as [Hx1 Hx2]. destruct Hy as [Hy1 Hy2].
  assert (0 <= (e - dx) * (e + dx))%Q as Px by (apply Qmult_le_0_compat; lra).
  assert (0 <= (e - dy) * (e + dy))%Q as Py by (apply Qmult_le_0_compat; lra).
  setoid_replace ((e - dx) * (e + dx))%Q with (e * e - dx * dx)%Q in Px by ring.
  setoid_replace ((e - dy) * (e + dy))%Q with (e * e - dy * dy)%Q in Py by ring.
  clearbody dx dy K.
  assert (dx * dx <= e * e)%Q as Sx by (apply Qle_minus_iff; exact Px).
  assert (dy * dy <= e * e)%Q as Sy by (apply Qle_minus_iff; exact Py).
  clear Px Py.
  set (sx := (dx * dx)%Q) in *. set (sy := (dy * dy)%Q) in *.
  eapply Qle_trans; [|exact H].
  apply Qmult_le_compat_r; [|assumption].
  setoid_replace (2 * e * e)%Q with (e * e + e * e)%Q by ring.
  apply Qplus_le_compat; assumption.
Qed.

Definition pos_in_box (p : qpair) : Prop := (Qabs (fst p) <= 2 /\ Qabs (snd p) <= 2)%Q.

Lemma within_round32 : forall nv p, 0 <= nv -> 20000 * nv <= 2 ^ 46 -> pos_in_box p -> within nv p (round32_2 p).
Proof.
  intros nv p H0 HV [Hx Hy].
  apply (within_of_err nv p (round32_2 p) (Qpow2 (-23))).
  - discriminate.
  - unfold round32_2. simpl fst.
    setoid_replace (fst p - round32 (fst p))%Q with (- (round32 (fst p) - fst p))%Q by ring.
    rewrite Qabs_opp. apply round32_err_le2. assumption.
  - unfold round32_2. simpl snd.
    setoid_replace (snd p - round32 (snd p))%Q with (- (round32 (snd p) - snd p))%Q by ring.
    rewrite Qabs_opp. apply round32_err_le2. assumption.
  - unfold Qle, inject_Z. cbn [Qnum Qden]. lia.
  - change (Qpow2 (-23)) with (1 # 8388608)%Q. change (2 ^ 46) with 70368744177664 in HV.
    unfold Qle, Qmult, inject_Z. cbn [Qnum Qden]. lia.
Qed.

Lemma roundtrip_eq : forall L,
  wf_lat L = true ->
  20000 * n_vertices L <= 2 ^ 46 ->
  (forall p, In p (l_pos L) -> pos_in_box p) ->
  lat_eq L (restored_of L) = Some true /\ lat_eq (restored_of L) L = Some true.
Proof.
  intros L W HV HB.
  assert (shaped L) as SL.
  { unfold wf_lat in W. rewrite !andb_true_iff in W. destruct W as [[[W _] _] _]. apply Nat.eqb_eq in W. exact W. }
  assert (shaped (restored_of L)) as SR by exact SL.
  assert (lat_eq L (restored_of L) = Some true) as E.
  { apply lat_eq_true_iff; try assumption. unfold restored_of; simpl.
    rewrite map_length. repeat split.
    assert (0 <= n_vertices L) as N by (unfold n_vertices; lia).
    revert HB. generalize (n_vertices L) N HV. intros nv N0 N1.
    induction (l_pos L) as [|p P IH]; simpl; intros HB; constructor.
    - apply within_round32; [assumption|assumption|apply HB; left; reflexivity].
    - apply IH. intros q Hq. apply HB. right. assumption. }
  split; [exact E|]. rewrite lat_eq_sym. exact E.
Qed.

Lemma box_of_interval : forall p : qpair,
  (-1 <= fst p <= 2)%Q -> (-1 <= snd p <= 2)%Q -> pos_in_box p.
Proof.
  intros p [H1 H2] [H3 H4]. split; apply Qabs_Qle_condition; split; lra.
Qed.

(* ---------------------------------------------------------------- legacy dict state *)
Lemma setstate_dict : forall L, setstate (DictState L) = L.
Proof. reflexivity. Qed.

Lemma legacy_dict_eq : forall L, shaped L ->
  lat_eq L (setstate (DictState L)) = Some true /\ lat_eq (setstate (DictState L)) L = Some true.
Proof. intros L S. rewrite setstate_dict. split; apply lat_eq_refl; assumption. Qed.

(* ---------------------------------------------------------------- statements in the form used by Props/C09.v *)
Lemma roundtrip_values_spec : forall L,
  wf_lat L = true ->
  n_vertices L <= dt_max U64 ->
  forallb (in_range2 I64) (l_idx L) = true ->
  forallb (in_range2 I8) (l_cross L) = true ->
  existsb overflows2 (l_pos L) = false ->
  exists R, roundtrip L = Some R /\
    l_idx R = l_idx L /\ l_cross R = l_cross L /\ l_pos R = map round32_2 (l_pos L) /\
    l_pos_dt R = F32 /\ l_idx_dt R = I64 /\ l_cross_dt R = I64 /\ l_cache R = fresh_cache.
Proof.
  intros L W HV HI HC HO. exists (restored_of L). split; [apply roundtrip_values; assumption|].
  repeat split.
Qed.

Lemma roundtrip_some_inv : forall L R,
  wf_lat L = true -> n_vertices L <= dt_max I64 -> roundtrip L = Some R -> R = restored_of L.
Proof.
  intros L R W HV E.
  assert (roundtrip L <> None) as NN by congruence.
  rewrite roundtrip_none_iff in NN.
  assert (n_vertices L <= dt_max U64) as HV' by (simpl in *; lia).
  destruct (forallb (in_range2 I8) (l_cross L)) eqn:HC; [|tauto].
  destruct (existsb overflows2 (l_pos L)) eqn:HO; [tauto|].
  assert (forallb (in_range2 I64) (l_idx L) = true) as HI.
  { unfold wf_lat in W. rewrite !andb_true_iff in W. destruct W as [[[_ Wi] _] _].
    rewrite forallb_forall in *. intros [a b] Hp. specialize (Wi _ Hp).
    unfold wf_index, in_range2, in_range in *. simpl in *. lia. }
  rewrite (roundtrip_values L W HV' HI HC HO) in E. congruence.
Qed.

Lemma roundtrip_eq_spec : forall L R,
  wf_lat L = true ->
  20000 * n_vertices L <= 2 ^ 46 ->
  (forall p, In p (l_pos L) -> (-1 <= fst p <= 2)%Q /\ (-1 <= snd p <= 2)%Q) ->
  roundtrip L = Some R ->
  lat_eq L R = Some true /\ lat_eq R L = Some true /\
  py_ne L (PyLattice R) = Some false /\ py_ne R (PyLattice L) = Some false.
Proof.
  intros L R W HV HB E.
  assert (n_vertices L <= dt_max I64) as HV' by (change (2 ^ 46) with 70368744177664 in HV; simpl; lia).
  rewrite (roundtrip_some_inv L R W HV' E).
  destruct (roundtrip_eq L W HV) as [E1 E2].
  { intros p Hp. destruct (HB p Hp). apply box_of_interval; assumption. }
  unfold py_ne, py_eq. rewrite E1, E2. repeat split.
Qed.

Lemma py_eq_sym : forall A B, py_eq A (PyLattice B) = py_eq B (PyLattice A).
Proof. intros. simpl. apply lat_eq_sym. Qed.

(* ---------------------------------------------------------------- float32 numbers are fixed points *)
Lemma Qpow2_nonneg_inject : forall k, 0 <= k -> Qpow2 k = inject_Z (2 ^ k).
Proof. intros k H. unfold Qpow2. destruct (Z.leb_spec 0 k); [reflexivity|lia]. Qed.

Lemma Qpow2_num_pos : forall e, 0 < Qnum (Qpow2 e).
Proof.
  intros e. unfold Qpow2. destruct (Z.leb_spec 0 e); simpl; [apply pow2_pos; assumption|lia].
Qed.

Lemma rneQ_of_int : forall (m : Q) k, (m == inject_Z k)%Q -> rneQ m = k.
Proof.
  intros [n d] k H. unfold Qeq, inject_Z in H. simpl in H. unfold rneQ. simpl.
  replace n with (k * Z.pos d) by lia. apply rne_exact. lia.
Qed.

Lemma Qpow2_lt_exp : forall a b (x : Q), (Qpow2 a <= x)%Q -> (x < Qpow2 b)%Q -> a < b.
Proof.
  intros a b x H1 H2. destruct (Z.lt_ge_cases a b) as [|Hge]; [assumption|exfalso].
  pose proof (Qpow2_le b a Hge). apply (Qlt_irrefl x).
  eapply Qlt_le_trans; [exact H2|]. eapply Qle_trans; eassumption.
Qed.

Lemma round32_fixed : forall m e : Z, Z.abs m < 2 ^ 24 -> -149 <= e ->
  (round32 (inject_Z m * Qpow2 e) == inject_Z m * Qpow2 e)%Q.
Proof.
  intros m e Hm He. set (x := (inject_Z m * Qpow2 e)%Q).
  unfold round32.
  assert (Qnum x = m * Qnum (Qpow2 e)) as Nx by reflexivity.
  pose proof (Qpow2_num_pos e) as Pp.
  destruct (Z.eqb_spec (Qnum x) 0) as [Hz|Hz].
  - assert (m = 0) by nia. subst m. unfold x. ring.
  - assert (m <> 0) as Hm0 by nia.
    set (q := f32_qexp x).
    assert (q <= e) as Hq.
    { unfold q, f32_qexp.
      pose proof (ilog2_frac_lower (Z.abs (Qnum x)) (Zpos (Qden x)) ltac:(lia) ltac:(lia)) as L.
      apply pow2_le_Q in L; [|assumption].
      assert (Qabs x < Qpow2 (24 + e))%Q as U.
      { unfold x. rewrite Qabs_Qmult, (Qabs_pos (Qpow2 e)) by (apply Qlt_le_weak, Qpow2_pos).
        rewrite Qpow2_add. apply Qmult_lt_r; [apply Qpow2_pos|].
        rewrite (Qpow2_nonneg_inject 24) by lia. unfold Qabs, inject_Z, Qlt. simpl Qnum. simpl Qden. lia. }
      pose proof (Qpow2_lt_exp _ _ _ L U). lia. }
    assert (x * Qpow2 (- q) == inject_Z (m * 2 ^ (e - q)))%Q as Hint.
    { unfold x. rewrite <- Qmult_assoc, <- Qpow2_add.
      replace (e + - q) with (e - q) by lia.
      rewrite (Qpow2_nonneg_inject (e - q)) by lia. rewrite inject_Z_mult. reflexivity. }
    rewrite (rneQ_of_int _ _ Hint).
    rewrite inject_Z_mult, <- (Qpow2_nonneg_inject (e - q)) by lia.
    rewrite <- Qmult_assoc, <- Qpow2_add. replace (e - q + q) with e by lia. reflexivity.
Qed.

(* positions that are numerically float32 numbers survive the round trip numerically unchanged *)
Definition qpair_eq (a b : qpair) : Prop := (fst a == fst b /\ snd a == snd b)%Q.

Lemma roundtrip_f32_exact_Q : forall L,
  (forall p, In p (l_pos L) -> qpair_eq (round32_2 p) p) -> Forall2 qpair_eq (l_pos (restored_of L)) (l_pos L).
Proof.
  intros L H. unfold restored_of. simpl. induction (l_pos L) as [|p P IH]; simpl; constructor.
  - apply H. left. reflexivity.
  - apply IH. intros q Hq. apply H. right. assumption.
Qed.

Lemma roundtrip_exact_on_float32_spec : forall L R,
  wf_lat L = true -> n_vertices L <= dt_max I64 -> roundtrip L = Some R ->
  (forall p, In p (l_pos L) -> qpair_eq (round32_2 p) p) ->
  Forall2 qpair_eq (l_pos R) (l_pos L) /\ l_idx R = l_idx L /\ l_cross R = l_cross L.
Proof.
  intros L R W HV E H. rewrite (roundtrip_some_inv L R W HV E).
  split; [apply roundtrip_f32_exact_Q; assumption|]. split; reflexivity.
Qed.

(* ---------------------------------------------------------------- round trip compares equal, any box 2^k *)
Lemma within_round32_pow2 : forall nv p k, 0 <= nv -> 0 <= k -> 20000 * nv * 4 ^ k <= 2 ^ 48 ->
  (Qabs (fst p) <= Qpow2 k)%Q -> (Qabs (snd p) <= Qpow2 k)%Q -> within nv p (round32_2 p).
Proof.
  intros nv p k H0 Hk HV Hx Hy.
  apply (within_of_err nv p (round32_2 p) (Qpow2 (k - 24))).
  - apply Qlt_le_weak, Qpow2_pos.
  - unfold round32_2. simpl fst.
    setoid_replace (fst p - round32 (fst p))%Q with (- (round32 (fst p) - fst p))%Q by ring.
    rewrite Qabs_opp. pose proof (round32_err_pow2 (fst p) k Hk Hx) as E.
    rewrite Z.max_l in E by lia. exact E.
  - unfold round32_2. simpl snd.
    setoid_replace (snd p - round32 (snd p))%Q with (- (round32 (snd p) - snd p))%Q by ring.
    rewrite Qabs_opp. pose proof (round32_err_pow2 (snd p) k Hk Hy) as E.
    rewrite Z.max_l in E by lia. exact E.
  - unfold Qle, inject_Z. cbn [Qnum Qden]. lia.
  - setoid_replace (2 * Qpow2 (k - 24) * Qpow2 (k - 24) * inject_Z (10000 * nv))%Q
      with (inject_Z (20000 * nv * 4 ^ k) * Qpow2 (-48))%Q.
    + change (Qpow2 (-48)) with (1 # 281474976710656)%Q. change (2 ^ 48) with 281474976710656 in HV.
      unfold Qle, Qmult, inject_Z. cbn [Qnum Qden]. lia.
    + replace (k - 24) with (k + -24) by lia. rewrite Qpow2_add.
      rewrite (Qpow2_nonneg_inject k) by lia.
      replace (4 ^ k) with (2 ^ k * 2 ^ k).
      2:{ change 4 with (2 * 2). rewrite Z.pow_mul_l. reflexivity. }
      replace (20000 * nv * (2 ^ k * 2 ^ k)) with (2 * (2 ^ k * 2 ^ k) * (10000 * nv)) by ring.
      rewrite !inject_Z_mult.
      change (Qpow2 (-48)) with (Qpow2 (-24) * Qpow2 (-24))%Q. ring.
Qed.

Lemma roundtrip_eq_pow2 : forall L R k,
  wf_lat L = true -> 0 <= k ->
  20000 * n_vertices L * 4 ^ k <= 2 ^ 48 ->
  (forall p, In p (l_pos L) -> (Qabs (fst p) <= Qpow2 k)%Q /\ (Qabs (snd p) <= Qpow2 k)%Q) ->
  roundtrip L = Some R ->
  lat_eq L R = Some true /\ lat_eq R L = Some true.
Proof.
  intros L R k W Hk HV HB E.
  assert (0 < 4 ^ k) by (apply Z.pow_pos_nonneg; lia).
  assert (n_vertices L <= dt_max I64) as HV'.
  { change (2 ^ 48) with 281474976710656 in HV. simpl. nia. }
  rewrite (roundtrip_some_inv L R W HV' E).
  assert (shaped L) as SL.
  { unfold wf_lat in W. rewrite !andb_true_iff in W. destruct W as [[[W _] _] _]. apply Nat.eqb_eq in W. exact W. }
  assert (lat_eq L (restored_of L) = Some true) as EQ.
  { apply lat_eq_true_iff; try assumption. unfold restored_of; simpl.
    rewrite map_length. repeat split.
    assert (0 <= n_vertices L) as N by (unfold n_vertices; lia).
    revert HB. generalize (n_vertices L) N HV. intros nv N0 N1.
    induction (l_pos L) as [|p P IH]; simpl; intros HB; constructor.
    - destruct (HB p (or_introl eq_refl)). apply (within_round32_pow2 nv p k); assumption.
    - apply IH. intros q Hq. apply HB. right. assumption. }
  split; [exact EQ|]. rewrite lat_eq_sym. exact EQ.
Qed.
