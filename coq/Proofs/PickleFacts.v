(* Proofs/PickleFacts.v — lemmas about Model/Pickle.v (C09). *)
From Coq Require Import List ZArith Bool Arith QArith Qabs Lia ZifyBool.
From Koala Require Import Model.Pickle Gen.PickleGen.
Import ListNotations.
Open Scope Z_scope.

(* ---------------------------------------------------------------- tie to the source (translator) *)
Lemma gen_candidates_eq : gen_index_dtype_candidates = index_dtype_candidates.
Proof. reflexivity. Qed.
Lemma gen_fits_eq : forall n d, gen_fits n d = fits n d.
Proof. reflexivity. Qed.
Lemma gen_check_fits_eq : forall e mn mx d,
  gen_check_fits e mn mx d = (e || check_fits_test mn mx d).
Proof. reflexivity. Qed.
Lemma gen_dtypes_eq :
  gen_position_dtype = F32 /\ gen_crossing_dtype = crossing_dtype /\
  gen_restored_index_dtype = I64 /\ gen_restored_crossing_dtype = I64.
Proof. repeat split; reflexivity. Qed.

(* ---------------------------------------------------------------- legacy dict state *)
Lemma setstate_dict : forall L, setstate (DictState L) = L.
Proof. reflexivity. Qed.
