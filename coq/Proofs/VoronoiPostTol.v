(* Proofs/VoronoiPostTol.v — post_correct from the index-level ("tolerant") periodicity of the record
   (Model/VoronoiPeriodicTol.pvor_t_ok), which also holds for Qhull's float circumcentres. *)
From Coq Require Import List ZArith Bool Arith Lia Sorted.
From Koala Require Import Model.Lattice Model.Delaunay Model.VoronoiPost Model.VoronoiPeriodic.
From Koala Require Import Model.VoronoiPeriodicTol Model.VoronoiDual.
From Koala Require Import Proofs.DelaunayFacts Proofs.VoronoiPostFacts Proofs.VoronoiPostCorrect.
From Koala Require Import Proofs.VoronoiPostDual.
Import ListNotations.
Open Scope Z_scope.

Record pvor_t (S : Z) (vs : list pt) (rv : list (Z * Z)) : Prop := mkPvorT {
  pt_S : 0 < S;
  pt_wf : forall r, In r rv -> ridge_wf (length vs) r = true;
  pt_distinct : forall r, In r rv -> finite r = true -> fst r <> snd r;
  pt_nodup : NoDup vs;
  pt_dir : NoDup (map (dir_edge S vs) (select S vs 1 rv));
  pt_ridges2 : NoDup (map upair (select S vs 2 rv));
  pt_cross : forall r, In r (select S vs 1 rv) ->
     let i := inner S vs r in
     let o := outer S vs r in
     let o' := img S vs o in
     in_unit S (nth o' vs (0, 0)) = true /\ o' <> Z.to_nat i /\
     exists r', In r' rv /\ is_translate_t S vs i o' (cell_pt S (vat vs o)) r' = true }.

Lemma edge_eqb_eq : forall e e' : edge, edge_eqb e e' = true <-> e = e'.
Proof.
  intros [jk c] [jk' c']. unfold edge_eqb. simpl. rewrite andb_true_iff, natpair_eqb_eq, pt_eqb_eq.
  split; [intros [-> ->]; reflexivity|intro H; inversion H; auto].
Qed.

Theorem pvor_t_ok_spec : forall S vs rv, pvor_t_ok S vs rv = true -> pvor_t S vs rv.
Proof.
  intros S vs rv H. unfold pvor_t_ok in H. rewrite !andb_true_iff in H.
  destruct H as ((((((H1 & H2) & H2') & H3) & H4) & H4') & H5).
  rewrite forallb_forall in H2, H2', H5. constructor.
  - apply Z.ltb_lt. exact H1.
  - exact H2.
  - intros r Hr Hf E. specialize (H2' r Hr). rewrite Hf in H2'. simpl in H2'.
    apply negb_true_iff in H2'. apply Z.eqb_neq in H2'. contradiction.
  - apply (nodup_by_NoDup _ pt_eqb pt_eqb_refl). exact H3.
  - apply (nodup_by_NoDup _ edge_eqb); [intro x; apply edge_eqb_eq; reflexivity|exact H4].
  - apply (nodup_by_NoDup _ pt_eqb pt_eqb_refl). exact H4'.
  - intros r Hr i o o'. specialize (H5 r Hr). unfold cross_ok_t in H5. fold i o o' in H5.
    rewrite !andb_true_iff in H5. destruct H5 as ((A & B) & C).
    split; [exact A|]. split; [apply negb_true_iff in B; apply Nat.eqb_neq in B; exact B|].
    apply existsb_exists in C. exact C.
Qed.

Lemma is_translate_t_spec : forall S vs i o' c r', is_translate_t S vs i o' c r' = true ->
  let a' := if fst r' =? Z.of_nat o' then snd r' else fst r' in
  finite r' = true /\ (fst r' =? Z.of_nat o') || (snd r' =? Z.of_nat o') = true /\
  in_unit S (vat vs a') = false /\ img S vs a' = Z.to_nat i /\ cell_pt S (vat vs a') = pt_opp c.
Proof.
  intros S vs i o' c r' H a'. unfold is_translate_t in H. fold a' in H.
  destruct (finite r' && ((fst r' =? Z.of_nat o') || (snd r' =? Z.of_nat o'))) eqn:E1; [|discriminate].
  apply andb_true_iff in E1. destruct E1 as [F Ho].
  destruct (in_unit S (vat vs a')) eqn:E2; [discriminate|].
  destruct (img S vs a' =? Z.to_nat i)%nat eqn:E3; [|discriminate].
  apply Nat.eqb_eq in E3. apply pt_eqb_eq in H. auto.
Qed.

Lemma crossing_ends_t : forall S vs rv r, pvor_t S vs rv -> In r (select S vs 1 rv) ->
  In r rv /\ finite r = true /\
  0 <= fst r < Z.of_nat (length vs) /\ 0 <= snd r < Z.of_nat (length vs) /\
  ((in_unit S (vat vs (fst r)) = true /\ in_unit S (vat vs (snd r)) = false) \/
   (in_unit S (vat vs (fst r)) = false /\ in_unit S (vat vs (snd r)) = true)).
Proof.
  intros S vs rv r HP Hr. apply select_spec in Hr. destruct Hr as (Hin & Hc & Hf).
  destruct (finite_wf_range _ r (pt_wf _ _ _ HP r Hin) Hf) as [R1 R2].
  split; [exact Hin|]. split; [exact Hf|]. split; [exact R1|]. split; [exact R2|].
  rewrite count_in_finite in Hc by lia.
  destruct (in_unit S (vat vs (fst r))), (in_unit S (vat vs (snd r))); simpl in Hc; try discriminate; auto.
Qed.

(* a crossing ridge seen from its inner end *)
Lemma crossing_io_t : forall S vs rv r, pvor_t S vs rv -> In r (select S vs 1 rv) ->
  exists i o, (r = (i, o) \/ r = (o, i)) /\
    0 <= i < Z.of_nat (length vs) /\ 0 <= o < Z.of_nat (length vs) /\
    in_unit S (vat vs i) = true /\ in_unit S (vat vs o) = false /\
    pedge S vs (vat vs i) (vat vs o) = dir_edge S vs r /\
    pedge S vs (vat vs i) (vat vs o) = ((Z.to_nat i, img S vs o), cell_pt S (vat vs o)) /\
    ~ is_loop (pedge S vs (vat vs i) (vat vs o)) /\
    (cross_edge S vs (to_nat_pair r) = pedge S vs (vat vs i) (vat vs o) \/
     cross_edge S vs (to_nat_pair r) = rev_edge (pedge S vs (vat vs i) (vat vs o))) /\
    in_unit S (nth (img S vs o) vs (0, 0)) = true /\ (img S vs o < length vs)%nat /\
    exists r' a', In r' rv /\ finite r' = true /\
      (r' = (a', Z.of_nat (img S vs o)) \/ r' = (Z.of_nat (img S vs o), a')) /\
      in_unit S (vat vs a') = false /\ img S vs a' = Z.to_nat i /\
      cell_pt S (vat vs a') = pt_opp (cell_pt S (vat vs o)).
Proof.
  intros S vs rv r HP Hr. pose proof (pt_S _ _ _ HP) as HS. pose proof (pt_nodup _ _ _ HP) as HN.
  destruct (crossing_ends_t S vs rv r HP Hr) as (Hin & Hf & R1 & R2 & Hio).
  pose proof (pt_cross _ _ _ HP r Hr) as Hc. cbv zeta in Hc.
  assert (Hce := cross_edge_cases S vs (Z.to_nat (fst r)) (Z.to_nat (snd r))). cbv zeta in Hce.
  fold (vat vs (fst r)) (vat vs (snd r)) in Hce.
  assert (Hne : vs <> []) by (intro E; rewrite E in R1; simpl in R1; lia).
  (* generic part, given which end is inner *)
  assert (G : forall i o, inner S vs r = i -> outer S vs r = o -> 0 <= i < Z.of_nat (length vs) ->
            in_unit S (vat vs i) = true -> in_unit S (vat vs o) = false ->
            pedge S vs (vat vs i) (vat vs o) = ((Z.to_nat i, img S vs o), cell_pt S (vat vs o))).
  { intros i o _ _ Ri Ui Uo. unfold pedge, img. rewrite (wrap_id S _ HS Ui).
    unfold vat at 1. rewrite nearest_self by (auto; lia).
    apply (in_unit_cell S _ HS) in Ui. unfold cell_pt in *. injection Ui as U1 U2. rewrite U1, U2.
    f_equal. f_equal; lia. }
  destruct r as [a b]. simpl in *.
  destruct Hio as [[Ua Ub]|[Ua Ub]].
  - assert (Ei : inner S vs (a, b) = a) by (unfold inner; simpl; rewrite Ua; reflexivity).
    assert (Eo : outer S vs (a, b) = b) by (unfold outer; simpl; rewrite Ua; reflexivity).
    rewrite Ei, Eo in Hc. destruct Hc as (T1 & T2 & r' & Hr' & Ht).
    pose proof (G a b Ei Eo R1 Ua Ub) as Ep.
    exists a, b. split; [left; reflexivity|]. split; [exact R1|]. split; [exact R2|]. split; [exact Ua|]. split; [exact Ub|].
    split; [rewrite Ep; unfold dir_edge; rewrite Ei, Eo; reflexivity|]. split; [exact Ep|].
    split; [rewrite Ep; unfold is_loop; simpl; auto|]. split; [exact Hce|]. split; [exact T1|].
    split; [apply nearest_spec; exact Hne|].
    destruct (is_translate_t_spec _ _ _ _ _ _ Ht) as (F & Ho & Un & Im & Ce).
    destruct r' as [x y]. simpl in *. apply orb_true_iff in Ho.
    destruct (Z.eqb_spec x (Z.of_nat (img S vs b))) as [Ex|Nx].
    + exists (x, y), y. subst x. repeat (split; [auto|]). auto.
    + destruct Ho as [Ho|Ho]; [discriminate|]. apply Z.eqb_eq in Ho.
      exists (x, y), x. subst y. repeat (split; [auto|]). auto.
  - assert (Ei : inner S vs (a, b) = b) by (unfold inner; simpl; rewrite Ua; reflexivity).
    assert (Eo : outer S vs (a, b) = a) by (unfold outer; simpl; rewrite Ua; reflexivity).
    rewrite Ei, Eo in Hc. destruct Hc as (T1 & T2 & r' & Hr' & Ht).
    pose proof (G b a Ei Eo R2 Ub Ua) as Ep.
    exists b, a. split; [right; reflexivity|]. split; [exact R2|]. split; [exact R1|]. split; [exact Ub|]. split; [exact Ua|].
    split; [rewrite Ep; unfold dir_edge; rewrite Ei, Eo; reflexivity|]. split; [exact Ep|].
    split; [rewrite Ep; unfold is_loop; simpl; auto|].
    split; [rewrite (pedge_rev S vs (vat vs a) (vat vs b)), rev_edge_invol; tauto|]. split; [exact T1|].
    split; [apply nearest_spec; exact Hne|].
    destruct (is_translate_t_spec _ _ _ _ _ _ Ht) as (F & Ho & Un & Im & Ce).
    destruct r' as [x y]. simpl in *. apply orb_true_iff in Ho.
    destruct (Z.eqb_spec x (Z.of_nat (img S vs a))) as [Ex|Nx].
    + exists (x, y), y. subst x. repeat (split; [auto|]). auto.
    + destruct Ho as [Ho|Ho]; [discriminate|]. apply Z.eqb_eq in Ho.
      exists (x, y), x. subst y. repeat (split; [auto|]). auto.
Qed.

(* ------------------------------------------------------------------ degrees *)
Theorem deg_crossing_t : forall S vs rv v, pvor_t S vs rv -> (v < length vs)%nat ->
  in_unit S (nth v vs (0, 0)) = true ->
  deg v (dedup_edges (crossing_edges S vs rv)) = length (filter (at_v (Z.of_nat v)) (select S vs 1 rv)).
Proof.
  intros S vs rv v HP Hv Hu.
  pose proof (pt_S _ _ _ HP) as HS. pose proof (pt_nodup _ _ _ HP) as HN.
  set (ce := fun r : Z * Z => cross_edge S vs (to_nat_pair r)).
  set (X := filter (at_v (Z.of_nat v)) (select S vs 1 rv)).
  assert (Hes : crossing_edges S vs rv = map ce (select S vs 1 rv)) by apply crossing_edges_eq.
  set (d := dedup_edges (crossing_edges S vs rv)).
  destruct (dedup_edges_spec (crossing_edges S vs rv)) as (D1 & D2 & D3 & _ & D5). fold d in D1, D2, D3, D5.
  assert (Hce : forall r, In r (select S vs 1 rv) -> ~ is_loop (ce r)).
  { intros r Hr. destruct (crossing_io_t S vs rv r HP Hr) as (i & o & _ & _ & _ & _ & _ & _ & _ & Hl & [E|E] & _);
      unfold ce; rewrite E; [exact Hl|]. intro H. apply is_loop_rev in H. exact (Hl H). }
  assert (Hd : forall e, In e d -> exists r, In r (select S vs 1 rv) /\ e = ce r).
  { intros e He. specialize (D1 e He). rewrite Hes in D1. apply in_map_iff in D1.
    destruct D1 as (r & E & Hr). exists r. auto. }
  assert (Hdl : forall e, In e d -> ~ is_loop e).
  { intros e He. destruct (Hd e He) as (r & Hr & ->). apply Hce. exact Hr. }
  rewrite (deg_noloop v d Hdl).
  (* a crossing ridge at v has v as its inner end *)
  assert (Hat : forall r, In r X ->
             dir_edge S vs r = ((v, snd (fst (dir_edge S vs r))), snd (dir_edge S vs r)) /\
             ~ is_loop (dir_edge S vs r) /\
             (ce r = dir_edge S vs r \/ ce r = rev_edge (dir_edge S vs r))).
  { intros r Hr. apply filter_In in Hr. destruct Hr as [Hr Ha].
    destruct (crossing_io_t S vs rv r HP Hr) as (i & o & Hor & Ri & Ro & Ui & Uo & Ed & Ep & Hl & Hc & _).
    assert (Ei : i = Z.of_nat v).
    { unfold at_v in Ha. apply orb_true_iff in Ha.
      destruct Hor as [-> | ->]; simpl in Ha; destruct Ha as [Ha|Ha]; apply Z.eqb_eq in Ha; try exact Ha;
        subst o; rewrite vat_of_nat in Uo; congruence. }
    rewrite <- Ed. split; [rewrite Ep; simpl; rewrite Ei, Nat2Z.id; reflexivity|]. split; [exact Hl|exact Hc]. }
  rewrite <- (map_length edge_key (filter (touches v) d)).
  rewrite <- (map_length (fun r => edge_key (ce r)) X).
  apply NoDup_same_length.
  - apply NoDup_map_filter. apply klt_sorted_NoDup. exact D5.
  - apply (NoDup_map_coarser _ _ _ (fun r => edge_key (ce r)) (dir_edge S vs) X).
    + apply NoDup_map_filter. exact (pt_dir _ _ _ HP).
    + intros r1 r2 H1 H2 Ek.
      destruct (Hat r1 H1) as (F1 & Hl1 & Hc1). destruct (Hat r2 H2) as (F2 & Hl2 & Hc2).
      assert (K1 : edge_key (ce r1) = edge_key (dir_edge S vs r1))
        by (destruct Hc1 as [-> | ->]; [reflexivity|apply edge_key_rev; exact Hl1]).
      assert (K2 : edge_key (ce r2) = edge_key (dir_edge S vs r2))
        by (destruct Hc2 as [-> | ->]; [reflexivity|apply edge_key_rev; exact Hl2]).
      rewrite K1, K2 in Ek. symmetry in Ek.
      destruct (edge_key_inj _ _ Hl1 Ek) as [E|E]; [exact (eq_sym E)|].
      (* reversed: both start at v, so r1 would be a loop *)
      exfalso. apply Hl1. rewrite F1, F2 in E. unfold rev_edge in E. simpl in E. injection E as E1 E2 _ _.
      unfold is_loop. rewrite F1. simpl. congruence.
  - intro k. split; intro Hk; apply in_map_iff in Hk; destruct Hk as (x & <- & Hx).
    + apply filter_In in Hx. destruct Hx as [Hx Ht].
      destruct (Hd x Hx) as (r & Hr & ->).
      destruct (crossing_io_t S vs rv r HP Hr) as (i & o & Hor & Ri & Ro & Ui & Uo & Ed & Ep & Hl & Hc & T1 & Lo & r' & a' & Hr' & Hf' & Hor' & Ua' & Ia' & Ca').
      assert (Kr : edge_key (ce r) = edge_key (pedge S vs (vat vs i) (vat vs o)))
        by (unfold ce; destruct Hc as [-> | ->]; [reflexivity|apply edge_key_rev; exact Hl]).
      assert (Ht' : touches v (pedge S vs (vat vs i) (vat vs o)) = true)
        by (unfold ce in Ht; destruct Hc as [E|E]; rewrite E in Ht; [exact Ht|rewrite touches_rev in Ht; exact Ht]).
      rewrite Ep in Ht'. unfold touches in Ht'. simpl in Ht'.
      apply orb_true_iff in Ht'. destruct Ht' as [Ht'|Ht']; apply Nat.eqb_eq in Ht'.
      * apply in_map_iff. exists r. split; [reflexivity|]. apply filter_In. split; [exact Hr|].
        unfold at_v. assert (Ei : i = Z.of_nat v) by lia.
        destruct Hor as [-> | ->]; simpl; rewrite Ei, Z.eqb_refl; [reflexivity|apply orb_true_r].
      * (* v is the image of the outer end: the copy r' on the other side is at v, and gives the reversed edge *)
        destruct (finite_wf_range _ r' (pt_wf _ _ _ HP r' Hr') Hf') as [R1' R2'].
        assert (Ra' : 0 <= a' < Z.of_nat (length vs)) by (destruct Hor' as [-> | ->]; simpl in *; lia).
        assert (Uv : in_unit S (vat vs (Z.of_nat (img S vs o))) = true) by (rewrite vat_of_nat; exact T1).
        assert (Hsel : In r' (select S vs 1 rv)).
        { apply select_spec. split; [exact Hr'|]. split; [|exact Hf']. rewrite count_in_finite by lia.
          destruct Hor' as [-> | ->]; simpl; rewrite Ua', Uv; reflexivity. }
        assert (Hat' : at_v (Z.of_nat v) r' = true).
        { unfold at_v. rewrite <- Ht'. destruct Hor' as [-> | ->]; simpl; rewrite Z.eqb_refl; [apply orb_true_r|reflexivity]. }
        apply in_map_iff. exists r'. split; [|apply filter_In; split; assumption].
        rewrite Kr.
        destruct (crossing_io_t S vs rv r' HP Hsel) as (i2 & o2 & Hor2 & Ri2 & Ro2 & Ui2 & Uo2 & _ & Ep2 & Hl2 & Hc2 & _).
        assert (E2 : i2 = Z.of_nat (img S vs o) /\ o2 = a').
        { destruct Hor' as [-> | ->]; destruct Hor2 as [E|E]; injection E as <- <-; auto; congruence. }
        destruct E2 as [-> ->].
        assert (Kr' : edge_key (ce r') = edge_key (pedge S vs (vat vs (Z.of_nat (img S vs o))) (vat vs a')))
          by (unfold ce; destruct Hc2 as [-> | ->]; [reflexivity|apply edge_key_rev; exact Hl2]).
        rewrite Kr', Ep2, Ep. rewrite Nat2Z.id, Ia', Ca'.
        change ((img S vs o, Z.to_nat i, pt_opp (cell_pt S (vat vs o)))) with (rev_edge ((Z.to_nat i, img S vs o), cell_pt S (vat vs o))).
        apply edge_key_rev. rewrite <- Ep. exact Hl.
    + destruct (Hat x Hx) as (F & Hl & Hc).
      apply filter_In in Hx. destruct Hx as [Hx Ha].
      assert (Hin : In (ce x) (crossing_edges S vs rv)) by (rewrite Hes; apply in_map; exact Hx).
      destruct (D2 (ce x) Hin) as (e' & He' & Ek).
      apply in_map_iff. exists e'. split; [exact Ek|]. apply filter_In. split; [exact He'|].
      assert (Tx : touches v (ce x) = true).
      { destruct Hc as [-> | ->]; rewrite ?touches_rev; rewrite F; unfold touches; simpl; rewrite Nat.eqb_refl; reflexivity. }
      destruct (edge_key_inj _ _ (Hce x Hx) Ek) as [-> | ->]; [exact Tx|rewrite touches_rev; exact Tx].
Qed.

Theorem pbc_degree_t : forall S vs rv v, pvor_t S vs rv -> (v < length vs)%nat ->
  in_unit S (nth v vs (0, 0)) = true ->
  deg v (pbc_edges S vs rv) = length (ridges_at (Z.of_nat v) rv).
Proof.
  intros S vs rv v HP Hv Hu. rewrite pbc_edges_eq, deg_app.
  rewrite deg_inside, (deg_crossing_t S vs rv v HP Hv Hu).
  - unfold ridges_at.
    set (f := fun r : Z * Z => finite r && at_v (Z.of_nat v) r).
    assert (Ef : forall k, filter (at_v (Z.of_nat v)) (select S vs k rv) = filter f (select S vs k rv)).
    { intro k. apply filter_ext_in. intros r Hr. apply select_spec in Hr. unfold f.
      destruct Hr as (_ & _ & ->). reflexivity. }
    rewrite !Ef. unfold select. rewrite Nat.add_comm. apply filter_disjoint_length.
    intros r Hr Hfr. unfold f in Hfr. apply andb_true_iff in Hfr. destruct Hfr as [Hf Ha].
    destruct (finite_wf_range _ r (pt_wf _ _ _ HP r Hr) Hf) as [R1 R2].
    rewrite Hf, !andb_true_r. rewrite count_in_finite by lia.
    unfold at_v in Ha. apply orb_true_iff in Ha.
    destruct Ha as [Ha|Ha]; apply Z.eqb_eq in Ha; rewrite Ha, vat_of_nat, Hu.
    + destruct (in_unit S (vat vs (snd r))); simpl; auto.
    + destruct (in_unit S (vat vs (fst r))); simpl; auto.
  - intros r Hr. apply select_spec in Hr. destruct Hr as (Hin & _ & Hf).
    destruct (finite_wf_range _ r (pt_wf _ _ _ HP r Hin) Hf) as [R1 R2].
    split; [lia|]. split; [lia|]. apply (pt_distinct _ _ _ HP r Hin Hf).
Qed.

(* what every returned ridge is: an inside ridge as it is, or the directed edge of a crossing ridge (or its reverse) *)
Lemma pbc_edges_cases_t : forall S vs rv e, pvor_t S vs rv -> In e (pbc_edges S vs rv) ->
  (exists r, In r (select S vs 2 rv) /\ e = (to_nat_pair r, (0, 0))) \/
  (exists r i o, In r (select S vs 1 rv) /\ (r = (i, o) \/ r = (o, i)) /\
     0 <= i < Z.of_nat (length vs) /\ in_unit S (vat vs i) = true /\ in_unit S (vat vs o) = false /\
     in_unit S (nth (img S vs o) vs (0, 0)) = true /\ (img S vs o < length vs)%nat /\ img S vs o <> Z.to_nat i /\
     let d := ((Z.to_nat i, img S vs o), cell_pt S (vat vs o)) in (e = d \/ e = rev_edge d)).
Proof.
  intros S vs rv e HP He. rewrite pbc_edges_eq in He. apply in_app_or in He. destruct He as [He|He].
  - left. apply in_map_iff in He. destruct He as (r & <- & Hr). exists r. auto.
  - right. destruct (dedup_edges_spec (crossing_edges S vs rv)) as (D1 & _).
    specialize (D1 e He). rewrite crossing_edges_eq in D1. apply in_map_iff in D1. destruct D1 as (r & <- & Hr).
    destruct (crossing_io_t S vs rv r HP Hr) as (i & o & Hor & Ri & Ro & Ui & Uo & _ & Ep & Hl & Hc & T1 & Lo & _).
    exists r, i, o. rewrite Ep in Hc, Hl. repeat (split; [assumption|]).
    split; [intro E; apply Hl; unfold is_loop; simpl; auto|exact Hc].
Qed.

Lemma pbc_ends_in_unit_t : forall S vs rv x, pvor_t S vs rv -> In x (edge_ends (pbc_edges S vs rv)) ->
  (x < length vs)%nat /\ in_unit S (nth x vs (0, 0)) = true.
Proof.
  intros S vs rv x HP Hx. unfold edge_ends in Hx. apply in_flat_map in Hx. destruct Hx as (e & He & Hx).
  destruct (pbc_edges_cases_t S vs rv e HP He) as [(r & Hr & ->)|(r & i & o & Hr & _ & Ri & Ui & _ & T1 & Lo & _ & Hd)].
  - apply select_spec in Hr. destruct Hr as (Hin & Hc & Hf).
    destruct (finite_wf_range _ r (pt_wf _ _ _ HP r Hin) Hf) as [R1 R2]. rewrite count_in_finite in Hc by lia.
    assert (U : in_unit S (vat vs (fst r)) = true /\ in_unit S (vat vs (snd r)) = true)
      by (destruct (in_unit S (vat vs (fst r))), (in_unit S (vat vs (snd r))); simpl in Hc; try discriminate; auto).
    unfold to_nat_pair, vat in *. simpl in Hx. destruct Hx as [<-|[<-|[]]]; split; try lia; tauto.
  - cbv zeta in Hd. unfold vat in Ui.
    destruct Hd as [-> | ->]; simpl in Hx; destruct Hx as [<-|[<-|[]]]; split; auto; lia.
Qed.

Lemma pbc_edges_noloop_t : forall S vs rv e, pvor_t S vs rv -> In e (pbc_edges S vs rv) -> ~ is_loop e.
Proof.
  intros S vs rv e HP He.
  destruct (pbc_edges_cases_t S vs rv e HP He) as [(r & Hr & ->)|(r & i & o & _ & _ & _ & _ & _ & _ & _ & Hne & Hd)].
  - apply select_spec in Hr. destruct Hr as (Hin & _ & Hf).
    destruct (finite_wf_range _ r (pt_wf _ _ _ HP r Hin) Hf) as [R1 R2].
    unfold is_loop, to_nat_pair. simpl. intro E. apply (pt_distinct _ _ _ HP r Hin Hf). lia.
  - cbv zeta in Hd. destruct Hd as [-> | ->]; unfold is_loop, rev_edge; simpl; auto.
Qed.

Theorem pbc_edges_keys_NoDup_t : forall S vs rv, pvor_t S vs rv ->
  NoDup (map edge_key (pbc_edges S vs rv)).
Proof.
  intros S vs rv HP. pose proof (pt_ridges2 _ _ _ HP) as H2. pose proof (pt_S _ _ _ HP) as HS.
  rewrite pbc_edges_eq, map_app. apply NoDup_app_intro.
  - rewrite map_map.
    apply (NoDup_map_coarser _ _ _ (fun r => edge_key (to_nat_pair r, (0, 0))) upair); [exact H2|].
    intros x y Hx Hy E. apply select_spec in Hx. apply select_spec in Hy.
    destruct Hx as (Hx & _ & Fx). destruct Hy as (Hy & _ & Fy).
    destruct (finite_wf_range _ x (pt_wf _ _ _ HP x Hx) Fx) as [X1 X2].
    destruct (finite_wf_range _ y (pt_wf _ _ _ HP y Hy) Fy) as [Y1 Y2].
    rewrite !inside_key in E by lia. injection E as E1 E2. unfold upair. f_equal; [exact E1|exact E2].
  - apply klt_sorted_NoDup. destruct (dedup_edges_spec (crossing_edges S vs rv)) as (_ & _ & _ & _ & D5). exact D5.
  - intros k Hin Hd. apply in_map_iff in Hin. destruct Hin as (e & <- & He).
    apply in_map_iff in He. destruct He as (r & <- & Hr).
    apply in_map_iff in Hd. destruct Hd as (e' & Ek & He').
    assert (Hin' : In e' (pbc_edges S vs rv)) by (rewrite pbc_edges_eq; apply in_or_app; right; exact He').
    destruct (dedup_edges_spec (crossing_edges S vs rv)) as (D1 & _).
    specialize (D1 e' He'). rewrite crossing_edges_eq in D1. apply in_map_iff in D1. destruct D1 as (r' & <- & Hr').
    destruct (crossing_io_t S vs rv r' HP Hr') as (i & o & _ & _ & _ & Ui & Uo & _ & _ & _ & Hc & _).
    assert (Hz : snd (cross_edge S vs (to_nat_pair r')) = (0, 0)).
    { apply edge_key_cross_zero. rewrite Ek. apply edge_key_cross_zero. reflexivity. }
    destruct Hc as [E|E]; rewrite E in Hz.
    + exact (pedge_cross_nonzero S vs _ _ HS Ui Uo Hz).
    + apply (proj1 (rev_edge_cross_zero _)) in Hz. exact (pedge_cross_nonzero S vs _ _ HS Ui Uo Hz).
Qed.

Corollary pbc_edges_distinct_t : forall S vs rv i i', pvor_t S vs rv ->
  let es := pbc_edges S vs rv in
  (i < length es)%nat -> (i' < length es)%nat -> i <> i' ->
  nth i es edge0 <> nth i' es edge0 /\ nth i es edge0 <> rev_edge (nth i' es edge0).
Proof.
  intros S vs rv i i' HP es Hi Hi' Hne.
  pose proof (pbc_edges_keys_NoDup_t S vs rv HP) as HN. fold es in HN.
  assert (Hk : edge_key (nth i es edge0) <> edge_key (nth i' es edge0)).
  { intro E. apply Hne. apply (proj1 (NoDup_nth (map edge_key es) (edge_key edge0)) HN);
      rewrite ?map_length; auto. rewrite !(map_nth edge_key). exact E. }
  assert (Hl : ~ is_loop (nth i' es edge0)) by (apply (pbc_edges_noloop_t S vs rv _ HP); apply nth_In; exact Hi').
  split; intro E; apply Hk; rewrite E; [reflexivity|apply edge_key_rev; exact Hl].
Qed.

(* every returned ridge joins two vertices whose triangles share a side with offset = crossing *)
Theorem pbc_edges_shared_side_t : forall S vs rv T e, pvor_t S vs rv ->
  d1_ok S vs rv T = true -> d2_ok S vs rv T = true ->
  In e (pbc_edges S vs rv) ->
  exists s s', (s < 3)%nat /\ (s' < 3)%nat /\
    side_shared (nth (fst (fst e)) T tri0) (nth (snd (fst e)) T tri0) (snd e) s s'.
Proof.
  intros S vs rv T e HP H1 H2 He. pose proof (pt_S _ _ _ HP) as HS.
  unfold d1_ok in H1. unfold d2_ok in H2. rewrite forallb_forall in H1, H2.
  destruct (pbc_edges_cases_t S vs rv e HP He) as [(r & Hr & ->)|(r & i & o & Hr & Hor & Ri & Ui & Uo & _ & _ & _ & Hd)].
  - assert (Hm := H2 r (in_or_app _ _ r (or_intror Hr))). apply has_match_spec in Hm. exact Hm.
  - assert (Hm := H2 r (in_or_app _ _ r (or_introl Hr))). apply has_match_spec in Hm.
    assert (Hd1 := H1 r Hr). apply andb_true_iff in Hd1.
    assert (Hio : exists s s', (s < 3)%nat /\ (s' < 3)%nat /\ side_shared (tat T i) (tat T o) (0, 0) s s').
    { destruct Hor as [-> | ->]; simpl in Hm; [exact Hm|].
      destruct Hm as (s & s' & Hs & Hs' & Hsh). exists s', s. split; [exact Hs'|]. split; [exact Hs|].
      apply side_shared_sym in Hsh. exact Hsh. }
    assert (Ho : d1_end S vs T o = true) by (destruct Hor as [-> | ->]; simpl in Hd1; tauto).
    unfold d1_end in Ho. apply tri_eqb_eq in Ho. fold (img S vs o) in Ho.
    destruct Hio as (s & s' & Hs & Hs' & Hsh).
    set (c := cell_pt S (vat vs o)) in *.
    apply (side_shared_shift_r _ _ _ (pt_opp c) _ _) in Hsh. rewrite <- Ho in Hsh.
    assert (Ec : forall c0 : pt, (fst (0, 0) - fst (pt_opp c0), snd (0, 0) - snd (pt_opp c0)) = c0)
      by (intros [cx cy]; unfold pt_opp; simpl; f_equal; lia).
    rewrite Ec in Hsh. unfold tat in Hsh. cbv zeta in Hd.
    destruct Hd as [-> | ->].
    + exists s, s'. auto.
    + exists s', s. split; [exact Hs'|]. split; [exact Hs|]. apply side_shared_sym in Hsh.
      unfold rev_edge. simpl. exact Hsh.
Qed.

(* ------------------------------------------------------------------ the returned lattice, from the list-level facts *)
Lemma post_graph_generic : forall S' vs rv order ps ed cr,
  let es := pbc_edges S' vs rv in
  let L := mkLattice S' ps ed cr in
  0 < S' -> NoDup vs ->
  (forall x, In x (edge_ends es) -> (x < length vs)%nat /\ in_unit S' (nth x vs (0, 0)) = true) ->
  (forall x, (x < length vs)%nat -> in_unit S' (nth x vs (0, 0)) = true -> deg x es = length (ridges_at (Z.of_nat x) rv)) ->
  (forall i i', (i < length es)%nat -> (i' < length es)%nat -> i <> i' ->
     nth i es edge0 <> nth i' es edge0 /\ nth i es edge0 <> rev_edge (nth i' es edge0)) ->
  reindex vs order es = Ok (ps, ed, cr) ->
  wf_lattice L = true /\ NoDup order /\ length order = nV L /\
  (forall n, (n < nV L)%nat ->
     (nth n order 0 < length vs)%nat /\ pos_at L n = nth (nth n order 0%nat) vs (0, 0) /\
     in_unit S' (pos_at L n) = true /\
     count_ends L n = length (ridges_at (Z.of_nat (nth n order 0%nat)) rv)) /\
  (forall i i', (i < nE L)%nat -> (i' < nE L)%nat -> i <> i' ->
     ledge L i <> ledge L i' /\ ledge L i <> rev_edge (ledge L i')).
Proof.
  intros S' vs rv order ps ed cr es L HS HN Hends Hdeg Hdistinct Hre.
  unfold reindex in Hre. destruct (order_ok order (edge_ends es)) eqn:Eok; [|discriminate].
  apply order_ok_spec in Eok. destruct Eok as [HNo Hmem].
  injection Hre as Eps Eed Ecr.
  assert (Lps : length ps = length order) by (rewrite <- Eps; apply map_length).
  assert (Lps' : @length vec ps = length order) by exact Lps.
  assert (Led : length ed = length es) by (rewrite <- Eed; apply map_length).
  assert (Lcr : length cr = length es) by (rewrite <- Ecr; apply map_length).
  assert (Lcr' : @length vec cr = length es) by exact Lcr.
  assert (Hord : forall x, In x order -> (x < length vs)%nat /\ in_unit S' (nth x vs (0, 0)) = true)
    by (intros x Hx; apply Hends; apply Hmem; exact Hx).
  assert (Gps : forall n, (n < length order)%nat -> nth n ps (0, 0) = nth (nth n order 0%nat) vs (0, 0)).
  { intros n Hn. rewrite <- Eps.
    rewrite (nth_indep _ (0, 0) ((fun i0 : nat => nth i0 vs (0, 0)) 0%nat)) by (rewrite map_length; exact Hn).
    apply (map_nth (fun i0 : nat => nth i0 vs (0, 0))). }
  set (f := fun e : edge => (pos_in (fst (fst e)) order, pos_in (snd (fst e)) order)) in *.
  assert (Ged : forall i, (i < length es)%nat -> nth i ed (0%nat, 0%nat) = f (nth i es edge0)).
  { intros i Hi. rewrite <- Eed. rewrite (nth_indep _ (0%nat, 0%nat) (f edge0)) by (rewrite map_length; exact Hi).
    apply map_nth. }
  assert (Gcr : forall i, (i < length es)%nat -> nth i cr (0, 0) = snd (nth i es edge0)).
  { intros i Hi. rewrite <- Ecr. rewrite (nth_indep _ (0, 0) (snd edge0)) by (rewrite map_length; exact Hi).
    apply map_nth. }
  split.
  { unfold wf_lattice, nE, nV, L. simpl. rewrite Lcr', Led, Nat.eqb_refl.
    apply andb_true_iff. split; [apply andb_true_iff; split; [apply Z.ltb_lt; exact HS|reflexivity]|].
    apply forallb_forall. intros jk Hjk. rewrite <- Eed in Hjk. apply in_map_iff in Hjk.
    destruct Hjk as (e & <- & He). destruct (edge_ends_In es e He) as [Ha Hb]. apply Hmem in Ha. apply Hmem in Hb.
    unfold wf_edge, f. simpl. rewrite Lps'.
    apply andb_true_iff. split; apply Nat.ltb_lt; apply pos_in_spec; assumption. }
  split; [exact HNo|]. split; [unfold nV, L; simpl; symmetry; exact Lps|].
  split.
  { intros n Hn. unfold nV, L in Hn. simpl in Hn. rewrite Lps' in Hn.
    assert (Hin : In (nth n order 0%nat) order) by (apply nth_In; exact Hn).
    destruct (Hord _ Hin) as [Lo Uo]. split; [exact Lo|].
    unfold pos_at, L. simpl. split; [exact (Gps n Hn)|].
    split; [exact (eq_trans (f_equal (in_unit S') (Gps n Hn)) Uo)|].
    rewrite count_ends_occ. unfold L. simpl. rewrite <- Eed. unfold f. rewrite ends_reindexed.
    rewrite <- (pos_in_nth order n HNo Hn) at 1.
    rewrite (count_occ_map_inj (fun x => pos_in x order) (edge_ends es) (nth n order 0%nat) (fun x => In x order)).
    - exact (Hdeg _ Lo Uo).
    - intros x y Hx Hy E. destruct (pos_in_spec x order Hx) as [_ Px]. destruct (pos_in_spec y order Hy) as [_ Py].
      rewrite <- Px, <- Py, E. reflexivity.
    - exact Hin.
    - intros x Hx. apply Hmem. exact Hx. }
  { intros i i' Hi Hi' Hne. unfold nE, L in Hi, Hi'. simpl in Hi, Hi'. rewrite Led in Hi, Hi'.
    destruct (Hdistinct i i' Hi Hi' Hne) as [D1 D2].
    assert (Hinj : forall x y, In x order -> In y order -> pos_in x order = pos_in y order -> x = y).
    { intros x y Hx Hy E. destruct (pos_in_spec x order Hx) as [_ Px]. destruct (pos_in_spec y order Hy) as [_ Py].
      rewrite <- Px, <- Py, E. reflexivity. }
    assert (Gl : forall n, (n < length es)%nat -> ledge L n = (f (nth n es edge0), snd (nth n es edge0))).
    { intros n Hn. unfold ledge, edge_at, cross_at, L. simpl. rewrite (Ged n Hn). f_equal. exact (Gcr n Hn). }
    rewrite (Gl i Hi), (Gl i' Hi').
    assert (He : In (nth i es edge0) es) by (apply nth_In; exact Hi).
    assert (He' : In (nth i' es edge0) es) by (apply nth_In; exact Hi').
    destruct (edge_ends_In es _ He) as [Ha Hb]. destruct (edge_ends_In es _ He') as [Ha' Hb'].
    apply Hmem in Ha. apply Hmem in Hb. apply Hmem in Ha'. apply Hmem in Hb'.
    destruct (nth i es edge0) as [[j k] [cx cy]]. destruct (nth i' es edge0) as [[j' k'] [cx' cy']]. unfold f. simpl in *.
    split; intro E.
    - apply D1. injection E as E1 E2 E3 E4. rewrite (Hinj _ _ Ha Ha' E1), (Hinj _ _ Hb Hb' E2), E3, E4. reflexivity.
    - apply D2. unfold rev_edge in *. simpl in *. injection E as E1 E2 E3 E4.
      rewrite (Hinj _ _ Ha Hb' E1), (Hinj _ _ Hb Ha' E2), E3, E4. reflexivity. }
Qed.

(* ------------------------------------------------------------------ post_correct from the index-level periodicity *)
Theorem post_correct_dual_t : forall order_of shift S points v S' vs ps ed cr tolS pts T B,
  shifted_vertices shift S points v = Ok (S', vs) ->
  pvor_t S' vs (ridge_vertices v) -> trivalent_ok S' vs (ridge_vertices v) = true ->
  dual_ok S' tolS shift pts vs (ridge_vertices v) T = true ->
  post_process order_of shift S points v = Ok (S', (ps, ed, cr)) ->
  let L := mkLattice S' ps ed cr in
  let order := order_of (edge_ends (pbc_edges S' vs (ridge_vertices v))) in
  (forall n, (n < nV L)%nat -> count_ends L n = 3%nat) /\ (2 * nE L = 3 * nV L)%nat /\
  check_dual S' tolS shift pts (cert_of T B order) L (seq 0 (length order)) = true.
Proof.
  intros order_of shift S points v S' vs ps ed cr tolS pts T B Hsh HP Htri Hdual Hpost L order.
  destruct (post_process_inv _ _ _ _ _ _ _ _ _ Hpost) as (vs0 & Hsh0 & _ & Hre).
  rewrite Hsh in Hsh0. injection Hsh0 as <-. cbv zeta in Hre. fold order in Hre.
  set (rv := ridge_vertices v) in *.
  destruct (post_graph_generic S' vs rv order ps ed cr (pt_S _ _ _ HP) (pt_nodup _ _ _ HP)
              (fun x Hx => pbc_ends_in_unit_t S' vs rv x HP Hx)
              (fun x Lx Ux => pbc_degree_t S' vs rv x HP Lx Ux)
              (fun i i' Hi Hi' Hne => pbc_edges_distinct_t S' vs rv i i' HP Hi Hi' Hne) Hre)
    as (Hwf & HNo & Hlen & Hv & Hdist).
  fold L in Hwf, Hlen, Hv, Hdist.
  assert (H3 : forall n, (n < nV L)%nat -> count_ends L n = 3%nat).
  { intros n Hn. destruct (Hv n Hn) as (Lo & Ep & Uo & ->). rewrite Ep in Uo.
    apply (trivalent_ok_spec S' vs _ Htri _ Lo Uo). }
  assert (H2E : (2 * nE L = 3 * nV L)%nat).
  { assert (Hs : sum_to (count_occ Nat.eq_dec (ends (edges L))) (nV L) = length (ends (edges L))).
    { apply handshake. intros x Hx. unfold ends in Hx. apply in_flat_map in Hx. destruct Hx as (e & He & Hx).
      pose proof Hwf as Hwf'. unfold wf_lattice in Hwf'. rewrite !andb_true_iff in Hwf'. destruct Hwf' as [_ Hwf'].
      rewrite forallb_forall in Hwf'. specialize (Hwf' e He). unfold wf_edge in Hwf'.
      apply andb_true_iff in Hwf'. destruct Hwf' as [W1 W2]. apply Nat.ltb_lt in W1, W2.
      simpl in Hx. destruct Hx as [<-|[<-|[]]]; assumption. }
    rewrite (sum_to_all _ 3%nat) in Hs by (intros n Hn; rewrite <- count_ends_occ; apply H3; exact Hn).
    assert (Hl : length (ends (edges L)) = (2 * nE L)%nat) by (unfold nE; apply ends_length).
    lia. }
  split; [exact H3|]. split; [exact H2E|].
  unfold dual_ok in Hdual. rewrite !andb_true_iff in Hdual.
  destruct Hdual as ((((HlT & Hd1) & Hd2) & Hd3) & Hd4).
  apply (post_dual_generic S' vs rv order ps ed cr tolS shift pts T B Hre Hwf HNo Hlen Hv Hdist H2E).
  - intros e He. exact (pbc_edges_noloop_t S' vs rv e HP He).
  - intros e He. exact (pbc_edges_shared_side_t S' vs rv T e HP Hd1 Hd2 He).
  - exact Hd3.
  - exact Hd4.
Qed.

Corollary post_correct_counts_t : forall order_of shift S points v S' vs ps ed cr tolS pts T B w,
  shifted_vertices shift S points v = Ok (S', vs) ->
  pvor_t S' vs (ridge_vertices v) -> trivalent_ok S' vs (ridge_vertices v) = true ->
  dual_ok S' tolS shift pts vs (ridge_vertices v) T = true ->
  post_process order_of shift S points v = Ok (S', (ps, ed, cr)) ->
  let L := mkLattice S' ps ed cr in
  let order := order_of (edge_ends (pbc_edges S' vs (ridge_vertices v))) in
  check_delaunay S' w pts (cert_of T B order) = true ->
  nV L = (2 * length pts)%nat /\ nE L = (3 * length pts)%nat.
Proof.
  intros order_of shift S points v S' vs ps ed cr tolS pts T B w Hsh HP Htri Hdual Hpost L order Hdel.
  destruct (post_correct_dual_t order_of shift S points v S' vs ps ed cr tolS pts T B Hsh HP Htri Hdual Hpost) as (_ & _ & Hd).
  cbv zeta in Hd. fold L order in Hd.
  destruct (dual_counts _ _ _ _ _ _ _ _ Hdel Hd) as (H1 & H2 & _). split; assumption.
Qed.

(* ------------------------------------------------------------------ the exact periodicity implies the index-level one *)
Lemma inner_outer_of : forall S vs rv r i o, pvor S vs rv -> In r (select S vs 1 rv) ->
  (r = (i, o) \/ r = (o, i)) -> in_unit S (vat vs i) = true -> in_unit S (vat vs o) = false ->
  inner S vs r = i /\ outer S vs r = o.
Proof.
  intros S vs rv r i o HP Hr Hor Ui Uo. unfold inner, outer.
  destruct Hor as [-> | ->]; simpl; [rewrite Ui|rewrite Uo]; auto.
Qed.

Theorem pvor_implies_pvor_t : forall S vs rv, pvor S vs rv -> pvor_t S vs rv.
Proof.
  intros S vs rv HP. pose proof (pv_S _ _ _ HP) as HS. pose proof (pv_nodup _ _ _ HP) as HN.
  (* per crossing ridge: inner / outer end, the image of the outer end *)
  assert (Hio : forall r, In r (select S vs 1 rv) -> exists i o,
            (r = (i, o) \/ r = (o, i)) /\ inner S vs r = i /\ outer S vs r = o /\
            0 <= i < Z.of_nat (length vs) /\ 0 <= o < Z.of_nat (length vs) /\
            in_unit S (vat vs i) = true /\ in_unit S (vat vs o) = false /\
            In (wrap S (vat vs o)) vs /\ wrap S (vat vs i) <> wrap S (vat vs o) /\
            nth (img S vs o) vs (0, 0) = wrap S (vat vs o)).
  { intros r Hr. destruct (crossing_io S vs rv r HP Hr) as (i & o & Hor & Ri & Ro & Ui & Uo & Ci & Co & _).
    destruct (inner_outer_of S vs rv r i o HP Hr Hor Ui Uo) as [Ei Eo].
    exists i, o. repeat (split; [assumption|]). split.
    - pose proof (pv_noloop _ _ _ HP r Hr) as Hn. destruct Hor as [-> | ->]; simpl in Hn; [exact Hn|].
      intro E. apply Hn. symmetry. exact E.
    - unfold img. apply nearest_exact. exact Co. }
  constructor.
  - exact HS.
  - exact (pv_wf _ _ _ HP).
  - exact (pv_distinct _ _ _ HP).
  - exact HN.
  - (* the directed edges are pairwise different *)
    apply (NoDup_map_coarser _ _ _ (dir_edge S vs) upair (select S vs 1 rv)); [exact (pv_ridges _ _ _ HP)|].
    intros r1 r2 H1 H2 E.
    destruct (Hio r1 H1) as (i1 & o1 & Hor1 & Ei1 & Eo1 & Ri1 & Ro1 & Ui1 & Uo1 & Co1 & _ & N1).
    destruct (Hio r2 H2) as (i2 & o2 & Hor2 & Ei2 & Eo2 & Ri2 & Ro2 & Ui2 & Uo2 & Co2 & _ & N2).
    assert (E1 : fst (fst (dir_edge S vs r1)) = fst (fst (dir_edge S vs r2))) by exact (f_equal (fun e : edge => fst (fst e)) E).
    assert (E2 : snd (fst (dir_edge S vs r1)) = snd (fst (dir_edge S vs r2))) by exact (f_equal (fun e : edge => snd (fst e)) E).
    assert (E3 : fst (snd (dir_edge S vs r1)) = fst (snd (dir_edge S vs r2))) by exact (f_equal (fun e : edge => fst (snd e)) E).
    assert (E4 : snd (snd (dir_edge S vs r1)) = snd (snd (dir_edge S vs r2))) by exact (f_equal (fun e : edge => snd (snd e)) E).
    unfold dir_edge in E1, E2, E3, E4. cbn [fst snd] in E1, E2, E3, E4.
    rewrite Ei1, Ei2 in E1. rewrite Eo1, Eo2 in E2. rewrite Eo1, Eo2 in E3. rewrite Eo1, Eo2 in E4.
    unfold cell_pt in E3, E4. cbn [fst snd] in E3, E4.
    assert (Ei : i1 = i2) by lia.
    assert (Ew : wrap S (vat vs o1) = wrap S (vat vs o2)) by (rewrite <- N1, <- N2, E2; reflexivity).
    assert (Ep : vat vs o1 = vat vs o2).
    { rewrite (tr_wrap S (vat vs o1)), (tr_wrap S (vat vs o2)), Ew. unfold cell_pt. rewrite E3, E4. reflexivity. }
    unfold vat in Ep. apply (NoDup_nth_pt vs) in Ep; [|exact HN|lia|lia].
    assert (Eo : o1 = o2) by lia.
    rewrite <- Ei, <- Eo in Hor2. destruct Hor1 as [-> | ->]; destruct Hor2 as [-> | ->]; try reflexivity; apply upair_swap.
  - exact (pv_ridges2 _ _ _ HP).
  - intros r Hr i o o'.
    destruct (crossing_io S vs rv r HP Hr) as (i0 & o0 & Hor & Ri & Ro & Ui & Uo & Ci & Co & Hl & _ & r' & Hr' & Hf' & Htr).
    destruct (inner_outer_of S vs rv r i0 o0 HP Hr Hor Ui Uo) as [Ei Eo].
    subst i o o'. rewrite Ei, Eo.
    assert (N : nth (img S vs o0) vs (0, 0) = wrap S (vat vs o0)) by (unfold img; apply nearest_exact; exact Co).
    assert (Lo : (img S vs o0 < length vs)%nat).
    { unfold img. apply nearest_spec. intro E. rewrite E in Co. inversion Co. }
    split; [rewrite N; apply wrap_in_unit; exact HS|]. split.
    { intro E. apply Hl. unfold is_loop, pedge. simpl. fold (img S vs o0). rewrite E.
      rewrite (wrap_id S _ HS Ui). unfold vat. rewrite nearest_self by (auto; lia). reflexivity. }
    exists r'. split; [exact Hr'|].
    cbv zeta in Htr. set (c := cell_pt S (vat vs o0)) in *.
    assert (Hc0 : c <> (0, 0)) by (apply not_in_unit_cell; assumption).
    assert (Ewo : tr S (vat vs o0) (pt_opp c) = wrap S (vat vs o0)) by (symmetry; apply wrap_eq_tr).
    destruct (finite_wf_range _ r' (pv_wf _ _ _ HP r' Hr') Hf') as [R1' R2'].
    (* the end of r' at the image of o0 has index img o0; the other end is a translate of the inner end *)
    assert (G : forall x a', 0 <= x < Z.of_nat (length vs) -> 0 <= a' < Z.of_nat (length vs) ->
              vat vs x = tr S (vat vs o0) (pt_opp c) -> vat vs a' = tr S (vat vs i0) (pt_opp c) ->
              x = Z.of_nat (img S vs o0) /\ in_unit S (vat vs a') = false /\ img S vs a' = Z.to_nat i0 /\
              cell_pt S (vat vs a') = pt_opp c).
    { intros x a' Rx Ra Ex Ea. split.
      - rewrite Ewo, <- N in Ex. unfold vat in Ex. apply (NoDup_nth_pt vs) in Ex; [lia|exact HN|lia|exact Lo].
      - assert (Ecell : cell_pt S (vat vs a') = pt_opp c).
        { rewrite Ea, cell_pt_tr by exact HS. apply (in_unit_cell S _ HS) in Ui. rewrite Ui. unfold pt_opp. simpl.
          reflexivity. }
        split; [|split; [|exact Ecell]].
        + destruct (in_unit S (vat vs a')) eqn:E; [|reflexivity]. exfalso. apply (in_unit_cell S _ HS) in E.
          rewrite Ecell in E. apply Hc0. unfold pt_opp in E. unfold c, cell_pt in *. simpl in E.
          injection E as E1 E2. f_equal; lia.
        + unfold img. rewrite Ea, wrap_tr by exact HS. rewrite (wrap_id S _ HS Ui). unfold vat.
          apply nearest_self; [exact HN|lia]. }
    unfold is_translate_t. rewrite Hf'. simpl andb.
    destruct Htr as [[E1 E2]|[E1 E2]].
    + destruct (G (snd r') (fst r') R2' R1' E2 E1) as (Gx & Gu & Gi & Gc).
      assert (Hne : fst r' <> snd r') by (apply (pv_distinct _ _ _ HP r' Hr' Hf')).
      destruct (Z.eqb_spec (fst r') (Z.of_nat (img S vs o0))) as [Ef|Nf]; [congruence|].
      rewrite <- Gx, Z.eqb_refl. simpl. rewrite Gu, Gi, Nat.eqb_refl. apply pt_eqb_eq. exact Gc.
    + destruct (G (fst r') (snd r') R1' R2' E1 E2) as (Gx & Gu & Gi & Gc).
      rewrite <- Gx, Z.eqb_refl. simpl. rewrite Gu, Gi, Nat.eqb_refl. apply pt_eqb_eq. exact Gc.
Qed.
