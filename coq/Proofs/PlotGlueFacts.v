(* Proofs/PlotGlueFacts.v — lattice-level statements about plot_edges / plot_dual and the colour
   glue of Model/PlotGlue.v (C16).

     plot_edges_each_once     for EVERY lattice record, subset, labels: the drawn list is, up to
                              order, edge occurrence by edge occurrence (as selected), exactly the
                              visible ones among its nine translates — each once — carrying that
                              occurrence's colour and direction
     pieces_offsets_nodup     the offsets of one occurrence's pieces are pairwise different
     plot_edges_total_length  selected edges in range and in generic position: the clip lengths of
                              all drawn pieces add up to the number of selected edges
     dual_edge_in_range       every edge of make_dual's lattice ends in [0,1)^2 and spans at most half
                              a cell per coordinate (so the range hypotheses are PROVED for plot_dual)
     plot_dual_total_length   plot_dual draws every selected dual edge in full (genericity only)
     resolve_scheme_* / color_kw_*   colour resolution: str scheme, color= keyword, truncation
     default_subset_all, plot_*_default_colour   the defaults *)
From Coq Require Import List ZArith QArith Bool Qminmax Qabs Qround Lqa Lia Arith Permutation.
From Koala Require Import Model.Clip Model.Plot Model.Lattice Model.Dual Model.PlotGlue
     Proofs.ClipFacts Proofs.PlotFacts Proofs.VisFacts Proofs.CoverFacts.
Import ListNotations.

(* ---------- list plumbing ---------- *)
Lemma filter_flat_map {A B : Type} (p : B -> bool) (g : A -> list B) (l : list A) :
  filter p (flat_map g l) = flat_map (fun x => filter p (g x)) l.
Proof. induction l as [|a l IH]; simpl; [reflexivity|]. rewrite filter_app, IH. reflexivity. Qed.

Lemma filter_map_comm {A B : Type} (p : B -> bool) (g : A -> B) (l : list A) :
  filter p (map g l) = map g (filter (fun x => p (g x)) l).
Proof. induction l as [|a l IH]; simpl; [reflexivity|]. destruct (p (g a)); simpl; rewrite IH; reflexivity. Qed.

Lemma filter_perm {A : Type} (p : A -> bool) (l l' : list A) :
  Permutation l l' -> Permutation (filter p l) (filter p l').
Proof.
  induction 1 as [|x l l' _ IH|x y l|l l' l'' _ IH1 _ IH2]; simpl.
  - constructor.
  - destruct (p x); [constructor|]; exact IH.
  - destruct (p x); destruct (p y); try apply Permutation_refl. apply perm_swap.
  - eapply Permutation_trans; eassumption.
Qed.

(* translate-major and element-major enumeration of a table are permutations of each other *)
Lemma flat_map_transpose {D X B : Type} (f : D -> X -> B) (ds : list D) (xs : list X) :
  Permutation (flat_map (fun d => map (f d) xs) ds) (flat_map (fun x => map (fun d => f d x) ds) xs).
Proof.
  induction ds as [|d ds IH]; simpl.
  - induction xs as [|x xs IHx]; simpl; [constructor|exact IHx].
  - eapply Permutation_trans; [apply Permutation_app_head; exact IH|].
    clear IH. induction xs as [|x xs IHx]; simpl; [constructor|].
    constructor.
    eapply Permutation_trans; [|apply Permutation_app_head; exact IHx].
    rewrite !app_assoc. apply Permutation_app_tail. apply Permutation_app_comm.
Qed.

Open Scope Q_scope.

Lemma sum_perm (l l' : list Q) : Permutation l l' -> fold_right Qplus 0 l == fold_right Qplus 0 l'.
Proof.
  induction 1 as [|x l l' _ IH|x y l|l l' l'' _ IH1 _ IH2]; simpl; lra.
Qed.
Lemma sum_app (l l' : list Q) : fold_right Qplus 0 (l ++ l') == fold_right Qplus 0 l + fold_right Qplus 0 l'.
Proof. induction l as [|a l IH]; simpl; lra. Qed.
Lemma sum_filter {A : Type} (p : A -> bool) (g : A -> Q) (l : list A) :
  fold_right Qplus 0 (map g (filter p l)) == fold_right Qplus 0 (map (fun d => if p d then g d else 0) l).
Proof. induction l as [|a l IH]; simpl; [reflexivity|]. destruct (p a); simpl; lra. Qed.

(* ---------- what plot_edges draws of one selected occurrence ---------- *)
Section Edges.
Context {C : Type}.

(* (edge index, (colour, direction)) -> its drawn pieces *)
Definition pieces_of (L : plat) (icd : nat * (C * Z)) : list (seg * (C * Z)) :=
  map (fun d => (seg_translate (edge_seg L (fst icd)) (zpoint d), snd icd))
      (filter (fun d => visible (seg_translate (edge_seg L (fst icd)) (zpoint d))) nine).

Theorem plot_edges_each_once (L : plat) (s : subset) (lab : labels) (scheme : list C) (dirs : labels)
        (dr : list (seg * (C * Z))) :
  plot_edges L s lab scheme dirs = Ok dr ->
  exists idx cols ds,
    process_plot_args (length (pedges L)) s lab scheme = Ok (idx, cols) /\
    broadcast_args dirs idx (length (pedges L)) = Ok ds /\
    Permutation dr (flat_map (pieces_of L) (combine idx (combine cols ds))).
Proof.
  unfold plot_edges.
  destruct (process_plot_args (length (pedges L)) s lab scheme) as [[idx cols]|] eqn:Ep; [|discriminate].
  cbn [bind fst snd].
  destruct (broadcast_args dirs idx (length (pedges L))) as [ds|] eqn:Ed; [|discriminate].
  cbn [bind]. intro H. injection H as <-.
  exists idx, cols, ds. split; [reflexivity|]. split; [exact Ed|].
  unfold replicate_edges.
  eapply Permutation_trans.
  { apply filter_perm.
    apply (flat_map_transpose (fun d icd => (seg_translate (edge_seg L (fst icd)) (zpoint d), snd icd))). }
  rewrite filter_flat_map.
  apply Permutation_refl'.
  apply flat_map_ext. intro icd. unfold pieces_of. rewrite filter_map_comm. reflexivity.
Qed.

Lemma nine_nodup : NoDup nine.
Proof.
  unfold nine. repeat (constructor; [cbn [In]; intro H; repeat (destruct H as [H|H]; [discriminate|]); exact H|]).
  constructor.
Qed.

(* the pieces of one occurrence: translates by pairwise different offsets out of the nine, all in the
   occurrence's colour and direction *)
Theorem pieces_offsets_nodup (L : plat) (icd : nat * (C * Z)) :
  exists ds : list (Z * Z), NoDup ds /\ incl ds nine /\
    (forall d, In d ds <-> In d nine /\ visible (seg_translate (edge_seg L (fst icd)) (zpoint d)) = true) /\
    pieces_of L icd = map (fun d => (seg_translate (edge_seg L (fst icd)) (zpoint d), snd icd)) ds.
Proof.
  exists (filter (fun d => visible (seg_translate (edge_seg L (fst icd)) (zpoint d))) nine).
  split; [apply NoDup_filter, nine_nodup|]. split; [apply incl_filter|].
  split; [intro d; apply filter_In|reflexivity].
Qed.

Definition drawn_total (dr : list (seg * (C * Z))) : Q :=
  fold_right Qplus 0 (map (fun x => clip_len (fst x)) dr).

Lemma pieces_len (L : plat) (icd : nat * (C * Z)) :
  drawn_total (pieces_of L icd) == drawn_len (edge_seg L (fst icd)).
Proof.
  unfold drawn_total, pieces_of, drawn_len. rewrite map_map. cbn [fst].
  apply (sum_filter (fun d => visible (seg_translate (edge_seg L (fst icd)) (zpoint d)))
                    (fun d => clip_len (seg_translate (edge_seg L (fst icd)) (zpoint d)))).
Qed.

(* hypotheses of CoverFacts.drawn_in_full on one unwrapped edge *)
Definition edge_ok (s : seg) : Prop :=
  0 <= px (seg_end s) /\ px (seg_end s) < 1 /\ 0 <= py (seg_end s) /\ py (seg_end s) < 1 /\
  -(1) < px (seg_start s) - px (seg_end s) /\ px (seg_start s) - px (seg_end s) < 1 /\
  -(1) < py (seg_start s) - py (seg_end s) /\ py (seg_start s) - py (seg_end s) < 1 /\
  generic_edge s.

Lemma drawn_total_flat (L : plat) (items : list (nat * (C * Z))) :
  Forall (fun icd => edge_ok (edge_seg L (fst icd))) items ->
  drawn_total (flat_map (pieces_of L) items) == inject_Z (Z.of_nat (length items)).
Proof.
  induction 1 as [|icd items Hok _ IH].
  - reflexivity.
  - cbn [flat_map length]. unfold drawn_total in *. rewrite map_app, sum_app, IH.
    pose proof (pieces_len L icd) as E. unfold drawn_total in E. rewrite E.
    destruct Hok as (H1 & H2 & H3 & H4 & H5 & H6 & H7 & H8 & H9).
    rewrite (drawn_in_full _ H1 H2 H3 H4 H5 H6 H7 H8 H9).
    rewrite Nat2Z.inj_succ. unfold Z.succ. rewrite inject_Z_plus. change (inject_Z 1) with 1. lra.
Qed.

Lemma broadcast_args_length (a : labels) (idx : list nat) (N : nat) (l : list Z) :
  broadcast_args a idx N = Ok l -> length l = length idx.
Proof.
  unfold broadcast_args.
  set (a' := match a with LScalar z => repeat z N | LList l0 => l0 end).
  destruct (length a' =? N)%nat.
  - intro H. injection H as <-. apply map_length.
  - destruct (length a' =? length idx)%nat eqn:E; [|discriminate].
    intro H. injection H as <-. apply Nat.eqb_eq. exact E.
Qed.

Lemma process_plot_args_lengths (N : nat) (s : subset) (lab : labels) (scheme : list C) (idx : list nat) (cols : list C) :
  process_plot_args N s lab scheme = Ok (idx, cols) ->
  subset_indices N s = Ok idx /\ length cols = length idx.
Proof.
  unfold process_plot_args.
  destruct (subset_indices N s) as [idx'|]; [|discriminate]. cbn [bind].
  destruct (broadcast_args lab idx' N) as [l|] eqn:El; [|discriminate]. cbn [bind].
  destruct (mapM (scheme_at scheme) l) as [cols'|] eqn:Em; [|discriminate]. cbn [bind].
  intro H. injection H as <- <-. split; [reflexivity|].
  rewrite (mapM_length _ _ _ Em). apply (broadcast_args_length _ _ _ _ El).
Qed.

(* "the total length of the drawn segments inside the unit cell equals the total length of those
   edges", for the whole call: every selected occurrence contributes exactly one edge length
   (clip_len = fraction of the edge) *)
Theorem plot_edges_total_length (L : plat) (s : subset) (lab : labels) (scheme : list C) (dirs : labels)
        (dr : list (seg * (C * Z))) (idx : list nat) (cols : list C) :
  plot_edges L s lab scheme dirs = Ok dr ->
  process_plot_args (length (pedges L)) s lab scheme = Ok (idx, cols) ->
  Forall (fun i => edge_ok (edge_seg L i)) idx ->
  drawn_total dr == inject_Z (Z.of_nat (length idx)).
Proof.
  intros Hd Hp Hok.
  destruct (plot_edges_each_once L s lab scheme dirs dr Hd) as (idx' & cols' & ds & Hp' & Hb & Hperm).
  rewrite Hp in Hp'. injection Hp' as <- <-.
  destruct (process_plot_args_lengths _ _ _ _ _ _ Hp) as [_ Hlc].
  pose proof (broadcast_args_length _ _ _ _ Hb) as Hld.
  unfold drawn_total. rewrite (sum_perm _ _ (Permutation_map _ Hperm)).
  change (drawn_total (flat_map (pieces_of L) (combine idx (combine cols ds))) == inject_Z (Z.of_nat (length idx))).
  rewrite drawn_total_flat.
  - rewrite !combine_length, Hlc, Hld, !Nat.min_id. reflexivity.
  - clear - Hok. revert Hok. generalize (combine cols ds). induction idx as [|i idx IH]; intros l Hok; [constructor|].
    destruct l as [|c l]; [constructor|]. inversion Hok; subst. cbn [combine]. constructor; [assumption|]. apply IH. assumption.
Qed.
End Edges.

(* ---------- plot_dual: the range hypotheses hold for every dual lattice ---------- *)
Lemma qmod1_range (x : Q) : 0 <= qmod1 x /\ qmod1 x < 1.
Proof.
  unfold qmod1. pose proof (Qfloor_le x) as H1. pose proof (Qlt_floor x) as H2.
  rewrite inject_Z_plus in H2. change (inject_Z 1) with 1 in H2. lra.
Qed.

Lemma qround_half_even_close (x : Q) :
  -(1#2) <= x - inject_Z (qround_half_even x) /\ x - inject_Z (qround_half_even x) <= 1#2.
Proof.
  unfold qround_half_even.
  pose proof (Qfloor_le x) as H1. pose proof (Qlt_floor x) as H2.
  rewrite inject_Z_plus in H2. change (inject_Z 1) with 1 in H2.
  destruct (x - inject_Z (Qfloor x) ?= 1 # 2) eqn:E.
  - apply Qeq_alt in E. destruct (Z.even (Qfloor x)).
    + lra.
    + rewrite inject_Z_plus. change (inject_Z 1) with 1. lra.
  - apply Qlt_alt in E. lra.
  - apply Qgt_alt in E. rewrite inject_Z_plus. change (inject_Z 1) with 1. lra.
Qed.

Definition in01 (p : point) : Prop := 0 <= px p /\ px p < 1 /\ 0 <= py p /\ py p < 1.

Lemma nth_in01 (l : list point) (k : nat) : Forall in01 l -> in01 (nth k l (0, 0)).
Proof.
  intro H. destruct (Nat.lt_ge_cases k (length l)) as [Hk|Hk].
  - rewrite Forall_forall in H. apply H. apply nth_In. exact Hk.
  - rewrite nth_overflow by exact Hk. unfold in01, px, py. cbn [fst snd]. lra.
Qed.

Lemma make_dual_shape (L : lattice) (D : qlattice) :
  make_dual L = DualOk D ->
  Forall in01 (qpos D) /\ qcrossing D = map (dual_crossing_of (qpos D)) (qedges D).
Proof.
  unfold make_dual. destruct (find_all_plaquettes L) as [ps|]; [|discriminate].
  destruct (rows_nodup _); [|discriminate]. intro H. injection H as <-. cbn [qpos qcrossing qedges].
  split; [|reflexivity].
  rewrite Forall_forall. intros p Hp. apply in_map_iff in Hp. destruct Hp as (pl & <- & _).
  unfold in01, qmod1v, px, py. cbn [fst snd].
  pose proof (qmod1_range (fst (centre L pl))). pose proof (qmod1_range (snd (centre L pl))). tauto.
Qed.

(* every edge of the dual lattice, as plot_edges unwraps it: the end point is a stored position in
   [0,1)^2 and the edge spans at most half a cell per coordinate *)
Theorem dual_edge_in_range (L : lattice) (D : qlattice) (e : nat) :
  make_dual L = DualOk D -> (e < length (qedges D))%nat ->
  let s := edge_seg (plat_of_dual D) e in
  in01 (seg_end s) /\
  -(1#2) <= px (seg_start s) - px (seg_end s) /\ px (seg_start s) - px (seg_end s) <= 1#2 /\
  -(1#2) <= py (seg_start s) - py (seg_end s) /\ py (seg_start s) - py (seg_end s) <= 1#2.
Proof.
  intros HD He. destruct (make_dual_shape L D HD) as [Hpos Hcr].
  unfold edge_seg, Plot.edge_at, Plot.cross_at, Plot.pos_at, plat_of_dual. cbn [ppos pedges pcross].
  rewrite Hcr.
  rewrite (nth_indep (map (dual_crossing_of (qpos D)) (qedges D)) (0, 0)%Z (dual_crossing_of (qpos D) (0, 0)%nat))
    by (rewrite map_length; exact He).
  rewrite map_nth.
  destruct (nth e (qedges D) (0, 0)%nat) as [j k] eqn:Ejk.
  cbn zeta. unfold seg_end, seg_start. cbn [fst snd].
  split; [apply nth_in01; exact Hpos|].
  unfold dual_crossing_of, qvsub, qvzero, pred_, psub, zpoint, px, py. cbn [fst snd].
  rewrite !Qred_correct. unfold qvec, point in *.
  generalize (@nth (Q * Q) j (qpos D) (0, 0)), (@nth (Q * Q) k (qpos D) (0, 0)). intros a b.
  pose proof (qround_half_even_close (fst a - fst b)) as [X1 X2].
  pose proof (qround_half_even_close (snd a - snd b)) as [Y1 Y2].
  repeat split; lra.
Qed.

Section Dual.
Context {C : Type}.

Theorem plot_dual_edge_in_full (L : lattice) (D : qlattice) (e : nat) :
  make_dual L = DualOk D -> (e < length (qedges D))%nat ->
  generic_edge (edge_seg (plat_of_dual D) e) ->
  drawn_len (edge_seg (plat_of_dual D) e) == 1.
Proof.
  intros HD He Hg. destruct (dual_edge_in_range L D e HD He) as ((H1 & H2 & H3 & H4) & H5 & H6 & H7 & H8).
  apply drawn_in_full; try assumption; lra.
Qed.

(* the whole call: every selected dual edge is drawn in full, once; the only hypothesis left is
   generic position of the selected dual edges *)
Theorem plot_dual_total_length (L : lattice) (D : qlattice) (s : subset) (lab : labels) (scheme : list C) (dirs : labels)
        (dr : list (seg * (C * Z))) (idx : list nat) (cols : list C) :
  make_dual L = DualOk D ->
  plot_dual L s lab scheme dirs = DPDrawn (Ok dr) ->
  process_plot_args (length (qedges D)) s lab scheme = Ok (idx, cols) ->
  Forall (fun i => generic_edge (edge_seg (plat_of_dual D) i)) idx ->
  drawn_total dr == inject_Z (Z.of_nat (length idx)) /\
  Permutation dr (flat_map (pieces_of (plat_of_dual D))
                           (combine idx (combine cols (match broadcast_args dirs idx (length (qedges D)) with Ok ds => ds | Error _ => [] end)))).
Proof.
  intros HD Hp Ha Hg. unfold plot_dual in Hp. rewrite HD in Hp. injection Hp as Hp.
  split.
  - apply (plot_edges_total_length (plat_of_dual D) s lab scheme dirs dr idx cols Hp Ha).
    destruct (process_plot_args_lengths _ _ _ _ _ _ Ha) as [Hs _].
    pose proof (subset_indices_range _ _ _ Hs) as Hr. cbn [plat_of_dual pedges] in Hr.
    rewrite Forall_forall in *. intros i Hi.
    destruct (dual_edge_in_range L D i HD (Hr i Hi)) as ((H1 & H2 & H3 & H4) & H5 & H6 & H7 & H8).
    unfold edge_ok. repeat (split; [first [assumption | lra]|]). apply Hg. exact Hi.
  - destruct (plot_edges_each_once _ _ _ _ _ _ Hp) as (idx' & cols' & ds & Hp' & Hb & Hperm).
    cbn [plat_of_dual pedges] in Hp', Hb. rewrite Ha in Hp'. injection Hp' as <- <-. rewrite Hb. exact Hperm.
Qed.
End Dual.

(* ---------- colour resolution (plotting.py:318-328) ---------- *)
Close Scope Q_scope.

Theorem resolve_scheme_no_kw (sa : scheme_arg) : resolve_scheme sa None = Ok (scheme_list sa).
Proof. reflexivity. Qed.

(* a str scheme is the one-colour scheme: with the default label 0 every selected element gets it *)
Theorem str_scheme_constant (N : nat) (s : subset) (c : ustr) (idx : list nat) :
  subset_indices N s = Ok idx ->
  process_plot_args_c N s (LScalar 0) (SchemeStr c) None = Ok (idx, repeat c (length idx)).
Proof.
  intro Hs. unfold process_plot_args_c. cbn [resolve_scheme scheme_list bind].
  apply broadcast_scalar_constant; [exact Hs|reflexivity].
Qed.

(* color= : the first entry of the scheme is replaced by the keyword's colour CUT to the width of
   the scheme's numpy dtype; the other entries stay *)
Theorem resolve_scheme_kw (sa : scheme_arg) (c : ustr) (sch : list ustr) :
  resolve_scheme sa (Some c) = Ok sch ->
  exists c0 r, scheme_list sa = c0 :: r /\ sch = firstn (ustr_width (c0 :: r)) c :: r.
Proof.
  unfold resolve_scheme. destruct (scheme_list sa) as [|c0 r]; [discriminate|].
  intro H. injection H as <-. exists c0, r. split; reflexivity.
Qed.

Theorem resolve_scheme_kw_empty (sa : scheme_arg) (c : ustr) :
  scheme_list sa = [] -> resolve_scheme sa (Some c) = Error IndexError.
Proof. unfold resolve_scheme. intros ->. reflexivity. Qed.

(* the keyword's colour arrives intact iff it is not longer than the longest scheme entry *)
Theorem resolve_scheme_kw_fits (sa : scheme_arg) (c c0 : ustr) (r : list ustr) :
  scheme_list sa = c0 :: r -> length c <= ustr_width (c0 :: r) ->
  resolve_scheme sa (Some c) = Ok (c :: r).
Proof.
  intros E H. unfold resolve_scheme. rewrite E. rewrite firstn_all2 by exact H. reflexivity.
Qed.

(* labels other than 0 (and its negative alias -K) are looked up as without the keyword *)
Theorem resolve_scheme_kw_other_labels (sa : scheme_arg) (c : ustr) (sch : list ustr) (z : Z) :
  resolve_scheme sa (Some c) = Ok sch ->
  z <> 0%Z -> z <> (- Z.of_nat (length (scheme_list sa)))%Z ->
  scheme_at sch z = scheme_at (scheme_list sa) z.
Proof.
  intros H Hz Hk. destruct (resolve_scheme_kw sa c sch H) as (c0 & r & E & ->).
  rewrite E in *. unfold scheme_at. cbn [length] in *.
  set (K := Z.of_nat (S (length r))) in *.
  destruct ((- K <=? z)%Z && (z <? K)%Z) eqn:R; [|reflexivity].
  apply andb_true_iff in R. destruct R as [R1 R2]. apply Z.leb_le in R1. apply Z.ltb_lt in R2.
  destruct (Z.to_nat (if (z <? 0)%Z then (z + K)%Z else z)) eqn:Ei.
  - exfalso. destruct (z <? 0)%Z eqn:Ez; [apply Z.ltb_lt in Ez|apply Z.ltb_ge in Ez]; lia.
  - reflexivity.
Qed.

(* REFUTED: "with color=c the label-0 elements carry the colour c".  numpy cuts the string to the
   width of the scheme's dtype: default scheme ('#E7414E', ...: 7 characters) and color='lightgrey'
   give 'lightgr' — which matplotlib then rejects (ValueError) in plot_edges. *)
Definition lightgrey : ustr := [108; 105; 103; 104; 116; 103; 114; 101; 121]%Z.
Theorem color_kw_refuted :
  exists (sa : scheme_arg) (c : ustr) (sch : list ustr),
    resolve_scheme sa (Some c) = Ok sch /\ nth_error sch 0 <> Some c /\
    nth_error sch 0 = Some (firstn 7 c).
Proof.
  exists default_scheme, lightgrey. eexists. split; [vm_compute; reflexivity|].
  split; [intro H; vm_compute in H; discriminate|vm_compute; reflexivity].
Qed.

(* what the keyword does to the artists *)
Theorem plot_plaquettes_c_kw (L : plat) (pls : list plaq) (s : subset) (lab : labels) (sa : scheme_arg) (k : ustr)
        (r : list (list polygon * ustr)) :
  plot_plaquettes_c L pls s lab sa (Some k) = Ok r -> Forall (fun pc => snd pc = k) r.
Proof.
  unfold plot_plaquettes_c. destruct (resolve_scheme sa (Some k)) as [sch|]; [|discriminate]. cbn [bind].
  destruct (plot_plaquettes L pls s lab sch) as [r0|]; [|discriminate]. cbn [bind].
  intro H. injection H as <-. rewrite Forall_forall. intros pc Hpc. apply in_map_iff in Hpc.
  destruct Hpc as (x & <- & _). reflexivity.
Qed.

Theorem plot_vertices_c_kw (L : plat) (s : subset) (lab : labels) (sa : scheme_arg) (k : ustr) (r : list (point * ustr)) :
  plot_vertices_c L s lab sa (Some k) <> Ok r.
Proof.
  unfold plot_vertices_c. destruct (resolve_scheme sa (Some k)) as [sch|]; [|discriminate]. cbn [bind].
  destruct (plot_vertices L s lab sch) as [r0|]; discriminate.
Qed.

(* ---------- the defaults ---------- *)
Lemma default_subset_all (N : nat) : subset_indices N default_subset = Ok (seq 0 N).
Proof.
  unfold default_subset, subset_indices, slice_indices, slice_step, slice_start, slice_stop, slice_lower, slice_upper, slice_count.
  cbn [Z.eqb Z.ltb Z.compare]. f_equal.
  destruct (0 <? Z.of_nat N)%Z eqn:E.
  - apply Z.ltb_lt in E. rewrite Z.div_1_r.
    replace (Z.to_nat (Z.of_nat N - 0 - 1 + 1)) with N by lia.
    rewrite <- (map_id (seq 0 N)) at 2. apply map_ext. intro i. lia.
  - apply Z.ltb_ge in E. assert (N = 0) by lia. subst. reflexivity.
Qed.

Lemma combine_repeat {A B : Type} (l : list A) (b : B) : combine l (repeat b (length l)) = map (fun a => (a, b)) l.
Proof. induction l as [|a l IH]; simpl; [reflexivity|]. rewrite IH. reflexivity. Qed.

(* plot_vertices(lattice): every vertex, at its position, in "black" *)
Theorem plot_vertices_default_all (L : plat) :
  plot_vertices_default L = Ok (map (fun p => (p, [98; 108; 97; 99; 107]%Z)) (ppos L)).
Proof.
  unfold plot_vertices_default, plot_vertices_c, default_vertex_scheme. cbn [resolve_scheme scheme_list bind].
  unfold plot_vertices, default_labels.
  match goal with |- context [process_plot_args ?N ?s0 _ ?sch] =>
    rewrite (@broadcast_scalar_constant _ N s0 0 sch (seq 0 N) [98; 108; 97; 99; 107]%Z (default_subset_all _) eq_refl) end.
  cbn [bind fst snd]. unfold Plot.pos_at. rewrite map_nth_seq, seq_length, combine_repeat. reflexivity.
Qed.

(* plot_edges(lattice): every drawn piece is handed the first colour of the default scheme *)
Theorem plot_edges_default_colour (L : plat) (dr : list (seg * (ustr * Z))) :
  plot_edges_default L = Ok dr ->
  Forall (fun x => fst (snd x) = [35; 69; 55; 52; 49; 52; 69]%Z /\ snd (snd x) = 0%Z) dr.
Proof.
  unfold plot_edges_default, plot_edges_c, default_scheme. cbn [resolve_scheme scheme_list bind]. intro H.
  destruct (plot_edges_each_once _ _ _ _ _ _ H) as (idx & cols & ds & Hp & Hb & Hperm).
  unfold default_labels in Hp, Hb.
  match type of Hp with context [process_plot_args ?N ?s0 _ ?sch] =>
    rewrite (@broadcast_scalar_constant _ N s0 0 sch (seq 0 N) [35; 69; 55; 52; 49; 52; 69]%Z (default_subset_all _) eq_refl) in Hp end.
  injection Hp as <- <-.
  rewrite broadcast_scalar in Hb by (rewrite Forall_forall; intros i Hi; apply in_seq in Hi; lia).
  injection Hb as <-.
  eapply Permutation_Forall; [apply Permutation_sym; exact Hperm|].
  rewrite Forall_forall. intros x Hx. apply in_flat_map in Hx. destruct Hx as (icd & Hicd & Hx).
  unfold pieces_of in Hx. apply in_map_iff in Hx. destruct Hx as (d & <- & _). cbn [snd].
  destruct icd as [i [c z]]. apply in_combine_r in Hicd. cbn [snd fst].
  pose proof (in_combine_l _ _ _ _ Hicd) as Hc. pose proof (in_combine_r _ _ _ _ Hicd) as Hd.
  apply repeat_spec in Hc. apply repeat_spec in Hd. split; assumption.
Qed.
