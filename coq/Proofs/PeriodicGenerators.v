(* Proofs/PeriodicGenerators.v — C10 polygons_all_sizes for the hand-indexed generators of Model/Examples.v
   (honeycomb n, hex_square_oct n): each is a periodic lattice over a small cell on a torus of cells, with the
   block edge numbering of Proofs/PeriodicBlock.v; block_census reduces the census for ALL sizes to four facts
   about the model (edge ends, edge vectors, sizes) plus a computed, checked certificate of the cell. *)
From Coq Require Import List ZArith Bool Arith Lia ZifyBool Permutation Sorted.
From Koala Require Import Gen.TilingGen Model.Lattice Model.Tiling Model.Examples Proofs.LatticeFacts
     Proofs.TilingFacts Proofs.ExamplesIndex Proofs.ExamplesClaims Proofs.WindingConvexTri Proofs.WindingConvex Proofs.PeriodicRot Proofs.PeriodicFaces Proofs.PeriodicTile
     Proofs.PeriodicBlock Proofs.PeriodicExamples.
Import ListNotations.
Open Scope nat_scope.

(* nat-indexed access to a zlattice *)
Lemma zl_edge Zl x j k : nth x (z_edges Zl) (0, 0)%Z = (j, k) -> edge_at (to_lattice Zl) x = (Z.to_nat j, Z.to_nat k).
Proof.
  intros H. unfold edge_at, to_lattice. cbn [edges].
  change (0, 0) with ((fun e0 : Z * Z => (Z.to_nat (fst e0), Z.to_nat (snd e0))) (0, 0)%Z).
  rewrite map_nth, H. reflexivity.
Qed.
Lemma znth_nat {A} (l : list A) d (i : Z) (k : nat) : Z.to_nat i = k -> znth i l d = nth k l d.
Proof. intros <-. reflexivity. Qed.


Lemma simple_nsl (c : unit_cell) (m m' e : nat) :
  wf_cell c = true -> cell_simple c = true -> e < t_ne c ->
  m * t_ns c + t_bj c e <> m' * t_ns c + t_bk c e.
Proof.
  intros Hwf Hs He. destruct (wf_cell_spec c Hwf) as (_ & _ & _ & Hed).
  specialize (Hed (Z.of_nat e) ltac:(unfold n_uedges, zlen; unfold t_ne in He; lia)).
  unfold znth, n_sites, zlen in Hed. rewrite Nat2Z.id in Hed.
  unfold cell_simple in Hs. rewrite forallb_forall in Hs.
  assert (Hin : In (nth e (uc_edges c) (0, 0)%Z) (uc_edges c)) by (apply nth_In; exact He).
  specialize (Hs _ Hin). intro Eq. apply cell_site_inj in Eq as [_ Eq]; unfold t_bj, t_bk, t_ns in *; lia.
Qed.

(* ---------- a generator whose edges are numbered in blocks over a torus of nx x ny cells ---------- *)
Section BlockGen.
  Variable c : unit_cell.
  Variables nx ny al be : Z.
  Variable kint : nat.
  Variable eo : nat -> vec.
  Variable L : lattice.
  Variable rots faces : list (list (nat * bool)).
  Let N := t_N nx ny.
  Let ns := t_ns c.
  Let ne := t_ne c.
  Variable tr : vec -> nat -> nat.
  Let eid := b_eid N kint eo tr.
  Hypothesis Htr_lt : forall a n, n < N -> tr a n < N.
  Hypothesis Htr0 : forall n, n < N -> tr vzero n = n.
  Hypothesis Htr_add : forall a b n, n < N -> tr a (tr b n) = tr (vadd a b) n.
  Hypothesis Htr_inj : forall a a' n, n < N -> tr a n = tr a' n ->
    ((fst a - fst a') mod nx = 0 /\ (snd a - snd a') mod ny = 0)%Z.
  Hypothesis Hx : (1 <= nx)%Z.
  Hypothesis Hy : (1 <= ny)%Z.
  Hypothesis Hal : (0 < al)%Z.
  Hypothesis Hbe : (0 < be)%Z.
  Hypothesis Hk : kint <= ne.
  Hypothesis Hwf : wf_cell c = true.
  Hypothesis Hcert : cell_cert_okb c rots faces = true.
  Hypothesis Hedges : edges_okb c nx ny faces = true.
  Hypothesis Hscale : (0 < scale L)%Z.
  Hypothesis HnE : nE L = ne * N.
  Hypothesis HnC : length (crossing L) = ne * N.
  Hypothesis HnV : nV L = N * ns.
  Hypothesis Hedge : forall m e, m < N -> e < ne ->
    edge_at L (eid m e) = (m * ns + t_bj c e, tr (t_bc c e) m * ns + t_bk c e).
  Hypothesis Hvec : forall m e, m < N -> e < ne -> evec L (eid m e) = asc al be (t_bvec c e).
  (* no copy of a base edge is a self-loop (cell_simple c suffices: simple_nsl) *)
  Hypothesis Hnsl : forall m e, m < N -> e < ne -> m * ns + t_bj c e <> tr (t_bc c e) m * ns + t_bk c e.

  Lemma block_ends e : e < ne -> t_bj c e < ns /\ t_bk c e < ns.
  Proof.
    intros He. destruct (wf_cell_spec c Hwf) as (_ & _ & _ & Hed).
    specialize (Hed (Z.of_nat e) ltac:(unfold n_uedges, zlen; unfold ne, t_ne in He; lia)).
    unfold znth, n_sites, zlen in Hed. rewrite Nat2Z.id in Hed. unfold t_bj, t_bk, ns, t_ns. lia.
  Qed.

  Lemma block_good : good L.
  Proof.
    assert (Hall : forall x, In x (edges L) -> (fst x <? nV L) && (snd x <? nV L) = true /\ fst x <> snd x).
    { intros x Hin. apply (In_nth _ _ (0, 0)) in Hin as (i & Hi & <-). fold (nE L) in Hi. rewrite HnE in Hi.
      destruct (b_dec N kint ne eo tr Hk Htr_lt Htr0 Htr_add i Hi)
        as (Hn & He & Ei).
      fold (edge_at L i). rewrite <- Ei. fold eid. rewrite (Hedge _ _ Hn He). cbn [fst snd].
      destruct (block_ends _ He) as (Bj & Bk).
      pose proof (Htr_lt (t_bc c (b_ebase N kint i)) _ Hn) as Hn'.
      split; [rewrite HnV; apply andb_true_iff; split; apply Nat.ltb_lt; nia|].
      apply (Hnsl _ _ Hn He). }
    split.
    - unfold wf_lattice. rewrite !andb_true_iff. split; [split|].
      + apply Z.ltb_lt, Hscale.
      + apply Nat.eqb_eq. rewrite HnC, HnE. reflexivity.
      + apply forallb_forall. intros x Hin. apply (Hall x Hin).
    - unfold no_self_loops. apply forallb_forall. intros x Hin. apply negb_true_iff, Nat.eqb_neq, (Hall x Hin).
  Qed.

  Theorem block_census : census_all_sizes L N (map (@length _) faces).
  Proof.
    assert (P : exists ps, find_all_plaquettes L = Some ps /\
      Permutation (map n_sides ps) (flat_map (fun _ => map (@length _) faces) (seq 0 N)) /\
      (forall p, In p ps -> p_winding p = (-1)%Z /\ (0 < p_area2 p)%Z /\ NoDup (p_edges p)) /\
      NoDup (flat_map plaq_darts ps) /\
      (forall d, valid_dart L d <-> In d (flat_map plaq_darts ps))).
    { apply (periodic_plaquettes L block_good N ns ne (t_bj c) (t_bk c) (t_bc c) tr eid
               (b_ecell N kint eo tr) (b_ebase N kint) (t_bvec c) al be (c_brot rots)).
      - exact Hal.
      - exact Hbe.
      - intros e He. apply (block_ends e He).
      - exact Htr_lt.
      - exact Htr0.
      - exact Htr_add.
      - intros n e Hn He. rewrite HnE. apply (b_eid_lt N kint ne eo tr Hk Htr_lt); assumption.
      - intros x Hx'. rewrite HnE in Hx'.
        apply (b_dec N kint ne eo tr Hk Htr_lt Htr0 Htr_add x Hx').
      - apply (b_eid_inj N kint ne eo tr Hk Htr_lt Htr0 Htr_add).
      - exact Hedge.
      - exact Hvec.
      - apply (cert_nz c rots faces Hcert).
      - intros s e b Hs. apply (cert_rot c rots faces Hcert s Hs).
      - intros s Hs. apply (cert_rot c rots faces Hcert s Hs).
      - intros f Hf. apply (cert_face c rots faces Hcert f Hf).
      - intros f Hf. apply (cert_face c rots faces Hcert f Hf).
      - intros f Hf. apply (cert_face c rots faces Hcert f Hf).
      - intros f Hf. apply (cert_face c rots faces Hcert f Hf).
      - apply dnodupb_spec. apply (cert_parts c rots faces Hcert).
      - apply (cert_cover c rots faces Hcert).
      - intros f Hf. apply (cert_face c rots faces Hcert f Hf).
      - intros f t Hf Ht. apply (tile_edges_nodup c nx ny L eid) with (faces := faces) (tr := tr); try assumption.
        + apply (b_eid_inj N kint ne eo tr Hk Htr_lt Htr0 Htr_add).
        + apply (cert_face c rots faces Hcert f Hf). }
    destruct P as (ps & Hf & P & Hp & Hn & Hd). eapply census_of_perm; eassumption.
  Qed.

  (* areas: twice the plaquette areas sum to 2 * scale^2 *)
  Theorem block_area :
    cell_area_okb c faces = true ->
    (Z.of_nat N * (al * be) * (2 * uc_scale c * uc_scale c) = 2 * scale L * scale L)%Z ->
    forall ps, find_all_plaquettes L = Some ps -> area2_sum ps = (2 * scale L * scale L)%Z.
  Proof.
    intros Ha Hrel ps Hps.
    assert (P : exists ps, find_all_plaquettes L = Some ps /\
      Permutation (map p_area2 ps) (flat_map (fun _ => map (barea2 (t_bvec c) al be) faces) (seq 0 N)) /\
      zsum (map p_area2 ps) = (Z.of_nat N * zsum (map (barea2 (t_bvec c) al be) faces))%Z).
    { apply (periodic_areas L block_good N ns ne (t_bj c) (t_bk c) (t_bc c) tr eid
               (b_ecell N kint eo tr) (b_ebase N kint) (t_bvec c) al be (c_brot rots)).
      - exact Hal.
      - exact Hbe.
      - intros e He. apply (block_ends e He).
      - exact Htr_lt.
      - exact Htr0.
      - exact Htr_add.
      - intros n e Hn He. rewrite HnE. apply (b_eid_lt N kint ne eo tr Hk Htr_lt); assumption.
      - intros x Hx'. rewrite HnE in Hx'.
        apply (b_dec N kint ne eo tr Hk Htr_lt Htr0 Htr_add x Hx').
      - apply (b_eid_inj N kint ne eo tr Hk Htr_lt Htr0 Htr_add).
      - exact Hedge.
      - exact Hvec.
      - apply (cert_nz c rots faces Hcert).
      - intros s e b Hs. apply (cert_rot c rots faces Hcert s Hs).
      - intros s Hs. apply (cert_rot c rots faces Hcert s Hs).
      - intros f Hf. apply (cert_face c rots faces Hcert f Hf).
      - intros f Hf. apply (cert_face c rots faces Hcert f Hf).
      - intros f Hf. apply (cert_face c rots faces Hcert f Hf).
      - intros f Hf. apply (cert_face c rots faces Hcert f Hf).
      - apply dnodupb_spec. apply (cert_parts c rots faces Hcert).
      - apply (cert_cover c rots faces Hcert).
      - intros f Hf. apply (cert_face c rots faces Hcert f Hf).
      - intros f t Hf Ht. apply (tile_edges_nodup c nx ny L eid) with (faces := faces) (tr := tr); try assumption.
        + apply (b_eid_inj N kint ne eo tr Hk Htr_lt Htr0 Htr_add).
        + apply (cert_face c rots faces Hcert f Hf). }
    destruct P as (ps' & Hps' & _ & Hsum). rewrite Hps in Hps'. injection Hps' as <-.
    change (area2_sum ps) with (zsum (map p_area2 ps)). rewrite Hsum, <- Hrel.
    unfold cell_area_okb in Ha. apply Z.eqb_eq in Ha.
    assert (Ez : zsum (map (barea2 (t_bvec c) al be) faces) = (al * be * (2 * uc_scale c * uc_scale c))%Z).
    { rewrite <- Ha. unfold barea2, c_hv. clear. induction faces as [|f r IH]; [cbn; ring|].
      cbn [map]. unfold zsum in *. cbn [fold_right]. rewrite IH. ring. }
    rewrite Ez. ring.
  Qed.
  (* a quantity of a plaquette that depends only on the base face it is a copy of takes one of the base values *)
  Theorem block_value (X : Type) (bv : list (nat * bool) -> X) (gv : plaquette -> X) :
    (forall t f l1 l2, t < N -> In f faces -> f = l1 ++ l2 ->
       gv (mk_plaquette L (twalk L (t_bc c) tr eid t (l2 ++ l1))) = bv f) ->
    forall ps, find_all_plaquettes L = Some ps -> forall p, In p ps -> In (gv p) (map bv faces).
  Proof.
    intros Hgv.
    apply (periodic_plaquette_value L block_good N ns ne (t_bj c) (t_bk c) (t_bc c) tr eid
             (b_ecell N kint eo tr) (b_ebase N kint) (t_bvec c) al be (c_brot rots)).
    - exact Hal.
    - exact Hbe.
    - intros e He. apply (block_ends e He).
    - exact Htr_lt.
    - exact Htr0.
    - exact Htr_add.
    - intros n e Hn He. rewrite HnE. apply (b_eid_lt N kint ne eo tr Hk Htr_lt); assumption.
    - intros x Hx'. rewrite HnE in Hx'.
      apply (b_dec N kint ne eo tr Hk Htr_lt Htr0 Htr_add x Hx').
    - apply (b_eid_inj N kint ne eo tr Hk Htr_lt Htr0 Htr_add).
    - exact Hedge.
    - exact Hvec.
    - apply (cert_nz c rots faces Hcert).
    - intros s e b Hs. apply (cert_rot c rots faces Hcert s Hs).
    - intros s Hs. apply (cert_rot c rots faces Hcert s Hs).
    - intros f Hf. apply (cert_face c rots faces Hcert f Hf).
    - intros f Hf. apply (cert_face c rots faces Hcert f Hf).
    - intros f Hf. apply (cert_face c rots faces Hcert f Hf).
    - intros f Hf. apply (cert_face c rots faces Hcert f Hf).
    - apply dnodupb_spec. apply (cert_parts c rots faces Hcert).
    - apply (cert_cover c rots faces Hcert).
    - exact Hgv.
  Qed.
End BlockGen.

(* ================================================================== honeycomb_lattice *)
(* the honeycomb cell: sites at (1,1),(1,5),(3,7),(3,11) in units (1/4, 1/12), written over the common scale 12 *)
Definition hc_cell : unit_cell :=
  mkCell 12 [(3, 1); (3, 5); (9, 7); (9, 11)]%Z
         [(0, 1); (2, 1); (2, 3); (2, 1); (0, 3); (0, 3)]%Z
         [(0, 0); (0, 0); (0, 0); (1, 0); (0, -1); (-1, -1)]%Z.
(* cell the generator's index arithmetic attaches base edge e to, relative to the tail cell *)
Definition hc_eo (e : nat) : vec := nth e [vzero; vzero; vzero; vzero; (0, -1)%Z; (-1, -1)%Z] vzero.
Definition hc_rots := cell_rots hc_cell.
Definition hc_faces := cell_faces hc_cell hc_rots.

Lemma hc_cert :
  wf_cell hc_cell = true /\ cell_simple hc_cell = true /\
  cell_cert_okb hc_cell hc_rots hc_faces = true /\ map (@length _) hc_faces = [6; 6] /\
  edges_xsmallb hc_cell hc_faces = true.
Proof. vm_compute. repeat split; reflexivity. Qed.

Lemma nth_map_const_one {A} (l : list A) i : i < length l -> nth i (map (fun _ => 1%Z) l) 0%Z = 1%Z.
Proof. revert i; induction l as [|a l IH]; intros i Hi; [cbn in Hi; lia|]. destruct i; [reflexivity|]. cbn. apply IH. cbn in Hi. lia. Qed.

Lemma prod_sgn_app (a b : list Z) :
  fold_right Z.mul 1%Z (a ++ b) = (fold_right Z.mul 1%Z a * fold_right Z.mul 1%Z b)%Z.
Proof. induction a as [|x a IH]; cbn [app fold_right]; [lia|]. rewrite IH. ring. Qed.

Ltac tonat H k := rewrite (znth_nat _ _ _ k) in H by lia.

Section HC.
  Variable n : Z.
  Hypothesis Hn : (1 <= n)%Z.
  Let nv := honeycomb_nv n.
  Let L := to_lattice (honeycomb n).
  Let N := t_N n nv.

  Lemma hc_nv : (1 <= nv)%Z.
  Proof. apply (honeycomb_index_structure_claim n Hn). Qed.

  Lemma hc_N : Z.of_nat N = (nv * n)%Z.
  Proof. pose proof hc_nv. unfold N, t_N. rewrite Z2Nat.id by nia. ring. Qed.

  (* the index structure of cell m, with natural-number indices *)
  Lemma hc_idx m : m < N ->
    let z := Z.of_nat m in let cx := (z mod n)%Z in let cy := (z / n)%Z in
    let E := z_edges (honeycomb n) in let C := z_crossing (honeycomb n) in let P := z_pos (honeycomb n) in
    (z = cy * n + cx /\ 0 <= cx < n /\ 0 <= cy < nv)%Z /\
    (nth (3 * m) E (0,0) = (4 * z, 4 * z + 1) /\ nth (3 * m + 1) E (0,0) = (4 * z + 2, 4 * z + 1) /\
     nth (3 * m + 2) E (0,0) = (4 * z + 2, 4 * z + 3) /\
     nth (3 * N + m) E (0,0) = (4 * z + 2, 4 * (cy * n + (cx + 1) mod n) + 1) /\
     nth (4 * N + m) E (0,0) = (4 * (((cy + 1) mod nv) * n + cx), 4 * z + 3) /\
     nth (5 * N + m) E (0,0) = (4 * (((cy + 1) mod nv) * n + (cx + 1) mod n), 4 * z + 3))%Z /\
    (nth (3 * m) C (0,0) = (0, 0) /\ nth (3 * m + 1) C (0,0) = (0, 0) /\ nth (3 * m + 2) C (0,0) = (0, 0) /\
     nth (3 * N + m) C (0,0) = ((cx + 1) / n, 0) /\ nth (4 * N + m) C (0,0) = (0, - ((cy + 1) / nv)) /\
     nth (5 * N + m) C (0,0) = (- ((cx + 1) / n), - ((cy + 1) / nv)))%Z /\
    (nth (4 * m) P (0,0) = ((1 + 4 * cx) * (3 * nv * hc_D), ((1 + 12 * cy) * hc_D + hc_delta12) * n) /\
     nth (4 * m + 1) P (0,0) = ((1 + 4 * cx) * (3 * nv * hc_D), ((5 + 12 * cy) * hc_D + hc_delta12) * n) /\
     nth (4 * m + 2) P (0,0) = ((3 + 4 * cx) * (3 * nv * hc_D), ((7 + 12 * cy) * hc_D + hc_delta12) * n) /\
     nth (4 * m + 3) P (0,0) = ((3 + 4 * cx) * (3 * nv * hc_D), ((11 + 12 * cy) * hc_D + hc_delta12) * n))%Z.
  Proof.
    intros Hm. cbv zeta. pose proof hc_nv as Hnv. pose proof hc_N as HN.
    destruct (cell_decompose n nv (Z.of_nat m) Hn ltac:(lia)) as (Ez & Hcx & Hcy).
    set (z := Z.of_nat m) in *. set (cx := (z mod n)%Z) in *. set (cy := (z / n)%Z) in *.
    split; [repeat split; lia|].
    destruct (honeycomb_index_structure_claim n Hn) as (_ & _ & _ & Hidx). cbv zeta in Hidx. fold nv in Hidx.
    specialize (Hidx cx cy Hcx Hcy).
    destruct (honeycomb_pos_index n Hn) as (_ & Hpos). cbv zeta in Hpos. fold nv in Hpos.
    specialize (Hpos cx cy Hcx Hcy). rewrite <- Ez in Hidx, Hpos.
    destruct Hidx as (E0 & E1 & E2 & C0 & C1 & C2 & _ & _ & _ & E3 & C3 & _ & E4 & C4 & _ & E5 & C5 & _).
    destruct Hpos as (P0 & P1 & P2 & P3).
    tonat E0 (3 * m). tonat E1 (3 * m + 1). tonat E2 (3 * m + 2). tonat E3 (3 * N + m). tonat E4 (4 * N + m). tonat E5 (5 * N + m).
    tonat C0 (3 * m). tonat C1 (3 * m + 1). tonat C2 (3 * m + 2). tonat C3 (3 * N + m). tonat C4 (4 * N + m). tonat C5 (5 * N + m).
    tonat P0 (4 * m). tonat P1 (4 * m + 1). tonat P2 (4 * m + 2). tonat P3 (4 * m + 3).
    repeat split; assumption.
  Qed.

  Let eid := b_eid N 3 hc_eo (t_tr n nv).

  Lemma hc_edge m e : m < N -> e < 6 ->
    edge_at L (eid m e) = (m * 4 + t_bj hc_cell e, t_tr n nv (t_bc hc_cell e) m * 4 + t_bk hc_cell e).
  Proof.
    intros Hm He. pose proof hc_nv as Hnv.
    destruct (hc_idx m Hm) as ((Ez & Hcx & Hcy) & (E0 & E1 & E2 & E3 & _ & _) & _). cbv zeta in *.
    pose proof (t_tr0 n nv Hn Hnv m Hm) as T0. fold N in T0.
    set (z := Z.of_nat m) in *. set (cx := (z mod n)%Z) in *. set (cy := (z / n)%Z) in *.
    destruct e as [|[|[|[|[|[|e]]]]]]; [| | | | | |exfalso; clear -He; lia].
    - change (eid m 0) with (3 * t_tr n nv vzero m + 0). rewrite T0, Nat.add_0_r. unfold L. rewrite (zl_edge _ _ _ _ E0).
      change (t_bj hc_cell 0) with 0. change (t_bk hc_cell 0) with 1. change (t_bc hc_cell 0) with vzero. rewrite T0.
      f_equal; lia.
    - change (eid m 1) with (3 * t_tr n nv vzero m + 1). rewrite T0. unfold L. rewrite (zl_edge _ _ _ _ E1).
      change (t_bj hc_cell 1) with 2. change (t_bk hc_cell 1) with 1. change (t_bc hc_cell 1) with vzero. rewrite T0.
      f_equal; lia.
    - change (eid m 2) with (3 * t_tr n nv vzero m + 2). rewrite T0. unfold L. rewrite (zl_edge _ _ _ _ E2).
      change (t_bj hc_cell 2) with 2. change (t_bk hc_cell 2) with 3. change (t_bc hc_cell 2) with vzero. rewrite T0.
      f_equal; lia.
    - change (eid m 3) with (3 * N + t_tr n nv vzero m). rewrite T0. unfold L. rewrite (zl_edge _ _ _ _ E3).
      change (t_bj hc_cell 3) with 2. change (t_bk hc_cell 3) with 1. change (t_bc hc_cell 3) with (1, 0)%Z.
      unfold t_tr. cbn [fst snd]. fold z cx cy. rewrite Z.add_0_r, (Z.mod_small cy nv) by lia.
      pose proof (Z.mod_pos_bound (cx + 1) n ltac:(lia)) as B.
      assert (0 <= cy * n + (cx + 1) mod n)%Z by nia. f_equal; lia.
    - set (m' := t_tr n nv (0, -1)%Z m). assert (Hm' : m' < N) by (apply (t_tr_lt n nv Hn Hnv), Hm).
      destruct (t_tr_coords n nv Hn Hnv (0, -1)%Z m Hm) as (X1 & X2 & _). fold m' in X1, X2. cbn [fst snd] in X1, X2.
      destruct (hc_idx m' Hm') as ((Ez' & _) & (_ & _ & _ & _ & E4 & _) & _). cbv zeta in *.
      change (eid m 4) with (4 * N + m'). unfold L. rewrite (zl_edge _ _ _ _ E4).
      change (t_bj hc_cell 4) with 0. change (t_bk hc_cell 4) with 3. change (t_bc hc_cell 4) with (0, -1)%Z. fold m'.
      rewrite X1, X2. fold z cx cy. rewrite Z.add_0_r, (Z.mod_small cx n) by lia.
      pose proof (mod_shift_back nv cy (-1) Hnv Hcy) as MB. change (- -1)%Z with 1%Z in MB. rewrite MB.
      f_equal; lia.
    - set (m' := t_tr n nv (-1, -1)%Z m). assert (Hm' : m' < N) by (apply (t_tr_lt n nv Hn Hnv), Hm).
      destruct (t_tr_coords n nv Hn Hnv (-1, -1)%Z m Hm) as (X1 & X2 & _). fold m' in X1, X2. cbn [fst snd] in X1, X2.
      destruct (hc_idx m' Hm') as ((Ez' & _) & (_ & _ & _ & _ & _ & E5) & _). cbv zeta in *.
      change (eid m 5) with (5 * N + m'). unfold L. rewrite (zl_edge _ _ _ _ E5).
      change (t_bj hc_cell 5) with 0. change (t_bk hc_cell 5) with 3. change (t_bc hc_cell 5) with (-1, -1)%Z. fold m'.
      rewrite X1, X2. fold z cx cy.
      pose proof (mod_shift_back nv cy (-1) Hnv Hcy) as MB. change (- -1)%Z with 1%Z in MB. rewrite MB.
      pose proof (mod_shift_back n cx (-1) Hn Hcx) as MC. change (- -1)%Z with 1%Z in MC. rewrite MC.
      f_equal; lia.
  Qed.

  Lemma hc_pos v : pos_at L v = nth v (z_pos (honeycomb n)) (0, 0)%Z.
  Proof. reflexivity. Qed.
  Lemma hc_cross x : cross_at L x = nth x (z_crossing (honeycomb n)) (0, 0)%Z.
  Proof. reflexivity. Qed.
  Lemma hc_scale : scale L = (12 * n * nv * hc_D)%Z.
  Proof. reflexivity. Qed.

  Lemma hc_vec m e : m < N -> e < 6 ->
    evec L (eid m e) = asc (nv * hc_D) (n * hc_D) (t_bvec hc_cell e).
  Proof.
    intros Hm He. pose proof hc_nv as Hnv. unfold evec. rewrite (hc_edge m e Hm He), !hc_pos, hc_cross, hc_scale.
    destruct (hc_idx m Hm) as ((Ez & Hcx & Hcy) & _ & (C0 & C1 & C2 & C3 & _ & _) & (P0 & P1 & P2 & P3)). cbv zeta in *.
    pose proof (t_tr0 n nv Hn Hnv m Hm) as T0. fold N in T0.
    set (z := Z.of_nat m) in *. set (cx := (z mod n)%Z) in *. set (cy := (z / n)%Z) in *.
    replace (4 * m) with (m * 4 + 0) in P0 by lia. replace (4 * m + 1) with (m * 4 + 1) in P1 by lia.
    replace (4 * m + 2) with (m * 4 + 2) in P2 by lia. replace (4 * m + 3) with (m * 4 + 3) in P3 by lia.
    destruct e as [|[|[|[|[|[|e]]]]]]; [| | | | | |exfalso; clear -He; lia].
    - change (eid m 0) with (3 * t_tr n nv vzero m + 0). rewrite T0. replace (3 * m + 0) with (3 * m) by lia. rewrite C0.
      change (t_bj hc_cell 0) with 0. change (t_bk hc_cell 0) with 1. change (t_bc hc_cell 0) with vzero. rewrite T0, P0, P1.
      change (t_bvec hc_cell 0) with (0, 4)%Z. unfold asc, vadd, vsub, vscale. cbn [fst snd]. generalize hc_D, hc_delta12; intros D dl; f_equal; ring.
    - change (eid m 1) with (3 * t_tr n nv vzero m + 1). rewrite T0, C1.
      change (t_bj hc_cell 1) with 2. change (t_bk hc_cell 1) with 1. change (t_bc hc_cell 1) with vzero. rewrite T0, P2, P1.
      change (t_bvec hc_cell 1) with (-6, -2)%Z. unfold asc, vadd, vsub, vscale. cbn [fst snd]. generalize hc_D, hc_delta12; intros D dl; f_equal; ring.
    - change (eid m 2) with (3 * t_tr n nv vzero m + 2). rewrite T0, C2.
      change (t_bj hc_cell 2) with 2. change (t_bk hc_cell 2) with 3. change (t_bc hc_cell 2) with vzero. rewrite T0, P2, P3.
      change (t_bvec hc_cell 2) with (0, 4)%Z. unfold asc, vadd, vsub, vscale. cbn [fst snd]. generalize hc_D, hc_delta12; intros D dl; f_equal; ring.
    - change (eid m 3) with (3 * N + t_tr n nv vzero m). rewrite T0, C3.
      change (t_bj hc_cell 3) with 2. change (t_bk hc_cell 3) with 1. change (t_bc hc_cell 3) with (1, 0)%Z.
      set (m' := t_tr n nv (1, 0)%Z m). assert (Hm' : m' < N) by (apply (t_tr_lt n nv Hn Hnv), Hm).
      destruct (t_tr_coords n nv Hn Hnv (1, 0)%Z m Hm) as (X1 & X2 & _). fold m' in X1, X2. cbn [fst snd] in X1, X2.
      destruct (hc_idx m' Hm') as (_ & _ & _ & (_ & Q1 & _ & _)). cbv zeta in Q1.
      replace (4 * m' + 1) with (m' * 4 + 1) in Q1 by lia. rewrite P2, Q1, X1, X2. fold z cx cy.
      rewrite Z.add_0_r, (Z.mod_small cy nv) by lia.
      pose proof (Z.div_mod (cx + 1) n ltac:(lia)) as Dx. set (q := ((cx + 1) / n)%Z) in *.
      replace ((cx + 1) mod n)%Z with (cx + 1 - n * q)%Z by lia.
      change (t_bvec hc_cell 3) with (6, -2)%Z. unfold asc, vadd, vsub, vscale. cbn [fst snd]. generalize hc_D, hc_delta12; intros D dl; f_equal; ring.
    - set (m' := t_tr n nv (0, -1)%Z m). assert (Hm' : m' < N) by (apply (t_tr_lt n nv Hn Hnv), Hm).
      destruct (t_tr_coords n nv Hn Hnv (0, -1)%Z m Hm) as (X1 & X2 & _). fold m' in X1, X2. cbn [fst snd] in X1, X2.
      destruct (hc_idx m' Hm') as (_ & _ & (_ & _ & _ & _ & Q4 & _) & (_ & _ & _ & Q3)). cbv zeta in Q3, Q4.
      change (eid m 4) with (4 * N + m'). rewrite Q4.
      change (t_bj hc_cell 4) with 0. change (t_bk hc_cell 4) with 3. change (t_bc hc_cell 4) with (0, -1)%Z. fold m'.
      replace (4 * m' + 3) with (m' * 4 + 3) in Q3 by lia. rewrite P0, Q3, X1, X2. fold z cx cy.
      rewrite Z.add_0_r, (Z.mod_small cx n) by lia.
      pose proof (mod_shift_back nv cy (-1) Hnv Hcy) as MB. change (- -1)%Z with 1%Z in MB.
      set (cy' := ((cy + -1) mod nv)%Z) in *.
      pose proof (Z.div_mod (cy' + 1) nv ltac:(lia)) as Dy. rewrite MB in Dy. set (r := ((cy' + 1) / nv)%Z) in *.
      replace cy' with (nv * r + cy - 1)%Z by lia.
      change (t_bvec hc_cell 4) with (6, -2)%Z. unfold asc, vadd, vsub, vscale. cbn [fst snd]. generalize hc_D, hc_delta12; intros D dl; f_equal; ring.
    - set (m' := t_tr n nv (-1, -1)%Z m). assert (Hm' : m' < N) by (apply (t_tr_lt n nv Hn Hnv), Hm).
      destruct (t_tr_coords n nv Hn Hnv (-1, -1)%Z m Hm) as (X1 & X2 & _). fold m' in X1, X2. cbn [fst snd] in X1, X2.
      destruct (hc_idx m' Hm') as (_ & _ & (_ & _ & _ & _ & _ & Q5) & (_ & _ & _ & Q3)). cbv zeta in Q3, Q5.
      change (eid m 5) with (5 * N + m'). rewrite Q5.
      change (t_bj hc_cell 5) with 0. change (t_bk hc_cell 5) with 3. change (t_bc hc_cell 5) with (-1, -1)%Z. fold m'.
      replace (4 * m' + 3) with (m' * 4 + 3) in Q3 by lia. rewrite P0, Q3, X1, X2. fold z cx cy.
      pose proof (mod_shift_back nv cy (-1) Hnv Hcy) as MB. change (- -1)%Z with 1%Z in MB.
      pose proof (mod_shift_back n cx (-1) Hn Hcx) as MC. change (- -1)%Z with 1%Z in MC.
      set (cy' := ((cy + -1) mod nv)%Z) in *. set (cx' := ((cx + -1) mod n)%Z) in *.
      pose proof (Z.div_mod (cy' + 1) nv ltac:(lia)) as Dy. rewrite MB in Dy. set (r := ((cy' + 1) / nv)%Z) in *.
      pose proof (Z.div_mod (cx' + 1) n ltac:(lia)) as Dx. rewrite MC in Dx. set (q := ((cx' + 1) / n)%Z) in *.
      replace cy' with (nv * r + cy - 1)%Z by lia. replace cx' with (n * q + cx - 1)%Z by lia.
      change (t_bvec hc_cell 5) with (-6, -2)%Z. unfold asc, vadd, vsub, vscale. cbn [fst snd]. generalize hc_D, hc_delta12; intros D dl; f_equal; ring.
  Qed.

  (* honeycomb_lattice(n), ALL n >= 2: 2*n*nv hexagons and nothing else *)
  Theorem honeycomb_all_sizes : (2 <= n)%Z -> census_all_sizes L N [6; 6].
  Proof.
    intros Hn2. pose proof hc_nv as Hnv. destruct hc_cert as (Hwf & Hs & Hc & Hl & He). rewrite <- Hl.
    destruct (honeycomb_index_structure_claim n Hn) as (_ & (LP & LE & LC & _ & _) & _). cbv zeta in LP, LE, LC.
    fold nv in LP, LE, LC. pose proof hc_N as HN. unfold zlen in LP, LE, LC.
    apply (block_census hc_cell n nv (nv * hc_D) (n * hc_D) 3 hc_eo L hc_rots hc_faces (t_tr n nv)
             (t_tr_lt n nv Hn Hnv) (t_tr0 n nv Hn Hnv) (t_tr_add n nv Hn Hnv) (t_tr_inj n nv Hn Hnv)); try assumption.
    - unfold hc_D. lia.
    - unfold hc_D. lia.
    - cbn. lia.
    - apply (edges_xsmall_ok _ _ _ _ Hn2 He).
    - rewrite hc_scale. unfold hc_D. nia.
    - assert (X : Z.of_nat (nE L) = (6 * (nv * n))%Z) by (unfold L, to_lattice, nE; cbn [edges]; rewrite map_length; exact LE).
      change (t_ne hc_cell) with 6. fold N. lia.
    - assert (X : Z.of_nat (length (crossing L)) = (6 * (nv * n))%Z) by exact LC.
      change (t_ne hc_cell) with 6. fold N. lia.
    - assert (X : Z.of_nat (nV L) = (4 * (nv * n))%Z) by exact LP.
      change (t_ns hc_cell) with 4. fold N. lia.
    - intros m e Hm He'. change (t_ns hc_cell) with 4. apply hc_edge; assumption.
    - intros m e Hm He'. apply hc_vec; assumption.
    - intros m e Hm He'. apply simple_nsl; assumption.
  Qed.

  Theorem honeycomb_area_all_sizes : (2 <= n)%Z -> forall ps, find_all_plaquettes L = Some ps -> area2_sum ps = (2 * scale L * scale L)%Z.
  Proof.
    intros Hn2. pose proof hc_nv as Hnv. destruct hc_cert as (Hwf & Hs & Hc & Hl & He).
    destruct (honeycomb_index_structure_claim n Hn) as (_ & (LP & LE & LC & _ & _) & _). cbv zeta in LP, LE, LC.
    fold nv in LP, LE, LC. pose proof hc_N as HN. unfold zlen in LP, LE, LC.
    apply (block_area hc_cell n nv (nv * hc_D) (n * hc_D) 3 hc_eo L hc_rots hc_faces (t_tr n nv)
             (t_tr_lt n nv Hn Hnv) (t_tr0 n nv Hn Hnv) (t_tr_add n nv Hn Hnv) (t_tr_inj n nv Hn Hnv)); try assumption.
    - unfold hc_D. lia.
    - unfold hc_D. lia.
    - cbn. lia.
    - apply (edges_xsmall_ok _ _ _ _ Hn2 He).
    - rewrite hc_scale. unfold hc_D. nia.
    - assert (X : Z.of_nat (nE L) = (6 * (nv * n))%Z) by (unfold L, to_lattice, nE; cbn [edges]; rewrite map_length; exact LE).
      change (t_ne hc_cell) with 6. fold N. lia.
    - assert (X : Z.of_nat (length (crossing L)) = (6 * (nv * n))%Z) by exact LC.
      change (t_ne hc_cell) with 6. fold N. lia.
    - assert (X : Z.of_nat (nV L) = (4 * (nv * n))%Z) by exact LP.
      change (t_ns hc_cell) with 4. fold N. lia.
    - intros m e Hm He'. change (t_ns hc_cell) with 4. apply hc_edge; assumption.
    - intros m e Hm He'. apply hc_vec; assumption.
    - intros m e Hm He'. apply simple_nsl; assumption.
    - fold N. rewrite hc_scale, HN. unfold hc_D. change (uc_scale hc_cell) with 12%Z. ring.
  Qed.
  (* make_honeycomb(L): u = +1 on every bond puts every hexagon in the flux sector +1, ALL n >= 2 *)
  Theorem honeycomb_flux_all_sizes : (2 <= n)%Z ->
    forall ps, find_all_plaquettes L = Some ps -> forall p, In p ps -> flux_of (make_honeycomb_ujk n) p = 1%Z.
  Proof.
    intros Hn2 ps Hps p Hp. pose proof hc_nv as Hnv. destruct hc_cert as (Hwf & Hs & Hc & Hl & He).
    destruct (honeycomb_index_structure_claim n Hn) as (_ & (LP & LE & LC & _ & LU) & _). cbv zeta in LP, LE, LC, LU.
    fold nv in LP, LE, LC, LU. pose proof hc_N as HN. unfold zlen in LP, LE, LC, LU.
    set (fd := fun l : list bool => (nth (length l mod 4) [1; -1; -1; 1] 0 *
                 fold_right Z.mul 1 (map (fun b : bool => if b then 1 else -1) l))%Z).
    assert (Hin : In (flux_of (make_honeycomb_ujk n) p) (map (fun f => fd (map snd f)) hc_faces)).
    { revert ps Hps p Hp.
      apply (block_value hc_cell n nv (nv * hc_D) (n * hc_D) 3 hc_eo L hc_rots hc_faces (t_tr n nv)
               (t_tr_lt n nv Hn Hnv) (t_tr0 n nv Hn Hnv) (t_tr_add n nv Hn Hnv)); try assumption.
      - unfold hc_D. lia.
      - unfold hc_D. lia.
      - cbn. lia.
      - apply (edges_xsmall_ok _ _ _ _ Hn2 He).
      - rewrite hc_scale. unfold hc_D. nia.
      - assert (X : Z.of_nat (nE L) = (6 * (nv * n))%Z) by (unfold L, to_lattice, nE; cbn [edges]; rewrite map_length; exact LE).
        change (t_ne hc_cell) with 6. fold N. lia.
      - assert (X : Z.of_nat (length (crossing L)) = (6 * (nv * n))%Z) by exact LC.
        change (t_ne hc_cell) with 6. fold N. lia.
      - assert (X : Z.of_nat (nV L) = (4 * (nv * n))%Z) by exact LP.
        change (t_ns hc_cell) with 4. fold N. lia.
      - intros m e Hm He'. change (t_ns hc_cell) with 4. apply hc_edge; assumption.
      - intros m e Hm He'. apply hc_vec; assumption.
      - intros m e Hm He'. apply simple_nsl; assumption.
      - intros t f l1 l2 Ht Hf E.
        change (b_eid (t_N n nv) 3 hc_eo (t_tr n nv)) with eid.
        set (w := twalk L (t_bc hc_cell) (t_tr n nv) eid t (l2 ++ l1)).
        assert (Hfe : forall d, In d (l2 ++ l1) -> fst d < 6).
        { intros d Hd. destruct (cert_face hc_cell hc_rots hc_faces Hc f Hf) as (_ & Hfe & _).
          apply Hfe. rewrite E. apply in_or_app. apply in_app_or in Hd. tauto. }
        assert (HnE : nE L = 6 * N).
        { assert (X : Z.of_nat (nE L) = (6 * (nv * n))%Z) by (unfold L, to_lattice, nE; cbn [edges]; rewrite map_length; exact LE). lia. }
        destruct (twalk_darts L N 6 (t_bc hc_cell) (t_tr n nv) eid (t_tr_lt n nv Hn Hnv)
                    (fun m e Hm He' => eq_ind_r (fun k => _ < k) (b_eid_lt N 3 6 hc_eo (t_tr n nv) ltac:(lia) (t_tr_lt n nv Hn Hnv) m e Hm He') HnE)
                    (l2 ++ l1) t Ht Hfe) as [D1 D2].
        fold w in D1, D2.
        unfold flux_of, mk_plaquette, n_sides. cbn [p_edges p_dirs]. rewrite combine_walk.
        assert (Eprod : forall l, (forall d, In d l -> fst d < nE L) ->
                  fold_right Z.mul 1%Z (map (fun ed : nat * bool => (nth (fst ed) (make_honeycomb_ujk n) 0 * (if snd ed then 1 else -1))%Z) l)
                  = fold_right Z.mul 1%Z (map (fun b : bool => if b then 1%Z else (-1)%Z) (map snd l))).
        { induction l as [|d l IH]; intros Hl'; [reflexivity|]. cbn [map fold_right]. rewrite IH by (intros x Hx; apply Hl'; right; exact Hx).
          f_equal. unfold make_honeycomb_ujk.
          assert (Hd : fst d < length (honeycomb_edges n)).
          { specialize (Hl' d (or_introl eq_refl)). unfold L, to_lattice, nE in Hl'. cbn [edges] in Hl'. rewrite map_length in Hl'. exact Hl'. }
          rewrite (nth_map_const_one _ _ Hd). lia. }
        rewrite (Eprod _ D2), D1. unfold walk_edges. rewrite map_length.
        replace (length w) with (length (l2 ++ l1)) by (unfold w; symmetry; apply twalk_length).
        unfold fd. rewrite !map_length, E, !app_length, !map_app, Nat.add_comm. f_equal.
        rewrite !prod_sgn_app. ring. }
    clear -Hin. subst fd. revert Hin. generalize (flux_of (make_honeycomb_ujk n) p). intros x Hx. vm_compute in Hx. intuition.
  Qed.
End HC.

Corollary honeycomb_census_all_sizes (n : Z) : (2 <= n)%Z ->
  let L := to_lattice (honeycomb n) in let F := Z.to_nat (2 * n * honeycomb_nv n) in
  exists ps, find_all_plaquettes L = Some ps /\
    count_sides ps 6 = F /\ length ps = F /\ (forall k, k <> 6 -> count_sides ps k = 0) /\
    nV L + length ps = nE L /\
    (forall p, In p ps -> p_winding p = (-1)%Z /\ (0 < p_area2 p)%Z) /\
    NoDup (flat_map plaq_darts ps) /\ (forall d, valid_dart L d <-> In d (flat_map plaq_darts ps)).
Proof.
  intros Hn L F. destruct (honeycomb_all_sizes n ltac:(lia) Hn) as (ps & Hf & P & Hc & Hlen & Hp & Hnd & Hd).
  pose proof (hc_nv n ltac:(lia)) as Hnv.
  destruct (honeycomb_index_structure_claim n ltac:(lia)) as (_ & (LP & LE & _) & _). cbv zeta in LP, LE. unfold zlen in LP, LE.
  assert (EF : F = t_N n (honeycomb_nv n) * 2) by (unfold F, t_N; nia).
  exists ps. split; [exact Hf|]. split; [rewrite Hc; cbn; lia|]. split; [rewrite Hlen; cbn; lia|]. split; [|split; [|split; [|split]]].
  - intros k Hk. rewrite Hc. cbn [filter]. destruct (Nat.eqb_spec 6 k); [lia|]. cbn. lia.
  - rewrite Hlen. pose proof (hc_N n ltac:(lia)) as HN.
    assert (X : Z.of_nat (nE L) = (6 * (honeycomb_nv n * n))%Z) by (unfold L, to_lattice, nE; cbn [edges]; rewrite map_length; exact LE).
    assert (Y : Z.of_nat (nV L) = (4 * (honeycomb_nv n * n))%Z) by exact LP.
    cbn [length]. lia.
  - intros p Hin. destruct (Hp p Hin) as (H1 & H2 & _). split; assumption.
  - exact Hnd.
  - exact Hd.
Qed.

(* ================================================================== hex_square_oct_lattice *)
Definition hso_cell : unit_cell :=
  mkCell 100 [(50, 17); (20, 35); (20, 65); (50, 82); (80, 65); (80, 35)]%Z
         [(0, 1); (1, 2); (2, 3); (3, 4); (4, 5); (5, 0); (4, 2); (1, 5); (0, 3)]%Z
         [(0, 0); (0, 0); (0, 0); (0, 0); (0, 0); (0, 0); (1, 0); (-1, 0); (0, -1)]%Z.
Definition hso_eo (e : nat) : vec :=
  nth e [vzero; vzero; vzero; vzero; vzero; vzero; vzero; (-1, 0)%Z; (0, -1)%Z] vzero.
Definition hso_rots := cell_rots hso_cell.
Definition hso_faces := cell_faces hso_cell hso_rots.

Lemma hso_cert :
  wf_cell hso_cell = true /\ cell_simple hso_cell = true /\
  cell_cert_okb hso_cell hso_rots hso_faces = true /\
  Permutation (map (@length _) hso_faces) [4; 6; 8] /\ edges_smallb hso_cell hso_faces = true.
Proof.
  assert (E : map (@length _) hso_faces = [6; 8; 4] \/ map (@length _) hso_faces = [6; 4; 8] \/
              map (@length _) hso_faces = [4; 6; 8] \/ map (@length _) hso_faces = [4; 8; 6] \/
              map (@length _) hso_faces = [8; 4; 6] \/ map (@length _) hso_faces = [8; 6; 4]).
  { vm_compute. tauto. }
  split; [vm_compute; reflexivity|]. split; [vm_compute; reflexivity|]. split; [vm_compute; reflexivity|].
  split; [|vm_compute; reflexivity].
  destruct E as [-> | [-> | [-> | [-> | [-> | ->]]]]].
  - apply Permutation_sym. apply (perm_trans (l' := [6; 4; 8])); [apply perm_swap|apply perm_skip, perm_swap].
  - apply perm_swap.
  - apply Permutation_refl.
  - apply perm_skip, perm_swap.
  - apply Permutation_sym. apply (perm_trans (l' := [4; 8; 6])); [apply perm_skip, perm_swap|apply perm_swap].
  - apply Permutation_sym. apply (perm_trans (l' := [6; 4; 8])); [apply perm_swap|].
    apply (perm_trans (l' := [6; 8; 4])); [apply perm_skip, perm_swap|apply perm_swap].
Qed.

Section HSO.
  Variable n : Z.
  Hypothesis Hn : (1 <= n)%Z.
  Let L := to_lattice (hex_square_oct n).
  Let N := t_N n n.
  Let eid := b_eid N 6 hso_eo (t_tr n n).

  Lemma hso_N : Z.of_nat N = (n * n)%Z.
  Proof. unfold N, t_N. rewrite Z2Nat.id by nia. ring. Qed.

  Lemma hso_idx m : m < N ->
    let z := Z.of_nat m in let cx := (z mod n)%Z in let cy := (z / n)%Z in
    let E := z_edges (hex_square_oct n) in let C := z_crossing (hex_square_oct n) in let P := z_pos (hex_square_oct n) in
    (z = cy * n + cx /\ 0 <= cx < n /\ 0 <= cy < n)%Z /\
    (forall k, k < 6 -> nth (6 * m + k) E (0,0)%Z = (6 * z + Z.of_nat k, 6 * z + (Z.of_nat k + 1) mod 6)%Z /\
                        nth (6 * m + k) C (0,0)%Z = (0, 0)%Z) /\
    (nth (6 * N + m) E (0,0) = (6 * z + 4, 6 * (cy * n + (cx + 1) mod n) + 2) /\
     nth (7 * N + m) E (0,0) = (6 * (cy * n + (cx + 1) mod n) + 1, 6 * z + 5) /\
     nth (8 * N + m) E (0,0) = (6 * (((cy + 1) mod n) * n + cx), 6 * z + 3))%Z /\
    (nth (6 * N + m) C (0,0) = ((cx + 1) / n, 0) /\ nth (7 * N + m) C (0,0) = (- ((cx + 1) / n), 0) /\
     nth (8 * N + m) C (0,0) = (0, - ((cy + 1) / n)))%Z /\
    (nth (6 * m) P (0,0) = (50 + 100 * cx, 17 + 100 * cy) /\ nth (6 * m + 1) P (0,0) = (20 + 100 * cx, 35 + 100 * cy) /\
     nth (6 * m + 2) P (0,0) = (20 + 100 * cx, 65 + 100 * cy) /\ nth (6 * m + 3) P (0,0) = (50 + 100 * cx, 82 + 100 * cy) /\
     nth (6 * m + 4) P (0,0) = (80 + 100 * cx, 65 + 100 * cy) /\ nth (6 * m + 5) P (0,0) = (80 + 100 * cx, 35 + 100 * cy))%Z.
  Proof.
    intros Hm. cbv zeta. pose proof hso_N as HN.
    destruct (cell_decompose n n (Z.of_nat m) Hn ltac:(lia)) as (Ez & Hcx & Hcy).
    set (z := Z.of_nat m) in *. set (cx := (z mod n)%Z) in *. set (cy := (z / n)%Z) in *.
    split; [repeat split; lia|].
    destruct (hso_index_structure_claim n Hn) as (_ & _ & Hidx). cbv zeta in Hidx.
    specialize (Hidx cx cy Hcx Hcy).
    destruct (hso_pos_index n Hn) as (_ & Hpos). cbv zeta in Hpos.
    specialize (Hpos cx cy Hcx Hcy). rewrite <- Ez in Hidx, Hpos.
    destruct Hidx as (Hint & E6 & C6 & E7 & C7 & E8 & C8).
    destruct Hpos as (P0 & P1 & P2 & P3 & P4 & P5).
    tonat E6 (6 * N + m). tonat E7 (7 * N + m). tonat E8 (8 * N + m).
    tonat C6 (6 * N + m). tonat C7 (7 * N + m). tonat C8 (8 * N + m).
    tonat P0 (6 * m). tonat P1 (6 * m + 1). tonat P2 (6 * m + 2). tonat P3 (6 * m + 3). tonat P4 (6 * m + 4). tonat P5 (6 * m + 5).
    split; [|repeat split; assumption].
    intros k Hk. destruct (Hint (Z.of_nat k) ltac:(lia)) as [A B].
    tonat A (6 * m + k). tonat B (6 * m + k). split; assumption.
  Qed.

  Lemma hso_pos v : pos_at L v = nth v (z_pos (hex_square_oct n)) (0, 0)%Z.
  Proof. reflexivity. Qed.
  Lemma hso_cross x : cross_at L x = nth x (z_crossing (hex_square_oct n)) (0, 0)%Z.
  Proof. reflexivity. Qed.
  Lemma hso_scale : scale L = (100 * n)%Z.
  Proof. reflexivity. Qed.

  Ltac cval t := let v := eval vm_compute in t in change t with v.

  Lemma hso_edge_vec m e : m < N -> e < 9 ->
    edge_at L (eid m e) = (m * 6 + t_bj hso_cell e, t_tr n n (t_bc hso_cell e) m * 6 + t_bk hso_cell e) /\
    evec L (eid m e) = asc 1 1 (t_bvec hso_cell e).
  Proof.
    intros Hm He.
    assert (G : forall j k cr, edge_at L (eid m e) = (j, k) -> cross_at L (eid m e) = cr ->
                (j, k) = (m * 6 + t_bj hso_cell e, t_tr n n (t_bc hso_cell e) m * 6 + t_bk hso_cell e) ->
                vadd (vsub (pos_at L (t_tr n n (t_bc hso_cell e) m * 6 + t_bk hso_cell e)) (pos_at L (m * 6 + t_bj hso_cell e)))
                     (vscale (100 * n)%Z cr) = asc 1 1 (t_bvec hso_cell e) ->
                edge_at L (eid m e) = (m * 6 + t_bj hso_cell e, t_tr n n (t_bc hso_cell e) m * 6 + t_bk hso_cell e) /\
                evec L (eid m e) = asc 1 1 (t_bvec hso_cell e)).
    { intros j k cr E1 E2 E3 E4. injection E3 as -> ->. split; [exact E1|]. unfold evec. rewrite E1, E2, hso_scale. exact E4. }
    destruct (hso_idx m Hm) as ((Ez & Hcx & Hcy) & Hint & (E6 & _ & _) & (C6 & _ & _) & (P0 & P1 & P2 & P3 & P4 & P5)). cbv zeta in *.
    pose proof (t_tr0 n n Hn Hn m Hm) as T0. fold N in T0.
    set (z := Z.of_nat m) in *. set (cx := (z mod n)%Z) in *. set (cy := (z / n)%Z) in *.
    replace (6 * m) with (m * 6 + 0) in P0 by lia. replace (6 * m + 1) with (m * 6 + 1) in P1 by lia.
    replace (6 * m + 2) with (m * 6 + 2) in P2 by lia. replace (6 * m + 3) with (m * 6 + 3) in P3 by lia.
    replace (6 * m + 4) with (m * 6 + 4) in P4 by lia. replace (6 * m + 5) with (m * 6 + 5) in P5 by lia.
    assert (Gint : forall k, k < 6 -> eid m k = 6 * m + k).
    { intros k Hk. unfold eid, b_eid. destruct (Nat.ltb_spec k 6); [|lia].
      assert (hso_eo k = vzero) by (do 6 (destruct k as [|k]; [reflexivity|]); lia). rewrite H0, T0. reflexivity. }
    destruct e as [|[|[|[|[|[|[|[|[|e]]]]]]]]]; [| | | | | | | | |exfalso; clear -He; lia].
    1-6: match goal with |- context[edge_at _ (_ _ ?k)] =>
      destruct (Hint k ltac:(lia)) as [A B]; rewrite <- (Gint k ltac:(lia)) in A, B;
      apply (G _ _ _ (zl_edge _ _ _ _ A) B);
      cval (t_bj hso_cell k); cval (t_bk hso_cell k); cval (t_bc hso_cell k); cval (t_bvec hso_cell k);
      change (0, 0)%Z with vzero; rewrite ?T0; [cval ((Z.of_nat k + 1) mod 6)%Z; cval (Z.of_nat k); f_equal; lia|];
      rewrite !hso_pos, ?P0, ?P1, ?P2, ?P3, ?P4, ?P5; unfold asc, vadd, vsub, vscale, vzero; cbn [fst snd]; f_equal; ring end.
    - assert (Ei : eid m 6 = 6 * N + m) by (change (eid m 6) with (6 * N + t_tr n n vzero m); rewrite T0; reflexivity).
      rewrite <- Ei in E6, C6.
      apply (G _ _ _ (zl_edge _ _ _ _ E6) C6).
      + cval (t_bj hso_cell 6); cval (t_bk hso_cell 6); cval (t_bc hso_cell 6).
        unfold t_tr. cbn [fst snd]. fold z cx cy. rewrite Z.add_0_r, (Z.mod_small cy n) by lia.
        pose proof (Z.mod_pos_bound (cx + 1) n ltac:(lia)) as B.
        assert (0 <= cy * n + (cx + 1) mod n)%Z by nia. f_equal; lia.
      + cval (t_bj hso_cell 6); cval (t_bk hso_cell 6); cval (t_bc hso_cell 6); cval (t_bvec hso_cell 6).
        set (m' := t_tr n n (1, 0)%Z m). assert (Hm' : m' < N) by (apply (t_tr_lt n n Hn Hn), Hm).
        destruct (t_tr_coords n n Hn Hn (1, 0)%Z m Hm) as (X1 & X2 & _). fold m' in X1, X2. cbn [fst snd] in X1, X2.
        destruct (hso_idx m' Hm') as (_ & _ & _ & _ & (_ & _ & Q2 & _)). cbv zeta in Q2.
        replace (6 * m' + 2) with (m' * 6 + 2) in Q2 by lia. rewrite !hso_pos, P4, Q2, X1, X2. fold z cx cy.
        rewrite Z.add_0_r, (Z.mod_small cy n) by lia.
        pose proof (Z.div_mod (cx + 1) n ltac:(lia)) as Dx. set (q := ((cx + 1) / n)%Z) in *.
        replace ((cx + 1) mod n)%Z with (cx + 1 - n * q)%Z by lia.
        unfold asc, vadd, vsub, vscale. cbn [fst snd]. f_equal; ring.
    - set (m' := t_tr n n (-1, 0)%Z m). assert (Hm' : m' < N) by (apply (t_tr_lt n n Hn Hn), Hm).
      destruct (t_tr_coords n n Hn Hn (-1, 0)%Z m Hm) as (X1 & X2 & _). fold m' in X1, X2. cbn [fst snd] in X1, X2.
      destruct (hso_idx m' Hm') as (_ & _ & (_ & Q7 & _) & (_ & D7 & _) & (_ & _ & _ & _ & _ & Q5)). cbv zeta in Q7, D7, Q5.
      assert (Ei : eid m 7 = 7 * N + m') by reflexivity. rewrite <- Ei in Q7, D7.
      pose proof (mod_shift_back n cx (-1) Hn Hcx) as MC. change (- -1)%Z with 1%Z in MC.
      try rewrite X1 in Q7; try rewrite X1 in D7; try rewrite X1 in Q5; try rewrite X2 in Q7; try rewrite X2 in D7; try rewrite X2 in Q5.
      fold z cx cy in Q7, D7, Q5. rewrite Z.add_0_r, (Z.mod_small cy n) in Q7, Q5 by lia.
      rewrite MC in Q7.
      apply (G _ _ _ (zl_edge _ _ _ _ Q7) D7).
      + cval (t_bj hso_cell 7); cval (t_bk hso_cell 7); cval (t_bc hso_cell 7). fold m'. f_equal; lia.
      + cval (t_bj hso_cell 7); cval (t_bk hso_cell 7); cval (t_bc hso_cell 7); cval (t_bvec hso_cell 7). fold m'.
        replace (6 * m' + 5) with (m' * 6 + 5) in Q5 by lia. rewrite !hso_pos, P1, Q5.
        set (cx' := ((cx + -1) mod n)%Z) in *.
        pose proof (Z.div_mod (cx' + 1) n ltac:(lia)) as Dx. rewrite MC in Dx. set (q := ((cx' + 1) / n)%Z) in *.
        replace cx' with (n * q + cx - 1)%Z by lia.
        unfold asc, vadd, vsub, vscale. cbn [fst snd]. f_equal; ring.
    - set (m' := t_tr n n (0, -1)%Z m). assert (Hm' : m' < N) by (apply (t_tr_lt n n Hn Hn), Hm).
      destruct (t_tr_coords n n Hn Hn (0, -1)%Z m Hm) as (X1 & X2 & _). fold m' in X1, X2. cbn [fst snd] in X1, X2.
      destruct (hso_idx m' Hm') as (_ & _ & (_ & _ & Q8) & (_ & _ & D8) & (_ & _ & _ & Q3 & _ & _)). cbv zeta in Q8, D8, Q3.
      assert (Ei : eid m 8 = 8 * N + m') by reflexivity. rewrite <- Ei in Q8, D8.
      pose proof (mod_shift_back n cy (-1) Hn Hcy) as MB. change (- -1)%Z with 1%Z in MB.
      try rewrite X1 in Q8; try rewrite X1 in D8; try rewrite X1 in Q3; try rewrite X2 in Q8; try rewrite X2 in D8; try rewrite X2 in Q3.
      fold z cx cy in Q8, D8, Q3. rewrite Z.add_0_r, (Z.mod_small cx n) in Q8, Q3 by lia.
      rewrite MB in Q8.
      apply (G _ _ _ (zl_edge _ _ _ _ Q8) D8).
      + cval (t_bj hso_cell 8); cval (t_bk hso_cell 8); cval (t_bc hso_cell 8). fold m'. f_equal; lia.
      + cval (t_bj hso_cell 8); cval (t_bk hso_cell 8); cval (t_bc hso_cell 8); cval (t_bvec hso_cell 8). fold m'.
        replace (6 * m' + 3) with (m' * 6 + 3) in Q3 by lia. rewrite !hso_pos, P0, Q3.
        set (cy' := ((cy + -1) mod n)%Z) in *.
        pose proof (Z.div_mod (cy' + 1) n ltac:(lia)) as Dy. rewrite MB in Dy. set (r := ((cy' + 1) / n)%Z) in *.
        replace cy' with (n * r + cy - 1)%Z by lia.
        unfold asc, vadd, vsub, vscale. cbn [fst snd]. f_equal; ring.
  Qed.

  (* hex_square_oct_lattice(n), ALL n >= 2 *)
  Theorem hso_all_sizes : (2 <= n)%Z -> census_all_sizes L N (map (@length _) hso_faces).
  Proof.
    intros Hn2. destruct hso_cert as (Hwf & Hs & Hc & Hl & He).
    destruct (hso_index_structure_claim n Hn) as ((LP & LE & LC) & _). cbv zeta in LP, LE, LC.
    pose proof hso_N as HN. unfold zlen in LP, LE, LC.
    apply (block_census hso_cell n n 1 1 6 hso_eo L hso_rots hso_faces (t_tr n n)
             (t_tr_lt n n Hn Hn) (t_tr0 n n Hn Hn) (t_tr_add n n Hn Hn) (t_tr_inj n n Hn Hn)); try assumption; try lia.
    - cbn. lia.
    - apply (edges_small_ok _ _ _ _ Hn2 Hn2 He).
    - rewrite hso_scale. lia.
    - assert (X : Z.of_nat (nE L) = (9 * (n * n))%Z) by (unfold L, to_lattice, nE; cbn [edges]; rewrite map_length; exact LE).
      change (t_ne hso_cell) with 9. fold N. lia.
    - assert (X : Z.of_nat (length (crossing L)) = (9 * (n * n))%Z) by exact LC.
      change (t_ne hso_cell) with 9. fold N. lia.
    - assert (X : Z.of_nat (nV L) = (6 * (n * n))%Z) by exact LP.
      change (t_ns hso_cell) with 6. fold N. lia.
    - intros m e Hm He'. change (t_ns hso_cell) with 6. apply hso_edge_vec; assumption.
    - intros m e Hm He'. apply hso_edge_vec; assumption.
    - intros m e Hm He'. apply simple_nsl; assumption.
  Qed.

  Theorem hso_area_all_sizes : (2 <= n)%Z -> forall ps, find_all_plaquettes L = Some ps -> area2_sum ps = (2 * scale L * scale L)%Z.
  Proof.
    intros Hn2. destruct hso_cert as (Hwf & Hs & Hc & Hl & He).
    destruct (hso_index_structure_claim n Hn) as ((LP & LE & LC) & _). cbv zeta in LP, LE, LC.
    pose proof hso_N as HN. unfold zlen in LP, LE, LC.
    apply (block_area hso_cell n n 1 1 6 hso_eo L hso_rots hso_faces (t_tr n n)
             (t_tr_lt n n Hn Hn) (t_tr0 n n Hn Hn) (t_tr_add n n Hn Hn) (t_tr_inj n n Hn Hn)); try assumption; try lia.
    - cbn. lia.
    - apply (edges_small_ok _ _ _ _ Hn2 Hn2 He).
    - rewrite hso_scale. lia.
    - assert (X : Z.of_nat (nE L) = (9 * (n * n))%Z) by (unfold L, to_lattice, nE; cbn [edges]; rewrite map_length; exact LE).
      change (t_ne hso_cell) with 9. fold N. lia.
    - assert (X : Z.of_nat (length (crossing L)) = (9 * (n * n))%Z) by exact LC.
      change (t_ne hso_cell) with 9. fold N. lia.
    - assert (X : Z.of_nat (nV L) = (6 * (n * n))%Z) by exact LP.
      change (t_ns hso_cell) with 6. fold N. lia.
    - intros m e Hm He'. change (t_ns hso_cell) with 6. apply hso_edge_vec; assumption.
    - intros m e Hm He'. apply hso_edge_vec; assumption.
    - intros m e Hm He'. apply simple_nsl; assumption.
    - fold N. rewrite hso_scale, HN. change (uc_scale hso_cell) with 100%Z. ring.
  Qed.
End HSO.

Corollary hso_census_all_sizes (n : Z) : (2 <= n)%Z ->
  let L := to_lattice (hex_square_oct n) in let F := Z.to_nat (n * n) in
  exists ps, find_all_plaquettes L = Some ps /\
    count_sides ps 4 = F /\ count_sides ps 6 = F /\ count_sides ps 8 = F /\ length ps = 3 * F /\
    (forall k, k <> 4 -> k <> 6 -> k <> 8 -> count_sides ps k = 0) /\
    nV L + length ps = nE L /\
    (forall p, In p ps -> p_winding p = (-1)%Z /\ (0 < p_area2 p)%Z) /\
    NoDup (flat_map plaq_darts ps) /\ (forall d, valid_dart L d <-> In d (flat_map plaq_darts ps)).
Proof.
  intros Hn L F. destruct (hso_all_sizes n ltac:(lia) Hn) as (ps & Hf & P & Hc & Hlen & Hp & Hnd & Hd).
  destruct hso_cert as (_ & _ & _ & Hl & _).
  destruct (hso_index_structure_claim n ltac:(lia)) as ((LP & LE & _) & _). cbv zeta in LP, LE. unfold zlen in LP, LE.
  assert (EF : F = t_N n n) by reflexivity.
  assert (Cnt : forall k, length (filter (fun x => x =? k) (map (@length _) hso_faces)) = length (filter (fun x => x =? k) [4; 6; 8])).
  { intros k. apply Permutation_length, Permutation_filter, Hl. }
  exists ps. split; [exact Hf|]. rewrite EF.
  split; [rewrite Hc, Cnt; cbn; lia|]. split; [rewrite Hc, Cnt; cbn; lia|]. split; [rewrite Hc, Cnt; cbn; lia|].
  split; [rewrite Hlen, map_length; rewrite <- (map_length (@length _)), (Permutation_length Hl); cbn; lia|].
  split; [|split; [|split; [|split]]].
  - intros k H4 H6 H8. rewrite Hc, Cnt. cbn [filter].
    destruct (Nat.eqb_spec 4 k); [lia|]. destruct (Nat.eqb_spec 6 k); [lia|]. destruct (Nat.eqb_spec 8 k); [lia|]. cbn. lia.
  - rewrite Hlen, map_length. rewrite <- (map_length (@length _)), (Permutation_length Hl).
    pose proof (hso_N n ltac:(lia)) as HN.
    assert (X : Z.of_nat (nE L) = (9 * (n * n))%Z) by (unfold L, to_lattice, nE; cbn [edges]; rewrite map_length; exact LE).
    assert (Y : Z.of_nat (nV L) = (6 * (n * n))%Z) by exact LP.
    cbn [length]. lia.
  - intros p Hin. destruct (Hp p Hin) as (H1 & H2 & _). split; assumption.
  - exact Hnd.
  - exact Hd.
Qed.

(* ================================================================== square_lattice *)
(* one site per cell; vertex i*ny + j: the fast index is j (y), so the torus action swaps the components *)
Definition sq_cell : unit_cell := mkCell 2 [(1, 1)]%Z [(0, 0); (0, 0)]%Z [(1, 0); (0, 1)]%Z.
Definition sq_eo (e : nat) : vec := nth e [(1, 0)%Z; (0, 1)%Z] vzero.
Definition sq_tr (nx ny : Z) (a : vec) (c : nat) : nat := t_tr ny nx (snd a, fst a) c.
Definition sq_rots := cell_rots sq_cell.
Definition sq_faces := cell_faces sq_cell sq_rots.

Lemma sq_cert :
  wf_cell sq_cell = true /\ cell_cert_okb sq_cell sq_rots sq_faces = true /\
  map (@length _) sq_faces = [4] /\ edges_smallb sq_cell sq_faces = true.
Proof. vm_compute. repeat split; reflexivity. Qed.

Section SQ.
  Variables nx ny : Z.
  Hypothesis Hx : (1 <= nx)%Z.
  Hypothesis Hy : (1 <= ny)%Z.
  Let L := to_lattice (square nx ny).
  Let N := t_N nx ny.
  Let tr := sq_tr nx ny.
  Let eid := b_eid N 0 sq_eo tr.

  Lemma sq_N : N = t_N ny nx.
  Proof. unfold N, t_N. f_equal. ring. Qed.
  Lemma sq_Nz : Z.of_nat N = (nx * ny)%Z.
  Proof. unfold N, t_N. rewrite Z2Nat.id by nia. ring. Qed.

  Lemma sq_tr_lt a n : n < N -> tr a n < N.
  Proof. rewrite sq_N. apply (t_tr_lt ny nx Hy Hx). Qed.
  Lemma sq_tr0 n : n < N -> tr vzero n = n.
  Proof. rewrite sq_N. apply (t_tr0 ny nx Hy Hx). Qed.
  Lemma sq_tr_add a b n : n < N -> tr a (tr b n) = tr (vadd a b) n.
  Proof. rewrite sq_N. intros Hn. unfold tr, sq_tr. rewrite (t_tr_add ny nx Hy Hx) by exact Hn. reflexivity. Qed.
  Lemma sq_tr_inj a a' n : n < N -> tr a n = tr a' n ->
    ((fst a - fst a') mod nx = 0 /\ (snd a - snd a') mod ny = 0)%Z.
  Proof.
    rewrite sq_N. intros Hn E. destruct (t_tr_inj ny nx Hy Hx _ _ n Hn E) as [A B]. cbn [fst snd] in A, B. split; assumption.
  Qed.

  Lemma sq_idx m : m < N ->
    let z := Z.of_nat m in let j := (z mod ny)%Z in let i := (z / ny)%Z in
    let E := z_edges (square nx ny) in let C := z_crossing (square nx ny) in let P := z_pos (square nx ny) in
    (z = i * ny + j /\ 0 <= j < ny /\ 0 <= i < nx)%Z /\
    (nth m P (0,0) = ((2 * i + 1) * ny, (2 * j + 1) * nx) /\
     nth m E (0,0) = (((i - 1) mod nx) * ny + j, z) /\ nth m C (0,0) = (b2z (i =? 0), 0) /\
     nth (N + m) E (0,0) = (i * ny + (j - 1) mod ny, z) /\ nth (N + m) C (0,0) = (0, b2z (j =? 0)))%Z.
  Proof.
    intros Hm. cbv zeta. pose proof sq_Nz as HN.
    destruct (cell_decompose ny nx (Z.of_nat m) Hy ltac:(lia)) as (Ez & Hj & Hi).
    set (z := Z.of_nat m) in *. set (j := (z mod ny)%Z) in *. set (i := (z / ny)%Z) in *.
    split; [repeat split; lia|].
    destruct (square_index_structure_claim nx ny Hx Hy) as (_ & _ & Hidx). cbv zeta in Hidx.
    specialize (Hidx i j Hi Hj). rewrite <- Ez in Hidx.
    destruct Hidx as (P0 & _ & E0 & C0 & E1 & C1).
    tonat P0 m. tonat E0 m. tonat C0 m. tonat E1 (N + m). tonat C1 (N + m).
    repeat split; assumption.
  Qed.

  Lemma sq_pos v : pos_at L v = nth v (z_pos (square nx ny)) (0, 0)%Z.
  Proof. reflexivity. Qed.
  Lemma sq_cross x : cross_at L x = nth x (z_crossing (square nx ny)) (0, 0)%Z.
  Proof. reflexivity. Qed.
  Lemma sq_scale : scale L = (2 * nx * ny)%Z.
  Proof. reflexivity. Qed.

  (* the wrap flag of the generator is the quotient of the step *)
  Lemma wrap_flag n x : (1 <= n)%Z -> (0 <= x < n)%Z -> b2z (((x + 1) mod n =? 0)%Z) = ((x + 1) / n)%Z.
  Proof.
    intros Hn Hx'. pose proof (Z.div_mod (x + 1) n ltac:(lia)) as D. pose proof (Z.mod_pos_bound (x + 1) n ltac:(lia)) as B.
    assert (Q : ((x + 1) / n = 0 \/ (x + 1) / n = 1)%Z) by nia.
    destruct (Z.eqb_spec ((x + 1) mod n) 0); unfold b2z; nia.
  Qed.

  Lemma sq_edge_vec m e : m < N -> e < 2 ->
    edge_at L (eid m e) = (m * 1 + t_bj sq_cell e, tr (t_bc sq_cell e) m * 1 + t_bk sq_cell e) /\
    evec L (eid m e) = asc ny nx (t_bvec sq_cell e).
  Proof.
    intros Hm He. destruct (sq_idx m Hm) as ((Ez & Hj & Hi) & (P0 & _)). cbv zeta in *.
    set (z := Z.of_nat m) in *. set (j := (z mod ny)%Z) in *. set (i := (z / ny)%Z) in *.
    destruct e as [|[|e]]; [| |exfalso; clear -He; lia].
    - set (m' := tr (1, 0)%Z m). assert (Hm' : m' < N) by (apply sq_tr_lt, Hm).
      assert (Hm2 : m < t_N ny nx) by (rewrite <- sq_N; exact Hm).
      destruct (t_tr_coords ny nx Hy Hx (0, 1)%Z m Hm2) as (X1 & X2 & _).
      change (t_tr ny nx (0, 1)%Z m) with m' in X1, X2. cbn [fst snd] in X1, X2. fold z j i in X1, X2.
      rewrite Z.add_0_r, (Z.mod_small j ny) in X1 by lia.
      destruct (sq_idx m' Hm') as ((Ez' & _) & (Q0 & QE & QC & _)). cbv zeta in *. rewrite X1, X2 in *.
      assert (Ei : eid m 0 = m') by reflexivity.
      pose proof (mod_shift_back nx i 1 Hx Hi) as MB.
      replace (((i + 1) mod nx - 1) mod nx)%Z with i in QE by (rewrite <- MB at 1; f_equal; lia).
      assert (Eedge : edge_at L (eid m 0) = (m * 1 + t_bj sq_cell 0, tr (t_bc sq_cell 0) m * 1 + t_bk sq_cell 0)).
      { rewrite Ei. unfold L. rewrite (zl_edge _ _ _ _ QE).
        change (t_bj sq_cell 0) with 0. change (t_bk sq_cell 0) with 0. change (t_bc sq_cell 0) with (1, 0)%Z. fold m'.
        f_equal; lia. }
      split; [exact Eedge|]. unfold evec. rewrite Eedge.
      change (t_bj sq_cell 0) with 0. change (t_bk sq_cell 0) with 0. change (t_bc sq_cell 0) with (1, 0)%Z. fold m'.
      replace (m * 1 + 0) with m by lia. replace (m' * 1 + 0) with m' by lia.
      rewrite !sq_pos, sq_cross, sq_scale, Ei, P0, Q0, QC, (wrap_flag nx i Hx Hi).
      pose proof (Z.div_mod (i + 1) nx ltac:(lia)) as Dx. set (q := ((i + 1) / nx)%Z) in *.
      replace ((i + 1) mod nx)%Z with (i + 1 - nx * q)%Z by lia.
      change (t_bvec sq_cell 0) with (2, 0)%Z. unfold asc, vadd, vsub, vscale. cbn [fst snd]. f_equal; ring.
    - set (m' := tr (0, 1)%Z m). assert (Hm' : m' < N) by (apply sq_tr_lt, Hm).
      assert (Hm2 : m < t_N ny nx) by (rewrite <- sq_N; exact Hm).
      destruct (t_tr_coords ny nx Hy Hx (1, 0)%Z m Hm2) as (X1 & X2 & _).
      change (t_tr ny nx (1, 0)%Z m) with m' in X1, X2. cbn [fst snd] in X1, X2. fold z j i in X1, X2.
      rewrite Z.add_0_r, (Z.mod_small i nx) in X2 by lia.
      destruct (sq_idx m' Hm') as ((Ez' & _) & (Q0 & _ & _ & QE & QC)). cbv zeta in *. rewrite X1, X2 in *.
      assert (Ei : eid m 1 = N + m') by (change (eid m 1) with (1 * N + m'); lia).
      pose proof (mod_shift_back ny j 1 Hy Hj) as MB.
      replace (((j + 1) mod ny - 1) mod ny)%Z with j in QE by (rewrite <- MB at 1; f_equal; lia).
      assert (Eedge : edge_at L (eid m 1) = (m * 1 + t_bj sq_cell 1, tr (t_bc sq_cell 1) m * 1 + t_bk sq_cell 1)).
      { rewrite Ei. unfold L. rewrite (zl_edge _ _ _ _ QE).
        change (t_bj sq_cell 1) with 0. change (t_bk sq_cell 1) with 0. change (t_bc sq_cell 1) with (0, 1)%Z. fold m'.
        f_equal; lia. }
      split; [exact Eedge|]. unfold evec. rewrite Eedge.
      change (t_bj sq_cell 1) with 0. change (t_bk sq_cell 1) with 0. change (t_bc sq_cell 1) with (0, 1)%Z. fold m'.
      replace (m * 1 + 0) with m by lia. replace (m' * 1 + 0) with m' by lia.
      rewrite !sq_pos, sq_cross, sq_scale, Ei, P0, Q0, QC, (wrap_flag ny j Hy Hj).
      pose proof (Z.div_mod (j + 1) ny ltac:(lia)) as Dy. set (q := ((j + 1) / ny)%Z) in *.
      replace ((j + 1) mod ny)%Z with (j + 1 - ny * q)%Z by lia.
      change (t_bvec sq_cell 1) with (0, 2)%Z. unfold asc, vadd, vsub, vscale. cbn [fst snd]. f_equal; ring.
  Qed.

  (* square_lattice(nx, ny), ALL nx, ny >= 2 *)
  Theorem square_all_sizes : (2 <= nx)%Z -> (2 <= ny)%Z -> census_all_sizes L N [4].
  Proof.
    intros Hx2 Hy2. destruct sq_cert as (Hwf & Hc & Hl & He). rewrite <- Hl.
    destruct (square_index_structure_claim nx ny Hx Hy) as ((LP & LE & LC) & _). cbv zeta in LP, LE, LC.
    pose proof sq_Nz as HN. unfold zlen in LP, LE, LC.
    apply (block_census sq_cell nx ny ny nx 0 sq_eo L sq_rots sq_faces tr sq_tr_lt sq_tr0 sq_tr_add sq_tr_inj);
      try assumption; try lia.
    - apply (edges_small_ok _ _ _ _ Hx2 Hy2 He).
    - rewrite sq_scale. nia.
    - assert (X : Z.of_nat (nE L) = (2 * (nx * ny))%Z) by (unfold L, to_lattice, nE; cbn [edges]; rewrite map_length; exact LE).
      change (t_ne sq_cell) with 2. fold N. lia.
    - assert (X : Z.of_nat (length (crossing L)) = (2 * (nx * ny))%Z) by exact LC.
      change (t_ne sq_cell) with 2. fold N. lia.
    - assert (X : Z.of_nat (nV L) = (nx * ny)%Z) by exact LP.
      change (t_ns sq_cell) with 1. fold N. lia.
    - intros m e Hm He'. change (t_ns sq_cell) with 1. apply sq_edge_vec; assumption.
    - intros m e Hm He'. apply sq_edge_vec; assumption.
    - intros m e Hm He' Eq. change (t_ns sq_cell) with 1 in Eq. change (t_ne sq_cell) with 2 in He'.
      assert (E2 : tr (t_bc sq_cell e) m = tr vzero m).
      { rewrite (sq_tr0 m Hm). destruct e as [|[|e]]; [| |exfalso; clear -He'; lia];
          [change (t_bj sq_cell 0) with 0 in Eq; change (t_bk sq_cell 0) with 0 in Eq
          |change (t_bj sq_cell 1) with 0 in Eq; change (t_bk sq_cell 1) with 0 in Eq]; lia. }
      apply (sq_tr_inj _ _ m Hm) in E2 as [A B]. unfold vzero in A, B. cbn [fst snd] in A, B.
      destruct e as [|[|e]]; [| |exfalso; clear -He'; lia].
      + change (t_bc sq_cell 0) with (1, 0)%Z in A. cbn [fst] in A. rewrite Z.mod_small in A by lia. discriminate A.
      + change (t_bc sq_cell 1) with (0, 1)%Z in B. cbn [snd] in B. rewrite Z.mod_small in B by lia. discriminate B.
  Qed.

  Theorem square_area_all_sizes : (2 <= nx)%Z -> (2 <= ny)%Z -> forall ps, find_all_plaquettes L = Some ps -> area2_sum ps = (2 * scale L * scale L)%Z.
  Proof.
    intros Hx2 Hy2. destruct sq_cert as (Hwf & Hc & Hl & He).
    destruct (square_index_structure_claim nx ny Hx Hy) as ((LP & LE & LC) & _). cbv zeta in LP, LE, LC.
    pose proof sq_Nz as HN. unfold zlen in LP, LE, LC.
    apply (block_area sq_cell nx ny ny nx 0 sq_eo L sq_rots sq_faces tr sq_tr_lt sq_tr0 sq_tr_add sq_tr_inj);
      try assumption; try lia.
    - apply (edges_small_ok _ _ _ _ Hx2 Hy2 He).
    - rewrite sq_scale. nia.
    - assert (X : Z.of_nat (nE L) = (2 * (nx * ny))%Z) by (unfold L, to_lattice, nE; cbn [edges]; rewrite map_length; exact LE).
      change (t_ne sq_cell) with 2. fold N. lia.
    - assert (X : Z.of_nat (length (crossing L)) = (2 * (nx * ny))%Z) by exact LC.
      change (t_ne sq_cell) with 2. fold N. lia.
    - assert (X : Z.of_nat (nV L) = (nx * ny)%Z) by exact LP.
      change (t_ns sq_cell) with 1. fold N. lia.
    - intros m e Hm He'. change (t_ns sq_cell) with 1. apply sq_edge_vec; assumption.
    - intros m e Hm He'. apply sq_edge_vec; assumption.
    - intros m e Hm He' Eq. change (t_ns sq_cell) with 1 in Eq. change (t_ne sq_cell) with 2 in He'.
      assert (E2 : tr (t_bc sq_cell e) m = tr vzero m).
      { rewrite (sq_tr0 m Hm). destruct e as [|[|e]]; [| |exfalso; clear -He'; lia];
          [change (t_bj sq_cell 0) with 0 in Eq; change (t_bk sq_cell 0) with 0 in Eq
          |change (t_bj sq_cell 1) with 0 in Eq; change (t_bk sq_cell 1) with 0 in Eq]; lia. }
      apply (sq_tr_inj _ _ m Hm) in E2 as [A B]. unfold vzero in A, B. cbn [fst snd] in A, B.
      destruct e as [|[|e]]; [| |exfalso; clear -He'; lia].
      + change (t_bc sq_cell 0) with (1, 0)%Z in A. cbn [fst] in A. rewrite Z.mod_small in A by lia. discriminate A.
      + change (t_bc sq_cell 1) with (0, 1)%Z in B. cbn [snd] in B. rewrite Z.mod_small in B by lia. discriminate B.
    - fold N. rewrite sq_scale, HN. change (uc_scale sq_cell) with 2%Z. ring.
  Qed.
End SQ.

Corollary square_census_all_sizes (nx ny : Z) : (2 <= nx)%Z -> (2 <= ny)%Z ->
  let L := to_lattice (square nx ny) in let F := Z.to_nat (nx * ny) in
  exists ps, find_all_plaquettes L = Some ps /\
    count_sides ps 4 = F /\ length ps = F /\ (forall k, k <> 4 -> count_sides ps k = 0) /\
    nV L + length ps = nE L /\
    (forall p, In p ps -> p_winding p = (-1)%Z /\ (0 < p_area2 p)%Z) /\
    NoDup (flat_map plaq_darts ps) /\ (forall d, valid_dart L d <-> In d (flat_map plaq_darts ps)).
Proof.
  intros Hx Hy L F. destruct (square_all_sizes nx ny ltac:(lia) ltac:(lia) Hx Hy) as (ps & Hf & P & Hc & Hlen & Hp & Hnd & Hd).
  destruct (square_index_structure_claim nx ny ltac:(lia) ltac:(lia)) as ((LP & LE & _) & _). cbv zeta in LP, LE. unfold zlen in LP, LE.
  assert (EF : F = t_N nx ny) by reflexivity.
  exists ps. split; [exact Hf|]. rewrite EF. split; [rewrite Hc; cbn; lia|]. split; [rewrite Hlen; cbn; lia|].
  split; [|split; [|split; [|split]]].
  - intros k Hk. rewrite Hc. cbn [filter]. destruct (Nat.eqb_spec 4 k); [lia|]. cbn. lia.
  - rewrite Hlen. pose proof (sq_Nz nx ny ltac:(lia) ltac:(lia)) as HN.
    assert (X : Z.of_nat (nE L) = (2 * (nx * ny))%Z) by (unfold L, to_lattice, nE; cbn [edges]; rewrite map_length; exact LE).
    assert (Y : Z.of_nat (nV L) = (nx * ny)%Z) by exact LP.
    cbn [length]. lia.
  - intros p Hin. destruct (Hp p Hin) as (H1 & H2 & _). split; assumption.
  - exact Hnd.
  - exact Hd.
Qed.

(* the four area statements in one claim (Props/C10.v) *)
Lemma areas_all_sizes_claim :
  (forall n, (2 <= n)%Z -> forall ps, find_all_plaquettes (to_lattice (honeycomb n)) = Some ps ->
     area2_sum ps = (2 * scale (to_lattice (honeycomb n)) * scale (to_lattice (honeycomb n)))%Z) /\
  (forall n, (2 <= n)%Z -> forall ps, find_all_plaquettes (to_lattice (hex_square_oct n)) = Some ps ->
     area2_sum ps = (2 * scale (to_lattice (hex_square_oct n)) * scale (to_lattice (hex_square_oct n)))%Z) /\
  (forall nx ny, (2 <= nx)%Z -> (2 <= ny)%Z -> forall ps, find_all_plaquettes (to_lattice (tri_non nx ny)) = Some ps ->
     area2_sum ps = (2 * scale (to_lattice (tri_non nx ny)) * scale (to_lattice (tri_non nx ny)))%Z) /\
  (forall nx ny, (2 <= nx)%Z -> (2 <= ny)%Z -> forall ps, find_all_plaquettes (to_lattice (square nx ny)) = Some ps ->
     area2_sum ps = (2 * scale (to_lattice (square nx ny)) * scale (to_lattice (square nx ny)))%Z).
Proof.
  split; [|split; [|split]].
  - intros n H. apply (honeycomb_area_all_sizes n ltac:(lia) H).
  - intros n H. apply (hso_area_all_sizes n ltac:(lia) H).
  - exact tri_non_area_all_sizes.
  - intros nx ny Hx Hy. apply (square_area_all_sizes nx ny ltac:(lia) ltac:(lia) Hx Hy).
Qed.

(* make_honeycomb(L) for ALL L >= 2, in the shape of the bounded theorem *)
Lemma make_honeycomb_flux_all_sizes_claim :
  forall n, (2 <= n)%Z ->
  exists ps, find_all_plaquettes (to_lattice (honeycomb n)) = Some ps /\
             forall p, In p ps -> flux_of (make_honeycomb_ujk n) p = 1%Z.
Proof.
  intros n Hn. destruct (honeycomb_census_all_sizes n Hn) as (ps & Hf & _).
  exists ps. split; [exact Hf|]. apply (honeycomb_flux_all_sizes n ltac:(lia) Hn ps Hf).
Qed.
