(* Proofs/PlaqFacts.v — the replication rule of plot_plaquettes (Model/Plot.v):
   a discrete intermediate-value argument on the vertex list of the unwrapped polygon.
   PARTIAL with respect to DESIGN's  plaquette_cover : proved here is that every translate
   (dx,dy) in {-1,0,1}^2 for which the polygon has vertices strictly on both sides of the
   cell line it would have to cross is drawn — including the diagonal translates.  NOT
   proved: that these are all translates meeting the cell (needs region reasoning) and the
   area identity (checked per input by the spec checker instead). *)
From Coq Require Import List ZArith QArith Bool Qminmax Lqa Lia.
From Koala Require Import Model.Clip Model.Plot Proofs.ClipFacts.
Import ListNotations.
Open Scope Q_scope.

(* a side crosses the line coord = l  iff  l lies between its end points (start included) *)
Lemma crosses_line_iff (l : Q) (xaxis : bool) (s : seg) :
  ~ coord xaxis (seg_start s) == coord xaxis (seg_end s) ->
  (crosses_line l xaxis s = true <->
   (coord xaxis (seg_end s) < l /\ l <= coord xaxis (seg_start s)) \/
   (coord xaxis (seg_start s) <= l /\ l < coord xaxis (seg_end s))).
Proof.
  intro Hne. unfold crosses_line, t_param.
  set (a := coord xaxis (seg_start s)) in *. set (b := coord xaxis (seg_end s)) in *.
  destruct (Qeqb (a - b) 0) eqn:E; [apply Qeqb_iff in E; exfalso; apply Hne; lra|].
  rewrite andb_true_iff, Qltb_iff, Qleb_iff.
  destruct (Qlt_le_dec 0 (a - b)) as [Hp|Hn].
  - rewrite (div_le_iff_pos _ _ _ Hp).
    assert (K : 0 < (l - b) / (a - b) <-> 0 < l - b).
    { split; intro H.
      - assert (E2 : (l - b) / (a - b) * (a - b) == l - b) by (field; lra). nra.
      - apply Qlt_shift_div_l; lra. }
    rewrite K. split; [intros [? ?]; left; lra|intros [[? ?]|[? ?]]; lra].
  - assert (Hn' : a - b < 0) by (destruct (Qeq_dec (a - b) 0); [exfalso; apply Hne; lra|lra]).
    rewrite (div_le_iff_neg _ _ _ Hn').
    assert (K : 0 < (l - b) / (a - b) <-> l - b < 0).
    { assert (E2 : (l - b) / (a - b) * (a - b) == l - b) by (field; lra).
      split; intro H; nra. }
    rewrite K. split; [intros [? ?]; right; lra|intros [[? ?]|[? ?]]; lra].
Qed.

(* chain lemma: if a boolean function is constant along consecutive pairs it is constant *)
Lemma chain_const {A : Type} (f : A -> bool) (d : A) (L : list A) :
  (forall p q, In (p, q) (combine L (tl L)) -> f p = f q) ->
  forall x, In x L -> f x = f (hd d L).
Proof.
  induction L as [|a L IH]; intros H x Hx; [destruct Hx|].
  destruct L as [|b L'].
  - destruct Hx as [<-|[]]. reflexivity.
  - simpl in *. destruct Hx as [<-|Hx]; [reflexivity|].
    rewrite (H a b (or_introl eq_refl)). apply IH; [|exact Hx].
    intros p q Hpq. apply H. right. exact Hpq.
Qed.

Lemma combine_app_r {A B : Type} (l : list A) (l' x : list B) (pq : A * B) :
  In pq (combine l l') -> In pq (combine l (l' ++ x)).
Proof.
  revert l'. induction l as [|a l IH]; intros l' H; [destruct H|].
  destruct l' as [|b l']; [destruct H|]. simpl in *. destruct H as [H|H]; [left; exact H|right; apply IH; exact H].
Qed.

Lemma chain_in_cycle {A : Type} (L : list A) (pq : A * A) :
  In pq (combine L (tl L)) -> In pq (combine L (rotl L)).
Proof. destruct L as [|a L]; [intros []|]. simpl tl. unfold rotl. apply combine_app_r. Qed.

(* vertices strictly on both sides of the line  coord = l *)
Definition straddles (pts : polygon) (xaxis : bool) (l : Q) : Prop :=
  (exists u, In u pts /\ l < coord xaxis u) /\ (exists w, In w pts /\ coord xaxis w < l).
(* no vertex on the line *)
Definition off_line (pts : polygon) (xaxis : bool) (l : Q) : Prop :=
  forall v, In v pts -> ~ coord xaxis v == l.

Lemma straddles_crosses (pts : polygon) (xaxis : bool) (l : Q) :
  off_line pts xaxis l -> straddles pts xaxis l ->
  any_crosses l xaxis (poly_lines pts) = true.
Proof.
  intros Hoff [[u [Hu Hul]] [w [Hw Hwl]]].
  unfold any_crosses. apply existsb_exists.
  set (f := fun p : point => Qltb l (coord xaxis p)).
  (* some consecutive pair changes side *)
  assert (Hex : exists p q, In (p, q) (combine pts (tl pts)) /\ f p <> f q).
  { destruct (existsb (fun pq : point * point => negb (eqb (f (fst pq)) (f (snd pq)))) (combine pts (tl pts))) eqn:E.
    - apply existsb_exists in E. destruct E as [[p q] [Hin Hneq]]. exists p, q. split; [exact Hin|].
      cbn [fst snd] in Hneq. intro Heq. rewrite Heq, eqb_reflx in Hneq. discriminate.
    - exfalso.
      assert (Hall : forall p q, In (p, q) (combine pts (tl pts)) -> f p = f q).
      { intros p q Hin. destruct (eqb (f p) (f q)) eqn:Eb; [apply eqb_prop; exact Eb|].
        assert (Ht : existsb (fun pq : point * point => negb (eqb (f (fst pq)) (f (snd pq)))) (combine pts (tl pts)) = true).
        { apply existsb_exists. exists (p, q). split; [exact Hin|]. cbn [fst snd]. rewrite Eb. reflexivity. }
        congruence. }
      pose proof (chain_const f u pts Hall u Hu) as H1.
      pose proof (chain_const f u pts Hall w Hw) as H2.
      assert (Fu : f u = true) by (apply Qltb_iff; exact Hul).
      assert (Fw : f w = false).
      { unfold f. destruct (Qltb l (coord xaxis w)) eqn:Ew; auto. apply Qltb_iff in Ew. lra. }
      congruence. }
  destruct Hex as (p & q & Hin & Hneq).
  exists (p, q). split; [unfold poly_lines; apply chain_in_cycle; exact Hin|].
  assert (Hp : In p pts) by (apply (in_combine_l _ _ _ _ Hin)).
  assert (Hq : In q pts).
  { apply in_combine_r in Hin. destruct pts; [destruct Hin|]. right. exact Hin. }
  pose proof (Hoff p Hp) as Op. pose proof (Hoff q Hq) as Oq.
  assert (Hne : ~ coord xaxis (seg_start (p, q)) == coord xaxis (seg_end (p, q))).
  { unfold seg_start, seg_end. cbn [fst snd]. intro Heq. apply Hneq. unfold f.
    destruct (Qltb l (coord xaxis p)) eqn:E1; destruct (Qltb l (coord xaxis q)) eqn:E2; auto.
    - apply Qltb_iff in E1. assert (l < coord xaxis q) by lra. apply Qltb_iff in H. congruence.
    - apply Qltb_iff in E2. assert (l < coord xaxis p) by lra. apply Qltb_iff in H. congruence. }
  apply (crosses_line_iff l xaxis (p, q) Hne). unfold seg_start, seg_end. cbn [fst snd].
  unfold f in Hneq.
  destruct (Qltb l (coord xaxis p)) eqn:E1; destruct (Qltb l (coord xaxis q)) eqn:E2; try congruence.
  - apply Qltb_iff in E1. assert (~ l < coord xaxis q) by (intro K; apply Qltb_iff in K; congruence).
    left. split; [|lra]. destruct (Qlt_le_dec (coord xaxis q) l); [assumption|]. exfalso. apply Oq. lra.
  - apply Qltb_iff in E2. assert (~ l < coord xaxis p) by (intro K; apply Qltb_iff in K; congruence).
    right. split; lra.
Qed.

(* which translates have to be drawn: shift +1 when the polygon reaches across x = 0,
   shift -1 when it reaches across x = 1 (same for y) *)
Definition needs_shift (pts : polygon) (xaxis : bool) (d : Z) : Prop :=
  d = 0%Z \/ (d = 1%Z /\ straddles pts xaxis 0) \/ (d = (-1)%Z /\ straddles pts xaxis 1).

Lemma pads_complete (pts : polygon) (xaxis : bool) (d : Z) :
  off_line pts xaxis 0 -> off_line pts xaxis 1 -> needs_shift pts xaxis d ->
  In d (pads (poly_lines pts) xaxis).
Proof.
  intros H0 H1 [->|[[-> Hs]|[-> Hs]]]; unfold pads.
  - apply in_or_app. right. left. reflexivity.
  - rewrite (straddles_crosses pts xaxis 0 H0 Hs). apply in_or_app. right. right. left. reflexivity.
  - rewrite (straddles_crosses pts xaxis 1 H1 Hs). left. reflexivity.
Qed.

Theorem plaquette_translates_drawn_partial (pts : polygon) (dx dy : Z) :
  off_line pts true 0 -> off_line pts true 1 -> off_line pts false 0 -> off_line pts false 1 ->
  needs_shift pts true dx -> needs_shift pts false dy ->
  In (ptranslate pts (zpoint (dx, dy)))
     (replicate_polygon pts (pads (poly_lines pts) true) (pads (poly_lines pts) false)).
Proof.
  intros Hx0 Hx1 Hy0 Hy1 Nx Ny. unfold replicate_polygon. apply in_flat_map.
  exists dx. split; [apply pads_complete; assumption|].
  apply in_map_iff. exists dy. split; [reflexivity|apply pads_complete; assumption].
Qed.
