(* Proofs/FluxAdjacent.v — C05's "flipping one bond flips exactly the fluxes of the plaquettes
   adjacent to that edge" with adjacency read off the table edges.adjacent_plaquettes of the
   lattice model (its non-INVALID entries), via C02's edge_sides lemma (through
   Proofs/SpanTreeLattice.model_tables_agree). *)
From Coq Require Import List ZArith Bool Arith Lia.
From Koala Require Import Model.Lattice Model.Flux Model.SpanTree.
From Koala Require Import Proofs.LatticeFacts Proofs.FluxFacts Proofs.SpanTreeFacts Proofs.SpanTreeLattice.
Import ListNotations.
Open Scope Z_scope.

Definition adjacent_entry (ep : list ep_row) (e q : nat) : Prop :=
  fst (nth e ep (None, None)) = Some q \/ snd (nth e ep (None, None)) = Some q.

Lemma is_side_entry : forall ep e q, is_side ep e q = true <-> adjacent_entry ep e q.
Proof.
  intros ep e q. unfold is_side, adjacent_entry, ep_at.
  destruct (nth e ep (None, None)) as [[a|] [b|]]; simpl;
    rewrite ?orb_true_iff, ?Nat.eqb_eq, ?orb_false_r; split;
    try (intros [H|H]; [left|right]; congruence); try (intros [H|H]; congruence);
    try (intros H; (left + right); congruence); try discriminate; intuition congruence.
Qed.

Lemma nth_fluxes : forall u ps q, (q < length ps)%nat ->
  nth q (fluxes_real u ps) 0 = flux_real u (nth q ps empty_plaq).
Proof.
  intros u ps q Hq. unfold fluxes_real.
  rewrite (nth_indep _ 0 (flux_real u empty_plaq)) by (now rewrite map_length).
  apply map_nth.
Qed.

Lemma single_flip_adjacent_model : forall L ps u e q,
  wf_lattice L = true -> no_self_loops L = true -> find_all_plaquettes L = Some ps ->
  (forall f, (f < nE L)%nat -> is_pm1 (bond u f)) -> (q < length ps)%nat ->
  (nth q (fluxes_real (flip_at e u) ps) 0 = - nth q (fluxes_real u ps) 0
     <-> adjacent_entry (edges_plaquettes L ps) e q)
  /\ (~ adjacent_entry (edges_plaquettes L ps) e q ->
      nth q (fluxes_real (flip_at e u) ps) 0 = nth q (fluxes_real u ps) 0).
Proof.
  intros L ps u e q Hwf Hnl Hf Hu Hq.
  assert (HG : good L) by (split; assumption).
  rewrite !nth_fluxes by assumption. set (P := nth q ps empty_plaq).
  assert (HP : In P ps) by (now apply nth_In).
  destruct (model_tables_agree L ps HG Hf) as [_ Hside].
  assert (Hadj : In e (p_edges P) <-> adjacent_entry (edges_plaquettes L ps) e q).
  { rewrite <- is_side_entry. unfold P. rewrite <- nth_pes. apply Hside. now rewrite map_length. }
  assert (Hpm : forall f, In f (p_edges P) -> is_pm1 (bond u f)).
  { intros f Hin. destruct (model_plaquette_shape L ps P Hf HP) as (_ & Hl & _).
    destruct (in_combine_exists _ _ (p_edges P) (p_dirs P) f Hin Hl) as [d Hd].
    apply Hu. apply (model_plaquette_darts_valid L ps P (f, d) HG Hf HP Hd). }
  destruct (flux_real_flip_model L ps P u e Hf HP Hpm) as [Hiff Hno].
  split.
  - rewrite Hiff. exact Hadj.
  - intros H. apply Hno. now rewrite Hadj.
Qed.
