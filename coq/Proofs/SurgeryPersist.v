(* Proofs/SurgeryPersist.v — C12, clause "every plaquette of the input none of whose edges was removed is a
   plaquette of the output with the same geometry".

   Setting (Section Embed): a lattice M embedded in a lattice L by an increasing edge map ee and an
   injective vertex map ev (M = sub_lattice L kv ke with ke ascending; ee i = ke[i], ev v = kv[v]).
   Steps: (1) the rotation system of M at v is the filtered row of L at ev v, renamed (needs: no zero edge
   vector in L, see SurgeryPersistLists.sort_desc_filter); (2) the dart successor of L between two darts of M
   is the dart successor of M (nd_pull); (3) hence a closed orbit of L all of whose edges are kept is,
   renamed, a closed orbit of M with the same directed vectors and crossings, so it passes the same
   validity filters; (4) orbits are unique up to rotation and the sweep of M lists the orbit of every dart,
   so the plaquette list of M contains a rotation of the renamed walk. *)
From Coq Require Import List ZArith Bool Arith Lia ZifyBool Permutation Sorted.
From Koala Require Import Model.Lattice Model.Surgery.
From Koala Require Import Proofs.SurgeryFacts Proofs.SurgeryTrailing Proofs.SurgeryPerm Proofs.SurgeryEquivariant.
From Koala Require Import Proofs.LatticeFacts Proofs.SurgeryPersistLists Proofs.SurgeryPersistGeom.
Import ListNotations.
Open Scope nat_scope.

(* the genericity hypothesis, as a boolean: no edge of L has the zero vector (two distinct vertices at the
   same place joined by a non-crossing edge).  With a zero vector the comparator ang_lt is not a strict weak
   order and the insertion sort of a filtered row need not be the filtered sort. *)
Definition no_zero_vectors (L : lattice) : bool :=
  forallb (fun e => negb (veqb (evec L e) vzero)) (seq 0 (nE L)).

Lemma no_zero_vectors_spec L : no_zero_vectors L = true -> forall e, e < nE L -> evec L e <> vzero.
Proof.
  unfold no_zero_vectors. rewrite forallb_forall. intros H e He E.
  specialize (H e (proj2 (in_seq _ _ _) (conj (Nat.le_0_l e) He))).
  apply negb_true_iff in H. rewrite E in H. unfold veqb, vzero in H. cbn in H. discriminate.
Qed.

Lemma outvec_nonzero L v e : evec L e <> vzero -> outvec L v e <> vzero.
Proof.
  unfold outvec. destruct (fst (edge_at L e) =? v); [auto|]. intros H E. apply H.
  destruct (evec L e) as [x y]. unfold vneg, vzero in *. cbn [fst snd] in E.
  injection E as E1 E2. f_equal; lia.
Qed.

Lemma SS_lt_NoDup l : StronglySorted lt l -> NoDup l.
Proof.
  induction 1 as [|a l S IH A]; constructor; [|exact IH].
  intros Hin. rewrite Forall_forall in A. specialize (A a Hin). lia.
Qed.

Lemma last_map_ne {A B} (f : A -> B) l d1 d2 : l <> [] -> last (map f l) d1 = f (last l d2).
Proof.
  induction l as [|a l IH]; [contradiction|]. intros _. destruct l as [|b l]; [reflexivity|].
  change (last (map f (a :: b :: l)) d1) with (last (map f (b :: l)) d1).
  change (last (a :: b :: l) d2) with (last (b :: l) d2). apply IH. discriminate.
Qed.

Lemma hd_map_ne {A B} (f : A -> B) l d1 d2 : l <> [] -> hd d1 (map f l) = f (hd d2 l).
Proof. destruct l; [contradiction|reflexivity]. Qed.

Definition plaq_vectors (L : lattice) (p : plaquette) : list vec :=
  map (fun ed : nat * bool => vscale (sgn (snd ed)) (evec L (fst ed))) (combine (p_edges p) (p_dirs p)).

Lemma plaq_vectors_mk L w : plaq_vectors L (mk_plaquette L w) = map (dvec L) w.
Proof.
  unfold plaq_vectors, mk_plaquette. cbn [p_edges p_dirs]. rewrite combine_walk.
  unfold walk_darts. rewrite map_map. reflexivity.
Qed.

Section Embed.
  Variables (L M : lattice) (ee ev re rv : nat -> nat).
  Hypothesis HGL : good L.
  Hypothesis HGM : good M.
  Hypothesis Hnz : forall e, e < nE L -> evec L e <> vzero.
  Hypothesis Hmono : forall i j, i < j -> j < nE M -> ee i < ee j.
  Hypothesis Hee_lt : forall i, i < nE M -> ee i < nE L.
  Hypothesis Hre : forall i, i < nE M -> re (ee i) = i.
  Hypothesis Hrv : forall v, v < nV M -> rv (ev v) = v.
  Hypothesis Hedge : forall i, i < nE M ->
    edge_at L (ee i) = (ev (fst (edge_at M i)), ev (snd (edge_at M i))).
  Hypothesis Hcross : forall i, i < nE M -> cross_at M i = cross_at L (ee i).
  Hypothesis Hpos : forall v, v < nV M -> pos_at M v = pos_at L (ev v).
  Hypothesis Hscale : scale M = scale L.

  Definition kes : list nat := map ee (seq 0 (nE M)).
  Definition keptb (e : nat) : bool := memb e kes.

  Lemma M_ends i : i < nE M ->
    fst (edge_at M i) < nV M /\ snd (edge_at M i) < nV M /\ fst (edge_at M i) <> snd (edge_at M i).
  Proof. intros Hi. destruct (edge_at M i) as [j k] eqn:E. exact (good_edge M i j k HGM Hi E). Qed.

  Lemma ev_inj u v : u < nV M -> v < nV M -> ev u = ev v -> u = v.
  Proof. intros Hu Hv E. rewrite <- (Hrv u Hu), <- (Hrv v Hv), E. reflexivity. Qed.

  Lemma ev_eqb u v : u < nV M -> v < nV M -> (ev u =? ev v) = (u =? v).
  Proof.
    intros Hu Hv. destruct (Nat.eqb_spec u v) as [->|NE]; [apply Nat.eqb_refl|].
    apply Nat.eqb_neq. intros E. apply NE, ev_inj; assumption.
  Qed.

  Lemma ee_inj i j : i < nE M -> j < nE M -> ee i = ee j -> i = j.
  Proof. intros Hi Hj E. rewrite <- (Hre i Hi), <- (Hre j Hj), E. reflexivity. Qed.

  Lemma emb_evec i : i < nE M -> evec L (ee i) = evec M i.
  Proof.
    intros Hi. destruct (M_ends i Hi) as (Hj & Hk & _). unfold evec.
    rewrite (Hedge i Hi), (Hcross i Hi), Hscale. destruct (edge_at M i) as [j k]. cbn [fst snd] in *.
    rewrite (Hpos j Hj), (Hpos k Hk). reflexivity.
  Qed.

  Lemma emb_incident_b v i : v < nV M -> i < nE M -> incident_b L (ev v) (ee i) = incident_b M v i.
  Proof.
    intros Hv Hi. destruct (M_ends i Hi) as (Hj & Hk & _). unfold incident_b.
    rewrite (Hedge i Hi). destruct (edge_at M i) as [j k]. cbn [fst snd] in *.
    rewrite !ev_eqb by assumption. reflexivity.
  Qed.

  Lemma emb_outvec v i : v < nV M -> i < nE M -> outvec L (ev v) (ee i) = outvec M v i.
  Proof.
    intros Hv Hi. destruct (M_ends i Hi) as (Hj & _ & _). unfold outvec.
    rewrite (Hedge i Hi). cbn [fst]. rewrite ev_eqb, emb_evec by assumption. reflexivity.
  Qed.

  (* ---------------------------------------------------------------- (1) the rotation system *)
  Lemma map_seq_sorted n : forall a, a + n <= nE M -> StronglySorted lt (map ee (seq a n)).
  Proof.
    induction n as [|n IH]; intros a Ha; cbn [seq map]; constructor; [apply IH; lia|].
    apply Forall_forall. intros x Hx. apply in_map_iff in Hx as (j & <- & Hj). apply in_seq in Hj.
    apply Hmono; lia.
  Qed.

  Lemma kes_In e : In e kes <-> exists i, i < nE M /\ ee i = e.
  Proof.
    unfold kes. rewrite in_map_iff. split; intros (i & A & B).
    - apply in_seq in B. exists i. split; [lia|exact A].
    - exists i. split; [exact B|apply in_seq; lia].
  Qed.

  Lemma keptb_ee i : i < nE M -> keptb (ee i) = true.
  Proof. intros Hi. apply memb_In, kes_In. exists i. auto. Qed.

  Lemma kes_eq : kes = filter keptb (seq 0 (nE L)).
  Proof.
    apply sorted_lt_perm_eq; [apply map_seq_sorted; lia|apply filter_seq_sorted|].
    apply NoDup_Permutation; [apply SS_lt_NoDup, map_seq_sorted; lia|apply filter_seq_NoDup|].
    intros e. rewrite filter_In, in_seq. unfold keptb. rewrite memb_In. split; [|tauto].
    intros H. split; [|exact H]. apply kes_In in H as (i & Hi & <-). pose proof (Hee_lt i Hi). lia.
  Qed.

  Lemma emb_incident v : v < nV M -> map ee (incident M v) = filter keptb (incident L (ev v)).
  Proof.
    intros Hv. unfold incident.
    transitivity (filter (incident_b L (ev v)) kes).
    - unfold kes. rewrite filter_map_comm. f_equal. apply filter_ext_in. intros i Hi.
      apply in_seq in Hi. symmetry. apply emb_incident_b; [exact Hv|lia].
    - rewrite kes_eq at 1. rewrite !filter_filter. apply filter_ext. intros e. apply andb_comm.
  Qed.

  Lemma emb_sorted_adj v : v < nV M -> map ee (sorted_adj M v) = filter keptb (sorted_adj L (ev v)).
  Proof.
    intros Hv. unfold sorted_adj. rewrite sort_desc_filter.
    - rewrite <- (emb_incident v Hv), <- map_sort_desc. f_equal.
      apply sort_desc_ext. intros i Hi. apply in_incident in Hi as [Hi _]. symmetry. apply emb_outvec; assumption.
    - intros e He. apply in_incident in He as [He _]. apply outvec_nonzero, Hnz, He.
  Qed.

  (* ---------------------------------------------------------------- (2) the dart successor *)
  Definition embd (d : dart) : dart := (ee (fst d), snd d).

  Lemma emb_dhead d : valid_dart M d -> dhead L (embd d) = ev (dhead M d).
  Proof.
    intros Hd. unfold dhead, embd. cbn [fst snd]. rewrite (Hedge _ Hd).
    destruct (edge_at M (fst d)) as [j k]. cbn [fst snd]. destruct (snd d); reflexivity.
  Qed.

  Lemma emb_dtail d : valid_dart M d -> dtail L (embd d) = ev (dtail M d).
  Proof.
    intros Hd. unfold dtail, embd. cbn [fst snd]. rewrite (Hedge _ Hd).
    destruct (edge_at M (fst d)) as [j k]. cbn [fst snd]. destruct (snd d); reflexivity.
  Qed.

  Lemma nd_pull d1 d2 :
    valid_dart M d1 -> valid_dart M d2 -> nd L (embd d1) = Some (embd d2) -> nd M d1 = Some d2.
  Proof.
    intros V1 V2 H.
    assert (VL : valid_dart L (embd d1)) by (apply Hee_lt, V1).
    destruct (nd_spec L (embd d1) HGL VL) as (f & Hs & Hn). rewrite H in Hn.
    unfold embd, out_dart in Hn. injection Hn as Hf Hb. subst f.
    fold (embd d1) in Hb. rewrite (emb_dhead d1 V1) in Hs, Hb. cbn [embd fst] in Hs.
    pose proof (dhead_lt M d1 HGM V1) as Hvh. set (vh := dhead M d1) in *.
    apply (succ_in_filter keptb) in Hs;
      [|apply sorted_adj_NoDup|apply keptb_ee, V1|apply keptb_ee, V2].
    rewrite <- (emb_sorted_adj vh Hvh) in Hs.
    rewrite succ_in_map in Hs.
    2:{ intros y Hy E. apply in_sorted_adj in Hy as [Hy _]. apply ee_inj; assumption. }
    destruct (nd_spec M d1 HGM V1) as (f' & Hs' & Hn'). fold vh in Hs', Hn'.
    rewrite Hs' in Hs. cbn [option_map] in Hs. injection Hs as Hs.
    assert (Hf' : f' < nE M).
    { apply LatticeFacts.succ_in_In in Hs' as [_ Hf']. apply in_sorted_adj in Hf' as [Hf' _]. exact Hf'. }
    apply ee_inj in Hs; [|exact Hf'|exact V2]. subst f'.
    rewrite Hn'. f_equal. unfold out_dart. destruct d2 as [i2 b2]. cbn [fst snd] in *. f_equal.
    rewrite Hb, (Hedge i2 V2). cbn [fst]. destruct (M_ends i2 V2) as (Hj & _ & _).
    symmetry. apply ev_eqb; assumption.
  Qed.

  (* ---------------------------------------------------------------- (3) walks *)
  Definition emb_step (s : nat * nat * bool) : nat * nat * bool :=
    (ee (fst (fst s)), ev (snd (fst s)), snd s).
  Definition pull_step (s : nat * nat * bool) : nat * nat * bool :=
    (re (fst (fst s)), rv (snd (fst s)), snd s).

  Lemma sdart_emb s : sdart (emb_step s) = embd (sdart s).
  Proof. reflexivity. Qed.

  Lemma pull_emb s : step_ok L s -> keptb (fst (fst s)) = true ->
    step_ok M (pull_step s) /\ emb_step (pull_step s) = s.
  Proof.
    destruct s as [[e v] d]. unfold step_ok, sdart, pull_step, emb_step. cbn [fst snd].
    intros [Hv Ht] Hk. apply memb_In, kes_In in Hk as (i & Hi & <-).
    rewrite (Hre i Hi). change (ee i, d) with (embd (i, d)) in Ht.
    rewrite (emb_dtail (i, d) Hi) in Ht. subst v.
    rewrite (Hrv _ (dtail_lt M (i, d) HGM Hi)). split; [split; [exact Hi|reflexivity]|reflexivity].
  Qed.

  Lemma emb_dvec s : valid_dart M (sdart s) -> dvec L (emb_step s) = dvec M s.
  Proof.
    intros H. change (fst (fst s) < nE M) in H. unfold dvec, emb_step. cbn [fst snd].
    rewrite (emb_evec _ H). reflexivity.
  Qed.

  Lemma emb_dcross s : valid_dart M (sdart s) -> dcross L (emb_step s) = dcross M s.
  Proof.
    intros H. change (fst (fst s) < nE M) in H. unfold dcross, emb_step. cbn [fst snd].
    rewrite (Hcross _ H). reflexivity.
  Qed.

  Lemma chain_pull w' : (forall s, In s w' -> step_ok M s) -> chain L (map emb_step w') -> chain M w'.
  Proof.
    induction w' as [|a w' IH]; intros Hok Hc; [exact I|]. destruct w' as [|b w']; [exact I|].
    cbn [map] in Hc. destruct Hc as [Hab Hc]. split.
    - rewrite !sdart_emb in Hab. apply nd_pull; [apply Hok; left; reflexivity|apply Hok; right; left; reflexivity|exact Hab].
    - apply IH; [intros s Hs; apply Hok; right; exact Hs|exact Hc].
  Qed.

  Lemma orbit_pull w' :
    (forall s, In s w' -> step_ok M s) -> orbit_walk L (map emb_step w') -> orbit_walk M w'.
  Proof.
    intros Hok HO.
    assert (Hne : w' <> []) by (intros ->; apply (ow_ne _ _ HO); reflexivity).
    assert (Hhd : In (hd dflt w') w') by (destruct w'; [contradiction|left; reflexivity]).
    assert (Hla : In (last w' dflt) w').
    { rewrite (app_removelast_last dflt Hne) at 2. apply in_or_app. right. left. reflexivity. }
    constructor.
    - exact Hne.
    - exact Hok.
    - apply chain_pull; [exact Hok|apply (ow_chain _ _ HO)].
    - pose proof (ow_close _ _ HO) as Hc.
      rewrite (last_map_ne emb_step w' dflt dflt Hne), (hd_map_ne emb_step w' dflt dflt Hne), !sdart_emb in Hc.
      apply nd_pull; [apply Hok, Hla|apply Hok, Hhd|exact Hc].
    - pose proof (ow_nodup _ _ HO) as Hnd. rewrite map_map in Hnd.
      rewrite (map_ext _ (fun s => embd (sdart s)) sdart_emb), <- map_map in Hnd.
      apply NoDup_map_inv in Hnd. exact Hnd.
  Qed.

  Lemma map_dvec_emb w' : (forall s, In s w' -> step_ok M s) ->
    map (dvec L) (map emb_step w') = map (dvec M) w'.
  Proof. intros Hok. rewrite map_map. apply map_ext_in. intros s Hs. apply emb_dvec, Hok, Hs. Qed.

  Lemma map_dcross_emb w' : (forall s, In s w' -> step_ok M s) ->
    map (dcross L) (map emb_step w') = map (dcross M) w'.
  Proof. intros Hok. rewrite map_map. apply map_ext_in. intros s Hs. apply emb_dcross, Hok, Hs. Qed.

  Lemma walk_valid_pull w' : (forall s, In s w' -> step_ok M s) ->
    walk_valid L (map emb_step w') = true -> walk_valid M w' = true.
  Proof.
    intros Hok. unfold walk_valid, net_crossing.
    rewrite (map_dvec_emb w' Hok), (map_dcross_emb w' Hok), !andb_true_iff, !nodupb_NoDup.
    intros [[Hnd Hn] Hw]. split; [split|]; [|exact Hn|exact Hw].
    unfold walk_edges in *. rewrite map_map in Hnd.
    change (map (fun x : nat * nat * bool => fst (fst (emb_step x))) w')
      with (map (fun x : nat * nat * bool => ee (fst (fst x))) w') in Hnd.
    rewrite <- (map_map (fun x : nat * nat * bool => fst (fst x)) ee) in Hnd.
    apply NoDup_map_inv in Hnd. exact Hnd.
  Qed.

  Lemma poly_points_emb w' : (forall s, In s w' -> step_ok M s) ->
    poly_points L (map emb_step w') = poly_points M w'.
  Proof.
    intros Hok. destruct w' as [|a r]; [reflexivity|].
    unfold poly_points. change (map emb_step (a :: r)) with (emb_step a :: map emb_step r). cbv beta iota.
    change (emb_step a :: map emb_step r) with (map emb_step (a :: r)).
    rewrite (map_dvec_emb _ Hok). f_equal. unfold emb_step. cbn [fst snd].
    destruct (Hok a (or_introl eq_refl)) as [Hv Ht]. rewrite Ht. symmetry. apply Hpos, dtail_lt; assumption.
  Qed.

  (* ---------------------------------------------------------------- (4) the walk is listed, up to rotation *)
  Lemma persist_walk w :
    orbit_walk L w -> walk_valid L w = true -> (forall e, In e (walk_edges w) -> keptb e = true) ->
    exists fs' f k,
      all_faces M = Some fs' /\ In f fs' /\ orbit_walk M (f_walk f) /\ walk_valid M (f_walk f) = true /\
      k < length (f_walk f) /\ map emb_step (rotk k (f_walk f)) = w /\
      map (dvec M) (rotk k (f_walk f)) = map (dvec L) w /\
      poly_points M (rotk k (f_walk f)) = poly_points L w.
  Proof.
    intros HO Hv Hk.
    set (w' := map pull_step w).
    assert (Hpe : forall s, In s w -> step_ok M (pull_step s) /\ emb_step (pull_step s) = s).
    { intros s Hs. apply pull_emb; [apply (ow_ok _ _ HO), Hs|]. apply Hk. unfold walk_edges.
      exact (in_map (fun x : nat * nat * bool => fst (fst x)) w s Hs). }
    assert (Hw : map emb_step w' = w).
    { unfold w'. rewrite map_map. rewrite <- (map_id w) at 2. apply map_ext_in. intros s Hs. apply Hpe, Hs. }
    assert (Hok : forall s, In s w' -> step_ok M s).
    { intros s Hs. apply in_map_iff in Hs as (s0 & <- & Hs0). apply Hpe, Hs0. }
    assert (HO' : orbit_walk M w') by (apply orbit_pull; [exact Hok|rewrite Hw; exact HO]).
    assert (Hv' : walk_valid M w' = true) by (apply walk_valid_pull; [exact Hok|rewrite Hw; exact Hv]).
    destruct (all_faces_spec M HGM) as (fs' & E & Hf & _ & Hall).
    assert (Hhd : In (hd dflt w') w').
    { destruct w' as [|a r]; [exfalso; apply (ow_ne _ _ HO'); reflexivity|left; reflexivity]. }
    pose proof (proj1 (Hall (sdart (hd dflt w'))) (proj1 (Hok _ Hhd))) as Hin.
    unfold face_darts in Hin. apply in_flat_map in Hin as (wf & Hwf & Hin).
    apply in_map_iff in Hwf as (f & <- & Hfin). rewrite walk_darts_sdart in Hin.
    destruct (Hf f Hfin) as [HOf _].
    destruct (orbit_rotation M w' (f_walk f) HO' HOf Hin) as (k & Hklt & Hrot).
    exists fs', f, k. split; [exact E|]. split; [exact Hfin|]. split; [exact HOf|].
    split; [rewrite <- (walk_valid_rotk M k), Hrot; exact Hv'|]. split; [exact Hklt|].
    rewrite Hrot. split; [exact Hw|]. rewrite <- Hw.
    split; [symmetry; apply map_dvec_emb, Hok|symmetry; apply poly_points_emb, Hok].
  Qed.
End Embed.

(* ================================================================== plaquette level *)
(* "p persists as p'": the directed-edge cycle of p' rotated left by k places is the cycle of p with every
   edge id renamed by re and every vertex by rv; same directions, same directed edge vectors (in the same
   cyclic order), same number of sides, same winding number, same twice-the-signed-area; the centroid
   numerators differ by 3 * area2 * (scale * t) for an integer vector t, i.e. the centre
   p_cnum / (3 * p_area2) moves by the lattice translation scale * t (the periodic image in which the
   polygon is drawn depends on the vertex the walk starts from; t = 0 when k = 0) *)
Definition persists_as (L M : lattice) (re rv : nat -> nat) (p p' : plaquette) (k : nat) : Prop :=
  k < n_sides p' /\
  rotk k (p_edges p') = map re (p_edges p) /\
  rotk k (p_verts p') = map rv (p_verts p) /\
  rotk k (p_dirs p') = p_dirs p /\
  rotk k (plaq_vectors M p') = plaq_vectors L p /\
  n_sides p' = n_sides p /\ p_winding p' = p_winding p /\
  p_area2 p' = p_area2 p /\
  exists t : vec, p_cnum p = vadd (p_cnum p') (vscale (3 * p_area2 p' * scale L) t).

Lemma walk_edges_emb ee ev w : walk_edges (map (emb_step ee ev) w) = map ee (walk_edges w).
Proof. unfold walk_edges. rewrite !map_map. reflexivity. Qed.
Lemma walk_verts_emb ee ev w : walk_verts (map (emb_step ee ev) w) = map ev (walk_verts w).
Proof. unfold walk_verts. rewrite !map_map. reflexivity. Qed.
Lemma walk_dirs_emb ee ev w : walk_dirs (map (emb_step ee ev) w) = walk_dirs w.
Proof. unfold walk_dirs. rewrite !map_map. reflexivity. Qed.

Lemma map_cancel (g h : nat -> nat) l : (forall i, In i l -> h (g i) = i) -> map h (map g l) = l.
Proof.
  intros H. rewrite map_map. rewrite <- (map_id l) at 2. apply map_ext_in. exact H.
Qed.

Lemma good_sub L kv ke : good L -> valid_sub L kv ke -> good (sub_lattice L kv ke).
Proof.
  intros [Hwf Hnl] Hval. split; [apply wf_sub; assumption|].
  pose proof Hval as (Hnv & Hne & Hv & He).
  unfold no_self_loops, sub_lattice. cbn [edges]. apply forallb_forall. intros e Hin.
  apply in_map_iff in Hin as (e0 & <- & He0). cbn [fst snd].
  destruct (He e0 He0) as (Hlt & Hj & Hk).
  destruct (edge_at L e0) as [j k] eqn:E. cbn [fst snd] in *.
  destruct (good_edge L e0 j k (conj Hwf Hnl) Hlt E) as (_ & _ & Hne').
  apply negb_true_iff, Nat.eqb_neq. intros Er. apply Hne'.
  rewrite <- (nth_rank kv j Hj), <- (nth_rank kv k Hk), Er. reflexivity.
Qed.

(* the general statement: sub-lattice on any duplicate-free vertex list kv and any ASCENDING edge list ke *)
Theorem plaquette_persists_sub L kv ke ps p :
  good L -> no_zero_vectors L = true -> valid_sub L kv ke -> StronglySorted lt ke ->
  find_all_plaquettes L = Some ps -> In p ps -> (forall e, In e (p_edges p) -> In e ke) ->
  exists ps' p' k,
    find_all_plaquettes (sub_lattice L kv ke) = Some ps' /\ In p' ps' /\
    persists_as L (sub_lattice L kv ke) (rank ke) (rank kv) p p' k.
Proof.
  intros HG Hnz Hval Hsort Hps Hp Hke.
  destruct (plaquettes_spec L HG) as (fs & E & Hfind & _ & Hiff).
  rewrite Hfind in Hps. injection Hps as <-.
  apply Hiff in Hp as (f & Hf & Hv & ->).
  destruct (all_faces_spec L HG) as (fs0 & E0 & Hfs & _ & _). rewrite E in E0. injection E0 as <-.
  destruct (Hfs f Hf) as [HO _]. set (w := f_walk f) in *.
  set (M := sub_lattice L kv ke).
  set (ee := fun i => nth i ke 0). set (ev := fun v => nth v kv 0).
  pose proof Hval as (Hnv & Hne & Hvlt & He).
  assert (HGM : good M) by (apply good_sub; assumption).
  assert (HnE : nE M = length ke) by apply nE_sub.
  assert (HnV : nV M = length kv) by apply nV_sub.
  assert (Hkes : map ee (seq 0 (nE M)) = ke) by (rewrite HnE; apply map_nth_seq).
  destruct (persist_walk L M ee ev (rank ke) (rank kv) HG HGM (no_zero_vectors_spec L Hnz)) with (w := w)
    as (fs' & f' & k & E' & Hf' & HO' & Hv' & Hk & Hrot & Hdv & Hpp).
  - intros i j Hij Hj. rewrite HnE in Hj. apply nth_sorted_mono; [exact Hsort|exact Hij|exact Hj].
  - intros i Hi. rewrite HnE in Hi. apply He, nth_In, Hi.
  - intros i Hi. rewrite HnE in Hi. apply rank_nth; [exact Hne|exact Hi].
  - intros v Hv0. rewrite HnV in Hv0. apply rank_nth; [exact Hnv|exact Hv0].
  - intros i Hi. rewrite HnE in Hi. unfold M. rewrite (edge_at_sub L kv ke i Hi). cbn [fst snd]. unfold ev, ee.
    destruct (He (nth i ke 0) (nth_In _ _ Hi)) as (_ & Hj & Hk).
    rewrite !nth_rank by assumption. destruct (edge_at L (nth i ke 0)); reflexivity.
  - intros i Hi. rewrite HnE in Hi. apply cross_at_sub, Hi.
  - intros v Hv0. rewrite HnV in Hv0. apply pos_at_sub, Hv0.
  - reflexivity.
  - exact HO.
  - exact Hv.
  - intros e Hin. unfold keptb, kes. rewrite Hkes. apply memb_In, Hke. exact Hin.
  - destruct (plaquettes_spec M HGM) as (fs'' & E'' & Hfind' & _ & Hiff').
    rewrite E' in E''. injection E'' as <-.
    exists (plaq_of_faces M fs'), (mk_plaquette M (f_walk f')), k.
    split; [exact Hfind'|]. split; [apply Hiff'; exists f'; auto|].
    set (wf := f_walk f') in *.
    assert (Hoks : forall s, In s wf -> fst (fst s) < length ke /\ snd (fst s) < length kv).
    { intros s Hs. destruct (ow_ok _ _ HO' s Hs) as [Hvd Ht]. split.
      - rewrite <- HnE. exact Hvd.
      - rewrite Ht, <- HnV. apply dtail_lt; assumption. }
    unfold persists_as. rewrite !plaq_vectors_mk.
    unfold n_sides, mk_plaquette. cbn [p_edges p_verts p_dirs p_winding].
    assert (Hlen : length (walk_edges wf) = length wf) by (unfold walk_edges; apply map_length).
    assert (HE : walk_edges w = map ee (rotk k (walk_edges wf))).
    { rewrite <- Hrot, walk_edges_emb. unfold walk_edges. rewrite map_rotk. reflexivity. }
    assert (HV : walk_verts w = map ev (rotk k (walk_verts wf))).
    { rewrite <- Hrot, walk_verts_emb. unfold walk_verts. rewrite map_rotk. reflexivity. }
    assert (HD : walk_dirs w = rotk k (walk_dirs wf)).
    { rewrite <- Hrot, walk_dirs_emb. unfold walk_dirs. rewrite map_rotk. reflexivity. }
    split; [rewrite Hlen; exact Hk|].
    destruct (geometry_rotk M k wf HGM HO' Hv') as (HA & t & HC). rewrite Hpp in HA, HC.
    split; [|split; [|split; [symmetry; exact HD|split; [rewrite <- map_rotk; exact Hdv|split; [|split; [|split]]]]]].
    + rewrite HE. symmetry. apply map_cancel. intros i Hi. apply (Permutation_in _ (rotk_perm k _)) in Hi.
      unfold walk_edges in Hi. apply in_map_iff in Hi as (s & <- & Hs).
      apply rank_nth; [exact Hne|apply (Hoks s Hs)].
    + rewrite HV. symmetry. apply map_cancel. intros i Hi. apply (Permutation_in _ (rotk_perm k _)) in Hi.
      unfold walk_verts in Hi. apply in_map_iff in Hi as (s & <- & Hs).
      apply rank_nth; [exact Hnv|apply (Hoks s Hs)].
    + rewrite HE, map_length, rotk_length. reflexivity.
    + unfold walk_valid in Hv, Hv'. apply andb_prop in Hv as [_ Hv]. apply andb_prop in Hv' as [_ Hv'].
      apply Z.eqb_eq in Hv. apply Z.eqb_eq in Hv'. rewrite Hv, Hv'. reflexivity.
    + symmetry. exact HA.
    + exists t. exact HC.
Qed.

(* ------------------------------------------------------------------ what a listed plaquette is *)
Lemma plaquette_walk L ps p : good L -> find_all_plaquettes L = Some ps -> In p ps ->
  exists w, p = mk_plaquette L w /\ orbit_walk L w /\ walk_valid L w = true.
Proof.
  intros HG Hps Hp. destruct (plaquettes_spec L HG) as (fs & E & Hfind & _ & Hiff).
  rewrite Hfind in Hps. injection Hps as <-. apply Hiff in Hp as (f & Hf & Hv & ->).
  destruct (all_faces_spec L HG) as (fs0 & E0 & Hfs & _ & _). rewrite E in E0. injection E0 as <-.
  exists (f_walk f). split; [reflexivity|]. split; [apply Hfs, Hf|exact Hv].
Qed.

Lemma plaquette_edges_lt L ps p : good L -> find_all_plaquettes L = Some ps -> In p ps ->
  forall e, In e (p_edges p) -> e < nE L.
Proof.
  intros HG Hps Hp e He. destruct (plaquette_walk L ps p HG Hps Hp) as (w & -> & HO & _).
  cbn [mk_plaquette p_edges] in He. unfold walk_edges in He. apply in_map_iff in He as (s & <- & Hs).
  apply (ow_ok _ _ HO s Hs).
Qed.

Lemma plaquette_verts_lt L ps p : good L -> find_all_plaquettes L = Some ps -> In p ps ->
  forall v, In v (p_verts p) -> v < nV L.
Proof.
  intros HG Hps Hp v Hv. destruct (plaquette_walk L ps p HG Hps Hp) as (w & -> & HO & _).
  cbn [mk_plaquette p_verts] in Hv. unfold walk_verts in Hv. apply in_map_iff in Hv as (s & <- & Hs).
  destruct (ow_ok _ _ HO s Hs) as [Hd Ht]. rewrite Ht. apply dtail_lt; assumption.
Qed.

Lemma persists_as_ext L M re rv rv' p p' k :
  (forall v, In v (p_verts p) -> rv v = rv' v) ->
  persists_as L M re rv p p' k -> persists_as L M re rv' p p' k.
Proof.
  intros Hext (H1 & H2 & H3 & H4). split; [exact H1|]. split; [exact H2|]. split; [|exact H4].
  rewrite H3. apply map_ext_in. exact Hext.
Qed.

(* ------------------------------------------------------------------ select_edges (fancy indexing edges[idx]) *)
Lemma select_as_sub L idx : wf_lattice L = true -> (forall e, In e idx -> e < nE L) ->
  select_edges L idx = sub_lattice L (seq 0 (nV L)) idx.
Proof.
  intros Hwf Hidx. unfold select_edges, sub_lattice. f_equal.
  - symmetry. apply map_nth_seq.
  - apply map_ext_in. intros e He. destruct (wf_edge_at L e Hwf (Hidx e He)) as [Hj Hk].
    pose proof (rank_seq (nV L) _ Hj 0) as R1. pose proof (rank_seq (nV L) _ Hk 0) as R2.
    cbn [Nat.add] in R1, R2. rewrite R1, R2. destruct (edge_at L e); reflexivity.
Qed.

Lemma valid_sub_select L idx : wf_lattice L = true -> NoDup idx -> (forall e, In e idx -> e < nE L) ->
  valid_sub L (seq 0 (nV L)) idx.
Proof.
  intros Hwf Hnd Hidx. split; [apply seq_NoDup|]. split; [exact Hnd|]. split.
  - intros v Hv. apply in_seq in Hv. lia.
  - intros e He. pose proof (Hidx e He) as Hlt. destruct (wf_edge_at L e Hwf Hlt) as [Hj Hk].
    split; [exact Hlt|]. split; apply in_seq; lia.
Qed.

(* C12, persistence for L' = Lattice(vertices, edges[idx], crossing[idx]) with idx ascending: positions
   unchanged, vertices not renumbered, edge e becomes its rank in idx *)
Theorem plaquette_persists_select L idx ps p :
  good L -> no_zero_vectors L = true -> StronglySorted lt idx -> (forall e, In e idx -> e < nE L) ->
  find_all_plaquettes L = Some ps -> In p ps -> (forall e, In e (p_edges p) -> In e idx) ->
  exists ps' p' k,
    find_all_plaquettes (select_edges L idx) = Some ps' /\ In p' ps' /\
    persists_as L (select_edges L idx) (rank idx) (fun v => v) p p' k.
Proof.
  intros HG Hnz Hs Hidx Hps Hp Hke. pose proof (proj1 HG) as Hwf.
  rewrite (select_as_sub L idx Hwf Hidx).
  destruct (plaquette_persists_sub L (seq 0 (nV L)) idx ps p HG Hnz
              (valid_sub_select L idx Hwf (SS_lt_NoDup idx Hs) Hidx) Hs Hps Hp Hke) as (ps' & p' & k & H1 & H2 & H3).
  exists ps', p', k. split; [exact H1|]. split; [exact H2|].
  eapply persists_as_ext; [|exact H3]. intros v Hv. cbv beta.
  apply (rank_seq (nV L) v (plaquette_verts_lt L ps p HG Hps Hp v Hv) 0).
Qed.

(* C12, persistence under cut_boundaries: a plaquette none of whose edges crosses a selected boundary *)
Theorem plaquette_persists_cut L bx by_ ps p :
  good L -> no_zero_vectors L = true -> find_all_plaquettes L = Some ps -> In p ps ->
  (forall e, In e (p_edges p) -> crosses_selected bx by_ (cross_at L e) = false) ->
  exists ps' p' k,
    find_all_plaquettes (cut_boundaries L bx by_) = Some ps' /\ In p' ps' /\
    persists_as L (cut_boundaries L bx by_) (rank (cut_kept L bx by_)) (fun v => v) p p' k.
Proof.
  intros HG Hnz Hps Hp Hc. unfold cut_boundaries. rewrite internal_edge_ind_spec.
  apply (plaquette_persists_select L (cut_kept L bx by_) ps p HG Hnz); try assumption.
  - apply filter_seq_sorted.
  - intros e He. apply cut_kept_In in He. apply He.
  - intros e He. apply cut_kept_In. split; [apply (plaquette_edges_lt L ps p HG Hps Hp e He)|apply Hc, He].
Qed.

(* C12, persistence under remove_vertices: a plaquette none of whose edges is reported as removed.
   Edge e becomes its rank among the kept edges, vertex v its rank among the kept vertices. *)
Theorem plaquette_persists_remove_vertices L idx L' rep ps p :
  good L -> no_zero_vectors L = true -> Forall (fun i => i < nV L) idx ->
  remove_vertices L idx = Some (L', rep) ->
  find_all_plaquettes L = Some ps -> In p ps -> (forall e, In e (p_edges p) -> ~ In e rep) ->
  exists ps' p' k,
    find_all_plaquettes L' = Some ps' /\ In p' ps' /\
    persists_as L L' (rank (kept_edges L idx)) (rank (kept_vertices L idx)) p p' k.
Proof.
  intros HG Hnz Hidx Hrm Hps Hp Hrep. pose proof (proj1 HG) as Hwf.
  destruct (remove_vertices_spec L idx Hwf Hidx) as (rep0 & E & Hrep0). rewrite Hrm in E.
  injection E as -> <-.
  apply (plaquette_persists_sub L _ _ ps p HG Hnz (valid_sub_removed L idx Hwf)); try assumption.
  - rewrite kept_edges_eq. apply filter_seq_sorted.
  - intros e He. pose proof (plaquette_edges_lt L ps p HG Hps Hp e He) as Hlt.
    rewrite kept_edges_eq. apply filter_In. split; [apply in_seq; lia|].
    destruct (both_ends L (keepf idx) e) eqn:Eb; [reflexivity|]. exfalso.
    apply (Hrep e He). apply Hrep0. split; [exact Hlt|exact Eb].
Qed.

(* ------------------------------------------------------------------ remove_trailing_edges *)
(* the edges of a plaquette form a set without degree-one vertex, so none of them is ever pruned *)
Lemma NoDup_map_inj_in {A B} (f : A -> B) l x y :
  NoDup (map f l) -> In x l -> In y l -> f x = f y -> x = y.
Proof.
  induction l as [|a l IH]; [intros _ []|]. cbn [map]. intros Hnd Hx Hy E.
  apply NoDup_cons_iff in Hnd as [Hna Hnd].
  destruct Hx as [->|Hx], Hy as [->|Hy]; auto.
  - exfalso. apply Hna. rewrite E. apply in_map, Hy.
  - exfalso. apply Hna. rewrite <- E. apply in_map, Hx.
Qed.

Lemma nd_no_fix L d : good L -> valid_dart L d -> nd L d <> Some d.
Proof.
  intros HG Hd H. destruct (nd_valid L d d HG Hd H) as [_ Ht].
  unfold dtail, dhead in Ht. destruct (edge_at L (fst d)) as [j k] eqn:E.
  destruct (good_edge L _ j k HG Hd E) as (_ & _ & Hne). destruct (snd d); congruence.
Qed.

Lemma orbit_pred L w s : orbit_walk L w -> In s w ->
  exists s', In s' w /\ nd L (sdart s') = Some (sdart s).
Proof.
  intros HO Hs. apply in_split in Hs as (l1 & l2 & E).
  destruct l1 as [|x l1x].
  - exists (last w dflt). split.
    + rewrite (app_removelast_last dflt (ow_ne _ _ HO)) at 2. apply in_or_app. right. left. reflexivity.
    + pose proof (ow_close _ _ HO) as Hc. rewrite E in Hc at 2. exact Hc.
  - destruct (@exists_last _ (x :: l1x)) as (l1' & s' & El); [discriminate|]. rewrite El in E. clear El.
    exists s'. split; [rewrite E; apply in_or_app; left; apply in_or_app; right; left; reflexivity|].
    pose proof (ow_chain _ _ HO) as Hc. rewrite E, <- app_assoc in Hc. apply chain_app_r in Hc.
    exact (proj1 Hc).
Qed.

Lemma incident_cases L v e d : incident_b L v e = true -> v = dtail L (e, d) \/ v = dhead L (e, d).
Proof.
  unfold incident_b, dtail, dhead. cbn [fst snd]. destruct (edge_at L e) as [j k].
  rewrite orb_true_iff, !Nat.eqb_eq. destruct d; intuition.
Qed.

Lemma cycle_no_degree_one L w : good L -> orbit_walk L w -> NoDup (walk_edges w) ->
  no_degree_one L (fun e => memb e (walk_edges w)).
Proof.
  intros HG HO Hnd v Hdeg. unfold deg_in in Hdeg. apply length_one_inv in Hdeg as (e & Hl).
  assert (Hin : forall x, In x (walk_edges w) -> x < nE L -> incident_b L v x = true -> x = e).
  { intros x Hx Hlt Hi.
    assert (Hf : In x (filter (fun e0 => memb e0 (walk_edges w) && incident_b L v e0) (seq 0 (nE L)))).
    { apply filter_In. split; [apply in_seq; lia|]. rewrite Hi, andb_true_r. apply memb_In, Hx. }
    rewrite Hl in Hf. destruct Hf as [<-|[]]. reflexivity. }
  assert (He : In e (filter (fun e0 => memb e0 (walk_edges w) && incident_b L v e0) (seq 0 (nE L))))
    by (rewrite Hl; left; reflexivity).
  apply filter_In in He as [_ He]. apply andb_prop in He as [Hm Hi]. apply memb_In in Hm.
  unfold walk_edges in Hm. apply in_map_iff in Hm as (s & Es & Hs).
  assert (Hsame : forall s', In s' w -> incident_b L v (fst (fst s')) = true -> s' = s).
  { intros s' Hs' Hi'. apply (NoDup_map_inj_in (fun x : nat * nat * bool => fst (fst x)) w); [exact Hnd|exact Hs'|exact Hs|].
    rewrite Es. apply Hin; [unfold walk_edges; exact (in_map (fun x : nat * nat * bool => fst (fst x)) w s' Hs')| |exact Hi'].
    apply (ow_ok _ _ HO s' Hs'). }
  pose proof (proj1 (ow_ok _ _ HO s Hs)) as Hvs.
  apply (nd_no_fix L (sdart s) HG Hvs).
  destruct (incident_cases L v e (snd s) Hi) as [Hv|Hv].
  - destruct (orbit_pred L w s HO Hs) as (s' & Hs' & Hn).
    destruct (nd_valid L _ _ HG (proj1 (ow_ok _ _ HO s' Hs')) Hn) as [_ Ht].
    assert (s' = s).
    { apply Hsame; [exact Hs'|]. replace v with (dhead L (sdart s')).
      - apply (incident_head L (sdart s')), (ow_ok _ _ HO s' Hs').
      - rewrite <- Ht, Hv. unfold sdart. rewrite Es. reflexivity. }
    subst s'. exact Hn.
  - destruct (nd_total L (sdart s) HG Hvs) as (y & Hn).
    pose proof (orbit_closed L w _ y HO (in_map sdart w s Hs) Hn) as Hy.
    apply in_map_iff in Hy as (s'' & Ey & Hs'').
    destruct (nd_valid L _ _ HG Hvs Hn) as [_ Ht].
    assert (s'' = s).
    { apply Hsame; [exact Hs''|]. replace v with (dtail L (sdart s'')).
      - apply (incident_tail L (sdart s'')), (ow_ok _ _ HO s'' Hs'').
      - rewrite Ey, Ht, Hv. unfold sdart. rewrite Es. reflexivity. }
    subst s''. rewrite <- Ey in Hn. exact Hn.
Qed.

(* C12, persistence under remove_trailing_edges: EVERY plaquette of the input survives — none of its edges
   is removed (they form a set without degree-one vertex) and it is a plaquette of the pruned lattice *)
Theorem plaquette_persists_trailing L ps p :
  good L -> no_zero_vectors L = true -> find_all_plaquettes L = Some ps -> In p ps ->
  exists kv ke ps' p' k,
    remove_trailing_edges L = TrailDone (sub_lattice L kv ke) /\ trailing_survivors L = Some (kv, ke) /\
    (forall e, In e (p_edges p) -> In e ke) /\
    find_all_plaquettes (sub_lattice L kv ke) = Some ps' /\ In p' ps' /\
    persists_as L (sub_lattice L kv ke) (rank ke) (rank kv) p p' k.
Proof.
  intros HG Hnz Hps Hp. pose proof (proj1 HG) as Hwf.
  destruct (trailing_spec L Hwf) as (kv & ke & Hrt & Hsv & Hval & _ & Hske & _ & _ & Hmax).
  assert (Hke : forall e, In e (p_edges p) -> In e ke).
  { destruct (plaquette_walk L ps p HG Hps Hp) as (w & Ep & HO & Hv).
    intros e He. apply (Hmax (fun e0 => memb e0 (p_edges p))); [|apply memb_In, He].
    split.
    - intros e0 H0. apply memb_In in H0. apply (plaquette_edges_lt L ps p HG Hps Hp e0 H0).
    - rewrite Ep. cbn [mk_plaquette p_edges]. apply cycle_no_degree_one; [exact HG|exact HO|].
      unfold walk_valid in Hv. apply andb_prop in Hv as [Hv _]. apply andb_prop in Hv as [Hv _].
      apply nodupb_NoDup, Hv. }
  destruct (plaquette_persists_sub L kv ke ps p HG Hnz Hval Hske Hps Hp Hke) as (ps' & p' & k & H1 & H2 & H3).
  exists kv, ke, ps', p', k. auto 10.
Qed.
