(* Proofs/PredicateStable.v — the derived combinatorics of a lattice (rotation system, face walks, plaquette
   list, adjacency tables) are unchanged when the vertices are moved, as long as no geometric predicate the
   code branches on changes its verdict.  (C09 "identical plaquettes and adjacency tables" after the float32
   rounding of the positions.)  Definitions in PredicateStableDefs.v. *)
From Coq Require Import List ZArith Bool Arith Lia Permutation.
From Koala Require Import Model.Lattice Proofs.LatticeFacts Proofs.PredicateStableDefs.
Import ListNotations.
Open Scope nat_scope.

(* ------------------------------------------------------------------ insertion sort sees its keys only through
   the comparator's verdicts *)
Lemma insert_desc_In' key x l y : In y (insert_desc key x l) -> y = x \/ In y l.
Proof.
  intro H. apply (Permutation_in _ (insert_desc_perm key x l)) in H.
  destruct H as [<-|H]; [left; reflexivity | right; exact H].
Qed.

Lemma insert_desc_cmp key key' x l :
  (forall y, In y l -> ang_lt (key y) (key x) = ang_lt (key' y) (key' x)) ->
  insert_desc key x l = insert_desc key' x l.
Proof.
  induction l as [|z l IH]; intro H; [reflexivity|]. cbn [insert_desc].
  rewrite (H z (or_introl eq_refl)). destruct (ang_lt (key' z) (key' x)); [reflexivity|].
  rewrite IH; [reflexivity|]. intros y Hy. apply H. right. exact Hy.
Qed.

Lemma fold_insert_desc_cmp key key' l : forall acc,
  (forall x y, In x (acc ++ l) -> In y (acc ++ l) -> ang_lt (key y) (key x) = ang_lt (key' y) (key' x)) ->
  fold_left (fun a x => insert_desc key x a) l acc = fold_left (fun a x => insert_desc key' x a) l acc.
Proof.
  induction l as [|x l IH]; intros acc H; [reflexivity|].
  cbn [fold_left].
  rewrite (insert_desc_cmp key key' x acc).
  - apply IH.
    assert (Hin : forall y, In y (insert_desc key' x acc ++ l) -> In y (acc ++ x :: l)).
    { intros y Hy. apply in_app_or in Hy. apply in_or_app. destruct Hy as [Hy|Hy].
      - apply insert_desc_In' in Hy. destruct Hy as [->|Hy]; [right; left; reflexivity | left; exact Hy].
      - right. right. exact Hy. }
    intros a b Ha Hb. apply H; apply Hin; assumption.
  - intros y Hy. apply H; apply in_or_app; [right; left; reflexivity | left; exact Hy].
Qed.

(* sort_stable_under_comparator *)
Lemma sort_desc_cmp key key' l :
  (forall x y, In x l -> In y l -> ang_lt (key y) (key x) = ang_lt (key' y) (key' x)) ->
  sort_desc key l = sort_desc key' l.
Proof. intro H. unfold sort_desc. apply fold_insert_desc_cmp. exact H. Qed.

(* ------------------------------------------------------------------ generic list lemmas *)
Lemma fold_left_proj {A B S} (g : A -> B) (F : S -> B -> S) : forall l l' s,
  map g l = map g l' ->
  fold_left (fun s x => F s (g x)) l s = fold_left (fun s x => F s (g x)) l' s.
Proof.
  induction l as [|a l IH]; intros [|a' l'] s H; try discriminate; [reflexivity|].
  cbn [map] in H. injection H as Ha Hl. cbn [fold_left]. rewrite Ha. apply IH. exact Hl.
Qed.

Lemma map_combine_proj {A B C N} (g : A -> B) (F : N -> B -> C) : forall l l' (ns : list N),
  map g l = map g l' ->
  map (fun np => F (fst np) (g (snd np))) (combine ns l) = map (fun np => F (fst np) (g (snd np))) (combine ns l').
Proof.
  induction l as [|a l IH]; intros [|a' l'] ns H; try discriminate; [reflexivity|].
  cbn [map] in H. injection H as Ha Hl. destruct ns as [|n ns]; [reflexivity|].
  cbn [combine map fst snd]. rewrite Ha. f_equal. apply IH. exact Hl.
Qed.

Lemma list_eqb_Z_eq l l' : list_eqb Z.eqb l l' = true -> l = l'.
Proof.
  revert l'. induction l as [|x l IH]; intros [|y l'] H; try discriminate; [reflexivity|].
  cbn [list_eqb] in H. apply andb_prop in H as [Hx Hl]. apply Z.eqb_eq in Hx. subst y. f_equal. apply IH. exact Hl.
Qed.

(* ------------------------------------------------------------------ two embeddings of one graph *)
Section TwoEmbeddings.
  Variables L L' : lattice.
  Hypothesis HC : same_connectivity L L'.

  Let He : edges L = edges L'. Proof. exact (proj1 HC). Qed.
  Let Hc : crossing L = crossing L'. Proof. exact (proj1 (proj2 HC)). Qed.
  Let Hn : nV L = nV L'. Proof. exact (proj2 (proj2 HC)). Qed.

  Lemma sc_nE : nE L = nE L'.
  Proof. unfold nE. rewrite He. reflexivity. Qed.
  Lemma sc_edge_at e : edge_at L e = edge_at L' e.
  Proof. unfold edge_at. rewrite He. reflexivity. Qed.
  Lemma sc_cross_at e : cross_at L e = cross_at L' e.
  Proof. unfold cross_at. rewrite Hc. reflexivity. Qed.

  Lemma sc_incident v : incident L v = incident L' v.
  Proof.
    unfold incident. rewrite sc_nE. apply filter_ext. intro e. unfold incident_b. rewrite sc_edge_at. reflexivity.
  Qed.

  (* ---- everything that never looks at a position ---- *)
  Lemma sc_count_ends v : count_ends L v = count_ends L' v.
  Proof. unfold count_ends. rewrite He. reflexivity. Qed.
  Lemma sc_coordination : coordination L = coordination L'.
  Proof. unfold coordination. rewrite Hn. apply map_ext. exact sc_count_ends. Qed.
  Lemma sc_coordination_bincount : coordination_bincount L = coordination_bincount L'.
  Proof.
    assert (Hm : max_index L = max_index L') by (unfold max_index; rewrite He; reflexivity).
    unfold coordination_bincount. rewrite Hm.
    destruct (max_index L'); [|reflexivity]. apply map_ext. exact sc_count_ends.
  Qed.
  Lemma sc_max_coord : max_coord L = max_coord L'.
  Proof. unfold max_coord. rewrite sc_coordination_bincount. reflexivity. Qed.
  Lemma sc_edge_neighbours : map (edge_neighbours L) (seq 0 (nE L)) = map (edge_neighbours L') (seq 0 (nE L')).
  Proof.
    rewrite sc_nE. apply map_ext. intro e. unfold edge_neighbours. rewrite sc_nE. apply filter_ext. intro f.
    rewrite !sc_edge_at. reflexivity.
  Qed.
  Lemma sc_adjacency_true i j : adjacency_true L i j = adjacency_true L' i j.
  Proof. unfold adjacency_true. rewrite He. reflexivity. Qed.
  Lemma sc_adjacency_table : adjacency_table L = adjacency_table L'.
  Proof.
    unfold adjacency_table. rewrite Hn. apply map_ext. intro i. apply map_ext. intro j. apply sc_adjacency_true.
  Qed.

  Lemma sc_step_walk adj ce cv : step_walk L adj ce cv = step_walk L' adj ce cv.
  Proof.
    unfold step_walk, other_end. rewrite sc_edge_at.
    destruct (succ_in _ ce) as [f|]; [|reflexivity]. rewrite sc_edge_at. reflexivity.
  Qed.
  Lemma sc_dtail d : dtail L d = dtail L' d.
  Proof. unfold dtail. rewrite sc_edge_at. reflexivity. Qed.
  Lemma sc_next_dart adj d : next_dart L adj d = next_dart L' adj d.
  Proof. unfold next_dart. rewrite sc_step_walk, sc_dtail. reflexivity. Qed.

  Lemma sc_trace_loop adj se sd fuel : forall ce cv acc,
    trace_loop fuel L adj se sd ce cv acc = trace_loop fuel L' adj se sd ce cv acc.
  Proof.
    induction fuel as [|fuel IH]; intros ce cv acc; [reflexivity|].
    cbn [trace_loop]. rewrite sc_step_walk.
    destruct (step_walk L' adj ce cv) as [[[v f] b]|]; [|reflexivity].
    destruct ((f =? se) && eqb b sd); [reflexivity|].
    destruct (existsb _ _); [reflexivity|]. apply IH.
  Qed.
  Lemma sc_trace adj se sd : trace L adj se sd = trace L' adj se sd.
  Proof. unfold trace. rewrite sc_nE, sc_edge_at. apply sc_trace_loop. Qed.

  Lemma sc_all_darts : all_darts L = all_darts L'.
  Proof. unfold all_darts. rewrite sc_nE. reflexivity. Qed.

  Lemma sc_net_crossing w : net_crossing L w = net_crossing L' w.
  Proof.
    unfold net_crossing. f_equal. apply map_ext. intro s. unfold dcross. rewrite sc_cross_at. reflexivity.
  Qed.

  (* ---- the plaquette tables are functions of the projected plaquettes ---- *)
  Lemma sc_edges_plaquettes ps ps' : map pproj ps = map pproj ps' ->
    edges_plaquettes L ps = edges_plaquettes L' ps'.
  Proof.
    intro H. unfold edges_plaquettes. rewrite sc_nE. f_equal.
    exact (fold_left_proj pproj
             (fun (st : list ep_row * nat) (q : pidx) =>
                (fold_left (ep_write (snd st)) (combine (snd (fst q)) (snd q)) (fst st), S (snd st)))
             ps ps' _ H).
  Qed.

  Lemma sc_vertices_plaquettes ps ps' : map pproj ps = map pproj ps' ->
    vertices_plaquettes L ps = vertices_plaquettes L' ps'.
  Proof.
    intro H. unfold vertices_plaquettes. rewrite sc_max_coord, Hn. f_equal.
    exact (fold_left_proj pproj
             (fun (st : option (list (list (option nat))) * nat) (q : pidx) =>
                (fold_left (vp_write (snd st)) (dedup (fst (fst q))) (fst st), S (snd st)))
             ps ps' _ H).
  Qed.

  Lemma sc_all_plaquette_neighbours ps ps' : map pproj ps = map pproj ps' ->
    all_plaquette_neighbours L ps = all_plaquette_neighbours L' ps'.
  Proof.
    intro H. unfold all_plaquette_neighbours. rewrite (sc_edges_plaquettes ps ps' H).
    assert (Hlen : length ps = length ps') by (rewrite <- (map_length pproj ps), H; apply map_length).
    rewrite Hlen.
    exact (map_combine_proj pproj
             (fun (n : nat) (q : pidx) =>
                let rows := map (fun e => nth e (edges_plaquettes L' ps') (None, None)) (snd (fst q)) in
                map (fun rc : ep_row * bool => if snd rc then snd (fst rc) else fst (fst rc))
                    (combine rows (roll_vals rows n)))
             ps ps' (seq 0 (length ps')) H).
  Qed.

  (* ---- (1) same comparator verdicts => same rotation system ---- *)
  Section Rot.
    Hypothesis HR : rot_agree L L' = true.

    Lemma rot_agree_spec v e f : v < nV L -> In e (incident L v) -> In f (incident L v) ->
      ang_lt (outvec L v e) (outvec L v f) = ang_lt (outvec L' v e) (outvec L' v f).
    Proof.
      intros Hv Hie Hif. unfold rot_agree in HR. rewrite forallb_forall in HR.
      specialize (HR v (proj2 (in_seq _ _ _) (conj (Nat.le_0_l v) Hv))).
      unfold rot_agree_at in HR. rewrite forallb_forall in HR. specialize (HR e Hie).
      rewrite forallb_forall in HR. specialize (HR f Hif). apply eqb_prop in HR. exact HR.
    Qed.

    Lemma rot_sorted_adj v : v < nV L -> sorted_adj L v = sorted_adj L' v.
    Proof.
      intro Hv. unfold sorted_adj. rewrite <- sc_incident. apply sort_desc_cmp.
      intros x y Hx Hy. apply rot_agree_spec; assumption.
    Qed.

    (* adjacency (rotation) tables coincide *)
    Lemma rot_adj_table : adj_table L = adj_table L'.
    Proof.
      unfold adj_table. rewrite <- Hn. apply map_ext_in. intros v Hv. apply in_seq in Hv.
      apply rot_sorted_adj. lia.
    Qed.

    (* hence the dart successor and every traced walk coincide *)
    Lemma rot_next_dart d : next_dart L (adj_table L) d = next_dart L' (adj_table L') d.
    Proof. rewrite <- rot_adj_table. apply sc_next_dart. Qed.
    Lemma rot_trace se sd : trace L (adj_table L) se sd = trace L' (adj_table L') se sd.
    Proof. rewrite <- rot_adj_table. apply sc_trace. Qed.

    Definition frel (a b : option (list dart * list face)) : Prop :=
      match a, b with
      | Some (v1, f1), Some (v2, f2) => v1 = v2 /\ map f_walk f1 = map f_walk f2
      | None, None => True
      | _, _ => False
      end.

    Lemma rot_faces_fold ds : forall a b, frel a b ->
      frel (fold_left (fun st d => faces_one L (adj_table L) d st) ds a)
           (fold_left (fun st d => faces_one L' (adj_table L') d st) ds b).
    Proof.
      induction ds as [|d ds IH]; intros a b H; [exact H|].
      cbn [fold_left]. apply IH.
      destruct a as [[v1 f1]|]; destruct b as [[v2 f2]|]; cbn [frel] in H; try contradiction; [|exact I].
      destruct H as [<- Hf]. cbn [faces_one].
      destruct (visited v1 d); [split; [reflexivity | exact Hf]|].
      rewrite <- rot_trace.
      destruct (trace L (adj_table L) (fst d) (snd d)) as [w| | |]; try exact I.
      split; [reflexivity|]. cbn [map mk_face f_walk]. rewrite Hf. reflexivity.
    Qed.

    (* all_faces' walks coincide (same walks, same order; one raises iff the other does) *)
    Lemma rot_all_faces : option_map (map f_walk) (all_faces L) = option_map (map f_walk) (all_faces L').
    Proof.
      unfold all_faces. rewrite <- sc_all_darts.
      pose proof (rot_faces_fold (all_darts L) (Some ([], [])) (Some ([], [])) (conj eq_refl eq_refl)) as H.
      destruct (fold_left (fun st d => faces_one L (adj_table L) d st) (all_darts L) (Some ([], []))) as [[v1 f1]|];
        destruct (fold_left (fun st d => faces_one L' (adj_table L') d st) (all_darts L) (Some ([], []))) as [[v2 f2]|];
        cbn [frel] in H; try contradiction; [|reflexivity].
      destruct H as [_ Hf]. cbn [option_map]. rewrite !map_rev, Hf. reflexivity.
    Qed.

    (* ---- (2) same orientation verdict on every face walk => same plaquettes ---- *)
    Section Wind.
      Hypothesis HW : valid_agree L L' = true.

      Lemma pproj_plaq_of_faces M fs :
        map pproj (plaq_of_faces M fs) = map wproj (filter (walk_valid M) (map f_walk fs)).
      Proof. unfold plaq_of_faces. rewrite map_map. reflexivity. Qed.

      Lemma plaquettes_stable :
        option_map (map pproj) (find_all_plaquettes L) = option_map (map pproj) (find_all_plaquettes L').
      Proof.
        rewrite !plaquettes_are_valid_faces.
        pose proof rot_all_faces as HF. unfold valid_agree in HW.
        destruct (all_faces L) as [fs|]; destruct (all_faces L') as [fs'|]; cbn [option_map] in *;
          try discriminate; [|reflexivity].
        injection HF as HF. f_equal. rewrite !pproj_plaq_of_faces, <- HF. f_equal.
        apply filter_ext_in. intros w Hw. apply in_map_iff in Hw as (f & <- & Hf).
        rewrite forallb_forall in HW. specialize (HW f Hf). apply eqb_prop in HW.
        unfold walk_valid. rewrite sc_net_crossing, HW. reflexivity.
      Qed.

      Lemma tables_stable_weak : tables L = tables L'.
      Proof.
        unfold tables.
        pose proof plaquettes_stable as HP.
        rewrite rot_adj_table, rot_all_faces, HP, sc_coordination, sc_coordination_bincount,
                sc_edge_neighbours, sc_adjacency_table.
        destruct (find_all_plaquettes L) as [ps|]; destruct (find_all_plaquettes L') as [ps'|];
          cbn [option_map] in *; try discriminate; [|reflexivity].
        injection HP as HP.
        rewrite (sc_edges_plaquettes ps ps' HP), (sc_vertices_plaquettes ps ps' HP),
                (sc_all_plaquette_neighbours ps ps' HP). reflexivity.
      Qed.
    End Wind.
  End Rot.
End TwoEmbeddings.

(* ------------------------------------------------------------------ the three strengths of the hypothesis *)
Lemma winding_wrap_terms vs : winding vs = fold_right Z.add 0%Z (wrap_terms vs).
Proof. destruct vs; reflexivity. Qed.

Lemma forallb_impl {A} (p q : A -> bool) l : (forall x, p x = true -> q x = true) ->
  forallb p l = true -> forallb q l = true.
Proof. intros H Hp. rewrite forallb_forall in *. intros x Hx. apply H, Hp, Hx. Qed.

Lemma wrap_agree_wind_agree L L' : wrap_agree L L' = true -> wind_agree L L' = true.
Proof.
  unfold wrap_agree, wind_agree. destruct (all_faces L) as [fs|]; [|reflexivity].
  apply forallb_impl. intros f H. apply list_eqb_Z_eq in H. rewrite !winding_wrap_terms, H. apply Z.eqb_refl.
Qed.

Lemma wind_agree_valid_agree L L' : wind_agree L L' = true -> valid_agree L L' = true.
Proof.
  unfold wind_agree, valid_agree. destruct (all_faces L) as [fs|]; [|reflexivity].
  apply forallb_impl. intros f H. apply Z.eqb_eq in H. rewrite H. apply eqb_reflx.
Qed.

Lemma preds_agree_fine_preds_agree L L' : preds_agree_fine L L' = true -> preds_agree L L' = true.
Proof.
  unfold preds_agree_fine, preds_agree. intro H. apply andb_prop in H as [H1 H2].
  rewrite H1, (wrap_agree_wind_agree L L' H2). reflexivity.
Qed.

Lemma preds_agree_preds_agree_weak L L' : preds_agree L L' = true -> preds_agree_weak L L' = true.
Proof.
  unfold preds_agree_weak, preds_agree. intro H. apply andb_prop in H as [H1 H2].
  rewrite H1, (wind_agree_valid_agree L L' H2). reflexivity.
Qed.

(* ------------------------------------------------------------------ the statements used by Props/C09.v *)
Theorem rotation_stable L L' : same_connectivity L L' -> rot_agree L L' = true ->
  adj_table L = adj_table L' /\
  (forall d, next_dart L (adj_table L) d = next_dart L' (adj_table L') d) /\
  (forall se sd, trace L (adj_table L) se sd = trace L' (adj_table L') se sd) /\
  option_map (map f_walk) (all_faces L) = option_map (map f_walk) (all_faces L').
Proof.
  intros HC HR. split; [apply rot_adj_table; assumption|]. split; [intro d; apply rot_next_dart; assumption|].
  split; [intros se sd; apply rot_trace; assumption | apply rot_all_faces; assumption].
Qed.

Theorem roundtrip_tables_weak L L' :
  preds_agree_weak L L' = true -> same_connectivity L L' -> tables L = tables L'.
Proof.
  intros H HC. unfold preds_agree_weak in H. apply andb_prop in H as [HR HW].
  apply tables_stable_weak; assumption.
Qed.

Theorem roundtrip_tables L L' :
  preds_agree L L' = true -> same_connectivity L L' -> tables L = tables L'.
Proof. intros H. apply roundtrip_tables_weak, preds_agree_preds_agree_weak, H. Qed.

Theorem roundtrip_tables_fine L L' :
  preds_agree_fine L L' = true -> same_connectivity L L' -> tables L = tables L'.
Proof. intros H. apply roundtrip_tables, preds_agree_fine_preds_agree, H. Qed.

Lemma list_eqb_natpair_eq l l' : list_eqb natpair_eqb l l' = true -> l = l'.
Proof.
  revert l'. induction l as [|x l IH]; intros [|y l'] H; try discriminate; [reflexivity|].
  cbn [list_eqb] in H. apply andb_prop in H as [Hx Hl]. unfold natpair_eqb in Hx. apply andb_prop in Hx as [H1 H2].
  apply Nat.eqb_eq in H1, H2. destruct x, y. cbn [fst snd] in *. subst. f_equal. apply IH. exact Hl.
Qed.
Lemma list_eqb_vec_eq l l' : list_eqb veqb l l' = true -> l = l'.
Proof.
  revert l'. induction l as [|x l IH]; intros [|y l'] H; try discriminate; [reflexivity|].
  cbn [list_eqb] in H. apply andb_prop in H as [Hx Hl]. apply veqb_eq in Hx. subst. f_equal. apply IH. exact Hl.
Qed.
Lemma same_connectivity_b_spec L L' : same_connectivity_b L L' = true -> same_connectivity L L'.
Proof.
  unfold same_connectivity_b. intro H. apply andb_prop in H as [H H3]. apply andb_prop in H as [H1 H2].
  split; [apply list_eqb_natpair_eq, H1|]. split; [apply list_eqb_vec_eq, H2 | apply Nat.eqb_eq, H3].
Qed.
