(* Proofs/ColorCount.v — the independent backtracking enumerator / counter of Model/Color.v lists
   exactly the valid assignments, each once; its count is the number of valid assignments.
   This is the oracle harness/c04.py uses for UNSAT verdicts and enumeration counts. *)
From Coq Require Import List ZArith Bool Arith Lia ZifyBool.
From Koala Require Import Model.Cnf Model.Color Proofs.CnfFacts Proofs.ColorFacts.
Import ListNotations.

Section BTFacts.
  Variable n : nat.
  Variable ok : list nat -> nat -> bool.
  Variable final : list nat -> bool.

  (* x extends pre by k admissible choices and passes the final check *)
  Definition bt_valid (k : nat) (pre x : list nat) : Prop :=
    exists suf, x = pre ++ suf /\ length suf = k
      /\ (forall t, t < k -> nth t suf 0 < n /\ ok (pre ++ firstn t suf) (nth t suf 0) = true)
      /\ final x = true.

  Lemma bt_list_spec : forall k pre x, In x (bt_list n ok final k pre) <-> bt_valid k pre x.
  Proof.
    induction k as [|k IH]; intros pre x; simpl.
    - split.
      + destruct (final pre) eqn:E; [|contradiction]. intros [<-|[]].
        exists []. rewrite app_nil_r. split; [|split; [|split]]; auto. intros t Ht. lia.
      + intros [suf [-> [Hl [_ Hf]]]]. destruct suf; [|discriminate]. rewrite app_nil_r in *.
        rewrite Hf. left. reflexivity.
    - rewrite in_flat_map. split.
      + intros [c [Hc Hin]]. apply in_seq in Hc. destruct (ok pre c) eqn:Eo; [|contradiction].
        apply IH in Hin as [suf [-> [Hl [Hs Hf]]]].
        exists (c :: suf). rewrite <- app_assoc in *. simpl in *. split; [|split; [|split]]; auto.
        intros t Ht. destruct t as [|t]; simpl.
        * rewrite app_nil_r. split; [lia|auto].
        * specialize (Hs t ltac:(lia)). rewrite <- app_assoc in Hs. simpl in Hs. apply Hs.
      + intros [suf [-> [Hl [Hs Hf]]]]. destruct suf as [|c suf]; [discriminate|]. simpl in Hl.
        exists c. pose proof (Hs 0 ltac:(lia)) as [H0 H0']. simpl in H0, H0'. rewrite app_nil_r in H0'.
        split; [apply in_seq; lia|]. rewrite H0'. apply IH.
        exists suf. rewrite <- app_assoc. simpl. split; [|split; [|split]]; auto; try lia.
        intros t Ht. specialize (Hs (S t) ltac:(lia)). simpl in Hs. rewrite <- app_assoc. simpl. apply Hs.
  Qed.

  Lemma bt_list_NoDup : forall k pre, NoDup (bt_list n ok final k pre).
  Proof.
    induction k as [|k IH]; intros pre; simpl.
    - destruct (final pre); repeat constructor. auto.
    - apply NoDup_flat_map_intro.
      + apply seq_NoDup.
      + intros c _. destruct (ok pre c); [apply IH|constructor].
      + intros a b x _ _ Ha Hb.
        destruct (ok pre a); [|contradiction]. destruct (ok pre b); [|contradiction].
        apply bt_list_spec in Ha as [sa [Ea _]]. apply bt_list_spec in Hb as [sb [Eb _]].
        assert (Hna : nth (length pre) x 0 = a).
        { rewrite Ea, <- app_assoc. simpl. rewrite app_nth2 by lia. now rewrite Nat.sub_diag. }
        assert (Hnb : nth (length pre) x 0 = b).
        { rewrite Eb, <- app_assoc. simpl. rewrite app_nth2 by lia. now rewrite Nat.sub_diag. }
        congruence.
  Qed.

  Lemma bt_count_length : forall k pre, bt_count n ok final k pre = Z.of_nat (length (bt_list n ok final k pre)).
  Proof.
    induction k as [|k IH]; intros pre; simpl.
    - destruct (final pre); reflexivity.
    - generalize (seq 0 n). intros l. induction l as [|c l IHl]; simpl; auto.
      rewrite app_length, Nat2Z.inj_add, IHl. destruct (ok pre c); [rewrite IH|]; simpl; lia.
  Qed.

  Lemma bt_exists_spec : forall k pre, bt_exists n ok final k pre = true <-> exists x, In x (bt_list n ok final k pre).
  Proof.
    induction k as [|k IH]; intros pre; simpl.
    - destruct (final pre); split; auto.
      + intros _. exists pre. left. auto.
      + discriminate.
      + intros [x []].
    - rewrite existsb_exists. split.
      + intros [c [Hc H]]. apply andb_true_iff in H as [Ho He]. apply IH in He as [x Hx].
        exists x. apply in_flat_map. exists c. rewrite Ho. auto.
      + intros [x Hx]. apply in_flat_map in Hx as [c [Hc Hx]]. exists c. split; auto.
        destruct (ok pre c); [|contradiction]. simpl. apply IH. eauto.
  Qed.

  (* from the empty prefix *)
  Lemma bt_valid_nil k x :
    bt_valid k [] x <->
    length x = k /\ (forall t, t < k -> nth t x 0 < n /\ ok (firstn t x) (nth t x 0) = true) /\ final x = true.
  Proof.
    unfold bt_valid. simpl. split.
    - intros [suf [-> H]]. auto.
    - intros H. exists x. auto.
  Qed.

  (* the counter against ANY duplicate-free list of the valid assignments *)
  Lemma bt_count_any (P : list nat -> Prop) k :
    (forall x, bt_valid k [] x <-> P x) ->
    NoDup (bt_list n ok final k []) /\ (forall x, In x (bt_list n ok final k []) <-> P x)
    /\ (bt_exists n ok final k [] = true <-> exists x, P x)
    /\ forall all, NoDup all -> (forall x, In x all <-> P x) -> bt_count n ok final k [] = Z.of_nat (length all).
  Proof.
    intros H. split; [apply bt_list_NoDup|]. split; [|split].
    - intros x. rewrite bt_list_spec. apply H.
    - rewrite bt_exists_spec. split; intros [x Hx]; exists x; [apply H, bt_list_spec|apply bt_list_spec, H]; auto.
    - intros all Hnd Hin. rewrite bt_count_length. f_equal.
      apply NoDup_same_length; auto; [apply bt_list_NoDup|].
      intros x. rewrite bt_list_spec, H, Hin. reflexivity.
  Qed.
End BTFacts.

(* ------------------------------------------------------------------ helpers on prefixes *)

Lemma firstn_nth_lt {A} (l : list A) (d : A) t j : j < t -> nth j (firstn t l) d = nth j l d.
Proof.
  revert l j. induction t as [|t IH]; intros l j H; [lia|].
  destruct l as [|a l]; simpl; [destruct j; reflexivity|]. destruct j as [|j]; auto. apply IH. lia.
Qed.

Lemma firstn_length_lt {A} (l : list A) t : t <= length l -> length (firstn t l) = t.
Proof. intros H. rewrite firstn_length. lia. Qed.

(* ------------------------------------------------------------------ edge colourings *)

Lemma ok_edge_spec edges fixed x t :
  t < length x ->
  ok_edge edges fixed (firstn t x) (nth t x 0) = true <->
  (forall col e, In (col, e) fixed -> e = t -> col = nth t x 0)
  /\ (forall j, j < t -> meet (nth j edges e0) (nth t edges e0) -> nth j x 0 <> nth t x 0).
Proof.
  intros Ht. unfold ok_edge. rewrite firstn_length_lt by lia.
  rewrite andb_true_iff, !forallb_forall. split.
  - intros [H1 H2]. split.
    + intros col e Hin ->. specialize (H1 (col, t) Hin). simpl in H1. lia.
    + intros j Hj Hm. specialize (H2 j ltac:(apply in_seq; lia)).
      rewrite firstn_nth_lt in H2 by auto. apply shares_meet in Hm. rewrite Hm in H2. simpl in H2. lia.
  - intros [H1 H2]. split.
    + intros [col e] Hin. simpl. destruct (e =? t) eqn:E; simpl; auto.
      apply Nat.eqb_eq in E. rewrite (H1 col e Hin E). apply Nat.eqb_refl.
    + intros j Hj. apply in_seq in Hj. rewrite firstn_nth_lt by lia.
      destruct (shares (nth j edges e0) (nth t edges e0)) eqn:E; simpl; auto.
      apply shares_meet in E. specialize (H2 j ltac:(lia) E). lia.
Qed.

Lemma bt_valid_edge edges n fixed x :
  fixed_in_range (length edges) n fixed ->
  bt_valid n (ok_edge edges fixed) no_final (length edges) [] x <-> proper_edge_coloring edges n fixed x.
Proof.
  intros Hfr. rewrite bt_valid_nil. unfold proper_edge_coloring. split.
  - intros [Hl [Hs _]]. repeat split; auto.
    + intros i Hi. apply Hs. auto.
    + intros i j Hi Hj Hne Hm.
      destruct (Nat.lt_ge_cases i j) as [Hlt|Hge].
      * destruct (Hs j Hj) as [_ Ho]. apply ok_edge_spec in Ho as [_ Ho]; [|lia]. now apply Ho.
      * destruct (Hs i Hi) as [_ Ho]. apply ok_edge_spec in Ho as [_ Ho]; [|lia].
        intros Heq. apply (Ho j ltac:(lia) (meet_sym _ _ Hm)). auto.
    + intros col e Hin. destruct (Hfr col e Hin) as [_ He].
      destruct (Hs e He) as [_ Ho]. apply ok_edge_spec in Ho as [Ho _]; [|lia]. symmetry. now apply (Ho col e).
  - intros [Hl [Hr [Hc Hf]]]. repeat split; auto.
    apply ok_edge_spec; [lia|]. split.
    + intros col e Hin ->. symmetry. now apply Hf.
    + intros j Hj Hm. apply Hc; auto; lia.
Qed.

Theorem edge_counter_correct edges n fixed :
  fixed_in_range (length edges) n fixed ->
  let P := proper_edge_coloring edges n fixed in
  NoDup (list_edge_colourings edges n fixed)
  /\ (forall c, In c (list_edge_colourings edges n fixed) <-> P c)
  /\ (exists_edge_colouring edges n fixed = true <-> exists c, P c)
  /\ forall all, NoDup all -> (forall c, In c all <-> P c) ->
                 count_edge_colourings edges n fixed = Z.of_nat (length all).
Proof.
  intros Hfr P. apply (bt_count_any n (ok_edge edges fixed) no_final P (length edges)).
  intros x. now apply bt_valid_edge.
Qed.

(* ------------------------------------------------------------------ vertex colourings *)

Lemma ok_vertex_spec adj x t :
  t < length x ->
  ok_vertex adj (firstn t x) (nth t x 0) = true <->
  (forall a b, In (a, b) adj -> (a = t /\ b <= t \/ b = t /\ a <= t) -> nth a x 0 <> nth b x 0).
Proof.
  intros Ht. unfold ok_vertex. rewrite firstn_length_lt by lia. rewrite forallb_forall.
  assert (Hcol : forall y, y <= t -> (if y =? t then nth t x 0 else nth y (firstn t x) 0) = nth y x 0).
  { intros y Hy. destruct (y =? t) eqn:E; [apply Nat.eqb_eq in E; now subst|].
    apply Nat.eqb_neq in E. apply firstn_nth_lt. lia. }
  split.
  - intros H a b Hin Hcase. specialize (H (a, b) Hin). simpl in H.
    apply andb_true_iff in H as [H1 H2]. destruct Hcase as [[-> Hb]|[-> Ha]].
    + rewrite (Hcol b Hb) in H1. rewrite Nat.eqb_refl in H1. simpl in H1. lia.
    + rewrite (Hcol a Ha) in H2. rewrite Nat.eqb_refl in H2. simpl in H2. lia.
  - intros H [a b] Hin. simpl. apply andb_true_iff. split.
    + destruct ((a =? t) && (b <=? t)) eqn:E; simpl; auto.
      apply andb_true_iff in E as [Ea Eb]. apply Nat.eqb_eq in Ea. apply Nat.leb_le in Eb. subst a.
      rewrite (Hcol b Eb). specialize (H t b Hin ltac:(lia)). lia.
    + destruct ((b =? t) && (a <=? t)) eqn:E; simpl; auto.
      apply andb_true_iff in E as [Ea Eb]. apply Nat.eqb_eq in Ea. apply Nat.leb_le in Eb. subst b.
      rewrite (Hcol a Eb). specialize (H a t Hin ltac:(lia)). lia.
Qed.

Lemma bt_valid_vertex adj n x :
  bt_valid n (ok_vertex adj) no_final (nverts adj) [] x <-> proper_vertex_coloring adj n x.
Proof.
  rewrite bt_valid_nil. unfold proper_vertex_coloring. split.
  - intros [Hl [Hs _]]. repeat split; auto.
    + intros v Hv. apply Hs. auto.
    + intros i j Hin. destruct (adj_ok adj i j Hin) as [Hi Hj].
      destruct (Nat.le_ge_cases i j) as [Hle|Hge].
      * destruct (Hs j Hj) as [_ Ho]. pose proof (proj1 (ok_vertex_spec adj x j ltac:(lia)) Ho) as Ho'.
        apply (Ho' i j Hin). lia.
      * destruct (Hs i Hi) as [_ Ho]. pose proof (proj1 (ok_vertex_spec adj x i ltac:(lia)) Ho) as Ho'.
        apply (Ho' i j Hin). lia.
  - intros [Hl [Hr Hc]]. repeat split; auto.
    apply ok_vertex_spec; [lia|]. intros a b Hin _. now apply Hc.
Qed.

Theorem vertex_counter_correct adj n :
  let P := proper_vertex_coloring adj n in
  NoDup (list_vertex_colourings adj n)
  /\ (forall c, In c (list_vertex_colourings adj n) <-> P c)
  /\ (exists_vertex_colouring adj n = true <-> exists c, P c)
  /\ forall all, NoDup all -> (forall c, In c all <-> P c) ->
                 count_vertex_colourings adj n = Z.of_nat (length all).
Proof.
  intros P. apply (bt_count_any n (ok_vertex adj) no_final P (nverts adj)).
  intros x. apply bt_valid_vertex.
Qed.

(* ------------------------------------------------------------------ dimerisations *)

Lemma ok_dimer_spec edges x t :
  t < length x ->
  ok_dimer edges (firstn t x) (nth t x 0) = true <->
  (nth t x 0 = 0 \/ forall j, j < t -> meet (nth j edges e0) (nth t edges e0) -> nth j x 0 <> 1).
Proof.
  intros Ht. unfold ok_dimer. rewrite firstn_length_lt by lia.
  rewrite orb_true_iff, Nat.eqb_eq, forallb_forall. split.
  - intros [H|H]; auto. right. intros j Hj Hm. specialize (H j ltac:(apply in_seq; lia)).
    rewrite firstn_nth_lt in H by auto. apply shares_meet in Hm. rewrite Hm in H. simpl in H. lia.
  - intros [H|H]; auto. right. intros j Hj. apply in_seq in Hj. rewrite firstn_nth_lt by lia.
    destruct (shares (nth j edges e0) (nth t edges e0)) eqn:E; simpl; auto.
    apply shares_meet in E. specialize (H j ltac:(lia) E). lia.
Qed.

Lemma final_dimer_spec nv edges x :
  final_dimer nv edges x = true <->
  forall v, v < nv -> exists e, e < length edges
                                /\ (fst (nth e edges e0) = v \/ snd (nth e edges e0) = v) /\ nth e x 0 = 1.
Proof.
  unfold final_dimer. rewrite forallb_forall. split.
  - intros H v Hv. specialize (H v ltac:(apply in_seq; lia)). apply existsb_exists in H as [e [He H]].
    apply in_seq in He. exists e. unfold touches in H. lia.
  - intros H v Hv. apply in_seq in Hv. destruct (H v ltac:(lia)) as [e [He [Ht Hx]]].
    apply existsb_exists. exists e. split; [apply in_seq; lia|]. unfold touches. lia.
Qed.

Lemma bt_valid_dimer nv edges x :
  edges_in_range nv edges ->
  bt_valid 2 (ok_dimer edges) (final_dimer nv edges) (length edges) [] x <-> perfect_matching nv edges x.
Proof.
  intros Hok. rewrite bt_valid_nil. unfold perfect_matching. rewrite final_dimer_spec. split.
  - intros [Hl [Hs Hf]]. repeat split; auto.
    + intros e He. destruct (Hs e He) as [H2 _]. lia.
    + intros v Hv. destruct (Hf v Hv) as [e [He [Ht Hx]]]. exists e. split; auto.
      intros e' He' Ht' Hx'. destruct (Nat.eq_dec e' e) as [|Hne]; auto. exfalso.
      assert (Hm : meet (nth e edges e0) (nth e' edges e0)) by (unfold meet; intuition congruence).
      destruct (Nat.lt_ge_cases e e') as [Hlt|Hge].
      * destruct (Hs e' He') as [_ Ho]. apply ok_dimer_spec in Ho; [|lia].
        destruct Ho as [Ho|Ho]; [lia|]. now apply (Ho e Hlt Hm).
      * destruct (Hs e He) as [_ Ho]. apply ok_dimer_spec in Ho; [|lia].
        destruct Ho as [Ho|Ho]; [lia|]. apply (Ho e' ltac:(lia) (meet_sym _ _ Hm)). auto.
  - intros [Hl [H01 Hm]]. repeat split; auto.
    + destruct (H01 t H); lia.
    + apply ok_dimer_spec; [lia|]. destruct (H01 t H) as [E|E]; auto. right.
      intros j Hj Hmeet Hxj.
      (* the two chosen edges j < t meet at a vertex w < nv; uniqueness at w gives j = t *)
      assert (Hw : exists w, w < nv /\ (fst (nth j edges e0) = w \/ snd (nth j edges e0) = w)
                                  /\ (fst (nth t edges e0) = w \/ snd (nth t edges e0) = w)).
      { assert (Hj' : In (nth j edges e0) edges) by (apply nth_In; lia).
        destruct (Hok _ Hj') as [Hf Hsn]. unfold meet in Hmeet.
        destruct Hmeet as [Hq|[Hq|[Hq|Hq]]].
        - exists (fst (nth j edges e0)). auto.
        - exists (fst (nth j edges e0)). auto.
        - exists (snd (nth j edges e0)). auto.
        - exists (snd (nth j edges e0)). auto. }
      destruct Hw as [w [Hw [Hjw Htw]]]. destruct (Hm w Hw) as [e [_ Hu]].
      assert (j = e) by (apply Hu; auto; lia). assert (t = e) by (apply Hu; auto). lia.
    + intros v Hv. destruct (Hm v Hv) as [e [[He [Ht Hx]] _]]. eauto.
Qed.

Theorem dimer_counter_correct nv edges :
  edges_in_range nv edges ->
  let P := perfect_matching nv edges in
  NoDup (list_dimerisations nv edges)
  /\ (forall d, In d (list_dimerisations nv edges) <-> P d)
  /\ (exists_dimerisation nv edges = true <-> exists d, P d)
  /\ forall all, NoDup all -> (forall d, In d all <-> P d) ->
                 count_dimerisations nv edges = Z.of_nat (length all).
Proof.
  intros Hok P. apply (bt_count_any 2 (ok_dimer edges) (final_dimer nv edges) P (length edges)).
  intros x. now apply bt_valid_dimer.
Qed.

(* ------------------------------------------------------------------ the proved spec checkers (S) *)

Lemma valid_edge_coloringb_spec edges n fixed c :
  valid_edge_coloringb edges n fixed c = true <-> proper_edge_coloring edges n fixed c.
Proof.
  unfold valid_edge_coloringb, proper_edge_coloring.
  rewrite !andb_true_iff, Nat.eqb_eq, !forallb_forall. split.
  - intros [[[Hl Hr] Hc] Hf]. repeat split; auto.
    + intros i Hi. specialize (Hr (nth i c 0) ltac:(apply nth_In; lia)). lia.
    + intros i j Hi Hj Hne Hm. specialize (Hc i ltac:(apply in_seq; lia)). rewrite forallb_forall in Hc.
      specialize (Hc j ltac:(apply in_seq; lia)). apply shares_meet in Hm. rewrite Hm in Hc. lia.
    + intros col e Hin. specialize (Hf (col, e) Hin). simpl in Hf. lia.
  - intros [Hl [Hr [Hc Hf]]]. repeat split; auto.
    + intros x Hx. apply In_nth with (d := 0) in Hx as [i [Hi <-]]. specialize (Hr i ltac:(lia)). lia.
    + intros i Hi. apply in_seq in Hi. apply forallb_forall. intros j Hj. apply in_seq in Hj.
      destruct (i =? j) eqn:E; simpl; auto. apply Nat.eqb_neq in E.
      destruct (shares (nth i edges e0) (nth j edges e0)) eqn:Es; simpl; auto.
      apply shares_meet in Es. specialize (Hc i j ltac:(lia) ltac:(lia) E Es). lia.
    + intros [col e] Hin. simpl. rewrite (Hf col e Hin). apply Nat.eqb_refl.
Qed.

Lemma valid_vertex_coloringb_spec adj n c :
  valid_vertex_coloringb adj n c = true <-> proper_vertex_coloring adj n c.
Proof.
  unfold valid_vertex_coloringb, proper_vertex_coloring.
  rewrite !andb_true_iff, Nat.eqb_eq, !forallb_forall. split.
  - intros [[Hl Hr] Hc]. repeat split; auto.
    + intros v Hv. specialize (Hr (nth v c 0) ltac:(apply nth_In; lia)). lia.
    + intros i j Hin. specialize (Hc (i, j) Hin). simpl in Hc. lia.
  - intros [Hl [Hr Hc]]. repeat split; auto.
    + intros x Hx. apply In_nth with (d := 0) in Hx as [i [Hi <-]]. specialize (Hr i ltac:(lia)). lia.
    + intros [i j] Hin. simpl. specialize (Hc i j Hin). lia.
Qed.

Lemma valid_dimerb_spec nv edges d :
  valid_dimerb nv edges d = true <-> perfect_matching nv edges d.
Proof.
  unfold valid_dimerb, perfect_matching.
  rewrite !andb_true_iff, Nat.eqb_eq, !forallb_forall. split.
  - intros [[Hl Hr] Hc]. split; [auto|split].
    + intros e He. specialize (Hr (nth e d 0) ltac:(apply nth_In; lia)). lia.
    + apply (matching_count nv edges (fun e => nth e d 0 =? 1) d); auto.
      intros v Hv. specialize (Hc v ltac:(apply in_seq; lia)). now apply Nat.eqb_eq.
  - intros [Hl [Hr Hc]]. split; [split|]; auto.
    + intros x Hx. apply In_nth with (d := 0) in Hx as [i [Hi <-]]. specialize (Hr i ltac:(lia)). lia.
    + intros v Hv. apply in_seq in Hv. apply Nat.eqb_eq.
      pose proof (proj2 (matching_count nv edges (fun e => nth e d 0 =? 1) d (fun e _ => eq_refl)) Hc) as Hc'.
      apply Hc'. lia.
Qed.
