(* Proofs/BlochComplete.v — C08 "bloch_complete": the Bloch waves at ALL nx*ny grid momenta form an
   invertible matrix, hence the tiled real-space Hamiltonian is similar to the direct sum of the H(k) and
        char_poly A_tiled = \prod_k char_poly H(k).

   Setting: any MathComp fieldType F containing a primitive nx-th root zx and a primitive ny-th root zy
   of unity, with nx*ny invertible in F (char F does not divide nx*ny; automatic in characteristic 0).
   Bridge (style of Proofs/HamMx.v): the matrices are TABULATED from the executable entry functions of
   Model/Bloch.v instantiated at the ring (F, 0, 1, +, * ):
     tiled_mx c nx ny t tb  : 'M[F]_(nx*ny*ns)   [i,j] = ham_entry (tile_edges c nx ny) (tile_weights t) (tile_weights tb) i j
     hk_mx c t tb wx wy     : 'M[F]_ns           [a,b] = hk_entry (uc_edges c) (uc_crossing c) t tb wx wx^-1 wy wy^-1 a b
     bloch_mx  c nx ny zx zy: 'M[F]_(nx*ny*ns)   [r, k*ns+s] = bloch_phi nx ns (zx^kx)^-1 (zy^ky)^-1 r s    (k = ky*nx + kx)
     bloch_mx' c nx ny zx zy: 'M[F]_(nx*ny*ns)   [k*ns+s, r] = bloch_phi nx ns (zx^kx) (zy^ky) r s
     hk_diag_mx             : block diagonal, block k = hk_mx at (zx^kx, zy^ky)
   (ns = number of sites of the cell, indices injected by Z.of_nat).
   Results:  bloch_mx_intertwines  A_tiled * Phi = Phi * diag_k H(k)       (from BlochFacts.bloch_intertwines)
             bloch_mx_orthogonal   Phi * Phi' = (nx*ny) * 1
             bloch_complete_char_poly, bloch_complete_grid, bloch_complete_eigenvalue. *)
From Coq Require Import ZArith Ring Lia.
From Coq Require List.
From mathcomp Require Import all_ssreflect all_algebra.
From mathcomp Require Import ssrZ zify.
From Koala Require Import Gen.TilingGen Model.Lattice Model.Tiling Model.Bloch
     Proofs.TilingFacts Proofs.BlochFacts Proofs.BlochCompleteAlg.
Set Implicit Arguments. Unset Strict Implicit. Unset Printing Implicit Defensive.
Import GRing.Theory.
Local Open Scope ring_scope.

(* ------------------------------------------------------------------ nat <-> Z index arithmetic *)
Lemma Zof_divn (a b : nat) : (0 < b)%N -> Z.of_nat (a %/ b) = Z.div (Z.of_nat a) (Z.of_nat b).
Proof.
move=> b0; apply: (Z.div_unique _ _ _ (Z.of_nat (a %% b))).
  by left; move: (a %% b)%N (ltn_pmod a b0) => r; lia.
by move: (a %/ b)%N (a %% b)%N (divn_eq a b) => q r; lia.
Qed.

Lemma Zof_modn (a b : nat) : (0 < b)%N -> Z.of_nat (a %% b) = Z.modulo (Z.of_nat a) (Z.of_nat b).
Proof.
move=> b0; apply: (Z.mod_unique _ _ (Z.of_nat (a %/ b))).
  by left; move: (a %% b)%N (ltn_pmod a b0) => r; lia.
by move: (a %/ b)%N (a %% b)%N (divn_eq a b) => q r; lia.
Qed.

Lemma Zeqb_nat (a b : nat) : Z.eqb (Z.of_nat a) (Z.of_nat b) = (a == b).
Proof. by apply/idP/eqP=> [/Z.eqb_eq/Nat2Z.inj|->] //; apply/Z.eqb_eq. Qed.

Lemma lmapE A B (f : A -> B) (l : list A) : List.map f l = [seq f x | x <- l].
Proof. by elim: l => //= x l ->. Qed.

Lemma lseqE a n : List.seq a n = iota a n.
Proof. by elim: n a => //= n IH a; rewrite IH. Qed.

Lemma zrangeE n : zrange (Z.of_nat n) = [seq Z.of_nat i | i <- iota 0 n].
Proof. by rewrite /zrange Nat2Z.id lmapE lseqE. Qed.

(* ------------------------------------------------------------------ the model's ring operations at a field *)
Section Bridge.
Variable F : fieldType.

Lemma field_rth : ring_theory (0 : F) 1 +%R *%R (fun x y => x - y) -%R eq.
Proof.
constructor; [exact: add0r | exact: addrC | exact: addrA | exact: mul1r | exact: mulrC
             | exact: mulrA | exact: mulrDl | by [] | exact: subrr].
Qed.

Lemma rsumE (l : seq F) : rsum F 0 +%R l = \sum_(x <- l) x.
Proof. by elim: l => [|x l IH]; rewrite ?big_nil ?big_cons //= IH. Qed.

Lemma rpowE (x : F) n : rpow F 1 *%R x n = x ^+ n.
Proof. by elim: n => [|n IH] //=; rewrite IH exprS. Qed.

Lemma mat_mulE n (A B : Z -> Z -> F) a c :
  mat_mul F 0 +%R *%R (Z.of_nat n) A B a c = \sum_(b < n) A a (Z.of_nat b) * B (Z.of_nat b) c.
Proof.
rewrite /mat_mul zrangeE lmapE rsumE !big_map.
have -> : iota 0 n = index_iota 0 n by rewrite /index_iota subn0.
by rewrite big_mkord.
Qed.

Lemma bloch_phiE nx ns (w1 w2 : F) (r s : nat) : (0 < ns)%N -> (0 < nx)%N ->
  bloch_phi F 0 1 *%R (Z.of_nat nx) (Z.of_nat ns) w1 w2 (Z.of_nat r) (Z.of_nat s)
  = if (r %% ns)%N == s then w1 ^+ ((r %/ ns) %% nx) * w2 ^+ ((r %/ ns) %/ nx) else 0.
Proof.
move=> ns0 nx0.
by rewrite /bloch_phi -Zof_modn // -!Zof_divn // -Zof_modn // !Nat2Z.id !rpowE Zeqb_nat.
Qed.

End Bridge.

(* ------------------------------------------------------------------ the tabulated matrices *)
Definition n_sites_nat (c : unit_cell) : nat := List.length (uc_points c).

Lemma n_sitesE c : n_sites c = Z.of_nat (n_sites_nat c).
Proof. by []. Qed.

Definition tiled_mx (F : fieldType) (c : unit_cell) (nx ny : nat) (t tb : list F)
  : 'M[F]_(nx * ny * n_sites_nat c) :=
  \matrix_(i, j) ham_entry F 0 +%R (tile_edges c (Z.of_nat nx) (Z.of_nat ny))
                   (tile_weights F t (Z.of_nat nx) (Z.of_nat ny))
                   (tile_weights F tb (Z.of_nat nx) (Z.of_nat ny)) (Z.of_nat i) (Z.of_nat j).

Definition hk_mx (F : fieldType) (c : unit_cell) (t tb : list F) (wx wy : F)
  : 'M[F]_(n_sites_nat c) :=
  \matrix_(a, b) hk_entry F 0 1 +%R *%R (uc_edges c) (uc_crossing c) t tb wx wx^-1 wy wy^-1
                   (Z.of_nat a) (Z.of_nat b).

(* column k*ns + s' is the Bloch wave of momentum k = ky*nx + kx (phases zx^-kx, zy^-ky) on site s' *)
Definition bloch_mx (F : fieldType) (c : unit_cell) (nx ny : nat) (zx zy : F)
  : 'M[F]_(nx * ny * n_sites_nat c) :=
  \matrix_(r, j) bloch_phi F 0 1 *%R (Z.of_nat nx) (Z.of_nat (n_sites_nat c))
                   (zx ^+ ((j %/ n_sites_nat c) %% nx))^-1 (zy ^+ ((j %/ n_sites_nat c) %/ nx))^-1
                   (Z.of_nat r) (Z.of_nat (j %% n_sites_nat c)).

(* the explicit inverse up to the factor nx*ny: the conjugate phases, transposed *)
Definition bloch_mx' (F : fieldType) (c : unit_cell) (nx ny : nat) (zx zy : F)
  : 'M[F]_(nx * ny * n_sites_nat c) :=
  \matrix_(j, r) bloch_phi F 0 1 *%R (Z.of_nat nx) (Z.of_nat (n_sites_nat c))
                   (zx ^+ ((j %/ n_sites_nat c) %% nx)) (zy ^+ ((j %/ n_sites_nat c) %/ nx))
                   (Z.of_nat r) (Z.of_nat (j %% n_sites_nat c)).

(* direct sum over the grid momenta of the Bloch Hamiltonians *)
Definition hk_diag_mx (F : fieldType) (c : unit_cell) (nx ny : nat) (t tb : list F) (zx zy : F)
  : 'M[F]_(nx * ny * n_sites_nat c) :=
  bdiag (n_sites_nat c) (nx * ny)
        (fun k a b => hk_entry F 0 1 +%R *%R (uc_edges c) (uc_crossing c) t tb
                        (zx ^+ (k %% nx)) (zx ^+ (k %% nx))^-1 (zy ^+ (k %/ nx)) (zy ^+ (k %/ nx))^-1
                        (Z.of_nat a) (Z.of_nat b)).

Lemma hk_diag_blk (F : fieldType) c nx (t tb : list F) zx zy k :
  blk (n_sites_nat c)
      (fun k a b => hk_entry F 0 1 +%R *%R (uc_edges c) (uc_crossing c) t tb
                      (zx ^+ (k %% nx)) (zx ^+ (k %% nx))^-1 (zy ^+ (k %/ nx)) (zy ^+ (k %/ nx))^-1
                      (Z.of_nat a) (Z.of_nat b)) k
  = hk_mx c t tb (zx ^+ (k %% nx)) (zy ^+ (k %/ nx)).
Proof. by apply/matrixP=> a b; rewrite !mxE. Qed.

Lemma ord_ns_gt0 N ns (i : 'I_(N * ns)) : (0 < ns)%N.
Proof. by case: (ns) i => [|//] [] ?; rewrite muln0. Qed.

(* what the entries of the tabulated matrices are (the bridge, stated so that Props can quote it) *)
Lemma bloch_matrices_entries (F : fieldType) (c : unit_cell) (nx ny : nat) (t tb : list F) (zx zy wx wy : F) :
  let ns := n_sites_nat c in
  n_sites c = Z.of_nat ns /\
  (forall i j : 'I_(nx * ny * ns),
     tiled_mx c nx ny t tb i j
     = ham_entry F 0 +%R (tile_edges c (Z.of_nat nx) (Z.of_nat ny))
         (tile_weights F t (Z.of_nat nx) (Z.of_nat ny)) (tile_weights F tb (Z.of_nat nx) (Z.of_nat ny))
         (Z.of_nat i) (Z.of_nat j)) /\
  (forall a b : 'I_ns,
     hk_mx c t tb wx wy a b
     = hk_entry F 0 1 +%R *%R (uc_edges c) (uc_crossing c) t tb wx wx^-1 wy wy^-1 (Z.of_nat a) (Z.of_nat b)) /\
  ((0 < nx)%N -> forall r j : 'I_(nx * ny * ns),
     bloch_mx c nx ny zx zy r j
     = (if (r %% ns == j %% ns)%N
        then ((zx ^+ ((j %/ ns) %% nx))^-1) ^+ ((r %/ ns) %% nx) * ((zy ^+ ((j %/ ns) %/ nx))^-1) ^+ ((r %/ ns) %/ nx)
        else 0) /\
     bloch_mx' c nx ny zx zy j r
     = (if (r %% ns == j %% ns)%N
        then (zx ^+ ((j %/ ns) %% nx)) ^+ ((r %/ ns) %% nx) * (zy ^+ ((j %/ ns) %/ nx)) ^+ ((r %/ ns) %/ nx)
        else 0)) /\
  (forall i j : 'I_(nx * ny * ns),
     hk_diag_mx c nx ny t tb zx zy i j
     = (if (i %/ ns == j %/ ns)%N
        then hk_mx c t tb (zx ^+ ((i %/ ns) %% nx)) (zy ^+ ((i %/ ns) %/ nx))
                   (Ordinal (ltn_pmod i (ord_ns_gt0 i))) (Ordinal (ltn_pmod j (ord_ns_gt0 i)))
        else 0)).
Proof.
split; first by [].
split; first by move=> i j; rewrite mxE.
split; first by move=> a b; rewrite mxE.
split.
  by move=> nx0 r j; have ns0 := ord_ns_gt0 r; rewrite !mxE !bloch_phiE.
by move=> i j; rewrite !mxE; case: ifP => // _; rewrite mxE.
Qed.

(* ------------------------------------------------------------------ completeness *)
Section Complete.
Variable F : fieldType.
Variables (nx ny : nat) (zx zy : F).
Hypothesis Hzx : nx.-primitive_root zx.
Hypothesis Hzy : ny.-primitive_root zy.

Let nx0 : (0 < nx)%N := prim_order_gt0 Hzx.
Let ny0 : (0 < ny)%N := prim_order_gt0 Hzy.

Lemma prim_root_neq0 n (z : F) : n.-primitive_root z -> z != 0.
Proof.
move=> zn; apply/eqP=> z0; have := prim_expr_order zn.
rewrite z0 expr0n eqn0Ngt (prim_order_gt0 zn) /=.
by move/eqP; rewrite eq_sym oner_eq0.
Qed.

Section Cell.
Variables (c : unit_cell) (t tb : list F).
Hypothesis Hwf : wf_cell c = true.
Hypothesis Ht : zlen t = n_uedges c.
Hypothesis Htb : zlen tb = n_uedges c.

Local Notation ns := (n_sites_nat c).
Local Notation N := (nx * ny)%N.
Local Notation A := (tiled_mx c nx ny t tb).
Local Notation Phi := (bloch_mx c nx ny zx zy).
Local Notation Phi' := (bloch_mx' c nx ny zx zy).
Local Notation D := (hk_diag_mx c nx ny t tb zx zy).

(* A_tiled . Phi = Phi . (direct sum of the H(k)) — all grid momenta at once *)
Lemma bloch_mx_intertwines : A *m Phi = Phi *m D.
Proof.
apply/matrixP=> r j; rewrite !mxE.
have ns0 : (0 < ns)%N by case: (ns) r => [|//] [] ?; rewrite muln0.
set k := (j %/ ns)%N; set s' := (j %% ns)%N.
have kN : (k < N)%N by rewrite ltn_divLR.
have s'ns : (s' < ns)%N by rewrite ltn_pmod.
pose Am := ham_entry F 0 +%R (tile_edges c (Z.of_nat nx) (Z.of_nat ny))
             (tile_weights F t (Z.of_nat nx) (Z.of_nat ny)) (tile_weights F tb (Z.of_nat nx) (Z.of_nat ny)).
pose wx (q : nat) := zx ^+ (q %% nx); pose wy (q : nat) := zy ^+ (q %/ nx).
pose P (q : nat) := bloch_phi F 0 1 *%R (Z.of_nat nx) (Z.of_nat ns) (wx q)^-1 (wy q)^-1.
pose H (q : nat) := hk_entry F 0 1 +%R *%R (uc_edges c) (uc_crossing c) t tb
                      (wx q) (wx q)^-1 (wy q) (wy q)^-1.
transitivity (mat_mul F 0 +%R *%R (Z.of_nat (N * ns)) Am (P k) (Z.of_nat r) (Z.of_nat s')).
  by rewrite mat_mulE; apply: eq_bigr => b _; rewrite !mxE.
transitivity (mat_mul F 0 +%R *%R (Z.of_nat ns) (P k) (H k) (Z.of_nat r) (Z.of_nat s')).
  have -> : Z.of_nat (N * ns) = Z.mul (Z.mul (Z.of_nat nx) (Z.of_nat ny)) (n_sites c).
    by rewrite n_sitesE; lia.
  rewrite -n_sitesE.
  have wx0 : wx k != 0 by rewrite expf_neq0 // (prim_root_neq0 Hzx).
  have wy0 : wy k != 0 by rewrite expf_neq0 // (prim_root_neq0 Hzy).
  apply: (@bloch_intertwines F 0 1 +%R *%R _ _ (field_rth F) c (Z.of_nat nx) (Z.of_nat ny) t tb
            (wx k) (wx k)^-1 (wy k) (wy k)^-1 Hwf _ _ Ht Htb).
  - by lia.
  - by lia.
  - exact: divff.
  - exact: divff.
  - by rewrite Nat2Z.id rpowE /wx -exprM mulnC exprM (prim_expr_order Hzx) expr1n.
  - by rewrite Nat2Z.id rpowE /wy -exprM mulnC exprM (prim_expr_order Hzy) expr1n.
  - by rewrite n_sitesE; have := ltn_ord r; lia.
  - by rewrite n_sitesE; lia.
rewrite mat_mulE.
transitivity (\sum_(q < N) \sum_(s < ns)
                P q (Z.of_nat r) (Z.of_nat s) * (if q == k :> nat then H q (Z.of_nat s) (Z.of_nat s') else 0)).
  rewrite [RHS](bigD1 (Ordinal kN)) //= [X in _ + X]big1 ?addr0; first by apply: eq_bigr => s _; rewrite eqxx.
  move=> q; rewrite -val_eqE /= => /negPf qk.
  by rewrite big1 // => s _; rewrite qk mulr0.
rewrite -(big_divmod _ N ns (fun q s =>
            P q (Z.of_nat r) (Z.of_nat s) * (if q == k then H q (Z.of_nat s) (Z.of_nat s') else 0))).
by apply: eq_bigr => j' _; rewrite !mxE.
Qed.

(* Fourier orthogonality on the index triple (mx, my, s):  Phi . Phi' = (nx*ny) . 1 *)
Lemma bloch_mx_orthogonal : Phi *m Phi' = (N%:R)%:M.
Proof.
apply/matrixP=> r r'; rewrite !mxE.
have ns0 : (0 < ns)%N by case: (ns) r => [|//] [] ?; rewrite muln0.
pose a (q : nat) := ((zx ^+ (q %% nx))^-1) ^+ ((r %/ ns) %% nx) * ((zy ^+ (q %/ nx))^-1) ^+ ((r %/ ns) %/ nx).
pose b (q : nat) := (zx ^+ (q %% nx)) ^+ ((r' %/ ns) %% nx) * (zy ^+ (q %/ nx)) ^+ ((r' %/ ns) %/ nx).
transitivity (\sum_(q < N) \sum_(s < ns)
                (if (r %% ns)%N == s then a q else 0) * (if (r' %% ns)%N == s then b q else 0)).
  rewrite -(big_divmod _ N ns (fun q s =>
              (if (r %% ns)%N == s then a q else 0) * (if (r' %% ns)%N == s then b q else 0))).
  by apply: eq_bigr => j _; rewrite !mxE !bloch_phiE.
have rns : (r %% ns < ns)%N by rewrite ltn_pmod.
transitivity (if (r %% ns)%N == (r' %% ns)%N then \sum_(q < N) a q * b q else 0).
  case: ifP => [/eqP e|ne].
    apply: eq_bigr => q _; rewrite (bigD1 (Ordinal rns)) //= big1 ?addr0; first by rewrite -e eqxx.
    by move=> s; rewrite -val_eqE /= eq_sym => /negPf ->; rewrite mul0r.
  rewrite big1 // => q _; rewrite big1 // => s _.
  by case: eqP => [<-|_]; rewrite 1?eq_sym ?ne ?mulr0 ?mul0r.
have -> : \sum_(q < N) a q * b q
          = (if ((r %/ ns) %% nx == (r' %/ ns) %% nx)%N then nx%:R else 0)
            * (if ((r %/ ns) %/ nx == (r' %/ ns) %/ nx)%N then ny%:R else 0) :> F.
  rewrite -(fourier_orthogonality Hzx) ?ltn_pmod //.
  rewrite -(fourier_orthogonality Hzy); last 2 first.
  - by rewrite ltn_divLR // [(ny * nx)%N]mulnC ltn_divLR.
  - by rewrite ltn_divLR // [(ny * nx)%N]mulnC ltn_divLR.
  rewrite mulr_suml.
  rewrite (big_divmodC _ nx ny (fun kx ky =>
     ((zx ^+ kx)^-1 ^+ ((r %/ ns) %% nx) * (zy ^+ ky)^-1 ^+ ((r %/ ns) %/ nx))
     * ((zx ^+ kx) ^+ ((r' %/ ns) %% nx) * (zy ^+ ky) ^+ ((r' %/ ns) %/ nx)))).
  apply: eq_bigr => kx _; rewrite mulr_sumr; apply: eq_bigr => ky _.
  by rewrite mulrACA.
have -> : (r == r') = [&& (r %% ns == r' %% ns)%N, ((r %/ ns) %% nx == (r' %/ ns) %% nx)%N
                        & ((r %/ ns) %/ nx == (r' %/ ns) %/ nx)%N].
  apply/eqP/and3P => [->|[/eqP e1 /eqP e2 /eqP e3]]; first by rewrite !eqxx.
  apply: val_inj; rewrite /= (divn_eq r ns) (divn_eq r' ns) e1.
  by rewrite (divn_eq (r %/ ns) nx) (divn_eq (r' %/ ns) nx) e2 e3.
by do 3![case: (_ == _)]; rewrite /= ?mulr1n ?mulr0n ?mul0r ?mulr0 // natrM.
Qed.

Hypothesis HN : (nx * ny)%:R != 0 :> F.

(* Phi is invertible, with the explicit inverse (nx*ny)^-1 Phi' *)
Lemma bloch_mx_inverse : Phi *m ((N%:R)^-1 *: Phi') = 1%:M.
Proof. by rewrite -scalemxAr bloch_mx_orthogonal scale_scalar_mx mulVf. Qed.

Lemma bloch_mx_unit : Phi \in unitmx.
Proof. by case: (mulmx1_unit bloch_mx_inverse). Qed.

(* A_tiled = Phi . diag_k H(k) . Phi^-1 *)
Lemma tiled_similar : A = Phi *m D *m ((N%:R)^-1 *: Phi').
Proof. by rewrite -bloch_mx_intertwines -mulmxA bloch_mx_inverse mulmx1. Qed.

(* the characteristic polynomial of the tiling is the product over the grid momenta *)
Theorem bloch_complete_char_poly :
  char_poly A = \prod_(k < N) char_poly (hk_mx c t tb (zx ^+ (k %% nx)) (zy ^+ (k %/ nx))).
Proof.
rewrite tiled_similar (char_poly_similar _ bloch_mx_inverse) /hk_diag_mx char_poly_bdiag.
by apply: eq_bigr => k _; rewrite hk_diag_blk.
Qed.

(* the same, written over the nx x ny grid of momenta k = 2 pi (kx/nx, ky/ny) *)
Theorem bloch_complete_grid :
  char_poly A = \prod_(kx < nx) \prod_(ky < ny) char_poly (hk_mx c t tb (zx ^+ kx) (zy ^+ ky)).
Proof.
rewrite bloch_complete_char_poly.
exact: (big_divmodC _ nx ny (fun kx ky => char_poly (hk_mx c t tb (zx ^+ kx) (zy ^+ ky)))).
Qed.

(* union of the Bloch spectra = spectrum of the tiling (as sets; the multiplicities are in the
   characteristic polynomials above) *)
Theorem bloch_complete_eigenvalue (lam : F) :
  eigenvalue A lam
  = [exists kx : 'I_nx, exists ky : 'I_ny, eigenvalue (hk_mx c t tb (zx ^+ kx) (zy ^+ ky)) lam].
Proof.
rewrite eigenvalue_root_char bloch_complete_grid root_prod_ord.
apply: eq_existsb => kx; rewrite root_prod_ord.
by apply: eq_existsb => ky; rewrite eigenvalue_root_char.
Qed.

End Cell.
End Complete.
