(* Proofs/ExamplesClaims.v — the C10 property statements assembled from ExamplesFacts / ExamplesIndex /
   ExamplesCensus* (so that Props/C10.v only contains `exact`). *)
From Coq Require Import List ZArith Bool Arith Lia.
From Koala Require Import Gen.TilingGen Model.Lattice Model.Tiling Model.Examples
     Proofs.TilingFacts Proofs.TilingCount Proofs.ExamplesFacts Proofs.ExamplesIndex
     Proofs.ExamplesCensus Proofs.ExamplesCensusHC1 Proofs.ExamplesCensusHC2 Proofs.ExamplesCensusHC3.
Import ListNotations.
Open Scope Z_scope.

Definition tiling_claim (L : lattice) (census : list (nat * nat)) (d : nat) : Prop :=
  (exists ps, find_all_plaquettes L = Some ps /\
     (forall k c, In (k, c) census -> count_sides ps k = c) /\
     length ps = fold_right Nat.add 0%nat (map snd census) /\
     area2_sum ps = 2 * scale L * scale L /\
     two_sided L ps = true /\
     (nV L + length ps = nE L)%nat) /\
  (length (coordination L) = nV L /\ forall x, In x (coordination L) -> x = d).

Lemma tiling_claim_of_bool L census d :
  closed_tiling L census && all_degree L d = true -> tiling_claim L census d.
Proof.
  intros H. apply andb_true_iff in H as (H1 & H2). split; [now apply closed_tiling_spec | now apply all_degree_spec].
Qed.

Lemma honeycomb_index_structure_claim :
  forall n : Z, 1 <= n ->
  let nv := honeycomb_nv n in let N := nv * n in let L := honeycomb n in
  1 <= nv /\
  (zlen (z_pos L) = 4 * N /\ zlen (z_edges L) = 6 * N /\ zlen (z_crossing L) = 6 * N /\
   zlen (honeycomb_coloring n) = 6 * N /\ zlen (make_honeycomb_ujk n) = 6 * N) /\
  (forall v, 0 <= v < 4 * N -> zdegree (z_edges L) v = 3) /\
  (forall cx cy, 0 <= cx < n -> 0 <= cy < nv -> let c := cy * n + cx in
     znth (3*c) (z_edges L) (0,0) = (4*c, 4*c+1) /\ znth (3*c+1) (z_edges L) (0,0) = (4*c+2, 4*c+1) /\
     znth (3*c+2) (z_edges L) (0,0) = (4*c+2, 4*c+3) /\
     znth (3*c) (z_crossing L) (0,0) = (0,0) /\ znth (3*c+1) (z_crossing L) (0,0) = (0,0) /\
     znth (3*c+2) (z_crossing L) (0,0) = (0,0) /\
     znth (3*c) (honeycomb_coloring n) 0 = 0 /\ znth (3*c+1) (honeycomb_coloring n) 0 = 2 /\
     znth (3*c+2) (honeycomb_coloring n) 0 = 0 /\
     znth (3*N + c) (z_edges L) (0,0) = (4*c+2, 4*(cy*n + (cx+1) mod n) + 1) /\
     znth (3*N + c) (z_crossing L) (0,0) = ((cx+1)/n, 0) /\ znth (3*N + c) (honeycomb_coloring n) 0 = 1 /\
     znth (4*N + c) (z_edges L) (0,0) = (4*(((cy+1) mod nv)*n + cx), 4*c+3) /\
     znth (4*N + c) (z_crossing L) (0,0) = (0, - ((cy+1)/nv)) /\ znth (4*N + c) (honeycomb_coloring n) 0 = 1 /\
     znth (5*N + c) (z_edges L) (0,0) = (4*(((cy+1) mod nv)*n + (cx+1) mod n), 4*c+3) /\
     znth (5*N + c) (z_crossing L) (0,0) = (- ((cx+1)/n), - ((cy+1)/nv)) /\
     znth (5*N + c) (honeycomb_coloring n) 0 = 2).
Proof.
  intros n Hn. cbv zeta. split; [now apply ExamplesFacts.honeycomb_nv_pos|].
  split; [exact (honeycomb_lengths n Hn)|]. split; [exact (honeycomb_degree n Hn)|]. exact (honeycomb_index n Hn).
Qed.

Lemma hso_index_structure_claim :
  forall n : Z, 1 <= n -> let N := n * n in let L := hex_square_oct n in
  (zlen (z_pos L) = 6 * N /\ zlen (z_edges L) = 9 * N /\ zlen (z_crossing L) = 9 * N) /\
  (forall v, 0 <= v < 6 * N -> zdegree (z_edges L) v = 3) /\
  (forall cx cy, 0 <= cx < n -> 0 <= cy < n -> let c := cy * n + cx in
     (forall k, 0 <= k < 6 -> znth (6*c+k) (z_edges L) (0,0) = (6*c+k, 6*c+(k+1) mod 6) /\
                              znth (6*c+k) (z_crossing L) (0,0) = (0,0)) /\
     znth (6*N+c) (z_edges L) (0,0) = (6*c+4, 6*(cy*n+(cx+1) mod n)+2) /\ znth (6*N+c) (z_crossing L) (0,0) = ((cx+1)/n, 0) /\
     znth (7*N+c) (z_edges L) (0,0) = (6*(cy*n+(cx+1) mod n)+1, 6*c+5) /\ znth (7*N+c) (z_crossing L) (0,0) = (-((cx+1)/n), 0) /\
     znth (8*N+c) (z_edges L) (0,0) = (6*(((cy+1) mod n)*n+cx), 6*c+3) /\ znth (8*N+c) (z_crossing L) (0,0) = (0, -((cy+1)/n))).
Proof.
  intros n Hn. cbv zeta. split; [exact (hso_lengths n Hn)|]. split; [exact (hso_degree n Hn)|]. exact (hso_index n Hn).
Qed.

Lemma square_index_structure_claim :
  forall nx ny : Z, 1 <= nx -> 1 <= ny -> let N := nx * ny in let L := square nx ny in
  (zlen (z_pos L) = N /\ zlen (z_edges L) = 2 * N /\ zlen (z_crossing L) = 2 * N) /\
  (forall v, 0 <= v < N -> zdegree (z_edges L) v = 4) /\
  (forall i j, 0 <= i < nx -> 0 <= j < ny -> let c := i * ny + j in
     znth c (z_pos L) (0,0) = ((2*i+1)*ny, (2*j+1)*nx) /\ z_scale L = 2*nx*ny /\
     znth c (z_edges L) (0,0) = (((i-1) mod nx)*ny+j, c) /\ znth c (z_crossing L) (0,0) = (b2z (i =? 0), 0) /\
     znth (N+c) (z_edges L) (0,0) = (i*ny+(j-1) mod ny, c) /\ znth (N+c) (z_crossing L) (0,0) = (0, b2z (j =? 0))).
Proof.
  intros nx ny Hx Hy. cbv zeta. split; [exact (square_lengths nx ny Hx Hy)|].
  split; [exact (square_degree nx ny Hx Hy)|]. exact (square_index nx ny Hx Hy).
Qed.

Lemma coloring_proper_claim :
  (forall n : Z, 1 <= n ->
     proper_coloring (4 * (honeycomb_nv n * n)) (z_edges (honeycomb n)) (honeycomb_coloring n) = true) /\
  (forall nx ny : Z, 1 <= nx -> 1 <= ny ->
     proper_coloring (nx * ny * 4) (z_edges (tri_non nx ny)) (tri_non_coloring nx ny) = true).
Proof. split; [exact honeycomb_coloring_proper | exact tri_non_coloring_proper]. Qed.

Lemma polygons_bounded_claim :
  (forall n, 2 <= n <= 16 ->
     tiling_claim (to_lattice (honeycomb n)) [(6%nat, Z.to_nat (2 * n * honeycomb_nv n))] 3) /\
  (forall n, 2 <= n <= 8 ->
     tiling_claim (to_lattice (hex_square_oct n))
                  [(4%nat, Z.to_nat (n * n)); (6%nat, Z.to_nat (n * n)); (8%nat, Z.to_nat (n * n))] 3) /\
  (forall nx ny, 2 <= nx <= 6 -> 2 <= ny <= 6 ->
     tiling_claim (to_lattice (tri_non nx ny)) [(3%nat, Z.to_nat (nx * ny)); (9%nat, Z.to_nat (nx * ny))] 3) /\
  (forall nx ny, 2 <= nx <= 8 -> 2 <= ny <= 8 ->
     tiling_claim (to_lattice (square nx ny)) [(4%nat, Z.to_nat (nx * ny))] 4).
Proof.
  split; [|split; [|split]].
  - intros n Hn. apply tiling_claim_of_bool. fold (honeycomb_ok n).
    destruct (Z_le_dec n 13); [apply honeycomb_census_2_13; lia|].
    destruct (Z_le_dec n 15); [apply honeycomb_census_14_15; lia|]. apply honeycomb_census_16; lia.
  - intros n Hn. apply tiling_claim_of_bool. exact (hso_census_2_8 n Hn).
  - intros nx ny Hx Hy. apply tiling_claim_of_bool. exact (tri_non_census_2_6 nx ny Hx Hy).
  - intros nx ny Hx Hy. apply tiling_claim_of_bool. exact (square_census_2_8 nx ny Hx Hy).
Qed.

Lemma polygon_wheel_ladder_index_claim :
  (forall s ps n, 0 <= n -> let L := single_plaquette s ps n in
     zlen (z_edges L) = n /\ zlen (z_crossing L) = n /\
     forall i, 0 <= i < n -> znth i (z_edges L) (0,0) = (i, (i+1) mod n) /\ znth i (z_crossing L) (0,0) = (0,0)) /\
  (forall s ps n, 0 <= n -> zlen ps = n -> let L := higher_coordination s ps n in
     zlen (z_pos L) = n+1 /\ zlen (z_edges L) = 2*n /\ zlen (z_crossing L) = 2*n /\ znth n (z_pos L) (0,0) = (s/2, s/2) /\
     (forall i, 0 <= i < n -> znth i (z_pos L) (0,0) = znth i ps (0,0)) /\
     forall i, 0 <= i < n -> znth i (z_edges L) (0,0) = (i, (i+1) mod n) /\ znth (n+i) (z_edges L) (0,0) = (i, n) /\
                            znth i (z_crossing L) (0,0) = (0,0) /\ znth (n+i) (z_crossing L) (0,0) = (0,0)) /\
  (forall n, 0 <= n ->
     zlen (ladder_edges n) = 3*n /\ zlen (ladder_crossing n) = 3*n /\ zlen (ladder_pos n) = 2*n /\
     forall i, 0 <= i < n ->
       znth i (ladder_edges n) (0,0) = (i, (i+1) mod n) /\
       znth (n+i) (ladder_edges n) (0,0) = (i+n, (i+1) mod n + n) /\
       znth (2*n+i) (ladder_edges n) (0,0) = (i, i+n) /\
       znth i (ladder_crossing n) (0,0) = (b2z (i =? n-1), 0) /\
       znth (n+i) (ladder_crossing n) (0,0) = (b2z (i =? n-1), 0) /\
       znth (2*n+i) (ladder_crossing n) (0,0) = (0,0) /\
       znth i (ladder_pos n) (0,0) = (n-1+18*i, 6*(n-1)) /\
       znth (n+i) (ladder_pos n) (0,0) = (n-1+18*i, 14*(n-1))).
Proof. split; [exact single_plaquette_index | split; [exact higher_coordination_index | exact ladder_index]]. Qed.

Lemma ladder_census_bounded_claim :
  forall n, 3 <= n <= 30 ->
  exists ps, find_all_plaquettes (to_lattice (n_ladder_straight n)) = Some ps /\
    (forall k c, In (k, c) [(4%nat, Z.to_nat n)] -> count_sides ps k = c) /\
    length ps = fold_right Nat.add 0%nat (map snd [(4%nat, Z.to_nat n)]) /\
    (forall p, In p ps -> 0 < p_area2 p).
Proof. intros n Hn. apply open_census_spec. exact (ladder_census_3_30 n Hn). Qed.

Lemma make_honeycomb_flux_bounded_claim :
  forall n, 2 <= n <= 12 ->
  exists ps, find_all_plaquettes (to_lattice (honeycomb n)) = Some ps /\
             forall p, In p ps -> flux_of (make_honeycomb_ujk n) p = 1.
Proof.
  intros n Hn. pose proof (honeycomb_flux_2_12 n Hn) as H. unfold honeycomb_flux_sector_ok in H.
  destruct (find_all_plaquettes (to_lattice (honeycomb n))) as [ps|]; [|discriminate].
  exists ps. split; [reflexivity|]. intros p Hp. rewrite forallb_forall in H. specialize (H p Hp). now apply Z.eqb_eq.
Qed.
