(* Proofs/HamBisect.v — bisect_lattice (hamiltonian.py:6-36): the relabelling keeps the edge order and,
   when the chosen colour class is a perfect matching, separates the two ends of each of its edges
   into the two halves.  np.argsort is an external routine: any permutation sorting the labels. *)
From Coq Require Import List ZArith Bool Arith Lia ZifyBool Permutation.
From Koala Require Import Model.Ham Proofs.HamFacts.
Import ListNotations.
Open Scope nat_scope.

(* ---------- bisect_lattice (hamiltonian.py:6-36) ---------- *)

(* edge order is kept: the dimer edges of the relabelled lattice are the relabelled dimer edges, in order *)
Lemma dimer_edges_map : forall (f : edge -> edge) edges sol along,
  dimer_edges (map f edges) sol along = map f (dimer_edges edges sol along).
Proof.
  intros f edges sol along. unfold dimer_edges. revert sol.
  induction edges as [|e et IH]; intros [|c sol]; simpl; auto.
  destruct (Nat.eqb c along); simpl; rewrite IH; reflexivity.
Qed.

Lemma permute_edges_length : forall V ordering edges, length (permute_edges V ordering edges) = length edges.
Proof. intros; unfold permute_edges; apply map_length. Qed.

Lemma permute_edges_nth : forall V ordering edges e, (e < length edges)%nat ->
  nth e (permute_edges V ordering edges) (0, 0)%nat
  = (nth (fst (nth e edges (0, 0)%nat)) (inverse_ordering V ordering) 0%nat,
     nth (snd (nth e edges (0, 0)%nat)) (inverse_ordering V ordering) 0%nat).
Proof.
  intros V ordering edges e He. unfold permute_edges.
  set (f := fun e0 : edge => (nth (fst e0) (inverse_ordering V ordering) 0%nat, nth (snd e0) (inverse_ordering V ordering) 0%nat)).
  rewrite (nth_indep _ (0, 0)%nat (f (0, 0)%nat)) by (rewrite map_length; exact He).
  rewrite (map_nth f). reflexivity.
Qed.

(* labels after the two passes *)
Definition write0 (l : list nat) (d : list edge) := fold_left (fun l e => set_at l (fst e) 0%nat) d l.
Definition write1 (l : list nat) (d : list edge) := fold_left (fun l e => set_at l (snd e) 1%nat) d l.

Lemma write1_length : forall d l, length (write1 l d) = length l.
Proof. induction d as [|e d IH]; intros l; simpl; auto. unfold write1 in *; simpl. rewrite IH, set_at_length; reflexivity. Qed.
Lemma write0_length : forall d l, length (write0 l d) = length l.
Proof. induction d as [|e d IH]; intros l; simpl; auto. unfold write0 in *; simpl. rewrite IH, set_at_length; reflexivity. Qed.

Lemma write1_nth : forall d l v, (v < length l)%nat ->
  nth v (write1 l d) 0%nat = if existsb (fun e => Nat.eqb (snd e) v) d then 1%nat else nth v l 0%nat.
Proof.
  induction d as [|e d IH]; intros l v Hv; simpl; auto.
  unfold write1 in *; simpl. rewrite IH by (rewrite set_at_length; exact Hv).
  destruct (existsb (fun e0 => Nat.eqb (snd e0) v) d) eqn:E; [rewrite orb_true_r; reflexivity|].
  rewrite orb_false_r, nth_set_at.
  destruct (Nat.eqb (snd e) v) eqn:E2.
  - apply Nat.eqb_eq in E2. subst. rewrite Nat.eqb_refl. simpl.
    destruct (snd e <? length l)%nat eqn:E3; auto. apply Nat.ltb_ge in E3. lia.
  - rewrite Nat.eqb_sym, E2. reflexivity.
Qed.

Lemma write0_nth_01 : forall d l v, (forall w, nth w l 0%nat = 0%nat) -> nth v (write0 l d) 0%nat = 0%nat.
Proof.
  induction d as [|e d IH]; intros l v Hl; simpl; auto.
  unfold write0 in *; simpl. apply IH. intros w. rewrite nth_set_at.
  destruct (_ && _); auto.
Qed.

Lemma labels_spec : forall V edges sol along v, (v < V)%nat ->
  nth v (sublattice_labels V edges sol along) 0%nat
  = if existsb (fun e => Nat.eqb (snd e) v) (dimer_edges edges sol along) then 1%nat else 0%nat.
Proof.
  intros V edges sol along v Hv. unfold sublattice_labels.
  set (d := dimer_edges edges sol along).
  fold (write0 (repeat 0%nat V) d). fold (write1 (write0 (repeat 0%nat V) d) d).
  rewrite write1_nth by (rewrite write0_length, repeat_length; exact Hv).
  destruct (existsb (fun e => Nat.eqb (snd e) v) d); auto.
  apply write0_nth_01. intros w.
  destruct (Nat.lt_ge_cases w V).
  - apply nth_repeat.
  - apply nth_overflow. rewrite repeat_length. lia.
Qed.

Lemma labels_length : forall V edges sol along, length (sublattice_labels V edges sol along) = V.
Proof.
  intros. unfold sublattice_labels.
  set (d := dimer_edges edges sol along).
  fold (write0 (repeat 0%nat V) d). fold (write1 (write0 (repeat 0%nat V) d) d).
  rewrite write1_length, write0_length, repeat_length. reflexivity.
Qed.

(* ---------- counting ---------- *)
Lemma list_sum_perm : forall l1 l2, Permutation l1 l2 -> list_sum l1 = list_sum l2.
Proof. induction 1; simpl; lia. Qed.

Lemma indicator_sum : forall x n a,
  list_sum (map (fun v => if Nat.eqb x v then 1 else 0) (seq a n)) = if (a <=? x) && (x <? a + n) then 1 else 0.
Proof.
  intros x. induction n as [|n IH]; intros a; simpl.
  - destruct (a <=? x) eqn:E1, (x <? a + 0) eqn:E2; simpl; auto. apply Nat.leb_le in E1. apply Nat.ltb_lt in E2. lia.
  - rewrite IH. destruct (Nat.eqb x a) eqn:E.
    + apply Nat.eqb_eq in E. subst.
      replace (S a <=? a) with false by (symmetry; apply Nat.leb_gt; lia). simpl.
      replace (a <=? a) with true by (symmetry; apply Nat.leb_le; lia).
      replace (a <? a + S n) with true by (symmetry; apply Nat.ltb_lt; lia). reflexivity.
    + apply Nat.eqb_neq in E.
      destruct (S a <=? x) eqn:E1, (x <? S a + n) eqn:E2, (a <=? x) eqn:E3, (x <? a + S n) eqn:E4; simpl; auto;
        try apply Nat.leb_le in E1; try apply Nat.leb_gt in E1; try apply Nat.ltb_lt in E2; try apply Nat.ltb_ge in E2;
        try apply Nat.leb_le in E3; try apply Nat.leb_gt in E3; try apply Nat.ltb_lt in E4; try apply Nat.ltb_ge in E4; lia.
Qed.

Definition cnt (g : edge -> nat) (d : list edge) (v : nat) : nat := length (filter (fun e => Nat.eqb (g e) v) d).

Lemma list_sum_map_add : forall (f h : nat -> nat) l,
  list_sum (map (fun v => f v + h v) l) = list_sum (map f l) + list_sum (map h l).
Proof. induction l; simpl; lia. Qed.

Lemma cnt_total : forall (g : edge -> nat) V d, (forall e, In e d -> g e < V) ->
  list_sum (map (cnt g d) (seq 0 V)) = length d.
Proof.
  intros g V. induction d as [|e d IH]; intros Hlt; simpl.
  - unfold cnt; simpl. induction (seq 0 V); simpl; auto.
  - rewrite <- IH by (intros; apply Hlt; right; assumption).
    assert (He : g e < V) by (apply Hlt; left; reflexivity).
    transitivity (list_sum (map (fun v => (if Nat.eqb (g e) v then 1 else 0) + cnt g d v) (seq 0 V))).
    + f_equal. apply map_ext. intros v. unfold cnt; simpl. destruct (Nat.eqb (g e) v); simpl; lia.
    + rewrite list_sum_map_add, indicator_sum.
      replace (0 <=? g e) with true by (symmetry; apply Nat.leb_le; lia).
      replace (g e <? 0 + V) with true by (symmetry; apply Nat.ltb_lt; lia). simpl. lia.
Qed.

Lemma cnt_pos_iff : forall g d v, existsb (fun e => Nat.eqb (g e) v) d = true <-> 1 <= cnt g d v.
Proof.
  intros g d v. unfold cnt. induction d as [|e d IH]; simpl; [split; [discriminate|lia]|].
  destruct (Nat.eqb (g e) v); simpl; [split; auto; lia|exact IH].
Qed.

(* ---------- sorted 0/1 lists ---------- *)
Lemma sortedb_tail : forall x t, sortedb (x :: t) = true -> sortedb t = true.
Proof. intros x [|y t] H; simpl in *; auto. apply andb_true_iff in H. tauto. Qed.

Lemma sorted_ones : forall t, sortedb (1 :: t) = true -> (forall x, In x t -> x <= 1) -> forall y, In y t -> y = 1.
Proof.
  induction t as [|z t IH]; intros Hs Hb y Hy; [inversion Hy|].
  assert (Hs' : (1 <=? z) && sortedb (z :: t) = true) by exact Hs.
  apply andb_true_iff in Hs'. destruct Hs' as [Hz Hs']. apply Nat.leb_le in Hz.
  assert (z = 1) by (specialize (Hb z (or_introl eq_refl)); lia). subst z.
  destruct Hy as [<-|Hy]; auto. apply IH; auto. intros x Hx. apply Hb. right. exact Hx.
Qed.

Lemma sum_le_length : forall m, (forall x, In x m -> x <= 1) -> list_sum m <= length m.
Proof.
  induction m as [|x t IH]; intros Hb; simpl; auto.
  specialize (IH (fun y Hy => Hb y (or_intror Hy))). specialize (Hb x (or_introl eq_refl)). lia.
Qed.

Lemma sorted01 : forall m, sortedb m = true -> (forall x, In x m -> x <= 1) ->
  forall i, i < length m -> (nth i m 0 = 1 <-> length m - list_sum m <= i).
Proof.
  induction m as [|x t IH]; intros Hs Hb i Hi; simpl in Hi; [lia|].
  assert (Hbt : forall y, In y t -> y <= 1) by (intros y Hy; apply Hb; right; exact Hy).
  assert (Hx : x <= 1) by (apply Hb; left; reflexivity).
  pose proof (sum_le_length t Hbt) as Hle.
  destruct x as [|[|x]]; [| |lia].
  - (* head 0 *)
    change (list_sum (0 :: t)) with (list_sum t). change (length (0 :: t)) with (S (length t)).
    destruct i as [|i]; cbn [nth].
    + split; intros; lia.
    + rewrite (IH (sortedb_tail _ _ Hs) Hbt i) by lia. lia.
  - (* head 1: everything is 1 *)
    pose proof (sorted_ones t Hs Hbt) as Hall.
    assert (Hsum : list_sum t = length t).
    { clear -Hall. induction t as [|y t IH]; simpl; auto.
      rewrite (Hall y (or_introl eq_refl)). rewrite IH; auto. intros z Hz. apply Hall. right. exact Hz. }
    change (list_sum (1 :: t)) with (S (list_sum t)). change (length (1 :: t)) with (S (length t)).
    rewrite Hsum. split; intros _; [lia|].
    destruct i as [|i]; cbn [nth]; auto. apply Hall. apply nth_In. lia.
Qed.

(* ---------- bisect_spec ---------- *)
Lemma sum_ones : forall n a, list_sum (map (fun _ => 1) (seq a n)) = n.
Proof. induction n as [|n IH]; intros a; simpl; auto. Qed.

Lemma wf_edges_In : forall V d e, wf_edges V d = true -> In e d -> fst e < V /\ snd e < V.
Proof.
  intros V d e Hwf Hin. unfold wf_edges in Hwf. rewrite forallb_forall in Hwf.
  specialize (Hwf e Hin). apply andb_true_iff in Hwf. destruct Hwf as [H1 H2].
  apply Nat.ltb_lt in H1. apply Nat.ltb_lt in H2. tauto.
Qed.

Theorem bisect_spec : forall V edges sol along ordering,
  let d := dimer_edges edges sol along in
  let L := sublattice_labels V edges sol along in
  perfect_matching V d = true ->
  Permutation ordering (seq 0 V) ->
  sortedb (map (fun i => nth i L 0) ordering) = true ->
  opposite_halves V (dimer_edges (permute_edges V ordering edges) sol along) = true.
Proof.
  intros V edges sol along ordering d L Hpm Hperm Hsorted.
  unfold perfect_matching in Hpm. apply andb_true_iff in Hpm. destruct Hpm as [Hone Hwf].
  rewrite forallb_forall in Hone.
  assert (Hone' : forall v, v < V -> cnt fst d v + cnt snd d v = 1).
  { intros v Hv. specialize (Hone v). rewrite in_seq in Hone. specialize (Hone (conj (Nat.le_0_l _) Hv)).
    apply Nat.eqb_eq in Hone. exact Hone. }
  (* V = 2 |d| *)
  assert (HF : list_sum (map (cnt fst d) (seq 0 V)) = length d)
    by (apply cnt_total; intros e He; apply (wf_edges_In V d e Hwf He)).
  assert (HS : list_sum (map (cnt snd d) (seq 0 V)) = length d)
    by (apply cnt_total; intros e He; apply (wf_edges_In V d e Hwf He)).
  assert (HV : V = length d + length d).
  { rewrite <- HF at 1. rewrite <- HS. rewrite <- list_sum_map_add.
    transitivity (list_sum (map (fun _ => 1) (seq 0 V))).
    - symmetry. apply sum_ones.
    - f_equal. apply map_ext_in. intros v Hv. apply in_seq in Hv. symmetry. apply Hone'. lia. }
  (* labels = number of times the vertex is a second end *)
  assert (HL : forall v, v < V -> nth v L 0 = cnt snd d v).
  { intros v Hv. unfold L. rewrite labels_spec by exact Hv. fold d.
    destruct (existsb (fun e => Nat.eqb (snd e) v) d) eqn:E.
    - apply cnt_pos_iff in E. specialize (Hone' v Hv). lia.
    - destruct (cnt snd d v) eqn:E2; auto.
      assert (existsb (fun e => Nat.eqb (snd e) v) d = true) by (apply cnt_pos_iff; lia). congruence. }
  (* facts about the ordering *)
  assert (Hlen : length ordering = V) by (rewrite (Permutation_length Hperm); apply seq_length).
  assert (Hnd : NoDup ordering) by (apply (Permutation_NoDup (Permutation_sym Hperm)); apply seq_NoDup).
  assert (Hlt : forall x, In x ordering -> x < V).
  { intros x Hx. apply (Permutation_in _ Hperm) in Hx. apply in_seq in Hx. lia. }
  set (m := map (fun i => nth i L 0) ordering) in *.
  assert (Hm1 : forall x, In x m -> x <= 1).
  { intros x Hx. unfold m in Hx. apply in_map_iff in Hx. destruct Hx as [i [<- Hi]].
    rewrite HL by (apply Hlt; exact Hi). specialize (Hone' i (Hlt i Hi)). lia. }
  assert (Hmlen : length m = V) by (unfold m; rewrite map_length; exact Hlen).
  assert (Hmsum : list_sum m = length d).
  { unfold m. rewrite (list_sum_perm _ _ (Permutation_map _ Hperm)).
    rewrite <- HS. f_equal. apply map_ext_in. intros v Hv. apply in_seq in Hv. apply HL. lia. }
  (* position of a vertex in the new order *)
  assert (Hpos : forall v, v < V -> exists i, i < V /\ nth i ordering 0 = v /\ nth v (inverse_ordering V ordering) 0 = i
                                         /\ nth i m 0 = nth v L 0).
  { intros v Hv. assert (Hin : In v ordering) by (apply (Permutation_in _ (Permutation_sym Hperm)); apply in_seq; lia).
    destruct (In_nth _ _ 0 Hin) as [i [Hi Hnth]]. exists i. rewrite Hlen in Hi. repeat split; auto.
    - rewrite <- Hnth. apply inverse_ordering_spec; auto.
    - unfold m. rewrite (nth_indep _ 0 ((fun i => nth i L 0) 0)) by (rewrite map_length; lia).
      rewrite (map_nth (fun i => nth i L 0)), Hnth. reflexivity. }
  (* the conclusion, edge by edge *)
  unfold permute_edges. rewrite dimer_edges_map. fold d.
  unfold opposite_halves. rewrite forallb_forall. intros e' He'.
  apply in_map_iff in He'. destruct He' as [[j k] [<- He]]. simpl.
  destruct (wf_edges_In V d (j, k) Hwf He) as [Hj Hk]. simpl in Hj, Hk.
  destruct (Hpos j Hj) as [ij [Hij [_ [Hinvj Hmj]]]].
  destruct (Hpos k Hk) as [ik [Hik [_ [Hinvk Hmk]]]].
  rewrite Hinvj, Hinvk.
  (* k is a second end, j is not *)
  assert (Hck : 1 <= cnt snd d k).
  { apply cnt_pos_iff. apply existsb_exists. exists (j, k). split; auto. simpl. apply Nat.eqb_refl. }
  assert (Hcj : 1 <= cnt fst d j).
  { apply cnt_pos_iff. apply existsb_exists. exists (j, k). split; auto. simpl. apply Nat.eqb_refl. }
  pose proof (Hone' j Hj) as H1j. pose proof (Hone' k Hk) as H1k.
  pose proof (sorted01 m Hsorted Hm1 ij (eq_ind_r (fun n => ij < n) Hij Hmlen)) as Sj.
  pose proof (sorted01 m Hsorted Hm1 ik (eq_ind_r (fun n => ik < n) Hik Hmlen)) as Sk.
  rewrite Hmj, (HL j Hj), Hmlen, Hmsum in Sj. rewrite Hmk, (HL k Hk), Hmlen, Hmsum in Sk.
  apply andb_true_iff. split; [apply Nat.ltb_lt|apply Nat.leb_le].
  - assert (~ (V - length d <= ij)) by (intros Hc; apply Sj in Hc; lia). lia.
  - assert (V - length d <= ik) by (apply Sk; lia). lia.
Qed.

(* ---------- the boolean contract of np.argsort, as run by the driver on the implementation's vertex order ---------- *)
Lemma is_perm_of_range_sound : forall V ordering,
  is_perm_of_range V ordering = true -> Permutation ordering (seq 0 V).
Proof.
  intros V ordering H. unfold is_perm_of_range in H. apply andb_true_iff in H. destruct H as [Hlen Hocc].
  apply Nat.eqb_eq in Hlen. rewrite forallb_forall in Hocc.
  apply Permutation_sym. apply NoDup_Permutation_bis.
  - apply seq_NoDup.
  - rewrite seq_length. lia.
  - intros v Hv. specialize (Hocc v Hv). apply Nat.eqb_eq in Hocc.
    apply (count_occ_In Nat.eq_dec). lia.
Qed.

Theorem bisect_spec_checked : forall V edges sol along ordering,
  perfect_matching V (dimer_edges edges sol along) = true ->
  is_argsort (sublattice_labels V edges sol along) ordering = true ->
  opposite_halves V (dimer_edges (permute_edges V ordering edges) sol along) = true.
Proof.
  intros V edges sol along ordering Hpm Hargs.
  unfold is_argsort in Hargs. apply andb_true_iff in Hargs. destruct Hargs as [Hperm Hsorted].
  rewrite labels_length in Hperm.
  apply bisect_spec; auto. apply is_perm_of_range_sound. exact Hperm.
Qed.
