(* Proofs/AStarBudget.v — astar_budget: in BOTH stopping modes the search (loop of pathfinding.py after fix
   475bcae: maxits bounds the number of expanded nodes, popping the goal is free) finds the goal with maxits >= E
   on every graph with edge ids below E in which the goal is reachable, for a cost function that is consistent
   towards the goal.  Accounting: every queue entry except the first one is paid for by a distinct undirected
   edge (an edge a - b is relaxed at most once: from the endpoint that is expanded first, whose cost is then
   optimal and final); when E nodes have been expanded and the queue is not empty, all E edges have paid, so the
   goal has an entry, and the single entry left is the goal's. *)
From Coq Require Import List ZArith Bool Arith Lia ZifyBool.
From Koala Require Import Model.AStar Proofs.AStarFacts Proofs.AStarOptimal.
Import ListNotations.
Open Scope Z_scope.

Lemma as_pq_remove_length : forall m l, In m l -> S (length (as_pq_remove m l)) = length l.
Proof.
  induction l as [| z l IH]; intros Hin; simpl in *; [contradiction |].
  destruct (as_entry_eqb m z) eqn:E; [reflexivity |].
  destruct Hin as [-> | Hin].
  - unfold as_entry_eqb in E. rewrite Z.eqb_refl, Nat.eqb_refl in E. discriminate.
  - simpl. now rewrite IH.
Qed.
Lemma as_pq_get_length : forall q m rest, as_pq_get q = Some (m, rest) -> S (length rest) = length q.
Proof.
  intros [| x r] m rest H; [discriminate |]. unfold as_pq_get in H. cbv zeta in H. injection H as <- <-.
  assert (Hin : In (as_pq_min x r) (x :: r)) by (destruct (as_pq_min_in r x) as [-> | Hin]; [now left | now right]).
  exact (as_pq_remove_length (as_pq_min x r) (x :: r) Hin).
Qed.

Section Budget.
  Variable adj : nat -> list (nat * nat).
  Variable h : nat -> nat -> Z.
  Variable start goal : nat.
  Variable E : nat.
  Variable early : bool.
  Hypothesis Hh : forall a b e, In (b, e) (adj a) -> 0 <= h a b /\ (a <> b -> 0 < h a b).
  Hypothesis Hcons : forall a b e, In (b, e) (adj a) -> h a goal <= h a b + h b goal.
  Hypothesis Hhg : forall n, 0 <= h n goal.
  Hypothesis Hgs : goal <> start.
  (* the graph: edge ids below E, an edge id has one unordered pair of ends, the goal is reachable *)
  Hypothesis G1 : forall a b e, In (b, e) (adj a) -> (e < E)%nat.
  Hypothesis G2 : forall a b e a' b', In (b, e) (adj a) -> In (b', e) (adj a') -> (a = a' /\ b = b') \/ (a = b' /\ b = a').
  Hypothesis G3 : exists ws es, as_chain adj ws es /\ hd_error ws = Some goal /\ last ws goal = start.

  Notation closed := (as_closed adj h).
  Notation Fp := (F_parent h start).
  Notation Ff := (F_front h start goal).
  Notation Fo := (F_open adj h start goal).
  Notation inv := (as_st_inv adj start goal early).

  (* the goal's current entry stays in the queue (it is only removed by popping the goal, which returns) *)
  Definition Fg (st : as_state) : Prop :=
    forall cg, as_lookup goal (as_cost st) = Some cg -> In (cg + h goal goal, goal) (as_frontier st).

  Definition Optimal (n : nat) (c : Z) : Prop :=
    forall ws es, as_chain adj ws es -> hd_error ws = Some n -> (forall d, last ws d = start) -> c <= as_chain_cost h ws.

  (* every recorded cost is at least the cost of an actual walk from start: the parent chain *)
  Lemma walk_exists : forall st n cn, inv st -> Fp st -> as_lookup n (as_cost st) = Some cn ->
    exists ws es, as_chain adj ws es /\ hd_error ws = Some n /\ (forall d, last ws d = start) /\ as_chain_cost h ws <= cn.
  Proof.
    intros st n cn I HP Hcn. destruct (as_st_inv_cf _ _ _ _ _ I) as [rank Hinv].
    assert (Hrec : as_lookup n (as_came st) <> None) by (apply (si_keys _ _ _ _ _ I); congruence).
    destruct (as_backward_chain_aux adj start (as_came st) rank Hinv _ n (or_introl eq_refl) (or_introl Hrec))
      as (ns & es & Hrun & Hhd & Hlast & Hlen & Hch & _ & _).
    exists ns, es. repeat split; auto.
    specialize (Hrun (length ns) ltac:(lia)).
    apply (as_backward_cost h start (as_came st) (as_cost st) HP (si_nonneg _ _ _ _ _ I) _ _ _ _ _ Hrun Hcn).
  Qed.

  (* ghost state: C = expanded nodes (closed, optimal cost); U = (edge, source) pairs that paid for a queue entry *)
  Record BI (st : as_state) (C Csrc : list nat) (U : list (nat * nat)) : Prop := {
    bi_base : inv st;
    bi_parent : Fp st;
    bi_front : Ff st;
    bi_C : forall a, In a C -> exists ca, as_lookup a (as_cost st) = Some ca /\ closed (as_cost st) a ca /\ Optimal a ca;
    bi_U : forall e a, In (e, a) U -> In a Csrc /\ exists b cb ca, In (b, e) (adj a) /\
             as_lookup a (as_cost st) = Some ca /\ as_lookup b (as_cost st) = Some cb /\ cb <= ca + h a b;
    bi_nd : NoDup (map fst U)
  }.

  Lemma BI_margin : forall st C Cs U mg, BI st C Cs U -> BI (mkAS (as_frontier st) (as_came st) (as_cost st) mg) C Cs U.
  Proof. intros st C Cs U mg [B1 B2 B3 B4 B5 B6]. constructor; auto. now apply as_st_inv_margin. Qed.

  Lemma as_relax_budget : forall nbrs cur st cc done C U,
    BI st C (cur :: C) U -> as_lookup cur (as_cost st) = Some cc -> Fo (Some cur) st ->
    (forall b e, In (b, e) done -> exists cb, as_lookup b (as_cost st) = Some cb /\ cb <= cc + h cur b) ->
    (forall x, In x nbrs -> In x (adj cur)) ->
    match as_relax h goal early cur nbrs st with
    | AS_Continue st' =>
        exists U', BI st' C (cur :: C) U' /\ as_lookup cur (as_cost st') = Some cc /\ Fo (Some cur) st' /\
          (forall b e, In (b, e) (done ++ nbrs) -> exists cb, as_lookup b (as_cost st') = Some cb /\ cb <= cc + h cur b) /\
          (length (as_frontier st') + length U = length (as_frontier st) + length U')%nat
    | AS_Return _ => True
    | AS_KeyError => False
    end.
  Proof.
    induction nbrs as [| [nxt e] r IH]; intros cur st cc done C U HB Hcc HO HD Hsub; simpl.
    - exists U. rewrite app_nil_r. auto 10.
    - destruct (early && (nxt =? goal)%nat) eqn:Hng; [exact Logic.I |]. rewrite Hcc.
      assert (Hadj : In (nxt, e) (adj cur)) by (apply Hsub; now left).
      assert (Hsub' : forall x, In x r -> In x (adj cur)) by (intros x Hx; apply Hsub; now right).
      destruct (Hh cur nxt e Hadj) as [Hh0 Hhpos].
      pose proof HB as [I HP HF HC HU Hnd].
      pose proof (si_nonneg _ _ _ _ _ I cur cc Hcc) as Hcc0.
      set (nc := cc + h cur nxt).
      assert (Hupd : forall mg, (match as_lookup nxt (as_cost st) with Some old => nc < old | None => True end) ->
                match as_relax h goal early cur r
                        (mkAS ((nc + h nxt goal, nxt) :: as_frontier st) ((nxt, Some (cur, e)) :: as_came st)
                              ((nxt, nc) :: as_cost st) mg) with
                | AS_Continue st' =>
                    exists U', BI st' C (cur :: C) U' /\ as_lookup cur (as_cost st') = Some cc /\ Fo (Some cur) st' /\
                      (forall b e0, In (b, e0) (done ++ (nxt, e) :: r) -> exists cb, as_lookup b (as_cost st') = Some cb /\ cb <= cc + h cur b) /\
                      (length (as_frontier st') + length U = length (as_frontier st) + length U')%nat
                | AS_Return _ => True
                | AS_KeyError => False
                end).
      { intros mg Hlt.
        assert (Hns : nxt <> start).
        { intros ->. rewrite (si_start _ _ _ _ _ I) in Hlt. unfold nc in Hlt. lia. }
        assert (Hnc : nxt <> cur).
        { intros ->. rewrite Hcc in Hlt. unfold nc in Hlt. lia. }
        assert (Hle : match as_lookup nxt (as_cost st) with Some old => nc <= old | None => True end)
          by (destruct (as_lookup nxt (as_cost st)); [lia | exact Logic.I]).
        (* a real walk to nxt through cur costs at most nc *)
        destruct (walk_exists st cur cc I HP Hcc) as (ws & es & Hch & Hhd & Hlast & Hcost).
        assert (Hwalk : exists ws' es', as_chain adj ws' es' /\ hd_error ws' = Some nxt /\ (forall d, last ws' d = start)
                                       /\ as_chain_cost h ws' <= nc).
        { destruct ws as [| c0 ws0]; [discriminate |]. injection Hhd as ->.
          exists (nxt :: cur :: ws0), (e :: es). repeat split.
          - constructor; assumption.
          - intros d. specialize (Hlast d). exact Hlast.
          - change (as_chain_cost h (nxt :: cur :: ws0)) with (h cur nxt + as_chain_cost h (cur :: ws0)). unfold nc. lia. }
        assert (HnC : ~ In nxt C).
        { intros Hin. destruct (HC nxt Hin) as (cn & Hcn & _ & Hopt).
          destruct Hwalk as (ws' & es' & Hch' & Hhd' & Hlast' & Hcost').
          specialize (Hopt ws' es' Hch' Hhd' Hlast'). rewrite Hcn in Hlt. lia. }
        assert (HeU : ~ In e (map fst U)).
        { intros Hin. apply in_map_iff in Hin as ([e' a] & He' & Hin). simpl in He'. subst e'.
          destruct (HU e a Hin) as (Ha & b & cb & ca & Hb & Hca & Hcb & Hrel).
          destruct (G2 _ _ _ _ _ Hadj Hb) as [[-> ->] | [-> ->]].
          - rewrite Hcc in Hca. injection Hca as <-. rewrite Hcb in Hlt. unfold nc in Hlt. lia.
          - destruct Ha as [Ha | Ha]; [congruence | contradiction]. }
        pose proof (as_update_inv adj h start goal early Hh st cur nxt e cc mg I Hcc Hadj Hng Hlt) as I'.
        fold nc in I'.
        specialize (IH cur (mkAS ((nc + h nxt goal, nxt) :: as_frontier st) ((nxt, Some (cur, e)) :: as_came st)
                                 ((nxt, nc) :: as_cost st) mg) cc (done ++ [(nxt, e)]) C ((e, cur) :: U)).
        cbn [as_cost as_came as_frontier as_margin] in IH. rewrite as_lookup_cons_neq in IH by congruence.
        replace (done ++ (nxt, e) :: r) with ((done ++ [(nxt, e)]) ++ r) by (rewrite <- app_assoc; reflexivity).
        assert (Hpre : match as_relax h goal early cur r
                               (mkAS ((nc + h nxt goal, nxt) :: as_frontier st) ((nxt, Some (cur, e)) :: as_came st)
                                     ((nxt, nc) :: as_cost st) mg) with
                       | AS_Continue st' =>
                           exists U', BI st' C (cur :: C) U' /\ as_lookup cur (as_cost st') = Some cc /\ Fo (Some cur) st' /\
                             (forall b e0, In (b, e0) ((done ++ [(nxt, e)]) ++ r) -> exists cb, as_lookup b (as_cost st') = Some cb /\ cb <= cc + h cur b) /\
                             (length (as_frontier st') + length ((e, cur) :: U) = S (length (as_frontier st)) + length U')%nat
                       | AS_Return _ => True
                       | AS_KeyError => False
                       end).
        { apply IH; auto.
          - (* BI *)
            constructor; cbn [as_cost as_came as_frontier as_margin]; auto.
            + (* F_parent *)
              intros n p e0 Hn Hl. cbn [as_cost as_came as_frontier as_margin] in Hl |- *. destruct (Nat.eq_dec n nxt) as [-> | Hne].
              * rewrite as_lookup_cons_eq in Hl. injection Hl as <- <-.
                exists cc, nc. rewrite as_lookup_cons_neq by congruence. rewrite as_lookup_cons_eq. repeat split; auto. unfold nc; lia.
              * rewrite as_lookup_cons_neq in Hl by assumption.
                destruct (HP n p e0 Hn Hl) as (cp & cn & Hp & Hc & Hle').
                rewrite (as_lookup_cons_neq _ n nxt) by assumption.
                destruct (Nat.eq_dec p nxt) as [-> | Hpn].
                -- exists nc, cn. rewrite as_lookup_cons_eq. repeat split; auto. rewrite Hp in Hle. lia.
                -- exists cp, cn. rewrite as_lookup_cons_neq by assumption. auto.
            + (* F_front *)
              intros q n Hq Hnst. cbn [as_cost as_came as_frontier as_margin] in Hq |- *. destruct Hq as [Hq | Hq].
              * inversion Hq; subst. exists nc. rewrite as_lookup_cons_eq. split; [reflexivity | lia].
              * destruct (HF q n Hq Hnst) as (c & Hc & Hcq). destruct (Nat.eq_dec n nxt) as [-> | Hne].
                -- exists nc. rewrite as_lookup_cons_eq. split; [reflexivity |]. rewrite Hc in Hle. lia.
                -- exists c. rewrite as_lookup_cons_neq by assumption. auto.
            + (* C *)
              intros a Ha. destruct (HC a Ha) as (ca & Hca & Hcl & Hopt).
              assert (a <> nxt) by congruence.
              exists ca. rewrite as_lookup_cons_neq by assumption. repeat split; auto. now apply as_closed_mono.
            + (* U *)
              intros e0 a [Heq | Hin].
              * inversion Heq; subst. split; [now left |]. exists nxt, nc, cc.
                rewrite as_lookup_cons_neq by congruence. rewrite as_lookup_cons_eq. repeat split; auto. unfold nc; lia.
              * destruct (HU e0 a Hin) as (Ha & b & cb & ca & Hb & Hca & Hcb & Hrel). split; [assumption |].
                assert (Han : a <> nxt) by (destruct Ha as [<- | Ha]; [congruence | congruence]).
                destruct (Nat.eq_dec b nxt) as [-> | Hbn].
                -- exists nxt, nc, ca. rewrite as_lookup_cons_neq by assumption. rewrite as_lookup_cons_eq.
                   repeat split; auto. rewrite Hcb in Hle. lia.
                -- exists b, cb, ca. rewrite !as_lookup_cons_neq by assumption. auto.
            + (* NoDup *)
              simpl. constructor; assumption.
          - (* F_open *)
            intros a ca Ha Hl. cbn [as_cost as_came as_frontier as_margin] in Hl |- *. destruct (Nat.eq_dec a nxt) as [-> | Hne].
            + rewrite as_lookup_cons_eq in Hl. injection Hl as <-. right. left. now left.
            + rewrite as_lookup_cons_neq in Hl by assumption.
              destruct (HO a ca Ha Hl) as [Hcl | [Hin | [Hs Hin]]]; [left; now apply as_closed_mono | right; left; now right | right; right; split; [assumption | now right]].
          - (* done *)
            intros b e0 Hb. cbn [as_cost as_came as_frontier as_margin]. apply in_app_or in Hb as [Hb | [Hb | []]].
            + destruct (HD b e0 Hb) as (cb & Hcb & Hle'). destruct (Nat.eq_dec b nxt) as [-> | Hne].
              * exists nc. rewrite as_lookup_cons_eq. split; [reflexivity |]. rewrite Hcb in Hle. lia.
              * exists cb. rewrite as_lookup_cons_neq by assumption. auto.
            + inversion Hb; subst. exists nc. rewrite as_lookup_cons_eq. split; [reflexivity | unfold nc; lia]. }
        destruct (as_relax h goal early cur r _) as [st' | st' |]; auto.
        destruct Hpre as (U' & H1 & H2 & H3 & H4 & H5). exists U'. split; [exact H1 |]. split; [exact H2 |]. split; [exact H3 |]. split; [exact H4 |]. simpl in H5. lia. }
      destruct (as_lookup nxt (as_cost st)) as [old |] eqn:Hold.
      + fold nc. destruct (Z.ltb_spec nc old) as [Hlt | Hge].
        * apply Hupd. exact Hlt.
        * replace (done ++ (nxt, e) :: r) with ((done ++ [(nxt, e)]) ++ r) by (rewrite <- app_assoc; reflexivity).
          pose proof (IH cur (mkAS (as_frontier st) (as_came st) (as_cost st) (as_min_margin (as_margin st) (Z.abs (nc - old))))
                         cc (done ++ [(nxt, e)]) C U) as IH'.
          cbn [as_cost as_came as_frontier as_margin] in IH'. apply IH'; auto.
          -- now apply BI_margin.
          -- intros b e0 Hb. cbn [as_cost as_came as_frontier as_margin]. apply in_app_or in Hb as [Hb | [Hb | []]]; [now apply (HD b e0) |].
             inversion Hb; subst. exists old. split; [assumption | unfold nc in Hge; lia].
      + fold nc. apply Hupd. exact Logic.I.
  Qed.

  (* expanding a closed node changes nothing *)
  Lemma as_relax_closed : forall nbrs cur st cc, as_lookup cur (as_cost st) = Some cc -> closed (as_cost st) cur cc ->
    (forall x, In x nbrs -> In x (adj cur)) ->
    match as_relax h goal early cur nbrs st with
    | AS_Continue st' => as_frontier st' = as_frontier st /\ as_came st' = as_came st /\ as_cost st' = as_cost st
    | AS_Return _ => True
    | AS_KeyError => False
    end.
  Proof.
    induction nbrs as [| [nxt e] r IH]; intros cur st cc Hcc Hcl Hsub; simpl; [auto |].
    destruct (early && (nxt =? goal)%nat); [exact Logic.I |]. rewrite Hcc.
    destruct (Hcl nxt e (Hsub _ (or_introl eq_refl))) as (cb & Hcb & Hle). rewrite Hcb.
    destruct (Z.ltb_spec (cc + h cur nxt) cb) as [Hlt | _]; [lia |].
    pose proof (IH cur (mkAS (as_frontier st) (as_came st) (as_cost st)
                             (as_min_margin (as_margin st) (Z.abs (cc + h cur nxt - cb)))) cc) as IH'.
    cbn [as_cost as_came as_frontier as_margin] in IH'. apply IH'; auto. intros x Hx. apply Hsub. now right.
  Qed.

  (* Fg is kept by the neighbour loop *)
  Lemma as_relax_Fg : forall nbrs cur st, Fg st ->
    match as_relax h goal early cur nbrs st with
    | AS_Continue st' => Fg st'
    | _ => True
    end.
  Proof.
    induction nbrs as [| [nxt e] r IH]; intros cur st HG; simpl; [exact HG |].
    destruct (early && (nxt =? goal)%nat); [exact Logic.I |].
    destruct (as_lookup cur (as_cost st)) as [cc |]; [| exact Logic.I].
    assert (Hupd : forall mg, Fg (mkAS ((cc + h cur nxt + h nxt goal, nxt) :: as_frontier st) ((nxt, Some (cur, e)) :: as_came st)
                                     ((nxt, cc + h cur nxt) :: as_cost st) mg)).
    { intros mg cg Hl. cbn [as_cost as_frontier] in *. destruct (Nat.eq_dec goal nxt) as [<- | Hne].
      - rewrite as_lookup_cons_eq in Hl. injection Hl as <-. now left.
      - rewrite as_lookup_cons_neq in Hl by assumption. right. now apply HG. }
    destruct (as_lookup nxt (as_cost st)) as [old |].
    - destruct (cc + h cur nxt <? old); apply IH; [apply Hupd | exact HG].
    - apply IH. apply Hupd.
  Qed.

  (* while the goal has not been popped the queue is not empty *)
  Lemma frontier_nonempty : forall st, inv st -> Fo None st -> Fg st -> as_frontier st = [] -> False.
  Proof.
    intros st I HO HG Hemp. destruct G3 as (ws & es & Hch & Hhd & Hlast).
    assert (Hrec : forall ws es, as_chain adj ws es -> forall d, last ws d = start ->
                   exists c, as_lookup (hd d ws) (as_cost st) = Some c).
    { clear ws es Hch Hhd Hlast. intros ws es Hch. induction Hch as [a | a b e ns es Hin Hc IH]; intros d Hl.
      - simpl in *. subst a. exists 0. apply (si_start _ _ _ _ _ I).
      - destruct (IH d Hl) as (cb & Hcb). simpl hd in Hcb.
        destruct (HO b cb ltac:(discriminate) Hcb) as [Hcl | [Hin' | [_ Hin']]]; try (rewrite Hemp in Hin'; contradiction).
        destruct (Hcl a e Hin) as (ca & Hca & _). exists ca. exact Hca. }
    destruct (Hrec ws es Hch goal Hlast) as (c & Hc).
    destruct ws as [| g ws']; [discriminate |]. injection Hhd as ->. simpl in Hc.
    specialize (HG c Hc). rewrite Hemp in HG. contradiction.
  Qed.

  (* every edge pays at most once *)
  Lemma U_bound : forall st C U, BI st C C U -> (length U <= E)%nat.
  Proof.
    intros st C U [I HP HF HC HU Hnd].
    assert (Hincl : incl (map fst U) (seq 0 E)).
    { intros x Hx. apply in_seq. apply in_map_iff in Hx as ([e' a] & He' & Hin). simpl in He'. subst e'.
      destruct (HU x a Hin) as (_ & b & _ & _ & Hb & _). pose proof (G1 _ _ _ Hb). lia. }
    pose proof (NoDup_incl_length Hnd Hincl) as Hlen. rewrite map_length, seq_length in Hlen. exact Hlen.
  Qed.

  (* E nodes expanded, the goal not popped, and a non-goal node at the head of the queue: impossible *)
  Lemma budget_exhausted : forall st C U k p cur rest,
    BI st C C U -> Fg st -> (k + length (as_frontier st) = 1 + length U)%nat -> (E <= k)%nat ->
    as_pq_get (as_frontier st) = Some ((p, cur), rest) -> cur <> goal -> False.
  Proof.
    intros st C U k p cur rest HB HG Hcount Hk Hget Hcg.
    pose proof (U_bound st C U HB) as HUb. pose proof HB as [I HP HF HC HU Hnd].
    pose proof (as_pq_get_length _ _ _ Hget) as Hlen.
    destruct (as_pq_get_some _ _ _ Hget) as [Hin _].
    assert (HUE : length U = E) by lia. assert (Hf1 : length (as_frontier st) = 1%nat) by lia.
    (* every edge id below E has paid, in particular the last edge of a walk into the goal *)
    destruct G3 as (ws & es & Hch & Hhd & Hlast).
    assert (Heg : exists b eg, In (goal, eg) (adj b)).
    { inversion Hch as [a Ha | a b e ns es' Hin' Hc Ha]; subst.
      - simpl in Hhd, Hlast. injection Hhd as ->. congruence.
      - simpl in Hhd. injection Hhd as ->. eauto. }
    destruct Heg as (b0 & eg & Hin0).
    assert (Hincl : incl (map fst U) (seq 0 E)).
    { intros x Hx. apply in_seq. apply in_map_iff in Hx as ([e' a] & He' & Hin'). simpl in He'. subst e'.
      destruct (HU x a Hin') as (_ & b & _ & _ & Hb & _). pose proof (G1 _ _ _ Hb). lia. }
    assert (Hrev : incl (seq 0 E) (map fst U)).
    { apply NoDup_length_incl; [assumption | rewrite map_length, seq_length; lia | assumption]. }
    assert (HegU : In eg (map fst U)) by (apply Hrev, in_seq; pose proof (G1 _ _ _ Hin0); lia).
    apply in_map_iff in HegU as ([e' a] & He' & HinU). simpl in He'. subst e'.
    destruct (HU eg a HinU) as (Ha & b & cb & ca & Hb & Hca & Hcb & _).
    assert (Hgrec : exists cg, as_lookup goal (as_cost st) = Some cg).
    { destruct (G2 _ _ _ _ _ Hin0 Hb) as [[-> ->] | [-> ->]]; eauto. }
    destruct Hgrec as (cg & Hcg'). specialize (HG cg Hcg').
    destruct (as_frontier st) as [| x [| y l]]; simpl in Hf1; try lia.
    destruct Hin as [Hx | []]. subst x. destruct HG as [HG | []]. inversion HG. congruence.
  Qed.

  Lemma BI_weaken : forall st C U x, BI st C C U -> BI st C (x :: C) U.
  Proof.
    intros st C U x [B1 B2 B3 B4 B5 B6]. constructor; auto.
    intros e a Hin. destruct (B5 e a Hin) as [Ha Hr]. split; [now right | exact Hr].
  Qed.

  (* lower bound at a pop, as in AStarOptimal but for any popped node *)
  Lemma pop_optimal : forall st p cur cc, inv st -> Ff st -> Fo None st ->
    (forall y, In y (as_frontier st) -> p <= fst y) ->
    as_lookup cur (as_cost st) = Some cc -> In (p, cur) (as_frontier st) -> has_entry h start goal st cur cc ->
    Optimal cur cc.
  Proof.
    intros st p cur cc I HF HO Hmin Hcc Hin Hent ws es Hch Hhd Hlast.
    destruct (Nat.eq_dec cur start) as [-> | Hcs].
    - rewrite (si_start _ _ _ _ _ I) in Hcc. injection Hcc as <-. eapply as_chain_cost_nonneg; eauto.
    - destruct Hent as [Hent | [Hs _]]; [| contradiction].
      destruct (HF p cur Hin Hcs) as (c' & Hc' & Hle). rewrite Hcc in Hc'. injection Hc' as <-.
      pose proof (Hmin _ Hent) as Hp. simpl in Hp.
      (* GE x n : x >= p - h n goal  or  x >= cost n *)
      assert (HG : forall ws es, as_chain adj ws es -> forall d, last ws d = start ->
                   p - h (hd d ws) goal <= as_chain_cost h ws \/
                   exists c, as_lookup (hd d ws) (as_cost st) = Some c /\ c <= as_chain_cost h ws).
      { clear ws es Hch Hhd Hlast. intros ws es Hch. induction Hch as [a | a b e ns es Hin' Hc IH]; intros d Hl.
        - simpl in *. subst a. right. exists 0. split; [apply (si_start _ _ _ _ _ I) | lia].
        - change (as_chain_cost h (a :: b :: ns)) with (h b a + as_chain_cost h (b :: ns)).
          change (hd d (a :: b :: ns)) with a.
          pose proof (as_chain_cost_nonneg adj h Hh _ _ Hc) as Hx0.
          pose proof (Hcons b a e Hin') as Hcn. destruct (Hh b a e Hin') as [Hba _].
          destruct (IH d Hl) as [HGl | (cb & Hcb & Hleb)]; simpl hd in *.
          + left. lia.
          + destruct (Z_lt_le_dec (cb + h b goal) p) as [Hlt | Hge]; [| left; lia].
            destruct (HO b cb ltac:(discriminate) Hcb) as [Hcl | [Hin'' | [_ Hin'']]].
            * destruct (Hcl a e Hin') as (ca & Hca & Hlea). right. exists ca. split; [assumption | lia].
            * specialize (Hmin _ Hin''). simpl in Hmin. lia.
            * specialize (Hmin _ Hin''). simpl in Hmin. left. pose proof (Hhg a). lia. }
      destruct (HG ws es Hch cur (Hlast cur)) as [HGl | (c & Hc & Hlec)];
        destruct ws as [| w0 ws']; try discriminate; injection Hhd as ->; simpl hd in *.
      + lia.
      + rewrite Hcc in Hc. injection Hc as <-. lia.
  Qed.

  Lemma as_loop_budget : forall fuel st C U k,
    BI st C C U -> Fo None st -> Fg st -> (k + length (as_frontier st) = 1 + length U)%nat -> (E <= fuel + k)%nat ->
    match as_loop adj h goal early fuel st with
    | AS_Found _ _ _ => True
    | _ => False
    end.
  Proof.
    induction fuel as [| f IH]; intros st C U k HB HO HG Hcount Hfuel; simpl;
      (destruct (as_pq_get (as_frontier st)) as [[[p cur] rest] |] eqn:Hget;
       [| apply (frontier_nonempty st (bi_base _ _ _ _ HB) HO HG); destruct (as_frontier st); [reflexivity | discriminate]]);
      (destruct (Nat.eqb_spec cur goal) as [-> | Hcg]; [exact Logic.I |]).
    - apply (budget_exhausted st C U k p cur rest HB HG Hcount ltac:(lia) Hget Hcg).
    - pose proof HB as [I HP HF HC HU Hnd].
      destruct (as_pq_get_some _ _ _ Hget) as [Hin Hrest].
      pose proof (as_pq_get_length _ _ _ Hget) as Hlen.
      pose proof (si_frontier _ _ _ _ _ I p cur Hin) as Hcur.
      destruct (as_lookup cur (as_cost st)) as [cc |] eqn:Hcc; [| congruence].
      set (st1 := mkAS rest (as_came st) (as_cost st) (as_pop_margin (as_margin st) p rest)).
      assert (I1 : inv st1).
      { destruct I as [B1 B2 B3 B4 B5 B6]; constructor; simpl; auto. intros p' c' H'. eapply B5. apply Hrest. exact H'. }
      assert (HF1 : Ff st1).
      { intros q n Hq Hn. apply (HF q n); [apply Hrest; exact Hq | exact Hn]. }
      assert (HB1 : BI st1 C C U) by (constructor; auto).
      assert (HG1 : Fg st1).
      { intros cg Hl. apply (as_pq_get_other _ _ _ _ Hget (HG cg Hl)). simpl. congruence. }
      assert (HO1 : Fo (Some cur) st1).
      { intros a ca Ha Hl. assert (Hac : a <> cur) by congruence.
        destruct (HO a ca ltac:(discriminate) Hl) as [Hcl | [He | [Hs He]]]; [now left | right; left | right; right; split; [assumption |]].
        - apply (as_pq_get_other _ _ _ _ Hget He). simpl. exact Hac.
        - apply (as_pq_get_other _ _ _ _ Hget He). simpl. congruence. }
      pose proof (as_relax_Fg (adj cur) cur st1 HG1) as HGr.
      destruct (HO cur cc ltac:(discriminate) Hcc) as [Hcl | Hent].
      + (* cur is closed already: nothing changes *)
        pose proof (as_relax_closed (adj cur) cur st1 cc Hcc Hcl (fun x H => H)) as Hr.
        destruct (as_relax h goal early cur (adj cur) st1) as [st' | st' |]; [| exact Logic.I | contradiction].
        destruct Hr as (Hf' & Hc' & Hs').
        assert (Heq : st' = mkAS rest (as_came st) (as_cost st) (as_margin st')).
        { destruct st'; simpl in *; subst; reflexivity. }
        rewrite Heq in HGr |- *.
        apply (IH _ C U (S k)).
        * apply (BI_margin st1 C C U (as_margin st') HB1).
        * intros a ca _ Hl. cbn [as_cost] in Hl. destruct (Nat.eq_dec a cur) as [-> | Hne].
          -- left. rewrite Hcc in Hl. injection Hl as <-. exact Hcl.
          -- apply (HO1 a ca); [congruence | exact Hl].
        * exact HGr.
        * cbn [as_frontier]. lia.
        * lia.
      + (* cur is expanded now: its cost is optimal; it joins C *)
        pose proof (pop_optimal st p cur cc I HF HO (as_pq_get_min _ _ _ Hget) Hcc Hin Hent) as Hopt.
        pose proof (as_relax_budget (adj cur) cur st1 cc [] C U (BI_weaken _ _ _ cur HB1) Hcc HO1
                      (fun b e (H : In (b, e) []) => match H with end) (fun x H => H)) as Hr.
        destruct (as_relax h goal early cur (adj cur) st1) as [st' | st' |]; [| exact Logic.I | contradiction].
        destruct Hr as (U' & HB' & Hcc' & HO' & HD' & Hcnt).
        apply (IH st' (cur :: C) U' (S k)).
        * destruct HB' as [B1 B2 B3 B4 B5 B6]. constructor; auto.
          intros a [<- | Ha]; [| now apply B4].
          exists cc. split; [exact Hcc' |]. split; [| exact Hopt]. intros b e Hb. apply (HD' b e). exact Hb.
        * intros a ca _ Hl. destruct (Nat.eq_dec a cur) as [-> | Hne].
          -- left. rewrite Hcc' in Hl. injection Hl as <-. intros b e Hb. apply (HD' b e). exact Hb.
          -- apply HO'; [congruence | assumption].
        * exact HGr.
        * simpl in Hcnt. lia.
        * lia.
  Qed.

  (* astar_budget, both stopping modes *)
  Theorem as_astar_budget : forall maxits, (E <= maxits)%nat ->
    exists cf cs mg, as_forward adj h start goal early maxits = AS_Found cf cs mg.
  Proof.
    intros maxits Hm. unfold as_forward.
    assert (HB0 : BI (as_init start) [] [] []).
    { constructor.
      - apply as_init_inv.
      - intros n p e Hn Hl. unfold as_init in Hl. simpl in Hl. destruct (Nat.eqb_spec n start); [contradiction | discriminate].
      - intros q n [Hq | []] Hn. inversion Hq; subst. contradiction.
      - intros a [].
      - intros e a [].
      - constructor. }
    assert (HO0 : Fo None (as_init start)).
    { intros a ca _ Hl. unfold as_init in Hl; simpl in Hl. destruct (Nat.eqb_spec a start) as [-> | Hne]; [| discriminate].
      right. right. split; [reflexivity | now left]. }
    assert (HG0 : Fg (as_init start)).
    { intros cg Hl. unfold as_init in Hl; simpl in Hl. destruct (Nat.eqb_spec goal start); [contradiction | discriminate]. }
    pose proof (as_loop_budget maxits (as_init start) [] [] 0%nat HB0 HO0 HG0 eq_refl ltac:(lia)) as H.
    destruct (as_loop adj h goal early maxits (as_init start)) as [cf cs mg | |]; try contradiction. eauto.
  Qed.
End Budget.

(* the public function: in both stopping modes a budget of at least E expansions returns a valid path *)
Lemma as_path_budget :
  forall (adj : nat -> list (nat * nat)) (h : nat -> nat -> Z) (start goal E : nat) (early : bool),
    (forall a b e, In (b, e) (adj a) -> 0 <= h a b /\ (a <> b -> 0 < h a b)) ->
    (forall a b e, In (b, e) (adj a) -> h a goal <= h a b + h b goal) ->
    (forall n, 0 <= h n goal) ->
    goal <> start ->
    (forall a b e, In (b, e) (adj a) -> (e < E)%nat) ->
    (forall a b e a' b', In (b, e) (adj a) -> In (b', e) (adj a') -> (a = a' /\ b = b') \/ (a = b' /\ b = a')) ->
    (exists ws es, as_chain adj ws es /\ hd_error ws = Some goal /\ last ws goal = start) ->
    forall maxits, (E <= maxits)%nat ->
      exists ns es mg, as_path adj h start goal early maxits = AS_Path ns es mg /\ as_valid_chain adj start goal ns es.
Proof.
  intros adj h start goal E early Hh Hcons Hhg Hgs G1 G2 G3 maxits Hm.
  destruct (as_astar_budget adj h start goal E early Hh Hcons Hhg Hgs G1 G2 G3 maxits Hm) as (cf & cs & mg & Hf).
  pose proof (as_path_valid adj h start goal early Hh maxits) as Hv.
  unfold as_path in *. rewrite Hf in *.
  destruct (as_backward cf start goal) as [[ns es] |]; [| contradiction].
  exists ns, es, mg. split; [reflexivity | exact Hv].
Qed.

(* the hypotheses are satisfiable: the path graph 0 - 1 - 2 (E = 2), h = |a - b| *)
Lemma as_budget_example :
  let adj := (fun n => match n with 0 => [(1, 0)] | 1 => [(0, 0); (2, 1)] | 2 => [(1, 1)] | _ => [] end)%nat in
  let h := (fun a b : nat => Z.abs (Z.of_nat a - Z.of_nat b)) in
  (forall a b e, In (b, e) (adj a) -> 0 <= h a b /\ (a <> b -> 0 < h a b)) /\
  (forall a b e, In (b, e) (adj a) -> h a 2%nat <= h a b + h b 2%nat) /\
  (forall n, 0 <= h n 2%nat) /\
  (forall a b e, In (b, e) (adj a) -> (e < 2)%nat) /\
  (forall a b e a' b', In (b, e) (adj a) -> In (b', e) (adj a') -> (a = a' /\ b = b') \/ (a = b' /\ b = a')) /\
  (exists ws es, as_chain adj ws es /\ hd_error ws = Some 2%nat /\ last ws 2%nat = 0%nat).
Proof.
  cbv zeta. split; [| split; [| split; [| split; [| split]]]].
  - intros a b e H. destruct a as [| [| [| a]]]; simpl in H;
      repeat (destruct H as [H | H]; [inversion H; subst; simpl; lia |]); contradiction.
  - intros a b e H. destruct a as [| [| [| a]]]; simpl in H;
      repeat (destruct H as [H | H]; [inversion H; subst; simpl; lia |]); contradiction.
  - intros n. lia.
  - intros a b e H. destruct a as [| [| [| a]]]; simpl in H;
      repeat (destruct H as [H | H]; [inversion H; subst; simpl; lia |]); contradiction.
  - intros a b e a' b' H H'.
    destruct a as [| [| [| a]]]; simpl in H;
      repeat (destruct H as [H | H]; [inversion H; subst; clear H |]); try contradiction;
    destruct a' as [| [| [| a']]]; simpl in H';
      repeat (destruct H' as [H' | H']; [inversion H'; subst; clear H' |]); try contradiction; try discriminate; auto.
  - exists [2; 1; 0]%nat, [1; 0]%nat. split; [| split; reflexivity].
    apply as_chain_cons; [simpl; auto | apply as_chain_cons; [simpl; auto | apply as_chain_one]].
Qed.

Lemma as_budget_tight :
  exists (adj : nat -> list (nat * nat)) (h : nat -> nat -> Z),
    adj = (fun n => match n with 0 => [(1, 0)] | 1 => [(0, 0); (2, 1)] | 2 => [(1, 1)] | _ => [] end)%nat /\
    (forall a b e, In (b, e) (adj a) -> 0 <= h a b /\ (a <> b -> 0 < h a b)) /\
    (exists m, as_path adj h 0 2 false 1 = AS_PathFindingError m) /\
    (exists m, as_path adj h 0 2 false 2 = AS_Path [2; 1; 0]%nat [1; 0]%nat m) /\
    (exists m, as_path adj h 0 2 true 1 = AS_PathFindingError m) /\
    (exists m, as_path adj h 0 2 true 2 = AS_Path [2; 1; 0]%nat [1; 0]%nat m).
Proof.
  exists (fun n => match n with 0 => [(1, 0)] | 1 => [(0, 0); (2, 1)] | 2 => [(1, 1)] | _ => [] end)%nat,
         (fun a b : nat => Z.abs (Z.of_nat a - Z.of_nat b)).
  split; [reflexivity |]. split.
  - destruct as_budget_example as [H _]. exact H.
  - repeat split; eexists; vm_compute; reflexivity.
Qed.
