(* Proofs/WindingConvexG1.v — the per-input hypothesis  g1_holds L  of Proofs/SpecC01Facts.v (geometry fact G1 on
   every face walk of L that uses no edge twice and has no net crossing) is a THEOREM for every lattice whose
   such faces are convex polygons (walked either way round); "are convex" is the executable test faces_convexb. *)
From Coq Require Import List ZArith Bool Arith Lia ZifyBool.
From Koala Require Import Model.Lattice Model.SpecC01 Proofs.LatticeFacts
  Proofs.WindingConvexTri Proofs.WindingConvex Proofs.WindingConvexDec.
Import ListNotations.
Open Scope Z_scope.

Definition face_convexb (L : lattice) (f : face) : bool :=
  implb (f_nodup f && f_netzero f)
        (convex_ccwb (map (dvec L) (f_walk f)) || convex_cwb (map (dvec L) (f_walk f))).
Definition faces_convexb (L : lattice) : bool :=
  match all_faces L with
  | None => false
  | Some fs => forallb (face_convexb L) fs
  end.

Lemma g1_face_convex L w : face_convexb L (mk_face L w) = true -> g1_face (mk_face L w) = true.
Proof.
  unfold face_convexb, g1_face. cbn [mk_face f_nodup f_netzero f_winding f_area2 f_walk].
  destruct (nodupb (walk_edges w) && veqb (net_crossing L w) vzero); cbn [implb]; [|reflexivity].
  intro H. pose proof (G1_convexb_plaquette L w H) as Hiff.
  cbn [mk_plaquette p_winding p_area2] in Hiff.
  destruct (winding (map (dvec L) w) =? -1) eqn:E1; destruct (0 <? area2 (poly_points L w)) eqn:E2;
    cbn [Bool.eqb]; try reflexivity; lia.
Qed.

Theorem g1_holds_convex L : good L -> faces_convexb L = true -> g1_holds L = true.
Proof.
  intros HG H. destruct (all_faces_spec L HG) as [fs [E [Hfs _]]].
  unfold faces_convexb, g1_holds in *. rewrite E in *. rewrite forallb_forall in *.
  intros f Hin. destruct (Hfs f Hin) as [_ Hf]. specialize (H f Hin). rewrite Hf in *.
  apply g1_face_convex. exact H.
Qed.
