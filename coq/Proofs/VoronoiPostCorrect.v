(* Proofs/VoronoiPostCorrect.v — "post_correct", graph level: what Model/VoronoiPost.v returns when the Voronoi
   record is periodic near the unit cell (Model/VoronoiPeriodic.pvor_ok).  Unbounded statements (induction over the
   vertex and ridge lists). *)
From Coq Require Import List ZArith Bool Arith Lia Sorted.
From Koala Require Import Model.Lattice Model.Delaunay Model.VoronoiPost Model.VoronoiPeriodic.
From Koala Require Import Proofs.DelaunayFacts Proofs.VoronoiPostFacts.
Import ListNotations.
Open Scope Z_scope.

(* ------------------------------------------------------------------ cells, translation, wrap *)
Lemma cell_of_shift : forall x S t, 0 < S -> cell_of (x + S * t) S = cell_of x S + t.
Proof.
  intros x S t HS. apply cell_of_spec; [exact HS|].
  pose proof (proj1 (cell_of_spec x S (cell_of x S) HS) eq_refl). nia.
Qed.

Lemma cell_pt_tr : forall S p t, 0 < S -> cell_pt S (tr S p t) = (fst (cell_pt S p) + fst t, snd (cell_pt S p) + snd t).
Proof. intros S p t HS. unfold cell_pt, tr. simpl. rewrite !cell_of_shift by exact HS. reflexivity. Qed.

Lemma wrap_tr : forall S p t, 0 < S -> wrap S (tr S p t) = wrap S p.
Proof.
  intros S [x y] [tx ty] HS. unfold wrap, tr. simpl. rewrite !cell_of_shift by exact HS. f_equal; ring.
Qed.

Lemma wrap_eq_tr : forall S p, wrap S p = tr S p (pt_opp (cell_pt S p)).
Proof. intros S [x y]. unfold wrap, tr, pt_opp, cell_pt. simpl. f_equal; ring. Qed.

Lemma tr_wrap : forall S p, p = tr S (wrap S p) (cell_pt S p).
Proof. intros S [x y]. unfold wrap, tr, cell_pt. simpl. f_equal; ring. Qed.

Lemma tr_tr : forall S p t u, tr S (tr S p t) u = tr S p (fst t + fst u, snd t + snd u).
Proof. intros S [x y] [tx ty] [ux uy]. unfold tr. simpl. f_equal; ring. Qed.

Lemma tr_zero : forall S p, tr S p (0, 0) = p.
Proof. intros S [x y]. unfold tr. simpl. f_equal; ring. Qed.

Lemma tr_inj_t : forall S p t u, 0 < S -> tr S p t = tr S p u -> t = u.
Proof.
  intros S [x y] [tx ty] [ux uy] HS H. unfold tr in H. simpl in H. inversion H. f_equal; nia.
Qed.

Lemma in_unit_cell : forall S p, 0 < S -> (in_unit S p = true <-> cell_pt S p = (0, 0)).
Proof.
  intros S [x y] HS. rewrite in_unit_spec. unfold cell_pt. simpl. split.
  - intros [Hx Hy]. f_equal; apply cell_of_spec; lia.
  - intro H. injection H as Hx Hy.
    apply (cell_of_spec x S 0 HS) in Hx. apply (cell_of_spec y S 0 HS) in Hy. lia.
Qed.

Lemma wrap_same_tr : forall S p q, wrap S p = wrap S q ->
  q = tr S p (fst (cell_pt S q) - fst (cell_pt S p), snd (cell_pt S q) - snd (cell_pt S p)).
Proof.
  intros S [x y] [u v] H. unfold wrap, tr, cell_pt in *. simpl in *. inversion H. f_equal; lia.
Qed.

(* ------------------------------------------------------------------ the periodic edge of a segment p -> q *)
Definition pedge (S : Z) (vs : list pt) (p q : pt) : edge :=
  ((nearest vs (wrap S p), nearest vs (wrap S q)),
   (cell_of (fst q) S - cell_of (fst p) S, cell_of (snd q) S - cell_of (snd p) S)).

Lemma pedge_rev : forall S vs p q, pedge S vs q p = rev_edge (pedge S vs p q).
Proof. intros. unfold pedge, rev_edge. simpl. f_equal. f_equal; ring. Qed.

Lemma pedge_tr : forall S vs p q t, 0 < S -> pedge S vs (tr S p t) (tr S q t) = pedge S vs p q.
Proof.
  intros S vs p q t HS. unfold pedge. rewrite !wrap_tr by exact HS.
  destruct p as [px py], q as [qx qy], t as [tx ty]. unfold tr. simpl.
  rewrite !cell_of_shift by exact HS. f_equal. f_equal; ring.
Qed.

Lemma cross_edge_pedge : forall S vs a b,
  cross_edge S vs (a, b) =
  if (a <=? b)%nat then pedge S vs (nth a vs (0, 0)) (nth b vs (0, 0))
  else pedge S vs (nth b vs (0, 0)) (nth a vs (0, 0)).
Proof.
  intros S vs a b. rewrite cross_edge_eq. simpl fst. simpl snd.
  destruct (Nat.leb_spec a b).
  - rewrite Nat.min_l, Nat.max_r by lia. reflexivity.
  - rewrite Nat.min_r, Nat.max_l by lia. reflexivity.
Qed.

Lemma cross_edge_cases : forall S vs a b,
  let e := pedge S vs (nth a vs (0, 0)) (nth b vs (0, 0)) in
  cross_edge S vs (a, b) = e \/ cross_edge S vs (a, b) = rev_edge e.
Proof.
  intros S vs a b e. rewrite cross_edge_pedge. destruct (a <=? b)%nat; [left; reflexivity|right].
  apply pedge_rev.
Qed.

Lemma rev_edge_invol : forall e, rev_edge (rev_edge e) = e.
Proof. intros [[j k] [cx cy]]. unfold rev_edge. simpl. rewrite !Z.opp_involutive. reflexivity. Qed.

Lemma is_loop_rev : forall e, is_loop (rev_edge e) <-> is_loop e.
Proof. intros [[j k] c]. unfold is_loop, rev_edge. simpl. split; congruence. Qed.

(* two segments are lattice translates of each other (as unordered segments) *)
Definition translate_of (S : Z) (p q p' q' : pt) : Prop :=
  exists t, (p' = tr S p t /\ q' = tr S q t) \/ (p' = tr S q t /\ q' = tr S p t).

(* translates get the same key ... *)
Lemma key_of_translate : forall S vs p q p' q', 0 < S ->
  ~ is_loop (pedge S vs p q) -> translate_of S p q p' q' ->
  edge_key (pedge S vs p' q') = edge_key (pedge S vs p q).
Proof.
  intros S vs p q p' q' HS Hl [t [[-> ->]|[-> ->]]].
  - rewrite pedge_tr by exact HS. reflexivity.
  - rewrite pedge_tr by exact HS. rewrite pedge_rev. apply edge_key_rev. exact Hl.
Qed.

(* ... and, when the images in the cell are vertices (replication exact), ONLY translates do *)
Lemma pedge_eq_translate : forall S vs p q p' q',
  In (wrap S p) vs -> In (wrap S q) vs -> In (wrap S p') vs -> In (wrap S q') vs ->
  pedge S vs p' q' = pedge S vs p q ->
  exists t, p' = tr S p t /\ q' = tr S q t.
Proof.
  intros S vs p q p' q' Hp Hq Hp' Hq' E. unfold pedge in E. inversion E as [[E1 E2 E3 E4]].
  assert (Wp : wrap S p' = wrap S p).
  { rewrite <- (nearest_exact vs _ Hp'), <- (nearest_exact vs _ Hp). rewrite E1. reflexivity. }
  assert (Wq : wrap S q' = wrap S q).
  { rewrite <- (nearest_exact vs _ Hq'), <- (nearest_exact vs _ Hq). rewrite E2. reflexivity. }
  exists (fst (cell_pt S p') - fst (cell_pt S p), snd (cell_pt S p') - snd (cell_pt S p)).
  split; [apply wrap_same_tr; symmetry; exact Wp|].
  rewrite (wrap_same_tr S q q' (eq_sym Wq)). unfold cell_pt. simpl. f_equal. f_equal; lia.
Qed.

Theorem key_iff_translate : forall S vs p q p' q', 0 < S ->
  In (wrap S p) vs -> In (wrap S q) vs -> In (wrap S p') vs -> In (wrap S q') vs ->
  wrap S p <> wrap S q ->
  (edge_key (pedge S vs p' q') = edge_key (pedge S vs p q) <-> translate_of S p q p' q').
Proof.
  intros S vs p q p' q' HS Hp Hq Hp' Hq' Hne.
  assert (Hl : ~ is_loop (pedge S vs p q)).
  { unfold is_loop, pedge. simpl. intro E. apply Hne.
    rewrite <- (nearest_exact vs _ Hp), <- (nearest_exact vs _ Hq). rewrite E. reflexivity. }
  split; [|apply key_of_translate; assumption].
  intro Ek. destruct (edge_key_inj _ _ Hl Ek) as [E|E].
  - destruct (pedge_eq_translate S vs p q p' q' Hp Hq Hp' Hq' E) as (t & H1 & H2).
    exists t. left. split; assumption.
  - rewrite <- pedge_rev in E.
    destruct (pedge_eq_translate S vs q p p' q' Hq Hp Hp' Hq' E) as (t & H1 & H2).
    exists t. right. split; assumption.
Qed.

(* ------------------------------------------------------------------ the hypotheses, as propositions *)
Record pvor (S : Z) (vs : list pt) (rv : list (Z * Z)) : Prop := mkPvor {
  pv_S : 0 < S;
  pv_wf : forall r, In r rv -> ridge_wf (length vs) r = true;
  pv_distinct : forall r, In r rv -> finite r = true -> fst r <> snd r;
  pv_nodup : NoDup vs;
  pv_ridges : NoDup (map upair (select S vs 1 rv));
  pv_ridges2 : NoDup (map upair (select S vs 2 rv));
  pv_closed : forall r, In r (select S vs 1 rv) ->
     In (wrap S (vat vs (fst r))) vs /\ In (wrap S (vat vs (snd r))) vs;
  pv_noloop : forall r, In r (select S vs 1 rv) -> wrap S (vat vs (fst r)) <> wrap S (vat vs (snd r));
  pv_trans : forall r, In r (select S vs 1 rv) ->
     let a := vat vs (fst r) in
     let b := vat vs (snd r) in
     let c := if in_unit S a then cell_pt S b else cell_pt S a in
     exists r', In r' rv /\ finite r' = true /\
       ((vat vs (fst r') = tr S a (pt_opp c) /\ vat vs (snd r') = tr S b (pt_opp c)) \/
        (vat vs (fst r') = tr S b (pt_opp c) /\ vat vs (snd r') = tr S a (pt_opp c))) }.

Lemma pt_eqb_refl : forall p, pt_eqb p p = true.
Proof. intro p. apply pt_eqb_eq. reflexivity. Qed.

Lemma mem_pt_spec : forall p vs, mem_pt p vs = true <-> In p vs.
Proof.
  intros p vs. unfold mem_pt. rewrite existsb_exists. split.
  - intros (q & Hq & E). apply pt_eqb_eq in E. subst. exact Hq.
  - intro H. exists p. split; [exact H|apply pt_eqb_refl].
Qed.

Theorem pvor_ok_spec : forall S vs rv, pvor_ok S vs rv = true -> pvor S vs rv.
Proof.
  intros S vs rv H. unfold pvor_ok in H. rewrite !andb_true_iff in H.
  destruct H as ((((((H1 & H2) & H2') & H3) & H4) & H4') & H5).
  rewrite forallb_forall in H2, H2', H5.
  assert (Hc : forall r, In r (select S vs 1 rv) -> cross_ok S vs rv r = true) by exact H5.
  constructor.
  - apply Z.ltb_lt. exact H1.
  - exact H2.
  - intros r Hr Hf E. specialize (H2' r Hr). rewrite Hf in H2'. simpl in H2'.
    apply negb_true_iff in H2'. apply Z.eqb_neq in H2'. contradiction.
  - apply (nodup_by_NoDup _ pt_eqb pt_eqb_refl). exact H3.
  - apply (nodup_by_NoDup _ pt_eqb pt_eqb_refl). exact H4.
  - apply (nodup_by_NoDup _ pt_eqb pt_eqb_refl). exact H4'.
  - intros r Hr. specialize (Hc r Hr). unfold cross_ok in Hc. rewrite !andb_true_iff in Hc.
    destruct Hc as (((Ha & Hb) & _) & _). split; apply mem_pt_spec; assumption.
  - intros r Hr. specialize (Hc r Hr). unfold cross_ok in Hc. rewrite !andb_true_iff in Hc.
    destruct Hc as ((_ & Hn) & _). apply negb_true_iff in Hn. intro E.
    apply (proj2 (pt_eqb_eq _ _)) in E. congruence.
  - intros r Hr a b c. specialize (Hc r Hr). unfold cross_ok in Hc. rewrite !andb_true_iff in Hc.
    destruct Hc as (_ & Ht). unfold has_translate in Ht. fold a b c in Ht.
    apply existsb_exists in Ht. destruct Ht as (r' & Hr' & Ht).
    rewrite andb_true_iff, orb_true_iff, !andb_true_iff, !pt_eqb_eq in Ht.
    exists r'. split; [exact Hr'|]. split; [tauto|]. tauto.
Qed.

(* ------------------------------------------------------------------ finite well-formed ridges *)
Lemma finite_wf_range : forall n r, ridge_wf n r = true -> finite r = true ->
  0 <= fst r < Z.of_nat n /\ 0 <= snd r < Z.of_nat n.
Proof.
  intros n [a b] Hw Hf. unfold ridge_wf, finite in *. simpl in *.
  rewrite !andb_true_iff in Hw. rewrite andb_true_iff, !negb_true_iff, !Z.eqb_neq in Hf.
  rewrite !Z.leb_le, !Z.ltb_lt in Hw. lia.
Qed.

Lemma py_nth_vat : forall vs i, 0 <= i -> py_nth vs i = vat vs i.
Proof. intros vs i Hi. unfold py_nth, vat. destruct (Z.ltb_spec i 0); [lia|reflexivity]. Qed.

Lemma count_in_finite : forall S vs r, 0 <= fst r -> 0 <= snd r ->
  count_in S vs r = (b2n (in_unit S (vat vs (fst r))) + b2n (in_unit S (vat vs (snd r))))%nat.
Proof. intros S vs r H1 H2. unfold count_in. rewrite !py_nth_vat by assumption. reflexivity. Qed.

Lemma to_nat_lt : forall i n, 0 <= i < Z.of_nat n -> (Z.to_nat i < n)%nat.
Proof. intros. lia. Qed.

Lemma NoDup_nth_pt : forall (vs : list pt) i j, NoDup vs -> (i < length vs)%nat -> (j < length vs)%nat ->
  nth i vs (0, 0) = nth j vs (0, 0) -> i = j.
Proof. intros vs i j HN Hi Hj E. exact (proj1 (NoDup_nth vs (0, 0)) HN i j Hi Hj E). Qed.

(* with distinct positions the nearest-vertex query at a vertex position returns that vertex *)
Lemma nearest_self : forall vs i, NoDup vs -> (i < length vs)%nat -> nearest vs (nth i vs (0, 0)) = i.
Proof.
  intros vs i HN Hi.
  assert (Hin : In (nth i vs (0, 0)) vs) by (apply nth_In; exact Hi).
  assert (Hne : vs <> []) by (intro E; subst; simpl in Hi; lia).
  apply (NoDup_nth_pt vs); [exact HN| |exact Hi|apply nearest_exact; exact Hin].
  apply nearest_spec. exact Hne.
Qed.

(* a crossing ridge: (inner end, outer end) *)
Lemma crossing_ends : forall S vs rv r, pvor S vs rv -> In r (select S vs 1 rv) ->
  In r rv /\ finite r = true /\
  0 <= fst r < Z.of_nat (length vs) /\ 0 <= snd r < Z.of_nat (length vs) /\
  ((in_unit S (vat vs (fst r)) = true /\ in_unit S (vat vs (snd r)) = false) \/
   (in_unit S (vat vs (fst r)) = false /\ in_unit S (vat vs (snd r)) = true)).
Proof.
  intros S vs rv r HP Hr. apply select_spec in Hr. destruct Hr as (Hin & Hc & Hf).
  destruct (finite_wf_range _ r (pv_wf _ _ _ HP r Hin) Hf) as [R1 R2].
  split; [exact Hin|]. split; [exact Hf|]. split; [exact R1|]. split; [exact R2|].
  rewrite count_in_finite in Hc by lia.
  destruct (in_unit S (vat vs (fst r))), (in_unit S (vat vs (snd r))); simpl in Hc; try discriminate; auto.
Qed.

(* the key of the returned edge depends only on the two positions *)
Lemma cross_edge_key : forall S vs r,
  ~ is_loop (pedge S vs (vat vs (fst r)) (vat vs (snd r))) ->
  edge_key (cross_edge S vs (to_nat_pair r)) = edge_key (pedge S vs (vat vs (fst r)) (vat vs (snd r))).
Proof.
  intros S vs [a b] Hl. unfold to_nat_pair, vat in *. simpl in *.
  destruct (cross_edge_cases S vs (Z.to_nat a) (Z.to_nat b)) as [E|E]; rewrite E; [reflexivity|].
  apply edge_key_rev. exact Hl.
Qed.

Lemma crossing_noloop : forall S vs rv r, pvor S vs rv -> In r (select S vs 1 rv) ->
  ~ is_loop (pedge S vs (vat vs (fst r)) (vat vs (snd r))).
Proof.
  intros S vs rv r HP Hr. destruct (pv_closed _ _ _ HP r Hr) as [Ha Hb].
  unfold is_loop, pedge. simpl. intro E. apply (pv_noloop _ _ _ HP r Hr).
  rewrite <- (nearest_exact vs _ Ha), <- (nearest_exact vs _ Hb). rewrite E. reflexivity.
Qed.

(* ------------------------------------------------------------------ every returned ridge is a Voronoi ridge modulo the cell *)
(* the periodic edge e = ((j,k),c) IS the segment p -> q modulo the cell: its ends sit at the images of p, q in the
   cell (0,S]^2 and its crossing is the difference of the cells of q and p *)
Definition edge_is_seg (S : Z) (vs : list pt) (e : edge) (p q : pt) : Prop :=
  (fst (fst e) < length vs)%nat /\ (snd (fst e) < length vs)%nat /\
  nth (fst (fst e)) vs (0, 0) = wrap S p /\ nth (snd (fst e)) vs (0, 0) = wrap S q /\
  snd e = (cell_of (fst q) S - cell_of (fst p) S, cell_of (snd q) S - cell_of (snd p) S).

(* ... so both ends lie in the cell and  pos[k] + S*c - pos[j] = q - p  (the edge vector is the ridge vector) *)
Lemma edge_is_seg_geometry : forall S vs e p q, 0 < S -> edge_is_seg S vs e p q ->
  let pj := nth (fst (fst e)) vs (0, 0) in
  let pk := nth (snd (fst e)) vs (0, 0) in
  in_unit S pj = true /\ in_unit S pk = true /\
  fst pk + S * fst (snd e) - fst pj = fst q - fst p /\
  snd pk + S * snd (snd e) - snd pj = snd q - snd p.
Proof.
  intros S vs e p q HS (_ & _ & Hj & Hk & Hc) pj pk. unfold pj, pk. rewrite Hj, Hk, Hc.
  split; [apply wrap_in_unit; exact HS|]. split; [apply wrap_in_unit; exact HS|].
  unfold wrap. simpl. split; ring.
Qed.

Lemma pedge_is_seg : forall S vs p q, In (wrap S p) vs -> In (wrap S q) vs ->
  edge_is_seg S vs (pedge S vs p q) p q.
Proof.
  intros S vs p q Hp Hq.
  assert (Hne : vs <> []) by (intro E; subst; inversion Hp).
  unfold edge_is_seg, pedge. simpl.
  split; [apply nearest_spec; exact Hne|]. split; [apply nearest_spec; exact Hne|].
  split; [apply nearest_exact; exact Hp|]. split; [apply nearest_exact; exact Hq|]. reflexivity.
Qed.

(* with distinct vertex positions the segment determines the edge *)
Lemma edge_is_seg_unique : forall S vs e p q, NoDup vs -> edge_is_seg S vs e p q -> e = pedge S vs p q.
Proof.
  intros S vs [[j k] c] p q HN (Hj & Hk & Ej & Ek & Ec). simpl in *. unfold pedge.
  rewrite <- Ej, <- Ek, !nearest_self by assumption. rewrite Ec. reflexivity.
Qed.

Lemma cross_edge_is_seg : forall S vs rv r, pvor S vs rv -> In r (select S vs 1 rv) ->
  let e := cross_edge S vs (to_nat_pair r) in
  edge_is_seg S vs e (vat vs (fst r)) (vat vs (snd r)) \/ edge_is_seg S vs e (vat vs (snd r)) (vat vs (fst r)).
Proof.
  intros S vs rv [a b] HP Hr e. destruct (pv_closed _ _ _ HP _ Hr) as [Ha Hb]. simpl in Ha, Hb.
  unfold e, to_nat_pair, vat in *. simpl.
  rewrite cross_edge_pedge. destruct (Z.to_nat a <=? Z.to_nat b)%nat; [left|right]; apply pedge_is_seg; assumption.
Qed.

Theorem pbc_edges_mod_cell : forall S vs rv e, pvor S vs rv -> In e (pbc_edges S vs rv) ->
  exists r, In r rv /\ finite r = true /\ (1 <= count_in S vs r)%nat /\
    (edge_is_seg S vs e (vat vs (fst r)) (vat vs (snd r)) \/
     edge_is_seg S vs e (vat vs (snd r)) (vat vs (fst r))).
Proof.
  intros S vs rv e HP He. pose proof (pv_S _ _ _ HP) as HS.
  rewrite pbc_edges_eq in He. apply in_app_or in He. destruct He as [He|He].
  - apply in_map_iff in He. destruct He as (r & <- & Hr). apply select_spec in Hr.
    destruct Hr as (Hin & Hc & Hf). exists r. split; [exact Hin|]. split; [exact Hf|]. split; [lia|]. left.
    destruct (finite_wf_range _ r (pv_wf _ _ _ HP r Hin) Hf) as [R1 R2].
    rewrite count_in_finite in Hc by lia.
    assert (U1 : in_unit S (vat vs (fst r)) = true)
      by (destruct (in_unit S (vat vs (fst r))), (in_unit S (vat vs (snd r))); simpl in Hc; try discriminate; reflexivity).
    assert (U2 : in_unit S (vat vs (snd r)) = true)
      by (destruct (in_unit S (vat vs (fst r))), (in_unit S (vat vs (snd r))); simpl in Hc; try discriminate; reflexivity).
    unfold edge_is_seg, to_nat_pair. simpl.
    split; [lia|]. split; [lia|].
    rewrite !wrap_id by assumption. split; [reflexivity|]. split; [reflexivity|].
    apply in_unit_cell in U1; [|exact HS]. apply in_unit_cell in U2; [|exact HS].
    unfold cell_pt in U1, U2. injection U1 as U1x U1y. injection U2 as U2x U2y.
    rewrite U1x, U1y, U2x, U2y. reflexivity.
  - destruct (dedup_edges_spec (crossing_edges S vs rv)) as (H1 & _).
    specialize (H1 e He). rewrite crossing_edges_eq in H1. apply in_map_iff in H1.
    destruct H1 as (r & <- & Hr). destruct (crossing_ends S vs rv r HP Hr) as (Hin & Hf & _).
    exists r. split; [exact Hin|]. split; [exact Hf|].
    split; [apply select_spec in Hr; lia|]. apply (cross_edge_is_seg S vs rv r HP Hr).
Qed.

(* no ridge touching the cell is lost: it is represented by an edge that is this very ridge modulo the cell (in one
   of the two orientations), even when the copy that was kept came from the translated ridge *)
Theorem pbc_edges_represent : forall S vs rv r, pvor S vs rv -> In r rv -> finite r = true ->
  (1 <= count_in S vs r)%nat ->
  exists e, In e (pbc_edges S vs rv) /\
    (edge_is_seg S vs e (vat vs (fst r)) (vat vs (snd r)) \/
     edge_is_seg S vs e (vat vs (snd r)) (vat vs (fst r))).
Proof.
  intros S vs rv r HP Hin Hf Hc. pose proof (pv_S _ _ _ HP) as HS.
  destruct (finite_wf_range _ r (pv_wf _ _ _ HP r Hin) Hf) as [R1 R2].
  assert (Hc2 : (count_in S vs r <= 2)%nat).
  { rewrite count_in_finite by lia. destruct (in_unit S (vat vs (fst r))), (in_unit S (vat vs (snd r))); simpl; lia. }
  destruct (pbc_edges_complete S vs rv r Hin Hf) as [C2 C1].
  destruct (Nat.eq_dec (count_in S vs r) 2) as [E2|N2].
  - exists (to_nat_pair r, (0, 0)). split; [apply C2; exact E2|].
    (* same computation as in pbc_edges_mod_cell *)
    left. rewrite count_in_finite in E2 by lia.
    assert (U1 : in_unit S (vat vs (fst r)) = true)
      by (destruct (in_unit S (vat vs (fst r))), (in_unit S (vat vs (snd r))); simpl in E2; try discriminate; reflexivity).
    assert (U2 : in_unit S (vat vs (snd r)) = true)
      by (destruct (in_unit S (vat vs (fst r))), (in_unit S (vat vs (snd r))); simpl in E2; try discriminate; reflexivity).
    unfold edge_is_seg, to_nat_pair. simpl. split; [lia|]. split; [lia|].
    rewrite !wrap_id by assumption. split; [reflexivity|]. split; [reflexivity|].
    apply in_unit_cell in U1; [|exact HS]. apply in_unit_cell in U2; [|exact HS].
    unfold cell_pt in U1, U2. injection U1 as U1x U1y. injection U2 as U2x U2y.
    rewrite U1x, U1y, U2x, U2y. reflexivity.
  - assert (E1 : count_in S vs r = 1%nat) by lia.
    assert (Hr : In r (select S vs 1 rv)) by (apply select_spec; auto).
    destruct (C1 E1) as (e & He & Ek). exists e. split; [exact He|].
    pose proof (crossing_noloop S vs rv r HP Hr) as Hl.
    rewrite (cross_edge_key S vs r Hl) in Ek.
    destruct (pv_closed _ _ _ HP r Hr) as [Ha Hb].
    destruct (edge_key_inj _ _ Hl Ek) as [-> | ->].
    + left. apply pedge_is_seg; assumption.
    + right. rewrite <- pedge_rev. apply pedge_is_seg; assumption.
Qed.

(* exactly one representative per translation class: two kept crossing ridges that are lattice translates of each
   other (as unordered segments) are the same edge *)
Theorem dedup_one_per_translation_class : forall S vs rv e e' p q p' q', pvor S vs rv ->
  In e (dedup_edges (crossing_edges S vs rv)) -> In e' (dedup_edges (crossing_edges S vs rv)) ->
  edge_is_seg S vs e p q -> edge_is_seg S vs e' p' q' -> wrap S p <> wrap S q ->
  translate_of S p q p' q' -> e = e'.
Proof.
  intros S vs rv e e' p q p' q' HP He He' Hs Hs' Hne Ht.
  pose proof (pv_S _ _ _ HP) as HS. pose proof (pv_nodup _ _ _ HP) as HN.
  destruct (dedup_edges_spec (crossing_edges S vs rv)) as (_ & _ & H3 & _).
  apply H3; [exact He|exact He'|].
  rewrite (edge_is_seg_unique S vs e p q HN Hs), (edge_is_seg_unique S vs e' p' q' HN Hs').
  symmetry. apply key_of_translate; [exact HS| |exact Ht].
  destruct Hs as (Hj & Hk & Ej & Ek & _).
  unfold is_loop, pedge. simpl. intro E. apply Hne. rewrite <- Ej, <- Ek.
  rewrite <- Ej, <- Ek in E. rewrite !nearest_self in E by assumption. rewrite E. reflexivity.
Qed.

(* ------------------------------------------------------------------ degrees: list lemmas *)
Definition touches (v : nat) (e : edge) : bool := (fst (fst e) =? v)%nat || (snd (fst e) =? v)%nat.
Definition deg (v : nat) (es : list edge) : nat := count_occ Nat.eq_dec (edge_ends es) v.

Lemma edge_ends_app : forall a b : list edge, edge_ends (a ++ b) = edge_ends a ++ edge_ends b.
Proof. intros. unfold edge_ends. apply flat_map_app. Qed.

Lemma deg_app : forall v a b, deg v (a ++ b) = (deg v a + deg v b)%nat.
Proof. intros. unfold deg. rewrite edge_ends_app. apply count_occ_app. Qed.

Lemma deg_noloop : forall v (es : list edge), (forall e, In e es -> ~ is_loop e) ->
  deg v es = length (filter (touches v) es).
Proof.
  intros v es. induction es as [|[[j k] c] es IH]; intro Hl; [reflexivity|].
  assert (Hjk : j <> k) by (apply (Hl ((j, k), c)); left; reflexivity).
  assert (IH' : deg v es = length (filter (touches v) es)) by (apply IH; intros e He; apply Hl; right; exact He).
  unfold deg in *. cbn [edge_ends flat_map app count_occ fst snd filter touches].
  fold (edge_ends es). rewrite IH'.
  destruct (Nat.eq_dec j v) as [->|Hj], (Nat.eq_dec k v) as [->|Hk]; try congruence.
  - unfold touches at 2. cbn [fst snd]. rewrite Nat.eqb_refl. simpl. reflexivity.
  - unfold touches at 2. cbn [fst snd]. rewrite Nat.eqb_refl, orb_true_r. simpl. reflexivity.
  - unfold touches at 2. cbn [fst snd]. apply Nat.eqb_neq in Hj, Hk. rewrite Hj, Hk. simpl. reflexivity.
Qed.

Lemma touches_rev : forall v e, touches v (rev_edge e) = touches v e.
Proof. intros v [[j k] c]. unfold touches, rev_edge. simpl. apply orb_comm. Qed.

Lemma NoDup_map_filter : forall (A B : Type) (f : A -> B) (g : A -> bool) l,
  NoDup (map f l) -> NoDup (map f (filter g l)).
Proof.
  intros A B f g l. induction l as [|x l IH]; simpl; intro H; [constructor|].
  inversion H as [|? ? Hn H']; subst. destruct (g x); simpl; [|auto].
  constructor; [|auto]. intro Hin. apply Hn. apply in_map_iff in Hin. destruct Hin as (y & E & Hy).
  apply filter_In in Hy. apply in_map_iff. exists y. tauto.
Qed.

Lemma NoDup_map_coarser : forall (A B C : Type) (f : A -> B) (g : A -> C) l,
  NoDup (map g l) -> (forall x y, In x l -> In y l -> f x = f y -> g x = g y) -> NoDup (map f l).
Proof.
  intros A B C f g l. induction l as [|x l IH]; simpl; intros H Hc; [constructor|].
  inversion H as [|? ? Hn H']; subst. constructor.
  - intro Hin. apply Hn. apply in_map_iff in Hin. destruct Hin as (y & E & Hy).
    apply in_map_iff. exists y. split; [|exact Hy]. apply Hc; auto.
  - apply IH; [exact H'|]. intros a b Ha Hb. apply Hc; auto.
Qed.

Lemma NoDup_same_length : forall (A : Type) (a b : list A), NoDup a -> NoDup b ->
  (forall x, In x a <-> In x b) -> length a = length b.
Proof.
  intros A a b Ha Hb H. apply Nat.le_antisymm; apply NoDup_incl_length; auto; intros x Hx; apply H; exact Hx.
Qed.

Lemma filter_disjoint_length : forall (A : Type) (f g1 g2 : A -> bool) l,
  (forall x, In x l -> f x = true -> (g1 x = true /\ g2 x = false) \/ (g1 x = false /\ g2 x = true)) ->
  (length (filter f (filter g1 l)) + length (filter f (filter g2 l)))%nat = length (filter f l).
Proof.
  intros A f g1 g2 l. induction l as [|x l IH]; intro H; [reflexivity|].
  assert (IH' : (length (filter f (filter g1 l)) + length (filter f (filter g2 l)))%nat = length (filter f l))
    by (apply IH; intros y Hy; apply H; right; exact Hy).
  simpl. destruct (f x) eqn:Ef.
  - destruct (H x (or_introl eq_refl) Ef) as [[E1 E2]|[E1 E2]]; rewrite E1, E2; simpl; rewrite Ef; simpl; lia.
  - destruct (g1 x), (g2 x); simpl; rewrite ?Ef; exact IH'.
Qed.

(* ------------------------------------------------------------------ degrees: inside ridges *)
Lemma deg_inside : forall v (l : list (Z * Z)),
  (forall r, In r l -> 0 <= fst r /\ 0 <= snd r /\ fst r <> snd r) ->
  deg v (map (fun r => (to_nat_pair r, (0, 0))) l) = length (filter (at_v (Z.of_nat v)) l).
Proof.
  intros v l H. rewrite deg_noloop.
  - induction l as [|[a b] l IH]; [reflexivity|].
    assert (IH' : length (filter (touches v) (map (fun r : Z * Z => (to_nat_pair r, (0, 0))) l)) =
                  length (filter (at_v (Z.of_nat v)) l)) by (apply IH; intros r Hr; apply H; right; exact Hr).
    destruct (H (a, b) (or_introl eq_refl)) as (Ha & Hb & _). simpl in Ha, Hb.
    cbn [map filter]. unfold touches at 1, at_v at 1, to_nat_pair. cbn [fst snd].
    assert (E1 : (Z.to_nat a =? v)%nat = (a =? Z.of_nat v))
      by (destruct (Nat.eqb_spec (Z.to_nat a) v), (Z.eqb_spec a (Z.of_nat v)); try reflexivity; lia).
    assert (E2 : (Z.to_nat b =? v)%nat = (b =? Z.of_nat v))
      by (destruct (Nat.eqb_spec (Z.to_nat b) v), (Z.eqb_spec b (Z.of_nat v)); try reflexivity; lia).
    rewrite E1, E2. unfold to_nat_pair in IH'.
    destruct ((a =? Z.of_nat v) || (b =? Z.of_nat v)); simpl; rewrite IH'; reflexivity.
  - intros e He. apply in_map_iff in He. destruct He as (r & <- & Hr).
    destruct (H r Hr) as (Ha & Hb & Hne). unfold is_loop, to_nat_pair. simpl. lia.
Qed.

(* ------------------------------------------------------------------ degrees: crossing ridges *)
(* a crossing ridge seen as (inner end i, outer end o) *)
Lemma crossing_io : forall S vs rv r, pvor S vs rv -> In r (select S vs 1 rv) ->
  exists i o, (r = (i, o) \/ r = (o, i)) /\
    0 <= i < Z.of_nat (length vs) /\ 0 <= o < Z.of_nat (length vs) /\
    in_unit S (vat vs i) = true /\ in_unit S (vat vs o) = false /\
    In (wrap S (vat vs i)) vs /\ In (wrap S (vat vs o)) vs /\
    ~ is_loop (pedge S vs (vat vs i) (vat vs o)) /\
    (cross_edge S vs (to_nat_pair r) = pedge S vs (vat vs i) (vat vs o) \/
     cross_edge S vs (to_nat_pair r) = rev_edge (pedge S vs (vat vs i) (vat vs o))) /\
    exists r', In r' rv /\ finite r' = true /\
      let c := cell_pt S (vat vs o) in
      ((vat vs (fst r') = tr S (vat vs i) (pt_opp c) /\ vat vs (snd r') = tr S (vat vs o) (pt_opp c)) \/
       (vat vs (fst r') = tr S (vat vs o) (pt_opp c) /\ vat vs (snd r') = tr S (vat vs i) (pt_opp c))).
Proof.
  intros S vs rv r HP Hr.
  destruct (crossing_ends S vs rv r HP Hr) as (Hin & Hf & R1 & R2 & Hio).
  destruct (pv_closed _ _ _ HP r Hr) as [Ca Cb].
  pose proof (crossing_noloop S vs rv r HP Hr) as Hl.
  pose proof (pv_trans _ _ _ HP r Hr) as Ht. cbv zeta in Ht.
  destruct r as [a b]. simpl in *.
  assert (Hce := cross_edge_cases S vs (Z.to_nat a) (Z.to_nat b)). cbv zeta in Hce.
  fold (vat vs a) (vat vs b) in Hce.
  destruct Hio as [[Ua Ub]|[Ua Ub]].
  - exists a, b. rewrite Ua in Ht.
    split; [left; reflexivity|]. repeat (split; [assumption|]).
    destruct Ht as (r' & H1 & H2 & H3). exists r'. split; [exact H1|]. split; [exact H2|exact H3].
  - exists b, a. rewrite Ua in Ht.
    split; [right; reflexivity|]. repeat (split; [assumption|]).
    split; [rewrite pedge_rev; intro Hl'; apply is_loop_rev in Hl'; exact (Hl Hl')|].
    split.
    + rewrite (pedge_rev S vs (vat vs a) (vat vs b)), rev_edge_invol. tauto.
    + destruct Ht as (r' & H1 & H2 & H3). exists r'. split; [exact H1|]. split; [exact H2|]. cbv zeta. tauto.
Qed.

Lemma vat_of_nat : forall vs v, vat vs (Z.of_nat v) = nth v vs (0, 0).
Proof. intros. unfold vat. rewrite Nat2Z.id. reflexivity. Qed.

Lemma vat_nat : forall vs i, vat vs i = nth (Z.to_nat i) vs (0, 0).
Proof. reflexivity. Qed.

Lemma upair_swap : forall a b, upair (a, b) = upair (b, a).
Proof. intros. unfold upair. simpl. rewrite Z.min_comm, Z.max_comm. reflexivity. Qed.

Lemma not_in_unit_cell : forall S p, 0 < S -> in_unit S p = false -> cell_pt S p <> (0, 0).
Proof. intros S p HS H E. apply (in_unit_cell S p HS) in E. congruence. Qed.

(* the ends of pedge for an inner end i: (i, nearest of the image of o) *)
Lemma pedge_inner : forall S vs i q, 0 < S -> NoDup vs -> 0 <= i < Z.of_nat (length vs) ->
  in_unit S (vat vs i) = true ->
  fst (fst (pedge S vs (vat vs i) q)) = Z.to_nat i.
Proof.
  intros S vs i q HS HN Hi Hu. unfold pedge. simpl. rewrite wrap_id by assumption.
  unfold vat. apply nearest_self; [exact HN|lia].
Qed.

Theorem deg_crossing : forall S vs rv v, pvor S vs rv -> (v < length vs)%nat ->
  in_unit S (nth v vs (0, 0)) = true ->
  deg v (dedup_edges (crossing_edges S vs rv)) = length (filter (at_v (Z.of_nat v)) (select S vs 1 rv)).
Proof.
  intros S vs rv v HP Hv Hu.
  pose proof (pv_S _ _ _ HP) as HS. pose proof (pv_nodup _ _ _ HP) as HN.
  set (ce := fun r : Z * Z => cross_edge S vs (to_nat_pair r)).
  set (X := filter (at_v (Z.of_nat v)) (select S vs 1 rv)).
  assert (Hes : crossing_edges S vs rv = map ce (select S vs 1 rv)) by apply crossing_edges_eq.
  set (d := dedup_edges (crossing_edges S vs rv)).
  destruct (dedup_edges_spec (crossing_edges S vs rv)) as (D1 & D2 & D3 & _ & D5). fold d in D1, D2, D3, D5.
  (* every crossing edge: not a loop; its key; whether it touches v *)
  assert (Hce : forall r, In r (select S vs 1 rv) -> ~ is_loop (ce r)).
  { intros r Hr. destruct (crossing_io S vs rv r HP Hr) as (i & o & _ & _ & _ & _ & _ & _ & _ & Hl & [E|E] & _);
      unfold ce; rewrite E; [exact Hl|]. intro H. apply is_loop_rev in H. exact (Hl H). }
  assert (Hd : forall e, In e d -> exists r, In r (select S vs 1 rv) /\ e = ce r).
  { intros e He. specialize (D1 e He). rewrite Hes in D1. apply in_map_iff in D1.
    destruct D1 as (r & E & Hr). exists r. auto. }
  assert (Hdl : forall e, In e d -> ~ is_loop e).
  { intros e He. destruct (Hd e He) as (r & Hr & ->). apply Hce. exact Hr. }
  rewrite (deg_noloop v d Hdl).
  (* facts about a crossing ridge at v: other end o *)
  assert (Hat : forall r, In r X -> exists o,
             0 <= o < Z.of_nat (length vs) /\ upair r = upair (Z.of_nat v, o) /\
             in_unit S (vat vs o) = false /\ In (wrap S (vat vs o)) vs /\
             ~ is_loop (pedge S vs (nth v vs (0, 0)) (vat vs o)) /\
             (ce r = pedge S vs (nth v vs (0, 0)) (vat vs o) \/ ce r = rev_edge (pedge S vs (nth v vs (0, 0)) (vat vs o)))).
  { intros r Hr. apply filter_In in Hr. destruct Hr as [Hr Ha].
    destruct (crossing_io S vs rv r HP Hr) as (i & o & Hor & Ri & Ro & Ui & Uo & Ci & Co & Hl & Hc & _).
    assert (Ei : i = Z.of_nat v).
    { unfold at_v in Ha. apply orb_true_iff in Ha.
      destruct Hor as [-> | ->]; simpl in Ha; destruct Ha as [Ha|Ha]; apply Z.eqb_eq in Ha; try exact Ha;
        subst o; rewrite vat_of_nat in Uo; congruence. }
    subst i. rewrite vat_of_nat in *. exists o. split; [exact Ro|]. split.
    { destruct Hor as [-> | ->]; [reflexivity|apply upair_swap]. }
    repeat (split; [assumption|]). exact Hc. }
  assert (Lself : nearest vs (wrap S (nth v vs (0, 0))) = v).
  { rewrite wrap_id by assumption. apply nearest_self; assumption. }
  rewrite <- (map_length edge_key (filter (touches v) d)).
  rewrite <- (map_length (fun r => edge_key (ce r)) X).
  apply NoDup_same_length.
  - apply NoDup_map_filter. apply klt_sorted_NoDup. exact D5.
  - apply (NoDup_map_coarser _ _ _ (fun r => edge_key (ce r)) upair X).
    + apply NoDup_map_filter. exact (pv_ridges _ _ _ HP).
    + intros r1 r2 H1 H2 Ek.
      destruct (Hat r1 H1) as (o1 & Ro1 & U1 & Uo1 & Co1 & Hl1 & Hc1).
      destruct (Hat r2 H2) as (o2 & Ro2 & U2 & Uo2 & Co2 & Hl2 & Hc2).
      assert (K1 : edge_key (ce r1) = edge_key (pedge S vs (nth v vs (0, 0)) (vat vs o1)))
        by (destruct Hc1 as [-> | ->]; [reflexivity|apply edge_key_rev; exact Hl1]).
      assert (K2 : edge_key (ce r2) = edge_key (pedge S vs (nth v vs (0, 0)) (vat vs o2)))
        by (destruct Hc2 as [-> | ->]; [reflexivity|apply edge_key_rev; exact Hl2]).
      rewrite K1, K2 in Ek.
      assert (Cv : In (wrap S (nth v vs (0, 0))) vs) by (rewrite wrap_id by assumption; apply nth_In; exact Hv).
      assert (Hne1 : wrap S (nth v vs (0, 0)) <> wrap S (vat vs o1)).
      { intro E. apply Hl1. unfold is_loop, pedge. simpl. rewrite E. reflexivity. }
      symmetry in Ek.
      apply (key_iff_translate S vs _ _ _ _ HS Cv Co1 Cv Co2 Hne1) in Ek.
      destruct Ek as (t & [[T1 T2]|[T1 T2]]).
      * rewrite <- (tr_zero S (nth v vs (0, 0))) in T1 at 1. apply (tr_inj_t S _ _ _ HS) in T1. subst t.
        rewrite tr_zero in T2. unfold vat in T2.
        apply (NoDup_nth_pt vs) in T2; [|exact HN|lia|lia].
        assert (o2 = o1) by lia. subst o2. rewrite U1, U2. reflexivity.
      * exfalso. apply Hne1. rewrite T1. rewrite wrap_tr by exact HS. reflexivity.
  - intro k. split; intro Hk; apply in_map_iff in Hk; destruct Hk as (x & <- & Hx).
    + (* an edge kept by the de-duplication that touches v comes from a ridge at v, or from the translate of one *)
      apply filter_In in Hx. destruct Hx as [Hx Ht].
      destruct (Hd x Hx) as (r & Hr & ->).
      destruct (crossing_io S vs rv r HP Hr) as (i & o & Hor & Ri & Ro & Ui & Uo & Ci & Co & Hl & Hc & r' & Hr' & Hf' & Htr).
      assert (Kr : edge_key (ce r) = edge_key (pedge S vs (vat vs i) (vat vs o)))
        by (unfold ce; destruct Hc as [-> | ->]; [reflexivity|apply edge_key_rev; exact Hl]).
      assert (Ht' : touches v (pedge S vs (vat vs i) (vat vs o)) = true)
        by (unfold ce in Ht; destruct Hc as [E|E]; rewrite E in Ht; [exact Ht|rewrite touches_rev in Ht; exact Ht]).
      unfold touches in Ht'. rewrite (pedge_inner S vs i _ HS HN Ri Ui) in Ht'. simpl in Ht'.
      apply orb_true_iff in Ht'. destruct Ht' as [Ht'|Ht']; apply Nat.eqb_eq in Ht'.
      * (* v is the inner end: r itself is at v *)
        apply in_map_iff. exists r. split; [reflexivity|]. apply filter_In. split; [exact Hr|].
        unfold at_v. assert (Ei : i = Z.of_nat v) by lia.
        destruct Hor as [-> | ->]; simpl; rewrite Ei, Z.eqb_refl; [reflexivity|apply orb_true_r].
      * (* v is the image of the outer end: the translated copy r' is at v *)
        cbv zeta in Htr. set (c := cell_pt S (vat vs o)) in *.
        assert (Hc0 : c <> (0, 0)) by (apply not_in_unit_cell; assumption).
        assert (Ewo : tr S (vat vs o) (pt_opp c) = wrap S (vat vs o)) by (symmetry; apply wrap_eq_tr).
        assert (Uin : in_unit S (tr S (vat vs i) (pt_opp c)) = false).
        { destruct (in_unit S (tr S (vat vs i) (pt_opp c))) eqn:E; [|reflexivity]. exfalso.
          apply (in_unit_cell S _ HS) in E. rewrite cell_pt_tr in E by exact HS.
          apply (in_unit_cell S _ HS) in Ui. rewrite Ui in E. unfold pt_opp in E. simpl in E.
          apply Hc0. injection E as E1 E2. unfold c, cell_pt. f_equal; lia. }
        destruct (finite_wf_range _ r' (pv_wf _ _ _ HP r' Hr') Hf') as [R1' R2'].
        assert (Hsel : In r' (select S vs 1 rv)).
        { apply select_spec. split; [exact Hr'|]. split; [|exact Hf'].
          rewrite count_in_finite by lia.
          destruct Htr as [[E1 E2]|[E1 E2]]; rewrite E1, E2, Ewo, Uin, wrap_in_unit by exact HS; reflexivity. }
        assert (Hat' : at_v (Z.of_nat v) r' = true).
        { unfold at_v. apply orb_true_iff.
          destruct Htr as [[E1 E2]|[E1 E2]]; [right|left]; apply Z.eqb_eq.
          - rewrite Ewo in E2. rewrite <- E2 in Ht'. unfold vat in Ht'. rewrite nearest_self in Ht' by (auto; lia). lia.
          - rewrite Ewo in E1. rewrite <- E1 in Ht'. unfold vat in Ht'. rewrite nearest_self in Ht' by (auto; lia). lia. }
        apply in_map_iff. exists r'. split; [|apply filter_In; split; assumption].
        rewrite Kr. unfold ce.
        rewrite (cross_edge_key S vs r' (crossing_noloop S vs rv r' HP Hsel)).
        apply key_of_translate; [exact HS|exact Hl|].
        exists (pt_opp c). destruct Htr as [[E1 E2]|[E1 E2]]; [left|right]; split; assumption.
    + (* a ridge at v is represented by a kept edge, which touches v *)
      destruct (Hat x Hx) as (o & Ro & U & Uo & Co & Hl & Hc).
      apply filter_In in Hx. destruct Hx as [Hx Ha].
      assert (Hin : In (ce x) (crossing_edges S vs rv)) by (rewrite Hes; apply in_map; exact Hx).
      destruct (D2 (ce x) Hin) as (e' & He' & Ek).
      apply in_map_iff. exists e'. split; [exact Ek|]. apply filter_In. split; [exact He'|].
      assert (Tx : touches v (ce x) = true).
      { destruct Hc as [-> | ->]; rewrite ?touches_rev; unfold touches, pedge; simpl; rewrite Lself, Nat.eqb_refl; reflexivity. }
      destruct (edge_key_inj _ _ (Hce x Hx) Ek) as [-> | ->]; [exact Tx|rewrite touches_rev; exact Tx].
Qed.

(* ------------------------------------------------------------------ degree = number of finite ridges at the vertex *)
Theorem pbc_degree : forall S vs rv v, pvor S vs rv -> (v < length vs)%nat ->
  in_unit S (nth v vs (0, 0)) = true ->
  deg v (pbc_edges S vs rv) = length (ridges_at (Z.of_nat v) rv).
Proof.
  intros S vs rv v HP Hv Hu. rewrite pbc_edges_eq, deg_app.
  rewrite deg_inside, (deg_crossing S vs rv v HP Hv Hu).
  - unfold ridges_at.
    set (f := fun r : Z * Z => finite r && at_v (Z.of_nat v) r).
    assert (Ef : forall k, filter (at_v (Z.of_nat v)) (select S vs k rv) = filter f (select S vs k rv)).
    { intro k. apply filter_ext_in. intros r Hr. apply select_spec in Hr. unfold f.
      destruct Hr as (_ & _ & ->). reflexivity. }
    rewrite !Ef. unfold select. rewrite Nat.add_comm. apply filter_disjoint_length.
    intros r Hr Hfr. unfold f in Hfr. apply andb_true_iff in Hfr. destruct Hfr as [Hf Ha].
    destruct (finite_wf_range _ r (pv_wf _ _ _ HP r Hr) Hf) as [R1 R2].
    rewrite Hf, !andb_true_r. rewrite count_in_finite by lia.
    unfold at_v in Ha. apply orb_true_iff in Ha.
    destruct Ha as [Ha|Ha]; apply Z.eqb_eq in Ha; rewrite Ha, vat_of_nat, Hu.
    + destruct (in_unit S (vat vs (snd r))); simpl; auto.
    + destruct (in_unit S (vat vs (fst r))); simpl; auto.
  - intros r Hr. apply select_spec in Hr. destruct Hr as (Hin & _ & Hf).
    destruct (finite_wf_range _ r (pv_wf _ _ _ HP r Hin) Hf) as [R1 R2].
    split; [lia|]. split; [lia|]. apply (pv_distinct _ _ _ HP r Hin Hf).
Qed.

(* every kept vertex lies in the cell *)
Lemma pbc_ends_in_unit : forall S vs rv x, pvor S vs rv -> In x (edge_ends (pbc_edges S vs rv)) ->
  (x < length vs)%nat /\ in_unit S (nth x vs (0, 0)) = true.
Proof.
  intros S vs rv x HP Hx. unfold edge_ends in Hx. apply in_flat_map in Hx. destruct Hx as (e & He & Hx).
  destruct (pbc_edges_mod_cell S vs rv e HP He) as (r & _ & _ & _ & Hs).
  pose proof (pv_S _ _ _ HP) as HS.
  assert (G : forall p q, edge_is_seg S vs e p q -> (x < length vs)%nat /\ in_unit S (nth x vs (0, 0)) = true).
  { intros p q Hseg. destruct (edge_is_seg_geometry S vs e p q HS Hseg) as (U1 & U2 & _).
    destruct Hseg as (L1 & L2 & _). simpl in Hx. destruct Hx as [<-|[<-|[]]]; auto. }
  destruct Hs as [Hs|Hs]; eapply G; exact Hs.
Qed.

(* ... and the kept vertices are exactly the vertices in the cell that have a finite ridge *)
Theorem pbc_kept_vertices : forall S vs rv x, pvor S vs rv ->
  (In x (edge_ends (pbc_edges S vs rv)) <->
   (x < length vs)%nat /\ in_unit S (nth x vs (0, 0)) = true /\ ridges_at (Z.of_nat x) rv <> []).
Proof.
  intros S vs rv x HP. split.
  - intro Hx. destruct (pbc_ends_in_unit S vs rv x HP Hx) as [L U]. split; [exact L|]. split; [exact U|].
    apply (count_occ_In Nat.eq_dec) in Hx. fold (deg x (pbc_edges S vs rv)) in Hx.
    rewrite (pbc_degree S vs rv x HP L U) in Hx. intro E. rewrite E in Hx. simpl in Hx. lia.
  - intros (L & U & Hne). apply (count_occ_In Nat.eq_dec). fold (deg x (pbc_edges S vs rv)).
    rewrite (pbc_degree S vs rv x HP L U). destruct (ridges_at (Z.of_nat x) rv); [congruence|simpl; lia].
Qed.

(* ------------------------------------------------------------------ handshake *)
Fixpoint sum_to (f : nat -> nat) (n : nat) : nat :=
  match n with O => O | S k => (f k + sum_to f k)%nat end.

Lemma sum_to_ext : forall f g n, (forall v, (v < n)%nat -> f v = g v) -> sum_to f n = sum_to g n.
Proof. intros f g n. induction n as [|n IH]; intro H; simpl; [reflexivity|]. rewrite H, IH by (intros; auto). reflexivity. Qed.

Lemma sum_to_const : forall c n, sum_to (fun _ => c) n = (c * n)%nat.
Proof. intros c n. induction n as [|n IH]; simpl; [lia|]. rewrite IH. lia. Qed.

Lemma sum_to_indicator : forall x n, (x < n)%nat ->
  sum_to (fun v => if Nat.eq_dec x v then 1%nat else 0%nat) n = 1%nat.
Proof.
  intros x n. induction n as [|n IH]; intro H; [lia|]. simpl.
  destruct (Nat.eq_dec x n) as [->|Hne].
  - assert (E : sum_to (fun v => if Nat.eq_dec n v then 1%nat else 0%nat) n = sum_to (fun _ => 0%nat) n).
    { apply sum_to_ext. intros v Hv. destruct (Nat.eq_dec n v); [lia|reflexivity]. }
    rewrite E, sum_to_const. lia.
  - rewrite IH by lia. reflexivity.
Qed.

Lemma sum_to_add : forall f g n, sum_to (fun v => (f v + g v)%nat) n = (sum_to f n + sum_to g n)%nat.
Proof. intros f g n. induction n as [|n IH]; simpl; [reflexivity|]. rewrite IH. lia. Qed.

Lemma handshake : forall (l : list nat) n, (forall x, In x l -> (x < n)%nat) ->
  sum_to (count_occ Nat.eq_dec l) n = length l.
Proof.
  intros l n. induction l as [|x l IH]; intro H.
  - simpl. rewrite sum_to_const. reflexivity.
  - assert (E : sum_to (count_occ Nat.eq_dec (x :: l)) n =
                sum_to (fun v => ((if Nat.eq_dec x v then 1 else 0) + count_occ Nat.eq_dec l v)%nat) n).
    { apply sum_to_ext. intros v _. simpl. destruct (Nat.eq_dec x v); reflexivity. }
    rewrite E, sum_to_add, sum_to_indicator, IH; [reflexivity| |].
    + intros y Hy. apply H. right. exact Hy.
    + apply H. left. reflexivity.
Qed.

(* ------------------------------------------------------------------ every translation class exactly once *)
Definition key_cross (k : key) : pt := let '(_, _, c3, c4) := k in (c3, c4).

Lemma edge_key_cross_zero : forall e, key_cross (edge_key e) = (0, 0) <-> snd e = (0, 0).
Proof.
  intros [[j k] [cx cy]]. unfold edge_key, key_cross. simpl.
  destruct (k <? j)%nat; simpl; split; intro H; injection H as H1 H2; f_equal; lia.
Qed.

Lemma pedge_cross_nonzero : forall S vs p q, 0 < S -> in_unit S p = true -> in_unit S q = false ->
  snd (pedge S vs p q) <> (0, 0).
Proof.
  intros S vs p q HS Up Uq. unfold pedge. simpl. intro E. injection E as E1 E2.
  apply (in_unit_cell S p HS) in Up. unfold cell_pt in Up. injection Up as P1 P2.
  apply (not_in_unit_cell S q HS Uq). unfold cell_pt. f_equal; lia.
Qed.

Lemma rev_edge_cross_zero : forall e, snd (rev_edge e) = (0, 0) <-> snd e = (0, 0).
Proof.
  intros [[j k] [cx cy]]. unfold rev_edge. simpl. split; intro H; injection H as H1 H2; f_equal; lia.
Qed.

Lemma inside_key : forall r, 0 <= fst r -> 0 <= snd r ->
  edge_key (to_nat_pair r, (0, 0)) = (fst (upair r), snd (upair r), 0, 0).
Proof.
  intros [a b] Ha Hb. unfold edge_key, to_nat_pair, upair. simpl in *.
  destruct (Nat.ltb_spec (Z.to_nat b) (Z.to_nat a)).
  - rewrite !Z2Nat.id by lia. rewrite Z.min_r, Z.max_l by lia. reflexivity.
  - rewrite !Z2Nat.id by lia. rewrite Z.min_l, Z.max_r by lia. reflexivity.
Qed.

Theorem pbc_edges_keys_NoDup : forall S vs rv, pvor S vs rv ->
  NoDup (map edge_key (pbc_edges S vs rv)).
Proof.
  intros S vs rv HP. pose proof (pv_ridges2 _ _ _ HP) as H2. pose proof (pv_S _ _ _ HP) as HS.
  rewrite pbc_edges_eq, map_app. apply NoDup_app_intro.
  - rewrite map_map.
    apply (NoDup_map_coarser _ _ _ (fun r => edge_key (to_nat_pair r, (0, 0))) upair); [exact H2|].
    intros x y Hx Hy E. apply select_spec in Hx. apply select_spec in Hy.
    destruct Hx as (Hx & _ & Fx). destruct Hy as (Hy & _ & Fy).
    destruct (finite_wf_range _ x (pv_wf _ _ _ HP x Hx) Fx) as [X1 X2].
    destruct (finite_wf_range _ y (pv_wf _ _ _ HP y Hy) Fy) as [Y1 Y2].
    rewrite !inside_key in E by lia. injection E as E1 E2.
    unfold upair. f_equal; [exact E1|exact E2].
  - apply klt_sorted_NoDup. destruct (dedup_edges_spec (crossing_edges S vs rv)) as (_ & _ & _ & _ & D5). exact D5.
  - intros k Hin Hd. apply in_map_iff in Hin. destruct Hin as (e & <- & He).
    apply in_map_iff in He. destruct He as (r & <- & Hr).
    apply in_map_iff in Hd. destruct Hd as (e' & Ek & He').
    destruct (dedup_edges_spec (crossing_edges S vs rv)) as (D1 & _).
    specialize (D1 e' He'). rewrite crossing_edges_eq in D1. apply in_map_iff in D1. destruct D1 as (r' & <- & Hr').
    destruct (crossing_io S vs rv r' HP Hr') as (i & o & _ & _ & _ & Ui & Uo & _ & _ & _ & Hc & _).
    assert (Hz : snd (cross_edge S vs (to_nat_pair r')) = (0, 0)).
    { apply edge_key_cross_zero. rewrite Ek. apply edge_key_cross_zero. reflexivity. }
    destruct Hc as [E|E]; rewrite E in Hz.
    + exact (pedge_cross_nonzero S vs _ _ HS Ui Uo Hz).
    + apply (proj1 (rev_edge_cross_zero _)) in Hz. exact (pedge_cross_nonzero S vs _ _ HS Ui Uo Hz).
Qed.

Lemma pbc_edges_noloop : forall S vs rv e, pvor S vs rv -> In e (pbc_edges S vs rv) -> ~ is_loop e.
Proof.
  intros S vs rv e HP He. rewrite pbc_edges_eq in He. apply in_app_or in He. destruct He as [He|He].
  - apply in_map_iff in He. destruct He as (r0 & <- & Hr0). apply select_spec in Hr0.
    destruct Hr0 as (Hin0 & _ & F0). destruct (finite_wf_range _ r0 (pv_wf _ _ _ HP r0 Hin0) F0) as [R1 R2].
    unfold is_loop, to_nat_pair. simpl. intro E. apply (pv_distinct _ _ _ HP r0 Hin0 F0). lia.
  - destruct (dedup_edges_spec (crossing_edges S vs rv)) as (D1 & _).
    specialize (D1 _ He). rewrite crossing_edges_eq in D1. apply in_map_iff in D1. destruct D1 as (r0 & <- & Hr0).
    destruct (crossing_io S vs rv r0 HP Hr0) as (i0 & o0 & _ & _ & _ & _ & _ & _ & _ & Hl0 & Hc & _).
    destruct Hc as [E|E]; rewrite E; [exact Hl0|]. intro H. apply is_loop_rev in H. exact (Hl0 H).
Qed.

(* hence no two returned ridges are the same periodic edge, not even reversed *)
Corollary pbc_edges_distinct : forall S vs rv i i', pvor S vs rv ->
  let es := pbc_edges S vs rv in
  (i < length es)%nat -> (i' < length es)%nat -> i <> i' ->
  nth i es edge0 <> nth i' es edge0 /\ nth i es edge0 <> rev_edge (nth i' es edge0).
Proof.
  intros S vs rv i i' HP es Hi Hi' Hne.
  pose proof (pbc_edges_keys_NoDup S vs rv HP) as HN. fold es in HN.
  assert (Hk : edge_key (nth i es edge0) <> edge_key (nth i' es edge0)).
  { intro E. apply Hne. apply (proj1 (NoDup_nth (map edge_key es) (edge_key edge0)) HN);
      rewrite ?map_length; auto. rewrite !(map_nth edge_key). exact E. }
  assert (Hl : ~ is_loop (nth i' es edge0)) by (apply (pbc_edges_noloop S vs rv _ HP); apply nth_In; exact Hi').
  split; intro E; apply Hk; rewrite E; [reflexivity|apply edge_key_rev; exact Hl].
Qed.

(* ------------------------------------------------------------------ the returned lattice *)
(* edge i of L is the segment p -> q modulo the cell *)
Definition lat_is_seg (L : lattice) (i : nat) (p q : pt) : Prop :=
  let jk := edge_at L i in
  (fst jk < nV L)%nat /\ (snd jk < nV L)%nat /\
  pos_at L (fst jk) = wrap (scale L) p /\ pos_at L (snd jk) = wrap (scale L) q /\
  cross_at L i = (cell_of (fst q) (scale L) - cell_of (fst p) (scale L),
                  cell_of (snd q) (scale L) - cell_of (snd p) (scale L)).

(* ... hence its edge vector pos[k] - pos[j] + S*crossing (Lattice.evec) is the ridge vector q - p *)
Lemma lat_is_seg_evec : forall L i p q, lat_is_seg L i p q -> evec L i = (fst q - fst p, snd q - snd p).
Proof.
  intros L i p q (_ & _ & Hj & Hk & Hc). unfold evec. destruct (edge_at L i) as [j k]. simpl in *.
  rewrite Hj, Hk, Hc. unfold vadd, vsub, vscale, wrap. simpl. f_equal; ring.
Qed.

(* edge i of L as a periodic edge ((j,k),c) *)
Definition ledge (L : lattice) (i : nat) : edge := (edge_at L i, cross_at L i).

Lemma ends_reindexed : forall order (es : list edge),
  ends (map (fun e : edge => (pos_in (fst (fst e)) order, pos_in (snd (fst e)) order)) es) =
  map (fun x => pos_in x order) (edge_ends es).
Proof. intros order es. induction es as [|e es IH]; [reflexivity|]. simpl. rewrite <- IH. reflexivity. Qed.

Lemma ends_length : forall l : list (nat * nat), length (ends l) = (2 * length l)%nat.
Proof. induction l as [|e l IH]; [reflexivity|]. cbn [ends flat_map app length] in *. fold (ends l). lia. Qed.

Lemma sum_to_all : forall f c n, (forall v, (v < n)%nat -> f v = c) -> sum_to f n = (c * n)%nat.
Proof. intros f c n H. rewrite (sum_to_ext f (fun _ => c) n H). apply sum_to_const. Qed.

Theorem post_correct_graph : forall order_of shift S points v S' vs ps ed cr,
  shifted_vertices shift S points v = Ok (S', vs) ->
  pvor S' vs (ridge_vertices v) ->
  post_process order_of shift S points v = Ok (S', (ps, ed, cr)) ->
  let rv := ridge_vertices v in
  let L := mkLattice S' ps ed cr in
  let order := order_of (edge_ends (pbc_edges S' vs rv)) in
  wf_lattice L = true /\
  NoDup order /\ length order = nV L /\ NoDup (pos L) /\
  (* vertices: exactly the Voronoi vertices in the cell (0,S]^2 that have a finite ridge, each once, at its position;
     degree = number of finite ridges at it *)
  (forall n, (n < nV L)%nat ->
     (nth n order 0 < length vs)%nat /\ pos_at L n = nth (nth n order 0%nat) vs (0, 0) /\
     in_unit S' (pos_at L n) = true /\
     count_ends L n = length (ridges_at (Z.of_nat (nth n order 0%nat)) rv)) /\
  (forall x, (x < length vs)%nat -> in_unit S' (nth x vs (0, 0)) = true -> ridges_at (Z.of_nat x) rv <> [] ->
     In x order) /\
  (* edges: every edge is a finite ridge touching the cell, modulo the cell; every such ridge is an edge *)
  (forall i, (i < nE L)%nat -> exists r, In r rv /\ finite r = true /\ (1 <= count_in S' vs r)%nat /\
     (lat_is_seg L i (vat vs (fst r)) (vat vs (snd r)) \/ lat_is_seg L i (vat vs (snd r)) (vat vs (fst r)))) /\
  (forall r, In r rv -> finite r = true -> (1 <= count_in S' vs r)%nat -> exists i, (i < nE L)%nat /\
     (lat_is_seg L i (vat vs (fst r)) (vat vs (snd r)) \/ lat_is_seg L i (vat vs (snd r)) (vat vs (fst r)))) /\
  (* ... each once: no two edges of L are the same periodic edge, not even reversed *)
  (forall i i', (i < nE L)%nat -> (i' < nE L)%nat -> i <> i' ->
     ledge L i <> ledge L i' /\ ledge L i <> rev_edge (ledge L i')).
Proof.
  intros order_of shift S points v S' vs ps ed cr Hsh HP Hpost rv L order.
  destruct (post_process_inv _ _ _ _ _ _ _ _ _ Hpost) as (vs0 & Hsh0 & _ & Hre).
  rewrite Hsh in Hsh0. injection Hsh0 as <-. cbv zeta in Hre. fold rv in Hre.
  set (es := pbc_edges S' vs rv) in *. fold order in Hre.
  pose proof (pv_S _ _ _ HP) as HS. pose proof (pv_nodup _ _ _ HP) as HN.
  unfold reindex in Hre. destruct (order_ok order (edge_ends es)) eqn:Eok; [|discriminate].
  apply order_ok_spec in Eok. destruct Eok as [HNo Hmem].
  injection Hre as Eps Eed Ecr.
  assert (Lps : length ps = length order) by (rewrite <- Eps; apply map_length).
  assert (Lps' : @length vec ps = length order) by exact Lps.
  assert (Led : length ed = length es) by (rewrite <- Eed; apply map_length).
  assert (Lcr : length cr = length es) by (rewrite <- Ecr; apply map_length).
  assert (Lcr' : @length vec cr = length es) by exact Lcr.
  assert (Hord : forall x, In x order -> (x < length vs)%nat /\ in_unit S' (nth x vs (0, 0)) = true).
  { intros x Hx. apply Hmem in Hx. apply (pbc_ends_in_unit S' vs rv x HP Hx). }
  assert (Gps : forall n, (n < length order)%nat -> nth n ps (0, 0) = nth (nth n order 0%nat) vs (0, 0)).
  { intros n Hn. rewrite <- Eps.
    rewrite (nth_indep _ (0, 0) ((fun i0 : nat => nth i0 vs (0, 0)) 0%nat)) by (rewrite map_length; exact Hn).
    apply (map_nth (fun i0 : nat => nth i0 vs (0, 0))). }
  set (f := fun e : edge => (pos_in (fst (fst e)) order, pos_in (snd (fst e)) order)) in *.
  assert (Ged : forall i, (i < length es)%nat -> nth i ed (0%nat, 0%nat) = f (nth i es edge0)).
  { intros i Hi. rewrite <- Eed. rewrite (nth_indep _ (0%nat, 0%nat) (f edge0)) by (rewrite map_length; exact Hi).
    apply map_nth. }
  assert (Gcr : forall i, (i < length es)%nat -> nth i cr (0, 0) = snd (nth i es edge0)).
  { intros i Hi. rewrite <- Ecr. rewrite (nth_indep _ (0, 0) (snd edge0)) by (rewrite map_length; exact Hi).
    apply map_nth. }
  assert (Gpos : forall x, In x order -> (pos_in x order < length order)%nat /\
                  nth (pos_in x order) ps (0, 0) = nth x vs (0, 0)).
  { intros x Hx. destruct (pos_in_spec x order Hx) as [P1 P2]. split; [exact P1|]. rewrite Gps by exact P1.
    rewrite P2. reflexivity. }
  (* an edge of es that is a segment mod the cell is that segment in L *)
  assert (Gseg : forall i p q, (i < length es)%nat -> edge_is_seg S' vs (nth i es edge0) p q -> lat_is_seg L i p q).
  { intros i p q Hi (_ & _ & Ej & Ek & Ec).
    assert (He : In (nth i es edge0) es) by (apply nth_In; exact Hi).
    destruct (edge_ends_In es _ He) as [Ha Hb]. apply Hmem in Ha. apply Hmem in Hb.
    destruct (Gpos _ Ha) as [A1 A2]. destruct (Gpos _ Hb) as [B1 B2].
    unfold lat_is_seg, edge_at, pos_at, cross_at, nV, L. simpl. rewrite (Ged i Hi). unfold f. simpl.
    rewrite Lps'. split; [exact A1|]. split; [exact B1|].
    split; [exact (eq_trans A2 Ej)|]. split; [exact (eq_trans B2 Ek)|]. exact (eq_trans (Gcr i Hi) Ec). }
  split.
  { (* wf_lattice *)
    unfold wf_lattice, nE, nV, L. simpl. rewrite Lcr', Led, Nat.eqb_refl.
    apply andb_true_iff. split; [apply andb_true_iff; split; [apply Z.ltb_lt; exact HS|reflexivity]|].
    apply forallb_forall. intros jk Hjk. rewrite <- Eed in Hjk. apply in_map_iff in Hjk.
    destruct Hjk as (e & <- & He). destruct (edge_ends_In es e He) as [Ha Hb]. apply Hmem in Ha. apply Hmem in Hb.
    unfold wf_edge, f. simpl. rewrite Lps'.
    apply andb_true_iff. split; apply Nat.ltb_lt; apply pos_in_spec; assumption. }
  split; [exact HNo|]. split; [unfold nV, L; simpl; symmetry; exact Lps|].
  split.
  { (* distinct positions *)
    unfold L. simpl. rewrite <- Eps. apply (NoDup_map_coarser _ _ _ (fun i : nat => nth i vs (0, 0)) (fun i : nat => i) order).
    - rewrite map_id. exact HNo.
    - intros x y Hx Hy E. destruct (Hord x Hx) as [Lx _]. destruct (Hord y Hy) as [Ly _].
      apply (NoDup_nth_pt vs x y HN Lx Ly E). }
  split.
  { intros n Hn. unfold nV, L in Hn. simpl in Hn. rewrite Lps' in Hn.
    assert (Hin : In (nth n order 0%nat) order) by (apply nth_In; exact Hn).
    destruct (Hord _ Hin) as [Lo Uo]. split; [exact Lo|].
    unfold pos_at, L. simpl. split; [exact (Gps n Hn)|].
    split; [exact (eq_trans (f_equal (in_unit S') (Gps n Hn)) Uo)|].
    rewrite count_ends_occ. unfold L. simpl. rewrite <- Eed. unfold f. rewrite ends_reindexed.
    rewrite <- (pos_in_nth order n HNo Hn) at 1.
    rewrite (count_occ_map_inj (fun x => pos_in x order) (edge_ends es) (nth n order 0%nat) (fun x => In x order)).
    - exact (pbc_degree S' vs rv _ HP Lo Uo).
    - intros x y Hx Hy E. destruct (pos_in_spec x order Hx) as [_ Px]. destruct (pos_in_spec y order Hy) as [_ Py].
      rewrite <- Px, <- Py, E. reflexivity.
    - exact Hin.
    - intros x Hx. apply Hmem. exact Hx. }
  split.
  { intros x Lx Ux Hne. apply Hmem. apply (pbc_kept_vertices S' vs rv x HP). auto. }
  split.
  { intros i Hi. unfold nE, L in Hi. simpl in Hi. rewrite Led in Hi.
    assert (He : In (nth i es edge0) es) by (apply nth_In; exact Hi).
    destruct (pbc_edges_mod_cell S' vs rv _ HP He) as (r & R1 & R2 & R3 & Hs).
    exists r. split; [exact R1|]. split; [exact R2|]. split; [exact R3|].
    destruct Hs as [Hs|Hs]; [left|right]; apply Gseg; assumption. }
  split.
  { intros r R1 R2 R3. destruct (pbc_edges_represent S' vs rv r HP R1 R2 R3) as (e & He & Hs).
    destruct (In_nth es e edge0 He) as (i & Hi & Ei). exists i. split; [unfold nE, L; simpl; lia|].
    rewrite <- Ei in Hs. destruct Hs as [Hs|Hs]; [left|right]; apply Gseg; assumption. }
  { intros i i' Hi Hi' Hne. unfold nE, L in Hi, Hi'. simpl in Hi, Hi'. rewrite Led in Hi, Hi'.
    destruct (pbc_edges_distinct S' vs rv i i' HP Hi Hi' Hne) as [D1 D2]. fold es in D1, D2.
    assert (Hinj : forall x y, In x order -> In y order -> pos_in x order = pos_in y order -> x = y).
    { intros x y Hx Hy E. destruct (pos_in_spec x order Hx) as [_ Px]. destruct (pos_in_spec y order Hy) as [_ Py].
      rewrite <- Px, <- Py, E. reflexivity. }
    assert (Gl : forall n, (n < length es)%nat -> ledge L n = (f (nth n es edge0), snd (nth n es edge0))).
    { intros n Hn. unfold ledge, edge_at, cross_at, L. simpl. rewrite (Ged n Hn). f_equal. exact (Gcr n Hn). }
    rewrite (Gl i Hi), (Gl i' Hi').
    assert (He : In (nth i es edge0) es) by (apply nth_In; exact Hi).
    assert (He' : In (nth i' es edge0) es) by (apply nth_In; exact Hi').
    destruct (edge_ends_In es _ He) as [Ha Hb]. destruct (edge_ends_In es _ He') as [Ha' Hb'].
    apply Hmem in Ha. apply Hmem in Hb. apply Hmem in Ha'. apply Hmem in Hb'.
    destruct (nth i es edge0) as [[j k] [cx cy]]. destruct (nth i' es edge0) as [[j' k'] [cx' cy']]. unfold f. simpl in *.
    split; intro E.
    - apply D1. injection E as E1 E2 E3 E4. rewrite (Hinj _ _ Ha Ha' E1), (Hinj _ _ Hb Hb' E2), E3, E4. reflexivity.
    - apply D2. unfold rev_edge in *. simpl in *. injection E as E1 E2 E3 E4.
      rewrite (Hinj _ _ Ha Hb' E1), (Hinj _ _ Hb Ha' E2), E3, E4. reflexivity. }
Qed.

(* when moreover every vertex in the cell has exactly three finite ridges: the lattice is trivalent and 2E = 3V *)
Lemma trivalent_ok_spec : forall S vs rv, trivalent_ok S vs rv = true ->
  forall x, (x < length vs)%nat -> in_unit S (nth x vs (0, 0)) = true -> length (ridges_at (Z.of_nat x) rv) = 3%nat.
Proof.
  intros S vs rv H x Lx Ux. unfold trivalent_ok in H. rewrite forallb_forall in H.
  specialize (H x). rewrite Ux in H. simpl in H. apply Nat.eqb_eq. apply H. apply in_seq. lia.
Qed.

Theorem post_correct_trivalent : forall order_of shift S points v S' vs ps ed cr,
  shifted_vertices shift S points v = Ok (S', vs) ->
  pvor S' vs (ridge_vertices v) -> trivalent_ok S' vs (ridge_vertices v) = true ->
  post_process order_of shift S points v = Ok (S', (ps, ed, cr)) ->
  let L := mkLattice S' ps ed cr in
  (forall n, (n < nV L)%nat -> count_ends L n = 3%nat) /\ (2 * nE L = 3 * nV L)%nat.
Proof.
  intros order_of shift S points v S' vs ps ed cr Hsh HP Htri Hpost L.
  destruct (post_correct_graph _ _ _ _ _ _ _ _ _ _ Hsh HP Hpost) as (Hwf & _ & _ & _ & Hv & _).
  fold L in Hwf, Hv.
  assert (H3 : forall n, (n < nV L)%nat -> count_ends L n = 3%nat).
  { intros n Hn. destruct (Hv n Hn) as (Lo & Ep & Uo & ->). rewrite Ep in Uo.
    apply (trivalent_ok_spec S' vs _ Htri _ Lo Uo). }
  split; [exact H3|].
  assert (Hs : sum_to (count_occ Nat.eq_dec (ends (edges L))) (nV L) = length (ends (edges L))).
  { apply handshake. intros x Hx. unfold ends in Hx. apply in_flat_map in Hx. destruct Hx as (e & He & Hx).
    unfold wf_lattice in Hwf. rewrite !andb_true_iff in Hwf. destruct Hwf as [_ Hwf].
    rewrite forallb_forall in Hwf. specialize (Hwf e He). unfold wf_edge in Hwf.
    apply andb_true_iff in Hwf. destruct Hwf as [W1 W2]. apply Nat.ltb_lt in W1, W2.
    simpl in Hx. destruct Hx as [<-|[<-|[]]]; assumption. }
  rewrite (sum_to_all _ 3%nat) in Hs by (intros n Hn; rewrite <- count_ends_occ; apply H3; exact Hn).
  assert (Hl : length (ends (edges L)) = (2 * nE L)%nat).
  { unfold nE. apply ends_length. }
  lia.
Qed.

(* ------------------------------------------------------------------ the boolean is exactly the proposition *)
Lemma NoDup_nodup_by_pt : forall l : list pt, NoDup l -> nodup_by pt_eqb l = true.
Proof.
  induction 1 as [|x l Hn HN IH]; simpl; [reflexivity|]. rewrite IH, andb_true_r.
  apply negb_true_iff. apply not_true_is_false. intro H. apply Hn. apply (mem_pt_spec x l). exact H.
Qed.

Theorem pvor_ok_complete : forall S vs rv, pvor S vs rv -> pvor_ok S vs rv = true.
Proof.
  intros S vs rv HP. unfold pvor_ok. rewrite !andb_true_iff. repeat split.
  - apply Z.ltb_lt. exact (pv_S _ _ _ HP).
  - apply forallb_forall. exact (pv_wf _ _ _ HP).
  - apply forallb_forall. intros r Hr. destruct (finite r) eqn:Hf; [|reflexivity]. simpl.
    apply negb_true_iff. apply Z.eqb_neq. exact (pv_distinct _ _ _ HP r Hr Hf).
  - apply NoDup_nodup_by_pt. exact (pv_nodup _ _ _ HP).
  - apply NoDup_nodup_by_pt. exact (pv_ridges _ _ _ HP).
  - apply NoDup_nodup_by_pt. exact (pv_ridges2 _ _ _ HP).
  - apply forallb_forall. intros r Hr. unfold cross_ok. rewrite !andb_true_iff.
    destruct (pv_closed _ _ _ HP r Hr) as [Ca Cb]. repeat split.
    + apply mem_pt_spec. exact Ca.
    + apply mem_pt_spec. exact Cb.
    + apply negb_true_iff. apply not_true_is_false. intro E. apply pt_eqb_eq in E.
      exact (pv_noloop _ _ _ HP r Hr E).
    + unfold has_translate. apply existsb_exists.
      destruct (pv_trans _ _ _ HP r Hr) as (r' & H1 & H2 & H3). exists r'. split; [exact H1|].
      rewrite H2. simpl. apply orb_true_iff.
      destruct H3 as [[E1 E2]|[E1 E2]]; [left|right]; apply andb_true_iff; split; apply pt_eqb_eq; assumption.
Qed.

(* ------------------------------------------------------------------ shift_vertices: kept vertices are centroids in the cell *)
(* with shift_vertices the position of a vertex is the SUM of its three seeds on the scale 3S; "in the cell (0,3S]^2" is
   exactly check_dual's test [in_cell S] of the centroid (a+b+c)/3, i.e. of [ref_point true a b c] *)
Lemma shifted_in_cell : forall S a b c,
  in_unit (3 * S) (pt_add (pt_add a b) c) = in_cell S (ref_point true a b c).
Proof.
  intros S [ax ay] [bx by_] [cx cy]. unfold in_unit, in_cell, ref_point, pt_add. simpl.
  replace (3 * S) with (3 * S) by reflexivity. reflexivity.
Qed.

Theorem pvor_ok_iff : forall S vs rv, pvor_ok S vs rv = true <-> pvor S vs rv.
Proof. intros. split; [apply pvor_ok_spec|apply pvor_ok_complete]. Qed.
