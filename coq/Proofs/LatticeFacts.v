(* Proofs/LatticeFacts.v — facts about Model/Lattice.v used by C01 (and reused by C02, C05 ...).
   Part 1: rotation system (sorted incident edges), the dart successor next_dart and its injectivity. *)
From Coq Require Import List ZArith Bool Arith Lia Permutation.
From Koala Require Import Model.Lattice.
Import ListNotations.

(* ------------------------------------------------------------------ insertion sort *)
Lemma insert_desc_perm key x l : Permutation (insert_desc key x l) (x :: l).
Proof.
  induction l as [|y r IH]; cbn [insert_desc]; [reflexivity|].
  destruct (ang_lt (key y) (key x)); [reflexivity|].
  rewrite IH. apply perm_swap.
Qed.

Lemma sort_desc_perm_gen key l acc :
  Permutation (fold_left (fun a x => insert_desc key x a) l acc) (l ++ acc).
Proof.
  revert acc; induction l as [|x l IH]; intros acc; cbn [fold_left app]; [reflexivity|].
  rewrite IH, insert_desc_perm. symmetry. apply Permutation_middle.
Qed.

Lemma sort_desc_perm key l : Permutation (sort_desc key l) l.
Proof. unfold sort_desc. rewrite sort_desc_perm_gen, app_nil_r. reflexivity. Qed.

(* ------------------------------------------------------------------ incident edges *)
Lemma incident_NoDup L v : NoDup (incident L v).
Proof. unfold incident. apply NoDup_filter, seq_NoDup. Qed.

Lemma in_incident L v e :
  In e (incident L v) <-> (e < nE L)%nat /\ incident_b L v e = true.
Proof.
  unfold incident. rewrite filter_In, in_seq. split; intros [H1 H2]; split; auto; lia.
Qed.

Lemma sorted_adj_perm L v : Permutation (sorted_adj L v) (incident L v).
Proof. apply sort_desc_perm. Qed.

Lemma sorted_adj_NoDup L v : NoDup (sorted_adj L v).
Proof.
  eapply Permutation_NoDup; [symmetry; apply sorted_adj_perm | apply incident_NoDup].
Qed.

Lemma in_sorted_adj L v e :
  In e (sorted_adj L v) <-> (e < nE L)%nat /\ incident_b L v e = true.
Proof.
  rewrite <- in_incident. split; apply Permutation_in;
    [apply sorted_adj_perm | symmetry; apply sorted_adj_perm].
Qed.

Lemma adj_table_nth L v : (v < nV L)%nat -> nth v (adj_table L) [] = sorted_adj L v.
Proof.
  intros Hv. unfold adj_table.
  rewrite (nth_indep _ [] (sorted_adj L 0%nat)) by (rewrite map_length, seq_length; exact Hv).
  rewrite map_nth, seq_nth by exact Hv. reflexivity.
Qed.

(* ------------------------------------------------------------------ index_of / succ_in *)
Lemma index_of_Some x l i :
  index_of x l = Some i -> (i < length l)%nat /\ nth i l 0%nat = x.
Proof.
  revert i; induction l as [|y r IH]; intros i; cbn [index_of]; [discriminate|].
  destruct (Nat.eqb_spec y x) as [->|Hne].
  - intros [= <-]. cbn. split; [lia|reflexivity].
  - destruct (index_of x r) as [j|] eqn:Ej; cbn [option_map]; [|discriminate].
    intros [= <-]. destruct (IH j eq_refl) as [Hlt Hn]. cbn. split; [lia|exact Hn].
Qed.

Lemma index_of_In x l : In x l -> exists i, index_of x l = Some i.
Proof.
  induction l as [|y r IH]; [intros []|]. intros Hin. cbn [index_of].
  destruct (Nat.eqb_spec y x) as [->|Hne]; [eexists; reflexivity|].
  destruct Hin as [->|Hin]; [congruence|].
  destruct (IH Hin) as [i ->]. eexists; reflexivity.
Qed.

Lemma succ_in_In row e f : succ_in row e = Some f -> In e row /\ In f row.
Proof.
  unfold succ_in. destruct (index_of e row) as [i|] eqn:Ei; [|discriminate].
  intros [= <-]. destruct (index_of_Some _ _ _ Ei) as [Hlt Hn]. split.
  - rewrite <- Hn. apply nth_In, Hlt.
  - apply nth_In. apply Nat.mod_upper_bound. lia.
Qed.

Lemma succ_in_defined row e : In e row -> exists f, succ_in row e = Some f.
Proof.
  intros Hin. unfold succ_in. destruct (index_of_In _ _ Hin) as [i ->]. eexists; reflexivity.
Qed.

Lemma succ_in_inj row e1 e2 f :
  NoDup row -> succ_in row e1 = Some f -> succ_in row e2 = Some f -> e1 = e2.
Proof.
  intros Hnd H1 H2. unfold succ_in in *.
  destruct (index_of e1 row) as [i1|] eqn:E1; [|discriminate].
  destruct (index_of e2 row) as [i2|] eqn:E2; [|discriminate].
  destruct (index_of_Some _ _ _ E1) as [Hl1 Hn1].
  destruct (index_of_Some _ _ _ E2) as [Hl2 Hn2].
  injection H1 as H1. injection H2 as H2.
  assert (Hlen : length row <> 0%nat) by lia.
  assert (Hm : (S i1 mod length row = S i2 mod length row)%nat).
  { apply (proj1 (NoDup_nth row 0%nat) Hnd); try (apply Nat.mod_upper_bound; exact Hlen). congruence. }
  assert (i1 = i2).
  { destruct (Nat.eq_dec (S i1) (length row)) as [Ea|Na]; destruct (Nat.eq_dec (S i2) (length row)) as [Eb|Nb].
    - lia.
    - rewrite Ea, Nat.mod_same, (Nat.mod_small (S i2)) in Hm by lia. lia.
    - rewrite Eb, Nat.mod_same, (Nat.mod_small (S i1)) in Hm by lia. lia.
    - rewrite !Nat.mod_small in Hm by lia. lia. }
  subst i2. congruence.
Qed.
