(* Proofs/LatticeFacts.v — facts about Model/Lattice.v used by C01 (and reused by C02, C05 ...).
   Part 1: rotation system (sorted incident edges), the dart successor next_dart and its injectivity. *)
From Coq Require Import List ZArith Bool Arith Lia Permutation.
From Koala Require Import Model.Lattice.
Import ListNotations.

(* ------------------------------------------------------------------ insertion sort *)
Lemma insert_desc_perm key x l : Permutation (insert_desc key x l) (x :: l).
Proof.
  induction l as [|y r IH]; cbn [insert_desc]; [reflexivity|].
  destruct (ang_lt (key y) (key x)); [reflexivity|].
  rewrite IH. apply perm_swap.
Qed.

Lemma sort_desc_perm_gen key l acc :
  Permutation (fold_left (fun a x => insert_desc key x a) l acc) (l ++ acc).
Proof.
  revert acc; induction l as [|x l IH]; intros acc; cbn [fold_left app]; [reflexivity|].
  rewrite IH, insert_desc_perm. symmetry. apply Permutation_middle.
Qed.

Lemma sort_desc_perm key l : Permutation (sort_desc key l) l.
Proof. unfold sort_desc. rewrite sort_desc_perm_gen, app_nil_r. reflexivity. Qed.

(* ------------------------------------------------------------------ incident edges *)
Lemma incident_NoDup L v : NoDup (incident L v).
Proof. unfold incident. apply NoDup_filter, seq_NoDup. Qed.

Lemma in_incident L v e :
  In e (incident L v) <-> (e < nE L)%nat /\ incident_b L v e = true.
Proof.
  unfold incident. rewrite filter_In, in_seq. split; intros [H1 H2]; split; auto; lia.
Qed.

Lemma sorted_adj_perm L v : Permutation (sorted_adj L v) (incident L v).
Proof. apply sort_desc_perm. Qed.

Lemma sorted_adj_NoDup L v : NoDup (sorted_adj L v).
Proof.
  eapply Permutation_NoDup; [symmetry; apply sorted_adj_perm | apply incident_NoDup].
Qed.

Lemma in_sorted_adj L v e :
  In e (sorted_adj L v) <-> (e < nE L)%nat /\ incident_b L v e = true.
Proof.
  rewrite <- in_incident. split; apply Permutation_in;
    [apply sorted_adj_perm | symmetry; apply sorted_adj_perm].
Qed.

Lemma adj_table_nth L v : (v < nV L)%nat -> nth v (adj_table L) [] = sorted_adj L v.
Proof.
  intros Hv. unfold adj_table.
  rewrite (nth_indep _ [] (sorted_adj L 0%nat)) by (rewrite map_length, seq_length; exact Hv).
  rewrite map_nth, seq_nth by exact Hv. reflexivity.
Qed.

(* ------------------------------------------------------------------ index_of / succ_in *)
Lemma index_of_Some x l i :
  index_of x l = Some i -> (i < length l)%nat /\ nth i l 0%nat = x.
Proof.
  revert i; induction l as [|y r IH]; intros i; cbn [index_of]; [discriminate|].
  destruct (Nat.eqb_spec y x) as [->|Hne].
  - intros [= <-]. cbn. split; [lia|reflexivity].
  - destruct (index_of x r) as [j|] eqn:Ej; cbn [option_map]; [|discriminate].
    intros [= <-]. destruct (IH j eq_refl) as [Hlt Hn]. cbn. split; [lia|exact Hn].
Qed.

Lemma index_of_In x l : In x l -> exists i, index_of x l = Some i.
Proof.
  induction l as [|y r IH]; [intros []|]. intros Hin. cbn [index_of].
  destruct (Nat.eqb_spec y x) as [->|Hne]; [eexists; reflexivity|].
  destruct Hin as [->|Hin]; [congruence|].
  destruct (IH Hin) as [i ->]. eexists; reflexivity.
Qed.

Lemma succ_in_In row e f : succ_in row e = Some f -> In e row /\ In f row.
Proof.
  unfold succ_in. destruct (index_of e row) as [i|] eqn:Ei; [|discriminate].
  intros [= <-]. destruct (index_of_Some _ _ _ Ei) as [Hlt Hn]. split.
  - rewrite <- Hn. apply nth_In, Hlt.
  - apply nth_In. apply Nat.mod_upper_bound. lia.
Qed.

Lemma succ_in_defined row e : In e row -> exists f, succ_in row e = Some f.
Proof.
  intros Hin. unfold succ_in. destruct (index_of_In _ _ Hin) as [i ->]. eexists; reflexivity.
Qed.

Lemma succ_in_inj row e1 e2 f :
  NoDup row -> succ_in row e1 = Some f -> succ_in row e2 = Some f -> e1 = e2.
Proof.
  intros Hnd H1 H2. unfold succ_in in *.
  destruct (index_of e1 row) as [i1|] eqn:E1; [|discriminate].
  destruct (index_of e2 row) as [i2|] eqn:E2; [|discriminate].
  destruct (index_of_Some _ _ _ E1) as [Hl1 Hn1].
  destruct (index_of_Some _ _ _ E2) as [Hl2 Hn2].
  injection H1 as H1. injection H2 as H2.
  assert (Hlen : length row <> 0%nat) by lia.
  assert (Hm : (S i1 mod length row = S i2 mod length row)%nat).
  { apply (proj1 (NoDup_nth row 0%nat) Hnd); try (apply Nat.mod_upper_bound; exact Hlen). congruence. }
  assert (i1 = i2).
  { destruct (Nat.eq_dec (S i1) (length row)) as [Ea|Na]; destruct (Nat.eq_dec (S i2) (length row)) as [Eb|Nb].
    - lia.
    - rewrite Ea, Nat.mod_same, (Nat.mod_small (S i2)) in Hm by lia. lia.
    - rewrite Eb, Nat.mod_same, (Nat.mod_small (S i1)) in Hm by lia. lia.
    - rewrite !Nat.mod_small in Hm by lia. lia. }
  subst i2. congruence.
Qed.

(* ------------------------------------------------------------------ edges and darts *)
Definition good (L : lattice) : Prop := wf_lattice L = true /\ no_self_loops L = true.
Definition valid_dart (L : lattice) (d : dart) : Prop := (fst d < nE L)%nat.

Lemma edge_at_In L e : (e < nE L)%nat -> In (edge_at L e) (edges L).
Proof. intros H. unfold edge_at. apply nth_In. exact H. Qed.

Lemma good_edge L e j k :
  good L -> (e < nE L)%nat -> edge_at L e = (j, k) ->
  (j < nV L)%nat /\ (k < nV L)%nat /\ j <> k.
Proof.
  intros [Hwf Hnl] He Hjk.
  pose proof (edge_at_In L e He) as Hin. rewrite Hjk in Hin.
  unfold wf_lattice in Hwf. apply andb_prop in Hwf as [_ Hall].
  rewrite forallb_forall in Hall. specialize (Hall _ Hin).
  unfold no_self_loops in Hnl. rewrite forallb_forall in Hnl. specialize (Hnl _ Hin).
  unfold wf_edge in Hall. cbn [fst snd] in *.
  apply andb_prop in Hall as [H1 H2].
  apply Nat.ltb_lt in H1. apply Nat.ltb_lt in H2.
  apply negb_true_iff, Nat.eqb_neq in Hnl. auto.
Qed.

Lemma dhead_lt L d : good L -> valid_dart L d -> (dhead L d < nV L)%nat.
Proof.
  intros HG Hd. unfold dhead. destruct (edge_at L (fst d)) as [j k] eqn:E.
  destruct (good_edge L _ _ _ HG Hd E) as (Hj & Hk & _). destruct (snd d); assumption.
Qed.

Lemma dtail_lt L d : good L -> valid_dart L d -> (dtail L d < nV L)%nat.
Proof.
  intros HG Hd. unfold dtail. destruct (edge_at L (fst d)) as [j k] eqn:E.
  destruct (good_edge L _ _ _ HG Hd E) as (Hj & Hk & _). destruct (snd d); assumption.
Qed.

Lemma other_end_head L d :
  good L -> valid_dart L d -> other_end L (fst d) (dtail L d) = dhead L d.
Proof.
  intros HG Hd. unfold other_end, dtail, dhead.
  destruct (edge_at L (fst d)) as [j k] eqn:E.
  destruct (good_edge L _ _ _ HG Hd E) as (_ & _ & Hne).
  destruct (snd d).
  - destruct (Nat.eqb_spec k j); [congruence|reflexivity].
  - rewrite Nat.eqb_refl. reflexivity.
Qed.

Lemma incident_head L d : valid_dart L d -> incident_b L (dhead L d) (fst d) = true.
Proof.
  intros _. unfold incident_b, dhead. destruct (edge_at L (fst d)) as [j k].
  destruct (snd d); rewrite Nat.eqb_refl; [apply orb_true_r|reflexivity].
Qed.

Lemma incident_tail L d : valid_dart L d -> incident_b L (dtail L d) (fst d) = true.
Proof.
  intros _. unfold incident_b, dtail. destruct (edge_at L (fst d)) as [j k].
  destruct (snd d); rewrite Nat.eqb_refl; [reflexivity|apply orb_true_r].
Qed.

(* the dart of edge f that leaves vertex v *)
Definition out_dart (L : lattice) (v f : nat) : dart := (f, (fst (edge_at L f) =? v)%nat).

Lemma out_dart_tail L v f : incident_b L v f = true -> dtail L (out_dart L v f) = v.
Proof.
  unfold incident_b, out_dart, dtail. cbn [fst snd].
  destruct (edge_at L f) as [j k]. cbn [fst].
  destruct (Nat.eqb_spec j v) as [->|Hne]; [reflexivity|].
  cbn [orb]. intros H. apply Nat.eqb_eq in H. exact H.
Qed.

(* a dart is determined by its edge and its head (no self-loops) *)
Lemma dart_by_head L e b1 b2 :
  good L -> (e < nE L)%nat -> dhead L (e, b1) = dhead L (e, b2) -> b1 = b2.
Proof.
  intros HG He. unfold dhead. cbn [fst snd].
  destruct (edge_at L e) as [j k] eqn:E.
  destruct (good_edge L _ _ _ HG He E) as (_ & _ & Hne).
  destruct b1, b2; auto; intros; congruence.
Qed.

(* ------------------------------------------------------------------ next_dart *)
Definition nd (L : lattice) (d : dart) : option dart := next_dart L (adj_table L) d.

Lemma step_walk_spec L d :
  good L -> valid_dart L d ->
  exists f, succ_in (sorted_adj L (dhead L d)) (fst d) = Some f /\
            step_walk L (adj_table L) (fst d) (dtail L d) = Some (dhead L d, f, snd (out_dart L (dhead L d) f)).
Proof.
  intros HG Hd. unfold step_walk.
  rewrite (other_end_head L d HG Hd).
  rewrite (adj_table_nth L _ (dhead_lt L d HG Hd)).
  assert (Hin : In (fst d) (sorted_adj L (dhead L d))).
  { apply in_sorted_adj. split; [exact Hd|apply incident_head, Hd]. }
  destruct (succ_in_defined _ _ Hin) as [f Hf]. exists f. rewrite Hf. split; reflexivity.
Qed.

Lemma nd_spec L d :
  good L -> valid_dart L d ->
  exists f, succ_in (sorted_adj L (dhead L d)) (fst d) = Some f /\
            nd L d = Some (out_dart L (dhead L d) f).
Proof.
  intros HG Hd. destruct (step_walk_spec L d HG Hd) as (f & Hs & Hw).
  exists f. split; [exact Hs|]. unfold nd, next_dart. rewrite Hw. reflexivity.
Qed.

Lemma nd_valid L d d' : good L -> valid_dart L d -> nd L d = Some d' ->
  valid_dart L d' /\ dtail L d' = dhead L d.
Proof.
  intros HG Hd H. destruct (nd_spec L d HG Hd) as (f & Hs & Hn).
  rewrite Hn in H. injection H as <-.
  apply succ_in_In in Hs as [_ Hf]. apply in_sorted_adj in Hf as [Hlt Hinc].
  split; [exact Hlt|]. apply out_dart_tail, Hinc.
Qed.

Lemma nd_total L d : good L -> valid_dart L d -> exists d', nd L d = Some d'.
Proof. intros HG Hd. destruct (nd_spec L d HG Hd) as (f & _ & H). eauto. Qed.

Theorem nd_injective L d1 d2 d' :
  good L -> valid_dart L d1 -> valid_dart L d2 ->
  nd L d1 = Some d' -> nd L d2 = Some d' -> d1 = d2.
Proof.
  intros HG H1 H2 E1 E2.
  destruct (nd_valid L d1 d' HG H1 E1) as [_ T1].
  destruct (nd_valid L d2 d' HG H2 E2) as [_ T2].
  destruct (nd_spec L d1 HG H1) as (f1 & S1 & N1).
  destruct (nd_spec L d2 HG H2) as (f2 & S2 & N2).
  rewrite E1 in N1. rewrite E2 in N2.
  assert (Hh : dhead L d1 = dhead L d2) by congruence.
  assert (Hf : f1 = f2).
  { injection N1 as N1. injection N2 as N2. unfold out_dart in *. congruence. }
  subst f2. rewrite <- Hh in S2.
  pose proof (succ_in_inj _ _ _ _ (sorted_adj_NoDup L _) S1 S2) as He.
  destruct d1 as [e1 b1], d2 as [e2 b2]. cbn [fst] in He. subst e2.
  f_equal. eapply dart_by_head; eauto.
Qed.

(* ------------------------------------------------------------------ all darts, pigeonhole *)
Lemma in_all_darts L d : In d (all_darts L) <-> valid_dart L d.
Proof.
  unfold all_darts, valid_dart. rewrite in_flat_map. split.
  - intros (e & He & Hd). apply in_seq in He. cbn in Hd.
    destruct Hd as [<-|[<-|[]]]; cbn; lia.
  - intros Hd. exists (fst d). split; [apply in_seq; lia|].
    destruct d as [e []]; cbn; auto.
Qed.

Lemma all_darts_length L : length (all_darts L) = (2 * nE L)%nat.
Proof.
  unfold all_darts. generalize (seq 0 (nE L)) (seq_length (nE L) 0).
  intros l <-. induction l as [|x l IH]; cbn; [reflexivity|]. rewrite IH. lia.
Qed.

Lemma darts_bound L (l : list dart) :
  NoDup l -> (forall d, In d l -> valid_dart L d) -> (length l <= 2 * nE L)%nat.
Proof.
  intros Hnd Hv. rewrite <- all_darts_length. apply NoDup_incl_length; [exact Hnd|].
  intros d Hd. apply in_all_darts, Hv, Hd.
Qed.

(* ------------------------------------------------------------------ steps and chains *)
Notation wstep := (nat * nat * bool)%type (only parsing).
Definition sdart (s : wstep) : dart := (fst (fst s), snd s).
Definition step_ok (L : lattice) (s : wstep) : Prop :=
  valid_dart L (sdart s) /\ snd (fst s) = dtail L (sdart s).

Lemma walk_darts_sdart w : walk_darts w = map sdart w.
Proof. reflexivity. Qed.

(* reversed chain: acc = a_k :: ... :: a_0 with nd a_{i} = a_{i+1} *)
Fixpoint rchain (L : lattice) (acc : list wstep) : Prop :=
  match acc with
  | a :: ((b :: _) as r) => nd L (sdart b) = Some (sdart a) /\ rchain L r
  | _ => True
  end.

Lemma rchain_pred L acc x :
  rchain L acc -> In x (removelast acc) ->
  exists y, In y (tl acc) /\ nd L (sdart y) = Some (sdart x).
Proof.
  induction acc as [|a acc IH]; [intros _ []|].
  destruct acc as [|b r]; [intros _ []|].
  intros [Hab Hr] Hin.
  change (removelast (a :: b :: r)) with (a :: removelast (b :: r)) in Hin.
  destruct Hin as [<-|Hin].
  - exists b. split; [left; reflexivity|exact Hab].
  - destruct (IH Hr Hin) as (y & Hy & Hn). exists y. split; [right; exact Hy|exact Hn].
Qed.

Lemma step_eqb_sdart a b : step_eqb a b = true <-> sdart a = sdart b.
Proof.
  unfold step_eqb, sdart. destruct a as [[e v] d], b as [[e' v'] d']. cbn [fst snd].
  rewrite andb_true_iff, Nat.eqb_eq, eqb_true_iff. split; [intros []; congruence|intros [=]; auto].
Qed.

(* what a closed trace looks like, stated on the reversed accumulator *)
Record racc_ok (L : lattice) (se : nat) (sd : bool) (acc : list wstep) : Prop := {
  ro_ne : acc <> [];
  ro_last : last acc (0%nat, 0%nat, true) = (se, dtail L (se, sd), sd);
  ro_ok : forall s, In s acc -> step_ok L s;
  ro_chain : rchain L acc;
  ro_nodup : NoDup (map sdart acc)
}.

Lemma app_removelast_last' (acc : list wstep) d : acc <> [] -> acc = removelast acc ++ [last acc d].
Proof. apply app_removelast_last. Qed.

Lemma trace_loop_closes L se sd :
  good L ->
  forall fuel acc ce cv cd,
    racc_ok L se sd acc -> hd (0%nat, 0%nat, true) acc = (ce, cv, cd) ->
    (2 * nE L + 2 <= fuel + length acc)%nat ->
    exists acc', trace_loop fuel L (adj_table L) se sd ce cv acc = Closed (rev acc') /\
                 racc_ok L se sd acc' /\
                 nd L (sdart (hd (0%nat, 0%nat, true) acc')) = Some (se, sd).
Proof.
  intros HG. induction fuel as [|fuel IH]; intros acc ce cv cd HR Hhd Hfuel.
  - exfalso.
    assert (length (map sdart acc) <= 2 * nE L)%nat.
    { apply darts_bound; [apply (ro_nodup _ _ _ _ HR)|].
      intros d Hd. apply in_map_iff in Hd as (s & <- & Hs). apply (ro_ok _ _ _ _ HR), Hs. }
    rewrite map_length in *. lia.
  - destruct acc as [|a0 r]; [exfalso; apply (ro_ne _ _ _ _ HR); reflexivity|].
    cbn [hd] in Hhd. subst a0.
    assert (Hok : step_ok L (ce, cv, cd)) by (apply (ro_ok _ _ _ _ HR); left; reflexivity).
    unfold step_ok, sdart in Hok. cbn [fst snd] in Hok. destruct Hok as [Hval Hcv].
    destruct (step_walk_spec L (ce, cd) HG Hval) as (f & Hsucc & Hstep).
    cbn [fst] in Hstep. rewrite <- Hcv in Hstep.
    cbn [trace_loop]. rewrite Hstep.
    set (v' := dhead L (ce, cd)) in *.
    set (d' := snd (out_dart L v' f)).
    assert (Hnd : nd L (ce, cd) = Some (f, d')).
    { unfold nd, next_dart. cbn [fst]. rewrite <- Hcv, Hstep. reflexivity. }
    destruct (nd_valid L _ _ HG Hval Hnd) as [Hval' Htail'].
    destruct ((f =? se)%nat && eqb d' sd) eqn:Hclose.
    + apply andb_prop in Hclose as [Hf Hd]. apply Nat.eqb_eq in Hf. apply eqb_prop in Hd.
      exists ((ce, cv, cd) :: r). split; [reflexivity|]. split; [exact HR|].
      unfold sdart. cbn [hd fst snd]. rewrite Hnd. congruence.
    + (* the new dart is fresh *)
      assert (Hfresh : ~ In (f, d') (map sdart ((ce, cv, cd) :: r))).
      { intros Hin. apply in_map_iff in Hin as (x & Hx & Hin).
        rewrite (app_removelast_last' ((ce, cv, cd) :: r) (0%nat, 0%nat, true)) in Hin by discriminate.
        apply in_app_or in Hin as [Hin|[<-|[]]].
        - destruct (rchain_pred L _ x (ro_chain _ _ _ _ HR) Hin) as (y & Hy & Hny).
          cbn [tl] in Hy. rewrite Hx in Hny.
          assert (Hyok : step_ok L y) by (apply (ro_ok _ _ _ _ HR); right; exact Hy).
          pose proof (nd_injective L (sdart y) (ce, cd) (f, d') HG (proj1 Hyok) Hval Hny Hnd) as Heq.
          pose proof (ro_nodup _ _ _ _ HR) as Hnodup. cbn [map] in Hnodup.
          apply NoDup_cons_iff in Hnodup as [Hnotin _]. apply Hnotin.
          unfold sdart; cbn [fst snd]. rewrite <- Heq. apply in_map, Hy.
        - rewrite (ro_last _ _ _ _ HR) in Hx.
          unfold sdart in Hx; cbn [fst snd] in Hx.
          injection Hx as Hx1 Hx2. rewrite <- Hx1, <- Hx2, Nat.eqb_refl, eqb_reflx in Hclose. discriminate. }
      destruct (existsb (step_eqb (f, v', d')) (removelast ((ce, cv, cd) :: r))) eqn:Hex.
      { exfalso. apply existsb_exists in Hex as (x & Hin & Hx). apply step_eqb_sdart in Hx.
        change (sdart (f, v', d')) with (f, d') in Hx.
        apply Hfresh. rewrite Hx. apply in_map.
        clear -Hin. revert Hin. generalize ((ce, cv, cd) :: r). intros l.
        induction l as [|a [|b l'] IHl]; cbn [removelast]; intros H; try contradiction.
        destruct H as [<-|H]; [left; reflexivity|right; apply IHl, H]. }
      apply (IH ((f, v', d') :: (ce, cv, cd) :: r) f v' d'); [|reflexivity|cbn [length] in *; lia].
      constructor.
      * discriminate.
      * pose proof (ro_last _ _ _ _ HR) as Hl. cbn [last] in *. exact Hl.
      * intros s [<-|Hs]; [|apply (ro_ok _ _ _ _ HR), Hs].
        split; unfold sdart; cbn [fst snd]; [exact Hval'|]. fold d'. rewrite Htail'. reflexivity.
      * cbn [rchain]. split; [unfold sdart; cbn [fst snd]; exact Hnd|apply (ro_chain _ _ _ _ HR)].
      * cbn [map]. constructor; [exact Hfresh|apply (ro_nodup _ _ _ _ HR)].
Qed.

(* ------------------------------------------------------------------ forward walks: closed orbits of nd *)
Notation dflt := (0%nat, 0%nat, true).

Fixpoint chain (L : lattice) (w : list wstep) : Prop :=
  match w with
  | a :: ((b :: _) as r) => nd L (sdart a) = Some (sdart b) /\ chain L r
  | _ => True
  end.

Record orbit_walk (L : lattice) (w : list wstep) : Prop := {
  ow_ne : w <> [];
  ow_ok : forall s, In s w -> step_ok L s;
  ow_chain : chain L w;
  ow_close : nd L (sdart (last w dflt)) = Some (sdart (hd dflt w));
  ow_nodup : NoDup (map sdart w)
}.

Lemma chain_snoc L l a :
  chain L l -> (l <> [] -> nd L (sdart (last l dflt)) = Some (sdart a)) -> chain L (l ++ [a]).
Proof.
  induction l as [|x l IH]; [intros; exact I|].
  destruct l as [|y l].
  - intros _ H. cbn. split; [apply H; discriminate|exact I].
  - intros [Hxy Hc] H. change ((x :: y :: l) ++ [a]) with (x :: (y :: l) ++ [a]).
    change ((y :: l) ++ [a]) with (y :: l ++ [a]). split; [exact Hxy|].
    apply IH; [exact Hc|]. intros _. apply H. discriminate.
Qed.

Lemma last_rev (l : list wstep) : last (rev l) dflt = hd dflt l.
Proof. destruct l as [|a l]; [reflexivity|]. cbn [rev hd]. apply last_last. Qed.

Lemma hd_rev (l : list wstep) : hd dflt (rev l) = last l dflt.
Proof.
  induction l as [|a l IH]; [reflexivity|]. cbn [rev].
  destruct l as [|b l]; [reflexivity|].
  change (last (a :: b :: l) dflt) with (last (b :: l) dflt). rewrite <- IH.
  cbn [rev]. destruct (rev l); reflexivity.
Qed.

Lemma rchain_rev L acc : rchain L acc -> chain L (rev acc).
Proof.
  induction acc as [|a acc IH]; [intros; exact I|].
  destruct acc as [|b r].
  - intros _. exact I.
  - intros [Hba Hr]. cbn [rev] in *. apply chain_snoc; [apply IH, Hr|].
    intros _. change (rev r ++ [b]) with (rev (b :: r)). rewrite last_rev. exact Hba.
Qed.

Lemma racc_ok_orbit L se sd acc :
  racc_ok L se sd acc -> nd L (sdart (hd dflt acc)) = Some (se, sd) ->
  orbit_walk L (rev acc) /\ hd dflt (rev acc) = (se, dtail L (se, sd), sd).
Proof.
  intros HR Hc. split; [constructor|].
  - intros H. apply (ro_ne _ _ _ _ HR). apply (f_equal (@rev _)) in H. rewrite rev_involutive in H. exact H.
  - intros s Hs. apply (ro_ok _ _ _ _ HR). apply in_rev, Hs.
  - apply rchain_rev, (ro_chain _ _ _ _ HR).
  - rewrite last_rev, hd_rev, (ro_last _ _ _ _ HR). exact Hc.
  - rewrite map_rev. apply NoDup_rev, (ro_nodup _ _ _ _ HR).
  - rewrite hd_rev. apply (ro_last _ _ _ _ HR).
Qed.

(* C01: the boundary walk started on any directed edge of a lattice without self-loops closes
   (never Stuck / OutOfFuel / BadIndex) and is a duplicate-free closed orbit of next_dart *)
Theorem trace_closes L se sd :
  good L -> valid_dart L (se, sd) ->
  exists w, trace L (adj_table L) se sd = Closed w /\ orbit_walk L w /\
            hd dflt w = (se, dtail L (se, sd), sd).
Proof.
  intros HG Hv. unfold trace.
  assert (Hsv : (let '(j, k) := edge_at L se in if sd then j else k) = dtail L (se, sd)).
  { unfold dtail. cbn [fst snd]. reflexivity. }
  rewrite Hsv.
  destruct (trace_loop_closes L se sd HG (S (2 * nE L)) [(se, dtail L (se, sd), sd)] se (dtail L (se, sd)) sd)
    as (acc' & Ht & HR & Hc).
  - constructor.
    + discriminate.
    + reflexivity.
    + intros s [<-|[]]. split; [exact Hv|reflexivity].
    + exact I.
    + cbn. constructor; [intros []|constructor].
  - reflexivity.
  - cbn [length]. lia.
  - exists (rev acc'). split; [exact Ht|]. apply racc_ok_orbit; assumption.
Qed.

(* ------------------------------------------------------------------ reachability inside an orbit *)
Inductive reach (L : lattice) : dart -> dart -> Prop :=
| reach_refl x : reach L x x
| reach_step x y z : nd L x = Some y -> reach L y z -> reach L x z.

Lemma reach_trans L a b c : reach L a b -> reach L b c -> reach L a c.
Proof. intros H1 H2. induction H1; [exact H2|]. eapply reach_step; eauto. Qed.

Lemma chain_app_r L l1 l2 : chain L (l1 ++ l2) -> chain L l2.
Proof.
  induction l1 as [|a l1 IH]; [auto|].
  destruct l1 as [|b l1].
  - cbn [app]. destruct l2; [intros; exact I|]. intros [_ H]. exact H.
  - intros [_ H]. apply IH. exact H.
Qed.

Lemma chain_reach_last L s l : chain L (s :: l) -> reach L (sdart s) (sdart (last (s :: l) dflt)).
Proof.
  revert s; induction l as [|b l IH]; intros s H; [apply reach_refl|].
  destruct H as [Hsb Hc]. eapply reach_step; [exact Hsb|].
  change (last (s :: b :: l) dflt) with (last (b :: l) dflt). apply IH, Hc.
Qed.

Lemma last_app_cons (l1 l2 : list wstep) s : last (l1 ++ s :: l2) dflt = last (s :: l2) dflt.
Proof.
  induction l1 as [|a l1 IH]; [reflexivity|].
  change ((a :: l1) ++ s :: l2) with (a :: (l1 ++ s :: l2)).
  destruct (l1 ++ s :: l2) eqn:E; [destruct l1; discriminate|]. rewrite <- IH. reflexivity.
Qed.

Lemma orbit_reach_hd L w s : orbit_walk L w -> In s w -> reach L (sdart s) (sdart (hd dflt w)).
Proof.
  intros HO Hs. apply in_split in Hs as (l1 & l2 & ->).
  pose proof (chain_app_r L l1 (s :: l2) (ow_chain _ _ HO)) as Hc.
  pose proof (chain_reach_last L s l2 Hc) as Hr.
  rewrite <- (last_app_cons l1 l2 s) in Hr.
  eapply reach_trans; [exact Hr|].
  eapply reach_step; [apply (ow_close _ _ HO)|apply reach_refl].
Qed.

Lemma orbit_closed L w x y :
  orbit_walk L w -> In x (map sdart w) -> nd L x = Some y -> In y (map sdart w).
Proof.
  intros HO Hx Hn. apply in_map_iff in Hx as (s & <- & Hs).
  apply in_split in Hs as (l1 & l2 & E).
  destruct l2 as [|b l2].
  - pose proof (ow_close _ _ HO) as Hc.
    assert (Hl : last w dflt = s) by (rewrite E, last_app_cons; reflexivity).
    rewrite Hl, Hn in Hc. injection Hc as ->. apply in_map.
    destruct w as [|a w]; [destruct l1; discriminate|left; reflexivity].
  - pose proof (ow_chain _ _ HO) as Hc. rewrite E in Hc. apply chain_app_r in Hc.
    destruct Hc as [Hsb _]. rewrite Hn in Hsb. injection Hsb as ->.
    apply in_map. rewrite E. apply in_or_app. right. right. left. reflexivity.
Qed.

Lemma closed_reach L (S : dart -> Prop) x y :
  (forall a b, S a -> nd L a = Some b -> S b) -> reach L x y -> S x -> S y.
Proof. intros Hcl Hr. induction Hr; auto. intros. apply IHHr. eapply Hcl; eauto. Qed.

(* ------------------------------------------------------------------ the sweep over all darts *)
Lemma dart_eqb_eq a b : dart_eqb a b = true <-> a = b.
Proof.
  unfold dart_eqb. destruct a as [e d], b as [e' d']. cbn [fst snd].
  rewrite andb_true_iff, Nat.eqb_eq, eqb_true_iff. split; [intros []; congruence|intros [=]; auto].
Qed.

Lemma visited_In vis d : visited vis d = true <-> In d vis.
Proof.
  unfold visited. rewrite existsb_exists. split.
  - intros (x & Hx & He). apply dart_eqb_eq in He. congruence.
  - intros H. exists d. split; [exact H|apply dart_eqb_eq; reflexivity].
Qed.

Lemma NoDup_app_intro {A} (l1 l2 : list A) :
  NoDup l1 -> NoDup l2 -> (forall x, In x l1 -> In x l2 -> False) -> NoDup (l1 ++ l2).
Proof.
  induction l1 as [|a l1 IH]; intros H1 H2 H; [exact H2|].
  apply NoDup_cons_iff in H1 as [Ha H1]. cbn. constructor.
  - intros Hin. apply in_app_or in Hin as [Hin|Hin]; [auto|]. apply (H a); [left; reflexivity|exact Hin].
  - apply IH; auto. intros x Hx. apply H. right. exact Hx.
Qed.

Definition face_darts (fs : list face) : list dart := flat_map walk_darts (map f_walk fs).

Record sweep_inv (L : lattice) (done : list dart) (vis : list dart) (acc : list face) : Prop := {
  si_vis : vis = face_darts acc;
  si_orb : forall f, In f acc -> orbit_walk L (f_walk f);
  si_mk : forall f, In f acc -> f = mk_face L (f_walk f);
  si_nodup : NoDup vis;
  si_done : forall d, In d done -> In d vis
}.

Lemma face_darts_closed L acc x y :
  (forall f, In f acc -> orbit_walk L (f_walk f)) ->
  In x (face_darts acc) -> nd L x = Some y -> In y (face_darts acc).
Proof.
  intros HO Hx Hn. unfold face_darts in *. apply in_flat_map in Hx as (w & Hw & Hx).
  apply in_flat_map. exists w. split; [exact Hw|].
  apply in_map_iff in Hw as (f & <- & Hf).
  rewrite walk_darts_sdart in *. eapply orbit_closed; eauto.
Qed.

Lemma faces_one_step L d done vis acc :
  good L -> valid_dart L d -> sweep_inv L done vis acc ->
  exists vis' acc', faces_one L (adj_table L) d (Some (vis, acc)) = Some (vis', acc') /\
                    sweep_inv L (d :: done) vis' acc'.
Proof.
  intros HG Hv HI. cbn [faces_one].
  destruct (visited vis d) eqn:Hvis.
  - exists vis, acc. split; [reflexivity|]. destruct HI as [H1 H2 H2' H3 H4]. constructor; auto.
    intros d' [<-|Hd]; [apply visited_In, Hvis|apply H4, Hd].
  - destruct d as [se sd].
    destruct (trace_closes L se sd HG Hv) as (w & Ht & HO & Hhd).
    cbn [fst snd]. rewrite Ht.
    exists (walk_darts w ++ vis), (mk_face L w :: acc). split; [reflexivity|].
    destruct HI as [H1 H2 H2' H3 H4].
    assert (Hdw : In (se, sd) (walk_darts w)).
    { rewrite walk_darts_sdart. destruct w as [|a w]; [exfalso; apply (ow_ne _ _ HO); reflexivity|].
      cbn [hd] in Hhd. subst a. left. reflexivity. }
    constructor.
    + unfold face_darts. cbn [map flat_map f_walk mk_face]. rewrite H1. reflexivity.
    + intros f [<-|Hf]; [exact HO|apply H2, Hf].
    + intros f [<-|Hf]; [reflexivity|apply H2', Hf].
    + apply NoDup_app_intro; [rewrite walk_darts_sdart; apply (ow_nodup _ _ HO)|exact H3|].
      intros x Hxw Hxv.
      assert (Hsv : In (se, sd) vis).
      { rewrite walk_darts_sdart in Hxw. apply in_map_iff in Hxw as (s & <- & Hs).
        pose proof (orbit_reach_hd L w s HO Hs) as Hr. rewrite Hhd in Hr.
        change (sdart (se, dtail L (se, sd), sd)) with (se, sd) in Hr.
        refine (closed_reach L (fun a => In a vis) _ _ _ Hr Hxv).
        intros a b Ha Hab. rewrite H1 in *. eapply face_darts_closed; eauto. }
      apply visited_In in Hsv. congruence.
    + intros d' [<-|Hd]; apply in_or_app; [left; exact Hdw|right; apply H4, Hd].
Qed.

Lemma faces_fold L ds : good L -> (forall d, In d ds -> valid_dart L d) ->
  forall done vis acc, sweep_inv L done vis acc ->
  exists vis' acc',
    fold_left (fun st d => faces_one L (adj_table L) d st) ds (Some (vis, acc)) = Some (vis', acc') /\
    sweep_inv L (rev ds ++ done) vis' acc'.
Proof.
  intros HG. induction ds as [|d ds IH]; intros Hv done vis acc HI.
  - exists vis, acc. split; [reflexivity|exact HI].
  - destruct (faces_one_step L d done vis acc HG (Hv d (or_introl eq_refl)) HI) as (vis1 & acc1 & E1 & HI1).
    destruct (IH (fun x Hx => Hv x (or_intror Hx)) _ _ _ HI1) as (vis2 & acc2 & E2 & HI2).
    exists vis2, acc2. cbn [fold_left]. rewrite E1. split; [exact E2|].
    cbn [rev]. rewrite <- app_assoc. exact HI2.
Qed.

Lemma face_darts_rev fs : Permutation (face_darts (rev fs)) (face_darts fs).
Proof.
  unfold face_darts. apply Permutation_flat_map. rewrite map_rev. symmetry. apply Permutation_rev.
Qed.

(* C01: the sweep lists every orbit of next_dart exactly once: every directed edge lies on
   exactly one listed face walk, each walk is a duplicate-free closed orbit *)
Theorem all_faces_spec L :
  good L ->
  exists fs, all_faces L = Some fs /\
             (forall f, In f fs -> orbit_walk L (f_walk f) /\ f = mk_face L (f_walk f)) /\
             NoDup (face_darts fs) /\
             (forall d, valid_dart L d <-> In d (face_darts fs)).
Proof.
  intros HG. unfold all_faces.
  destruct (faces_fold L (all_darts L) HG (fun d Hd => proj1 (in_all_darts L d) Hd) [] [] [])
    as (vis & acc & E & HI).
  { constructor; [reflexivity|intros f []|intros f []|constructor|intros d []]. }
  rewrite E. exists (rev acc). split; [reflexivity|].
  destruct HI as [H1 H2 H2' H3 H4]. split; [|split].
  - intros f Hf. apply in_rev in Hf. split; [apply H2, Hf|apply H2', Hf].
  - eapply Permutation_NoDup; [symmetry; apply face_darts_rev|]. rewrite <- H1. exact H3.
  - intros d. split.
    + intros Hd. eapply Permutation_in; [symmetry; apply face_darts_rev|]. rewrite <- H1.
      apply H4. apply in_or_app. left. apply -> in_rev. apply in_all_darts, Hd.
    + intros Hd. apply (Permutation_in _ (face_darts_rev acc)) in Hd.
      unfold face_darts in Hd. apply in_flat_map in Hd as (w & Hw & Hd).
      apply in_map_iff in Hw as (f & <- & Hf). rewrite walk_darts_sdart in Hd.
      apply in_map_iff in Hd as (s & <- & Hs). apply (ow_ok _ _ (H2 f Hf) s Hs).
Qed.

(* ------------------------------------------------------------------ plaquettes = valid faces *)
Definition plaq_of_faces (L : lattice) (fs : list face) : list plaquette :=
  map (mk_plaquette L) (filter (walk_valid L) (map f_walk fs)).

Definition srel (L : lattice) (stf : option (list dart * list face))
           (stp : option (list dart * list plaquette)) : Prop :=
  match stf with
  | Some (v1, fa) => match stp with
                     | Some (v2, pa) => v1 = v2 /\ pa = plaq_of_faces L fa
                     | None => False
                     end
  | None => match stp with Some _ => False | None => True end
  end.

Lemma sweep_related L ds :
  forall stf stp, srel L stf stp ->
    srel L (fold_left (fun st d => faces_one L (adj_table L) d st) ds stf)
           (fold_left (fun st d => sweep_one L (adj_table L) d st) ds stp).
Proof.
  induction ds as [|d ds IH]; intros stf stp H; [exact H|].
  cbn [fold_left]. apply IH.
  destruct stf as [[v1 fa]|]; destruct stp as [[v2 pa]|]; cbn [srel] in H; try contradiction; [|exact I].
  destruct H as [<- ->]. cbn [faces_one sweep_one].
  destruct (visited v1 d); [split; reflexivity|].
  destruct (trace L (adj_table L) (fst d) (snd d)) as [w| | |]; try exact I.
  unfold srel, plaq_of_faces. cbn [map f_walk mk_face filter].
  destruct (walk_valid L w); split; reflexivity.
Qed.

Lemma filter_rev {A} (p : A -> bool) l : filter p (rev l) = rev (filter p l).
Proof.
  induction l as [|a l IH]; [reflexivity|]. cbn [rev filter].
  rewrite filter_app, IH. cbn [filter]. destruct (p a); [reflexivity|apply app_nil_r].
Qed.

(* C01: the plaquette list is exactly the list of face walks that pass the three coded filters *)
Theorem plaquettes_are_valid_faces L :
  find_all_plaquettes L = option_map (plaq_of_faces L) (all_faces L).
Proof.
  unfold find_all_plaquettes, all_faces.
  pose proof (sweep_related L (all_darts L) (Some ([], [])) (Some ([], [])) (conj eq_refl eq_refl)) as H.
  destruct (fold_left (fun st d => faces_one L (adj_table L) d st) (all_darts L) (Some ([], []))) as [[v1 fa]|];
    destruct (fold_left (fun st d => sweep_one L (adj_table L) d st) (all_darts L) (Some ([], []))) as [[v2 pa]|];
    cbn [srel] in H; try contradiction; [|reflexivity].
  destruct H as [_ ->]. cbn [option_map]. f_equal.
  unfold plaq_of_faces. rewrite map_rev, filter_rev, map_rev. reflexivity.
Qed.

(* ------------------------------------------------------------------ every face walk is a consistent closed walk *)
(* "taking its i-th edge in its i-th direction leads from its i-th vertex to its (i+1)-th",
   the successor of the last vertex being [vend] *)
Fixpoint walk_ok (L : lattice) (w : list wstep) (vend : nat) : Prop :=
  match w with
  | [] => True
  | s :: r => snd (fst s) = dtail L (sdart s) /\
              dhead L (sdart s) = match r with [] => vend | s' :: _ => snd (fst s') end /\
              walk_ok L r vend
  end.

Lemma chain_walk_ok L w vend :
  good L -> (forall s, In s w -> step_ok L s) -> chain L w ->
  (w <> [] -> dhead L (sdart (last w dflt)) = vend) -> walk_ok L w vend.
Proof.
  intros HG. induction w as [|a w IH]; intros Hok Hc Hend; [exact I|].
  cbn [walk_ok]. split; [apply (Hok a), or_introl, eq_refl|].
  destruct w as [|b w].
  - split; [apply Hend; discriminate|exact I].
  - destruct Hc as [Hab Hc]. split.
    + destruct (nd_valid L _ _ HG (proj1 (Hok a (or_introl eq_refl))) Hab) as [_ Ht].
      rewrite <- Ht. symmetry. apply (Hok b). right. left. reflexivity.
    + apply IH; [intros s Hs; apply Hok; right; exact Hs|exact Hc|].
      intros _. apply Hend. discriminate.
Qed.

Theorem orbit_walk_consistent L w :
  good L -> orbit_walk L w -> walk_ok L w (snd (fst (hd dflt w))).
Proof.
  intros HG HO. apply chain_walk_ok; [exact HG|apply (ow_ok _ _ HO)|apply (ow_chain _ _ HO)|].
  intros Hne.
  assert (Hl : In (last w dflt) w).
  { destruct w as [|a w]; [contradiction|]. rewrite (app_removelast_last dflt Hne) at 2.
    apply in_or_app. right. left. reflexivity. }
  destruct (nd_valid L _ _ HG (proj1 (ow_ok _ _ HO _ Hl)) (ow_close _ _ HO)) as [_ Ht].
  rewrite <- Ht. symmetry. apply (ow_ok _ _ HO).
  destruct w as [|a w]; [contradiction|left; reflexivity].
Qed.

(* ------------------------------------------------------------------ directed edge vectors *)
Lemma vadd_assoc a b c : vadd (vadd a b) c = vadd a (vadd b c).
Proof. unfold vadd. cbn. f_equal; ring. Qed.

Lemma dvec_decomp L s :
  dvec L s = vadd (vsub (pos_at L (dhead L (sdart s))) (pos_at L (dtail L (sdart s))))
                  (vscale (scale L) (dcross L s)).
Proof.
  unfold dvec, dcross, evec, dhead, dtail, sdart. cbn [fst snd].
  destruct (edge_at L (fst (fst s))) as [j k]. destruct (snd s); cbn [sgn].
  - unfold vadd, vsub, vscale. cbn [fst snd]. f_equal; ring.
  - unfold vadd, vsub, vscale. cbn [fst snd]. f_equal; ring.
Qed.

Lemma vsum_cons a l : vsum (a :: l) = vadd a (vsum l).
Proof. reflexivity. Qed.

(* telescoping along a consistent walk *)
Lemma walk_ok_telescope L w vend :
  walk_ok L w vend -> w <> [] ->
  vsum (map (dvec L) w) =
  vadd (vsub (pos_at L vend) (pos_at L (snd (fst (hd dflt w)))))
       (vscale (scale L) (vsum (map (dcross L) w))).
Proof.
  induction w as [|a w IH]; [intros _ H; contradiction|]. intros (Ht & Hh & Hr) _.
  cbn [map hd]. rewrite !vsum_cons, dvec_decomp, <- Ht, Hh.
  destruct w as [|b w].
  - change (vsum (map (dvec L) [])) with vzero. change (vsum (map (dcross L) [])) with vzero.
    unfold vadd, vsub, vscale, vzero. cbn [fst snd]. f_equal; ring.
  - rewrite (IH Hr) by discriminate. cbn [hd].
    unfold vadd, vsub, vscale. cbn [fst snd]. f_equal; ring.
Qed.

(* C01: "the directed edge vectors sum to zero" — in general they sum to (scale times) the net
   boundary crossing of the walk, which the validity filter requires to vanish *)
Theorem orbit_vectors_sum L w :
  good L -> orbit_walk L w ->
  vsum (map (dvec L) w) = vscale (scale L) (net_crossing L w).
Proof.
  intros HG HO. rewrite (walk_ok_telescope L w _ (orbit_walk_consistent L w HG HO) (ow_ne _ _ HO)).
  unfold net_crossing, vadd, vsub, vscale. cbn [fst snd]. f_equal; ring.
Qed.

Lemma veqb_eq a b : veqb a b = true <-> a = b.
Proof.
  unfold veqb. destruct a, b. cbn [fst snd]. rewrite andb_true_iff, !Z.eqb_eq.
  split; [intros []; congruence|intros [=]; auto].
Qed.

Corollary valid_walk_vectors_sum_zero L w :
  good L -> orbit_walk L w -> walk_valid L w = true -> vsum (map (dvec L) w) = vzero.
Proof.
  intros HG HO Hv. rewrite (orbit_vectors_sum L w HG HO).
  unfold walk_valid in Hv. apply andb_prop in Hv as [Hv _]. apply andb_prop in Hv as [_ Hn].
  apply veqb_eq in Hn. rewrite Hn. unfold vscale, vzero. cbn. f_equal; ring.
Qed.

Lemma nodupb_NoDup l : nodupb l = true <-> NoDup l.
Proof.
  induction l as [|x l IH]; cbn [nodupb]; [split; [constructor|reflexivity]|].
  rewrite andb_true_iff, negb_true_iff, IH, NoDup_cons_iff. split; intros [H1 H2]; split; auto.
  - intros Hin. assert (existsb (Nat.eqb x) l = true); [|congruence].
    apply existsb_exists. exists x. split; [exact Hin|apply Nat.eqb_refl].
  - destruct (existsb (Nat.eqb x) l) eqn:E; [|reflexivity]. exfalso. apply H1.
    apply existsb_exists in E as (y & Hy & He). apply Nat.eqb_eq in He. congruence.
Qed.

(* ------------------------------------------------------------------ plaquettes: no directed edge twice *)
Definition plaq_darts (p : plaquette) : list dart := combine (p_edges p) (p_dirs p).

Lemma combine_walk w : combine (walk_edges w) (walk_dirs w) = walk_darts w.
Proof.
  unfold walk_edges, walk_dirs, walk_darts. induction w as [|s w IH]; [reflexivity|].
  cbn [map combine]. rewrite IH. reflexivity.
Qed.

Lemma plaq_darts_mk L w : plaq_darts (mk_plaquette L w) = walk_darts w.
Proof. unfold plaq_darts, mk_plaquette. cbn [p_edges p_dirs]. apply combine_walk. Qed.

Lemma NoDup_app_elim {A} (l1 l2 : list A) :
  NoDup (l1 ++ l2) -> NoDup l1 /\ NoDup l2 /\ (forall x, In x l1 -> In x l2 -> False).
Proof.
  induction l1 as [|a l1 IH]; cbn [app]; intros H.
  - split; [constructor|]. split; [exact H|]. intros x [].
  - apply NoDup_cons_iff in H as [Ha H]. destruct (IH H) as (H1 & H2 & H3).
    split; [constructor; [intros Hin; apply Ha, in_or_app; left; exact Hin|exact H1]|].
    split; [exact H2|]. intros x [<-|Hx] Hy; [apply Ha, in_or_app; right; exact Hy|eauto].
Qed.

Lemma NoDup_flat_map_filter {A B} (f : A -> list B) (p : A -> bool) l :
  NoDup (flat_map f l) -> NoDup (flat_map f (filter p l)).
Proof.
  induction l as [|a l IH]; [auto|]. cbn [flat_map filter]. intros H.
  destruct (NoDup_app_elim _ _ H) as (H1 & H2 & H3).
  destruct (p a); [|apply IH, H2]. cbn [flat_map].
  apply NoDup_app_intro; [exact H1|apply IH, H2|].
  intros x Hx Hy. apply (H3 x Hx).
  apply in_flat_map in Hy as (b & Hb & Hxb). apply in_flat_map. exists b.
  split; [apply filter_In in Hb; apply Hb|exact Hxb].
Qed.

Lemma flat_map_map {A B C} (g : A -> B) (f : B -> list C) l :
  flat_map f (map g l) = flat_map (fun x => f (g x)) l.
Proof. induction l as [|a l IH]; [reflexivity|]. cbn. rewrite IH. reflexivity. Qed.

(* the full statement about the plaquette list of a lattice without self-loops *)
Theorem plaquettes_spec L :
  good L ->
  exists fs, all_faces L = Some fs /\
    find_all_plaquettes L = Some (plaq_of_faces L fs) /\
    NoDup (flat_map plaq_darts (plaq_of_faces L fs)) /\
    (forall p, In p (plaq_of_faces L fs) <->
       exists f, In f fs /\ walk_valid L (f_walk f) = true /\ p = mk_plaquette L (f_walk f)).
Proof.
  intros HG. destruct (all_faces_spec L HG) as (fs & E & Hf & Hnd & Hall).
  exists fs. split; [exact E|]. split; [rewrite plaquettes_are_valid_faces, E; reflexivity|]. split.
  - unfold plaq_of_faces. rewrite flat_map_map.
    erewrite flat_map_ext; [|intros w; apply plaq_darts_mk].
    apply NoDup_flat_map_filter. exact Hnd.
  - intros p. unfold plaq_of_faces. rewrite in_map_iff. split.
    + intros (w & <- & Hw). apply filter_In in Hw as [Hw Hv]. apply in_map_iff in Hw as (f & <- & Hfin).
      exists f. auto.
    + intros (f & Hfin & Hv & ->). exists (f_walk f). split; [reflexivity|].
      apply filter_In. split; [apply in_map, Hfin|exact Hv].
Qed.

(* every reported plaquette is a consistent closed walk with the advertised fields *)
Theorem plaquette_closed_walk L fs p :
  good L -> all_faces L = Some fs -> In p (plaq_of_faces L fs) ->
  exists w, p = mk_plaquette L w /\ orbit_walk L w /\
    walk_ok L w (snd (fst (hd dflt w))) /\
    p_verts p = walk_verts w /\ p_edges p = walk_edges w /\ p_dirs p = walk_dirs w /\
    n_sides p = length w /\ length (p_verts p) = length w /\ length (p_dirs p) = length w /\
    NoDup (p_edges p) /\ net_crossing L w = vzero /\ vsum (map (dvec L) w) = vzero /\
    p_winding p = (-1)%Z.
Proof.
  intros HG E Hp. destruct (all_faces_spec L HG) as (fs' & E' & Hf & _ & _).
  rewrite E in E'. injection E' as <-.
  unfold plaq_of_faces in Hp. apply in_map_iff in Hp as (w & <- & Hw).
  apply filter_In in Hw as [Hw Hv]. apply in_map_iff in Hw as (f & <- & Hfin).
  destruct (Hf f Hfin) as [HO _]. exists (f_walk f). split; [reflexivity|]. split; [exact HO|].
  split; [apply orbit_walk_consistent; assumption|].
  unfold mk_plaquette, n_sides. cbn [p_verts p_edges p_dirs p_winding].
  unfold walk_verts, walk_edges, walk_dirs. rewrite !map_length.
  repeat split; try reflexivity.
  - unfold walk_valid in Hv. apply andb_prop in Hv as [Hv _]. apply andb_prop in Hv as [Hv _].
    apply nodupb_NoDup in Hv. exact Hv.
  - unfold walk_valid in Hv. apply andb_prop in Hv as [Hv _]. apply andb_prop in Hv as [_ Hv].
    apply veqb_eq, Hv.
  - apply valid_walk_vectors_sum_zero; assumption.
  - unfold walk_valid in Hv. apply andb_prop in Hv as [_ Hv]. apply Z.eqb_eq, Hv.
Qed.

(* ------------------------------------------------------------------ nd is a bijection of the directed edges *)
Lemma orbit_pred L w s :
  orbit_walk L w -> In s w -> exists s', In s' w /\ nd L (sdart s') = Some (sdart s).
Proof.
  intros HO Hs. apply in_split in Hs as (l1 & l2 & E).
  destruct l1 as [|a0 l1r]; [|destruct (@exists_last _ (a0 :: l1r) ltac:(discriminate)) as (l1' & s' & El); rewrite El in E; clear El].
  - exists (last w dflt). split.
    + rewrite E. cbn [app]. rewrite (app_removelast_last dflt (l:=s :: l2)) at 2 by discriminate.
      apply in_or_app. right. left. reflexivity.
    + pose proof (ow_close _ _ HO) as Hc. rewrite E in Hc at 2. exact Hc.
  - exists s'. split; [rewrite E; apply in_or_app; left; apply in_or_app; right; left; reflexivity|].
    pose proof (ow_chain _ _ HO) as Hc. rewrite E, <- app_assoc in Hc. apply chain_app_r in Hc.
    destruct Hc as [H _]. exact H.
Qed.

Theorem nd_surjective L d :
  good L -> valid_dart L d -> exists d0, valid_dart L d0 /\ nd L d0 = Some d.
Proof.
  intros HG Hd. destruct (all_faces_spec L HG) as (fs & _ & Hf & _ & Hall).
  apply Hall in Hd. unfold face_darts in Hd. apply in_flat_map in Hd as (w & Hw & Hd).
  apply in_map_iff in Hw as (f & <- & Hfin). destruct (Hf f Hfin) as [HO _].
  rewrite walk_darts_sdart in Hd. apply in_map_iff in Hd as (s & <- & Hs).
  destruct (orbit_pred L _ s HO Hs) as (s' & Hs' & Hn).
  exists (sdart s'). split; [apply (ow_ok _ _ HO s' Hs')|exact Hn].
Qed.
