(* Proofs/HamMx.v — MathComp theorems for C07 (Majorana Hamiltonian).
   Bridge: the matrices are TABULATED from the executable entry functions of Model/Ham.v,
       mxZ V f := \matrix_(r, c) f r c : 'M[Z]_V        (Z is a comRingType through mathcomp.zify.ssrZ)
       majorana t edges hop := (i t) *: map_mx (intr \o int_of_Z) (mxZ V (ham_entry V edges hop))  : 'M[C]_V
   so the theorems speak about exactly the function the extracted driver evaluates (ham_matrix / ham_entry).
   General lemmas (any comRingType): antisymmetric => chi(-x) = (-1)^n chi(x); P Q = 1 => chi(P M Q) = chi(M). *)
From Coq Require Import ZArith.
From Coq Require List.
From mathcomp Require Import all_ssreflect all_algebra.
From mathcomp Require Import fingroup perm ssrZ zify ring.
From Koala Require Import Model.Ham Proofs.HamFacts.
Set Implicit Arguments. Unset Strict Implicit. Unset Printing Implicit Defensive.
Import Order.Theory GRing.Theory Num.Theory.
Local Open Scope ring_scope.

(* ================= general facts over any commutative ring ================= *)
Section CharPoly.
Variable R : comRingType.
Variable n : nat.
Implicit Types (M P Q : 'M[R]_n).

(* antisymmetric matrices have a characteristic polynomial that is even/odd:
   chi(-x) = (-1)^n chi(x), i.e. the spectrum is symmetric about zero (with multiplicities) *)
Lemma char_poly_antisym M : M^T = - M ->
  (char_poly M) \Po (- 'X) = (-1) ^+ n * char_poly M.
Proof.
move=> aM; rewrite /char_poly -det_map_mx.
have -> : map_mx (comp_poly (- 'X)) (char_poly_mx M) = (-1) *: (char_poly_mx M)^T.
  apply/matrixP=> i j; rewrite !mxE rmorphB rmorphMn /= comp_polyX comp_polyC.
  have -> : M i j = - M j i by rewrite -[M in LHS]opprK -aM !mxE.
  rewrite eq_sym polyCN; case: (j == i); rewrite ?mulr1n ?mulr0n; ring.
by rewrite detZ det_tr.
Qed.

(* similar matrices (P Q = 1) have the same characteristic polynomial *)
Lemma char_poly_sim P Q M : P *m Q = 1%:M -> char_poly (P *m M *m Q) = char_poly M.
Proof.
move=> PQ; rewrite /char_poly.
have -> : char_poly_mx (P *m M *m Q)
          = map_mx polyC P *m char_poly_mx M *m map_mx polyC Q.
  rewrite /char_poly_mx !map_mxM /= mulmxBr mulmxBl -!mulmxA; congr (_ - _).
  by rewrite -scalar_mxC mulmxA -map_mxM PQ map_scalar_mx /= mul1mx.
rewrite !det_mulmx mulrAC -det_mulmx -map_mxM PQ map_scalar_mx /= det1 mul1r //.
Qed.

Lemma perm_mx_trK (s : 'S_n) : perm_mx s *m (perm_mx s)^T = 1%:M :> 'M[R]_n.
Proof. by rewrite tr_perm_mx -perm_mxM mulgV perm_mx1. Qed.

Lemma relab_perm_mxR (s : 'S_n) M :
  (\matrix_(i, j) M (s i) (s j)) = perm_mx s *m M *m (perm_mx s)^T.
Proof.
rewrite tr_perm_mx -row_permE -col_permE.
by apply/matrixP=> i j; rewrite !mxE.
Qed.

End CharPoly.

(* ================= the model's matrices ================= *)
Section HamZ.
Variable V : nat.

(* the bridge: the MathComp matrix is tabulated from the executable entry function *)
Definition mxZ (f : nat -> nat -> Z) : 'M[Z]_V := \matrix_(r, c) f r c.
Definition Amx (edges : list edge) (hop : list Z) : 'M[Z]_V := mxZ (bond_sum edges hop).

Lemma ltV (i : 'I_V) : (i < V)%coq_nat. Proof. exact/ssrnat.ltP. Qed.

Lemma ham_is_bond_sum_mx edges hop : no_loops edges = true ->
  mxZ (ham_entry V edges hop) = Amx edges hop.
Proof. by move=> nl; apply/matrixP=> r c; rewrite !mxE; apply: ham_is_bond_sum => //; exact: ltV. Qed.

Lemma Amx_antisym edges hop : no_loops edges = true -> (Amx edges hop)^T = - Amx edges hop.
Proof. by move=> nl; apply/matrixP=> r c; rewrite !mxE bond_sum_antisym. Qed.

Lemma Amx_diag edges hop (r : 'I_V) : no_loops edges = true -> Amx edges hop r r = 0.
Proof. by move=> nl; rewrite mxE bond_sum_diag. Qed.

Lemma Amx_off_edges edges hop (r c : 'I_V) :
  (forall e, List.In e edges -> ~ joins e r c) -> Amx edges hop r c = 0.
Proof. by move=> h; rewrite mxE bond_sum_off_edges. Qed.

Lemma Amx_spectrum_symmetric edges hop : no_loops edges = true ->
  (char_poly (Amx edges hop)) \Po (- 'X) = (-1) ^+ V * char_poly (Amx edges hop).
Proof. by move=> nl; apply: char_poly_antisym; apply: Amx_antisym. Qed.

(* ---- gauge ---- *)
Definition gmx (g : nat -> Z) : 'M[Z]_V := diag_mx (\row_v g v).

Lemma Amx_gauge g edges hop :
  Amx edges (gauge_hop g edges hop) = gmx g *m Amx edges hop *m gmx g.
Proof.
apply/matrixP=> r c; rewrite /gmx mul_mx_diag mxE mul_diag_mx !mxE bond_sum_gauge; reflexivity.
Qed.

Lemma gmx_sq g : (forall v, (v < V)%N -> Z.mul (g v) (g v) = Zpos 1) -> gmx g *m gmx g = 1%:M.
Proof.
move=> sg; rewrite /gmx mulmx_diag -diag_const_mx; congr diag_mx.
by apply/rowP=> j; rewrite !mxE -[_ * _]/(Z.mul _ _) sg.
Qed.

Lemma gauge_similar g edges hop : (forall v, (v < V)%N -> Z.mul (g v) (g v) = Zpos 1) ->
  char_poly (Amx edges (gauge_hop g edges hop)) = char_poly (Amx edges hop).
Proof. by move=> sg; rewrite Amx_gauge; apply: char_poly_sim; apply: gmx_sq. Qed.

(* ---- relabelling ---- *)
Lemma uniq_NoDup (T : eqType) (l : seq T) : uniq l -> List.NoDup l.
Proof.
elim: l => [|x l IH] /=; first by move=> _; constructor.
case/andP=> xl ul; constructor; last exact: IH.
by move=> xin; move/negP: xl; apply; elim: l xin {IH ul} => //= y l IH [->|/IH h]; rewrite inE ?eqxx ?h ?orbT.
Qed.

Lemma In_memN (x : nat) l : List.In x l -> x \in l.
Proof. by elim: l => //= y l IH [->|/IH h]; rewrite inE ?eqxx ?h ?orbT. Qed.

Definition s_of (ordering : list nat) (i : nat) := List.nth i ordering 0%N.
Definition inv_of (ordering : list nat) (v : nat) := List.nth v (inverse_ordering V ordering) 0%N.

(* a list that tabulates a permutation s of 'I_V, and its inverse_ordering *)
Lemma tabulated_perm (s : 'S_V) (ordering : list nat) :
  size ordering = V -> (forall i : 'I_V, nth 0%N ordering i = s i) ->
  [/\ forall i : 'I_V, s_of ordering i = s i,
      forall i, (i < V)%coq_nat -> (s_of ordering i < V)%coq_nat /\ inv_of ordering (s_of ordering i) = i
    & forall v, (v < V)%coq_nat -> (inv_of ordering v < V)%coq_nat /\ s_of ordering (inv_of ordering v) = v].
Proof.
move=> so os.
have ordE : ordering = [seq nat_of_ord (s i) | i <- enum 'I_V].
  apply: (@eq_from_nth _ 0%N); first by rewrite size_map size_enum_ord.
  move=> i; rewrite so => iV; rewrite (nth_map (Ordinal iV)) ?size_enum_ord //.
  have -> : nth (Ordinal iV) (enum 'I_V) i = Ordinal iV by apply: val_inj; rewrite /= nth_enum_ord.
  exact: (os (Ordinal iV)).
have uo : uniq ordering.
  rewrite ordE map_inj_uniq ?enum_uniq // => i j /val_inj; exact: perm_inj.
have lo x : List.In x ordering -> (x < V)%coq_nat.
  by move/In_memN; rewrite ordE => /mapP[i _ ->]; exact: ltV.
have nthE (l : list nat) i : List.nth i l 0%N = nth 0%N l i.
  by elim: l i => [|x l IH] [|i] //=.
have s'E (i : 'I_V) : s_of ordering i = s i by rewrite /s_of nthE os.
have hs i : (i < V)%coq_nat -> (s_of ordering i < V)%coq_nat /\ inv_of ordering (s_of ordering i) = i.
  move=> /ssrnat.ltP iV; split; first by rewrite (s'E (Ordinal iV)); exact: ltV.
  by apply: inverse_ordering_spec => //; [exact: uniq_NoDup | exact/ssrnat.ltP].
split=> // v /ssrnat.ltP vV; pose i := (s^-1)%g (Ordinal vV).
have e : s_of ordering i = v by rewrite s'E /i permKV.
by have [_ iv] := hs i (ltV i); rewrite -e iv; split=> //; exact: ltV.
Qed.

Lemma Amx_relabel (s : 'S_V) (ordering : list nat) edges hop :
  wf_edges V edges = true -> size ordering = V -> (forall i : 'I_V, nth 0%N ordering i = s i) ->
  Amx (permute_edges V ordering edges) hop
  = perm_mx s *m Amx edges hop *m (perm_mx s)^T.
Proof.
move=> wf so os; rewrite -relab_perm_mxR.
have [s'E hs hinv] := tabulated_perm so os.
apply/matrixP=> r c; rewrite !mxE /permute_edges.
by rewrite (@bond_sum_relabel V (s_of ordering) (inv_of ordering)) ?s'E //; exact: ltV.
Qed.

Lemma no_loops_permute (s : 'S_V) (ordering : list nat) edges :
  wf_edges V edges = true -> size ordering = V -> (forall i : 'I_V, nth 0%N ordering i = s i) ->
  no_loops edges = true -> no_loops (permute_edges V ordering edges) = true.
Proof.
move=> wf so os nl; have [_ _ hinv] := tabulated_perm so os.
by apply: (@no_loops_relabel V (s_of ordering) (inv_of ordering)) => // v /hinv[].
Qed.

Lemma relabel_similar (s : 'S_V) (ordering : list nat) edges hop :
  wf_edges V edges = true -> size ordering = V -> (forall i : 'I_V, nth 0%N ordering i = s i) ->
  char_poly (Amx (permute_edges V ordering edges) hop) = char_poly (Amx edges hop).
Proof. by move=> wf so os; rewrite (Amx_relabel hop wf so os); apply: char_poly_sim; apply: perm_mx_trK. Qed.

End HamZ.

(* ================= the Hamiltonian over a numClosedFieldType: H = (i t) *: A, t real
   (hamiltonian.py:72: t = 1/4, and t = 1/(4 SJ) for the harness' dyadic scale) ================= *)
Section HamC.
Variable C : numClosedFieldType.
Variable V : nat.
Local Notation zC := (intr \o int_of_Z : Z -> C).

Definition Hc (t : C) (A : 'M[Z]_V) : 'M[C]_V := ('i * t) *: map_mx zC A.

Lemma zC_real z : zC z \is Num.real. Proof. exact: realz. Qed.

Lemma Hc_tr t A : (Hc t A)^T = Hc t A^T.
Proof. by rewrite /Hc linearZ /= map_trmx. Qed.

Lemma Hc_opp t A : Hc t (- A) = - Hc t A.
Proof. by rewrite /Hc map_mxN scalerN. Qed.

(* antisymmetric *)
Lemma Hc_antisym t A : A^T = - A -> (Hc t A)^T = - Hc t A.
Proof. by move=> aA; rewrite Hc_tr aA Hc_opp. Qed.

(* purely imaginary *)
Lemma Hc_imag t A r c : t \is Num.real -> 'Re (Hc t A r c) = 0.
Proof.
move=> rt; rewrite !mxE -mulrA ReMil ImMr ?zC_real //.
by rewrite (Creal_ImP _ rt) mul0r oppr0.
Qed.

(* Hermitian *)
Lemma Hc_hermitian t A : t \is Num.real -> A^T = - A -> (map_mx conjC (Hc t A))^T = Hc t A.
Proof.
move=> rt aA; apply/matrixP=> r c; rewrite !mxE rmorphM rmorphM conjCi.
rewrite (CrealP rt) (CrealP (zC_real _)) /=.
have -> : A c r = - A r c by rewrite -[A in LHS]opprK -aA !mxE.
by rewrite rmorphN /= rmorphN /= mulrN mulNr mulNr opprK.
Qed.

(* spectrum symmetric about zero *)
Lemma Hc_spectrum_symmetric t A : A^T = - A ->
  (char_poly (Hc t A)) \Po (- 'X) = (-1) ^+ V * char_poly (Hc t A).
Proof. by move=> aA; apply: char_poly_antisym; apply: Hc_antisym. Qed.

(* similarity transfers from the integer matrices to H *)
Lemma Hc_sim t (P Q A : 'M[Z]_V) : P *m Q = 1%:M ->
  char_poly (Hc t (P *m A *m Q)) = char_poly (Hc t A).
Proof.
move=> PQ.
have -> : Hc t (P *m A *m Q) = map_mx zC P *m Hc t A *m map_mx zC Q.
  by rewrite /Hc !map_mxM /= -scalemxAr -scalemxAl.
by apply: char_poly_sim; rewrite -map_mxM PQ map_scalar_mx /= rmorph1.
Qed.

End HamC.

(* ================= the statements about majorana_hamiltonian itself ================= *)
Section Majorana.
Variable C : numClosedFieldType.
Variable V : nat.
Local Notation zC := (intr \o int_of_Z : Z -> C).

(* (i t) * the array built by hamiltonian.py:62-70 *)
Definition majorana (t : C) (edges : list edge) (hop : list Z) : 'M[C]_V :=
  Hc t (mxZ V (ham_entry V edges hop)).

Lemma majorana_entry t edges hop (r c : 'I_V) : no_loops edges = true ->
  majorana t edges hop r c = 'i * t * zC (bond_sum edges hop r c).
Proof. by move=> nl; rewrite /majorana ham_is_bond_sum_mx // !mxE. Qed.

Lemma majorana_antisym t edges hop : no_loops edges = true ->
  (majorana t edges hop)^T = - majorana t edges hop.
Proof. by move=> nl; rewrite /majorana ham_is_bond_sum_mx //; apply/Hc_antisym/Amx_antisym. Qed.

Lemma majorana_hermitian t edges hop : t \is Num.real -> no_loops edges = true ->
  (map_mx conjC (majorana t edges hop))^T = majorana t edges hop.
Proof. by move=> rt nl; rewrite /majorana ham_is_bond_sum_mx //; apply/Hc_hermitian/Amx_antisym. Qed.

Lemma majorana_imag t edges hop r c : t \is Num.real -> 'Re (majorana t edges hop r c) = 0.
Proof. exact: Hc_imag. Qed.

Lemma majorana_zero_off_edges t edges hop (r c : 'I_V) : no_loops edges = true ->
  (forall e, List.In e edges -> ~ joins e r c) -> majorana t edges hop r c = 0.
Proof. by move=> nl h; rewrite majorana_entry // bond_sum_off_edges //= mulr0. Qed.

Lemma majorana_spectrum_symmetric t edges hop : no_loops edges = true ->
  (char_poly (majorana t edges hop)) \Po (- 'X) = (-1) ^+ V * char_poly (majorana t edges hop).
Proof. by move=> nl; apply: char_poly_antisym; apply: majorana_antisym. Qed.

Lemma majorana_gauge_DHD t g edges hop : no_loops edges = true ->
  majorana t edges (gauge_hop g edges hop)
  = map_mx zC (gmx V g) *m majorana t edges hop *m map_mx zC (gmx V g).
Proof.
move=> nl; rewrite /majorana !ham_is_bond_sum_mx // Amx_gauge /Hc !map_mxM /=.
by rewrite -scalemxAr -scalemxAl.
Qed.

Lemma majorana_gauge_similar t g edges hop : no_loops edges = true ->
  (forall v, (v < V)%N -> Z.mul (g v) (g v) = Zpos 1) ->
  char_poly (majorana t edges (gauge_hop g edges hop)) = char_poly (majorana t edges hop).
Proof.
move=> nl sg; rewrite /majorana !ham_is_bond_sum_mx // Amx_gauge.
by apply: Hc_sim; apply: gmx_sq.
Qed.

Lemma majorana_relabel_PHPt t (s : 'S_V) ordering edges hop :
  no_loops edges = true ->
  wf_edges V edges = true -> size ordering = V -> (forall i : 'I_V, nth 0%N ordering i = s i) ->
  majorana t (permute_edges V ordering edges) hop
  = perm_mx s *m majorana t edges hop *m (perm_mx s)^T.
Proof.
move=> nl wf so os; have nl' := no_loops_permute wf so os nl; rewrite /majorana !ham_is_bond_sum_mx // (Amx_relabel hop wf so os).
rewrite /Hc !map_mxM /= -map_trmx !map_perm_mx.
by rewrite -scalemxAr -scalemxAl.
Qed.

Lemma majorana_relabel_similar t (s : 'S_V) ordering edges hop :
  no_loops edges = true ->
  wf_edges V edges = true -> size ordering = V -> (forall i : 'I_V, nth 0%N ordering i = s i) ->
  char_poly (majorana t (permute_edges V ordering edges) hop) = char_poly (majorana t edges hop).
Proof.
move=> nl wf so os; rewrite (majorana_relabel_PHPt t hop nl wf so os).
by apply: char_poly_sim; apply: perm_mx_trK.
Qed.

End Majorana.
