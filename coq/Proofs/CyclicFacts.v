(* Proofs/CyclicFacts.v — clockwise_about(v) is the table row of v in REVERSE CYCLIC order (C02, queries).
   The table row is sorted by descending alpha (angle from 12 o'clock, anticlockwise, in [0,2pi));
   clockwise_about by ascending beta (polar angle from the positive x axis, in (0,2pi]).
   beta = alpha + pi/2 except on the open first quadrant, where beta = alpha - 3pi/2: so the
   beta-ascending list is the alpha-ascending list with its first-quadrant tail moved to the front. *)
From Coq Require Import List ZArith Bool Arith Lia ZifyBool Permutation Sorted.
From Koala Require Import Model.Lattice Model.TableSpec Model.Queries Proofs.SortFacts Proofs.QueriesFacts Proofs.CycListFacts.
Import ListNotations.
Open Scope Z_scope.

Definition quad1 (v : vec) : bool := (0 <? fst v) && (0 <? snd v).

Lemma mul_sign : forall a b,
  (0 < a -> 0 < b -> 0 < a * b) /\ (0 < a -> b < 0 -> a * b < 0) /\
  (a < 0 -> 0 < b -> a * b < 0) /\ (a < 0 -> b < 0 -> 0 < a * b) /\
  (a = 0 -> a * b = 0) /\ (b = 0 -> a * b = 0).
Proof. intros a b. repeat split; intros; nia. Qed.

(* decide every comparison atom that the sign hypotheses decide *)
Ltac decide_atoms :=
  repeat match goal with
  | |- context [Z.ltb ?a ?b] =>
      first [ replace (Z.ltb a b) with true by (symmetry; apply Z.ltb_lt; lia)
            | replace (Z.ltb a b) with false by (symmetry; apply Z.ltb_ge; lia) ]
  | |- context [Z.eqb ?a ?b] =>
      first [ replace (Z.eqb a b) with true by (symmetry; apply Z.eqb_eq; lia)
            | replace (Z.eqb a b) with false by (symmetry; apply Z.eqb_neq; lia) ]
  end.
Ltac resolve_imps :=
  repeat match goal with
  | H : ?P -> ?Q |- _ =>
      first [ (let h := fresh in assert (h : P) by assumption; specialize (H h); clear h) | clear H ]
  end.
Ltac sign3 x := destruct (Z.lt_trichotomy x 0) as [?|[?|?]].
Ltac cross_facts xv yv xw yw p q :=
  let Sp := fresh "Sp" in let Sq := fresh "Sq" in
  pose proof (mul_sign xv yw) as Sp; pose proof (mul_sign yv xw) as Sq;
  set (p := xv * yw) in *; set (q := yv * xw) in *; clearbody p q;
  destruct Sp as (?&?&?&?&?&?); destruct Sq as (?&?&?&?&?&?).
Ltac nonzero_prune H := try (exfalso; destruct H; contradiction).

Lemma vec_nonzero : forall x y : Z, (x, y) <> vzero -> x <> 0 \/ y <> 0.
Proof. intros x y H. destruct (Z.eq_dec x 0), (Z.eq_dec y 0); subst; auto. Qed.

(* on the same side of the first-quadrant cut the two comparators agree *)
Lemma F12 : forall v w, v <> vzero -> w <> vzero -> quad1 v = quad1 w -> ang2_lt v w = ang_lt v w.
Proof.
  intros [xv yv] [xw yw] Hv Hw. apply vec_nonzero in Hv, Hw.
  unfold quad1, ang2_lt, ang_lt, half2, half, vcross. simpl.
  replace (yv * - xw - - xv * yw) with (xv * yw - yv * xw) by ring.
  cross_facts xv yv xw yw p q.
  sign3 xv; sign3 yv; nonzero_prune Hv; sign3 xw; sign3 yw; nonzero_prune Hw; clear Hv Hw; resolve_imps;
    decide_atoms; simpl; try reflexivity; try discriminate; intros _; decide_atoms; simpl; reflexivity.
Qed.

(* across the cut: first-quadrant vectors have the smaller beta and the larger alpha *)
Lemma F3 : forall v w, v <> vzero -> w <> vzero -> quad1 v = true -> quad1 w = false ->
  ang2_lt v w = true /\ ang_lt w v = true.
Proof.
  intros [xv yv] [xw yw] Hv Hw. apply vec_nonzero in Hv, Hw.
  unfold quad1, ang2_lt, ang_lt, half2, half, vcross. simpl.
  replace (yw * - xv - - xw * yv) with (yv * xw - xv * yw) by ring.
  cross_facts xv yv xw yw p q.
  sign3 xv; sign3 yv; nonzero_prune Hv; sign3 xw; sign3 yw; nonzero_prune Hw; clear Hv Hw; resolve_imps;
    decide_atoms; simpl; try discriminate; intros _ _; decide_atoms; simpl; split; reflexivity.
Qed.

Lemma ang2_ge_trans : forall v w u,
  w <> vzero -> ang2_lt w v = false -> ang2_lt u w = false -> ang2_lt u v = false.
Proof.
  intros [xv yv] [xw yw] [xu yu] Hw. apply vec_nonzero in Hw.
  unfold ang2_lt, half2, vcross. simpl.
  intros H1 H2.
  assert (I1 : (xu * yv - yu * xv) * xw = (xw * yv - yw * xv) * xu + (xu * yw - yu * xw) * xv) by ring.
  assert (I2 : (xu * yv - yu * xv) * yw = (xw * yv - yw * xv) * yu + (xu * yw - yu * xw) * yv) by ring.
  destruct (Z.ltb_spec 0 yv), (Z.eqb_spec yv 0), (Z.ltb_spec xv 0),
           (Z.ltb_spec 0 yw), (Z.eqb_spec yw 0), (Z.ltb_spec xw 0),
           (Z.ltb_spec 0 yu), (Z.eqb_spec yu 0), (Z.ltb_spec xu 0);
    simpl in *; try lia; try nia.
Qed.

Lemma sorted_strongly_asc : forall key l,
  (forall x, In x l -> key x <> vzero) ->
  Sorted (asc_ok key) l -> StronglySorted (asc_ok key) l.
Proof.
  intros key l. induction l as [|a r IH]; intros Hnz Hs. constructor.
  inversion Hs as [|? ? Hr Hd]; subst.
  assert (IHr : StronglySorted (asc_ok key) r) by (apply IH; [intros; apply Hnz; right; assumption|assumption]).
  constructor. assumption.
  destruct r as [|b r']. constructor.
  inversion Hd as [|? ? Hab]; subst. inversion IHr as [|? ? _ Hall]; subst.
  constructor. assumption.
  eapply Forall_impl; [|exact Hall]. intros c Hbc. unfold asc_ok in *.
  eapply ang2_ge_trans; [|exact Hab|exact Hbc]. apply Hnz. right; left; reflexivity.
Qed.

(* generic position at a vertex: no zero outward vector, no two edges leaving in the same direction *)
Definition generic_keys (key : nat -> vec) (l : list nat) : Prop :=
  (forall a, In a l -> key a <> vzero) /\
  (forall a b, In a l -> In b l -> a <> b -> ang_lt (key a) (key b) = true \/ ang_lt (key b) (key a) = true).

Lemma generic2 : forall key l, generic_keys key l ->
  forall a b, In a l -> In b l -> a <> b -> ang2_lt (key a) (key b) = true \/ ang2_lt (key b) (key a) = true.
Proof.
  intros key l [Hnz Hg] a b Ha Hb Hab.
  destruct (quad1 (key a)) eqn:Qa, (quad1 (key b)) eqn:Qb.
  - rewrite !F12 by (auto; congruence). auto.
  - left. apply (F3 (key a) (key b)); auto.
  - right. apply (F3 (key b) (key a)); auto.
  - rewrite !F12 by (auto; congruence). auto.
Qed.

Lemma cyclic_reverse : forall key l,
  NoDup l -> generic_keys key l ->
  let A := sort_desc key l in
  let B := sort_asc key l in
  let n := length (filter (fun a => negb (quad1 (key a))) (rev A)) in
  B = skipn n (rev A) ++ firstn n (rev A).
Proof.
  intros key l Hnd Hgen A B n. destruct Hgen as [Hnz Hg].
  pose proof (sort_desc_perm key l) as PA. pose proof (sort_asc_perm key l) as PB.
  fold A in PA. fold B in PB.
  assert (InA : forall a, In a A <-> In a l) by (intros a; split; apply Permutation_in; [exact PA|symmetry; exact PA]).
  assert (InB : forall a, In a B <-> In a l) by (intros a; split; apply Permutation_in; [exact PB|symmetry; exact PB]).
  assert (NdA : NoDup A) by (eapply Permutation_NoDup; [symmetry; exact PA|exact Hnd]).
  assert (NdB : NoDup B) by (eapply Permutation_NoDup; [symmetry; exact PB|exact Hnd]).
  (* A strictly descending in alpha *)
  assert (SA : StronglySorted (fun a b => ang_lt (key b) (key a) = true) A).
  { apply (SS_impl_in nat (desc_ok key) (fun a b => ang_lt (key b) (key a) = true) A).
    - apply sorted_strongly. intros x Hx. apply Hnz, InA, Hx. apply sort_desc_sorted.
    - exact NdA.
    - intros a b Ha Hb Hab Hd. unfold desc_ok in Hd. destruct (Hg a b) as [H|H]; try (apply InA; assumption); try assumption.
      congruence. }
  (* rev A strictly ascending *)
  apply SS_rev in SA. simpl in SA. set (rA := rev A) in *.
  assert (InR : forall a, In a rA <-> In a l) by (intros a; unfold rA; rewrite <- in_rev; apply InA).
  assert (NdR : NoDup rA) by (unfold rA; apply NoDup_rev; exact NdA).
  set (q := fun a => quad1 (key a)).
  (* split *)
  assert (Split : rA = filter (fun x => negb (q x)) rA ++ filter q rA).
  { apply split_sorted with (R := fun a b => ang_lt (key a) (key b) = true). exact SA.
    intros a b Ha Hb Hab Hq. unfold q in *. destruct (quad1 (key b)) eqn:Qb; [reflexivity|].
    destruct (F3 (key a) (key b)) as [_ H]; auto; try (apply Hnz, InR; assumption).
    apply ang_lt_asym in H. congruence. }
  set (P := filter (fun x => negb (q x)) rA) in *. set (Qs := filter q rA) in *.
  assert (InP : forall a, In a P -> In a l /\ q a = false).
  { intros a Ha. unfold P in Ha. apply filter_In in Ha. destruct Ha as [Ha Hq]. split. apply InR; assumption.
    destruct (q a); [discriminate|reflexivity]. }
  assert (InQ : forall a, In a Qs -> In a l /\ q a = true).
  { intros a Ha. unfold Qs in Ha. apply filter_In in Ha. destruct Ha as [Ha Hq]. split. apply InR; assumption. assumption. }
  (* Qs ++ P strictly ascending in beta *)
  assert (ST : StronglySorted (fun a b => ang2_lt (key a) (key b) = true) (Qs ++ P)).
  { apply SS_app_iff. repeat split.
    - apply (SS_impl_in nat (fun a b => ang_lt (key a) (key b) = true) (fun a b => ang2_lt (key a) (key b) = true) Qs).
      + apply SS_filter. exact SA.
      + apply NoDup_filter. exact NdR.
      + intros a b Ha Hb _ H. destruct (InQ a Ha) as [La Qa], (InQ b Hb) as [Lb Qb].
        rewrite F12; auto. unfold q in *. congruence.
    - apply (SS_impl_in nat (fun a b => ang_lt (key a) (key b) = true) (fun a b => ang2_lt (key a) (key b) = true) P).
      + apply SS_filter. exact SA.
      + apply NoDup_filter. exact NdR.
      + intros a b Ha Hb _ H. destruct (InP a Ha) as [La Qa], (InP b Hb) as [Lb Qb].
        rewrite F12; auto. unfold q in *. congruence.
    - intros a b Ha Hb. destruct (InQ a Ha) as [La Qa], (InP b Hb) as [Lb Qb].
      apply (F3 (key a) (key b)); auto. }
  (* B strictly ascending in beta *)
  assert (SB : StronglySorted (fun a b => ang2_lt (key a) (key b) = true) B).
  { apply (SS_impl_in nat (asc_ok key) (fun a b => ang2_lt (key a) (key b) = true) B).
    - apply sorted_strongly_asc. intros x Hx. apply Hnz, InB, Hx. apply sort_asc_sorted.
    - exact NdB.
    - intros a b Ha Hb Hab Hd. unfold asc_ok in Hd.
      destruct (generic2 key l (conj Hnz Hg) a b) as [H|H]; try (apply InB; assumption); try assumption. congruence. }
  assert (PT : Permutation (Qs ++ P) B).
  { rewrite Permutation_app_comm. fold P Qs in Split. rewrite <- Split. unfold rA.
    rewrite <- Permutation_rev. rewrite PA. symmetry. exact PB. }
  assert (E : Qs ++ P = B).
  { apply sorted_perm_unique with (R := fun a b => ang2_lt (key a) (key b) = true).
    - intros a b H1 H2. apply ang2_lt_asym in H1. congruence.
    - exact ST.
    - exact SB.
    - eapply Permutation_NoDup. symmetry; exact PT. exact NdB.
    - exact PT. }
  rewrite <- E. assert (Hn : n = length P) by reflexivity. rewrite Hn. clear Hn.
  assert (E1 : skipn (length P) rA = Qs).
  { rewrite Split at 1. rewrite skipn_app, skipn_all, Nat.sub_diag. reflexivity. }
  assert (E2 : firstn (length P) rA = P).
  { rewrite Split at 1. rewrite firstn_app, firstn_all, Nat.sub_diag. simpl. apply app_nil_r. }
  rewrite E1, E2. reflexivity.
Qed.

Lemma insert_asc_ext : forall k1 k2 x l,
  k1 x = k2 x -> (forall y, In y l -> k1 y = k2 y) -> insert_asc k1 x l = insert_asc k2 x l.
Proof.
  intros k1 k2 x l Hx. induction l as [|y r IH]; intros H; simpl. reflexivity.
  rewrite Hx, (H y (or_introl eq_refl)). destruct (ang2_lt (k2 x) (k2 y)). reflexivity.
  f_equal. apply IH. intros z Hz. apply H. right; assumption.
Qed.

Lemma sort_asc_ext : forall k1 k2 l, (forall x, In x l -> k1 x = k2 x) -> sort_asc k1 l = sort_asc k2 l.
Proof.
  intros k1 k2 l H. unfold sort_asc.
  assert (G : forall acc, (forall x, In x l \/ In x acc -> k1 x = k2 x) ->
            fold_left (fun acc x => insert_asc k1 x acc) l acc = fold_left (fun acc x => insert_asc k2 x acc) l acc).
  { clear H. induction l as [|x r IH]; intros acc H; simpl. reflexivity.
    rewrite (insert_asc_ext k1 k2 x acc).
    - apply IH. intros y [Hy|Hy]. apply H. left; right; assumption.
      apply (Permutation_in _ (insert_asc_perm k2 x acc)) in Hy. destruct Hy as [<-|Hy].
      apply H. left; left; reflexivity. apply H. right; assumption.
    - apply H. left; left; reflexivity.
    - intros y Hy. apply H. right; assumption. }
  apply G. intros x [Hx|[]]. apply H. assumption.
Qed.

(* clockwise_about(v): the table row of v read backwards, rotated *)
Lemma clockwise_reverse_cyclic_lemma : forall L v,
  (v < nV L)%nat ->
  (forall e, In e (incident L v) -> fst (edge_at L e) <> snd (edge_at L e)) ->
  generic_keys (outvec L v) (incident L v) ->
  exists n, clockwise_edges_about L v =
            skipn n (rev (nth v (adj_table L) [])) ++ firstn n (rev (nth v (adj_table L) [])).
Proof.
  intros L v Hv Hloop Hgen. rewrite adj_table_nth by assumption.
  unfold clockwise_edges_about, clockwise_about, sorted_adj. simpl. rewrite q_edge_ids_incident.
  rewrite (sort_asc_ext (q_edge_vector L v) (outvec L v)).
  - eexists. apply (cyclic_reverse (outvec L v) (incident L v)). apply incident_nodup. assumption.
  - intros e He. apply q_edge_vector_outvec. apply incident_in in He. tauto. apply Hloop. assumption.
Qed.

Lemma generic_keysb_spec : forall key l, generic_keysb key l = true -> generic_keys key l.
Proof.
  intros key l H. unfold generic_keysb in H. apply andb_true_iff in H. destruct H as [H1 H2].
  rewrite forallb_forall in H1, H2. split.
  - intros a Ha E. specialize (H1 a Ha). rewrite E in H1. discriminate.
  - intros a b Ha Hb Hab. specialize (H2 a Ha). rewrite forallb_forall in H2. specialize (H2 b Hb).
    rewrite !orb_true_iff in H2. destruct H2 as [[H|H]|H]; auto. apply Nat.eqb_eq in H. contradiction.
Qed.

Lemma clockwise_reverse_cyclic_b : forall L v,
  (v < nV L)%nat -> generic_at L v = true ->
  exists n, clockwise_edges_about L v =
            skipn n (rev (nth v (adj_table L) [])) ++ firstn n (rev (nth v (adj_table L) [])).
Proof.
  intros L v Hv H. unfold generic_at in H. apply andb_true_iff in H. destruct H as [H1 H2].
  apply clockwise_reverse_cyclic_lemma. assumption.
  - intros e He. rewrite forallb_forall in H1. specialize (H1 e He). apply negb_true_iff, Nat.eqb_neq in H1. assumption.
  - apply generic_keysb_spec. assumption.
Qed.
