(* Proofs/MarkerMx.v — MathComp theorems for C18 (Chern / crosshair markers) over an arbitrary
   numClosedFieldType C, every size n, every Hermitian idempotent P, real diagonal a, b.
   marker P a b i = 'Im ((P * diag a * P * diag b * P) i i)  (prefactor 4 pi symbolic).
   The executable list model (Model/Marker.v) is tied to these definitions in Proofs/MarkerBridge.v. *)
From mathcomp Require Import all_ssreflect all_algebra.
From mathcomp Require Import fingroup perm.
Set Implicit Arguments. Unset Strict Implicit. Unset Printing Implicit Defensive.
Import Order.Theory GRing.Theory Num.Theory.
Local Open Scope ring_scope.

Section Marker.
Variable C : numClosedFieldType.
Variable n : nat.
Implicit Types (P M N : 'M[C]_n) (a b d : 'rV[C]_n) (s : 'S_n).

(* conjugate transpose *)
Definition adjmx M : 'M[C]_n := (map_mx conjC M)^T.
Definition hermitian P := adjmx P = P.
Definition idempotent P := P *m P = P.
Definition realv a := forall j, a 0 j \is Num.real.

(* the property's formula without the symbolic prefactor 4 pi *)
Definition tripleP P a b : 'M[C]_n := P *m diag_mx a *m P *m diag_mx b *m P.
Definition marker P a b (i : 'I_n) : C := 'Im (tripleP P a b i i).

Lemma adjmxM M N : adjmx (M *m N) = adjmx N *m adjmx M.
Proof. by rewrite /adjmx map_mxM trmx_mul. Qed.

Lemma adjmx_diag a : realv a -> adjmx (diag_mx a) = diag_mx a.
Proof.
move=> ra; rewrite /adjmx map_diag_mx tr_diag_mx; congr diag_mx.
by apply/rowP=> j; rewrite !mxE (CrealP (ra j)).
Qed.

Lemma adjmxE M i j : adjmx M i j = (M j i)^*.
Proof. by rewrite !mxE. Qed.

Lemma adj_triple P a b : hermitian P -> realv a -> realv b ->
  adjmx (tripleP P a b) = tripleP P b a.
Proof.
move=> hP ra rb; rewrite /tripleP !adjmxM hP adjmx_diag // adjmx_diag //.
by rewrite !mulmxA.
Qed.

Lemma marker_real P a b i : marker P a b i \is Num.real.
Proof. exact: Creal_Im. Qed.

Lemma marker_swap P a b i : hermitian P -> realv a -> realv b ->
  marker P b a i = - marker P a b i.
Proof.
move=> hP ra rb; rewrite /marker -(adj_triple hP ra rb) adjmxE.
by rewrite Im_conj.
Qed.

Lemma marker_sum P a b : \sum_i marker P a b i = 'Im (\tr (tripleP P a b)).
Proof. by rewrite /marker /mxtrace raddf_sum. Qed.

Lemma mxtrace_adj M : \tr (adjmx M) = (\tr M)^*.
Proof. by rewrite /mxtrace rmorph_sum; apply: eq_bigr => i _; rewrite adjmxE. Qed.

(* P P = c P with c real: covers projectors (c = 1) and integer-numerator matrices D * P (c = D) *)
Lemma marker_sum_zero_scaled (c : C) P a b : hermitian P -> c \is Num.real -> P *m P = c *: P ->
  realv a -> realv b -> \sum_i marker P a b i = 0.
Proof.
move=> hP rc iP ra rb; rewrite marker_sum.
have trE : \tr (tripleP P a b) = c * \tr (P *m diag_mx a *m P *m diag_mx b).
  by rewrite /tripleP mxtrace_mulC !mulmxA iP -!scalemxAl mxtraceZ.
rewrite trE.
set T := P *m diag_mx a *m P *m diag_mx b.
have : (\tr T)^* = \tr T.
  rewrite -mxtrace_adj /T !adjmxM hP !adjmx_diag //.
  by rewrite mxtrace_mulC !mulmxA.
move/CrealP=> rT; apply/Creal_ImP; exact: realM.
Qed.

Lemma marker_sum_zero P a b : hermitian P -> idempotent P -> realv a -> realv b ->
  \sum_i marker P a b i = 0.
Proof.
move=> hP iP; apply: (@marker_sum_zero_scaled 1) => //; first exact: real1.
by rewrite scale1r.
Qed.

(* ---------- relabelling the sites by a permutation s (new site i = old site s i;
   lattice.py permute_vertices: new positions[i] = positions[ordering[i]]) ---------- *)
Definition relab s M : 'M[C]_n := \matrix_(i, j) M (s i) (s j).
Definition relabv s a : 'rV[C]_n := \row_j a 0 (s j).

Lemma relab_perm_mx s M : relab s M = perm_mx s *m M *m (perm_mx s)^T.
Proof.
rewrite tr_perm_mx -row_permE -col_permE.
by apply/matrixP=> i j; rewrite !mxE.
Qed.

Lemma relabM s M N : relab s (M *m N) = relab s M *m relab s N.
Proof.
apply/matrixP=> i j; rewrite !mxE (reindex_inj (@perm_inj _ s)) /=.
by apply: eq_bigr => k _; rewrite !mxE.
Qed.

Lemma relab_diag s a : relab s (diag_mx a) = diag_mx (relabv s a).
Proof. by apply/matrixP=> i j; rewrite !mxE (inj_eq perm_inj). Qed.

Lemma relab_triple s P a b :
  tripleP (relab s P) (relabv s a) (relabv s b) = relab s (tripleP P a b).
Proof. by rewrite /tripleP !relabM !relab_diag. Qed.

Lemma marker_relabel s P a b i :
  marker (relab s P) (relabv s a) (relabv s b) i = marker P a b (s i).
Proof. by rewrite /marker relab_triple mxE. Qed.

(* ---------- site-wise sign (gauge) change: P -> D P D, D = diag d, d_i d_i = 1 ---------- *)
Definition gaugeP d P : 'M[C]_n := diag_mx d *m P *m diag_mx d.
Definition signv d := forall j, d 0 j * d 0 j = 1.

Lemma diag_sq d : signv d -> diag_mx d *m diag_mx d = 1%:M.
Proof.
move=> sd; rewrite mulmx_diag -diag_const_mx; congr diag_mx.
by apply/rowP=> j; rewrite !mxE sd.
Qed.

Lemma gauge_sandwich d a : signv d -> diag_mx d *m diag_mx a *m diag_mx d = diag_mx a.
Proof. by move=> sd; rewrite -mulmxA (diag_mxC a) mulmxA diag_sq // mul1mx. Qed.

Lemma gauge_triple d P a b : signv d ->
  tripleP (gaugeP d P) a b = gaugeP d (tripleP P a b).
Proof.
move=> sd; rewrite /tripleP /gaugeP.
set D := diag_mx d.
have e1 X Y (A := diag_mx a) : X *m D *m A *m D *m Y = X *m A *m Y.
  by rewrite -(mulmxA X D) -(mulmxA X _ D) gauge_sandwich.
have e2 X Y (B := diag_mx b) : X *m D *m B *m D *m Y = X *m B *m Y.
  by rewrite -(mulmxA X D) -(mulmxA X _ D) gauge_sandwich.
by rewrite !mulmxA e1 e2.
Qed.

Lemma marker_gauge d P a b i : signv d -> marker (gaugeP d P) a b i = marker P a b i.
Proof.
move=> sd; rewrite /marker gauge_triple // /gaugeP mul_mx_diag mxE mul_diag_mx mxE.
by rewrite mulrAC sd mul1r.
Qed.

(* the gauge change preserves the hypotheses (so the statement is about projectors) *)
Lemma gauge_hermitian d P : realv d -> hermitian P -> hermitian (gaugeP d P).
Proof.
by move=> rd hP; rewrite /hermitian /gaugeP !adjmxM hP adjmx_diag // mulmxA.
Qed.

Lemma gauge_idempotent d P : signv d -> idempotent P -> idempotent (gaugeP d P).
Proof.
move=> sd iP; rewrite /idempotent /gaugeP.
by rewrite !mulmxA -(mulmxA _ (diag_mx d) (diag_mx d)) diag_sq // mulmx1 -(mulmxA _ P P) iP.
Qed.

Lemma relab_hermitian s P : hermitian P -> hermitian (relab s P).
Proof.
move=> hP; apply/matrixP=> i j; rewrite adjmxE !mxE.
by rewrite -[in RHS]hP adjmxE.
Qed.

Lemma relab_idempotent s P : idempotent P -> idempotent (relab s P).
Proof. by move=> iP; rewrite /idempotent -relabM iP. Qed.

(* ---------- the two markers of chern_number.py ---------- *)
Implicit Types (x y : 'rV[C]_n) (X Y : C).
(* step function of crosshair_marker: 1 * (positions < X), STRICT *)
Definition stepv (x : 'rV[C]_n) (X : C) : 'rV[C]_n := \row_j ((x 0 j < X)%R%:R).
Definition crosshair P (x y : 'rV[C]_n) (X Y : C) i := marker P (stepv x X) (stepv y Y) i.
Definition chern P (x y : 'rV[C]_n) i := marker P x y i.

Lemma stepv_real x X : realv (stepv x X).
Proof. by move=> j; rewrite mxE; case: (_ < _); rewrite ?real1 ?real0. Qed.

Lemma stepv_on_vertex x X j : x 0 j = X -> stepv x X 0 j = 0.
Proof. by move=> <-; rewrite mxE ltxx. Qed.

Lemma stepv_below x X j : (x 0 j < X)%R -> stepv x X 0 j = 1.
Proof. by move=> h; rewrite mxE h. Qed.

Lemma stepv_relab s x X : stepv (relabv s x) X = relabv s (stepv x X).
Proof. by apply/rowP=> j; rewrite !mxE. Qed.


(* ---------- homogeneity: how the harness' common denominators enter
   (P = Pz / D, positions x = xs / S:  marker P x y = marker Pz xs ys / (D^3 S^2)) ---------- *)
Lemma marker_scaleP (c : C) P a b i : c \is Num.real ->
  marker (c *: P) a b i = c ^+ 3 * marker P a b i.
Proof.
move=> rc; rewrite /marker /tripleP.
do 4![rewrite -?scalemxAl -?scalemxAr]; rewrite !scalerA mxE ImMl ?rpredM //.
Qed.

Lemma marker_scale_ab (s t : C) P a b i : s \is Num.real -> t \is Num.real ->
  marker P (s *: a) (t *: b) i = s * t * marker P a b i.
Proof.
move=> rs rt; rewrite /marker /tripleP !linearZ /=.
do 4![rewrite -?scalemxAl -?scalemxAr]; rewrite !scalerA mxE ImMl ?rpredM //.
by rewrite (mulrC t).
Qed.

Lemma scaled_projector (c : C) P : c != 0 -> c \is Num.real -> hermitian P -> P *m P = c *: P ->
  hermitian (c^-1 *: P) /\ idempotent (c^-1 *: P).
Proof.
move=> c0 rc hP iP; have rci : c^-1 \is Num.real by rewrite rpredV.
split.
  apply/matrixP=> i j; rewrite adjmxE !mxE rmorphM -[in RHS]hP adjmxE.
  by rewrite (CrealP rci).
by rewrite /idempotent -scalemxAl -scalemxAr iP !scalerA mulfVK.
Qed.

(* ---------- the property's clauses for the two markers ---------- *)
Lemma crosshair_real P x y X Y i : crosshair P x y X Y i \is Num.real.
Proof. exact: marker_real. Qed.
Lemma chern_real P x y i : chern P x y i \is Num.real.
Proof. exact: marker_real. Qed.

Lemma crosshair_sum_zero P x y X Y : hermitian P -> idempotent P ->
  \sum_i crosshair P x y X Y i = 0.
Proof. by move=> hP iP; apply: marker_sum_zero => //; apply: stepv_real. Qed.
Lemma chern_sum_zero P x y : hermitian P -> idempotent P -> realv x -> realv y ->
  \sum_i chern P x y i = 0.
Proof. exact: marker_sum_zero. Qed.

(* exchanging the x and y coordinates (of the sites and of the crosshair) flips the sign *)
Lemma crosshair_swap P x y X Y i : hermitian P ->
  crosshair P y x Y X i = - crosshair P x y X Y i.
Proof. by move=> hP; apply: marker_swap => //; apply: stepv_real. Qed.
Lemma chern_swap P x y i : hermitian P -> realv x -> realv y ->
  chern P y x i = - chern P x y i.
Proof. by move=> hP rx ry; apply: marker_swap. Qed.

(* the markers follow the sites under relabelling *)
Lemma crosshair_relabel s P x y X Y i :
  crosshair (relab s P) (relabv s x) (relabv s y) X Y i = crosshair P x y X Y (s i).
Proof. by rewrite /crosshair !stepv_relab marker_relabel. Qed.
Lemma chern_relabel s P x y i :
  chern (relab s P) (relabv s x) (relabv s y) i = chern P x y (s i).
Proof. exact: marker_relabel. Qed.

(* site-wise sign changes of the states spanning P *)
Lemma crosshair_gauge d P x y X Y i : signv d ->
  crosshair (gaugeP d P) x y X Y i = crosshair P x y X Y i.
Proof. exact: marker_gauge. Qed.
Lemma chern_gauge d P x y i : signv d -> chern (gaugeP d P) x y i = chern P x y i.
Proof. exact: marker_gauge. Qed.

(* strictness: a site exactly on the crosshair line does not contribute through theta_x:
   moving only that site's x coordinate to anything >= X leaves the marker unchanged, while a
   `<=` comparison would give theta = 1 there *)
Lemma stepv_above x X j : (X <= x 0 j)%R -> stepv x X 0 j = 0.
Proof. by move=> h; rewrite mxE (le_gtF h). Qed.

End Marker.
