(* Proofs/ClipAnyFacts.v — what holds of the clippers of Model/Clip.v for ARBITRARY vertex lists
   (non-convex, self-intersecting, repeated vertices): no convexity hypothesis anywhere.

     clip_polygon_in_cell    every vertex of clip_polygon P lies in the closed unit cell
     clip_polygon_Forall     ... and in every convex set that contains the vertices of P
     sh_clip1_on_boundary    every vertex of a clipped polygon is a vertex of P or a point of a
                             (closed) edge of P
     clip_polygon_in_block   pieces of a polygon of the 3x3 block stay in the block
   the general clipper (gsh_*, used by the spec checker for "no two drawn polygons overlap"):
     gsh_clip1_inside        every output vertex is on the kept side of the clip line
     gsh_clip1_Forall        seg_closed invariants survive
     gsh_edges_in_clipper    the overlap piece lies on the left of every edge of the clip polygon
     overlap_piece_in_cell   the overlap piece clipped to the cell lies in the cell
   (area additivity for every polygon is PolyAreaFacts.clip_area_add; the nine-cell identity is
   PolyCellFacts.nine_cells_area; both need no convexity either.) *)
From Coq Require Import List ZArith QArith Bool Qminmax Lqa Lia.
From Koala Require Import Model.Clip Model.Plot Proofs.ClipFacts Proofs.PolyAreaFacts Proofs.PolyCellFacts Proofs.PolyRegionFacts.
Import ListNotations.
Open Scope Q_scope.

(* ---------- the cell ---------- *)
Theorem clip_polygon_Forall (C : point -> Prop) (P : polygon) :
  seg_closed C -> Forall C P -> Forall C (clip_polygon P).
Proof.
  intros HC H. unfold clip_polygon. repeat apply sh_clip1_Forall; assumption.
Qed.

Theorem clip_polygon_in_cell (P : polygon) : Forall in_unit_square (clip_polygon P).
Proof.
  unfold clip_polygon.
  set (P1 := sh_clip1 true 0 true P).
  set (P2 := sh_clip1 true 1 false P1).
  set (P3 := sh_clip1 false 0 true P2).
  set (P4 := sh_clip1 false 1 false P3).
  (* x >= 0 from the first clip on *)
  assert (A1 : Forall (fun p => 0 <= coord true p) P1).
  { eapply Forall_impl'; [|apply (sh_clip1_inside true 0 true P)]. intros a Ha. apply hp_in_ge. exact Ha. }
  assert (A2 : Forall (fun p => 0 <= coord true p) P2) by (apply sh_clip1_Forall; [apply seg_closed_ge|exact A1]).
  assert (A3 : Forall (fun p => 0 <= coord true p) P3) by (apply sh_clip1_Forall; [apply seg_closed_ge|exact A2]).
  assert (A4 : Forall (fun p => 0 <= coord true p) P4) by (apply sh_clip1_Forall; [apply seg_closed_ge|exact A3]).
  assert (B2 : Forall (fun p => coord true p <= 1) P2).
  { eapply Forall_impl'; [|apply (sh_clip1_inside true 1 false P1)]. intros a Ha. apply hp_in_le. exact Ha. }
  assert (B3 : Forall (fun p => coord true p <= 1) P3) by (apply sh_clip1_Forall; [apply seg_closed_le|exact B2]).
  assert (B4 : Forall (fun p => coord true p <= 1) P4) by (apply sh_clip1_Forall; [apply seg_closed_le|exact B3]).
  assert (C3 : Forall (fun p => 0 <= coord false p) P3).
  { eapply Forall_impl'; [|apply (sh_clip1_inside false 0 true P2)]. intros a Ha. apply hp_in_ge. exact Ha. }
  assert (C4 : Forall (fun p => 0 <= coord false p) P4) by (apply sh_clip1_Forall; [apply seg_closed_ge|exact C3]).
  assert (D4 : Forall (fun p => coord false p <= 1) P4).
  { eapply Forall_impl'; [|apply (sh_clip1_inside false 1 false P3)]. intros a Ha. apply hp_in_le. exact Ha. }
  rewrite Forall_forall in *. intros w Hw. unfold in_unit_square.
  pose proof (A4 w Hw). pose proof (B4 w Hw). pose proof (C4 w Hw). pose proof (D4 w Hw).
  unfold coord in *. tauto.
Qed.

(* a polygon of the 3x3 block: every piece stays in the block (so do its translates' pieces) *)
Theorem clip_polygon_in_block (P : polygon) : in_block P -> in_block (clip_polygon P).
Proof.
  intro H. unfold in_block in *. rewrite Forall_forall. intros w Hw.
  pose proof (clip_polygon_in_cell P) as K. rewrite Forall_forall in K. specialize (K w Hw).
  unfold in_unit_square in K. lra.
Qed.

(* ---------- vertices of the clipped polygon lie on the boundary of P ---------- *)
Definition on_edge_of (E : list (point * point)) (w : point) : Prop :=
  exists a b t, In (a, b) E /\ 0 <= t /\ t <= 1 /\
    px w == px a + t * (px b - px a) /\ py w == py a + t * (py b - py a).

Lemma sh_step_on_boundary (x : bool) (v : Q) (ge : bool) (l : list point) : forall prev,
  Forall (fun w => In w l \/ on_edge_of (edges_from prev l) w) (sh_step x v ge prev l).
Proof.
  induction l as [|c r IH]; intro prev; [constructor|].
  cbn [sh_step]. apply Forall_app. split.
  - assert (I : hp_inside x v ge prev <> hp_inside x v ge c ->
                on_edge_of (edges_from prev (c :: r)) (hp_intersect x v prev c)).
    { intro M. destruct (hp_mixed x v ge prev c M) as (t & T0 & T1 & Hx & Hy & _).
      exists prev, c, t. cbn [edges_from In]. repeat split; auto. }
    destruct (hp_inside x v ge c) eqn:Ec; destruct (hp_inside x v ge prev) eqn:Ep; fa;
      try (left; left; reflexivity); right; apply I; congruence.
  - eapply Forall_impl'; [|apply (IH c)]. intros w [Hw|(a & b & t & Hin & Ht)].
    + left. right. exact Hw.
    + right. exists a, b, t. split; [cbn [edges_from In]; right; exact Hin|exact Ht].
Qed.

Theorem sh_clip1_on_boundary (x : bool) (v : Q) (ge : bool) (P : polygon) :
  Forall (fun w => In w P \/ on_edge_of (edges P) w) (sh_clip1 x v ge P).
Proof.
  destruct P as [|p r]; [constructor|]. unfold sh_clip1, edges. apply sh_step_on_boundary.
Qed.

(* ---------- the general clipper: line through a and b, any subject polygon ---------- *)
Definition insP (ccw : bool) (a b p : point) : Prop :=
  if ccw then 0 <= side a b p else side a b p <= 0.
Definition insb (ccw : bool) (a b p : point) : bool :=
  if ccw then Qleb 0 (side a b p) else Qleb (side a b p) 0.

Lemma insb_iff (ccw : bool) (a b p : point) : insb ccw a b p = true <-> insP ccw a b p.
Proof. unfold insb, insP. destruct ccw; apply Qleb_iff. Qed.

Lemma gsh_step_unfold (ccw : bool) (a b prev cur : point) (r : list point) :
  gsh_step ccw a b prev (cur :: r) =
  (if insb ccw a b cur
   then (if insb ccw a b prev then [cur] else [gen_intersect a b prev cur; cur])
   else (if insb ccw a b prev then [gen_intersect a b prev cur] else []))
  ++ gsh_step ccw a b cur r.
Proof. unfold insb. destruct ccw; reflexivity. Qed.

(* one end point kept, the other not: the intersection is a point of the segment, on the line *)
Lemma gen_mixed (ccw : bool) (a b p q : point) :
  insb ccw a b p <> insb ccw a b q ->
  exists t, 0 <= t /\ t <= 1 /\
    px (gen_intersect a b p q) == px p + t * (px q - px p) /\
    py (gen_intersect a b p q) == py p + t * (py q - py p) /\
    side a b (gen_intersect a b p q) == 0.
Proof.
  intro M. set (sp := side a b p). set (sq := side a b q).
  assert (Hc : (0 < sp - sq /\ 0 <= sp /\ sp <= sp - sq) \/ (sp - sq < 0 /\ sp - sq <= sp /\ sp <= 0)).
  { unfold insb in M. fold sp sq in M.
    destruct ccw.
    - destruct (Qleb 0 sp) eqn:Ep; destruct (Qleb 0 sq) eqn:Eq; try congruence.
      + apply Qleb_iff in Ep. assert (~ 0 <= sq) by (intro K; apply Qleb_iff in K; congruence). left. lra.
      + apply Qleb_iff in Eq. assert (~ 0 <= sp) by (intro K; apply Qleb_iff in K; congruence). right. lra.
    - destruct (Qleb sp 0) eqn:Ep; destruct (Qleb sq 0) eqn:Eq; try congruence.
      + apply Qleb_iff in Ep. assert (~ sq <= 0) by (intro K; apply Qleb_iff in K; congruence). right. lra.
      + apply Qleb_iff in Eq. assert (~ sp <= 0) by (intro K; apply Qleb_iff in K; congruence). left. lra. }
  assert (Hd : ~ sp - sq == 0) by lra.
  destruct (frac_bounds _ _ Hc) as [T0 T1].
  set (t := sp / (sp - sq)) in *.
  assert (Ex : px (gen_intersect a b p q) == px p + t * (px q - px p))
    by (unfold gen_intersect, px at 1; cbn [fst]; apply Qred_correct).
  assert (Ey : py (gen_intersect a b p q) == py p + t * (py q - py p))
    by (unfold gen_intersect, py at 1; cbn [snd]; apply Qred_correct).
  exists t. repeat split; try assumption.
  rewrite (side_affine a b p q _ t Ex Ey). fold sp sq.
  pose proof (div_mul_cancel sp (sp - sq) Hd) as E. fold t in E. nra.
Qed.

Lemma insP_seg_closed (ccw : bool) (a b : point) : seg_closed (insP ccw a b).
Proof.
  intros p q I t Hp Hq T0 T1 Hx Hy. unfold insP in *.
  pose proof (side_affine a b p q I t Hx Hy) as E.
  destruct ccw.
  - assert (0 <= (1 - t) * side a b p) by (apply Qmult_le_0_compat; lra).
    assert (0 <= t * side a b q) by (apply Qmult_le_0_compat; lra). lra.
  - assert (0 <= (1 - t) * - side a b p) by (apply Qmult_le_0_compat; lra).
    assert (0 <= t * - side a b q) by (apply Qmult_le_0_compat; lra). lra.
Qed.

Lemma seg_closed_and (C D : point -> Prop) : seg_closed C -> seg_closed D -> seg_closed (fun p => C p /\ D p).
Proof.
  intros HC HD p q I t [Cp Dp] [Cq Dq] T0 T1 Hx Hy. split; [exact (HC p q I t Cp Cq T0 T1 Hx Hy)|exact (HD p q I t Dp Dq T0 T1 Hx Hy)].
Qed.

Lemma gsh_step_inside (ccw : bool) (a b : point) (l : list point) : forall prev,
  Forall (insP ccw a b) (gsh_step ccw a b prev l).
Proof.
  induction l as [|c r IH]; intro prev; [constructor|].
  rewrite gsh_step_unfold. apply Forall_app. split; [|apply IH].
  assert (I : insb ccw a b prev <> insb ccw a b c -> insP ccw a b (gen_intersect a b prev c)).
  { intro M. destruct (gen_mixed ccw a b prev c M) as (t & _ & _ & _ & _ & Z). unfold insP. destruct ccw; lra. }
  destruct (insb ccw a b c) eqn:Ec; destruct (insb ccw a b prev) eqn:Ep; fa;
    try (apply insb_iff; exact Ec); apply I; congruence.
Qed.
Theorem gsh_clip1_inside (ccw : bool) (a b : point) (S : polygon) :
  Forall (insP ccw a b) (gsh_clip1 ccw a b S).
Proof. destruct S; [constructor|]. apply gsh_step_inside. Qed.

Lemma gsh_step_Forall (C : point -> Prop) (ccw : bool) (a b : point) : seg_closed C ->
  forall (l : list point) (prev : point), C prev -> Forall C l -> Forall C (gsh_step ccw a b prev l).
Proof.
  intros HC. induction l as [|c r IH]; intros prev Hp Hl; [constructor|].
  inversion Hl as [|? ? Hc Hr]; subst. rewrite gsh_step_unfold. apply Forall_app. split; [|apply IH; assumption].
  destruct (insb ccw a b c) eqn:Ec; destruct (insb ccw a b prev) eqn:Ep; fa; try assumption;
    (assert (M : insb ccw a b prev <> insb ccw a b c) by congruence;
     destruct (gen_mixed ccw a b prev c M) as (t & T0 & T1 & Hx & Hy & _);
     exact (HC prev c _ t Hp Hc T0 T1 Hx Hy)).
Qed.
Theorem gsh_clip1_Forall (C : point -> Prop) (ccw : bool) (a b : point) (S : polygon) :
  seg_closed C -> Forall C S -> Forall C (gsh_clip1 ccw a b S).
Proof.
  intros HC H. destruct S as [|p r]; [constructor|]. unfold gsh_clip1. apply gsh_step_Forall; try assumption.
  rewrite last_cons_default. inversion H; subst. apply last_Forall; assumption.
Qed.

(* all the clip lines of gsh_edges: (prev,c1), (c1,c2), ..., (last, first) *)
Lemma gsh_edges_spec (ccw : bool) (first : point) (l : list point) : forall (prev : point) (S : polygon) (C : point -> Prop),
  seg_closed C -> Forall C S ->
  Forall (fun w => C w /\ forall e, In e (edges_from prev l ++ [(last l prev, first)]) -> insP ccw (fst e) (snd e) w)
         (gsh_edges ccw first prev l S).
Proof.
  induction l as [|cur r IH]; intros prev S C HC HS.
  - cbn [gsh_edges edges_from last app].
    pose proof (gsh_clip1_Forall C ccw prev first S HC HS) as F1.
    pose proof (gsh_clip1_inside ccw prev first S) as F2.
    rewrite Forall_forall in *. intros w Hw. split; [apply F1; exact Hw|].
    intros e [<-|[]]. cbn [fst snd]. apply F2. exact Hw.
  - cbn [gsh_edges].
    set (S' := gsh_clip1 ccw prev cur S).
    assert (HS' : Forall (fun w => C w /\ insP ccw prev cur w) S').
    { pose proof (gsh_clip1_Forall C ccw prev cur S HC HS) as F1.
      pose proof (gsh_clip1_inside ccw prev cur S) as F2.
      rewrite Forall_forall in *. intros w Hw. split; [apply F1|apply F2]; exact Hw. }
    pose proof (IH cur S' _ (seg_closed_and _ _ HC (insP_seg_closed ccw prev cur)) HS') as K.
    eapply Forall_impl'; [|exact K]. intros w [[Cw Iw] Hall]. split; [exact Cw|].
    intros e He. cbn [edges_from app In] in He. destruct He as [<-|He]; [exact Iw|].
    apply Hall. rewrite last_cons_default in He. exact He.
Qed.

(* the overlap piece S /\ c computed by the spec checker lies on the left of every edge of the
   clip polygon c = p :: r (ccw = true: c anticlockwise) — for ANY subject S and any c *)
Theorem gsh_edges_in_clipper (p : point) (r : list point) (S : polygon) :
  Forall (in_poly (p :: r)) (gsh_edges true p p r S).
Proof.
  pose proof (gsh_edges_spec true p r p S (fun _ => True)) as K.
  eapply Forall_impl'; [|apply K].
  - intros w [_ Hall] e He. unfold left_of. unfold edges in He. rewrite last_cons_default in He.
    cbn [edges_from In] in He. apply (Hall e). apply in_or_app. destruct He as [<-|He]; [right; left; reflexivity|left; exact He].
  - intros ? ? ? ? ? ? ? ? ? ?. exact Logic.I.
  - rewrite Forall_forall. intros; exact Logic.I.
Qed.
(* ... and on the right of every edge for a clockwise c *)
Theorem gsh_edges_in_clipper_cw (p : point) (r : list point) (S : polygon) :
  Forall (fun w => forall e, In e (edges (p :: r)) -> side (fst e) (snd e) w <= 0) (gsh_edges false p p r S).
Proof.
  pose proof (gsh_edges_spec false p r p S (fun _ => True)) as K.
  eapply Forall_impl'; [|apply K].
  - intros w [_ Hall] e He. unfold edges in He. rewrite last_cons_default in He.
    cbn [edges_from In] in He. apply (Hall e). apply in_or_app. destruct He as [<-|He]; [right; left; reflexivity|left; exact He].
  - intros ? ? ? ? ? ? ? ? ? ?. exact Logic.I.
  - rewrite Forall_forall. intros; exact Logic.I.
Qed.

(* what overlap_area2_in_cell measures is a polygon inside the closed unit cell *)
Theorem overlap_piece_in_cell (S : polygon) (ccw : bool) (p : point) (r : list point) :
  Forall in_unit_square (clip_polygon (gsh_edges ccw p p r S)).
Proof. apply clip_polygon_in_cell. Qed.

(* and, for an anticlockwise clip polygon, inside that polygon too (the cell clips keep it there) *)
Theorem overlap_piece_in_clipper (S : polygon) (p : point) (r : list point) :
  Forall (in_poly (p :: r)) (clip_polygon (gsh_edges true p p r S)).
Proof. apply clip_polygon_Forall; [apply in_poly_seg_closed|apply gsh_edges_in_clipper]. Qed.
