(* Proofs/PlaqCoverFacts.v — the replication rule of plot_plaquettes (Model/Plot.v) against the
   clipped areas: the polygons drawn for a plaquette carry all of its area.

   pts is the unwrapped vertex list of the plaquette (plaq_points).  Hypotheses throughout:
   generic position (no vertex on one of the four cell lines: off_line), one vertex of pts in the
   unit cell (plot_plaquettes ends the unwrapped walk at positions[p.vertices[0]], a stored
   position in [0,1)^2), and pts inside the 3x3 block [-1,2]^2 (the rule never draws a translate
   by 2).  No convexity is needed for these statements: area2 is the signed shoelace area and
   clipped_area2 = area2 o clip_polygon is the quantity the spec checker sums. *)
From Coq Require Import List ZArith QArith Bool Qminmax Lqa Lia.
From Koala Require Import Model.Clip Model.Plot Proofs.ClipFacts Proofs.PlaqFacts Proofs.PolyAreaFacts Proofs.PolyCellFacts Proofs.PolyRegionFacts.
Import ListNotations.
Open Scope Q_scope.

Definition in_cell (p : point) : Prop := 0 <= px p /\ px p < 1 /\ 0 <= py p /\ py p < 1.
Definition has_cell_vertex (pts : polygon) : Prop := exists v0, In v0 pts /\ in_cell v0.

Lemma in_cell_coord (x : bool) (p : point) : in_cell p -> 0 <= coord x p /\ coord x p < 1.
Proof. intros (H1 & H2 & H3 & H4). destruct x; unfold coord; split; assumption. Qed.

(* no side crosses the line  =>  all vertices strictly on one side of it *)
Lemma one_sided (pts : polygon) (x : bool) (l : Q) :
  off_line pts x l -> any_crosses l x (poly_lines pts) = false ->
  Forall (fun p => l < coord x p) pts \/ Forall (fun p => coord x p < l) pts.
Proof.
  intros Hoff Hc.
  assert (D1 : forall p : point, {l < coord x p} + {~ l < coord x p}).
  { intro p. destruct (Qlt_le_dec l (coord x p)); [left; assumption|right; lra]. }
  assert (D2 : forall p : point, {coord x p < l} + {~ coord x p < l}).
  { intro p. destruct (Qlt_le_dec (coord x p) l); [left; assumption|right; lra]. }
  destruct (Forall_Exists_dec _ D1 pts) as [F1|E1]; [left; exact F1|].
  destruct (Forall_Exists_dec _ D2 pts) as [F2|E2]; [right; exact F2|].
  exfalso. apply Exists_exists in E1. destruct E1 as (w & Hw & Nw).
  apply Exists_exists in E2. destruct E2 as (u & Hu & Nu).
  pose proof (Hoff w Hw) as Ow. pose proof (Hoff u Hu) as Ou.
  assert (S : straddles pts x l).
  { split; [exists u|exists w]; (split; [assumption|]); lra. }
  rewrite (straddles_crosses pts x l Hoff S) in Hc. discriminate.
Qed.

Lemma no_cross_0 (pts : polygon) (x : bool) :
  has_cell_vertex pts -> off_line pts x 0 -> any_crosses 0 x (poly_lines pts) = false ->
  Forall (fun p => 0 < coord x p) pts.
Proof.
  intros (v0 & Hv & Hc) Hoff Hn. destruct (one_sided pts x 0 Hoff Hn) as [F|F]; [exact F|].
  exfalso. rewrite Forall_forall in F. pose proof (F v0 Hv). pose proof (in_cell_coord x v0 Hc). lra.
Qed.
Lemma no_cross_1 (pts : polygon) (x : bool) :
  has_cell_vertex pts -> off_line pts x 1 -> any_crosses 1 x (poly_lines pts) = false ->
  Forall (fun p => coord x p < 1) pts.
Proof.
  intros (v0 & Hv & Hc) Hoff Hn. destruct (one_sided pts x 1 Hoff Hn) as [F|F]; [|exact F].
  exfalso. rewrite Forall_forall in F. pose proof (F v0 Hv). pose proof (in_cell_coord x v0 Hc). lra.
Qed.

Lemma Forall_ptranslate (C D : point -> Prop) (pts : polygon) (d : point) :
  (forall p, C p -> D (padd p d)) -> Forall C pts -> Forall D (ptranslate pts d).
Proof.
  intros H F. unfold ptranslate. induction F; cbn [map]; constructor; [apply H; assumption|assumption].
Qed.

Definition carea (pts : polygon) (dx dy : Z) : Q := clipped_area2 (ptranslate pts (zpoint (dx, dy))).

(* the translates the rule does not draw have no area inside the cell *)
Lemma undrawn_x_plus (pts : polygon) (dy : Z) : has_cell_vertex pts -> off_line pts true 0 ->
  any_crosses 0 true (poly_lines pts) = false -> carea pts 1 dy == 0.
Proof.
  intros Hv Hoff Hn. apply clipped_zero_x_hi.
  apply (Forall_ptranslate (fun p => 0 < coord true p)); [|apply no_cross_0; assumption].
  intros p Hp. unfold coord, padd, zpoint, px, py in *. cbn [fst snd]. change (inject_Z 1) with 1. lra.
Qed.
Lemma undrawn_x_minus (pts : polygon) (dy : Z) : has_cell_vertex pts -> off_line pts true 1 ->
  any_crosses 1 true (poly_lines pts) = false -> carea pts (-1) dy == 0.
Proof.
  intros Hv Hoff Hn. apply clipped_zero_x_lo.
  apply (Forall_ptranslate (fun p => coord true p < 1)); [|apply no_cross_1; assumption].
  intros p Hp. unfold coord, padd, zpoint, px, py in *. cbn [fst snd]. change (inject_Z (-1)) with (-(1)). lra.
Qed.
Lemma undrawn_y_plus (pts : polygon) (dx : Z) : has_cell_vertex pts -> off_line pts false 0 ->
  any_crosses 0 false (poly_lines pts) = false -> carea pts dx 1 == 0.
Proof.
  intros Hv Hoff Hn. apply clipped_zero_y_hi.
  apply (Forall_ptranslate (fun p => 0 < coord false p)); [|apply no_cross_0; assumption].
  intros p Hp. unfold coord, padd, zpoint, px, py in *. cbn [fst snd]. change (inject_Z 1) with 1. lra.
Qed.
Lemma undrawn_y_minus (pts : polygon) (dx : Z) : has_cell_vertex pts -> off_line pts false 1 ->
  any_crosses 1 false (poly_lines pts) = false -> carea pts dx (-1) == 0.
Proof.
  intros Hv Hoff Hn. apply clipped_zero_y_lo.
  apply (Forall_ptranslate (fun p => coord false p < 1)); [|apply no_cross_1; assumption].
  intros p Hp. unfold coord, padd, zpoint, px, py in *. cbn [fst snd]. change (inject_Z (-1)) with (-(1)). lra.
Qed.

(* THE DRAWN PIECES CARRY ALL OF THE AREA *)
Theorem plaquette_drawn_area (pts : polygon) :
  off_line pts true 0 -> off_line pts true 1 -> off_line pts false 0 -> off_line pts false 1 ->
  has_cell_vertex pts -> in_block pts ->
  fold_right Qplus 0 (map clipped_area2
     (replicate_polygon pts (pads (poly_lines pts) true) (pads (poly_lines pts) false))) == area2 pts.
Proof.
  intros Hx0 Hx1 Hy0 Hy1 Hv HB.
  pose proof (nine_cells_area pts HB) as E9. unfold nine in E9. cbn [map fold_right] in E9.
  pose proof (fun dy => undrawn_x_plus pts dy Hv Hx0) as Zxp.
  pose proof (fun dy => undrawn_x_minus pts dy Hv Hx1) as Zxm.
  pose proof (fun dx => undrawn_y_plus pts dx Hv Hy0) as Zyp.
  pose proof (fun dx => undrawn_y_minus pts dx Hv Hy1) as Zym.
  unfold carea in *. unfold pads, replicate_polygon.
  destruct (any_crosses 1 true (poly_lines pts)); destruct (any_crosses 0 true (poly_lines pts));
  destruct (any_crosses 1 false (poly_lines pts)); destruct (any_crosses 0 false (poly_lines pts));
  cbn [app flat_map map fold_right];
  repeat match goal with
  | H : true = false -> _ |- _ => clear H
  | H : forall d : Z, false = false -> _ |- _ =>
      pose proof (H (-1)%Z eq_refl); pose proof (H 0%Z eq_refl); pose proof (H 1%Z eq_refl); clear H
  | H : forall d : Z, true = false -> _ |- _ => clear H
  end; lra.
Qed.

(* ---------- which translates: a translate with non-zero clipped area is drawn ---------- *)
Lemma needs_shift_of_area (pts : polygon) (x : bool) (d : Z) :
  has_cell_vertex pts -> off_line pts x 0 -> off_line pts x 1 ->
  (d = (-1)%Z \/ d = 0%Z \/ d = 1%Z) ->
  (d = 1%Z -> ~ Forall (fun p => 0 < coord x p) pts) ->
  (d = (-1)%Z -> ~ Forall (fun p => coord x p < 1) pts) ->
  needs_shift pts x d.
Proof.
  intros (v0 & Hv & Hc) H0 H1 Hd Hp Hm. pose proof (in_cell_coord x v0 Hc) as [C0 C1].
  pose proof (H0 v0 Hv) as O0.
  destruct Hd as [ -> | [ -> | -> ] ].
  - right; right. split; [reflexivity|]. split.
    + assert (D : forall p : point, {coord x p < 1} + {~ coord x p < 1}).
      { intro p. destruct (Qlt_le_dec (coord x p) 1); [left; assumption|right; lra]. }
      destruct (Forall_Exists_dec _ D pts) as [F|E]; [exfalso; exact (Hm eq_refl F)|].
      apply Exists_exists in E. destruct E as (u & Hu & Nu). exists u. split; [exact Hu|].
      pose proof (H1 u Hu). lra.
    + exists v0. split; [exact Hv|exact C1].
  - left. reflexivity.
  - right; left. split; [reflexivity|]. split.
    + exists v0. split; [exact Hv|lra].
    + assert (D : forall p : point, {0 < coord x p} + {~ 0 < coord x p}).
      { intro p. destruct (Qlt_le_dec 0 (coord x p)); [left; assumption|right; lra]. }
      destruct (Forall_Exists_dec _ D pts) as [F|E]; [exfalso; exact (Hp eq_refl F)|].
      apply Exists_exists in E. destruct E as (w & Hw & Nw). exists w. split; [exact Hw|].
      pose proof (H0 w Hw). lra.
Qed.

Theorem plaquette_cover_translates (pts : polygon) (dx dy : Z) :
  off_line pts true 0 -> off_line pts true 1 -> off_line pts false 0 -> off_line pts false 1 ->
  has_cell_vertex pts ->
  (dx = (-1)%Z \/ dx = 0%Z \/ dx = 1%Z) -> (dy = (-1)%Z \/ dy = 0%Z \/ dy = 1%Z) ->
  ~ clipped_area2 (ptranslate pts (zpoint (dx, dy))) == 0 ->
  In (ptranslate pts (zpoint (dx, dy)))
     (replicate_polygon pts (pads (poly_lines pts) true) (pads (poly_lines pts) false)).
Proof.
  intros Hx0 Hx1 Hy0 Hy1 Hv Dx Dy Hpos.
  apply plaquette_translates_drawn_partial; try assumption.
  - apply needs_shift_of_area; try assumption.
    + intros -> F. apply Hpos. apply clipped_zero_x_hi.
      apply (Forall_ptranslate (fun p => 0 < coord true p)); [|exact F].
      intros p Hp. unfold coord, padd, zpoint, px, py in *. cbn [fst snd]. change (inject_Z 1) with 1. lra.
    + intros -> F. apply Hpos. apply clipped_zero_x_lo.
      apply (Forall_ptranslate (fun p => coord true p < 1)); [|exact F].
      intros p Hp. unfold coord, padd, zpoint, px, py in *. cbn [fst snd]. change (inject_Z (-1)) with (-(1)). lra.
  - apply needs_shift_of_area; try assumption.
    + intros -> F. apply Hpos. apply clipped_zero_y_hi.
      apply (Forall_ptranslate (fun p => 0 < coord false p)); [|exact F].
      intros p Hp. unfold coord, padd, zpoint, px, py in *. cbn [fst snd]. change (inject_Z 1) with 1. lra.
    + intros -> F. apply Hpos. apply clipped_zero_y_lo.
      apply (Forall_ptranslate (fun p => coord false p < 1)); [|exact F].
      intros p Hp. unfold coord, padd, zpoint, px, py in *. cbn [fst snd]. change (inject_Z (-1)) with (-(1)). lra.
Qed.

(* translates outside the 3x3 block of offsets never reach the cell (polygon strictly inside
   the block) *)
Definition in_open_block (P : polygon) : Prop :=
  Forall (fun p => -(1) < px p /\ px p < 2 /\ -(1) < py p /\ py p < 2) P.

Theorem plaquette_nine_suffice (pts : polygon) (dx dy : Z) :
  in_open_block pts -> (2 <= Z.abs dx \/ 2 <= Z.abs dy)%Z ->
  clipped_area2 (ptranslate pts (zpoint (dx, dy))) == 0.
Proof.
  intros HB Hd.
  assert (Hge : forall n : Z, (2 <= n)%Z -> 2 <= inject_Z n).
  { intros n Hn. change 2 with (inject_Z 2). rewrite <- Zle_Qle. exact Hn. }
  assert (Hle : forall n : Z, (n <= -2)%Z -> inject_Z n <= -(2)).
  { intros n Hn. change (-(2)) with (inject_Z (-2)). rewrite <- Zle_Qle. exact Hn. }
  destruct (Z_le_dec 2 dx) as [A|A].
  { apply clipped_zero_x_hi. eapply Forall_ptranslate; [|exact HB]. intros p Hp.
    cbv beta in Hp. pose proof (Hge dx A). unfold padd, zpoint, px, py in *. cbn [fst snd]. lra. }
  destruct (Z_le_dec dx (-2)) as [B|B].
  { apply clipped_zero_x_lo. eapply Forall_ptranslate; [|exact HB]. intros p Hp.
    cbv beta in Hp. pose proof (Hle dx B). unfold padd, zpoint, px, py in *. cbn [fst snd]. lra. }
  destruct (Z_le_dec 2 dy) as [C|C].
  { apply clipped_zero_y_hi. eapply Forall_ptranslate; [|exact HB]. intros p Hp.
    cbv beta in Hp. pose proof (Hge dy C). unfold padd, zpoint, px, py in *. cbn [fst snd]. lra. }
  destruct (Z_le_dec dy (-2)) as [D|D].
  { apply clipped_zero_y_lo. eapply Forall_ptranslate; [|exact HB]. intros p Hp.
    cbv beta in Hp. pose proof (Hle dy D). unfold padd, zpoint, px, py in *. cbn [fst snd]. lra. }
  exfalso. lia.
Qed.

(* the drawn polygons are translates by pairwise different offsets *)
Theorem replicate_offsets_nodup (pts : polygon) (lines : list seg) :
  exists ds : list (Z * Z), NoDup ds /\ incl ds nine /\
    replicate_polygon pts (pads lines true) (pads lines false) = map (fun d => ptranslate pts (zpoint d)) ds.
Proof.
  unfold pads, replicate_polygon.
  destruct (any_crosses 1 true lines), (any_crosses 0 true lines), (any_crosses 1 false lines), (any_crosses 0 false lines);
    cbn [app flat_map map];
    match goal with |- exists ds, _ /\ _ /\ ?L = _ =>
      let rec offs l := lazymatch l with
        | ptranslate _ (zpoint ?d) :: ?r => let r' := offs r in constr:(d :: r')
        | _ => constr:(@nil (Z * Z)) end in
      let ds := offs L in exists ds end;
    (split; [repeat constructor; cbn [In]; intuition congruence|]);
    (split; [intros d Hd; cbn [In] in Hd; unfold nine; cbn [In]; intuition|reflexivity]).
Qed.

(* ---------- pointwise coverage, strictly convex plaquettes ---------- *)
Definition in_open_cell (q : point) : Prop := 0 < px q /\ px q < 1 /\ 0 < py q /\ py q < 1.

Lemma needs_shift_pointwise (pts : polygon) (x : bool) (d : Z) (r : point) :
  strictly_convex pts -> has_cell_vertex pts -> off_line pts x 0 -> off_line pts x 1 ->
  Forall (fun p => -(1) <= coord x p /\ coord x p <= 2) pts ->
  in_poly pts r -> 0 < coord x r + inject_Z d -> coord x r + inject_Z d < 1 -> needs_shift pts x d.
Proof.
  intros HS Hv H0 H1 HB Hr D0 D1.
  assert (NE : pts <> []) by (destruct Hv as (v0 & Hin & _); intro E; rewrite E in Hin; destruct Hin).
  rewrite Forall_forall in HB.
  assert (Rlo : -(1) <= coord x r) by (apply (region_coord_ge x _ pts r HS NE); [intros w Hw; apply (HB w Hw)|exact Hr]).
  assert (Rhi : coord x r <= 2) by (apply (region_coord_le x _ pts r HS NE); [intros w Hw; apply (HB w Hw)|exact Hr]).
  assert (Dhi : (d < 2)%Z) by (rewrite Zlt_Qlt; change (inject_Z 2) with 2; lra).
  assert (Dlo : (-2 < d)%Z) by (rewrite Zlt_Qlt; change (inject_Z (-2)) with (-(2)); lra).
  apply needs_shift_of_area; try assumption.
  - lia.
  - intros -> F. rewrite Forall_forall in F. change (inject_Z 1) with 1 in *.
    assert (0 <= coord x r) by (apply (region_coord_ge x _ pts r HS NE); [intros w Hw; pose proof (F w Hw); lra|exact Hr]). lra.
  - intros -> F. rewrite Forall_forall in F. change (inject_Z (-1)) with (-(1)) in *.
    assert (coord x r <= 1) by (apply (region_coord_le x _ pts r HS NE); [intros w Hw; pose proof (F w Hw); lra|exact Hr]). lra.
Qed.

(* every point r of the plaquette that falls into the open cell under the offset (dx,dy) is
   covered by a drawn polygon: the translate by (dx,dy) is drawn *)
Theorem plaquette_cover_pointwise (pts : polygon) (r : point) (dx dy : Z) :
  strictly_convex pts ->
  off_line pts true 0 -> off_line pts true 1 -> off_line pts false 0 -> off_line pts false 1 ->
  has_cell_vertex pts -> in_block pts ->
  in_poly pts r -> in_open_cell (padd r (zpoint (dx, dy))) ->
  In (ptranslate pts (zpoint (dx, dy)))
     (replicate_polygon pts (pads (poly_lines pts) true) (pads (poly_lines pts) false)).
Proof.
  intros HS Hx0 Hx1 Hy0 Hy1 Hv HB Hr (C1 & C2 & C3 & C4).
  unfold padd, zpoint, px, py in C1, C2, C3, C4. cbn [fst snd] in C1, C2, C3, C4.
  apply plaquette_translates_drawn_partial; try assumption.
  - apply (needs_shift_pointwise pts true dx r); try assumption.
    eapply Forall_impl'; [|exact HB]. intros a Ha. cbv beta in Ha. unfold coord. tauto.
  - apply (needs_shift_pointwise pts false dy r); try assumption.
    eapply Forall_impl'; [|exact HB]. intros a Ha. cbv beta in Ha. unfold coord. tauto.
Qed.

(* ---------- the same, stated on the model of plot_plaquettes ---------- *)
Theorem plaq_polygons_drawn_area (L : plat) (pl : plaq) :
  let pts := plaq_points L pl in
  off_line pts true 0 -> off_line pts true 1 -> off_line pts false 0 -> off_line pts false 1 ->
  has_cell_vertex pts -> in_block pts ->
  fold_right Qplus 0 (map clipped_area2 (plaq_polygons L pl)) == area2 pts.
Proof. intro pts. exact (plaquette_drawn_area pts). Qed.

Theorem plaq_polygons_cover_pointwise (L : plat) (pl : plaq) (r : point) (dx dy : Z) :
  let pts := plaq_points L pl in
  strictly_convex pts ->
  off_line pts true 0 -> off_line pts true 1 -> off_line pts false 0 -> off_line pts false 1 ->
  has_cell_vertex pts -> in_block pts ->
  in_poly pts r -> in_open_cell (padd r (zpoint (dx, dy))) ->
  In (ptranslate pts (zpoint (dx, dy))) (plaq_polygons L pl).
Proof. intro pts. exact (plaquette_cover_pointwise pts r dx dy). Qed.
