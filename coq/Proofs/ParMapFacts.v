(* Proofs/ParMapFacts.v — facts about Model/ParMap.v (C20, second sentence). *)
From Coq Require Import List ZArith QArith Qround Bool Arith Lia Permutation Sorted.
From Koala Require Import Model.ParMap.
Import ListNotations.

(* ------------------------------------------------------------------ chunking *)
Section ChunkFacts.
Context {A : Type}.

(* ★ chunks_concat, general form: for EVERY chunk size and carry (not only n / n_splits) the chunks
   concatenate to the input, provided the fuel exceeds the length *)
Lemma chunk_loop_concat : forall fuel (q cur : Q) (xs : list A),
  (length xs < fuel)%nat -> concat (chunk_loop fuel q cur xs) = xs.
Proof.
  induction fuel as [|fuel IH]; intros q cur xs Hlen; [lia|].
  simpl.
  set (c := Z.to_nat (Z.max 1 (Qceiling cur))).
  assert (Hc : (1 <= c)%nat) by (unfold c; lia).
  destruct xs as [|x xs'].
  - rewrite firstn_nil. reflexivity.
  - destruct c as [|c']; [lia|].
    simpl firstn. simpl skipn. simpl concat.
    rewrite IH.
    + simpl. f_equal. apply firstn_skipn.
    + rewrite skipn_length. simpl in Hlen. lia.
Qed.

Theorem chunks_concat : forall (xs : list A) (m : positive), concat (chunk_tasks xs m) = xs.
Proof. intros xs m. unfold chunk_tasks. apply chunk_loop_concat. lia. Qed.

(* the same for the float carry: EVERY sequence of ceil values *)
Lemma chunk_by_concat : forall fuel (ceil_at : nat -> Z) i (xs : list A),
  (length xs < fuel)%nat -> concat (chunk_by fuel ceil_at i xs) = xs.
Proof.
  induction fuel as [|fuel IH]; intros ceil_at i xs Hlen; [lia|].
  simpl.
  set (c := Z.to_nat (Z.max 1 (ceil_at i))).
  assert (Hc : (1 <= c)%nat) by (unfold c; lia).
  destruct xs as [|x xs'].
  - rewrite firstn_nil. reflexivity.
  - destruct c as [|c']; [lia|].
    simpl firstn. simpl skipn. simpl concat.
    rewrite IH.
    + simpl. f_equal. apply firstn_skipn.
    + rewrite skipn_length. simpl in Hlen. lia.
Qed.

Theorem chunks_by_concat : forall (ceil_at : nat -> Z) (xs : list A), concat (chunk_tasks_by ceil_at xs) = xs.
Proof. intros. unfold chunk_tasks_by. apply chunk_by_concat. lia. Qed.

Lemma chunk_by_nonempty : forall fuel (ceil_at : nat -> Z) i (xs : list A) ch,
  In ch (chunk_by fuel ceil_at i xs) -> ch <> [].
Proof.
  induction fuel as [|fuel IH]; intros ceil_at i xs ch Hin; simpl in Hin; [contradiction|].
  destruct (firstn (Z.to_nat (Z.max 1 (ceil_at i))) xs) as [|a l] eqn:E; [contradiction|].
  destruct Hin as [H|H]; [subst ch; discriminate|]. eapply IH; eauto.
Qed.

(* integer chunk size: the number of chunks is exactly what get_n_chunks announces, min(n, ceil(n / cs)) *)
Lemma ceil_div_le : forall n cs, (1 <= cs)%nat -> ((n + cs - 1) / cs <= n)%nat.
Proof.
  intros n cs Hcs. destruct n as [|n].
  - simpl. rewrite Nat.div_small; lia.
  - apply Nat.div_le_upper_bound; [lia|]. nia.
Qed.

Lemma chunk_by_const_length : forall fuel (cs i : nat) (xs : list A),
  (1 <= cs)%nat -> (length xs < fuel)%nat ->
  length (chunk_by fuel (fun _ => Z.of_nat cs) i xs) = n_chunks_exact (length xs) cs.
Proof.
  unfold n_chunks_exact.
  induction fuel as [|fuel IH]; intros cs i xs Hcs Hlen; [lia|].
  rewrite Nat.min_r by (now apply ceil_div_le).
  simpl.
  replace (Z.to_nat (Z.max 1 (Z.of_nat cs))) with cs by lia.
  destruct xs as [|x xs'].
  - rewrite firstn_nil. simpl. rewrite Nat.div_small; lia.
  - set (g := fun _ : nat => Z.of_nat cs).
    assert (Ecs : exists cs', cs = S cs') by (destruct cs; [lia|eauto]).
    destruct Ecs as [cs' Ecs].
    assert (Hf : firstn cs (x :: xs') = x :: firstn cs' xs') by (rewrite Ecs; reflexivity).
    assert (Hs : skipn cs (x :: xs') = skipn cs' xs') by (rewrite Ecs; reflexivity).
    rewrite Hf, Hs. cbn [length].
    fold g. unfold g. rewrite (IH cs (S i)) by (try lia; rewrite skipn_length; simpl in Hlen; lia).
    rewrite Nat.min_r by (apply ceil_div_le; lia).
    rewrite skipn_length. subst cs.
    destruct (Nat.le_gt_cases (length xs') cs') as [Hle|Hgt].
    + replace (length xs' - cs')%nat with 0%nat by lia.
      replace ((0 + S cs' - 1) / S cs')%nat with 0%nat by (symmetry; apply Nat.div_small; lia).
      apply Nat.div_unique with (r := length xs'); lia.
    + replace (S (length xs') + S cs' - 1)%nat with ((length xs' - cs' + S cs' - 1) + 1 * S cs')%nat by lia.
      rewrite Nat.div_add by lia. lia.
Qed.

(* no task is empty (a worker is never sent an empty array) *)
Lemma chunk_loop_nonempty : forall fuel (q cur : Q) (xs : list A) ch,
  In ch (chunk_loop fuel q cur xs) -> ch <> [].
Proof.
  induction fuel as [|fuel IH]; intros q cur xs ch Hin; simpl in Hin; [contradiction|].
  destruct (firstn (Z.to_nat (Z.max 1 (Qceiling cur))) xs) as [|a l] eqn:E; [contradiction|].
  destruct Hin as [H|H]; [subst ch; discriminate|]. eapply IH; eauto.
Qed.

Lemma chunks_nonempty : forall (xs : list A) m ch, In ch (chunk_tasks xs m) -> ch <> [].
Proof. intros xs m ch. unfold chunk_tasks. apply chunk_loop_nonempty. Qed.

End ChunkFacts.

(* ------------------------------------------------------------------ exact carry: number of chunks *)
(* with the carry computed exactly, mpire's default chunking produces min(n, n_splits) chunks — the number
   get_n_chunks announces when computed exactly; the ValueError fixed by 14cf9ed is a pure float-rounding effect *)
Open Scope Z_scope.
Definition ceilZ (c m : Z) : Z := - ((- c) / m).

Lemma Qceiling_frac : forall c (m : positive), Qceiling (c # m) = ceilZ c (Zpos m).
Proof. intros. unfold Qceiling, Qfloor, ceilZ. simpl. reflexivity. Qed.

Lemma ceilZ_spec : forall c m, 0 < m -> m * (ceilZ c m - 1) < c <= m * ceilZ c m.
Proof. intros c m Hm. unfold ceilZ. pose proof (Z.div_mod (-c) m ltac:(lia)). pose proof (Z.mod_pos_bound (-c) m Hm). nia. Qed.

Lemma ceilZ_unique : forall c m k, 0 < m -> m * (k - 1) < c <= m * k -> ceilZ c m = k.
Proof. intros c m k Hm H. pose proof (ceilZ_spec c m Hm). nia. Qed.

Section ExactCount.
Context {A : Type}.

Fixpoint chunk_loopZ (fuel : nat) (n m c : Z) (xs : list A) : list (list A) :=
  match fuel with
  | O => []
  | S f =>
    let k := ceilZ c m in
    let t := Z.to_nat (Z.max 1 k) in
    match firstn t xs with
    | [] => []
    | ch => ch :: chunk_loopZ f n m (c + n - m * k) (skipn t xs)
    end
  end.

Lemma chunk_loop_Z : forall fuel n (m : positive) c cur (xs : list A),
  (cur == c # m)%Q -> chunk_loop fuel (n # m) cur xs = chunk_loopZ fuel n (Zpos m) c xs.
Proof.
  induction fuel as [|fuel IH]; intros n m c cur xs Hc; [reflexivity|].
  cbn [chunk_loop chunk_loopZ].
  rewrite (Qceiling_comp _ _ Hc), Qceiling_frac.
  destruct (firstn (Z.to_nat (Z.max 1 (ceilZ c (Z.pos m)))) xs) as [|a l]; [reflexivity|].
  f_equal. apply IH. rewrite Hc.
  unfold Qeq, Qminus, Qplus, Qopp, inject_Z. cbn [Qnum Qden]. rewrite ?Pos2Z.inj_mul. ring.
Qed.

(* n <= m: every chunk has one element *)
Lemma countA : forall fuel n m c (xs : list A),
  0 < m -> n <= m -> c <= m -> (length xs < fuel)%nat ->
  length (chunk_loopZ fuel n m c xs) = length xs.
Proof.
  induction fuel as [|fuel IH]; intros n m c xs Hm Hnm Hc Hlen; [lia|].
  simpl. pose proof (ceilZ_spec c m Hm) as Hk.
  assert (Hk1 : ceilZ c m <= 1) by nia.
  replace (Z.to_nat (Z.max 1 (ceilZ c m))) with 1%nat by lia.
  destruct xs as [|x xs']; [reflexivity|]. simpl. f_equal.
  apply IH; auto; [nia|simpl in Hlen; lia].
Qed.

(* n > m: after i chunks s = ceil(i n / m) elements are gone and the carry is ((i+1) n - s m) / m *)
Lemma countB : forall fuel n m (i s c : Z) (xs : list A),
  0 < m -> m < n -> 0 <= i <= m -> s = ceilZ (i * n) m -> c = (i + 1) * n - s * m ->
  Z.of_nat (length xs) = n - s -> (length xs < fuel)%nat ->
  Z.of_nat (length (chunk_loopZ fuel n m c xs)) = m - i.
Proof.
  induction fuel as [|fuel IH]; intros n m i s c xs Hm Hmn Hi Hs Hc Hlen Hfuel; [lia|].
  pose proof (ceilZ_spec (i * n) m Hm) as Hss. rewrite <- Hs in Hss.
  simpl.
  destruct (Z.eq_dec i m) as [Him|Him].
  - assert (s = n) by nia. assert (length xs = 0%nat) by lia.
    destruct xs; [|simpl in *; lia]. rewrite firstn_nil. simpl. lia.
  - set (s' := ceilZ ((i + 1) * n) m).
    pose proof (ceilZ_spec ((i + 1) * n) m Hm) as Hs'. fold s' in Hs'.
    assert (Hk : ceilZ c m = s' - s) by (apply ceilZ_unique; [lia|nia]).
    rewrite Hk.
    assert (Hge : 1 <= s' - s) by nia.
    assert (Hle : s' <= n) by nia.
    replace (Z.max 1 (s' - s)) with (s' - s) by lia.
    set (t := Z.to_nat (s' - s)).
    assert (Ht : (1 <= t <= length xs)%nat) by (unfold t; lia).
    destruct (firstn t xs) as [|a l] eqn:Ef.
    + exfalso. assert (length (firstn t xs) = t) by (apply firstn_length_le; lia).
      rewrite Ef in H. simpl in H. lia.
    + simpl length. rewrite Nat2Z.inj_succ.
      assert (Hsk : Z.of_nat (length (skipn t xs)) = n - s') by (rewrite skipn_length; unfold t; lia).
      assert (Hfu : (length (skipn t xs) < fuel)%nat) by (rewrite skipn_length; lia).
      rewrite (IH n m (i + 1) s' (c + n - m * (s' - s)) (skipn t xs) Hm Hmn ltac:(lia) eq_refl ltac:(nia) Hsk Hfu).
      lia.
Qed.

Theorem chunk_tasks_count : forall (xs : list A) (m : positive),
  length (chunk_tasks xs m) = Nat.min (length xs) (Pos.to_nat m).
Proof.
  intros xs m. unfold chunk_tasks.
  rewrite (chunk_loop_Z _ _ _ (Z.of_nat (length xs))) by reflexivity.
  destruct (Z_le_gt_dec (Z.of_nat (length xs)) (Zpos m)) as [Hle|Hgt].
  - rewrite countA; lia.
  - apply Nat2Z.inj.
    rewrite (countB _ _ _ 0 0); try lia.
    unfold ceilZ. simpl. reflexivity.
Qed.
End ExactCount.
Close Scope Z_scope.

(* ------------------------------------------------------------------ sorting by index *)
Section SortFacts.
Context {X : Type}.
Notation key_le := (fun a b : nat * X => (fst a <= fst b)%nat).
Notation key_lt := (fun a b : nat * X => (fst a < fst b)%nat).

Lemma insert_perm : forall (t : nat * X) l, Permutation (t :: l) (insert_by_index t l).
Proof.
  intros t l. induction l as [|h r IH]; simpl; [constructor; constructor|].
  destruct (Nat.ltb (fst h) (fst t)).
  - eapply perm_trans; [apply perm_swap|]. now constructor.
  - apply Permutation_refl.
Qed.

Lemma sort_perm : forall l : list (nat * X), Permutation l (sort_by_index l).
Proof.
  induction l as [|a l IH]; simpl; [constructor|].
  eapply perm_trans; [|apply insert_perm]. now constructor.
Qed.

Lemma insert_sorted : forall (t : nat * X) l,
  StronglySorted key_le l -> StronglySorted key_le (insert_by_index t l).
Proof.
  intros t l Hs. induction Hs as [|h r Hr IH Hall]; simpl.
  - constructor; constructor.
  - destruct (Nat.ltb (fst h) (fst t)) eqn:E.
    + apply Nat.ltb_lt in E. constructor; [exact IH|].
      rewrite Forall_forall. intros y Hy.
      apply (Permutation_in _ (Permutation_sym (insert_perm t r))) in Hy.
      destruct Hy as [Hy|Hy]; [subst y; simpl; lia|].
      rewrite Forall_forall in Hall. now apply Hall.
    + apply Nat.ltb_ge in E. constructor.
      * constructor; assumption.
      * constructor; [simpl; exact E|].
        rewrite Forall_forall in *. intros y Hy. specialize (Hall y Hy). simpl in *. lia.
Qed.

Lemma sort_sorted : forall l : list (nat * X), StronglySorted key_le (sort_by_index l).
Proof.
  induction l as [|a l IH]; simpl; [constructor|]. now apply insert_sorted.
Qed.

Lemma sorted_le_nodup_lt : forall l : list (nat * X),
  StronglySorted key_le l -> NoDup (map fst l) -> StronglySorted key_lt l.
Proof.
  intros l Hs. induction Hs as [|h r Hr IH Hall]; intros Hnd; [constructor|].
  simpl in Hnd. inversion Hnd as [|? ? Hnotin Hnd']; subst.
  constructor; [now apply IH|].
  rewrite Forall_forall in *. intros y Hy. specialize (Hall y Hy). simpl in Hall.
  assert (fst y <> fst h).
  { intro E. apply Hnotin. rewrite <- E. now apply in_map. }
  simpl. lia.
Qed.

(* two strictly index-sorted lists with the same elements are the same list *)
Lemma strictly_sorted_perm_eq : forall l1 l2 : list (nat * X),
  StronglySorted key_lt l1 -> StronglySorted key_lt l2 -> Permutation l1 l2 -> l1 = l2.
Proof.
  induction l1 as [|a l1 IH]; intros l2 H1 H2 Hp.
  - apply Permutation_nil in Hp. now subst.
  - destruct l2 as [|b l2]; [apply Permutation_sym, Permutation_nil in Hp; discriminate|].
    inversion H1 as [|? ? H1' Hall1]; subst. inversion H2 as [|? ? H2' Hall2]; subst.
    rewrite Forall_forall in Hall1, Hall2.
    assert (Hab : a = b).
    { assert (Ha : In a (b :: l2)) by (eapply Permutation_in; [exact Hp|now left]).
      assert (Hb : In b (a :: l1)) by (eapply Permutation_in; [apply Permutation_sym; exact Hp|now left]).
      destruct Ha as [Ha|Ha]; [now subst|]. destruct Hb as [Hb|Hb]; [now subst|].
      specialize (Hall2 a Ha). specialize (Hall1 b Hb). simpl in *. lia. }
    subst b. f_equal. apply IH; auto. eapply Permutation_cons_inv; eauto.
Qed.

Lemma tag_keys : forall l : list X, map fst (tag l) = seq 0 (length l).
Proof.
  intros l. unfold tag.
  assert (H : forall (l : list X) k, map fst (combine (seq k (length l)) l) = seq k (length l)).
  { induction l0 as [|a l0 IH]; intros k; simpl; [reflexivity|]. now rewrite IH. }
  apply H.
Qed.

Lemma tag_values : forall l : list X, map snd (tag l) = l.
Proof.
  intros l. unfold tag.
  assert (H : forall (l : list X) k, map snd (combine (seq k (length l)) l) = l).
  { induction l0 as [|a l0 IH]; intros k; simpl; [reflexivity|]. now rewrite IH. }
  apply H.
Qed.

Lemma seq_strictly_sorted_keys : forall l : list (nat * X),
  (exists k n, map fst l = seq k n) -> StronglySorted key_lt l.
Proof.
  induction l as [|a l IH]; intros (k & n & H); [constructor|].
  destruct n as [|n]; [discriminate|]. simpl in H. injection H as Ha Hl.
  constructor.
  - apply IH. exists (S k), n. exact Hl.
  - rewrite Forall_forall. intros y Hy. apply (in_map fst) in Hy. rewrite Hl in Hy.
    apply in_seq in Hy. simpl. lia.
Qed.

(* ★ sort_by_index undoes every completion order: whatever permutation of an index-tagged list the pool
   delivers, sorting by index gives back the tagged list *)
Theorem sort_undoes_any_order : forall (T delivered : list (nat * X)),
  (exists k n, map fst T = seq k n) -> Permutation delivered T -> sort_by_index delivered = T.
Proof.
  intros T delivered HT Hp.
  assert (HTs := seq_strictly_sorted_keys T HT).
  apply strictly_sorted_perm_eq; auto.
  - apply sorted_le_nodup_lt; [apply sort_sorted|].
    destruct HT as (k & n & HT).
    apply Permutation_NoDup with (l := map fst T).
    + apply Permutation_map. eapply perm_trans; [apply Permutation_sym; exact Hp|apply sort_perm].
    + rewrite HT. apply seq_NoDup.
  - eapply perm_trans; [apply Permutation_sym, sort_perm|exact Hp].
Qed.

End SortFacts.

(* ------------------------------------------------------------------ parallel = serial *)
Section ParallelSerial.
Context {A B : Type}.
Variable f : A -> B.

Lemma tagged_results_keys : forall chunks : list (list A),
  map fst (tagged_results f chunks) = seq 0 (length chunks).
Proof.
  intros. unfold tagged_results. rewrite map_map. simpl.
  change (map (fun x : nat * list A => fst x) (tag chunks)) with (map fst (tag chunks)). apply tag_keys.
Qed.

Lemma tagged_results_values : forall chunks : list (list A),
  map snd (tagged_results f chunks) = map (computation f) chunks.
Proof.
  intros. unfold tagged_results. rewrite map_map. simpl.
  rewrite <- (tag_values chunks) at 2. now rewrite map_map.
Qed.

(* every completion order: [delivered] is ANY list with the same elements as the tagged results *)
Theorem collect_any_order : forall (chunks : list (list A)) (delivered : list (nat * list B)),
  Permutation delivered (tagged_results f chunks) ->
  collect delivered = map f (concat chunks).
Proof.
  intros chunks delivered Hp. unfold collect.
  rewrite (sort_undoes_any_order (tagged_results f chunks) delivered).
  - rewrite tagged_results_values. unfold computation. now rewrite concat_map.
  - exists 0%nat, (length chunks). apply tagged_results_keys.
  - exact Hp.
Qed.

(* mpire's pool as a Section variable; its contract: every task's result is delivered exactly once,
   in an arbitrary order (pool.py: map_unordered / imap_unordered) *)
Variable pool : (list A -> list B) -> list (nat * list A) -> list (nat * list B).
Hypothesis pool_delivers_each_result_once : forall g tasks,
  Permutation (pool g tasks) (map (fun t => (fst t, g (snd t))) tasks).

(* parallel = serial for mpire's default chunking with the exact carry (the call before fix 14cf9ed) *)
Theorem parallel_equals_serial_default : forall (n_jobs : positive) (xs : list A),
  parmap_default f pool n_jobs xs = serial f xs.
Proof.
  intros n_jobs xs. unfold parmap_default, serial.
  rewrite (collect_any_order (chunk_tasks xs (4 * n_jobs))).
  - now rewrite chunks_concat.
  - apply pool_delivers_each_result_once.
Qed.

(* ★ the same for the float carry arithmetic: every sequence of ceil values *)
Theorem parallel_equals_serial_any_carry : forall (ceil_at : nat -> Z) (xs : list A),
  parmap_by f pool ceil_at xs = serial f xs.
Proof.
  intros ceil_at xs. unfold parmap_by, serial.
  rewrite (collect_any_order (chunk_tasks_by ceil_at xs)).
  - now rewrite chunks_by_concat.
  - apply pool_delivers_each_result_once.
Qed.

(* with the error path: whenever the call returns at all, it returns the serial result ... *)
Theorem parmap_checked_returns_serial : forall (ceil_at : nat -> Z) (predicted : nat) (xs : list A) r,
  parmap_checked f pool ceil_at predicted xs = Some r -> r = serial f xs.
Proof.
  intros ceil_at predicted xs r H. unfold parmap_checked in H.
  destruct (Nat.eqb predicted (length (chunk_tasks_by ceil_at xs))); [|discriminate].
  inversion H. apply (parallel_equals_serial_any_carry ceil_at xs).
Qed.

(* ... and it raises exactly when the announced number of chunks is not the number produced *)
Theorem parmap_checked_raises_iff : forall (ceil_at : nat -> Z) (predicted : nat) (xs : list A),
  parmap_checked f pool ceil_at predicted xs = None <-> predicted <> length (chunk_tasks_by ceil_at xs).
Proof.
  intros ceil_at predicted xs. unfold parmap_checked.
  destruct (Nat.eqb predicted (length (chunk_tasks_by ceil_at xs))) eqn:E.
  - apply Nat.eqb_eq in E. split; [discriminate|intro; contradiction].
  - apply Nat.eqb_neq in E. split; auto.
Qed.

(* ★ parallel_equals_serial for compute_phase_diagram as it is now (integer chunk size): for every n_jobs >= 1
   the call does not raise and returns the serial result *)
Theorem parallel_equals_serial : forall (n_jobs : positive) (xs : list A),
  parmap f pool n_jobs xs = Some (serial f xs).
Proof.
  intros n_jobs xs. unfold parmap.
  set (cs := koala_chunk_size (length xs) n_jobs).
  assert (Hcs : (1 <= cs)%nat) by (unfold cs, koala_chunk_size; lia).
  destruct (parmap_checked f pool (fun _ => Z.of_nat cs) (n_chunks_exact (length xs) cs) xs) as [r|] eqn:E.
  - f_equal. eapply parmap_checked_returns_serial; eauto.
  - exfalso. apply parmap_checked_raises_iff in E. apply E.
    unfold chunk_tasks_by. rewrite chunk_by_const_length by lia. reflexivity.
Qed.

End ParallelSerial.

(* the concrete schedule pool honours the contract whenever the schedule is a permutation of the task positions *)
Lemma schedule_pool_contract : forall {A B : Type} (g : list A -> list B) (schedule : list nat) (tasks : list (nat * list A)),
  Permutation schedule (seq 0 (length tasks)) ->
  Permutation (schedule_pool g schedule tasks) (map (fun t => (fst t, g (snd t))) tasks).
Proof.
  intros A B g schedule tasks Hp. unfold schedule_pool.
  set (h := fun i : nat => match nth_error tasks i with Some t => [(fst t, g (snd t))] | None => [] end).
  apply perm_trans with (flat_map h (seq 0 (length tasks))).
  - clear -Hp. induction Hp; simpl.
    + constructor.
    + now apply Permutation_app_head.
    + rewrite !app_assoc. apply Permutation_app_tail. apply Permutation_app_comm.
    + eapply perm_trans; eauto.
  - assert (H : forall (l pre : list (nat * list A)), tasks = pre ++ l ->
                 flat_map h (seq (length pre) (length l)) = map (fun t => (fst t, g (snd t))) l).
    { induction l as [|a l IH]; intros pre E; simpl; [reflexivity|].
      assert (Hn : nth_error tasks (length pre) = Some a).
      { rewrite E. rewrite nth_error_app2 by lia. now rewrite Nat.sub_diag. }
      unfold h at 1. rewrite Hn. simpl. f_equal.
      replace (S (length pre)) with (length (pre ++ [a])) by (rewrite app_length; simpl; lia).
      apply IH. rewrite <- app_assoc. exact E. }
    specialize (H tasks [] eq_refl). simpl in H. rewrite H. apply Permutation_refl.
Qed.

(* ------------------------------------------------------------------ final transpose *)
Section TransposeFacts.
Context {C : Type}.

Lemma column_rect : forall (j : nat) (rows : list (list C)) (dflt : C),
  (forall r, In r rows -> (j < length r)%nat) ->
  column j rows = map (fun r => nth j r dflt) rows.
Proof.
  intros j rows dflt H. induction rows as [|r rows IH]; simpl; [reflexivity|].
  assert (Hj : (j < length r)%nat) by (apply H; now left).
  destruct (nth_error r j) as [c|] eqn:E.
  - simpl. f_equal; [|apply IH; intros; apply H; now right].
    symmetry. now apply nth_error_nth.
  - apply nth_error_None in E. lia.
Qed.

(* data[j][i] = (result of point i)[j] for a rectangular result table *)
Theorem transpose_entry : forall (d : nat) (rows : list (list C)) (i j : nat) (r : list C) (c : C),
  (forall r, In r rows -> length r = d) ->
  nth_error rows i = Some r -> nth_error r j = Some c ->
  exists col, nth_error (transpose d rows) j = Some col /\ nth_error col i = Some c /\ length col = length rows.
Proof.
  intros d rows i j r c Hrect Hi Hj.
  assert (Hjd : (j < d)%nat).
  { rewrite <- (Hrect r) by (eapply nth_error_In; eauto). apply nth_error_Some. congruence. }
  exists (column j rows). unfold transpose. repeat split.
  - rewrite nth_error_map. rewrite nth_error_nth' with (d := 0%nat) by (rewrite seq_length; exact Hjd).
    rewrite seq_nth by exact Hjd. reflexivity.
  - rewrite (column_rect j rows c) by (intros r' Hr'; rewrite (Hrect r' Hr'); exact Hjd).
    rewrite nth_error_map, Hi. simpl. f_equal. now apply nth_error_nth.
  - rewrite (column_rect j rows c) by (intros r' Hr'; rewrite (Hrect r' Hr'); exact Hjd).
    apply map_length.
Qed.

End TransposeFacts.
