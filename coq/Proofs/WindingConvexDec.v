(* Proofs/WindingConvexDec.v — an executable test for the hypothesis of G1_convex (Proofs/WindingConvex.v),
   proved equivalent to it, so that "this walk is covered by the convex case of G1" can be decided by
   computation (vm_compute in Coq, or the extracted function). *)
From Coq Require Import List ZArith Bool Arith Lia ZifyBool Sorted.
From Koala Require Import Model.Lattice Proofs.LatticeFacts Proofs.WindingConvexTri Proofs.WindingConvex.
Import ListNotations.
Open Scope Z_scope.

Definition sortedb (l : list vec) : bool := forallb (fun ab => ang_lt (fst ab) (snd ab)) (adj l).
Definition left_turnsb (vs : list vec) : bool :=
  forallb (fun ab => 0 <? vcross (fst ab) (snd ab)) (cycp vzero vs).
Definition convex_ccwb (vs : list vec) : bool :=
  match vs with [] => false | _ => true end
  && veqb (vsum vs) vzero && left_turnsb vs
  && existsb (fun k => sortedb (skipn k vs ++ firstn k vs)) (seq 0 (S (length vs))).
Definition convex_cwb (vs : list vec) : bool := convex_ccwb (rv vs).

Lemma sortedb_spec l : sortedb l = true <-> ang_sorted l.
Proof.
  unfold sortedb, ang_sorted. split.
  - induction l as [|x l IH]; [constructor|]. destruct l as [|y l]; [repeat constructor|].
    change (adj (x :: y :: l)) with ((x, y) :: adj (y :: l)). cbn [forallb fst snd]. intro H.
    apply andb_true_iff in H. destruct H as [H1 H2]. constructor; [apply IH; exact H2|constructor; exact H1].
  - intro H. apply forallb_forall. intros ab Hin.
    pose proof (sorted_adj _ l H) as Hf. rewrite Forall_forall in Hf. exact (Hf ab Hin).
Qed.

Lemma left_turnsb_spec vs : left_turnsb vs = true <-> left_turns vs.
Proof.
  unfold left_turnsb, left_turns. rewrite forallb_forall, Forall_forall.
  split; intros H ab Hin; specialize (H ab Hin); lia.
Qed.

Theorem convex_ccwb_spec vs : convex_ccwb vs = true <-> convex_ccw vs.
Proof.
  unfold convex_ccwb, convex_ccw. rewrite !andb_true_iff, veqb_eq, left_turnsb_spec, existsb_exists. split.
  - intros [[[Hne Hs] Hlt] [k [_ Hk]]]. repeat split; [destruct vs; [discriminate|congruence]|exact Hs|exact Hlt|].
    exists (firstn k vs), (skipn k vs). split; [symmetry; apply firstn_skipn|apply sortedb_spec; exact Hk].
  - intros [Hne [Hs [Hlt [l1 [l2 [E Hsort]]]]]]. repeat split; [destruct vs; [congruence|reflexivity]|exact Hs|exact Hlt|].
    exists (length l1). split.
    + apply in_seq. subst vs. rewrite app_length. lia.
    + subst vs. rewrite firstn_app, skipn_app, Nat.sub_diag, firstn_all, skipn_all. cbn [firstn skipn].
      rewrite app_nil_r. cbn [app]. apply sortedb_spec. exact Hsort.
Qed.

Theorem convex_cwb_spec vs : convex_cwb vs = true <-> convex_cw vs.
Proof. apply convex_ccwb_spec. Qed.

(* G1 for every walk accepted by the executable test *)
Corollary G1_convexb_plaquette L w :
  convex_ccwb (map (dvec L) w) || convex_cwb (map (dvec L) w) = true ->
  (p_winding (mk_plaquette L w) = -1 <-> 0 < p_area2 (mk_plaquette L w)).
Proof.
  intro H. apply G1_convex_plaquette. apply orb_true_iff in H.
  destruct H as [H|H]; [left; apply convex_ccwb_spec|right; apply convex_cwb_spec]; exact H.
Qed.
