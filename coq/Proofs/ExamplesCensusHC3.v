(* honeycomb census, n = 16 (see ExamplesCensus.v) *)
From Coq Require Import List ZArith Bool.
From Koala Require Import Model.Lattice Model.Tiling Model.Examples Proofs.ExamplesCensus.
Open Scope Z_scope.
Lemma honeycomb_census_16 : forall n, 16 <= n <= 16 -> honeycomb_ok n = true.
Proof. apply forallb_zrange_from. vm_compute. reflexivity. Qed.
