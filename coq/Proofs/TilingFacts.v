(* Proofs/TilingFacts.v — facts about Model/Tiling.v (tile_unit_cell over the generated helpers). *)
From Coq Require Import List ZArith Bool Arith Lia.
From Koala Require Import Gen.TilingGen Model.Lattice Model.Tiling.
Import ListNotations.
Open Scope Z_scope.

Lemma zrange_length n : length (zrange n) = Z.to_nat n.
Proof. unfold zrange. now rewrite map_length, seq_length. Qed.
