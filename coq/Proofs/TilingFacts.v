(* Proofs/TilingFacts.v — facts about Model/Tiling.v (tile_unit_cell over the GENERATED helpers
   py_next_cell_number / py_crossing of Gen/TilingGen.v). *)
From Coq Require Import List ZArith Bool Arith Lia ZifyBool FinFun.
From Koala Require Import Gen.TilingGen Model.Lattice Model.Tiling.
Import ListNotations.
Open Scope Z_scope.

(* ------------------------------------------------------------------ zrange / znth *)
Lemma zrange_length n : length (zrange n) = Z.to_nat n.
Proof. unfold zrange. now rewrite map_length, seq_length. Qed.

Lemma zlen_zrange n : 0 <= n -> zlen (zrange n) = n.
Proof. intros. unfold zlen. rewrite zrange_length. lia. Qed.

Lemma nth_zrange n i d : (i < Z.to_nat n)%nat -> nth i (zrange n) d = Z.of_nat i.
Proof.
  intros Hi. unfold zrange.
  rewrite nth_indep with (d' := Z.of_nat 0) by (rewrite map_length, seq_length; lia).
  rewrite map_nth, seq_nth by lia. reflexivity.
Qed.

Lemma znth_zrange n i d : 0 <= i < n -> znth i (zrange n) d = i.
Proof. intros Hi. unfold znth. rewrite nth_zrange by lia. lia. Qed.

Lemma In_zrange n x : In x (zrange n) <-> 0 <= x < n.
Proof.
  unfold zrange. rewrite in_map_iff. split.
  - intros (k & <- & Hk). apply in_seq in Hk. lia.
  - intros Hx. exists (Z.to_nat x). split; [lia|]. apply in_seq. lia.
Qed.

Lemma zrange_S n : 0 <= n -> zrange (n + 1) = zrange n ++ [n].
Proof.
  intros Hn. unfold zrange. replace (Z.to_nat (n + 1)) with (S (Z.to_nat n)) by lia.
  rewrite seq_S, map_app. simpl. f_equal. f_equal. lia.
Qed.

Lemma NoDup_zrange n : NoDup (zrange n).
Proof.
  unfold zrange. apply Injective_map_NoDup; [|apply seq_NoDup].
  intros a b Hab. lia.
Qed.

(* ------------------------------------------------------------------ flat_map with blocks of one length *)
Lemma flat_map_const_length {A B} (f : A -> list B) (l : list A) (k : nat) :
  (forall x, In x l -> length (f x) = k) -> length (flat_map f l) = (length l * k)%nat.
Proof.
  induction l as [|a l IH]; intros H; simpl; [reflexivity|].
  rewrite app_length. rewrite (H a) by (simpl; auto). rewrite IH by (intros; apply H; simpl; auto). reflexivity.
Qed.

Lemma nth_flat_map_const {A B} (f : A -> list B) (l : list A) (k m e : nat) (d : B) (da : A) :
  (forall x, In x l -> length (f x) = k) -> (m < length l)%nat -> (e < k)%nat ->
  nth (m * k + e) (flat_map f l) d = nth e (f (nth m l da)) d.
Proof.
  revert m. induction l as [|a l IH]; intros m H Hm He; simpl in *; [lia|].
  destruct m as [|m].
  - simpl. rewrite app_nth1 by (rewrite H by auto; lia). reflexivity.
  - rewrite app_nth2 by (rewrite H by auto; simpl; lia).
    rewrite H by auto. replace (S m * k + e - k)%nat with (m * k + e)%nat by (simpl; lia).
    apply IH; auto; lia.
Qed.

Lemma combine_flat_map {A B C} (f : A -> list B) (g : A -> list C) (l : list A) :
  (forall x, In x l -> length (f x) = length (g x)) ->
  combine (flat_map f l) (flat_map g l) = flat_map (fun x => combine (f x) (g x)) l.
Proof.
  induction l as [|a l IH]; intros H; simpl; [reflexivity|].
  rewrite <- IH by (intros; apply H; simpl; auto).
  generalize (H a (or_introl eq_refl)). generalize (f a) (g a). clear.
  induction l0 as [|x xs IHx]; intros [|y ys] Hl; simpl in *; try discriminate; [reflexivity|].
  f_equal. apply IHx. lia.
Qed.

(* znth in a flat_map over zrange *)
Lemma znth_flat_map_zrange {B} (f : Z -> list B) (N k m e : Z) (d : B) :
  (forall x, 0 <= x < N -> zlen (f x) = k) -> 0 <= m < N -> 0 <= e < k ->
  znth (m * k + e) (flat_map f (zrange N)) d = znth e (f m) d.
Proof.
  intros H Hm He. unfold znth.
  replace (Z.to_nat (m * k + e)) with (Z.to_nat m * Z.to_nat k + Z.to_nat e)%nat by nia.
  rewrite nth_flat_map_const with (da := 0).
  - rewrite nth_zrange by lia. f_equal. f_equal. lia.
  - intros x Hx. apply In_zrange in Hx. specialize (H x Hx). unfold zlen in H. lia.
  - rewrite zrange_length. lia.
  - lia.
Qed.

Lemma zlen_flat_map_zrange {B} (f : Z -> list B) (N k : Z) :
  0 <= N -> 0 <= k -> (forall x, 0 <= x < N -> zlen (f x) = k) -> zlen (flat_map f (zrange N)) = N * k.
Proof.
  intros HN Hk H. unfold zlen.
  rewrite flat_map_const_length with (k := Z.to_nat k).
  - rewrite zrange_length. nia.
  - intros x Hx. apply In_zrange in Hx. specialize (H x Hx). unfold zlen in H. lia.
Qed.

Lemma zlen_map {A B} (f : A -> B) l : zlen (map f l) = zlen l.
Proof. unfold zlen. now rewrite map_length. Qed.

Lemma znth_map {A B} (f : A -> B) l i d d' : 0 <= i < zlen l -> znth i (map f l) d = f (znth i l d').
Proof.
  intros Hi. unfold znth, zlen in *.
  rewrite nth_indep with (d' := f d') by (rewrite map_length; lia). apply map_nth.
Qed.

Lemma znth_combine {A B} (l : list A) (l' : list B) i da db :
  0 <= i < zlen l -> zlen l = zlen l' -> znth i (combine l l') (da, db) = (znth i l da, znth i l' db).
Proof. intros Hi Hl. unfold znth, zlen in *. apply combine_nth. lia. Qed.

Lemma zlen_combine {A B} (l : list A) (l' : list B) : zlen l = zlen l' -> zlen (combine l l') = zlen l.
Proof. unfold zlen. rewrite combine_length. lia. Qed.

(* ------------------------------------------------------------------ cell coordinates *)
(* cell number n = my*nx + mx  <->  (mx, my) = (n mod nx, n / nx) *)
Lemma cell_div nx mx my : 0 <= mx < nx -> (my * nx + mx) / nx = my.
Proof. intros H. rewrite Z.add_comm, Z.div_add by lia. rewrite Z.div_small by lia. lia. Qed.
Lemma cell_mod nx mx my : 0 <= mx < nx -> (my * nx + mx) mod nx = mx.
Proof. intros H. rewrite Z.add_comm, Z.mod_add by lia. apply Z.mod_small; lia. Qed.
Lemma cell_range nx ny mx my : 0 <= mx < nx -> 0 <= my < ny -> 0 <= my * nx + mx < nx * ny.
Proof. intros; nia. Qed.
Lemma cell_decompose nx ny n : 1 <= nx -> 0 <= n < nx * ny ->
  n = (n / nx) * nx + n mod nx /\ 0 <= n mod nx < nx /\ 0 <= n / nx < ny.
Proof.
  intros Hx Hn. pose proof (Z.div_mod n nx ltac:(lia)). pose proof (Z.mod_pos_bound n nx ltac:(lia)).
  split; [lia|]. split; [lia|]. split; [apply Z.div_pos; lia|]. apply Z.div_lt_upper_bound; lia.
Qed.

(* ------------------------------------------------------------------ the generated helpers *)
(* The proofs that unfold the GENERATED bodies normalise them first (mod-of-sum idempotence, cell
   coordinates), so that behaviour-preserving rewrites of the Python helpers (an intermediate variable
   x = n % n_horizontal, reordered statements, renamed variables) do not break them. *)
Ltac mod_norm :=
  rewrite ?Zplus_mod_idemp_l, ?Zplus_mod_idemp_r, ?Zminus_mod_idemp_l, ?Zminus_mod_idemp_r, ?Z.mod_mod by lia.
Lemma mod_add_cell nx my t : nx <> 0 -> (my * nx + t) mod nx = t mod nx.
Proof. intros H. rewrite Z.add_comm. now apply Z.mod_add. Qed.

(* _next_cell_number moves cell (mx, my) to ((mx+cx) mod nx, (my+cy) mod ny) *)
Lemma next_cell_number_spec nx ny mx my cx cy :
  1 <= nx -> 0 <= mx < nx ->
  py_next_cell_number nx ny (my * nx + mx) (cx, cy) = ((my + cy) mod ny) * nx + (mx + cx) mod nx.
Proof.
  intros Hx Hm. unfold py_next_cell_number. cbn [fst snd]. cbv zeta.
  repeat first [ rewrite cell_div by lia | rewrite cell_mod by lia ].
  rewrite <- ?Z.add_assoc.
  repeat first [ rewrite mod_add_cell by lia | progress mod_norm ].
  first [ reflexivity | lia | ring ].
Qed.

Lemma next_cell_number_range nx ny n c :
  1 <= nx -> 1 <= ny -> 0 <= py_next_cell_number nx ny n c < nx * ny.
Proof.
  intros Hx Hy. destruct c as [cx cy].
  rewrite (Z.div_mod n nx) by lia. rewrite (Z.mul_comm nx (n / nx)).
  rewrite next_cell_number_spec by (try apply Z.mod_pos_bound; lia).
  pose proof (Z.mod_pos_bound (n / nx + cy) ny ltac:(lia)).
  pose proof (Z.mod_pos_bound (n mod nx + cx) nx ltac:(lia)). nia.
Qed.

(* wrap indicator: for a step c in {-1,0,1} from x in [0,n), (x + c) / n is -1, 0 or +1 *)
Lemma wrap_indicator n x c : 1 <= n -> 0 <= x < n -> -1 <= c <= 1 ->
  (x + c) / n = (if x + c <? 0 then -1 else if n <=? x + c then 1 else 0).
Proof.
  intros Hn Hx Hc.
  destruct (Z.ltb_spec (x + c) 0).
  - symmetry. apply Z.div_unique with (r := x + c + n); lia.
  - destruct (Z.leb_spec n (x + c)).
    + symmetry. apply Z.div_unique with (r := x + c - n); lia.
    + apply Z.div_small. lia.
Qed.

(* _crossing returns the wrap indicator of (m + c), componentwise *)
Lemma crossing_spec nx ny mx my cx cy :
  1 <= nx -> 1 <= ny -> 0 <= mx < nx -> 0 <= my < ny -> -1 <= cx <= 1 -> -1 <= cy <= 1 ->
  py_crossing nx ny (my * nx + mx) (cx, cy) = ((mx + cx) / nx, (my + cy) / ny).
Proof.
  intros Hx Hy Hmx Hmy Hcx Hcy. unfold py_crossing. cbn [fst snd]. cbv zeta.
  rewrite ?cell_div, ?cell_mod by lia.
  rewrite ?(Z.div_small mx nx), ?(Z.div_small my ny), ?(Z.mod_small mx nx), ?(Z.mod_small my ny) by lia.
  rewrite ?(wrap_indicator nx mx cx), ?(wrap_indicator ny my cy) by lia.
  unfold b2z. f_equal.
  - destruct (Z.ltb_spec (mx + cx) 0); [simpl; lia|].
    destruct (Z.leb_spec nx (mx + cx)); simpl; lia.
  - destruct (Z.ltb_spec (my + cy) 0); [simpl; lia|].
    destruct (Z.leb_spec ny (my + cy)); simpl; lia.
Qed.

(* shifting by c and then by -c is the identity on cell numbers: _next_cell_number is a bijection *)
Lemma mod_shift_back n x c : 1 <= n -> 0 <= x < n -> ((x + c) mod n + - c) mod n = x.
Proof.
  intros Hn Hx. rewrite Zplus_mod_idemp_l. replace (x + c + - c) with x by lia. apply Z.mod_small; lia.
Qed.

Lemma next_cell_number_inv nx ny n c :
  1 <= nx -> 1 <= ny -> 0 <= n < nx * ny ->
  py_next_cell_number nx ny (py_next_cell_number nx ny n c) (- fst c, - snd c) = n.
Proof.
  intros Hx Hy Hn. destruct c as [cx cy].
  destruct (cell_decompose nx ny n Hx Hn) as (En & Hmx & Hmy).
  rewrite En at 1. rewrite next_cell_number_spec by lia.
  rewrite next_cell_number_spec by (try apply Z.mod_pos_bound; lia).
  cbn [fst snd]. rewrite !mod_shift_back by lia. lia.
Qed.

Lemma next_cell_number_inv' nx ny n c :
  1 <= nx -> 1 <= ny -> 0 <= n < nx * ny ->
  py_next_cell_number nx ny (py_next_cell_number nx ny n (- fst c, - snd c)) c = n.
Proof.
  intros Hx Hy Hn. pose proof (next_cell_number_inv nx ny n (- fst c, - snd c) Hx Hy Hn) as H.
  cbn [fst snd] in H. rewrite !Z.opp_involutive in H. destruct c; exact H.
Qed.

(* for cells n, m in range: next(n, c) = m  <->  n = next(m, -c) *)
Lemma next_cell_number_iff nx ny n m c :
  1 <= nx -> 1 <= ny -> 0 <= n < nx * ny -> 0 <= m < nx * ny ->
  (py_next_cell_number nx ny n c = m <-> n = py_next_cell_number nx ny m (- fst c, - snd c)).
Proof.
  intros Hx Hy Hn Hm. split; intros H.
  - rewrite <- H. symmetry. apply next_cell_number_inv; lia.
  - rewrite H. apply next_cell_number_inv'; lia.
Qed.

(* ------------------------------------------------------------------ tile_structure *)
Lemma wf_cell_spec c : wf_cell c = true ->
  0 < uc_scale c /\ zlen (uc_edges c) = zlen (uc_crossing c) /\
  (forall e, 0 <= e < n_uedges c ->
     -1 <= fst (znth e (uc_crossing c) (0,0)) <= 1 /\ -1 <= snd (znth e (uc_crossing c) (0,0)) <= 1) /\
  (forall e, 0 <= e < n_uedges c ->
     0 <= fst (znth e (uc_edges c) (0,0)) < n_sites c /\ 0 <= snd (znth e (uc_edges c) (0,0)) < n_sites c).
Proof.
  unfold wf_cell. rewrite !andb_true_iff. intros (((H1 & H2) & H3) & H4).
  split; [lia|]. split; [unfold zlen; apply Nat.eqb_eq in H2; lia|].
  rewrite forallb_forall in H3, H4. apply Nat.eqb_eq in H2. split.
  - intros e He. unfold n_uedges, zlen in He.
    assert (Hin : In (znth e (uc_crossing c) (0,0)) (uc_crossing c)) by (apply nth_In; lia).
    specialize (H3 _ Hin). unfold small_crossing in H3. lia.
  - intros e He. unfold n_uedges, zlen in He.
    assert (Hin : In (znth e (uc_edges c) (0,0)) (uc_edges c)) by (apply nth_In; lia).
    specialize (H4 _ Hin). lia.
Qed.

Lemma tile_edges_length c nx ny : 0 <= nx * ny -> zlen (uc_edges c) = zlen (uc_crossing c) ->
  zlen (tile_edges c nx ny) = nx * ny * n_uedges c.
Proof.
  intros HN Hl. unfold tile_edges. apply zlen_flat_map_zrange; [lia|unfold n_uedges, zlen; lia|].
  intros x _. rewrite zlen_map, zlen_combine by assumption. reflexivity.
Qed.
Lemma tile_crossings_length c nx ny : 0 <= nx * ny -> zlen (uc_edges c) = zlen (uc_crossing c) ->
  zlen (tile_crossings c nx ny) = nx * ny * n_uedges c.
Proof.
  intros HN Hl. unfold tile_crossings. apply zlen_flat_map_zrange; [lia|unfold n_uedges, zlen; lia|].
  intros x _. rewrite zlen_map, zlen_combine by assumption. reflexivity.
Qed.
Lemma tile_sites_length c nx ny : 0 <= nx * ny -> zlen (tile_sites c nx ny) = nx * ny * n_sites c.
Proof.
  intros HN. unfold tile_sites. apply zlen_flat_map_zrange; [lia|unfold n_sites, zlen; lia|].
  intros x _. now rewrite zlen_map.
Qed.
Lemma tile_coloring_length col nx ny : 0 <= nx * ny -> zlen (tile_coloring col nx ny) = nx * ny * zlen col.
Proof.
  intros HN. unfold tile_coloring. apply zlen_flat_map_zrange; [lia|unfold zlen; lia|]. reflexivity.
Qed.

Lemma tile_edges_nth c nx ny n e :
  zlen (uc_edges c) = zlen (uc_crossing c) -> 0 <= n < nx * ny -> 0 <= e < n_uedges c ->
  znth (n * n_uedges c + e) (tile_edges c nx ny) (0,0)
  = tile_edge nx ny (n_sites c) n (znth e (uc_edges c) (0,0), znth e (uc_crossing c) (0,0)).
Proof.
  intros Hl Hn He. unfold tile_edges.
  rewrite znth_flat_map_zrange with (N := nx * ny) (k := n_uedges c); try lia.
  - rewrite znth_map with (d' := ((0,0),(0,0))) by (rewrite zlen_combine by assumption; exact He).
    rewrite znth_combine by (assumption || exact He). reflexivity.
  - intros x _. rewrite zlen_map, zlen_combine by assumption. reflexivity.
Qed.
Lemma tile_crossings_nth c nx ny n e :
  zlen (uc_edges c) = zlen (uc_crossing c) -> 0 <= n < nx * ny -> 0 <= e < n_uedges c ->
  znth (n * n_uedges c + e) (tile_crossings c nx ny) (0,0)
  = py_crossing nx ny n (znth e (uc_crossing c) (0,0)).
Proof.
  intros Hl Hn He. unfold tile_crossings.
  rewrite znth_flat_map_zrange with (N := nx * ny) (k := n_uedges c); try lia.
  - rewrite znth_map with (d' := ((0,0),(0,0))) by (rewrite zlen_combine by assumption; exact He).
    rewrite znth_combine by (assumption || exact He). reflexivity.
  - intros x _. rewrite zlen_map, zlen_combine by assumption. reflexivity.
Qed.
Lemma tile_sites_nth c nx ny n s :
  0 <= n < nx * ny -> 0 <= s < n_sites c ->
  znth (n * n_sites c + s) (tile_sites c nx ny) (0,0) = tile_site c nx n (znth s (uc_points c) (0,0)).
Proof.
  intros Hn Hs. unfold tile_sites.
  rewrite znth_flat_map_zrange with (N := nx * ny) (k := n_sites c); try lia.
  - now rewrite znth_map with (d' := (0,0)) by exact Hs.
  - intros x _. now rewrite zlen_map.
Qed.
Lemma tile_coloring_nth col nx ny n e d :
  0 <= n < nx * ny -> 0 <= e < zlen col ->
  znth (n * zlen col + e) (tile_coloring col nx ny) d = znth e col d.
Proof.
  intros Hn He. unfold tile_coloring.
  rewrite znth_flat_map_zrange with (N := nx * ny) (k := zlen col); try lia; reflexivity.
Qed.

(* The structure theorem of tile_unit_cell (C10 and C08), for ALL nx, ny >= 1 and every well-formed
   unit cell (crossings in {-1,0,1}^2): exactly nx*ny copies; copy (mx,my) of site s sits at
   ((p_s + (mx,my)) / (nx,ny)); copy (mx,my) of edge e = (j,k) with crossing (cx,cy) joins site j of
   cell (mx,my) to site k of cell ((mx+cx) mod nx, (my+cy) mod ny), and its crossing is the wrap
   indicator ((mx+cx) div nx, (my+cy) div ny). *)
Theorem tile_structure (c : unit_cell) (nx ny : Z) :
  1 <= nx -> 1 <= ny -> wf_cell c = true ->
  let T := tile_unit_cell c nx ny in
  let ns := n_sites c in
  let ne := n_uedges c in
  z_scale T = uc_scale c * nx * ny /\
  zlen (z_pos T) = nx * ny * ns /\ zlen (z_edges T) = nx * ny * ne /\ zlen (z_crossing T) = nx * ny * ne /\
  (forall mx my s, 0 <= mx < nx -> 0 <= my < ny -> 0 <= s < ns ->
     znth ((my * nx + mx) * ns + s) (z_pos T) (0,0)
     = ((fst (znth s (uc_points c) (0,0)) + mx * uc_scale c) * ny,
        (snd (znth s (uc_points c) (0,0)) + my * uc_scale c) * nx)) /\
  (forall mx my e, 0 <= mx < nx -> 0 <= my < ny -> 0 <= e < ne ->
     let j := fst (znth e (uc_edges c) (0,0)) in
     let k := snd (znth e (uc_edges c) (0,0)) in
     let cx := fst (znth e (uc_crossing c) (0,0)) in
     let cy := snd (znth e (uc_crossing c) (0,0)) in
     znth ((my * nx + mx) * ne + e) (z_edges T) (0,0)
       = (j + (my * nx + mx) * ns, k + (((my + cy) mod ny) * nx + (mx + cx) mod nx) * ns) /\
     znth ((my * nx + mx) * ne + e) (z_crossing T) (0,0) = ((mx + cx) / nx, (my + cy) / ny)).
Proof.
  intros Hx Hy Hwf. cbv zeta.
  destruct (wf_cell_spec c Hwf) as (HS & Hl & Hcr & Hed).
  assert (HN : 0 <= nx * ny) by nia.
  split; [reflexivity|].
  split; [unfold tile_unit_cell; cbn [z_pos]; rewrite zlen_map; now apply tile_sites_length|].
  split; [now apply tile_edges_length|].
  split; [now apply tile_crossings_length|].
  split.
  - intros mx my s Hmx Hmy Hs. unfold tile_unit_cell. cbn [z_pos].
    pose proof (cell_range nx ny mx my Hmx Hmy) as Hn.
    rewrite znth_map with (d' := (0,0)) by (rewrite tile_sites_length by lia; nia).
    rewrite tile_sites_nth by assumption. unfold tile_site. cbn [fst snd].
    rewrite cell_div, cell_mod by lia. reflexivity.
  - intros mx my e Hmx Hmy He.
    pose proof (cell_range nx ny mx my Hmx Hmy) as Hn.
    unfold tile_unit_cell. cbn [z_edges z_crossing].
    destruct (Hcr e He) as (Hcx & Hcy).
    rewrite tile_edges_nth, tile_crossings_nth by assumption.
    destruct (znth e (uc_crossing c) (0,0)) as [cx cy]. cbn [fst snd] in *.
    unfold tile_edge. cbn [fst snd].
    rewrite next_cell_number_spec by lia. split; [f_equal; lia|].
    apply crossing_spec; assumption.
Qed.

(* the tiled colouring gives copy (n, e) the colour of e *)
Theorem tile_coloring_structure (col : list Z) (nx ny : Z) :
  1 <= nx -> 1 <= ny ->
  zlen (tile_coloring col nx ny) = nx * ny * zlen col /\
  forall n e, 0 <= n < nx * ny -> 0 <= e < zlen col ->
    znth (n * zlen col + e) (tile_coloring col nx ny) 0 = znth e col 0.
Proof.
  intros Hx Hy. split; [apply tile_coloring_length; nia|]. intros. now apply tile_coloring_nth.
Qed.
