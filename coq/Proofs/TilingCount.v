(* Proofs/TilingCount.v — counting edge ends (degrees, colours at a vertex) in lists of edges that are
   laid out cell by cell; the tiled colouring of a proper cell colouring is proper (all nx, ny). *)
From Coq Require Import List ZArith Bool Arith Lia ZifyBool.
From Koala Require Import Gen.TilingGen Model.Lattice Model.Tiling Proofs.TilingFacts.
Import ListNotations.
Open Scope Z_scope.

(* ------------------------------------------------------------------ integer sums *)
Definition zsum (l : list Z) : Z := fold_right Z.add 0 l.

Lemma zsum_app l1 l2 : zsum (l1 ++ l2) = zsum l1 + zsum l2.
Proof. induction l1; simpl; lia. Qed.
Lemma zsum_map_add {A} (f g : A -> Z) l : zsum (map (fun x => f x + g x) l) = zsum (map f l) + zsum (map g l).
Proof. induction l; simpl; lia. Qed.
Lemma zsum_map_mul {A} (a : Z) (f : A -> Z) l : zsum (map (fun x => a * f x) l) = a * zsum (map f l).
Proof. induction l; simpl; lia. Qed.
Lemma zsum_ext {A} (f g : A -> Z) l : (forall x, In x l -> f x = g x) -> zsum (map f l) = zsum (map g l).
Proof.
  induction l; intros H; simpl; [reflexivity|].
  rewrite (H a) by (simpl; auto). rewrite IHl by (intros; apply H; simpl; auto). reflexivity.
Qed.
Lemma zsum_zero {A} (f : A -> Z) l : (forall x, In x l -> f x = 0) -> zsum (map f l) = 0.
Proof.
  induction l; intros H; simpl; [reflexivity|].
  rewrite (H a) by (simpl; auto). rewrite IHl by (intros; apply H; simpl; auto). reflexivity.
Qed.
Lemma zsum_nonneg {A} (f : A -> Z) l : (forall x, In x l -> 0 <= f x) -> 0 <= zsum (map f l).
Proof. induction l; intros H; simpl; [lia|]. pose proof (H a (or_introl eq_refl)). pose proof (IHl (fun x Hx => H x (or_intror Hx))). lia. Qed.
Lemma zsum_swap {A B} (f : A -> B -> Z) l1 l2 :
  zsum (map (fun a => zsum (map (fun b => f a b) l2)) l1) = zsum (map (fun b => zsum (map (fun a => f a b) l1)) l2).
Proof.
  induction l1 as [|a l1 IH]; simpl.
  - symmetry. apply zsum_zero. reflexivity.
  - rewrite IH, <- zsum_map_add. reflexivity.
Qed.
Lemma zsum_flat_map {A B} (g : B -> Z) (f : A -> list B) l :
  zsum (map g (flat_map f l)) = zsum (map (fun x => zsum (map g (f x))) l).
Proof. induction l; simpl; [reflexivity|]. rewrite map_app, zsum_app, IHl. reflexivity. Qed.

(* a sum with a single non-zero term *)
Lemma zsum_delta {A} (f : A -> Z) (l : list A) (p : A) :
  NoDup l -> In p l -> (forall x, In x l -> x <> p -> f x = 0) -> zsum (map f l) = f p.
Proof.
  induction l as [|a l IH]; intros Hnd Hin Hz; [contradiction|]. simpl.
  inversion Hnd as [|? ? Hna Hnd']; subst. destruct Hin as [->|Hin].
  - rewrite zsum_zero; [lia|]. intros x Hx. apply Hz; [simpl; auto|]. intros ->. contradiction.
  - rewrite IH by (auto; intros; apply Hz; simpl; auto). rewrite Hz; [lia|simpl; auto|]. intros ->. contradiction.
Qed.
Lemma zsum_zrange_delta (f : Z -> Z) (N p : Z) :
  0 <= p < N -> (forall x, 0 <= x < N -> x <> p -> f x = 0) -> zsum (map f (zrange N)) = f p.
Proof.
  intros Hp Hz. apply zsum_delta; [apply NoDup_zrange|now apply In_zrange|].
  intros x Hx. apply Hz. now apply In_zrange.
Qed.

(* ------------------------------------------------------------------ counting *)
Definition zcount (x : Z) (l : list Z) : Z := zsum (map (fun y => b2z (y =? x)) l).
Definition ends_at (v : Z) (e : Z * Z) : Z := b2z (fst e =? v) + b2z (snd e =? v).
(* number of edge ends of colour x at vertex v *)
Definition cnt (es : list (Z * Z)) (col : list Z) (v x : Z) : Z :=
  zsum (map (fun ec : (Z * Z) * Z => b2z (snd ec =? x) * ends_at v (fst ec)) (combine es col)).
Definition deg (es : list (Z * Z)) (v : Z) : Z := zsum (map (ends_at v) es).

Lemma b2z_range b : 0 <= b2z b <= 1.
Proof. destruct b; simpl; lia. Qed.
Lemma ends_at_nonneg v e : 0 <= ends_at v e.
Proof. unfold ends_at. pose proof (b2z_range (fst e =? v)). pose proof (b2z_range (snd e =? v)). lia. Qed.

Lemma zcount_nonneg x l : 0 <= zcount x l.
Proof. apply zsum_nonneg. intros. apply b2z_range. Qed.
Lemma zcount_cons x a l : zcount x (a :: l) = b2z (a =? x) + zcount x l.
Proof. reflexivity. Qed.
Lemma zcount_app x l1 l2 : zcount x (l1 ++ l2) = zcount x l1 + zcount x l2.
Proof. unfold zcount. now rewrite map_app, zsum_app. Qed.
Lemma zcount_zero_existsb x l : zcount x l = 0 -> existsb (Z.eqb x) l = false.
Proof.
  induction l as [|a l IH]; intros H; [reflexivity|]. rewrite zcount_cons in H.
  pose proof (zcount_nonneg x l). pose proof (b2z_range (a =? x)). simpl.
  rewrite IH by lia. destruct (Z.eqb_spec a x); cbn [b2z] in *; [lia|].
  destruct (Z.eqb_spec x a); [congruence|reflexivity].
Qed.
Lemma existsb_false_zcount x l : existsb (Z.eqb x) l = false -> zcount x l = 0.
Proof.
  induction l as [|a l IH]; intros H; [reflexivity|]. simpl in H. apply orb_false_iff in H as (H1 & H2).
  rewrite zcount_cons, IH by assumption. destruct (Z.eqb_spec a x); [subst; rewrite Z.eqb_refl in H1; discriminate|reflexivity].
Qed.

Lemma znodup_of_counts l : (forall x, zcount x l <= 1) -> znodup l = true.
Proof.
  induction l as [|a l IH]; intros H; [reflexivity|]. simpl. apply andb_true_iff. split.
  - apply negb_true_iff, zcount_zero_existsb. specialize (H a). rewrite zcount_cons, Z.eqb_refl in H.
    pose proof (zcount_nonneg a l). cbn [b2z] in H. lia.
  - apply IH. intros x. specialize (H x). rewrite zcount_cons in H. pose proof (b2z_range (a =? x)). lia.
Qed.
Lemma counts_of_znodup l : znodup l = true -> forall x, zcount x l <= 1.
Proof.
  induction l as [|a l IH]; intros H x; [unfold zcount; simpl; lia|]. simpl in H.
  apply andb_true_iff in H as (H1 & H2). apply negb_true_iff in H1. rewrite zcount_cons.
  specialize (IH H2 x). destruct (Z.eqb_spec a x); cbn [b2z]; [|lia]. subst. rewrite existsb_false_zcount by assumption. lia.
Qed.

Lemma zcount_incident es col v x : zcount x (incident_colors es col v) = cnt es col v x.
Proof.
  unfold incident_colors, cnt. induction (combine es col) as [|[e c] l IH]; [reflexivity|].
  cbn [flat_map map fst snd]. rewrite !zcount_app, IH. unfold ends_at. cbn [fst snd].
  destruct (fst e =? v), (snd e =? v); unfold zcount, zsum; cbn [map fold_right b2z]; lia.
Qed.

Lemma zdegree_deg es v : zdegree es v = deg es v.
Proof. unfold zdegree, deg, ends_at. induction es; simpl; lia. Qed.

(* proper_coloring through counts *)
Lemma proper_coloring_intro nv es col :
  length col = length es -> (forall c, In c col -> 0 <= c <= 2) ->
  (forall v x, 0 <= v < nv -> cnt es col v x <= 1) -> proper_coloring nv es col = true.
Proof.
  intros Hl Hc Hcnt. unfold proper_coloring. rewrite !andb_true_iff. split; [split|].
  - now apply Nat.eqb_eq.
  - apply forallb_forall. intros c Hin. specialize (Hc c Hin). lia.
  - apply forallb_forall. intros v Hv. apply In_zrange in Hv. apply znodup_of_counts.
    intros x. rewrite zcount_incident. now apply Hcnt.
Qed.
Lemma proper_coloring_elim nv es col : proper_coloring nv es col = true ->
  length col = length es /\ (forall c, In c col -> 0 <= c <= 2) /\
  (forall v x, 0 <= v < nv -> cnt es col v x <= 1).
Proof.
  unfold proper_coloring. rewrite !andb_true_iff. intros ((H1 & H2) & H3).
  split; [now apply Nat.eqb_eq|]. split.
  - intros c Hin. rewrite forallb_forall in H2. specialize (H2 c Hin). lia.
  - intros v x Hv. rewrite forallb_forall in H3. rewrite <- zcount_incident.
    apply counts_of_znodup. apply H3. now apply In_zrange.
Qed.

(* ------------------------------------------------------------------ block structure *)
Lemma combine_app' {A B} (l1 : list A) (l1' : list B) l2 l2' :
  length l1 = length l1' -> combine (l1 ++ l2) (l1' ++ l2') = combine l1 l1' ++ combine l2 l2'.
Proof.
  revert l1'. induction l1 as [|a l1 IH]; intros [|b l1'] H; simpl in *; try discriminate; [reflexivity|].
  f_equal. apply IH. lia.
Qed.
Lemma cnt_app es1 col1 es2 col2 v x : length es1 = length col1 ->
  cnt (es1 ++ es2) (col1 ++ col2) v x = cnt es1 col1 v x + cnt es2 col2 v x.
Proof. intros Hl. unfold cnt. rewrite combine_app' by assumption. now rewrite map_app, zsum_app. Qed.
Lemma deg_app es1 es2 v : deg (es1 ++ es2) v = deg es1 v + deg es2 v.
Proof. unfold deg. now rewrite map_app, zsum_app. Qed.

Lemma cnt_flat_map {A} (f : A -> list (Z * Z)) (g : A -> list Z) l v x :
  (forall a, In a l -> length (f a) = length (g a)) ->
  cnt (flat_map f l) (flat_map g l) v x = zsum (map (fun a => cnt (f a) (g a) v x) l).
Proof. intros H. unfold cnt. rewrite combine_flat_map by assumption. apply zsum_flat_map. Qed.
Lemma deg_flat_map {A} (f : A -> list (Z * Z)) l v :
  deg (flat_map f l) v = zsum (map (fun a => deg (f a) v) l).
Proof. unfold deg. apply zsum_flat_map. Qed.
Lemma deg_map {A} (f : A -> Z * Z) l v : deg (map f l) v = zsum (map (fun a => ends_at v (f a)) l).
Proof. unfold deg. now rewrite map_map. Qed.

(* a + K*h = K*m + r with 0 <= a, r < K *)
Lemma affine_eq_iff K a r h m : 0 <= a < K -> 0 <= r < K -> (a + K * h = K * m + r <-> a = r /\ h = m).
Proof.
  intros Ha Hr. split; [|intros (-> & ->); lia]. intros H.
  assert (h = m) by nia. subst. lia.
Qed.

(* a bijection of the cells [0,N) given with its inverse *)
Definition cell_bij (N : Z) (h hinv : Z -> Z) : Prop :=
  (forall c, 0 <= c < N -> 0 <= h c < N) /\ (forall m, 0 <= m < N -> 0 <= hinv m < N) /\
  (forall c m, 0 <= c < N -> 0 <= m < N -> (h c = m <-> c = hinv m)).

Lemma cell_bij_id N : cell_bij N (fun c => c) (fun m => m).
Proof. repeat split; intros; subst; auto; lia. Qed.

Lemma next_cell_bij nx ny c : 1 <= nx -> 1 <= ny ->
  cell_bij (nx * ny) (fun n => py_next_cell_number nx ny n c) (fun m => py_next_cell_number nx ny m (- fst c, - snd c)).
Proof.
  intros Hx Hy. split; [|split].
  - intros. now apply next_cell_number_range.
  - intros. now apply next_cell_number_range.
  - intros. now apply next_cell_number_iff.
Qed.

(* how many cells c have  a + K*h(c) = K*m + r  : one if a = r, none otherwise *)
Lemma zsum_affine_delta N K h hinv a m r :
  cell_bij N h hinv -> 0 <= a < K -> 0 <= r < K -> 0 <= m < N ->
  zsum (map (fun c => b2z (a + K * h c =? K * m + r)) (zrange N)) = b2z (a =? r).
Proof.
  intros (Hh & Hi & Hb) Ha Hr Hm.
  rewrite zsum_zrange_delta with (p := hinv m).
  - assert (h (hinv m) = m) by (apply Hb; auto). rewrite H.
    destruct (Z.eqb_spec a r), (Z.eqb_spec (a + K * m) (K * m + r)); try reflexivity; lia.
  - auto.
  - intros c Hc Hne. destruct (Z.eqb_spec (a + K * h c) (K * m + r)) as [E|]; [|reflexivity].
    apply affine_eq_iff in E as (_ & E); [|lia|lia]. apply Hb in E; auto. contradiction.
Qed.

(* weighted version: sum_c w * [a + K h(c) = K m + r] *)
Lemma zsum_affine_delta_w N K h hinv a m r w :
  cell_bij N h hinv -> 0 <= a < K -> 0 <= r < K -> 0 <= m < N ->
  zsum (map (fun c => w * b2z (a + K * h c =? K * m + r)) (zrange N)) = w * b2z (a =? r).
Proof. intros. rewrite zsum_map_mul. f_equal. eapply zsum_affine_delta; eauto. Qed.

(* ------------------------------------------------------------------ the tiled colouring is proper *)
(* ends of colour x at site s of cell m in the tiling = ends of colour x at site s in the unit cell *)
Lemma cnt_tile (c : unit_cell) (col : list Z) (nx ny m s x : Z) :
  1 <= nx -> 1 <= ny -> wf_cell c = true -> zlen col = n_uedges c ->
  0 <= m < nx * ny -> 0 <= s < n_sites c ->
  cnt (tile_edges c nx ny) (tile_coloring col nx ny) (n_sites c * m + s) x = cnt (uc_edges c) col s x.
Proof.
  intros Hx Hy Hwf Hcol Hm Hs.
  destruct (wf_cell_spec c Hwf) as (HS & Hl & Hcr & Hed).
  set (ns := n_sites c) in *.
  unfold tile_edges, tile_coloring.
  rewrite cnt_flat_map.
  2:{ intros a _. rewrite map_length, combine_length. unfold n_uedges, zlen in *. lia. }
  (* per cell: a sum over the unit edges *)
  set (U := combine (combine (uc_edges c) (uc_crossing c)) col).
  assert (Hcell : forall n, cnt (map (tile_edge nx ny ns n) (combine (uc_edges c) (uc_crossing c))) col (ns * m + s) x
                  = zsum (map (fun u : ((Z * Z) * (Z * Z)) * Z =>
                                 b2z (snd u =? x) * ends_at (ns * m + s) (tile_edge nx ny ns n (fst u))) U)).
  { intros n. unfold cnt, U. generalize (combine (uc_edges c) (uc_crossing c)) col.
    induction l as [|a l IH]; intros [|y ys]; simpl; try reflexivity. rewrite IH. reflexivity. }
  rewrite (zsum_ext _ _ _ (fun n _ => Hcell n)).
  rewrite zsum_swap.
  (* the unit cell's own count, over the same list U *)
  assert (Hunit : cnt (uc_edges c) col s x
                  = zsum (map (fun u : ((Z * Z) * (Z * Z)) * Z => b2z (snd u =? x) * ends_at s (fst (fst u))) U)).
  { unfold cnt, U. assert (Hlen : length (uc_edges c) = length (uc_crossing c)) by (unfold zlen in Hl; lia).
    revert Hlen. generalize (uc_edges c) (uc_crossing c) col.
    induction l as [|a l IH]; intros [|b l'] [|y ys] Hlen; simpl in *; try reflexivity; try discriminate.
    rewrite (IH l' ys) by lia. reflexivity. }
  rewrite Hunit. apply zsum_ext. intros [[e cr] y] Hin. cbn [fst snd].
  (* e is an edge of the cell: its ends are sites *)
  assert (He : 0 <= fst e < ns /\ 0 <= snd e < ns /\ -1 <= fst cr <= 1).
  { unfold U in Hin. apply in_combine_l in Hin.
    destruct (In_nth _ _ ((0,0),(0,0)) Hin) as (i & Hi & Ei).
    rewrite combine_length in Hi. unfold zlen in Hl.
    assert (Hr : 0 <= Z.of_nat i < n_uedges c) by (unfold n_uedges, zlen; lia).
    rewrite combine_nth in Ei by lia. injection Ei as E1 E2.
    destruct (Hed _ Hr) as (Ha & Hb). destruct (Hcr _ Hr) as (Hc & _).
    unfold znth in *. rewrite Nat2Z.id in *. rewrite E1 in *. rewrite E2 in *. fold ns in Ha, Hb. lia. }
  destruct He as (Hj & Hk & _).
  rewrite zsum_map_mul. f_equal. unfold ends_at, tile_edge. cbn [fst snd].
  rewrite zsum_map_add. f_equal.
  - rewrite (zsum_ext _ (fun n => b2z (fst e + ns * n =? ns * m + s))) by (intros; do 2 f_equal; lia).
    apply zsum_affine_delta with (h := fun n => n) (hinv := fun n => n); auto using cell_bij_id.
  - apply zsum_affine_delta with (h := fun n => py_next_cell_number nx ny n cr)
                                 (hinv := fun n => py_next_cell_number nx ny n (- fst cr, - snd cr)); auto.
    now apply next_cell_bij.
Qed.

(* The tiled colouring of a proper 3-edge-colouring of the unit cell (as a periodic graph: no two of the
   edge ends meeting at a site share a colour) is a proper 3-edge-colouring of the nx x ny tiling,
   for ALL nx, ny >= 1. *)
Theorem tile_coloring_proper (c : unit_cell) (col : list Z) (nx ny : Z) :
  1 <= nx -> 1 <= ny -> wf_cell c = true ->
  proper_coloring (n_sites c) (uc_edges c) col = true ->
  proper_coloring (nx * ny * n_sites c) (tile_edges c nx ny) (tile_coloring col nx ny) = true.
Proof.
  intros Hx Hy Hwf Hp.
  apply proper_coloring_elim in Hp as (Hlen & Hrange & Hcnt).
  destruct (wf_cell_spec c Hwf) as (HS & Hl & _).
  assert (HN : 0 <= nx * ny) by nia.
  assert (Hcol : zlen col = n_uedges c) by (unfold n_uedges, zlen; lia).
  apply proper_coloring_intro.
  - pose proof (tile_edges_length c nx ny HN Hl) as E1. pose proof (tile_coloring_length col nx ny HN) as E2.
    rewrite Hcol in E2. rewrite <- E1 in E2. unfold zlen in E2. lia.
  - intros y Hy'. unfold tile_coloring in Hy'. apply in_flat_map in Hy' as (_ & _ & Hy'). auto.
  - intros v x Hv.
    assert (Hns : 0 < n_sites c) by nia.
    pose proof (Z.div_mod v (n_sites c) ltac:(lia)) as Ev.
    pose proof (Z.mod_pos_bound v (n_sites c) Hns) as Hs.
    assert (Hm : 0 <= v / n_sites c < nx * ny).
    { split; [apply Z.div_pos; lia|]. apply Z.div_lt_upper_bound; lia. }
    rewrite Ev. rewrite cnt_tile by assumption. apply Hcnt. assumption.
Qed.
