(* Proofs/TruncateDegrees.v — (C) truncate_degrees: coordination numbers of the lattice returned by
   vertices_to_polygon (closed form trunc_spec of Proofs/TruncateFacts.v).
     every new corner has degree 3; vertices that are not truncated keep their degree.
   Degree = count_ends of Model/Lattice.v.  Unbounded, by induction over lists. *)
From Coq Require Import List ZArith Bool Arith Lia Permutation.
From Koala Require Import Model.Lattice Model.Truncate Proofs.TruncateFacts.
Import ListNotations.
Local Open Scope nat_scope.

(* ------------------------------------------------------------------ sums over lists *)
Definition nsum {A} (g : A -> nat) (l : list A) : nat := fold_right (fun e acc => g e + acc) 0 l.

Lemma nsum_cons {A} (g : A -> nat) x l : nsum g (x :: l) = g x + nsum g l.
Proof. reflexivity. Qed.

Lemma nsum_app {A} (g : A -> nat) l1 l2 : nsum g (l1 ++ l2) = nsum g l1 + nsum g l2.
Proof.
  induction l1 as [|x l1 IH]; [reflexivity|]. cbn [app]. rewrite !nsum_cons, IH. lia.
Qed.

Lemma nsum_ext_in {A} (g h : A -> nat) l : (forall e, In e l -> g e = h e) -> nsum g l = nsum h l.
Proof.
  induction l as [|x l IH]; intros H; [reflexivity|]. rewrite !nsum_cons.
  rewrite IH by (intros; apply H; right; assumption). rewrite H by (left; reflexivity). reflexivity.
Qed.

Lemma nsum_zero {A} (g : A -> nat) l : (forall e, In e l -> g e = 0) -> nsum g l = 0.
Proof.
  induction l as [|x l IH]; intros H; [reflexivity|]. rewrite nsum_cons.
  rewrite IH by (intros; apply H; right; assumption). rewrite H by (left; reflexivity). reflexivity.
Qed.

Lemma nsum_add {A} (g h : A -> nat) l : nsum (fun e => g e + h e) l = nsum g l + nsum h l.
Proof.
  induction l as [|x l IH]; [reflexivity|]. rewrite !nsum_cons, IH. lia.
Qed.

Lemma nsum_single (g : nat -> nat) l a :
  NoDup l -> In a l -> (forall e, In e l -> e <> a -> g e = 0) -> nsum g l = g a.
Proof.
  intros Hnd; induction Hnd as [|y r Hy Hnd IH]; intros Hin Hz; [destruct Hin|].
  rewrite nsum_cons. destruct (Nat.eq_dec y a) as [E|E].
  - subst y. rewrite nsum_zero; [lia|]. intros e He. apply Hz; [right; exact He|]. intros ->. contradiction.
  - destruct Hin as [Hin|Hin]; [congruence|]. rewrite (Hz y) by (simpl; auto).
    rewrite IH; [reflexivity | exact Hin |]. intros e He. apply Hz. right; exact He.
Qed.

(* ------------------------------------------------------------------ count_ends as a sum *)
Definition term (x : nat) (p : nat * nat) : nat :=
  (if fst p =? x then 1 else 0) + (if snd p =? x then 1 else 0).
Definition cnt (x : nat) (l : list (nat * nat)) : nat := nsum (term x) l.

Lemma count_ends_cnt M x : count_ends M x = cnt x (edges M).
Proof. reflexivity. Qed.

Lemma cnt_app x l1 l2 : cnt x (l1 ++ l2) = cnt x l1 + cnt x l2.
Proof. apply nsum_app. Qed.

Lemma cnt_map {A} x (f : A -> nat * nat) l : cnt x (map f l) = nsum (fun a => term x (f a)) l.
Proof.
  induction l as [|a l IH]; [reflexivity|]. cbn [map]. unfold cnt in *. rewrite !nsum_cons, IH. reflexivity.
Qed.

Lemma cnt_flat_map {A} x (f : A -> list (nat * nat)) l : cnt x (flat_map f l) = nsum (fun a => cnt x (f a)) l.
Proof.
  induction l as [|a l IH]; [reflexivity|]. cbn [flat_map]. rewrite cnt_app, IH. reflexivity.
Qed.

Lemma edges_map L : edges L = map (edge_at L) (seq 0 (nE L)).
Proof.
  apply (nth_ext _ _ (0, 0) (0, 0)).
  - rewrite map_length, seq_length. reflexivity.
  - intros e He. rewrite nth_map_seq by exact He. reflexivity.
Qed.

(* ------------------------------------------------------------------ the index intervals of the blocks *)
Lemma blklen_pos L vs n : is_truncated L vs n = false -> blklen L vs n = 1.
Proof. unfold blklen. intros ->. reflexivity. Qed.

Lemma base_index_lt L vs w v : w < v -> base_index L vs w + blklen L vs w <= base_index L vs v.
Proof.
  induction v as [|v IH]; intros H; [lia|]. rewrite base_index_S.
  destruct (Nat.eq_dec w v) as [->|E]; [lia|]. assert (w < v) by lia. specialize (IH H0). lia.
Qed.

Lemma interval_inj L vs w v a :
  base_index L vs w <= a < base_index L vs w + blklen L vs w ->
  base_index L vs v <= a < base_index L vs v + blklen L vs v -> w = v.
Proof.
  intros Hw Hv. destruct (Nat.lt_trichotomy w v) as [H|[H|H]]; [|exact H|].
  - pose proof (base_index_lt L vs w v H). lia.
  - pose proof (base_index_lt L vs v w H). lia.
Qed.

Lemma newidx_range L vs w e :
  In e (sorted_adj L w) ->
  base_index L vs w <= newidx L vs w e < base_index L vs w + blklen L vs w.
Proof.
  intros Hin. unfold newidx, blklen. destruct (is_truncated L vs w); [|lia].
  pose proof (pos_in_lt _ _ Hin). lia.
Qed.

Lemma newidx_hit L vs w e v u :
  In e (sorted_adj L w) -> u < blklen L vs v ->
  (newidx L vs w e = base_index L vs v + u <->
   w = v /\ (if is_truncated L vs v then pos_in e (sorted_adj L v) else 0) = u).
Proof.
  intros Hin Hu. split.
  - intros H. assert (w = v).
    { apply (interval_inj L vs w v (newidx L vs w e)); [apply newidx_range; exact Hin|]. lia. }
    subst w. split; [reflexivity|]. unfold newidx in H. lia.
  - intros [-> H]. unfold newidx. lia.
Qed.

(* ------------------------------------------------------------------ polygon part *)
Lemma cnt_aeblk_other L vs w v u :
  w <> v -> u < blklen L vs v -> cnt (base_index L vs v + u) (aeblk L vs w) = 0.
Proof.
  intros Hwv Hu. unfold aeblk, aeblk_rt. destruct (is_truncated L vs w) eqn:Htr; [|reflexivity].
  rewrite cnt_map. apply nsum_zero. intros y Hy. apply in_seq in Hy.
  assert (Hm : Nat.modulo (y + 1) (length (sorted_adj L w)) < length (sorted_adj L w))
    by (apply Nat.mod_upper_bound; lia).
  unfold term. cbn [fst snd].
  destruct (Nat.eqb_spec (base_index L vs w + y) (base_index L vs v + u)) as [A|A].
  { exfalso. apply Hwv. apply (interval_inj L vs w v (base_index L vs w + y)); unfold blklen in *; rewrite ?Htr; lia. }
  destruct (Nat.eqb_spec (base_index L vs w + Nat.modulo (y + 1) (length (sorted_adj L w)))
                         (base_index L vs v + u)) as [B|B]; [|reflexivity].
  exfalso. apply Hwv.
  apply (interval_inj L vs w v (base_index L vs w + Nat.modulo (y + 1) (length (sorted_adj L w))));
    unfold blklen in *; rewrite ?Htr; lia.
Qed.

Lemma cnt_aeblk_self L vs v u :
  is_truncated L vs v = true -> u < length (sorted_adj L v) ->
  cnt (base_index L vs v + u) (aeblk L vs v) = 2.
Proof.
  intros Htr Hu. unfold aeblk, aeblk_rt. rewrite Htr. rewrite cnt_map.
  set (d := length (sorted_adj L v)) in *. set (b := base_index L vs v).
  unfold term. cbn [fst snd]. rewrite nsum_add.
  rewrite (nsum_single _ (seq 0 d) u); [| apply seq_NoDup | apply in_seq; lia |].
  2:{ intros y _ Hy. destruct (Nat.eqb_spec (b + y) (b + u)); [lia|reflexivity]. }
  assert (Hp : Nat.modulo (u + d - 1) d < d) by (apply Nat.mod_upper_bound; lia).
  rewrite (nsum_single _ (seq 0 d) (Nat.modulo (u + d - 1) d)); [| apply seq_NoDup | apply in_seq; lia |].
  2:{ intros y Hy Hne. apply in_seq in Hy.
      destruct (Nat.eqb_spec (b + Nat.modulo (y + 1) d) (b + u)) as [E|E]; [|reflexivity].
      exfalso. apply Hne. symmetry. apply pred_mod_iff; lia. }
  rewrite Nat.eqb_refl.
  assert (E : u = Nat.modulo (Nat.modulo (u + d - 1) d + 1) d) by (apply pred_mod_iff; [lia|exact Hp|reflexivity]).
  rewrite <- E, Nat.eqb_refl. reflexivity.
Qed.

Lemma cnt_poly_corner L vs v u :
  v < nV L -> is_truncated L vs v = true -> u < length (sorted_adj L v) ->
  cnt (base_index L vs v + u) (flat_map (aeblk L vs) (seq 0 (nV L))) = 2.
Proof.
  intros Hv Htr Hu. rewrite cnt_flat_map.
  rewrite (nsum_single _ (seq 0 (nV L)) v); [| apply seq_NoDup | apply in_seq; lia |].
  - apply cnt_aeblk_self; assumption.
  - intros w _ Hw. apply cnt_aeblk_other; [exact Hw|]. unfold blklen. rewrite Htr. exact Hu.
Qed.

(* untouched vertices appear in no polygon *)
Lemma cnt_poly_untouched L vs v :
  is_truncated L vs v = false ->
  cnt (base_index L vs v) (flat_map (aeblk L vs) (seq 0 (nV L))) = 0.
Proof.
  intros Htr. rewrite cnt_flat_map. apply nsum_zero. intros w _.
  destruct (Nat.eq_dec w v) as [->|Hw].
  - unfold aeblk, aeblk_rt. rewrite Htr. reflexivity.
  - rewrite <- (Nat.add_0_r (base_index L vs v)). apply cnt_aeblk_other; [exact Hw|].
    rewrite blklen_pos by exact Htr. lia.
Qed.

(* ------------------------------------------------------------------ original part *)
Lemma cnt_orig_corner L vs v u :
  good L -> v < nV L -> is_truncated L vs v = true -> u < length (sorted_adj L v) ->
  cnt (base_index L vs v + u) (oe_spec L vs) = 1.
Proof.
  intros Hg Hv Htr Hu. unfold oe_spec. rewrite cnt_map.
  set (es := nth u (sorted_adj L v) 0).
  assert (Hes : In es (sorted_adj L v)) by (apply nth_In; exact Hu).
  pose proof (proj1 (in_sorted_adj_ends L v es) Hes) as [Hes_lt Hes_end].
  assert (Hub : u < blklen L vs v) by (unfold blklen; rewrite Htr; exact Hu).
  rewrite (nsum_ext_in _ (fun e => if e =? es then 1 else 0)).
  - rewrite (nsum_single _ (seq 0 (nE L)) es); [| apply seq_NoDup | apply in_seq; lia |].
    + rewrite Nat.eqb_refl. reflexivity.
    + intros e _ Hne. destruct (Nat.eqb_spec e es); [contradiction|reflexivity].
  - intros e He. apply in_seq in He. assert (He' : e < nE L) by lia.
    destruct (good_edge L e Hg He') as (Hj & Hk & Hjk).
    set (j := fst (edge_at L e)) in *. set (k := snd (edge_at L e)) in *.
    assert (Hinj : In e (sorted_adj L j)) by (apply in_sorted_adj_ends; auto).
    assert (Hink : In e (sorted_adj L k)) by (apply in_sorted_adj_ends; auto).
    pose proof (newidx_hit L vs j e v u Hinj Hub) as HJ.
    pose proof (newidx_hit L vs k e v u Hink Hub) as HK.
    rewrite Htr in HJ, HK.
    unfold term. cbn [fst snd].
    destruct (Nat.eqb_spec (newidx L vs j e) (base_index L vs v + u)) as [A|A];
      destruct (Nat.eqb_spec (newidx L vs k e) (base_index L vs v + u)) as [B|B];
      destruct (Nat.eqb_spec e es) as [C|C]; try reflexivity; exfalso.
    + apply HJ in A. apply HK in B. destruct A, B. congruence.
    + apply HJ in A. apply HK in B. destruct A, B. congruence.
    + apply HJ in A. destruct A as [Ej Ep]. apply C. unfold es. rewrite <- Ep.
      symmetry. apply nth_pos_in. rewrite <- Ej. exact Hinj.
    + apply HK in B. destruct B as [Ek Ep]. apply C. unfold es. rewrite <- Ep.
      symmetry. apply nth_pos_in. rewrite <- Ek. exact Hink.
    + subst e. assert (Hp : pos_in es (sorted_adj L v) = u).
      { unfold es. apply pos_in_nth; [apply sorted_adj_NoDup|exact Hu]. }
      destruct Hes_end as [E|E].
      * apply A. apply HJ. split; [exact E|exact Hp].
      * apply B. apply HK. split; [exact E|exact Hp].
Qed.

Lemma cnt_orig_untouched L vs v :
  good L -> v < nV L -> is_truncated L vs v = false ->
  cnt (base_index L vs v) (oe_spec L vs) = count_ends L v.
Proof.
  intros Hg Hv Htr. rewrite count_ends_cnt, (edges_map L). unfold oe_spec. rewrite !cnt_map.
  apply nsum_ext_in. intros e He. apply in_seq in He. assert (He' : e < nE L) by lia.
  destruct (good_edge L e Hg He') as (Hj & Hk & Hjk).
  set (j := fst (edge_at L e)) in *. set (k := snd (edge_at L e)) in *.
  assert (Hinj : In e (sorted_adj L j)) by (apply in_sorted_adj_ends; auto).
  assert (Hink : In e (sorted_adj L k)) by (apply in_sorted_adj_ends; auto).
  assert (Hub : 0 < blklen L vs v) by (rewrite blklen_pos by exact Htr; lia).
  pose proof (newidx_hit L vs j e v 0 Hinj Hub) as HJ.
  pose proof (newidx_hit L vs k e v 0 Hink Hub) as HK.
  rewrite Htr, Nat.add_0_r in HJ, HK.
  unfold term. cbn [fst snd]. fold j k.
  f_equal.
  - destruct (Nat.eqb_spec (newidx L vs j e) (base_index L vs v)) as [A|A], (Nat.eqb_spec j v) as [B|B];
      try reflexivity; exfalso.
    + apply HJ in A. tauto.
    + apply A, HJ. auto.
  - destruct (Nat.eqb_spec (newidx L vs k e) (base_index L vs v)) as [A|A], (Nat.eqb_spec k v) as [B|B];
      try reflexivity; exfalso.
    + apply HK in A. tauto.
    + apply A, HK. auto.
Qed.

(* ================================================================== (C) truncate_degrees *)
(* (C) 1: every new corner has coordination number 3 (one original edge + two polygon edges) *)
Theorem truncate_degrees_corner L vs v u :
  good L -> v < nV L -> is_truncated L vs v = true -> u < length (sorted_adj L v) ->
  count_ends (trunc_spec L vs) (base_index L vs v + u) = 3.
Proof.
  intros Hg Hv Htr Hu. rewrite count_ends_cnt. unfold trunc_spec. cbn [edges].
  rewrite cnt_app, cnt_orig_corner, cnt_poly_corner by assumption. reflexivity.
Qed.

(* (C) 2: vertices that are not truncated keep their coordination number *)
Theorem truncate_degrees_untouched L vs v :
  good L -> v < nV L -> is_truncated L vs v = false ->
  count_ends (trunc_spec L vs) (base_index L vs v) = count_ends L v.
Proof.
  intros Hg Hv Htr. rewrite (count_ends_cnt (trunc_spec L vs)). unfold trunc_spec. cbn [edges].
  rewrite cnt_app, cnt_orig_untouched, cnt_poly_untouched by assumption. lia.
Qed.

Theorem truncate_degrees L vs :
  wf_lattice L = true -> no_self_loops L = true ->
  exists L', vertices_to_polygon L vs = Some L' /\
    (forall v u, v < nV L -> is_truncated L vs v = true -> u < length (sorted_adj L v) ->
       count_ends L' (base_index L vs v + u) = 3) /\
    (forall v, v < nV L -> is_truncated L vs v = false ->
       count_ends L' (base_index L vs v) = count_ends L v).
Proof.
  intros Hwf Hnl. assert (Hg : good L) by (split; assumption).
  exists (trunc_spec L vs). split; [apply vertices_to_polygon_spec; exact Hg|]. split.
  - intros v u Hv Htr Hu. apply truncate_degrees_corner; assumption.
  - intros v Hv Htr. apply truncate_degrees_untouched; assumption.
Qed.
