(* Proofs/CoverFacts.v — "every edge appears in full ... and nowhere twice":
   the clip intervals of different integer translates of one segment do not overlap, and
   over the nine translates of plot_edges their lengths sum to 1 (interval arithmetic on the
   parameter t over Q). *)
From Coq Require Import List ZArith QArith Bool Qminmax Qabs Lqa Lia.
From Koala Require Import Model.Clip Model.Plot Proofs.ClipFacts Proofs.VisFacts.
Import ListNotations.
Open Scope Q_scope.

(* ---------- different translates do not overlap ---------- *)
(* no axis-aligned segment lying on a cell line *)
Definition off_cell_lines (s : seg) : Prop :=
  (px (seg_start s) == px (seg_end s) -> forall k : Z, ~ px (seg_end s) == inject_Z k) /\
  (py (seg_start s) == py (seg_end s) -> forall k : Z, ~ py (seg_end s) == inject_Z k).

Lemma inject_Z_lt_succ (a b : Z) : (a < b)%Z -> inject_Z a + 1 <= inject_Z b.
Proof.
  intro H. assert (H' : (a + 1 <= b)%Z) by lia. apply inject_Z_ge in H'.
  rewrite inject_Z_plus in H'. exact H'.
Qed.

(* one coordinate: c(t)+n1 and c(t)+n2 both in [0,1] at two different parameters, n1 <> n2:
   the coordinate is constant and an integer *)
Lemma axis_two_cells (a b t1 t2 : Q) (n1 n2 : Z) :
  t1 < t2 -> n1 <> n2 ->
  0 <= lerp a b t1 + inject_Z n1 -> lerp a b t1 + inject_Z n1 <= 1 ->
  0 <= lerp a b t1 + inject_Z n2 -> lerp a b t1 + inject_Z n2 <= 1 ->
  0 <= lerp a b t2 + inject_Z n1 -> lerp a b t2 + inject_Z n1 <= 1 ->
  0 <= lerp a b t2 + inject_Z n2 -> lerp a b t2 + inject_Z n2 <= 1 ->
  a == b /\ exists k : Z, b == inject_Z k.
Proof.
  intros Ht Hn. rewrite !lerp_eq. intros.
  destruct (Z_lt_le_dec n1 n2) as [Hlt|Hge].
  - pose proof (inject_Z_lt_succ _ _ Hlt) as Hs.
    assert (E1 : b + t1 * (a - b) == - inject_Z n1) by lra.
    assert (E2 : b + t2 * (a - b) == - inject_Z n1) by lra.
    assert (Hab : a == b) by nra.
    split; [exact Hab|]. exists (- n1)%Z. rewrite inject_Z_opp. nra.
  - assert (Hlt : (n2 < n1)%Z) by lia.
    pose proof (inject_Z_lt_succ _ _ Hlt) as Hs.
    assert (E1 : b + t1 * (a - b) == - inject_Z n2) by lra.
    assert (E2 : b + t2 * (a - b) == - inject_Z n2) by lra.
    assert (Hab : a == b) by nra.
    split; [exact Hab|]. exists (- n2)%Z. rewrite inject_Z_opp. nra.
Qed.

Theorem translates_disjoint (s : seg) (d1 d2 : Z * Z) (i1 i2 : Q * Q) :
  off_cell_lines s -> d1 <> d2 ->
  clip_interval (seg_translate s (zpoint d1)) = Some i1 ->
  clip_interval (seg_translate s (zpoint d2)) = Some i2 ->
  overlap_len i1 i2 <= 0.
Proof.
  intros [Hox Hoy] Hd H1 H2. destruct i1 as [lo1 hi1]. destruct i2 as [lo2 hi2].
  unfold overlap_len. cbn [fst snd].
  destruct (Qlt_le_dec 0 (Qmin hi1 hi2 - Qmax lo1 lo2)) as [Hpos|Hle]; [exfalso|exact Hle].
  set (t1 := Qmax lo1 lo2) in *. set (t2 := Qmin hi1 hi2) in *.
  assert (Ht : t1 < t2) by lra.
  assert (Ha1 : lo1 <= t1) by apply Q.le_max_l. assert (Ha2 : lo2 <= t1) by apply Q.le_max_r.
  assert (Hb1 : t2 <= hi1) by apply Q.le_min_l. assert (Hb2 : t2 <= hi2) by apply Q.le_min_r.
  destruct (clip_interval_inside _ lo1 hi1 t1 H1 Ha1 ltac:(lra)) as (_ & _ & I11).
  destruct (clip_interval_inside _ lo1 hi1 t2 H1 ltac:(lra) Hb1) as (_ & _ & I12).
  destruct (clip_interval_inside _ lo2 hi2 t1 H2 Ha2 ltac:(lra)) as (_ & _ & I21).
  destruct (clip_interval_inside _ lo2 hi2 t2 H2 ltac:(lra) Hb2) as (_ & _ & I22).
  unfold in_unit_square in I11, I12, I21, I22.
  rewrite !seg_point_translate_x, !seg_point_translate_y in I11, I12, I21, I22.
  destruct d1 as [n1 m1]. destruct d2 as [n2 m2].
  unfold zpoint, seg_point in *. cbn [px py fst snd] in *.
  destruct I11 as (? & ? & ? & ?). destruct I12 as (? & ? & ? & ?).
  destruct I21 as (? & ? & ? & ?). destruct I22 as (? & ? & ? & ?).
  destruct (Z.eq_dec n1 n2) as [En|Nn].
  - assert (Nm : m1 <> m2) by (intro; subst; congruence).
    destruct (axis_two_cells (snd (seg_start s)) (snd (seg_end s)) t1 t2 m1 m2 Ht Nm) as [Hab [k Hk]]; auto.
    exact (Hoy Hab k Hk).
  - destruct (axis_two_cells (fst (seg_start s)) (fst (seg_end s)) t1 t2 n1 n2 Ht Nn) as [Hab [k Hk]]; auto.
    exact (Hox Hab k Hk).
Qed.

(* ---------- lengths of the nine clip intervals sum to 1 ---------- *)
(* length of [p,q] /\ [l,h] *)
Definition len1 (p q l h : Q) : Q := Qmax 0 (Qmin q h - Qmax p l).
(* length of i /\ j /\ [0,1] *)
Definition ilen (i j : Q * Q) : Q :=
  Qmax 0 (Qmin 1 (Qmin (snd i) (snd j)) - Qmax 0 (Qmax (fst i) (fst j))).
(* parameter interval of one coordinate, (1,0) = empty *)
Definition iv (a b : Q) : Q * Q := if axis_ok a b then (axis_lo a b, axis_hi a b) else (1, 0).

Ltac minmax_abs :=
  repeat match goal with
  | |- context [Qmax ?a ?b] =>
      let m := fresh "m" in let H := fresh "Hm" in
      pose proof (Q.max_spec a b) as H; set (m := Qmax a b) in *; clearbody m
  | |- context [Qmin ?a ?b] =>
      let m := fresh "m" in let H := fresh "Hm" in
      pose proof (Q.min_spec a b) as H; set (m := Qmin a b) in *; clearbody m
  | H0 : context [Qmax ?a ?b] |- _ =>
      let m := fresh "m" in let H := fresh "Hm" in
      pose proof (Q.max_spec a b) as H; set (m := Qmax a b) in *; clearbody m
  | H0 : context [Qmin ?a ?b] |- _ =>
      let m := fresh "m" in let H := fresh "Hm" in
      pose proof (Q.min_spec a b) as H; set (m := Qmin a b) in *; clearbody m
  end.
Ltac minmax_cases :=
  repeat match goal with
  | H : (_ /\ _) \/ (_ /\ _) |- _ => destruct H as [[? ?]|[? ?]]
  end.
Ltac minmax := minmax_abs; minmax_cases; lra.

Lemma len1_add (p q r l h : Q) : p <= q -> q <= r -> len1 p q l h + len1 q r l h == len1 p r l h.
Proof. unfold len1. intros. minmax. Qed.

Lemma len1_mid (p q q' r l h : Q) : q == q' -> len1 p q l h + len1 q' r l h == len1 p q l h + len1 q r l h.
Proof. unfold len1. intros. minmax. Qed.

Lemma len1_full (p r l h : Q) : p <= l -> h <= r -> len1 p r l h == Qmax 0 (h - l).
Proof. unfold len1. intros. minmax. Qed.

Lemma len1_empty_l (p q l h : Q) : q <= l -> len1 p q l h == 0.
Proof. unfold len1. intros. minmax. Qed.
Lemma len1_empty_r (p q l h : Q) : h <= p -> len1 p q l h == 0.
Proof. unfold len1. intros. minmax. Qed.

Lemma Qeqb_false (a b : Q) : ~ a == b -> Qeqb a b = false.
Proof. intro H. destruct (Qeqb a b) eqn:E; auto. apply Qeqb_iff in E. contradiction. Qed.
Lemma Qltb_false (a b : Q) : ~ a < b -> Qltb a b = false.
Proof. intro H. destruct (Qltb a b) eqn:E; auto. apply Qltb_iff in E. contradiction. Qed.
Lemma Qleb_false (a b : Q) : ~ a <= b -> Qleb a b = false.
Proof. intro H. destruct (Qleb a b) eqn:E; auto. apply Qleb_iff in E. contradiction. Qed.

Lemma ilen_len1 (i j : Q * Q) :
  ilen i j == len1 (fst j) (snd j) (Qmax 0 (fst i)) (Qmin 1 (snd i)).
Proof. unfold ilen, len1. destruct i as [p q]. destruct j as [l h]. cbn [fst snd]. minmax. Qed.

Lemma ilen_unit (j : Q * Q) :
  Qmax 0 (Qmin 1 (snd j) - Qmax 0 (fst j)) == len1 (fst j) (snd j) 0 1.
Proof. unfold len1. destruct j as [l h]. cbn [fst snd]. minmax. Qed.

Lemma clip_len_ilen (s : seg) :
  clip_len s == ilen (iv (px (seg_start s)) (px (seg_end s))) (iv (py (seg_start s)) (py (seg_end s))).
Proof.
  unfold clip_len, clip_interval, ilen, iv.
  set (xs := px (seg_start s)). set (xe := px (seg_end s)).
  set (ys := py (seg_start s)). set (ye := py (seg_end s)).
  destruct (axis_ok xs xe); destruct (axis_ok ys ye); cbn [andb fst snd].
  - set (lo := Qmax 0 (Qmax (axis_lo xs xe) (axis_lo ys ye))).
    set (hi := Qmin 1 (Qmin (axis_hi xs xe) (axis_hi ys ye))).
    destruct (Qleb lo hi) eqn:E.
    + apply Qleb_iff in E. destruct (Q.max_spec 0 (hi - lo)) as [[A B]|[A B]]; rewrite B; lra.
    + assert (hi < lo). { apply Qnot_le_lt. intro K. apply Qleb_iff in K. congruence. }
      destruct (Q.max_spec 0 (hi - lo)) as [[A B]|[A B]]; rewrite B; lra.
  - minmax.
  - minmax.
  - minmax.
Qed.

(* one coordinate: the parameter intervals of the three shifts partition [0,1] *)
Lemma axis_partition (a b l h : Q) :
  0 <= b -> b < 1 -> -(1) < a - b -> a - b < 1 -> (a - b == 0 -> ~ b == 0) ->
  0 <= l -> h <= 1 ->
  len1 (fst (iv (a + inject_Z (-1)) (b + inject_Z (-1)))) (snd (iv (a + inject_Z (-1)) (b + inject_Z (-1)))) l h +
  len1 (fst (iv (a + inject_Z 0) (b + inject_Z 0))) (snd (iv (a + inject_Z 0) (b + inject_Z 0))) l h +
  len1 (fst (iv (a + inject_Z 1) (b + inject_Z 1))) (snd (iv (a + inject_Z 1) (b + inject_Z 1))) l h
  == Qmax 0 (h - l).
Proof.
  intros Hb0 Hb1 Hd0 Hd1 Hgen Hl Hh.
  change (inject_Z (-1)) with (-1 # 1). change (inject_Z 0) with 0. change (inject_Z 1) with 1.
  unfold iv, axis_ok, axis_lo, axis_hi.
  destruct (Qlt_le_dec 0 (a - b)) as [Hp|Hnp].
  - (* increasing coordinate *)
    assert (Hp1 : 0 < a + (-1 # 1) - (b + (-1 # 1))) by lra.
    assert (Hp2 : 0 < a + 0 - (b + 0)) by lra.
    assert (Hp3 : 0 < a + 1 - (b + 1)) by lra.
    assert (N1 : Qeqb (a + (-1 # 1) - (b + (-1 # 1))) 0 = false) by (apply Qeqb_false; intro; lra).
    assert (N2 : Qeqb (a + 0 - (b + 0)) 0 = false) by (apply Qeqb_false; intro; lra).
    assert (N3 : Qeqb (a + 1 - (b + 1)) 0 = false) by (apply Qeqb_false; intro; lra).
    rewrite N1, N2, N3.
    rewrite (proj2 (Qltb_iff _ _) Hp1), (proj2 (Qltb_iff _ _) Hp2), (proj2 (Qltb_iff _ _) Hp3). cbn [fst snd].
    set (d := a - b) in *.
    assert (E1 : (0 - (b + (-1 # 1))) / (a + (-1 # 1) - (b + (-1 # 1))) * d == 1 - b) by (unfold d; field; lra).
    assert (E2 : (1 - (b + (-1 # 1))) / (a + (-1 # 1) - (b + (-1 # 1))) * d == 2 - b) by (unfold d; field; lra).
    assert (E3 : (0 - (b + 0)) / (a + 0 - (b + 0)) * d == - b) by (unfold d; field; lra).
    assert (E4 : (1 - (b + 0)) / (a + 0 - (b + 0)) * d == 1 - b) by (unfold d; field; lra).
    assert (E5 : (0 - (b + 1)) / (a + 1 - (b + 1)) * d == - b - 1) by (unfold d; field; lra).
    assert (E6 : (1 - (b + 1)) / (a + 1 - (b + 1)) * d == - b) by (unfold d; field; lra).
    set (pm := (0 - (b + (-1 # 1))) / (a + (-1 # 1) - (b + (-1 # 1)))) in *.
    set (hm := (1 - (b + (-1 # 1))) / (a + (-1 # 1) - (b + (-1 # 1)))) in *.
    set (p0 := (0 - (b + 0)) / (a + 0 - (b + 0))) in *.
    set (h0 := (1 - (b + 0)) / (a + 0 - (b + 0))) in *.
    set (p1 := (0 - (b + 1)) / (a + 1 - (b + 1))) in *.
    set (h1 := (1 - (b + 1)) / (a + 1 - (b + 1))) in *.
    clearbody pm hm p0 h0 p1 h1.
    assert (Q1 : h1 == p0) by nra. assert (Q2 : h0 == pm) by nra.
    assert (O1 : p1 <= h1) by nra. assert (O2 : p0 <= h0) by nra. assert (O3 : pm <= hm) by nra.
    assert (B1 : p1 <= l) by nra. assert (B2 : h <= hm) by nra.
    transitivity (len1 p1 h1 l h + len1 p0 h0 l h + len1 pm hm l h); [ring|].
    rewrite (len1_mid p1 h1 p0 h0 l h Q1).
    rewrite (len1_add p1 h1 h0 l h O1 ltac:(lra)).
    rewrite (len1_mid p1 h0 pm hm l h Q2).
    rewrite (len1_add p1 h0 hm l h ltac:(lra) ltac:(lra)).
    apply len1_full; assumption.
  - destruct (Qlt_le_dec (a - b) 0) as [Hn|Hnn].
    + (* decreasing coordinate *)
      assert (Hp1 : a + (-1 # 1) - (b + (-1 # 1)) < 0) by lra.
      assert (Hp2 : a + 0 - (b + 0) < 0) by lra.
      assert (Hp3 : a + 1 - (b + 1) < 0) by lra.
      assert (N1 : Qeqb (a + (-1 # 1) - (b + (-1 # 1))) 0 = false) by (apply Qeqb_false; intro; lra).
      assert (N2 : Qeqb (a + 0 - (b + 0)) 0 = false) by (apply Qeqb_false; intro; lra).
      assert (N3 : Qeqb (a + 1 - (b + 1)) 0 = false) by (apply Qeqb_false; intro; lra).
      rewrite N1, N2, N3.
      assert (F1 : Qltb 0 (a + (-1 # 1) - (b + (-1 # 1))) = false) by (apply Qltb_false; intro; lra).
      assert (F2 : Qltb 0 (a + 0 - (b + 0)) = false) by (apply Qltb_false; intro; lra).
      assert (F3 : Qltb 0 (a + 1 - (b + 1)) = false) by (apply Qltb_false; intro; lra).
      rewrite F1, F2, F3.
      rewrite (proj2 (Qltb_iff _ _) Hp1), (proj2 (Qltb_iff _ _) Hp2), (proj2 (Qltb_iff _ _) Hp3). cbn [fst snd].
      set (d := a - b) in *.
      assert (E1 : (0 - (b + (-1 # 1))) / (a + (-1 # 1) - (b + (-1 # 1))) * d == 1 - b) by (unfold d; field; lra).
      assert (E2 : (1 - (b + (-1 # 1))) / (a + (-1 # 1) - (b + (-1 # 1))) * d == 2 - b) by (unfold d; field; lra).
      assert (E3 : (0 - (b + 0)) / (a + 0 - (b + 0)) * d == - b) by (unfold d; field; lra).
      assert (E4 : (1 - (b + 0)) / (a + 0 - (b + 0)) * d == 1 - b) by (unfold d; field; lra).
      assert (E5 : (0 - (b + 1)) / (a + 1 - (b + 1)) * d == - b - 1) by (unfold d; field; lra).
      assert (E6 : (1 - (b + 1)) / (a + 1 - (b + 1)) * d == - b) by (unfold d; field; lra).
      set (pm := (0 - (b + (-1 # 1))) / (a + (-1 # 1) - (b + (-1 # 1)))) in *.
      set (hm := (1 - (b + (-1 # 1))) / (a + (-1 # 1) - (b + (-1 # 1)))) in *.
      set (p0 := (0 - (b + 0)) / (a + 0 - (b + 0))) in *.
      set (h0 := (1 - (b + 0)) / (a + 0 - (b + 0))) in *.
      set (p1 := (0 - (b + 1)) / (a + 1 - (b + 1))) in *.
      set (h1 := (1 - (b + 1)) / (a + 1 - (b + 1))) in *.
      clearbody pm hm p0 h0 p1 h1.
      (* intervals are (h_n, p_n); order along t: (hm,pm) (h0,p0) (h1,p1) with pm == h0, p0 == h1 *)
      assert (Q1 : pm == h0) by nra. assert (Q2 : p0 == h1) by nra.
      assert (O1 : hm <= pm) by nra. assert (O2 : h0 <= p0) by nra. assert (O3 : h1 <= p1) by nra.
      assert (B1 : hm <= l) by nra. assert (B2 : h <= p1) by nra.
      rewrite (len1_mid hm pm h0 p0 l h Q1).
      rewrite (len1_add hm pm p0 l h O1 ltac:(lra)).
      rewrite (len1_mid hm p0 h1 p1 l h Q2).
      rewrite (len1_add hm p0 p1 l h ltac:(lra) ltac:(lra)).
      apply len1_full; assumption.
    + (* constant coordinate, not on a cell line *)
      assert (Hz : a - b == 0) by lra. specialize (Hgen Hz).
      assert (N1 : Qeqb (a + (-1 # 1) - (b + (-1 # 1))) 0 = true) by (apply Qeqb_iff; lra).
      assert (N2 : Qeqb (a + 0 - (b + 0)) 0 = true) by (apply Qeqb_iff; lra).
      assert (N3 : Qeqb (a + 1 - (b + 1)) 0 = true) by (apply Qeqb_iff; lra).
      rewrite N1, N2, N3.
      assert (K1 : Qleb 0 (b + (-1 # 1)) = false) by (apply Qleb_false; intro; lra).
      assert (K2 : Qleb 0 (b + 0) && Qleb (b + 0) 1 = true) by (apply andb_true_iff; split; apply Qleb_iff; lra).
      assert (K3 : Qleb (b + 1) 1 = false) by (apply Qleb_false; intro; lra).
      rewrite K1, K2, K3. rewrite andb_false_r. cbn [andb fst snd].
      assert (F2 : Qltb 0 (a + 0 - (b + 0)) = false) by (apply Qltb_false; intro; lra).
      assert (G2 : Qltb (a + 0 - (b + 0)) 0 = false) by (apply Qltb_false; intro; lra).
      rewrite F2, G2.
      rewrite (len1_empty_r 1 0 l h Hh). rewrite (len1_full 0 1 l h Hl Hh). ring.
Qed.

Lemma clip_len_translate (s : seg) (n m : Z) :
  clip_len (seg_translate s (zpoint (n, m))) ==
  ilen (iv (px (seg_start s) + inject_Z n) (px (seg_end s) + inject_Z n))
       (iv (py (seg_start s) + inject_Z m) (py (seg_end s) + inject_Z m)).
Proof. rewrite clip_len_ilen. reflexivity. Qed.

(* the nine translates of plot_edges: the clip lengths (fractions of the edge inside the
   closed cell) add up to exactly 1 *)
Theorem translates_sum_one (s : seg) :
  0 <= px (seg_end s) -> px (seg_end s) < 1 -> 0 <= py (seg_end s) -> py (seg_end s) < 1 ->
  -(1) < px (seg_start s) - px (seg_end s) -> px (seg_start s) - px (seg_end s) < 1 ->
  -(1) < py (seg_start s) - py (seg_end s) -> py (seg_start s) - py (seg_end s) < 1 ->
  off_cell_lines s ->
  fold_right Qplus 0 (map (fun d => clip_len (seg_translate s (zpoint d))) nine) == 1.
Proof.
  intros Hx0 Hx1 Hy0 Hy1 Hdx0 Hdx1 Hdy0 Hdy1 [Hox Hoy].
  set (xs := px (seg_start s)) in *. set (xe := px (seg_end s)) in *.
  set (ys := py (seg_start s)) in *. set (ye := py (seg_end s)) in *.
  assert (Gx : xs - xe == 0 -> ~ xe == 0).
  { intros Hz. assert (E : xs == xe) by lra. exact (Hox E 0%Z). }
  assert (Gy : ys - ye == 0 -> ~ ye == 0).
  { intros Hz. assert (E : ys == ye) by lra. exact (Hoy E 0%Z). }
  unfold nine. cbn [map fold_right]. rewrite !clip_len_translate. fold xs xe ys ye.
  set (X := fun n : Z => iv (xs + inject_Z n) (xe + inject_Z n)).
  set (Y := fun m : Z => iv (ys + inject_Z m) (ye + inject_Z m)).
  change (ilen (X (-1)%Z) (Y (-1)%Z) + (ilen (X (-1)%Z) (Y 0%Z) + (ilen (X (-1)%Z) (Y 1%Z) +
         (ilen (X 0%Z) (Y (-1)%Z) + (ilen (X 0%Z) (Y 0%Z) + (ilen (X 0%Z) (Y 1%Z) +
         (ilen (X 1%Z) (Y (-1)%Z) + (ilen (X 1%Z) (Y 0%Z) + (ilen (X 1%Z) (Y 1%Z) + 0)))))))) == 1).
  assert (Row : forall n : Z,
             ilen (X n) (Y (-1)%Z) + ilen (X n) (Y 0%Z) + ilen (X n) (Y 1%Z)
             == Qmax 0 (Qmin 1 (snd (X n)) - Qmax 0 (fst (X n)))).
  { intro n. rewrite !ilen_len1. unfold Y.
    apply (axis_partition ys ye (Qmax 0 (fst (X n))) (Qmin 1 (snd (X n)))); auto.
    - apply Q.le_max_l.
    - apply Q.le_min_l. }
  transitivity ((ilen (X (-1)%Z) (Y (-1)%Z) + ilen (X (-1)%Z) (Y 0%Z) + ilen (X (-1)%Z) (Y 1%Z)) +
                (ilen (X 0%Z) (Y (-1)%Z) + ilen (X 0%Z) (Y 0%Z) + ilen (X 0%Z) (Y 1%Z)) +
                (ilen (X 1%Z) (Y (-1)%Z) + ilen (X 1%Z) (Y 0%Z) + ilen (X 1%Z) (Y 1%Z))); [ring|].
  rewrite !Row. rewrite !ilen_unit. unfold X.
  rewrite (axis_partition xs xe 0 1); auto; try lra.
  destruct (Q.max_spec 0 (1 - 0)) as [[A B]|[A B]]; rewrite B; lra.
Qed.

(* ---------- what plot_edges draws of one edge ---------- *)
(* generic position of an (unwrapped) edge: no end-point coordinate is an integer and the
   segment passes through no corner of the cell grid *)
Definition generic_edge (s : seg) : Prop :=
  (forall k : Z, ~ px (seg_start s) == inject_Z k) /\ (forall k : Z, ~ py (seg_start s) == inject_Z k) /\
  (forall k : Z, ~ px (seg_end s) == inject_Z k) /\ (forall k : Z, ~ py (seg_end s) == inject_Z k) /\
  (forall (t : Q) (n m : Z), 0 <= t -> t <= 1 ->
     ~ (px (seg_point s t) == inject_Z n /\ py (seg_point s t) == inject_Z m)).

Lemma generic_edge_translate (s : seg) (d : Z * Z) :
  generic_edge s -> generic_seg (seg_translate s (zpoint d)) /\ misses_origin (seg_translate s (zpoint d)).
Proof.
  intros (Gxs & Gys & Gxe & Gye & Gc). destruct d as [n m]. split.
  - unfold generic_seg, seg_translate, padd, zpoint. unfold px, py, seg_start, seg_end in *. cbn [fst snd].
    repeat split; intro H.
    + apply (Gxs (- n)%Z). rewrite inject_Z_opp. lra.
    + apply (Gxs (1 - n)%Z). unfold Z.sub. rewrite inject_Z_plus, inject_Z_opp. change (inject_Z 1) with 1. lra.
    + apply (Gys (- m)%Z). rewrite inject_Z_opp. lra.
    + apply (Gys (1 - m)%Z). unfold Z.sub. rewrite inject_Z_plus, inject_Z_opp. change (inject_Z 1) with 1. lra.
    + apply (Gxe (- n)%Z). rewrite inject_Z_opp. lra.
    + apply (Gxe (1 - n)%Z). unfold Z.sub. rewrite inject_Z_plus, inject_Z_opp. change (inject_Z 1) with 1. lra.
    + apply (Gye (- m)%Z). rewrite inject_Z_opp. lra.
    + apply (Gye (1 - m)%Z). unfold Z.sub. rewrite inject_Z_plus, inject_Z_opp. change (inject_Z 1) with 1. lra.
  - intros t Ht0 Ht1 [Hx Hy]. rewrite seg_point_translate_x in Hx. rewrite seg_point_translate_y in Hy.
    unfold zpoint in Hx, Hy. cbn [px py fst snd] in Hx, Hy.
    apply (Gc t (- n)%Z (- m)%Z Ht0 Ht1). rewrite !inject_Z_opp. unfold px, py in *. split; lra.
Qed.

Lemma generic_edge_off_cell_lines (s : seg) : generic_edge s -> off_cell_lines s.
Proof. intros (_ & _ & Gxe & Gye & _). split; intros _ k; auto. Qed.

Lemma invisible_zero (s : seg) :
  generic_seg s -> misses_origin s -> visible s = false -> clip_len s == 0.
Proof.
  intros Hg Hm Hv. unfold clip_len. destruct (clip_interval s) as [[lo hi]|] eqn:E; [|reflexivity].
  pose proof (clip_interval_some_le _ _ _ E) as Hle.
  destruct (Qlt_le_dec lo hi) as [Hlt|Hge]; [|lra].
  rewrite (visibility_complete s lo hi Hg Hm E Hlt) in Hv. discriminate.
Qed.

Lemma sum_ext {A : Type} (f g : A -> Q) (l : list A) :
  (forall d, In d l -> f d == g d) ->
  fold_right Qplus 0 (map f l) == fold_right Qplus 0 (map g l).
Proof.
  induction l as [|a l IH]; intro H; simpl; [reflexivity|].
  rewrite (H a (or_introl eq_refl)), IH; [reflexivity|]. intros d Hd. apply H. right. exact Hd.
Qed.

(* total fraction of the edge, inside the closed cell, carried by the pieces that pass the
   visibility rule of plot_edges (same [nine], [seg_translate], [visible] as [replicate_edges]/[plot_edges]) *)
Definition drawn_len (s : seg) : Q :=
  fold_right Qplus 0
    (map (fun d => if visible (seg_translate s (zpoint d)) then clip_len (seg_translate s (zpoint d)) else 0) nine).

Theorem drawn_in_full (s : seg) :
  0 <= px (seg_end s) -> px (seg_end s) < 1 -> 0 <= py (seg_end s) -> py (seg_end s) < 1 ->
  -(1) < px (seg_start s) - px (seg_end s) -> px (seg_start s) - px (seg_end s) < 1 ->
  -(1) < py (seg_start s) - py (seg_end s) -> py (seg_start s) - py (seg_end s) < 1 ->
  generic_edge s ->
  drawn_len s == 1.
Proof.
  intros Hx0 Hx1 Hy0 Hy1 Hdx0 Hdx1 Hdy0 Hdy1 Hg.
  unfold drawn_len.
  rewrite (sum_ext _ (fun d => clip_len (seg_translate s (zpoint d))) nine).
  - apply translates_sum_one; auto. apply generic_edge_off_cell_lines. exact Hg.
  - intros d _. destruct (visible (seg_translate s (zpoint d))) eqn:Hv; [reflexivity|].
    destruct (generic_edge_translate s d Hg) as [G M]. symmetry. apply invisible_zero; assumption.
Qed.
