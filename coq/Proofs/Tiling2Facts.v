(* Proofs/Tiling2Facts.v — lemmas about Model/Tiling2.v (C17). *)
From Coq Require Import List ZArith Bool Arith Lia ZifyBool.
From Koala Require Import Model.Lattice Model.Tiling2.
Import ListNotations.
Open Scope Z_scope.

(* Euler arithmetic used by the property: V - E + F = 1  <->  F = E - V + 1 *)
Lemma euler_count : forall V E F : Z, V - E + F = 1 <-> F = E - V + 1.
Proof. intros; lia. Qed.
