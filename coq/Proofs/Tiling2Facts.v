(* Proofs/Tiling2Facts.v — lemmas about Model/Tiling2.v (C17):
   bfs_connected_sound, no_crossing_sound (exact, over Q), rhombus_exact, check_rhombus_tiling_sound. *)
From Coq Require Import List ZArith Bool Arith Lia ZifyBool QArith Lqa Psatz.
From Koala Require Import Model.Lattice Model.Tiling2.
Import ListNotations.
Open Scope Z_scope.

(* Euler arithmetic used by the property: V - E + F = 1  <->  F = E - V + 1 *)
Lemma euler_count : forall V E F : Z, V - E + F = 1 <-> F = E - V + 1.
Proof. intros; lia. Qed.


(* ---------- connectivity ---------- *)
Definition adjacent (L : lattice) (u w : nat) : Prop := In (u, w) (edges L) \/ In (w, u) (edges L).
Inductive reach (L : lattice) (s : nat) : nat -> Prop :=
| reach_refl : reach L s s
| reach_step : forall u w, reach L s u -> adjacent L u w -> reach L s w.

Lemma nth_repeat_nil : forall (A : Type) n u, nth u (repeat (@nil A) n) [] = [].
Proof. intros A. induction n as [|n IH]; intros [|u]; cbn; auto. Qed.

Lemma nth_repeat_false : forall n u, nth u (repeat false n) false = false.
Proof. induction n as [|n IH]; intros [|u]; cbn; auto. Qed.

Lemma add_at_In : forall tab a b u w,
  In w (nth u (add_at a b tab) []) -> (u = a /\ w = b) \/ In w (nth u tab []).
Proof.
  induction tab as [|row r IH]; intros a b u w H.
  - destruct a; cbn in H; destruct u; cbn in H; contradiction.
  - destruct a as [|a]; cbn [add_at] in H.
    + destruct u as [|u]; cbn [nth] in *.
      * destruct H as [H | H]; [ left; auto | right; exact H ].
      * right; exact H.
    + destruct u as [|u]; cbn [nth] in *.
      * right; exact H.
      * destruct (IH a b u w H) as [[-> ->] | H']; [ left; auto | right; exact H' ].
Qed.

Lemma adj_fold_sound : forall (P : nat -> nat -> Prop) (es : list (nat * nat)) tab,
  (forall u w, In w (nth u tab []) -> P u w) ->
  (forall e, In e es -> P (fst e) (snd e) /\ P (snd e) (fst e)) ->
  forall u w,
    In w (nth u (fold_left (fun tab e => add_at (fst e) (snd e) (add_at (snd e) (fst e) tab)) es tab) []) -> P u w.
Proof.
  intros P. induction es as [|e es IH]; intros tab Htab Hes u w H.
  - cbn in H. now apply Htab.
  - cbn [fold_left] in H. eapply IH; [ | | exact H ].
    + intros u' w' H'. destruct (Hes e (or_introl eq_refl)) as [P1 P2].
      apply add_at_In in H'. destruct H' as [[-> ->] | H']; [ exact P1 |].
      apply add_at_In in H'. destruct H' as [[-> ->] | H']; [ exact P2 |].
      now apply Htab.
    + intros e' He'. apply Hes. now right.
Qed.

Lemma adj_lists_sound : forall L u w, In w (nth u (adj_lists L) []) -> adjacent L u w.
Proof.
  intros L u w H. unfold adj_lists in H.
  eapply adj_fold_sound with (P := adjacent L); [ | | exact H ].
  - intros u' w' H'. rewrite nth_repeat_nil in H'. destruct H'.
  - intros [j k] He. cbn [fst snd]. split; [ left | right ]; exact He.
Qed.

Lemma set_nth_true : forall vis w x,
  nth x (set_nth w true vis) false = true -> x = w \/ nth x vis false = true.
Proof.
  induction vis as [|b r IH]; intros w x H.
  - destruct w; cbn in H; destruct x; cbn in H; discriminate.
  - destruct w as [|w]; cbn [set_nth] in H.
    + destruct x as [|x]; cbn [nth] in *; [ left; reflexivity | right; exact H ].
    + destruct x as [|x]; cbn [nth] in *; [ right; exact H |].
      destruct (IH w x H) as [-> | H']; [ left; reflexivity | right; exact H' ].
Qed.

Section Search.
  Variable R : nat -> Prop.

  Definition inv (st : list nat * list bool) : Prop :=
    (forall x, nth x (snd st) false = true -> R x) /\ (forall x, In x (fst st) -> R x).

  Lemma visit_inv : forall st w, inv st -> R w -> inv (visit st w).
  Proof.
    intros [fr vis] w [H1 H2] Hw. unfold visit. cbn [fst snd] in *.
    destruct (nth w vis true); [ split; assumption |].
    split; cbn [fst snd].
    - intros x Hx. apply set_nth_true in Hx. destruct Hx as [-> | Hx]; auto.
    - intros x [<- | Hx]; auto.
  Qed.

  Lemma fold_visit_inv : forall ws st, inv st -> (forall w, In w ws -> R w) -> inv (fold_left visit ws st).
  Proof.
    induction ws as [|w ws IH]; intros st Hst Hws; cbn [fold_left]; [ exact Hst |].
    apply IH; [ apply visit_inv; [ exact Hst | apply Hws; now left ] | intros w' Hw'; apply Hws; now right ].
  Qed.

  Variable adj : list (list nat).
  Hypothesis adj_closed : forall u w, R u -> In w (nth u adj []) -> R w.

  Lemma bfs_inv : forall fuel frontier vis,
    (forall x, nth x vis false = true -> R x) -> (forall u, In u frontier -> R u) ->
    forall x, nth x (bfs fuel adj frontier vis) false = true -> R x.
  Proof.
    induction fuel as [|fuel IH]; intros frontier vis Hvis Hfr x Hx; cbn [bfs] in Hx; [ now apply Hvis |].
    destruct frontier as [|u rest]; [ now apply Hvis |].
    assert (Hu : R u) by (apply Hfr; now left).
    assert (Hinv : inv (fold_left visit (nth u adj []) ([], vis))).
    { apply fold_visit_inv; [ split; cbn [fst snd]; [ exact Hvis | intros y [] ] |].
      intros w Hw. now apply adj_closed with (u := u). }
    destruct Hinv as [I1 I2].
    eapply IH; [ exact I1 | | exact Hx ].
    intros y Hy. apply in_app_or in Hy. destruct Hy as [Hy | Hy]; [ apply Hfr; now right |].
    apply I2. now apply in_rev.
  Qed.
End Search.

Theorem bfs_connected_sound : forall L, connected_check L = true ->
  forall v, (v < nV L)%nat -> reach L 0%nat v.
Proof.
  intros L H v Hv. unfold connected_check in H. apply andb_true_iff in H. destruct H as [_ H].
  rewrite forallb_forall in H. specialize (H v). 
  assert (Hin : In v (seq 0 (nV L))) by (apply in_seq; lia). specialize (H Hin).
  unfold reached in H.
  eapply bfs_inv with (R := reach L 0%nat) (adj := adj_lists L); [ | | | exact H ].
  - intros u w Hu Hw. eapply reach_step; [ exact Hu | now apply adj_lists_sound ].
  - intros x Hx. apply set_nth_true in Hx. destruct Hx as [-> | Hx]; [ constructor |].
    rewrite nth_repeat_false in Hx. discriminate.
  - intros u [<- | []]. constructor.
Qed.

(* ---------- segment geometry over Q ---------- *)
Section QGeometry.
Open Scope Q_scope.


Lemma straddle_Q : forall P1 P2 Q1 Q2 R1 R2 S1 S2 t s : Q,
  0 <= t -> t <= 1 -> 0 <= s -> s <= 1 ->
  P1 + t * (Q1 - P1) == R1 + s * (S1 - R1) ->
  P2 + t * (Q2 - P2) == R2 + s * (S2 - R2) ->
  0 < ((Q1 - P1) * (R2 - P2) - (Q2 - P2) * (R1 - P1)) * ((Q1 - P1) * (S2 - P2) - (Q2 - P2) * (S1 - P1)) -> False.
Proof.
  intros P1 P2 Q1 Q2 R1 R2 S1 S2 t s Ht0 Ht1 Hs0 Hs1 E1 E2 H.
  set (A := (Q1 - P1) * (R2 - P2) - (Q2 - P2) * (R1 - P1)) in *.
  set (B := (Q1 - P1) * (S2 - P2) - (Q2 - P2) * (S1 - P1)) in *.
  assert (HAB : A + s * (B - A) == 0).
  { unfold A, B. 
    assert (X1 : R1 + s * (S1 - R1) - P1 == t * (Q1 - P1)) by lra.
    assert (X2 : R2 + s * (S2 - R2) - P2 == t * (Q2 - P2)) by lra.
    transitivity ((Q1 - P1) * (R2 + s * (S2 - R2) - P2) - (Q2 - P2) * (R1 + s * (S1 - R1) - P1)); [ ring |].
    rewrite X1, X2. ring. }
  assert (H1 : 0 <= (1 - s) * (A * A)) by nra.
  assert (H2 : 0 <= s * (A * B)) by nra.
  assert (H3 : (1 - s) * (A * A) + s * (A * B) == 0).
  { transitivity (A * (A + s * (B - A))); [ ring | rewrite HAB; ring ]. }
  nra.
Qed.

(* the x-ranges (or y-ranges) of the two segments are disjoint *)
Lemma bbox_Q : forall P Q R S t s : Q,
  0 <= t -> t <= 1 -> 0 <= s -> s <= 1 ->
  P + t * (Q - P) == R + s * (S - R) ->
  P < R -> P < S -> Q < R -> Q < S -> False.
Proof.
  intros P Q R S t s Ht0 Ht1 Hs0 Hs1 E H1 H2 H3 H4.
  assert (L : forall U, P < U -> Q < U -> P + t * (Q - P) < U).
  { intros U HP HQ.
    assert (0 <= (1 - t) * (U - P)) by nra. assert (0 <= t * (U - Q)) by nra.
    destruct (Qlt_le_dec t (1 # 2)) as [Hh | Hh].
    - assert ((1 # 2) * (U - P) <= (1 - t) * (U - P)) by nra. nra.
    - assert ((1 # 2) * (U - Q) <= t * (U - Q)) by nra. nra. }
  pose proof (L R H1 H3) as LR. pose proof (L S H2 H4) as LS.
  set (X := P + t * (Q - P)) in *.
  assert (0 <= (1 - s) * (R - X)) by nra. assert (0 <= s * (S - X)) by nra.
  destruct (Qlt_le_dec s (1 # 2)) as [Hh | Hh].
  - assert ((1 # 2) * (R - X) <= (1 - s) * (R - X)) by nra. nra.
  - assert ((1 # 2) * (S - X) <= s * (S - X)) by nra. nra.
Qed.

(* two segments leaving a common end C, towards A and B: a common point is C itself *)
Lemma fan_Q : forall a1 a2 b1 b2 t s : Q,
  0 <= t -> t <= 1 -> 0 <= s -> s <= 1 ->
  t * a1 == s * b1 -> t * a2 == s * b2 ->
  (~ a1 * b2 - a2 * b1 == 0) \/ a1 * b1 + a2 * b2 <= 0 ->
  t * a1 == 0 /\ t * a2 == 0.
Proof.
  intros a1 a2 b1 b2 t s Ht0 Ht1 Hs0 Hs1 E1 E2 H.
  assert (Hc : t * (a1 * b2 - a2 * b1) == 0).
  { transitivity ((t * a1) * b2 - (t * a2) * b1); [ ring | rewrite E1, E2; ring ]. }
  destruct H as [H | H].
  - assert (Ht : t == 0).
    { destruct (Qeq_dec t 0) as [Hz | Hz]; [ exact Hz |].
      exfalso. apply H. 
      assert (Hm : t * (a1 * b2 - a2 * b1) == t * 0) by (rewrite Hc; ring).
      apply Qmult_inj_l in Hm; assumption. }
    rewrite Ht. split; ring.
  - assert (Hd : t * (a1 * a1 + a2 * a2) == s * (a1 * b1 + a2 * b2)).
    { transitivity ((t * a1) * a1 + (t * a2) * a2); [ ring | rewrite E1, E2; ring ]. }
    assert (H0 : t * (a1 * a1) + t * (a2 * a2) <= 0) by nra.
    assert (K1 : 0 <= t * (a1 * a1)) by nra.
    assert (K2 : 0 <= t * (a2 * a2)) by nra.
    assert (Z1 : t * (a1 * a1) == 0) by lra.
    assert (Z2 : t * (a2 * a2) == 0) by lra.
    assert (S1 : (t * a1) * (t * a1) == 0) by (transitivity (t * (t * (a1 * a1))); [ ring | rewrite Z1; ring ]).
    assert (S2 : (t * a2) * (t * a2) == 0) by (transitivity (t * (t * (a2 * a2))); [ ring | rewrite Z2; ring ]).
    split; nra.
Qed.

End QGeometry.


Definition iq (z : Z) : Q := inject_Z z.

(* the point (x,y) of the rational plane lies on the closed segment pq *)
Definition on_seg (p q : vec) (x y : Q) : Prop :=
  exists t : Q, (0 <= t /\ t <= 1 /\
    x == iq (fst p) + t * (iq (fst q) - iq (fst p)) /\
    y == iq (snd p) + t * (iq (snd q) - iq (snd p)))%Q.

Lemma on_seg_sym : forall p q x y, on_seg p q x y -> on_seg q p x y.
Proof.
  intros p q x y [t [H0 [H1 [Hx Hy]]]]. exists (1 - t)%Q.
  split; [ lra |]. split; [ lra |]. split; [ rewrite Hx; ring | rewrite Hy; ring ].
Qed.

Lemma iq_lt : forall a b : Z, a < b -> (iq a < iq b)%Q.
Proof. intros a b H. unfold iq. now rewrite <- Zlt_Qlt. Qed.
Lemma iq_le : forall a b : Z, a <= b -> (iq a <= iq b)%Q.
Proof. intros a b H. unfold iq. now rewrite <- Zle_Qle. Qed.

Lemma iq_sub : forall a b, (iq (a - b) == iq a - iq b)%Q.
Proof. intros. unfold iq, Z.sub. rewrite inject_Z_plus, inject_Z_opp. ring. Qed.
Lemma iq_mul : forall a b, (iq (a * b) == iq a * iq b)%Q.
Proof. intros. unfold iq. rewrite inject_Z_mult. reflexivity. Qed.
Lemma iq_add : forall a b, (iq (a + b) == iq a + iq b)%Q.
Proof. intros. unfold iq. rewrite inject_Z_plus. reflexivity. Qed.

Lemma iq_cross : forall c a b : vec,
  (iq (vcross (vsub a c) (vsub b c)) ==
   (iq (fst a) - iq (fst c)) * (iq (snd b) - iq (snd c)) - (iq (snd a) - iq (snd c)) * (iq (fst b) - iq (fst c)))%Q.
Proof.
  intros c a b. unfold vcross, vsub. cbn [fst snd].
  rewrite iq_sub, !iq_mul, !iq_sub. ring.
Qed.
Lemma iq_dot : forall c a b : vec,
  (iq (vdot (vsub a c) (vsub b c)) ==
   (iq (fst a) - iq (fst c)) * (iq (fst b) - iq (fst c)) + (iq (snd a) - iq (snd c)) * (iq (snd b) - iq (snd c)))%Q.
Proof.
  intros c a b. unfold vdot, vsub. cbn [fst snd].
  rewrite iq_add, !iq_mul, !iq_sub. ring.
Qed.

Lemma straddle_half : forall p q r s x y,
  0 < orient p q r * orient p q s -> on_seg p q x y -> on_seg r s x y -> False.
Proof.
  intros p q r s x y H [t [T0 [T1 [Tx Ty]]]] [u [U0 [U1 [Ux Uy]]]].
  apply iq_lt in H. rewrite iq_mul in H. unfold orient in H. rewrite !iq_cross in H.
  change (iq 0) with 0%Q in H.
  eapply straddle_Q with (t := t) (s := u)
    (P1 := iq (fst p)) (P2 := iq (snd p)) (Q1 := iq (fst q)) (Q2 := iq (snd q))
    (R1 := iq (fst r)) (R2 := iq (snd r)) (S1 := iq (fst s)) (S2 := iq (snd s)); try assumption.
  - rewrite <- Tx, <- Ux. reflexivity.
  - rewrite <- Ty, <- Uy. reflexivity.
Qed.

Lemma straddle_free_sound : forall p q r s x y,
  straddle_free p q r s = true -> on_seg p q x y -> on_seg r s x y -> False.
Proof.
  intros p q r s x y H Hpq Hrs. unfold straddle_free in H. apply orb_true_iff in H.
  destruct H as [H | H].
  - eapply straddle_half with (p := p) (q := q) (r := r) (s := s); eauto. lia.
  - eapply straddle_half with (p := r) (q := s) (r := p) (s := q); eauto. lia.
Qed.

Lemma fan_ok_sound : forall c a b x y,
  fan_ok c a b = true -> on_seg c a x y -> on_seg c b x y ->
  (x == iq (fst c) /\ y == iq (snd c))%Q.
Proof.
  intros c a b x y H [t [T0 [T1 [Tx Ty]]]] [u [U0 [U1 [Ux Uy]]]].
  unfold fan_ok in H. cbv zeta in H.
  assert (Hq : (~ (iq (fst a) - iq (fst c)) * (iq (snd b) - iq (snd c)) - (iq (snd a) - iq (snd c)) * (iq (fst b) - iq (fst c)) == 0
               \/ (iq (fst a) - iq (fst c)) * (iq (fst b) - iq (fst c)) + (iq (snd a) - iq (snd c)) * (iq (snd b) - iq (snd c)) <= 0)%Q).
  { apply orb_true_iff in H. destruct H as [H | H].
    - left. rewrite <- iq_cross. intro E. unfold iq in E. change 0%Q with (inject_Z 0) in E.
      unfold Qeq in E; cbn [Qnum Qden inject_Z] in E. lia.
    - right. rewrite <- iq_dot. change 0%Q with (iq 0). apply iq_le. lia. }
  destruct (fan_Q (iq (fst a) - iq (fst c)) (iq (snd a) - iq (snd c)) (iq (fst b) - iq (fst c)) (iq (snd b) - iq (snd c)) t u)
    as [Z1 Z2]; try assumption.
  - lra.
  - lra.
  - split; lra.
Qed.

Lemma bbox_sound_x : forall p q r s x y,
  Z.max (fst p) (fst q) < Z.min (fst r) (fst s) -> on_seg p q x y -> on_seg r s x y -> False.
Proof.
  intros p q r s x y H [t [T0 [T1 [Tx Ty]]]] [u [U0 [U1 [Ux Uy]]]].
  eapply bbox_Q with (t := t) (s := u) (P := iq (fst p)) (Q := iq (fst q)) (R := iq (fst r)) (S := iq (fst s));
    try assumption; try (apply iq_lt; lia).
  rewrite <- Tx, <- Ux. reflexivity.
Qed.
Lemma bbox_sound_y : forall p q r s x y,
  Z.max (snd p) (snd q) < Z.min (snd r) (snd s) -> on_seg p q x y -> on_seg r s x y -> False.
Proof.
  intros p q r s x y H [t [T0 [T1 [Tx Ty]]]] [u [U0 [U1 [Ux Uy]]]].
  eapply bbox_Q with (t := t) (s := u) (P := iq (snd p)) (Q := iq (snd q)) (R := iq (snd r)) (S := iq (snd s));
    try assumption; try (apply iq_lt; lia).
  rewrite <- Ty, <- Uy. reflexivity.
Qed.

(* the conclusion for one pair of edges: a common point is the position of a common end vertex *)
Definition meet_only_at_common_vertex (L : lattice) (e f : nat * nat) : Prop :=
  forall x y : Q,
    on_seg (pos_at L (fst e)) (pos_at L (snd e)) x y ->
    on_seg (pos_at L (fst f)) (pos_at L (snd f)) x y ->
    exists v : nat, (v = fst e \/ v = snd e) /\ (v = fst f \/ v = snd f) /\
      (x == iq (fst (pos_at L v)) /\ y == iq (snd (pos_at L v)))%Q.

Lemma pair_ok_sound : forall L e f, pair_ok (mk_seg L e) (mk_seg L f) = true -> meet_only_at_common_vertex L e f.
Proof.
  intros L [j k] [l m] H x y He Hf. cbn [fst snd] in *.
  unfold pair_ok in H. unfold mk_seg in H. cbn [sg_j sg_k sg_p sg_q sg_xlo sg_xhi sg_ylo sg_yhi fst snd] in H.
  apply orb_true_iff in H. destruct H as [H | H].
  { exfalso. unfold bbox_disjoint in H. cbn [sg_xlo sg_xhi sg_ylo sg_yhi] in H.
    repeat (apply orb_true_iff in H; destruct H as [H | H]).
    - eapply bbox_sound_x with (p := pos_at L j) (q := pos_at L k) (r := pos_at L l) (s := pos_at L m); eauto. lia.
    - eapply bbox_sound_x with (p := pos_at L l) (q := pos_at L m) (r := pos_at L j) (s := pos_at L k); eauto. lia.
    - eapply bbox_sound_y with (p := pos_at L j) (q := pos_at L k) (r := pos_at L l) (s := pos_at L m); eauto. lia.
    - eapply bbox_sound_y with (p := pos_at L l) (q := pos_at L m) (r := pos_at L j) (s := pos_at L k); eauto. lia. }
  destruct ((j =? k)%nat || (l =? m)%nat); [ discriminate |].
  destruct (((j =? l)%nat && (k =? m)%nat) || ((j =? m)%nat && (k =? l)%nat)); [ discriminate |].
  destruct (j =? l)%nat eqn:Ejl.
  { apply Nat.eqb_eq in Ejl. subst l. exists j. split; [ now left |]. split; [ now left |].
    eapply fan_ok_sound; eauto. }
  destruct (j =? m)%nat eqn:Ejm.
  { apply Nat.eqb_eq in Ejm. subst m. exists j. split; [ now left |]. split; [ now right |].
    eapply fan_ok_sound; eauto. now apply on_seg_sym. }
  destruct (k =? l)%nat eqn:Ekl.
  { apply Nat.eqb_eq in Ekl. subst l. exists k. split; [ now right |]. split; [ now left |].
    eapply fan_ok_sound; eauto. now apply on_seg_sym. }
  destruct (k =? m)%nat eqn:Ekm.
  { apply Nat.eqb_eq in Ekm. subst m. exists k. split; [ now right |]. split; [ now right |].
    eapply fan_ok_sound; eauto; now apply on_seg_sym. }
  exfalso. eapply straddle_free_sound; eauto.
Qed.

Lemma pairs_ok_nth : forall (A : Type) (chk : A -> A -> bool) (d : A) (l : list A),
  pairs_ok chk l = true -> forall i j, (i < j)%nat -> (j < length l)%nat -> chk (nth i l d) (nth j l d) = true.
Proof.
  intros A chk d. induction l as [|x r IH]; intros H i j Hij Hj; [ cbn in Hj; lia |].
  cbn [pairs_ok] in H. apply andb_true_iff in H. destruct H as [H1 H2].
  destruct j as [|j]; [ lia |]. cbn [length] in Hj.
  destruct i as [|i]; cbn [nth].
  - rewrite forallb_forall in H1. apply H1. apply nth_In. lia.
  - apply IH; auto; lia.
Qed.

Theorem no_crossing_sound : forall L, no_crossing_check L = true ->
  forall e f, (e < f)%nat -> (f < nE L)%nat -> meet_only_at_common_vertex L (edge_at L e) (edge_at L f).
Proof.
  intros L H e f Hef Hf. unfold no_crossing_check, segs in H.
  pose proof (pairs_ok_nth seg pair_ok (mk_seg L (0, 0)%nat) (map (mk_seg L) (edges L)) H e f Hef) as Hp.
  rewrite map_length in Hp. specialize (Hp Hf). rewrite !map_nth in Hp.
  now apply pair_ok_sound.
Qed.


Lemma sq_pos : forall z : Z, z <> 0 -> 0 < z * z.
Proof. intros; nia. Qed.
Lemma sq_nonneg : forall z : Z, 0 <= z * z.
Proof. intros; nia. Qed.

(* a closed 4-gon with four equal sides whose diagonals are non-degenerate is a parallelogram (rhombus) *)
Theorem rhombus_exact : forall P0 P1 P2 P3 : vec,
  norm2 (vsub P1 P0) = norm2 (vsub P2 P1) ->
  norm2 (vsub P2 P1) = norm2 (vsub P3 P2) ->
  norm2 (vsub P3 P2) = norm2 (vsub P0 P3) ->
  P0 <> P2 -> P1 <> P3 ->
  vsub P1 P0 = vsub P2 P3 /\ vsub P2 P1 = vsub P3 P0.
Proof.
  intros [x0 y0] [x1 y1] [x2 y2] [x3 y3] H1 H2 H3 D02 D13.
  unfold norm2, vdot, vsub in *. cbn [fst snd] in *.
  set (a1 := x1 - x0) in *. set (a2 := y1 - y0) in *.
  set (b1 := x2 - x1) in *. set (b2 := y2 - y1) in *.
  set (c1 := x3 - x2) in *. set (c2 := y3 - y2) in *.
  assert (Hd1 : x0 - x3 = - (a1 + b1 + c1)) by (unfold a1, b1, c1; ring).
  assert (Hd2 : y0 - y3 = - (a2 + b2 + c2)) by (unfold a2, b2, c2; ring).
  rewrite Hd1, Hd2 in H3.
  (* u = a+b, v = b+c, w = a+c are pairwise orthogonal *)
  set (u1 := a1 + b1) in *. set (u2 := a2 + b2) in *.
  set (v1 := b1 + c1) in *. set (v2 := b2 + c2) in *.
  set (w1 := a1 + c1) in *. set (w2 := a2 + c2) in *.
  assert (Huw : u1 * w1 + u2 * w2 = 0) by (unfold u1, u2, w1, w2; lia).
  assert (Hvw : v1 * w1 + v2 * w2 = 0) by (unfold v1, v2, w1, w2; lia).
  assert (Huv : u1 * v1 + u2 * v2 = 0) by (unfold u1, u2, v1, v2; lia).
  assert (Hu : u1 <> 0 \/ u2 <> 0).
  { destruct (Z.eq_dec u1 0) as [E1|]; [| now left ]. destruct (Z.eq_dec u2 0) as [E2|]; [| now right ].
    exfalso. apply D02. clear H1 H2 H3 Huw Hvw Huv. f_equal; unfold u1, u2, a1, a2, b1, b2 in *; lia. }
  assert (Hv : v1 <> 0 \/ v2 <> 0).
  { destruct (Z.eq_dec v1 0) as [E1|]; [| now left ]. destruct (Z.eq_dec v2 0) as [E2|]; [| now right ].
    exfalso. apply D13. clear H1 H2 H3 Huw Hvw Huv Hu. f_equal; unfold v1, v2, b1, b2, c1, c2 in *; lia. }
  set (k := u1 * v2 - u2 * v1).
  assert (Hk2 : k * k = (u1 * u1 + u2 * u2) * (v1 * v1 + v2 * v2) - (u1 * v1 + u2 * v2) * (u1 * v1 + u2 * v2)) by (unfold k; ring).
  assert (Hk : k <> 0).
  { intro E. rewrite E, Huv in Hk2.
    pose proof sq_pos as SQ. pose proof sq_nonneg as SQ0. clear H1 H2 H3 Huw Hvw D02 D13.
    assert (HU : 0 < u1 * u1 + u2 * u2).
    { destruct Hu as [Hu | Hu]; [ pose proof (SQ u1 Hu); pose proof (SQ0 u2) | pose proof (SQ u2 Hu); pose proof (SQ0 u1) ]; lia. }
    assert (HV : 0 < v1 * v1 + v2 * v2).
    { destruct Hv as [Hv | Hv]; [ pose proof (SQ v1 Hv); pose proof (SQ0 v2) | pose proof (SQ v2 Hv); pose proof (SQ0 v1) ]; lia. }
    assert (0 < (u1 * u1 + u2 * u2) * (v1 * v1 + v2 * v2)) by (apply Z.mul_pos_pos; assumption).
    clear SQ SQ0 Hu Hv HU HV. lia. }
  assert (Hw1 : w1 * k = 0).
  { replace (w1 * k) with ((u1 * w1 + u2 * w2) * v2 - (v1 * w1 + v2 * w2) * u2) by (unfold k; ring). rewrite Huw, Hvw. ring. }
  assert (Hw2 : w2 * k = 0).
  { replace (w2 * k) with ((v1 * w1 + v2 * w2) * u1 - (u1 * w1 + u2 * w2) * v1) by (unfold k; ring). rewrite Huw, Hvw. ring. }
  assert (W1 : w1 = 0) by (apply Z.mul_eq_0 in Hw1; destruct Hw1; [ assumption | contradiction ]).
  assert (W2 : w2 = 0) by (apply Z.mul_eq_0 in Hw2; destruct Hw2; [ assumption | contradiction ]).
  clear H1 H2 H3 Huw Hvw Huv Hu Hv Hk2 Hk Hw1 Hw2 Hd1 Hd2. clear k.
  split; f_equal; unfold w1, w2, a1, a2, b1, b2, c1, c2 in *; lia.
Qed.


Lemma veqb_eq : forall p q : vec, veqb p q = true <-> p = q.
Proof. intros [a b] [c d]. unfold veqb; cbn [fst snd]. split; intro H; [ f_equal; lia | inversion H; lia ]. Qed.

Lemma all_distinct_NoDup : forall l, all_distinct l = true -> NoDup l.
Proof.
  induction l as [|p r IH]; intro H; [ constructor |].
  cbn [all_distinct] in H. apply andb_true_iff in H. destruct H as [H1 H2].
  constructor; [| now apply IH ].
  intro Hin. apply negb_true_iff in H1.
  assert (existsb (veqb p) r = true) by (apply existsb_exists; exists p; split; [ auto | now apply veqb_eq ]). congruence.
Qed.

(* a 4-sided plaquette whose parallelogram defect |P0 + P2 - P1 - P3| is at most (tn/td) * l0^(1/2) *)
Definition face_P (tn td l0 : Z) (L : lattice) (p : plaquette) : Prop :=
  exists a b c d : nat, p_verts p = [a; b; c; d] /\
    norm2 (vsub (vadd (pos_at L a) (pos_at L c)) (vadd (pos_at L b) (pos_at L d))) * (td * td) <= tn * tn * l0.

Lemma face_ok_sound : forall tn td l0 L p, face_ok tn td l0 L p = true -> face_P tn td l0 L p.
Proof.
  intros tn td l0 L p H. unfold face_ok in H. unfold face_P.
  destruct (p_verts p) as [|a [|b [|c [|d [|x r]]]]]; try discriminate.
  exists a, b, c, d. split; [ reflexivity | now apply Z.leb_le ].
Qed.

Definition parallel_P (tn td : Z) (v d : vec) : Prop :=
  vcross v d * vcross v d * (td * td) <= tn * tn * (norm2 v * norm2 d).

Theorem check_rhombus_tiling_sound : forall tn td use_dirs dirs L,
  check_rhombus_tiling tn td use_dirs dirs L = true ->
  wf_lattice L = true /\ 0 <= tn /\ 0 < td /\
  (* open boundary, no self-loops, no two vertices coincide, no dangling edges, inside the unit square *)
  (forall c, In c (crossing L) -> c = vzero) /\
  (forall e, In e (edges L) -> fst e <> snd e) /\
  NoDup (pos L) /\
  (forall v, (v < nV L)%nat -> (2 <= count_ends L v)%nat) /\
  (forall p, In p (pos L) -> 0 <= fst p <= scale L /\ 0 <= snd p <= scale L) /\
  (* connected *)
  (forall v, (v < nV L)%nat -> reach L 0%nat v) /\
  (* no two edges cross *)
  (forall e f, (e < f)%nat -> (f < nE L)%nat -> meet_only_at_common_vertex L (edge_at L e) (edge_at L f)) /\
  (* all edges have the same length up to tn/td; every plaquette is a 4-gon, a parallelogram up to tn/td; V-E+F=1 *)
  (exists e0 rest, edges L = e0 :: rest /\ 0 < len2 L e0 /\
     (forall e, In e (edges L) -> Z.abs (len2 L e - len2 L e0) * td <= tn * len2 L e0) /\
     exists ps, find_all_plaquettes L = Some ps /\
       (forall p, In p ps -> face_P tn td (len2 L e0) L p) /\
       Z.of_nat (nV L) - Z.of_nat (nE L) + Z.of_nat (length ps) = 1) /\
  (* without angle disorder: every edge is parallel (|sin| <= tn/td) to one of the given star directions *)
  (use_dirs = true -> forall e, In e (edges L) ->
     exists d, In d dirs /\ parallel_P tn td (vsub (pos_at L (snd e)) (pos_at L (fst e))) d).
Proof.
  intros tn td use_dirs dirs L H. unfold check_rhombus_tiling in H.
  apply andb_true_iff in H; destruct H as [H Hfaces].
  apply andb_true_iff in H; destruct H as [H Hdirs].
  apply andb_true_iff in H; destruct H as [H Hlen].
  apply andb_true_iff in H; destruct H as [H Hnc].
  apply andb_true_iff in H; destruct H as [H Hconn].
  apply andb_true_iff in H; destruct H as [H Hsq].
  apply andb_true_iff in H; destruct H as [H Hdeg].
  apply andb_true_iff in H; destruct H as [H Hdist].
  apply andb_true_iff in H; destruct H as [H Hloops].
  apply andb_true_iff in H; destruct H as [H Hzero].
  apply andb_true_iff in H; destruct H as [H Htd].
  apply andb_true_iff in H; destruct H as [Hwf Htn].
  split; [ exact Hwf |]. split; [ now apply Z.leb_le |]. split; [ now apply Z.ltb_lt |].
  split.
  { intros c Hc. unfold zero_crossing in Hzero. rewrite forallb_forall in Hzero. now apply veqb_eq, Hzero. }
  split.
  { intros e He. unfold no_self_loops in Hloops. rewrite forallb_forall in Hloops. specialize (Hloops e He). clear - Hloops. lia. }
  split; [ now apply all_distinct_NoDup |].
  split.
  { intros v Hv. unfold degrees_ok in Hdeg. rewrite forallb_forall in Hdeg.
    assert (Hin : In v (seq 0 (nV L))) by (apply in_seq; lia). specialize (Hdeg v Hin). clear - Hdeg. lia. }
  split.
  { intros p Hp. unfold in_unit_square in Hsq. rewrite forallb_forall in Hsq. specialize (Hsq p Hp). clear - Hsq. lia. }
  split; [ now apply bfs_connected_sound |].
  split; [ now apply no_crossing_sound |].
  split.
  { unfold lengths_ok in Hlen. unfold faces_ok in Hfaces.
    destruct (edges L) as [|e0 rest] eqn:Ee; [ discriminate |].
    exists e0, rest. split; [ reflexivity |].
    apply andb_true_iff in Hlen. destruct Hlen as [Hl0 Hl].
    split; [ now apply Z.ltb_lt |].
    split.
    { intros e He. rewrite forallb_forall in Hl. specialize (Hl e He). clear - Hl. lia. }
    destruct (find_all_plaquettes L) as [ps|]; [| discriminate ].
    exists ps. split; [ reflexivity |].
    apply andb_true_iff in Hfaces. destruct Hfaces as [Hf He].
    split; [| now apply Z.eqb_eq ].
    intros p Hp. rewrite forallb_forall in Hf. now apply face_ok_sound, Hf. }
  intros Hu e He. subst use_dirs. unfold directions_ok in Hdirs.
  rewrite forallb_forall in Hdirs. specialize (Hdirs e He). cbv zeta in Hdirs.
  apply existsb_exists in Hdirs. destruct Hdirs as [d [Hd Hp]].
  exists d. split; [ exact Hd |]. unfold parallel_to in Hp. unfold parallel_P. clear - Hp. lia.
Qed.
