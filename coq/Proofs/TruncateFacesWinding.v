(* Proofs/TruncateFacesWinding.v — the coded winding-number filter (walk_valid, third test) passes on the polygon
   created by vertices_to_polygon (C13, "the new polygon as an extra plaquette").
     1. W a b = wrap_count (wP a) (wP b), the summand of Model/Lattice.winding, in closed form for anticlockwise,
        clockwise and parallel pairs; additivity  W a m + W m b = W a b  when the turns a->m and m->b have opposite
        orientations (both of size < pi);
     2. star_winding: for a closed polygon y_0 .. y_n (y_{n+1} = y_0) seen anticlockwise from the origin
        (y_t x y_{t+1} > 0 for all t) the winding number of its edge vectors equals the sum of W (-y_t) (-y_{t+1}):
        the edge directions are deformed into the radial directions -y_t (interleave and remove, by 1.);
     3. for the tips of the outward vectors at v that sum is -1: W (-w_{u+1}) (-w_u) is 0 where the key alpha does
        not wrap (sortedness of sorted_adj) and -1 for the pair (w_0, w_{d-1});
     4. polygon_winding, polygon_walk_valid, polygon_is_plaquette: find_all_plaquettes L' reports the polygon.
   Unbounded in d; no computation on examples. *)
From Coq Require Import List ZArith Bool Arith Lia ZifyBool Permutation Sorted.
From Koala Require Import Model.Lattice Model.Truncate Proofs.LatticeFacts Proofs.TruncateFacts
     Proofs.TruncateDegrees Proofs.TruncateFacesGeom Proofs.TruncateFacesRot Proofs.TruncateFaces.
Import ListNotations.
Open Scope Z_scope.

(* ================================================================== 1. the summand of winding *)
(* w_up / w_lo of Model/Lattice.v read on the un-reflected vector: "points right, or straight down" /
   "points left, or straight up" *)
Definition upx (a : vec) : bool := (0 <? fst a) || ((fst a =? 0) && (snd a <? 0)).
Definition lox (a : vec) : bool := (fst a <? 0) || ((fst a =? 0) && (0 <? snd a)).
Definition W (a b : vec) : Z := wrap_count (wP a) (wP b).

Ltac split_atoms :=
  repeat match goal with
  | |- context [Z.ltb ?a ?b] => destruct (Z.ltb_spec a b); try lia
  | |- context [Z.eqb ?a ?b] => destruct (Z.eqb_spec a b); try lia
  end.

Lemma W_ccw a b : 0 < vcross a b -> W a b = if lox a && upx b then -1 else 0.
Proof.
  destruct a as [ax ay], b as [bx by_]. unfold W, wrap_count, wP, w_up, w_lo, upx, lox, vcross, vdot. cbn [fst snd].
  intros H. split_atoms; cbn; try reflexivity; try lia.
Qed.

Lemma W_cw a b : vcross a b < 0 -> W a b = if upx a && (fst b <? 0) then 1 else 0.
Proof.
  destruct a as [ax ay], b as [bx by_]. unfold W, wrap_count, wP, w_up, w_lo, upx, lox, vcross, vdot. cbn [fst snd].
  intros H. split_atoms; cbn; try reflexivity; try lia.
Qed.

Lemma W_par a b : vcross a b = 0 -> 0 < vdot a b -> W a b = 0.
Proof.
  destruct a as [ax ay], b as [bx by_]. unfold W, wrap_count, wP, w_up, w_lo, upx, lox, vcross, vdot. cbn [fst snd].
  intros H H'. split_atoms; cbn; try reflexivity; try lia.
Qed.

(* a->m and m->b turn in opposite senses by less than pi each: a and b are not antiparallel *)
Lemma opposite_turns_dot a m b :
  (0 < vcross a m /\ vcross m b < 0) \/ (vcross a m < 0 /\ 0 < vcross m b) -> vcross a b = 0 -> 0 < vdot a b.
Proof.
  destruct a as [ax ay], m as [mx my], b as [bx by_]. unfold vcross, vdot. cbn [fst snd]. intros H H3.
  assert (I : (ax * my - ay * mx) * (ax * bx + ay * by_) + (mx * by_ - my * bx) * (ax * ax + ay * ay)
              - (ax * by_ - ay * bx) * (mx * ax + my * ay) = 0) by ring.
  rewrite H3 in I.
  assert (N : 0 < ax * ax + ay * ay).
  { destruct (Z.eq_dec ax 0) as [->|Nx]; [destruct (Z.eq_dec ay 0) as [->|Ny]; [lia|nia]|nia]. }
  set (cam := ax * my - ay * mx) in *. set (cmb := mx * by_ - my * bx) in *.
  set (dt := ax * bx + ay * by_) in *. set (n2 := ax * ax + ay * ay) in *.
  destruct H as [[Ha Hb]|[Ha Hb]].
  - assert (P : 0 < cam * dt) by nia. nia.
  - assert (P : cam * dt < 0) by nia. nia.
Qed.

Lemma add_ccw_cw a m b : 0 < vcross a m -> vcross m b < 0 -> W a m + W m b = W a b.
Proof.
  intros H1 H2. rewrite (W_ccw a m H1), (W_cw m b H2).
  destruct (Z.lt_trichotomy (vcross a b) 0) as [H3|[H3|H3]].
  - rewrite (W_cw a b H3).
    destruct a as [ax ay], m as [mx my], b as [bx by_]. unfold upx, lox, vcross in *. cbn [fst snd] in *.
    assert (X : (ax * my - ay * mx) * bx + (mx * by_ - my * bx) * ax - (ax * by_ - ay * bx) * mx = 0) by ring.
    assert (Y : (ax * my - ay * mx) * by_ + (mx * by_ - my * bx) * ay - (ax * by_ - ay * bx) * my = 0) by ring.
    split_atoms; cbn; try reflexivity; try lia; exfalso; nia.
  - assert (Hd : 0 < vdot a b) by (apply (opposite_turns_dot a m b); [tauto|exact H3]).
    rewrite (W_par a b H3 Hd).
    destruct a as [ax ay], m as [mx my], b as [bx by_]. unfold upx, lox, vcross, vdot in *. cbn [fst snd] in *.
    assert (X : (ax * my - ay * mx) * bx + (mx * by_ - my * bx) * ax - (ax * by_ - ay * bx) * mx = 0) by ring.
    assert (Y : (ax * my - ay * mx) * by_ + (mx * by_ - my * bx) * ay - (ax * by_ - ay * bx) * my = 0) by ring.
    split_atoms; cbn; try reflexivity; try lia; exfalso; nia.
  - rewrite (W_ccw a b H3).
    destruct a as [ax ay], m as [mx my], b as [bx by_]. unfold upx, lox, vcross in *. cbn [fst snd] in *.
    assert (X : (ax * my - ay * mx) * bx + (mx * by_ - my * bx) * ax - (ax * by_ - ay * bx) * mx = 0) by ring.
    assert (Y : (ax * my - ay * mx) * by_ + (mx * by_ - my * bx) * ay - (ax * by_ - ay * bx) * my = 0) by ring.
    split_atoms; cbn; try reflexivity; try lia; exfalso; nia.
Qed.

Lemma add_cw_ccw a m b : vcross a m < 0 -> 0 < vcross m b -> W a m + W m b = W a b.
Proof.
  intros H1 H2. rewrite (W_cw a m H1), (W_ccw m b H2).
  destruct (Z.lt_trichotomy (vcross a b) 0) as [H3|[H3|H3]].
  - rewrite (W_cw a b H3).
    destruct a as [ax ay], m as [mx my], b as [bx by_]. unfold upx, lox, vcross in *. cbn [fst snd] in *.
    assert (X : (ax * my - ay * mx) * bx + (mx * by_ - my * bx) * ax - (ax * by_ - ay * bx) * mx = 0) by ring.
    assert (Y : (ax * my - ay * mx) * by_ + (mx * by_ - my * bx) * ay - (ax * by_ - ay * bx) * my = 0) by ring.
    split_atoms; cbn; try reflexivity; try lia; exfalso; nia.
  - assert (Hd : 0 < vdot a b) by (apply (opposite_turns_dot a m b); [tauto|exact H3]).
    rewrite (W_par a b H3 Hd).
    destruct a as [ax ay], m as [mx my], b as [bx by_]. unfold upx, lox, vcross, vdot in *. cbn [fst snd] in *.
    assert (X : (ax * my - ay * mx) * bx + (mx * by_ - my * bx) * ax - (ax * by_ - ay * bx) * mx = 0) by ring.
    assert (Y : (ax * my - ay * mx) * by_ + (mx * by_ - my * bx) * ay - (ax * by_ - ay * bx) * my = 0) by ring.
    split_atoms; cbn; try reflexivity; try lia; exfalso; nia.
  - rewrite (W_ccw a b H3).
    destruct a as [ax ay], m as [mx my], b as [bx by_]. unfold upx, lox, vcross in *. cbn [fst snd] in *.
    assert (X : (ax * my - ay * mx) * bx + (mx * by_ - my * bx) * ax - (ax * by_ - ay * bx) * mx = 0) by ring.
    assert (Y : (ax * my - ay * mx) * by_ + (mx * by_ - my * bx) * ay - (ax * by_ - ay * bx) * my = 0) by ring.
    split_atoms; cbn; try reflexivity; try lia; exfalso; nia.
Qed.

(* radial directions: W (-p) (-q) for q anticlockwise of p is -1 exactly when the key alpha of the rotation system
   wraps between p (alpha >= pi) and q (alpha < pi) *)
Lemma W_neg_half p q :
  0 < vcross p q -> W (vneg p) (vneg q) = if (half p =? 1) && (half q =? 0) then -1 else 0.
Proof.
  intros H. rewrite W_ccw by (destruct p, q; unfold vcross, vneg in *; cbn [fst snd] in *; lia).
  destruct p as [px py], q as [qx qy].
  destruct (tf_half_01 (px, py)) as [Ep|Ep], (tf_half_01 (qx, qy)) as [Eq|Eq]; rewrite Ep, Eq;
    [apply tf_half_0 in Ep; apply tf_half_0 in Eq | apply tf_half_0 in Ep; apply tf_half_1 in Eq
    |apply tf_half_1 in Ep; apply tf_half_0 in Eq | apply tf_half_1 in Ep; apply tf_half_1 in Eq];
    unfold lox, upx, vneg, vcross in *; cbn [fst snd Z.eqb andb Pos.eqb] in *;
    split_atoms; cbn; try reflexivity; try lia; exfalso; nia.
Qed.

(* ================================================================== 2. winding of a walk given as map D (seq 0 (S n)) *)
Lemma zsum_app l1 l2 : zsum (l1 ++ l2) = zsum l1 + zsum l2.
Proof.
  induction l1 as [|a l IH]; [reflexivity|]. cbn [app]. unfold zsum in *. cbn [fold_right]. rewrite IH. lia.
Qed.

Lemma winding_ne vs : vs <> [] ->
  winding vs = zsum (map (fun ab => wrap_count (fst ab) (snd ab))
                         (combine (last (map wP vs) vzero :: removelast (map wP vs)) (map wP vs))).
Proof. destruct vs; [contradiction|reflexivity]. Qed.

Lemma combine_seq_shift {A} (g : nat -> A) a n :
  combine (map g (seq a n)) (map g (seq (S a) n)) = map (fun t => (g t, g (S t))) (seq a n).
Proof.
  revert a; induction n as [|n IH]; intros a; [reflexivity|]. cbn [seq map combine]. rewrite IH. reflexivity.
Qed.

Lemma winding_seq (D : nat -> vec) n :
  winding (map D (seq 0 (S n))) = W (D n) (D 0%nat) + zsum (map (fun t => W (D t) (D (S t))) (seq 0 n)).
Proof.
  rewrite winding_ne by (cbn; discriminate).
  rewrite map_map. set (g := fun t => wP (D t)).
  assert (E1 : last (map g (seq 0 (S n))) vzero = g n) by apply last_map_seq.
  assert (E2 : removelast (map g (seq 0 (S n))) = map g (seq 0 n)).
  { rewrite seq_S, map_app. cbn [map]. apply removelast_last. }
  rewrite E1, E2.
  change (map g (seq 0 (S n))) with (g 0%nat :: map g (seq 1 n)).
  cbn [combine map zsum fold_right fst snd].
  rewrite combine_seq_shift, map_map. cbn [fst snd]. reflexivity.
Qed.

(* ================================================================== 3. a polygon seen anticlockwise from the origin *)
Lemma cross_edge_in p q : vcross (vsub q p) (vneg q) = vcross p q.
Proof. destruct p, q. unfold vcross, vsub, vneg. cbn [fst snd]. ring. Qed.

Lemma cross_out_edge p q : vcross (vneg p) (vsub q p) = - vcross p q.
Proof. destruct p, q. unfold vcross, vsub, vneg. cbn [fst snd]. ring. Qed.

Theorem star_winding (y : nat -> vec) n :
  y (S n) = y 0%nat ->
  (forall t, (t <= n)%nat -> 0 < vcross (y t) (y (S t))) ->
  winding (map (fun t => vsub (y (S t)) (y t)) (seq 0 (S n))) =
  zsum (map (fun t => W (vneg (y t)) (vneg (y (S t)))) (seq 0 (S n))).
Proof.
  intros Hc Hp. set (D := fun t => vsub (y (S t)) (y t)).
  set (A := fun t => W (vneg (y t)) (D t)). set (B := fun t => W (D t) (vneg (y (S t)))).
  assert (hA : forall t, (t <= n)%nat -> A t + B t = W (vneg (y t)) (vneg (y (S t)))).
  { intros t Ht. unfold A, B, D. apply add_cw_ccw.
    - rewrite cross_out_edge. specialize (Hp t Ht). lia.
    - rewrite cross_edge_in. apply Hp, Ht. }
  assert (hB : forall t, (t < n)%nat -> W (D t) (D (S t)) = B t + A (S t)).
  { intros t Ht. unfold A, B, D. symmetry. apply add_ccw_cw.
    - rewrite cross_edge_in. apply Hp. lia.
    - rewrite cross_out_edge. assert (0 < vcross (y (S t)) (y (S (S t)))) by (apply Hp; lia). lia. }
  assert (hW : W (D n) (D 0%nat) = B n + A 0%nat).
  { unfold A, B. rewrite Hc. symmetry. unfold D at 1 3 4. apply add_ccw_cw.
    - rewrite <- Hc. rewrite cross_edge_in. apply Hp. lia.
    - rewrite cross_out_edge. assert (0 < vcross (y 0%nat) (y 1%nat)) by (apply Hp; lia). lia. }
  rewrite (winding_seq D n), hW.
  rewrite (map_ext_in _ (fun t => B t + A (S t))) by (intros t Ht; apply in_seq in Ht; apply hB; lia).
  rewrite (map_ext_in (fun t => W (vneg (y t)) (vneg (y (S t)))) (fun t => A t + B t))
    by (intros t Ht; apply in_seq in Ht; symmetry; apply hA; lia).
  rewrite !zsum_map_add.
  assert (EA : zsum (map A (seq 0 (S n))) = A 0%nat + zsum (map (fun t => A (S t)) (seq 0 n))).
  { change (seq 0 (S n)) with (0%nat :: seq 1 n). cbn [map zsum fold_right]. rewrite <- seq_shift, map_map. reflexivity. }
  assert (EB : zsum (map B (seq 0 (S n))) = zsum (map B (seq 0 n)) + B n).
  { rewrite seq_S, map_app, zsum_app. cbn. lia. }
  rewrite EA, EB. lia.
Qed.

(* ================================================================== sortedness, in index form *)
Lemma tf_ang_lt_irrefl v : ang_lt v v = false.
Proof. unfold ang_lt. destruct (tf_half_01 v); lia. Qed.

(* transitivity of "alpha >=" needs a non-zero middle vector *)
Lemma tf_ang_ge_trans v w u :
  w <> vzero -> ang_lt v w = false -> ang_lt w u = false -> ang_lt v u = false.
Proof.
  destruct v as [xv yv], w as [xw yw], u as [xu yu]. intros Hw. unfold ang_lt, half, vzero in *. cbn [fst snd].
  assert (Hnz : xw <> 0 \/ yw <> 0).
  { destruct (Z.eq_dec xw 0), (Z.eq_dec yw 0); subst; auto; exfalso; apply Hw; reflexivity. }
  clear Hw. intros H1 H2.
  assert (I1 : (yv * - xu - - xv * yu) * - xw = (yv * - xw - - xv * yw) * - xu + (yw * - xu - - xw * yu) * - xv) by ring.
  assert (I2 : (yv * - xu - - xv * yu) * yw = (yv * - xw - - xv * yw) * yu + (yw * - xu - - xw * yu) * yv) by ring.
  destruct (Z.ltb_spec 0 (- xv)), (Z.eqb_spec (- xv) 0), (Z.ltb_spec 0 yv),
           (Z.ltb_spec 0 (- xw)), (Z.eqb_spec (- xw) 0), (Z.ltb_spec 0 yw),
           (Z.ltb_spec 0 (- xu)), (Z.eqb_spec (- xu) 0), (Z.ltb_spec 0 yu);
    cbn in *; try lia; try nia.
Qed.

Lemma sorted_nth {A} (R : A -> A -> Prop) l dflt :
  Sorted R l -> forall i, (S i < length l)%nat -> R (nth i l dflt) (nth (S i) l dflt).
Proof.
  induction 1 as [|a l Hs IH Hd]; intros i Hi; [cbn in Hi; lia|].
  destruct i as [|i].
  - destruct l as [|b l]; [cbn in Hi; lia|]. inversion Hd; subst. assumption.
  - cbn [nth]. apply IH. cbn [length] in Hi. lia.
Qed.

Lemma zsum_zero (f : nat -> Z) l : (forall t, In t l -> f t = 0) -> zsum (map f l) = 0.
Proof.
  induction l as [|b r IH]; intros H; [reflexivity|]. cbn [map zsum fold_right]. fold (zsum (map f r)).
  rewrite (H b) by (left; reflexivity). rewrite IH; [reflexivity|]. intros t Ht. apply H. right. exact Ht.
Qed.

Lemma zsum_single (f : nat -> Z) l a :
  NoDup l -> In a l -> (forall t, In t l -> t <> a -> f t = 0) -> zsum (map f l) = f a.
Proof.
  intros Hnd; induction Hnd as [|y r Hy Hnd IH]; intros Hin Hz; [destruct Hin|].
  cbn [map zsum fold_right]. fold (zsum (map f r)). destruct (Nat.eq_dec y a) as [->|E].
  - rewrite zsum_zero; [lia|]. intros t Ht. apply Hz; [right; exact Ht|]. intros ->. contradiction.
  - destruct Hin as [Hin|Hin]; [contradiction|]. rewrite (Hz y) by (cbn; auto).
    rewrite IH; [lia|exact Hin|]. intros t Ht. apply Hz. right. exact Ht.
Qed.

Section Winding.
Variables (L : lattice) (vs : option (list nat)) (v : nat).
Hypothesis Hg : good L.
Hypothesis Hv : (v < nV L)%nat.
Hypothesis Htr : is_truncated L vs v = true.
Hypothesis Hcw : turns_cw L v = true.
Local Set Default Proof Using "Hg Hv Htr Hcw".

Local Notation L' := (trunc_spec L vs).
Local Notation d := (length (sorted_adj L v)).

Lemma wv_adjacent u : (S u < d)%nat -> ang_lt (wv L v u) (wv L v (S u)) = false.
Proof.
  intros Hu. exact (sorted_nth _ _ 0%nat (tf_sorted_adj_sorted L v) u Hu).
Qed.

Lemma wv_nonzero u : (u < d)%nat -> wv L v u <> vzero.
Proof.
  intros Hu E. pose proof (turns_cw_at L v u Hcw Hu) as H. rewrite E in H. unfold vcross, vzero in H. cbn in H. lia.
Qed.

(* alpha (w_0) >= alpha (w_j) for every j *)
Lemma wv_first_largest j : (j < d)%nat -> ang_lt (wv L v 0) (wv L v j) = false.
Proof.
  induction j as [|j IH]; intros Hj; [apply tf_ang_lt_irrefl|].
  apply (tf_ang_ge_trans _ (wv L v j)); [apply wv_nonzero; lia|apply IH; lia|apply wv_adjacent, Hj].
Qed.

(* the radial term of corner pair (w_{x+1}, w_x) *)
Lemma radial_term x : (x < d)%nat ->
  W (vneg (wv L v (Nat.modulo (x + 1) d))) (vneg (wv L v x)) = if (x + 1 =? d)%nat then -1 else 0.
Proof.
  intros Hx. pose proof (turns_cw_at L v x Hcw Hx) as Hc.
  rewrite W_neg_half by (unfold vcross in *; lia).
  rewrite mod_succ_spec in * by exact Hx.
  destruct (Nat.eqb_spec (x + 1) d) as [E|E].
  - assert (Hge : ang_lt (wv L v 0) (wv L v x) = false) by (apply wv_first_largest, Hx).
    destruct (ang_ge_cross_pos _ _ Hge ltac:(unfold vcross in *; lia)) as [-> ->]. reflexivity.
  - assert (Hge : ang_lt (wv L v x) (wv L v (x + 1)) = false) by (rewrite Nat.add_1_r; apply wv_adjacent; lia).
    unfold ang_lt in Hge. destruct (tf_half_01 (wv L v x)) as [E0|E0], (tf_half_01 (wv L v (x + 1))) as [E1|E1];
      rewrite E0, E1 in *; cbn in *; try reflexivity; lia.
Qed.

(* (3b) the coded winding number of the polygon walk is -1, for every starting corner *)
Theorem polygon_winding u0 : (u0 < d)%nat -> winding (map (dvec L') (pwalk L vs v u0)) = -1.
Proof.
  intros Hu0. pose proof (d_pos L vs v Hg Hv Htr Hcw) as Hd.
  rewrite (pwalk_dvecs L vs v Hg Hv Htr Hcw u0 Hu0).
  set (y := fun t => wv L v (Nat.modulo (idx d u0 t + 1) d)).
  change (winding (map (fun t => vsub (y (S t)) (y t)) (seq 0 d)) = -1).
  assert (Ed : seq 0 d = seq 0 (S (d - 1))) by (f_equal; lia).
  assert (yS : forall t, (t < d)%nat -> y (S t) = wv L v (idx d u0 t)).
  { intros t Ht. unfold y. rewrite idx_S by assumption. rewrite succ_pu by (apply idx_lt; lia). reflexivity. }
  rewrite Ed.
  rewrite (star_winding y (d - 1)).
  - rewrite <- Ed.
    set (ts := if (u0 + 1 =? d)%nat then 0%nat else (u0 + 1)%nat).
    assert (Hts : (ts < d)%nat) by (unfold ts; destruct (Nat.eqb_spec (u0 + 1) d); lia).
    assert (Its : (idx d u0 ts + 1)%nat = d).
    { unfold ts, idx. destruct (Nat.eqb_spec (u0 + 1) d); [cbn; lia|]. destruct (Nat.leb_spec (u0 + 1) u0); lia. }
    rewrite (zsum_single _ (seq 0 d) ts); [|apply seq_NoDup|apply in_seq; lia|].
    + rewrite yS by exact Hts. unfold y. rewrite radial_term by (apply idx_lt; lia).
      rewrite Its, Nat.eqb_refl. reflexivity.
    + intros t Ht Hne. apply in_seq in Ht. rewrite yS by lia. unfold y. rewrite radial_term by (apply idx_lt; lia).
      destruct (Nat.eqb_spec (idx d u0 t + 1) d) as [E|E]; [|reflexivity].
      exfalso. apply Hne. apply (idx_inj d u0); lia.
  - replace (S (d - 1)) with d by lia. unfold y. rewrite idx_d, idx_0 by exact Hu0. reflexivity.
  - intros t Ht. rewrite yS by lia. unfold y.
    pose proof (turns_cw_at L v (idx d u0 t) Hcw ltac:(apply idx_lt; lia)) as Hc.
    unfold vcross in *. lia.
Qed.

Theorem polygon_walk_valid u0 : (u0 < d)%nat -> walk_valid L' (pwalk L vs v u0) = true.
Proof.
  intros Hu0. unfold walk_valid.
  destruct (polygon_filters L vs v Hg Hv Htr Hcw u0 Hu0) as [-> ->].
  rewrite (polygon_winding u0 Hu0). reflexivity.
Qed.

(* the new polygon is an entry of the plaquette list of the truncated lattice *)
Theorem polygon_is_plaquette :
  exists ps, find_all_plaquettes L' = Some ps /\
    exists u0, (u0 < d)%nat /\ In (mk_plaquette L' (pwalk L vs v u0)) ps /\
               n_sides (mk_plaquette L' (pwalk L vs v u0)) = d /\
               p_winding (mk_plaquette L' (pwalk L vs v u0)) = -1 /\
               0 < p_area2 (mk_plaquette L' (pwalk L vs v u0)).
Proof.
  destruct (polygon_is_plaquette_partial L vs v Hg Hv Htr Hcw polygon_winding) as (ps & E & u0 & Hu0 & Hin & Hn).
  exists ps. split; [exact E|]. exists u0. split; [exact Hu0|]. split; [exact Hin|]. split; [exact Hn|].
  unfold mk_plaquette. cbn [p_winding p_area2]. split; [apply polygon_winding, Hu0|].
  apply (polygon_area_positive L vs v Hg Hv Htr Hcw u0 Hu0).
Qed.
End Winding.

(* ================================================================== assembled statements (explicit hypotheses) *)
Theorem truncate_polygon_walk_valid (L : lattice) (vs : option (list nat)) (v u0 : nat) :
  wf_lattice L = true -> no_self_loops L = true -> (v < nV L)%nat -> is_truncated L vs v = true ->
  turns_cw L v = true -> (u0 < length (sorted_adj L v))%nat ->
  exists L', vertices_to_polygon L vs = Some L' /\
    winding (map (dvec L') (pwalk L vs v u0)) = -1 /\ walk_valid L' (pwalk L vs v u0) = true.
Proof.
  intros Hwf Hnl Hv Htr Hcw Hu0. assert (Hg : good L) by (split; assumption).
  exists (trunc_spec L vs). split; [apply vertices_to_polygon_spec; exact Hg|].
  split; [apply polygon_winding; assumption|apply polygon_walk_valid; assumption].
Qed.

Theorem truncate_polygon_is_plaquette (L : lattice) (vs : option (list nat)) (v : nat) :
  wf_lattice L = true -> no_self_loops L = true -> (v < nV L)%nat -> is_truncated L vs v = true ->
  turns_cw L v = true ->
  exists L' ps, vertices_to_polygon L vs = Some L' /\ find_all_plaquettes L' = Some ps /\
    exists u0, (u0 < length (sorted_adj L v))%nat /\
      let p := mk_plaquette L' (pwalk L vs v u0) in
      In p ps /\ n_sides p = length (sorted_adj L v) /\
      p_edges p = walk_edges (pwalk L vs v u0) /\ p_verts p = walk_verts (pwalk L vs v u0) /\
      p_dirs p = walk_dirs (pwalk L vs v u0) /\
      p_winding p = -1 /\ 0 < p_area2 p.
Proof.
  intros Hwf Hnl Hv Htr Hcw. assert (Hg : good L) by (split; assumption).
  destruct (polygon_is_plaquette L vs v Hg Hv Htr Hcw) as (ps & E & u0 & Hu0 & Hin & Hn & Hw & Ha).
  exists (trunc_spec L vs), ps. split; [apply vertices_to_polygon_spec; exact Hg|]. split; [exact E|].
  exists u0. split; [exact Hu0|]. cbv zeta. repeat split; assumption.
Qed.
