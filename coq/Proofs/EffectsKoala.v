(* C15 — the analysis verdicts on the IR generated from today's koala source (kernel vm_compute). *)
From Coq Require Import List Bool.
Import ListNotations.
From Koala Require Import Model.Effects Gen.EffectsIR.

Lemma koala_public_pure : forallb (no_arg_write_entry prog) public_functions = true.
Proof. vm_compute. reflexivity. Qed.

Lemma koala_extra_pure : forallb (no_arg_write_entry prog) public_extra = true.
Proof. vm_compute. reflexivity. Qed.

Lemma koala_escaping_pure : forallb (no_arg_write_entry prog) escaping_functions = true.
Proof. vm_compute. reflexivity. Qed.

(* the universal client (any sequence of public calls on shared objects) is accepted with every
   client variable tainted *)
Lemma koala_client_accepted : exists a',
  aexec (afun prog (dyn_ok prog) LOOP_FUEL (S (length prog))) (dyn_ok prog) LOOP_FUEL koala_client (repeat (true, true) client_nvars) = Some a'.
Proof. eexists. vm_compute. reflexivity. Qed.

(* ------------------------------------------------------------------ end-to-end corollaries
   analysis_sound(_mask) instantiated with the verdicts above: concrete statements about the IR
   body of EVERY entry of the generated lists, for all argument values and all stores. *)
From Coq Require Import Arith Lia.
From Koala Require Import Proofs.EffectsFacts.

(* "running f's IR body leaves every location owned by / reachable from the tainted arguments
   unchanged", for all argument values, stores and executions *)
Definition pure_on_args (f : fname) (mask : list bool) : Prop :=
  forall fd argvals st0 st',
    nth_error prog f = Some fd ->
    (forall x, env st0 x = call_env (f_nparams fd) argvals x) ->
    separated (args_locs mask argvals) mask argvals ->
    (forall l, In l (args_locs mask argvals) -> l < next st0) ->
    exec prog (f_body fd) st0 st' ->
    forall l, In l (args_locs mask argvals) -> heap st' l = heap st0 l.

(* the same without side condition, for entries whose every formal is tainted *)
Definition pure_on_all_args (f : fname) : Prop :=
  forall fd argvals st0 st',
    nth_error prog f = Some fd ->
    length argvals = f_nparams fd ->
    (forall x, env st0 x = call_env (f_nparams fd) argvals x) ->
    (forall l, In l (flat_map (fun v => own v ++ reach v) argvals) -> l < next st0) ->
    exec prog (f_body fd) st0 st' ->
    forall l, In l (flat_map (fun v => own v ++ reach v) argvals) -> heap st' l = heap st0 l.

Lemma entry_pure : forall es, forallb (no_arg_write_entry prog) es = true ->
  forall e, In e es -> pure_on_args (fst e) (snd e).
Proof.
  intros es H e He fd argvals st0 st' Hf Henv Hsep Hbd Hex.
  rewrite forallb_forall in H. specialize (H e He). unfold no_arg_write_entry in H.
  eapply analysis_sound_mask; eauto.
Qed.

Theorem koala_public_each_pure : forall e, In e public_functions -> pure_on_args (fst e) (snd e).
Proof. exact (entry_pure _ koala_public_pure). Qed.

Theorem koala_extra_each_pure : forall e, In e public_extra -> pure_on_args (fst e) (snd e).
Proof. exact (entry_pure _ koala_extra_pure). Qed.

Theorem koala_escaping_each_pure : forall e, In e escaping_functions -> pure_on_args (fst e) (snd e).
Proof. exact (entry_pure _ koala_escaping_pure). Qed.

Lemma forallb_true_repeat : forall m, forallb (fun b : bool => b) m = true -> m = repeat true (length m).
Proof. induction m as [|b m IH]; simpl; intro H; [reflexivity|]. destruct b; [|discriminate]. f_equal. auto. Qed.

(* entries whose mask taints every formal (no sink, no self under construction) *)
Theorem koala_public_each_pure_all_args : forall e, In e public_functions ->
  forallb (fun b : bool => b) (snd e) = true -> pure_on_all_args (fst e).
Proof.
  intros [f mask] He Hall fd argvals st0 st' Hf Hlen Henv Hbd Hex. simpl in *.
  assert (Hm : mask = repeat true (f_nparams fd)).
  { assert (W : forallb (fun e => match nth_error prog (fst e) with
                                   | Some fd => Nat.eqb (length (snd e)) (f_nparams fd) | None => false end)
                        public_functions = true) by (vm_compute; reflexivity).
    rewrite forallb_forall in W. specialize (W _ He). simpl in W. rewrite Hf in W.
    apply Nat.eqb_eq in W. rewrite <- W. apply forallb_true_repeat. exact Hall. }
  pose proof koala_public_pure as H. rewrite forallb_forall in H. specialize (H _ He).
  unfold no_arg_write_entry in H. simpl in H.
  eapply analysis_sound; eauto. unfold no_arg_write. rewrite Hf, <- Hm. exact H.
Qed.

(* well-formedness of the generated lists (so that the statements above are not vacuous): every
   entry names an existing IR function and its mask has one bit per formal *)
Definition entry_wf (e : fname * list bool) : bool :=
  match nth_error prog (fst e) with
  | Some fd => Nat.eqb (length (snd e)) (f_nparams fd)
  | None => false
  end.

Lemma koala_entries_wf :
  forallb entry_wf public_functions && forallb entry_wf public_extra && forallb entry_wf escaping_functions = true.
Proof. vm_compute. reflexivity. Qed.

(* the candidate callees of run-time callables are verified: dyn_ok prog is the membership test *)
Lemma koala_dyn_targets_verified :
  prog_targets prog <> [] /\
  forallb (target_verified prog (prog_targets prog)) (prog_targets prog) = true.
Proof. split; [vm_compute; discriminate|vm_compute; reflexivity]. Qed.

(* ------------------------------------------------------------------ named functions *)
From Coq Require Import String.
Fixpoint index_of (name : string) (names : list string) (i : nat) : option nat :=
  match names with
  | [] => None
  | n :: rest => if String.eqb name n then Some i else index_of name rest (S i)
  end.

(* the entry (IR index, taint mask) of the public function with this qualified name *)
Definition public_entry (name : string) : option (fname * list bool) :=
  match index_of name fnames 0 with
  | None => None
  | Some i => find (fun e => Nat.eqb (fst e) i) public_functions
  end.

Lemma public_entry_pure : forall name e, public_entry name = Some e -> pure_on_args (fst e) (snd e).
Proof.
  intros name e H. unfold public_entry in H. destruct (index_of name fnames 0) as [i|]; [|discriminate].
  apply find_some in H. destruct H as [Hin _]. apply koala_public_each_pure. exact Hin.
Qed.

Definition named_pure (name : string) : Prop :=
  exists e, public_entry name = Some e /\ pure_on_args (fst e) (snd e).

Lemma named_pure_of_lookup : forall names,
  forallb (fun n => match public_entry n with Some _ => true | None => false end) names = true ->
  Forall named_pure names.
Proof.
  intros names H. rewrite forallb_forall in H. apply Forall_forall. intros n Hn. specialize (H n Hn).
  destruct (public_entry n) as [e|] eqn:E; [|discriminate]. exists e. split; [exact E|].
  eapply public_entry_pure; eauto.
Qed.

(* the operations the property's statement names (bond variables, colourings, couplings, flux targets,
   point sets, index lists, permutations, colour schemes ...) *)
Definition named_operations : list string :=
  ["flux_finder.flux_finder:fluxes_from_bonds"; "flux_finder.flux_finder:fluxes_from_ujk";
   "flux_finder.flux_finder:find_flux_sector"; "flux_finder.flux_finder:ujk_from_fluxes";
   "flux_finder.flux_finder:n_to_ujk_flipped"; "flux_finder.pathfinding:path_between_plaquettes";
   "flux_finder.pathfinding:path_between_vertices"; "flux_finder.pathfinding:a_star_search_forward_pass";
   "hamiltonian:majorana_hamiltonian"; "hamiltonian:bisect_lattice"; "phase_space:k_hamiltonian_generator";
   "phase_space:analyse_hk"; "chern_number:chern_marker"; "chern_number:crosshair_marker";
   "graph_color:color_lattice"; "graph_color:edge_color"; "graph_color:vertex_color";
   "graph_utils:make_dual"; "graph_utils:vertices_to_polygon"; "graph_utils:remove_vertices";
   "graph_utils:remove_trailing_edges"; "graph_utils:plaquette_spanning_tree"; "graph_utils:dimerise";
   "graph_utils:lloyd_relaxation"; "graph_utils:reorder_vertices";
   "lattice:cut_boundaries"; "lattice:permute_vertices"; "lattice:Lattice.__init__"; "lattice:Lattice.plaquettes";
   "voronization:generate_lattice"; "voronization:generate_point_array";
   "plotting:plot_edges"; "plotting:plot_vertices"; "plotting:plot_plaquettes"; "plotting:plot_lattice";
   "plotting:plot_dual"; "plotting:plot_scalar"]%string.

Lemma koala_named_operations_pure : Forall named_pure named_operations.
Proof. apply named_pure_of_lookup. vm_compute. reflexivity. Qed.

(* ------------------------------------------------------------------ the verdicts do not depend on the fuel constants *)
From Koala Require Import Proofs.EffectsMono.

Theorem koala_pure_any_larger_fuel : forall lf d, LOOP_FUEL <= lf -> S (List.length prog) <= d ->
  forall e, In e (public_functions ++ public_extra ++ escaping_functions) ->
    verdict_with_fuel prog lf d (fst e) (snd e) = true.
Proof.
  intros lf d Hl Hd e He.
  apply (verdict_fuel_monotone prog LOOP_FUEL (S (List.length prog)) lf d); [exact Hl|exact Hd|].
  rewrite <- no_arg_write_mask_is_verdict.
  pose proof koala_public_pure as H1. pose proof koala_extra_pure as H2. pose proof koala_escaping_pure as H3.
  rewrite forallb_forall in H1, H2, H3.
  apply in_app_or in He. destruct He as [He|He]; [exact (H1 _ He)|].
  apply in_app_or in He. destruct He as [He|He]; [exact (H2 _ He)|exact (H3 _ He)].
Qed.
