(* C15 — the analysis verdicts on the IR generated from today's koala source (kernel vm_compute). *)
From Coq Require Import List Bool.
Import ListNotations.
From Koala Require Import Model.Effects Gen.EffectsIR.

Lemma koala_public_pure : forallb (no_arg_write_entry prog) public_functions = true.
Proof. vm_compute. reflexivity. Qed.

Lemma koala_extra_pure : forallb (no_arg_write_entry prog) public_extra = true.
Proof. vm_compute. reflexivity. Qed.

Lemma koala_escaping_pure : forallb (no_arg_write_entry prog) escaping_functions = true.
Proof. vm_compute. reflexivity. Qed.

(* the universal client (any sequence of public calls on shared objects) is accepted with every
   client variable tainted *)
Lemma koala_client_accepted : exists a',
  aexec (afun prog LOOP_FUEL (S (length prog))) LOOP_FUEL koala_client (repeat (true, true) client_nvars) = Some a'.
Proof. eexists. vm_compute. reflexivity. Qed.
